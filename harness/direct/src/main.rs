// Direct driver for peginator's public runtime/codegen API.
// Protocol: one request per stdin line, tab-separated, byte strings in hex;
// one response line per request.
use std::io::{self, BufRead, Write};
use std::panic;

use peginator::{ParseError, ParseErrorSpecifics, PrettyParseError};

fn unhex(s: &str) -> Vec<u8> {
    (0..s.len() / 2)
        .map(|i| u8::from_str_radix(&s[2 * i..2 * i + 2], 16).unwrap())
        .collect()
}
fn hex(b: &[u8]) -> String {
    b.iter().map(|x| format!("{:02x}", x)).collect()
}

fn pretty(args: &[&str]) -> String {
    // pretty <hex text> <pos> <0|1 with file name>
    let text = String::from_utf8(unhex(args[0])).unwrap();
    let pos: usize = args[1].parse().unwrap();
    let with_file = args[2] == "1";
    let r = panic::catch_unwind(|| {
        let err = ParseError {
            position: pos,
            specifics: ParseErrorSpecifics::Other,
        };
        let p = PrettyParseError::from_parse_error(
            &err,
            &text,
            if with_file { Some("F.ebnf") } else { None },
        );
        format!("{}", p)
    });
    match r {
        Ok(s) => format!("OK\t{}", hex(s.as_bytes())),
        Err(_) => "PANIC".to_string(),
    }
}

fn spec_str(s: &ParseErrorSpecifics) -> String {
    match s {
        ParseErrorSpecifics::ExpectedAnyCharacter => "any".into(),
        ParseErrorSpecifics::ExpectedCharacter { c } => format!("char:{}", *c as u32),
        ParseErrorSpecifics::ExpectedCharacterRange { from, to } => format!("range:{}:{}", *from as u32, *to as u32),
        ParseErrorSpecifics::ExpectedString { s } => format!("str:{}", hex(s.as_bytes())),
        ParseErrorSpecifics::ExpectedCharacterClass { name } => format!("class:{}", hex(name.as_bytes())),
        ParseErrorSpecifics::ExpectedEoi => "eoi".into(),
        ParseErrorSpecifics::NegativeLookaheadFailed => "neg".into(),
        ParseErrorSpecifics::CheckFunctionFailed { function_name } => format!("check:{}", hex(function_name.as_bytes())),
        ParseErrorSpecifics::ExternRuleFailed { error_string } => format!("extern:{}", hex(error_string.as_bytes())),
        ParseErrorSpecifics::LeftRecursionSentinel => "sentinel".into(),
        ParseErrorSpecifics::Other => "other".into(),
    }
}

fn leak(s: String) -> &'static str {
    Box::leak(s.into_boxed_str())
}

// term <kind> <p1> <p2> <hex input>: one runtime matcher on a fresh state
fn term(args: &[&str]) -> String {
    use peginator::*;
    let kind = args[0].to_string();
    let p1 = args[1].to_string();
    let p2 = args[2].to_string();
    let input = String::from_utf8(unhex(args[3])).unwrap();
    let r = panic::catch_unwind(move || {
        let settings = ParseSettings::default();
        let st = ParseState::new(&input, &settings);
        fn fin<T>(r: ParseResult<T>, f: impl Fn(&T) -> String) -> String {
            match r {
                Ok(ok) => format!("OK\t{}\t{}", ok.state.cache_key(), f(&ok.result)),
                Err(e) => format!("ERR\t{}\t{}", e.position, spec_str(&e.specifics)),
            }
        }
        let ch = |s: &str| char::from_u32(s.parse::<u32>().unwrap()).unwrap();
        match kind.as_str() {
            "char" => fin(parse_char(st, ()), |c| format!("{}", *c as u32)),
            "ws" => fin(parse_Whitespace(st, ()), |_| "-".into()),
            "eoi" => fin(parse_end_of_input(st), |_| "-".into()),
            "lit" => fin(parse_string_literal(st, leak(String::from_utf8(unhex(&p1)).unwrap())), |_| "-".into()),
            "ilit" => fin(parse_string_literal_insensitive(st, leak(String::from_utf8(unhex(&p1)).unwrap())), |_| "-".into()),
            "clit" => fin(parse_character_literal(st, ch(&p1)), |c| format!("{}", *c as u32)),
            "iclit" => fin(parse_character_literal_insensitive(st, ch(&p1)), |c| format!("{}", *c as u32)),
            "range" => fin(parse_character_range(st, ch(&p1), ch(&p2)), |c| format!("{}", *c as u32)),
            _ => "BADKIND".into(),
        }
    });
    match r {
        Ok(s) => s,
        Err(_) => "PANIC".to_string(),
    }
}

// compile <mode file|dir> <source path> <dest path or -> <format 0|1> <prefix hex> <derives or ->
fn compile(args: &[&str]) -> String {
    use peginator_codegen::Compile;
    let mode = args[0].to_string();
    let src = args[1].to_string();
    let dest = args[2].to_string();
    let format = args[3] == "1";
    let prefix = String::from_utf8(unhex(args[4])).unwrap();
    // optional 6th argument: further builder calls, in the order given, separated by ';'
    //   d=<name,name,..>  .derives(..)      u=<type>  .user_context_type(..)
    let extra: Vec<String> = if args.len() > 5 && !args[5].is_empty() { args[5].split(';').map(|x| x.to_string()).collect() } else { Vec::new() };
    let r = panic::catch_unwind(move || {
        let mut c = if mode == "dir" { Compile::directory(&src) } else { Compile::file(&src) };
        if dest != "-" {
            c = c.destination(&dest);
        }
        if format {
            c = c.format();
        }
        c = c.prefix(prefix);
        for e in &extra {
            if let Some(d) = e.strip_prefix("d=") {
                c = c.derives(if d.is_empty() { Vec::new() } else { d.split(',').map(|x| x.to_string()).collect() });
            } else if let Some(u) = e.strip_prefix("u=") {
                c = c.user_context_type(u);
            }
        }
        c.run()
    });
    match r {
        Ok(Ok(())) => "OK".to_string(),
        Ok(Err(e)) => format!("ERR\t{}", hex(format!("{:#}", e).as_bytes())),
        Err(_) => "PANIC".to_string(),
    }
}

fn header(args: &[&str]) -> String {
    let text = String::from_utf8(unhex(args[0])).unwrap();
    hex(peginator_codegen::generate_source_header(&text).as_bytes())
}

fn main() {
    // vp-direct exit_on_error <grammar file> <destination>: the build-script helper as a build script calls it
    let argv: Vec<String> = std::env::args().collect();
    if argv.len() == 4 && argv[1] == "exit_on_error" {
        use peginator_codegen::Compile;
        Compile::file(&argv[2]).destination(&argv[3]).run_exit_on_error();
        println!("RETURNED");
        return;
    }
    panic::set_hook(Box::new(|_| {}));
    let stdin = io::stdin();
    let stdout = io::stdout();
    let mut out = io::BufWriter::new(stdout.lock());
    for line in stdin.lock().lines() {
        let line = line.unwrap();
        let parts: Vec<&str> = line.split('\t').collect();
        let resp = match parts[0] {
            "pretty" => pretty(&parts[1..]),
            "term" => term(&parts[1..]),
            "compile" => compile(&parts[1..]),
            "header" => header(&parts[1..]),
            other => format!("UNKNOWN\t{}", other),
        };
        writeln!(out, "{}", resp).unwrap();
    }
}
