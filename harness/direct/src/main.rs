// Direct driver for peginator's public runtime/codegen API.
// Protocol: one request per stdin line, tab-separated, byte strings in hex;
// one response line per request.
use std::io::{self, BufRead, Write};
use std::panic;

use peginator::{ParseError, ParseErrorSpecifics, PrettyParseError};

fn unhex(s: &str) -> Vec<u8> {
    (0..s.len() / 2)
        .map(|i| u8::from_str_radix(&s[2 * i..2 * i + 2], 16).unwrap())
        .collect()
}
fn hex(b: &[u8]) -> String {
    b.iter().map(|x| format!("{:02x}", x)).collect()
}

fn pretty(args: &[&str]) -> String {
    // pretty <hex text> <pos> <0|1 with file name>
    let text = String::from_utf8(unhex(args[0])).unwrap();
    let pos: usize = args[1].parse().unwrap();
    let with_file = args[2] == "1";
    let r = panic::catch_unwind(|| {
        let err = ParseError {
            position: pos,
            specifics: ParseErrorSpecifics::Other,
        };
        let p = PrettyParseError::from_parse_error(
            &err,
            &text,
            if with_file { Some("F.ebnf") } else { None },
        );
        format!("{}", p)
    });
    match r {
        Ok(s) => format!("OK\t{}", hex(s.as_bytes())),
        Err(_) => "PANIC".to_string(),
    }
}

fn main() {
    panic::set_hook(Box::new(|_| {}));
    let stdin = io::stdin();
    let stdout = io::stdout();
    let mut out = io::BufWriter::new(stdout.lock());
    for line in stdin.lock().lines() {
        let line = line.unwrap();
        let parts: Vec<&str> = line.split('\t').collect();
        let resp = match parts[0] {
            "pretty" => pretty(&parts[1..]),
            other => format!("UNKNOWN\t{}", other),
        };
        writeln!(out, "{}", resp).unwrap();
    }
}
