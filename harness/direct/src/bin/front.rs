// vp-front: the real front end and the real code generator, driven directly.
//   vp-front dump <grammar file>                 -> s-expression of the AST, or PARSE-ERROR
//   vp-front gen <grammar file> [ctx=<type>] [derives=a,b,c]  -> generated code, or ERROR
use std::fmt::Write as _;
use std::str::FromStr;

use peginator_codegen::grammar::*;
use peginator_codegen::{CodegenGrammar, CodegenSettings, Grammar};

fn nm(s: &str) -> String {
    let mut o = String::from("n:");
    for b in s.as_bytes() {
        write!(o, "{:02x}", b).unwrap();
    }
    o
}

fn path(p: &[String]) -> String {
    let mut o = String::from("(");
    for (i, x) in p.iter().enumerate() {
        if i > 0 {
            o.push(' ');
        }
        o.push_str(&nm(x));
    }
    o.push(')');
    o
}

fn item(i: &StringItem) -> String {
    match i {
        StringItem::HexaEscape(h) => format!("(hexa {} {})", h.c1 as u32, h.c2 as u32),
        StringItem::SimpleEscape(s) => format!(
            "(simple {})",
            match s {
                SimpleEscape::SimpleEscapeBackslash(_) => "backslash",
                SimpleEscape::SimpleEscapeCarriageReturn(_) => "cr",
                SimpleEscape::SimpleEscapeDQuote(_) => "dquote",
                SimpleEscape::SimpleEscapeNewline(_) => "nl",
                SimpleEscape::SimpleEscapeQuote(_) => "quote",
                SimpleEscape::SimpleEscapeTab(_) => "tab",
            }
        ),
        StringItem::Utf8Escape(u) => {
            let o = |c: &Option<char>| match c {
                Some(c) => format!("{}", *c as u32),
                None => "-".to_string(),
            };
            format!(
                "(utf8 {} {} {} {} {} {})",
                u.c1 as u32,
                o(&u.c2),
                o(&u.c3),
                o(&u.c4),
                o(&u.c5),
                o(&u.c6)
            )
        }
        StringItem::char(c) => format!("(char {})", *c as u32),
    }
}

fn choice(c: &Choice) -> String {
    let mut o = String::from("(choice");
    for s in &c.choices {
        o.push(' ');
        o.push_str(&sequence(s));
    }
    o.push(')');
    o
}

fn sequence(s: &Sequence) -> String {
    let mut o = String::from("(seq");
    for p in &s.parts {
        o.push(' ');
        o.push_str(&delimited(p));
    }
    o.push(')');
    o
}

fn delimited(d: &DelimitedExpression) -> String {
    match d {
        DelimitedExpression::Group(g) => format!("(group {})", choice(&g.body)),
        DelimitedExpression::Optional(g) => format!("(opt {})", choice(&g.body)),
        DelimitedExpression::Closure(g) => format!(
            "(closure {} {})",
            choice(&g.body),
            if g.at_least_one.is_some() { 1 } else { 0 }
        ),
        DelimitedExpression::NegativeLookahead(g) => format!("(neg {})", delimited(&g.expr)),
        DelimitedExpression::PositiveLookahead(g) => format!("(pos {})", delimited(&g.expr)),
        DelimitedExpression::CharacterRange(r) => format!("(range {} {})", item(&r.from), item(&r.to)),
        DelimitedExpression::StringLiteral(l) => {
            let mut o = format!("(lit {}", if l.insensitive.is_some() { 1 } else { 0 });
            for i in &l.body {
                o.push(' ');
                o.push_str(&item(i));
            }
            o.push(')');
            o
        }
        DelimitedExpression::EndOfInput(_) => "(eoi)".to_string(),
        DelimitedExpression::IncludeRule(i) => format!("(include {})", nm(&i.rule)),
        DelimitedExpression::Field(f) => {
            let n = match &f.name {
                None => "none".to_string(),
                Some(Field_name::Identifier(i)) => format!("(named {})", nm(i)),
                Some(Field_name::OverrideMarker(_)) => "override".to_string(),
            };
            format!(
                "(field {} {} {})",
                n,
                if f.boxed.is_some() { 1 } else { 0 },
                nm(&f.typ)
            )
        }
    }
}

fn dump(g: &Grammar) -> String {
    let mut o = String::from("(grammar");
    for r in &g.rules {
        o.push(' ');
        match r {
            Grammar_rules::Rule(r) => {
                o.push_str("(rule (dirs");
                for d in &r.directives {
                    o.push(' ');
                    match d {
                        DirectiveExpression::StringDirective(_) => o.push_str("string"),
                        DirectiveExpression::NoSkipWsDirective(_) => o.push_str("no_skip_ws"),
                        DirectiveExpression::ExportDirective(_) => o.push_str("export"),
                        DirectiveExpression::PositionDirective(_) => o.push_str("position"),
                        DirectiveExpression::MemoizeDirective(_) => o.push_str("memoize"),
                        DirectiveExpression::LeftrecDirective(_) => o.push_str("leftrec"),
                        DirectiveExpression::CheckDirective(c) => {
                            o.push_str("(check ");
                            o.push_str(&path(&c.function));
                            o.push(')');
                        }
                    }
                }
                write!(o, ") {} {})", nm(&r.name), choice(&r.definition)).unwrap();
            }
            Grammar_rules::CharRule(r) => {
                o.push_str("(charrule (checks");
                for d in &r.directives {
                    o.push(' ');
                    o.push_str(&path(&d.function));
                }
                write!(o, ") {} (parts", nm(&r.name)).unwrap();
                for c in &r.choices {
                    o.push(' ');
                    match c {
                        CharRulePart::CharRangePart(i) => write!(o, "(cchar {})", item(i)).unwrap(),
                        CharRulePart::CharacterRange(r) => {
                            write!(o, "(crange {} {})", item(&r.from), item(&r.to)).unwrap()
                        }
                        CharRulePart::Identifier(i) => write!(o, "(cident {})", nm(i)).unwrap(),
                    }
                }
                o.push_str("))");
            }
            Grammar_rules::ExternRule(r) => {
                write!(
                    o,
                    "(extern {} {} {})",
                    path(&r.directive.function),
                    match &r.directive.return_type {
                        Some(p) => path(p),
                        None => "noret".to_string(),
                    },
                    nm(&r.name)
                )
                .unwrap();
            }
        }
    }
    o.push(')');
    o
}

fn main() {
    let args: Vec<String> = std::env::args().collect();
    let text = std::fs::read_to_string(&args[2]).expect("cannot read grammar file");
    match args[1].as_str() {
        "dump" => match Grammar::from_str(&text) {
            Ok(g) => println!("{}", dump(&g)),
            Err(e) => println!("PARSE-ERROR\t{}\t{:?}", e.position, e.specifics),
        },
        "tokens" => {
            // the file as a token sequence (comments and layout are not tokens)
            match proc_macro2::TokenStream::from_str(&text) {
                Ok(ts) => println!("TOKENS\n{}", ts),
                Err(e) => println!("LEX-ERROR\t{}", e),
            }
        }
        "debug" => match Grammar::from_str(&text) {
            Ok(g) => println!("OK\t{:?}", g),
            Err(e) => println!("PARSE-ERROR\t{}\t{:?}", e.position, e.specifics),
        },
        "gen" => {
            let mut settings = CodegenSettings::default();
            for a in &args[3..] {
                if let Some(t) = a.strip_prefix("ctx=") {
                    settings.set_user_context_type(t);
                } else if let Some(d) = a.strip_prefix("derives=") {
                    settings.derives = if d.is_empty() { Vec::new() } else { d.split(',').map(|x| x.to_string()).collect() };
                }
            }
            match Grammar::from_str(&text) {
                Err(e) => println!("PARSE-ERROR\t{}\t{:?}", e.position, e.specifics),
                Ok(g) => match g.generate_code(&settings) {
                    Ok(code) => {
                        println!("CODE");
                        println!("{}", code);
                    }
                    Err(e) => println!("ERROR\t{:#}", e),
                },
            }
        }
        _ => panic!("usage"),
    }
}
