// Fixed library of user functions + recording tracer for the generated-parser
// shards.  Gallina twins: coq/theories/Hooks.v.
use std::cell::RefCell;

use peginator::{ParseErrorSpecifics, ParseResult, ParseState, ParseTracer};

thread_local! {
    pub static TRACE: RefCell<Vec<String>> = RefCell::new(Vec::new());
    pub static HLOG: RefCell<Vec<String>> = RefCell::new(Vec::new());
}

pub fn hex(b: &[u8]) -> String {
    b.iter().map(|x| format!("{:02x}", x)).collect()
}

pub fn spec_str(s: &ParseErrorSpecifics) -> String {
    match s {
        ParseErrorSpecifics::ExpectedAnyCharacter => "any".into(),
        ParseErrorSpecifics::ExpectedCharacter { c } => format!("char:{}", *c as u32),
        ParseErrorSpecifics::ExpectedCharacterRange { from, to } => {
            format!("range:{}:{}", *from as u32, *to as u32)
        }
        ParseErrorSpecifics::ExpectedString { s } => format!("str:{}", hex(s.as_bytes())),
        ParseErrorSpecifics::ExpectedCharacterClass { name } => format!("class:{}", hex(name.as_bytes())),
        ParseErrorSpecifics::ExpectedEoi => "eoi".into(),
        ParseErrorSpecifics::NegativeLookaheadFailed => "neg".into(),
        ParseErrorSpecifics::CheckFunctionFailed { function_name } => {
            format!("check:{}", hex(function_name.as_bytes()))
        }
        ParseErrorSpecifics::ExternRuleFailed { error_string } => {
            format!("extern:{}", hex(error_string.as_bytes()))
        }
        ParseErrorSpecifics::LeftRecursionSentinel => "sentinel".into(),
        ParseErrorSpecifics::Other => "other".into(),
    }
}

#[derive(Debug, Clone, Copy)]
pub struct RecTracer;

impl ParseTracer for RecTracer {
    fn print_informative(&mut self, s: &str) {
        let k = match s {
            "Cache hit" => 0,
            "Cache hit (left recursive)" => 1,
            "Starting new left recursive loop" => 2,
            _ => 99,
        };
        TRACE.with(|t| t.borrow_mut().push(format!("I:{}", k)));
    }
    fn print_trace_start(&mut self, state: &ParseState, name: &str) {
        TRACE.with(|t| {
            t.borrow_mut()
                .push(format!("S:{}:{}", hex(name.as_bytes()), state.cache_key()))
        });
    }
    fn print_trace_result<T>(&mut self, result: &ParseResult<T>) {
        let s = match result {
            Ok(ok) => format!("O:{}", ok.state.cache_key()),
            Err(e) => format!("E:{}:{}", e.position, spec_str(&e.specifics)),
        };
        TRACE.with(|t| t.borrow_mut().push(s));
    }
    fn new() -> Self {
        RecTracer
    }
}

pub struct Ctx {
    pub counter: u32,
    pub budget: u32,
}

impl Ctx {
    pub fn new() -> Self {
        Ctx { counter: 0, budget: 2 }
    }
}

fn hlog(name: &str, k: usize) {
    HLOG.with(|l| l.borrow_mut().push(format!("{}:{}", hex(name.as_bytes()), k)));
}

// ---- checks (without user context) ----
pub fn chk_true<T>(_v: &T) -> bool {
    hlog("chk_true", 0);
    true
}
pub fn chk_false<T>(_v: &T) -> bool {
    hlog("chk_false", 0);
    false
}
pub fn chk_str_short(v: &String) -> bool {
    hlog("chk_str_short", 0);
    v.len() <= 2
}
pub fn chk_str_noa(v: &String) -> bool {
    hlog("chk_str_noa", 0);
    !v.contains('a')
}
pub fn chk_lower(c: char) -> bool {
    c.is_ascii_lowercase()
}
pub fn chk_not_x(c: char) -> bool {
    c != 'x'
}

// ---- externs (without user context) ----
pub fn ext_ident(s: &str) -> Result<(String, usize), &'static str> {
    let n = s.bytes().take_while(|b| b.is_ascii_lowercase()).count();
    if n == 0 {
        Err("expected ident")
    } else {
        Ok((s[..n].to_string(), n))
    }
}
pub fn ext_num(s: &str) -> Result<(u32, usize), &'static str> {
    let n = s.bytes().take_while(|b| b.is_ascii_digit()).count().min(4);
    if n == 0 {
        Err("expected number")
    } else {
        Ok((s[..n].parse().unwrap(), n))
    }
}
pub fn ext_probe(s: &str) -> Result<(String, usize), &'static str> {
    hlog("ext_probe", s.len());
    Ok((String::new(), 0))
}
pub fn ext_any2(s: &str) -> Result<(String, usize), &'static str> {
    let mut it = s.chars();
    match (it.next(), it.next()) {
        (Some(a), Some(b)) => {
            let n = a.len_utf8() + b.len_utf8();
            Ok((s[..n].to_string(), n))
        }
        _ => Err("expected two chars"),
    }
}

// ---- variants taking the user context ----
pub mod ctx {
    use super::{hlog, Ctx};
    pub fn chk_true<T>(_v: &T, _c: &mut Ctx) -> bool {
        hlog("chk_true", 0);
        true
    }
    pub fn chk_false<T>(_v: &T, _c: &mut Ctx) -> bool {
        hlog("chk_false", 0);
        false
    }
    pub fn chk_str_short(v: &String, _c: &mut Ctx) -> bool {
        hlog("chk_str_short", 0);
        v.len() <= 2
    }
    pub fn chk_str_noa(v: &String, _c: &mut Ctx) -> bool {
        hlog("chk_str_noa", 0);
        !v.contains('a')
    }
    pub fn chk_budget<T>(_v: &T, c: &mut Ctx) -> bool {
        hlog("chk_budget", 0);
        if c.budget > 0 {
            c.budget -= 1;
            true
        } else {
            false
        }
    }
    pub fn ext_ident(s: &str, _c: &mut Ctx) -> Result<(String, usize), &'static str> {
        super::ext_ident(s)
    }
    pub fn ext_num(s: &str, _c: &mut Ctx) -> Result<(u32, usize), &'static str> {
        super::ext_num(s)
    }
    pub fn ext_probe(s: &str, _c: &mut Ctx) -> Result<(String, usize), &'static str> {
        super::ext_probe(s)
    }
    pub fn ext_any2(s: &str, _c: &mut Ctx) -> Result<(String, usize), &'static str> {
        super::ext_any2(s)
    }
    pub fn ext_next(s: &str, c: &mut Ctx) -> Result<(u32, usize), &'static str> {
        c.counter += 1;
        hlog("ext_next", s.len());
        Ok((c.counter, 0))
    }
}
