(* C06, the packrat bound as a theorem: for a well-formed grammar (WellFormed.wf_check) without
   @leftrec rules, every body evaluation of a memoized rule that the parser starts is at a
   (rule, offset) pair at which none was started before - the ghost log g_evals has no duplicates.
   The argument: an evaluation started at offset p in a context of rank bound k only starts
   evaluations at offsets > p, or at p for rules of rank < k (so never the rules whose evaluation
   is in progress at p); and once an evaluation has returned, its cache entry is there for good. *)
From Coq Require Import Lia.
From PegV Require Import Utf8 Utf8Facts State Terminals Syntax Fields FieldsFacts Literals Model
  WellFormed Termination OnceWF.

(* ---- offsets of the terminal matchers ------------------------------------------------ *)
(* offset + remaining bytes = length of the input *)
Definition bnd (L : nat) (st : pstate) : Prop := off st + length (rest st) = L.

Definition tadv {A} (st : pstate) (strict : bool) (r : tres A) : Prop :=
  match r with
  | TOk _ st' => (if strict then off st < off st' else off st <= off st') /\ (forall L, bnd L st -> bnd L st')
  | _ => True
  end.

Lemma adv_then_off {A} st n (v : A) : tadv st false (adv_then st n v) /\ (0 < n -> tadv st true (adv_then st n v)).
Proof.
  unfold adv_then, advance. destruct (Nat.ltb (length (rest st)) n) eqn:E; [split; intros; exact I|].
  apply Nat.ltb_ge in E.
  destruct (is_boundary (rest st) n); cbn; [|split; intros; exact I].
  assert (B : forall L, bnd L st -> bnd L {| rest := skipn n (rest st); off := off st + n; far := far st |}).
  { intros L H. unfold bnd in *. cbn. rewrite skipn_length. lia. }
  split; [split; [lia|exact B]|intros; split; [lia|exact B]].
Qed.

Lemma tadv_weaken {A} st (r : tres A) : tadv st true r -> tadv st false r.
Proof. destruct r; cbn; auto. intros [H1 H2]. split; [lia|exact H2]. Qed.

Lemma decode1_pos bs c n : decode1 bs = Some (c, n) -> 0 < n.
Proof.
  unfold decode1. destruct bs as [|b0 r]; [discriminate|].
  repeat match goal with
         | |- context [if ?x then _ else _] => destruct x
         | |- context [match ?x with _ => _ end] => destruct x
         end; intro H; try discriminate; injection H as _ <-; lia.
Qed.

Section TermOff.
Variable scfg : state_cfg.
Variable tcfg : term_cfg.

Lemma utf8_len_pos c : 0 < utf8_len c.
Proof. unfold utf8_len. repeat match goal with |- context [if ?x then _ else _] => destruct x end; lia. Qed.

Lemma off_char st : tadv st true (parse_char scfg st).
Proof.
  unfold parse_char. destruct (rest st); [exact I|]. destruct (decode1 (n :: b)) as [[c k]|] eqn:D; [|exact I].
  apply adv_then_off. eapply decode1_pos; eauto.
Qed.

Lemma off_ws_loop bs : forall o f,
  match ws_loop bs o f with TOk _ st' => o <= off st' /\ off st' + length (rest st') = o + length bs | _ => True end.
Proof.
  induction bs as [|b r IH]; intros o f; cbn [ws_loop]; [cbn; lia|].
  destruct (is_ascii_ws b); [|cbn; lia].
  destruct (advance {| rest := b :: r; off := o; far := f |} 1); try exact I.
  specialize (IH (o + 1) f). destruct (ws_loop r (o + 1) f); auto. cbn [length]. lia.
Qed.

Lemma off_ws st : tadv st false (parse_Whitespace st).
Proof.
  unfold parse_Whitespace. pose proof (off_ws_loop (rest st) (off st) (far st)) as H.
  destruct (ws_loop _ _ _); cbn; auto. destruct H as [H1 H2]. split; [exact H1|]. intros L B. unfold bnd in *. lia.
Qed.

Lemma off_lit st s : tadv st false (parse_string_literal scfg st s) /\ (s <> [] -> tadv st true (parse_string_literal scfg st s)).
Proof.
  unfold parse_string_literal. destruct (starts_with s (rest st)); [|split; intros; exact I].
  destruct (adv_then_off st (length s) tt) as [A B]. split; [exact A|]. intro H. apply B. destruct s; [congruence|cbn; lia].
Qed.

Lemma off_clit st c : tadv st true (parse_character_literal scfg tcfg st c).
Proof.
  unfold parse_character_literal.
  destruct (if lit_fast_is_ascii tcfg then is_ascii c else true).
  - destruct (rest st); [exact I|]. destruct (negb (N.eqb n (as_u8 c))); [exact I|]. apply adv_then_off. lia.
  - destruct (negb (starts_with (encode c) (rest st))); [exact I|]. apply adv_then_off. apply utf8_len_pos.
Qed.

Lemma off_range st a b : tadv st true (parse_character_range scfg tcfg st a b).
Proof.
  unfold parse_character_range.
  destruct (if range_fast_both_ascii tcfg then is_ascii a && is_ascii b else is_ascii a).
  - destruct (rest st); [exact I|]. destruct (N.ltb n (as_u8 a) || N.ltb (as_u8 b) n); [exact I|]. apply adv_then_off. lia.
  - destruct (rest st) eqn:E; [exact I|]. destruct (decode1 (n :: b0)) as [[c k]|] eqn:D; [|exact I].
    destruct (N.ltb c a || N.ltb b c); [exact I|]. apply adv_then_off. eapply decode1_pos; eauto.
Qed.

Lemma off_ilit st s : tadv st false (parse_string_literal_insensitive scfg tcfg st s) /\
                      (s <> [] -> tadv st true (parse_string_literal_insensitive scfg tcfg st s)).
Proof.
  unfold parse_string_literal_insensitive. destruct (ieq tcfg s (rest st)); [|split; intros; exact I].
  destruct (adv_then_off st (length s) tt) as [A B]. split; [exact A|]. intro H. apply B. destruct s; [congruence|cbn; lia].
Qed.

Lemma off_iclit st c : tadv st true (parse_character_literal_insensitive scfg tcfg st c).
Proof.
  unfold parse_character_literal_insensitive. destruct (rest st); [exact I|].
  destruct (negb (N.eqb (lower_in tcfg n) (as_u8 c))); [exact I|]. apply adv_then_off. lia.
Qed.

Lemma off_eoi st : tadv st false (parse_end_of_input scfg st).
Proof. unfold parse_end_of_input. destruct (rest st); cbn; [split; [lia|auto]|exact I]. Qed.

End TermOff.

Lemma encode_str_nonnil s : s <> [] -> encode_str s <> [].
Proof.
  destruct s as [|c r]; [congruence|]. intros _. unfold encode_str. cbn [flat_map].
  unfold encode. repeat match goal with |- context [if ?x then _ else _] => destruct x end; cbn [app]; discriminate.
Qed.

Lemma NoDup_append {A} (a b : list A) :
  NoDup a -> NoDup b -> (forall x, In x a -> ~ In x b) -> NoDup (a ++ b).
Proof.
  induction a as [|x a IH]; intros Na Nb D; cbn; [exact Nb|].
  inversion Na; subst. constructor.
  - intro H. apply in_app_or in H. destruct H as [H|H]; [contradiction|]. apply (D x); [left; reflexivity|exact H].
  - apply IH; auto. intros y Hy. apply D. right. exact Hy.
Qed.


(* bound k1 is at least as strict as bound k2 *)
Definition kle (k1 k2 : option nat) : Prop :=
  match k2 with
  | None => True
  | Some r2 => match k1 with Some r1 => r1 <= r2 | None => False end
  end.

Lemma kle_refl k : kle k k.
Proof. destruct k; cbn; auto. Qed.

Lemma kle_bound rk0 k1 k2 u : kle k1 k2 -> bound_ok rk0 k1 u = true -> bound_ok rk0 k2 u = true.
Proof.
  destruct k2 as [r2|]; [|reflexivity]. destruct k1 as [r1|]; cbn; [|contradiction].
  intros L B. apply Nat.ltb_lt in B. apply Nat.ltb_lt. lia.
Qed.

Section Once.
Variable ustate : Type.
Variable scfg : state_cfg.
Variable tcfg : term_cfg.
Variable fcfg : fields_cfg.
Variable rcfg : rule_cfg.
Variable hk : hooks ustate.
Variable g : grammar.
Variable nul : name -> bool.
Variable rkX : list name -> runit -> nat.
Variable dem : list name -> runit -> bool.
Hypothesis Hnul : nul_okX g nul = true.
Hypothesis Hunit : forall X u, dem X u = true -> unit_ok g nul rkX dem X u = true.
Hypothesis Hmemo : forall X u, dem X u = true -> memo_ok g rkX X u = true.
Hypothesis Hclosed : memo_closed rcfg = true.
Variable LEN : nat.                       (* the length of the input *)

Notation glb := (glob ustate).
Notation Run := (run ustate scfg tcfg fcfg rcfg hk g).
Notation enull := (enull nul).
Notation wfe := (wfeX nul rkX dem).
Notation wfseq := (wfseqX nul rkX dem).
Notation callb := (callb rkX dem).
Notation wsb := (wsb rkX dem).
Notation rk0 := (rkX []).

Definition ent := (name * nat)%type.

(* memoized rules have one rank (rk0, the one of the empty context) *)
Definition okent (p : nat) (k : option nat) (e : ent) : Prop :=
  p < snd e \/ (snd e = p /\ bound_ok rk0 k (UCall (fst e)) = true).

Definition has_entry (e : ent) (gl : glb) : Prop := cache_get (fst e) (snd e) (g_cache gl) <> None.

(* the memoized rules of the grammar, and the entries that can occur at all *)
Definition mnames : list name :=
  flat_map (fun gr => match gr with
                      | GRule r => if fl_memoize (flags_of (r_directives r)) then [r_name r] else []
                      | _ => []
                      end) g.
Definition entok (e : ent) : Prop := In (fst e) mnames /\ snd e <= LEN.

(* what an evaluation that has returned Ok or Err did to the global *)
Definition G (p : nat) (k : option nat) (gl gl' : glb) : Prop :=
  (forall e, has_entry e gl -> has_entry e gl') /\
  exists d, g_evals gl' = d ++ g_evals gl /\ Forall (okent p k) d /\ NoDup d /\
            (forall e, In e d -> ~ has_entry e gl) /\ (forall e, In e d -> has_entry e gl') /\ Forall entok d.

(* stored successes: offsets only grow, and no progress was predicted by the nullable analysis *)
Definition CInv (gl : glb) : Prop :=
  forall n o v s, cache_get n o (g_cache gl) = Some (COk v s) -> o <= off s /\ (off s = o -> nul n = true) /\ bnd LEN s.

Lemma okent_weaken p k p' k' e :
  okent p' k' e -> p <= p' -> (p = p' -> kle k' k) -> okent p k e.
Proof.
  intros [H|[H1 H2]] L B; [left; lia|].
  destruct (Nat.eq_dec p p') as [->|N]; [right; split; [exact H1|eapply kle_bound; eauto]|left; lia].
Qed.

Lemma G_refl p k gl : G p k gl gl.
Proof. split; [auto|]. exists []. repeat split; try constructor; intros e []. Qed.

Lemma G_same p k gl gl' : g_cache gl' = g_cache gl -> g_evals gl' = g_evals gl -> G p k gl gl'.
Proof.
  intros E1 E2. split; [unfold has_entry; rewrite E1; auto|]. exists []. rewrite E2.
  repeat split; try constructor; intros e [].
Qed.

Lemma G_trans p k gl gl1 gl2 : G p k gl gl1 -> G p k gl1 gl2 -> G p k gl gl2.
Proof.
  intros [M1 (d1 & E1 & F1 & N1 & A1 & C1 & T1)] [M2 (d2 & E2 & F2 & N2 & A2 & C2 & T2)].
  split; [auto|]. exists (d2 ++ d1). split; [|split; [|split; [|split; [|split]]]].
  - rewrite E2, E1, app_assoc. reflexivity.
  - apply Forall_app. auto.
  - apply NoDup_append; auto. intros x H2 H1. apply (A2 x H2). apply C1. exact H1.
  - intros e H. apply in_app_or in H. destruct H as [H|H]; [|auto]. intro Q. apply (A2 e H). apply M1. exact Q.
  - intros e H. apply in_app_or in H. destruct H as [H|H]; [auto|]. apply M2. apply C1. exact H.
  - apply Forall_app. auto.
Qed.

Lemma G_weaken p k p' k' gl gl' :
  G p' k' gl gl' -> p <= p' -> (p = p' -> kle k' k) -> G p k gl gl'.
Proof.
  intros [M (d & E & F & N & A & C & T)] Lp B. split; [exact M|]. exists d. split; [exact E|]. split; [|auto].
  eapply Forall_impl; [|exact F]. intros e H. eapply okent_weaken; eauto.
Qed.

Definition postA {A} (nl : bool) (k : option nat) (st : pstate) (gl : glb) (x : R ustate A) : Prop :=
  match x with
  | (MOk _ st', gl') => off st <= off st' /\ (off st' = off st -> nl = true) /\ G (off st) k gl gl' /\ CInv gl' /\ bnd LEN st'
  | (MErr _, gl') => G (off st) k gl gl' /\ CInv gl'
  | _ => True
  end.

Definition kat (st st1 : pstate) (k : option nat) : option nat := if Nat.eqb (off st1) (off st) then k else None.

Lemma kat_same st k : kat st st k = k.
Proof. unfold kat. rewrite Nat.eqb_refl. reflexivity. Qed.

Lemma G_kat st st1 k gl gl' : off st <= off st1 -> G (off st1) (kat st st1 k) gl gl' -> G (off st) k gl gl'.
Proof.
  intros Lp H. eapply G_weaken; [exact H|exact Lp|]. intros E. unfold kat. rewrite <- E, Nat.eqb_refl. apply kle_refl.
Qed.

Lemma callb_kat st st1 X k u : callb X k u = true -> callb X (kat st st1 k) u = true.
Proof. unfold kat. destruct (Nat.eqb (off st1) (off st)); [auto|apply callb_weaken]. Qed.

Lemma wsb_kat st st1 X k s : wsb X k s = true -> wsb X (kat st st1 k) s = true.
Proof. unfold kat. destruct (Nat.eqb (off st1) (off st)); [auto|apply wsb_weaken]. Qed.

Lemma wfe_kat st st1 X k s e : wfe X k s e = true -> wfe X (kat st st1 k) s e = true.
Proof. unfold kat. destruct (Nat.eqb (off st1) (off st)); [auto|apply wfeX_weaken]. Qed.

Lemma wfseq_kat st st1 X k s ps : wfseq X k s ps = true -> wfseq X (kat st st1 k) s ps = true.
Proof. unfold kat. destruct (Nat.eqb (off st1) (off st)); [auto|apply wfseqX_weaken]. Qed.

(* the open set: as long as nothing has been consumed (k is not None), every rule of X is a
   @leftrec rule with its cache entry at the current offset *)
Definition mono (gl gl' : glb) : Prop := forall e, has_entry e gl -> has_entry e gl'.

Definition opn (X : list name) (k : option nat) (st : pstate) (gl : glb) : Prop :=
  forall a, In a X -> is_lrule g a = true /\ (k <> None -> has_entry (a, off st) gl).

Lemma opn_nil k st gl : opn [] k st gl.
Proof. intros a []. Qed.

Lemma opn_kat X k k' st st1 gl gl1 :
  (k' <> None -> k <> None) -> mono gl gl1 -> opn X k st gl -> opn X (kat st st1 k') st1 gl1.
Proof.
  intros K M O a Ha. destruct (O a Ha) as [L H]. split; [exact L|]. unfold kat.
  destruct (Nat.eqb (off st1) (off st)) eqn:Q; [|intro N; exfalso; apply N; reflexivity].
  apply Nat.eqb_eq in Q. intro N. rewrite Q. apply M. apply H. apply K. exact N.
Qed.

Lemma opn_same X k st st1 gl gl1 : off st1 = off st -> mono gl gl1 -> opn X k st gl -> opn X k st1 gl1.
Proof. intros E M O a Ha. destruct (O a Ha) as [L H]. split; [exact L|]. intro N. rewrite E. apply M. apply H. exact N. Qed.

(* entering a unit: its body runs under the context that is still known *)
Lemma opn_cx X k st gl r : opn X k st gl -> opn (cx X k) (Some r) st gl.
Proof.
  intros O a Ha. destruct k as [k0|]; cbn in Ha; [|contradiction]. destruct (O a Ha) as [L H].
  split; [exact L|]. intros _. apply H. discriminate.
Qed.

Lemma kle_call X k u : bound_ok (rkX X) k u = true -> kle (Some (rkX (cx X k) u)) k.
Proof. destruct k as [k0|]; cbn; [|auto]. intro B. apply Nat.ltb_lt in B. lia. Qed.

Lemma G_mono p k gl gl' : G p k gl gl' -> mono gl gl'.
Proof. intros [M _]. exact M. Qed.

Lemma mono_refl gl : mono gl gl.
Proof. intros e H. exact H. Qed.

(* a rule may be called when its unit is demanded and its rank is below the bound, or when it is
   an open @leftrec rule *)
Definition callok (X : list name) (k : option nat) (n : name) (st : pstate) (gl : glb) : Prop :=
  callb X k (UCall n) = true \/ (is_lrule g n = true /\ has_entry (n, off st) gl).

Definition bestok (n : name) (st : pstate) (c : cached) : Prop :=
  match c with
  | COk _ s => off st <= off s /\ (off s = off st -> nul n = true) /\ bnd LEN s
  | CErr _ => True
  end.

(* a sub-evaluation from a later state, seen from the earlier one *)
Lemma postA_later {A} nl nl' k st st1 gl gl1 (x : R ustate A) :
  off st <= off st1 -> G (off st) k gl gl1 ->
  (off st1 = off st -> nl' = true -> nl = true) ->
  postA nl' (kat st st1 k) st1 gl1 x -> postA nl k st gl x.
Proof.
  intros Lp G1 N P. destruct x as [[v st'|e|p|] gl']; cbn in *; auto.
  - destruct P as (P1 & P2 & P3 & P4). split; [lia|]. split; [|split; [eapply G_trans; [exact G1|eapply G_kat; eauto]|exact P4]].
    intro E. apply N; [lia|]. apply P2. lia.
  - destruct P as (P3 & P4). split; [eapply G_trans; [exact G1|eapply G_kat; eauto]|exact P4].
Qed.

Lemma wf_ws' : nul n_Whitespace = true.
Proof. unfold nul_okX in Hnul. apply andb_prop in Hnul. tauto. Qed.

Lemma wf_nul' gr : In gr g -> nul_ok_rule nul gr = true.
Proof. unfold nul_okX in Hnul. apply andb_prop in Hnul. destruct Hnul as [_ W]. rewrite forallb_forall in W. auto. Qed.

Section Step.
Variable ev : evals ustate.
Hypothesis IHe : forall ctx e st gl X k, wfe X k (c_skip ctx) e = true -> opn X k st gl -> CInv gl -> bnd LEN st ->
  postA (enull e) k st gl (ev_expr ev ctx e st gl).
Hypothesis IHr : forall n st gl X k, callok X k n st gl -> opn X k st gl -> CInv gl -> bnd LEN st ->
  postA (nul n) k st gl (ev_rule ev n st gl).
Hypothesis IHl : forall ctx b plus st it acc gl X k, wfe X k (c_skip ctx) b = true -> enull b = false ->
  opn X k st gl -> CInv gl -> bnd LEN st ->
  postA (negb (plus && Nat.eqb it 0)) k st gl (ev_loop ev ctx b plus st it acc gl).
Hypothesis IHg : forall r X st best gl, In (GRule r) g -> find_grule g (r_name r) = Some (GRule r) ->
  fl_left_recursive (flags_of (r_directives r)) = true -> dem X (UCall (r_name r)) = true ->
  opn (r_name r :: X) (Some (rkX X (UCall (r_name r)))) st gl -> bestok (r_name r) st best -> CInv gl -> bnd LEN st ->
  postA (nul (r_name r)) (Some (rkX X (UCall (r_name r)))) st gl (ev_grow ev r st best gl).

Lemma with_ws_post {A} nl ctx st gl X k (kont : pstate -> glb -> R ustate A) :
  wsb X k (c_skip ctx) = true -> opn X k st gl -> CInv gl -> bnd LEN st ->
  (forall st1 gl1, off st <= off st1 -> mono gl gl1 -> CInv gl1 -> bnd LEN st1 -> postA nl (kat st st1 k) st1 gl1 (kont st1 gl1)) ->
  postA nl k st gl (with_ws ustate ev ctx st gl kont).
Proof.
  intros W O C Bd H. unfold with_ws. unfold OnceWF.wsb in W. destruct (c_skip ctx).
  - pose proof (IHr n_Whitespace st gl X k (or_introl W) O C Bd) as P.
    destruct (ev_rule ev n_Whitespace st gl) as [[v st1|e|p|] gl1]; cbn in P; cbn; auto.
    destruct P as (P1 & _ & P3 & P4 & P5).
    eapply postA_later; [exact P1|exact P3| |apply H; auto]. auto. exact (G_mono _ _ _ _ P3).
  - specialize (H st gl (Nat.le_refl _) (mono_refl gl) C Bd). rewrite kat_same in H. exact H.
Qed.

Lemma lift_post {Y Z} (f : Y -> Z) sp nl k st gl (r : tres Y) :
  CInv gl -> bnd LEN st -> tadv st (negb nl) r -> postA nl k st gl (lift_t ustate f sp st r gl).
Proof.
  intros C Bd T. destruct r as [v st'|e| |]; cbn in *; auto.
  - destruct T as [T1 T2]. split; [destruct nl; cbn in T1; lia|]. split; [|split; [apply G_refl|split; [exact C|auto]]].
    intro E. destruct nl; [reflexivity|cbn in T1; lia].
  - split; [apply G_same; reflexivity|exact C].
Qed.

Lemma fail_post {Y} nl k st st0 gl sp : CInv gl -> postA (A:=Y) nl k st gl (fail_at ustate scfg st0 sp gl).
Proof. intro C. cbn. split; [apply G_same; reflexivity|exact C]. Qed.

Lemma no_fields_post {Y} nl k st gl (x : R ustate Y) : postA nl k st gl x -> postA nl k st gl (no_fields ustate x).
Proof. destruct x as [[v st'|e|p|] gl']; cbn; auto. Qed.


Lemma off_record st e : off (record_error scfg st e) = off st.
Proof. unfold record_error. destruct (far st); [destruct (if rec_le scfg then _ else _)|]; reflexivity. Qed.

Lemma bnd_record st e : bnd LEN st -> bnd LEN (record_error scfg st e).
Proof. unfold bnd, record_error. destruct (far st); [destruct (if rec_le scfg then _ else _)|]; auto. Qed.

Lemma postA_bound {A} nl nl' k1 k2 st gl (x : R ustate A) :
  kle k1 k2 -> (nl = true -> nl' = true) ->
  postA nl k1 st gl x -> postA nl' k2 st gl x.
Proof.
  intros B N P. destruct x as [[v st'|e|p|] gl']; cbn in *; auto.
  - destruct P as (P1 & P2 & P3 & P4). split; [exact P1|]. split; [auto|]. split; [|exact P4].
    eapply G_weaken; [exact P3|lia|auto].
  - destruct P as (P3 & P4). split; [|exact P4]. eapply G_weaken; [exact P3|lia|auto].
Qed.

(* the same offset, another state (record_error) *)
Lemma postA_same_off {A} nl nl' k st st1 gl gl1 (x : R ustate A) :
  off st1 = off st -> G (off st) k gl gl1 -> (nl' = true -> nl = true) ->
  postA nl' k st1 gl1 x -> postA nl k st gl x.
Proof.
  intros E G1 N P. apply (postA_later nl nl' k st st1 gl gl1); [lia|exact G1|auto|]. unfold kat. rewrite E, Nat.eqb_refl. exact P.
Qed.

Lemma choice_loop_post ctx fds X alts : forall cst gl k,
  forallb (wfe X k (c_skip ctx)) alts = true -> opn X k cst gl -> CInv gl -> bnd LEN cst ->
  postA (existsb enull alts) k cst gl (choice_loop ustate scfg fcfg g ev ctx fds alts cst gl).
Proof.
  induction alts as [|a alts IH]; intros cst gl k W O C Bd; cbn [choice_loop].
  - cbn. split; [apply G_refl|exact C].
  - cbn [forallb] in W. apply andb_prop in W. destruct W as [W1 W2].
    pose proof (IHe ctx a cst gl X k W1 O C Bd) as P.
    destruct (ev_expr ev ctx a cst gl) as [[fs st'|e|p|] gl']; cbn in P; try exact I.
    + destruct P as (P1 & P2 & P3 & P4 & P5).
      destruct (own_fields fcfg g a) as [inner|]; [|exact I].
      destruct (convert_arm fds inner fs); [|exact I].
      cbn. split; [exact P1|]. split; [|split; [assumption|split; assumption]]. intro E. rewrite (P2 E). reflexivity.
    + destruct P as (P3 & P4).
      eapply postA_same_off; [apply off_record|exact P3| |apply IH; [assumption| |assumption|apply bnd_record; exact Bd]].
      * cbn [existsb]. intro H. rewrite H. apply Bool.orb_true_r.
      * eapply opn_same; [apply off_record|exact (G_mono _ _ _ _ P3)|exact O].
Qed.

Lemma seq_loop_post ctx fds X parts : forall st acc gl k,
  wfseq X k (c_skip ctx) parts = true -> opn X k st gl -> CInv gl -> bnd LEN st ->
  postA (forallb enull parts) k st gl (seq_loop ustate ev ctx fds parts st acc gl).
Proof.
  induction parts as [|p ps IH]; intros st acc gl k W O C Bd; cbn [seq_loop].
  - destruct (order_as fds acc); [|exact I]. cbn. split; [lia|]. split; [reflexivity|]. split; [apply G_refl|split; [exact C|exact Bd]].
  - cbn [wfseqX] in W. apply andb_prop in W. destruct W as [W1 W2].
    pose proof (IHe ctx p st gl X k W1 O C Bd) as P.
    destruct (ev_expr ev ctx p st gl) as [[fs st'|e|pp|] gl']; cbn in P; try exact I; [|exact P].
    destruct P as (P1 & P2 & P3 & P4 & P5).
    destruct (seq_merge_vals acc fs) as [acc'|]; [|exact I].
    eapply postA_later; [exact P1|exact P3| |].
    + intros E H. cbn [forallb]. rewrite (P2 E). exact H.
    + eapply postA_bound; [| |apply (IH st' acc' gl' (kat st st' (if enull p then k else None)) (wfseq_kat _ _ _ _ _ _ W2))]; [|auto| |exact P4|exact P5].
      * unfold kat. destruct (Nat.eqb (off st') (off st)) eqn:Q; [|exact I].
        apply Nat.eqb_eq in Q. rewrite (P2 Q). apply kle_refl.
      * eapply opn_kat; [|exact (G_mono _ _ _ _ P3)|exact O]. destruct (enull p); [auto|intro N; exfalso; apply N; reflexivity].
Qed.

Lemma run_lit_post m nl k st gl :
  CInv gl -> bnd LEN st -> (nl = false -> term_nonnull (fst (Spec.lit_term m)) = true) ->
  postA nl k st gl (run_lit ustate scfg tcfg m st gl).
Proof.
  intros C Bd N. destruct m; cbn [run_lit]; apply lift_post; try exact C; try exact Bd.
  - destruct nl; cbn; [apply tadv_weaken|]; apply off_clit.
  - destruct nl; cbn; [apply (off_lit scfg st (encode_str s))|].
    apply (off_lit scfg st (encode_str s)). apply encode_str_nonnil.
    specialize (N eq_refl). cbn in N. destruct s; [discriminate|discriminate].
  - destruct nl; cbn; [apply tadv_weaken|]; apply off_iclit.
  - destruct nl; cbn; [apply (off_ilit scfg tcfg st (encode_str s))|].
    apply (off_ilit scfg tcfg st (encode_str s)). apply encode_str_nonnil.
    specialize (N eq_refl). cbn in N. destruct s; [discriminate|discriminate].
Qed.

Theorem expr_step_post ctx e st gl X k :
  wfe X k (c_skip ctx) e = true -> opn X k st gl -> CInv gl -> bnd LEN st ->
  postA (enull e) k st gl (expr_step ustate scfg tcfg fcfg rcfg g ev ctx e st gl).
Proof.
  intros W O C Bd. destruct e; cbn [expr_step].
  - (* EChoice *)
    cbn [wfeX] in W.
    destruct alts as [|a [|a2 rest]]; [exact I| |].
    + cbn [forallb] in W. apply andb_prop in W. destruct W as [W _].
      eapply postA_bound; [| |apply (IHe ctx a st gl X k W O C Bd)]; [apply kle_refl|]. cbn. intros ->. reflexivity.
    + destruct (filt fcfg g ctx _); [|exact I]. apply (choice_loop_post ctx _ X); assumption.
  - (* ESeq *)
    rewrite wfeX_seq_eq in W.
    destruct parts as [|p [|p2 rest]].
    + cbn. split; [lia|]. split; [reflexivity|]. split; [apply G_refl|split; [exact C|exact Bd]].
    + cbn [wfseqX] in W. apply andb_prop in W. destruct W as [W _].
      eapply postA_bound; [| |apply (IHe ctx p st gl X k W O C Bd)]; [apply kle_refl|]. cbn. intros ->. reflexivity.
    + destruct (filt fcfg g ctx _); [|exact I]. apply (seq_loop_post ctx _ X); assumption.
  - (* EGroup *) cbn [wfeX] in W. exact (IHe ctx e st gl X k W O C Bd).
  - (* EOptional *)
    cbn [wfeX] in W. pose proof (IHe ctx e st gl X k W O C Bd) as P.
    destruct (ev_expr ev ctx e st gl) as [[fs st'|er|p|] gl']; cbn in P; try exact I.
    + destruct P as (P1 & _ & P3 & P4 & P5). cbn. auto.
    + destruct P as (P3 & P4). destruct (filt fcfg g ctx e); [|exact I]. destruct (defaults l); [|exact I].
      cbn. rewrite off_record. split; [lia|]. split; [reflexivity|]. split; [assumption|split; [assumption|apply bnd_record; exact Bd]].
  - (* EClosure *)
    cbn [wfeX] in W. apply andb_prop in W. destruct W as [W1 W2]. apply Bool.negb_true_iff in W2.
    destruct (filt fcfg g ctx e); [|exact I].
    eapply postA_bound; [| |apply (IHl ctx e at_least_one st 0 (empty_vecs l) gl X k W1 W2 O C Bd)]; [apply kle_refl|].
    cbn [WellFormed.enull]. rewrite W2. destruct at_least_one; cbn; auto.
  - (* ENeg *)
    cbn [wfeX] in W. pose proof (IHe ctx e st gl X k W O C Bd) as P.
    destruct (ev_expr ev ctx e st gl) as [[fs st'|er|p|] gl']; cbn in P; try exact I.
    + destruct P as (_ & _ & P3 & P4 & _). cbn. split; [|exact P4]. eapply G_trans; [exact P3|apply G_same; reflexivity].
    + destruct P as (P3 & P4). cbn. split; [lia|]. split; [reflexivity|]. split; [assumption|split; assumption].
  - (* EPos *)
    cbn [wfeX] in W. pose proof (IHe ctx e st gl X k W O C Bd) as P.
    destruct (ev_expr ev ctx e st gl) as [[fs st'|er|p|] gl']; cbn in P; try exact I.
    + destruct P as (_ & _ & P3 & P4 & _). cbn. split; [lia|]. split; [reflexivity|]. split; [assumption|split; assumption].
    + exact P.
  - (* ERange *)
    cbn [wfeX] in W. destruct (compile_range from to); try exact I.
    apply no_fields_post. apply (with_ws_post _ ctx st gl X); [exact W|exact O|exact C|exact Bd|]. intros st1 gl1 Lp M1 C1 B1.
    apply lift_post; [exact C1|exact B1|]. cbn. apply off_range.
  - (* ELit *)
    cbn [wfeX] in W. destruct (compile_lit (insens_guard rcfg) insensitive body) as [m| | |] eqn:CL; try exact I.
    apply no_fields_post. apply (with_ws_post _ ctx st gl X); [exact W|exact O|exact C|exact Bd|]. intros st1 gl1 Lp M1 C1 B1.
    apply run_lit_post; [exact C1|exact B1|]. cbn [WellFormed.enull]. intro N.
    eapply compile_lit_nonnull; [exact CL|]. destruct body; [discriminate|discriminate].
  - (* EEoi *)
    cbn [wfeX] in W. apply no_fields_post. apply (with_ws_post _ ctx st gl X); [exact W|exact O|exact C|exact Bd|]. intros st1 gl1 Lp M1 C1 B1.
    apply lift_post; [exact C1|exact B1|]. cbn. apply off_eoi.
  - (* EInclude *)
    cbn [wfeX] in W. destruct (find_rule g rule) as [r|] eqn:F; [|exact I].
    destruct (fr_in _ _ _ F) as [I1 I2].
    unfold OnceWF.callb in W. apply andb_prop in W. destruct W as [W D0]. apply andb_prop in W. destruct W as [B D].
    pose proof (Hunit _ _ D) as K. cbn [unit_ok] in K. rewrite F in K.
    pose proof (wf_nul' _ I1) as Kn. cbn [nul_ok_rule] in Kn. rewrite I2 in Kn.
    eapply postA_bound; [| |apply (IHe ctx (r_def r) st gl (cx X k) _ K (opn_cx _ _ _ _ _ O) C Bd)].
    + apply kle_call. exact B.
    + cbn [WellFormed.enull]. intro H. rewrite H in Kn. exact Kn.
  - (* EField *)
    cbn [wfeX] in W. apply andb_prop in W. destruct W as [W W2]. apply andb_prop in W. destruct W as [W1 D0].
    assert (P : postA (nul typ) k st gl (with_ws ustate ev ctx st gl (fun st0 gl0 => ev_rule ev typ st0 gl0))).
    { apply (with_ws_post _ ctx st gl X); [exact W1|exact O|exact C|exact Bd|]. intros st1 gl1 Lp M1 C1 B1.
      assert (O1 : opn X (kat st st1 k) st1 gl1) by (eapply opn_kat; [|exact M1|exact O]; auto).
      apply (IHr typ st1 gl1 X); [|exact O1|exact C1|exact B1].
      apply Bool.orb_true_iff in W2. destruct W2 as [W2|W2]; [|left; apply callb_kat; exact W2].
      destruct k as [k0|]; [|discriminate]. cbn in W2. apply openb_in in W2.
      destruct (O1 typ W2) as [L H]. destruct (kat st st1 (Some k0)) as [k1|] eqn:Q.
      - right. split; [exact L|apply H; discriminate].
      - left. unfold OnceWF.callb. cbn. rewrite D0. reflexivity. }
    destruct (fname_of fname); [|apply no_fields_post; exact P].
    destruct (with_ws ustate ev ctx st gl (fun st0 gl0 => ev_rule ev typ st0 gl0)) as [[v st'|er|p|] gl']; cbn in P; try exact I; [|exact P].
    destruct (postprocess (c_fields ctx) n typ v); [exact P|exact I].
Qed.

Theorem loop_step_post ctx b plus st it acc gl X k :
  wfe X k (c_skip ctx) b = true -> enull b = false -> opn X k st gl -> CInv gl -> bnd LEN st ->
  postA (negb (plus && Nat.eqb it 0)) k st gl (loop_step ustate scfg ev ctx b plus st it acc gl).
Proof.
  intros W N O C Bd. unfold loop_step. pose proof (IHe ctx b st gl X k W O C Bd) as P.
  destruct (ev_expr ev ctx b st gl) as [[fs st'|er|p|] gl']; cbn in P; try exact I.
  - destruct P as (P1 & P2 & P3 & P4 & P5).
    assert (Lt : off st < off st').
    { destruct (Nat.eq_dec (off st') (off st)) as [E|E]; [|lia]. rewrite (P2 E) in N. discriminate. }
    destruct (extend_all acc fs) as [acc'|]; [|exact I].
    eapply postA_later; [exact P1|exact P3| |].
    + intros E. lia.
    + apply (IHl ctx b plus st' (S it) acc' gl' X); [apply wfe_kat; exact W|exact N| |exact P4|exact P5].
      eapply opn_kat; [|exact (G_mono _ _ _ _ P3)|exact O]. auto.
  - destruct P as (P3 & P4). destruct (plus && Nat.eqb it 0) eqn:PI; cbn.
    + split; assumption.
    + rewrite off_record. split; [lia|]. split; [reflexivity|]. split; [assumption|split; [assumption|apply bnd_record; exact Bd]].
Qed.

(* ---- rules -------------------------------------------------------------------------- *)

Lemma G_pre p k gl0 gl gl' : g_cache gl = g_cache gl0 -> g_evals gl = g_evals gl0 -> G p k gl gl' -> G p k gl0 gl'.
Proof.
  intros E1 E2 [M (d & E & F & N & A & C & T)]. split.
  - intros e H. apply M. unfold has_entry in *. rewrite E1. exact H.
  - exists d. rewrite <- E2. split; [exact E|]. split; [exact F|]. split; [exact N|]. split; [|split; [exact C|exact T]].
    intros e H Q. apply (A e H). unfold has_entry in *. rewrite E1. exact Q.
Qed.

Lemma G_post p k gl gl' gl2 : g_cache gl2 = g_cache gl' -> g_evals gl2 = g_evals gl' -> G p k gl gl' -> G p k gl gl2.
Proof.
  intros E1 E2 [M (d & E & F & N & A & C & T)]. split.
  - intros e H. unfold has_entry. rewrite E1. apply M. exact H.
  - exists d. rewrite E2. split; [exact E|]. split; [exact F|]. split; [exact N|]. split; [exact A|]. split; [|exact T].
    intros e H. unfold has_entry. rewrite E1. apply C. exact H.
Qed.

Lemma CInv_same gl gl' : g_cache gl' = g_cache gl -> CInv gl -> CInv gl'.
Proof. intros E C n o v s H. rewrite E in H. eauto. Qed.

Lemma postA_pre {A} nl k st gl0 gl (x : R ustate A) :
  g_cache gl = g_cache gl0 -> g_evals gl = g_evals gl0 -> postA nl k st gl x -> postA nl k st gl0 x.
Proof.
  intros E1 E2 P. destruct x as [[v st'|e|p|] gl']; cbn in *; auto.
  - destruct P as (P1 & P2 & P3 & P4). split; [exact P1|]. split; [exact P2|]. split; [eapply G_pre; eauto|exact P4].
  - destruct P as (P3 & P4). split; [eapply G_pre; eauto|exact P4].
Qed.

Lemma opn_pre X k st gl gl1 : g_cache gl1 = g_cache gl -> opn X k st gl -> opn X k st gl1.
Proof. intros E O. eapply opn_same; [reflexivity| |exact O]. intros e H. unfold has_entry in *. rewrite E. exact H. Qed.

Lemma run_checks_same cs v : forall st' gl,
  match run_checks ustate scfg hk cs v st' gl with
  | (MOk _ s, gl2) => s = st' /\ g_cache gl2 = g_cache gl /\ g_evals gl2 = g_evals gl
  | (MErr _, gl2) => g_cache gl2 = g_cache gl /\ g_evals gl2 = g_evals gl
  | _ => True
  end.
Proof.
  induction cs as [|f cs IH]; intros st' gl; cbn [run_checks]; [auto|].
  destruct (h_check hk f v (g_user gl)) as [ok u]. destruct ok.
  - specialize (IH st' (set_user ustate u gl)). destruct (run_checks ustate scfg hk cs v st' (set_user ustate u gl)) as [[w s|e|p|] gl2]; auto.
  - cbn. auto.
Qed.

Theorem rule_body_post r st gl X k :
  wfe X k (negb (fl_no_skip_ws (flags_of (r_directives r)))) (r_def r) = true -> opn X k st gl -> CInv gl -> bnd LEN st ->
  postA (enull (r_def r)) k st gl (rule_body ustate scfg fcfg hk g ev r st gl).
Proof.
  intros W O C Bd. unfold rule_body.
  destruct (get_fields fcfg (gf_fuel g) g (r_def r)) as [rf| |]; try exact I.
  set (ctx := {| c_skip := negb (fl_no_skip_ws (flags_of (r_directives r))); c_fields := rf |}).
  pose proof (IHe ctx (r_def r) st gl X k W O C Bd) as P.
  destruct (ev_expr ev ctx (r_def r) st gl) as [[fs st'|e|p|] gl']; cbn in P; try exact I; [|exact P].
  destruct P as (P1 & P2 & P3 & P4 & P5).
  match goal with |- postA _ _ _ _ (match ?o with _ => _ end) => destruct o as [v|] end; [|exact I].
  pose proof (run_checks_same (checks_of (r_directives r)) v st' gl') as K.
  destruct (run_checks ustate scfg hk (checks_of (r_directives r)) v st' gl') as [[w s|e|p|] gl2]; cbn; try exact I.
  - destruct K as (-> & K1 & K2). split; [exact P1|]. split; [exact P2|]. split; [eapply G_post; eauto|split; [eapply CInv_same; eauto|exact P5]].
  - destruct K as (K1 & K2). split; [eapply G_post; eauto|eapply CInv_same; eauto].
Qed.

Lemma has_entry_put e n o c (gl : glb) : has_entry e gl -> has_entry e (cache_put ustate n o c gl).
Proof.
  unfold has_entry. cbn. destruct (name_eqb (fst e) n && Nat.eqb (snd e) o); [discriminate|auto].
Qed.

Lemma has_entry_put_self n o c (gl : glb) : has_entry (n, o) (cache_put ustate n o c gl).
Proof. unfold has_entry. cbn. rewrite name_eqb_refl, Nat.eqb_refl. discriminate. Qed.

Lemma CInv_put n o c gl :
  CInv gl -> (forall v s, c = COk v s -> o <= off s /\ (off s = o -> nul n = true) /\ bnd LEN s) ->
  CInv (cache_put ustate n o c gl).
Proof.
  intros C H n' o' v s E. cbn in E.
  destruct (name_eqb n' n && Nat.eqb o' o) eqn:Q; [|eauto].
  injection E as ->. apply andb_prop in Q. destruct Q as [Q1 Q2]. apply name_eqb_eq in Q1. apply Nat.eqb_eq in Q2. subst.
  eapply H. reflexivity.
Qed.

(* the memoizing wrapper on a miss: the body's own evaluations plus this one *)
Lemma G_miss n p k gl gl' c :
  bound_ok rk0 k (UCall n) = true -> entok (n, p) ->
  cache_get n p (g_cache gl) = None ->
  G p (Some (rk0 (UCall n))) (log_eval ustate (n, p) gl) gl' ->
  G p k gl (cache_put ustate n p c gl').
Proof.
  intros B Tok Miss [M (d & E & F & N & A & C & T)]. split.
  - intros e H. apply has_entry_put. apply M. exact H.
  - exists (d ++ [(n, p)]). split; [|split; [|split; [|split; [|split]]]].
    + cbn. rewrite E. cbn. rewrite <- app_assoc. reflexivity.
    + apply Forall_app. split.
      * eapply Forall_impl; [|exact F]. intros e [H|[H1 H2]]; [left; exact H|right; split; [exact H1|]].
        destruct k as [k0|]; [|reflexivity]. cbn in *. apply Nat.ltb_lt in B. apply Nat.ltb_lt in H2. apply Nat.ltb_lt. lia.
      * constructor; [|constructor]. right. split; [reflexivity|exact B].
    + apply NoDup_append; [exact N|constructor; [intros []|constructor]|].
      intros x Hx [<-|[]]. rewrite Forall_forall in F. destruct (F _ Hx) as [H|[_ H]]; cbn in H; [lia|].
      apply Nat.ltb_lt in H. lia.
    + intros e H. apply in_app_or in H. destruct H as [H|[<-|[]]]; [exact (A e H)|].
      unfold has_entry. cbn. rewrite Miss. auto.
    + intros e H. apply in_app_or in H. destruct H as [H|[<-|[]]]; [apply has_entry_put; apply C; exact H|apply has_entry_put_self].
    + apply Forall_app. split; [exact T|]. constructor; [exact Tok|constructor].
Qed.

Lemma mnames_in r : In (GRule r) g -> fl_memoize (flags_of (r_directives r)) = true -> In (r_name r) mnames.
Proof.
  intros Hin Hm. unfold mnames. apply in_flat_map. exists (GRule r). split; [exact Hin|]. rewrite Hm. left. reflexivity.
Qed.

Lemma G_put p k n o c (gl : glb) : G p k gl (cache_put ustate n o c gl).
Proof.
  split; [intros e H; apply has_entry_put; exact H|]. exists []. split; [reflexivity|]. split; [constructor|].
  split; [constructor|]. split; [intros e []|]. split; [intros e []|constructor].
Qed.

Lemma is_lrule_found r : find_grule g (r_name r) = Some (GRule r) ->
  is_lrule g (r_name r) = fl_left_recursive (flags_of (r_directives r)).
Proof. intro F. unfold is_lrule. rewrite F. reflexivity. Qed.

Lemma hit_post n st gl k c :
  cache_get n (off st) (g_cache gl) = Some c -> CInv gl ->
  forall gl', g_cache gl' = g_cache gl -> g_evals gl' = g_evals gl ->
  postA (nul n) k st gl (of_cached c, gl').
Proof.
  intros CG C gl' E1 E2. destruct c as [v s|e]; cbn.
  - destruct (C _ _ _ _ CG) as (C1 & C2 & C3). split; [exact C1|]. split; [exact C2|].
    split; [apply G_same; assumption|split; [eapply CInv_same; [|exact C]; assumption|exact C3]].
  - split; [apply G_same; assumption|eapply CInv_same; [|exact C]; assumption].
Qed.

Lemma opn_put X k st gl n o c : opn X k st gl -> opn X k st (cache_put ustate n o c gl).
Proof. intro O. eapply opn_same; [reflexivity| |exact O]. intros e H. apply has_entry_put. exact H. Qed.

(* the body of the demanded unit (X, UCall r) *)
Lemma unit_body r X :
  find_grule g (r_name r) = Some (GRule r) -> dem X (UCall (r_name r)) = true ->
  wfe (if fl_left_recursive (flags_of (r_directives r)) then r_name r :: X else X)
      (Some (rkX X (UCall (r_name r)))) (negb (fl_no_skip_ws (flags_of (r_directives r)))) (r_def r) = true.
Proof. intros F D. pose proof (Hunit _ _ D) as K. cbn [unit_ok] in K. rewrite F in K. exact K. Qed.

(* one turn of the growth loop of a @leftrec rule that is open at this offset *)
Theorem grow_step_post r X st best gl :
  In (GRule r) g -> find_grule g (r_name r) = Some (GRule r) ->
  fl_left_recursive (flags_of (r_directives r)) = true -> dem X (UCall (r_name r)) = true ->
  opn (r_name r :: X) (Some (rkX X (UCall (r_name r)))) st gl -> bestok (r_name r) st best -> CInv gl -> bnd LEN st ->
  postA (nul (r_name r)) (Some (rkX X (UCall (r_name r)))) st gl (grow_step ustate scfg fcfg rcfg hk g ev r st best gl).
Proof.
  intros Hin F LR D O Hb C Bd. unfold grow_step.
  pose proof (unit_body r X F D) as K. rewrite LR in K.
  pose proof (wf_nul' _ Hin) as Kn. cbn [nul_ok_rule] in Kn.
  assert (Hn : enull (r_def r) = true -> nul (r_name r) = true).
  { intro H. rewrite H in Kn. exact Kn. }
  set (gl1 := trace ustate (TInfo 2) gl).
  assert (C1 : CInv gl1) by (eapply CInv_same; [|exact C]; reflexivity).
  assert (O1 : opn (r_name r :: X) (Some (rkX X (UCall (r_name r)))) st gl1) by (eapply opn_pre; [|exact O]; reflexivity).
  pose proof (rule_body_post r st gl1 _ _ K O1 C1 Bd) as P.
  apply (postA_pre _ _ _ gl gl1) in P; [|reflexivity|reflexivity].
  destruct (rule_body ustate scfg fcfg hk g ev r st gl1) as [[v st'|e|p|] gl2]; cbn in P; try exact I.
  - destruct P as (P1 & P2 & P3 & P4 & P5).
    assert (Grow : postA (nul (r_name r)) (Some (rkX X (UCall (r_name r)))) st gl
                     (ev_grow ev r st (COk v st') (cache_put ustate (r_name r) (off st) (COk v st') gl2))).
    { eapply postA_same_off; [reflexivity| | |apply (IHg r X); try assumption].
      - eapply G_trans; [exact P3|apply G_put].
      - auto.
      - apply opn_put. eapply opn_same; [reflexivity|exact (G_mono _ _ _ _ P3)|exact O].
      - cbn. split; [exact P1|]. split; [auto|exact P5].
      - apply CInv_put; [exact P4|]. intros v0 s0 E. injection E as <- <-. split; [exact P1|split; [auto|exact P5]]. }
    destruct best as [bv bst|be]; [|exact Grow].
    destruct (is_further_than scfg st' bst); [exact Grow|].
    cbn in Hb. destruct Hb as (B1 & B2 & B3). cbn. split; [exact B1|]. split; [exact B2|]. split; [exact P3|split; [exact P4|exact B3]].
  - destruct P as (P3 & P4). destruct (leftrec_closed rcfg).
    + destruct best as [bv bst|be].
      * cbn in Hb. destruct Hb as (B1 & B2 & B3). cbn. split; [exact B1|]. split; [exact B2|]. split; [exact P3|split; [exact P4|exact B3]].
      * cbn. split; [eapply G_trans; [exact P3|apply G_put]|]. apply CInv_put; [exact P4|]. intros v0 s0 E. discriminate.
    + cbn. split; assumption.
Qed.

Theorem memo_wrap_post r st gl X k :
  In (GRule r) g -> find_grule g (r_name r) = Some (GRule r) -> callok X k (r_name r) st gl -> opn X k st gl ->
  CInv gl -> bnd LEN st ->
  postA (nul (r_name r)) k st gl (memo_wrap ustate scfg fcfg rcfg hk g ev r st gl).
Proof.
  intros Hin F B O C Bd. unfold memo_wrap.
  pose proof (wf_nul' _ Hin) as Kn. cbn [nul_ok_rule] in Kn.
  assert (Hn : enull (r_def r) = true -> nul (r_name r) = true).
  { intro H. rewrite H in Kn. exact Kn. }
  destruct (fl_left_recursive (flags_of (r_directives r))) eqn:LR.
  - (* @leftrec: answered from the cache while open, otherwise seeded with the sentinel and grown *)
    destruct (cache_get (r_name r) (off st) (g_cache gl)) as [c|] eqn:CG.
    + apply (hit_post _ _ _ _ _ CG C); reflexivity.
    + destruct B as [B|[_ B]]; [|exfalso; apply B; exact CG].
      unfold OnceWF.callb in B. apply andb_prop in B. destruct B as [B _]. apply andb_prop in B. destruct B as [B D].
      eapply postA_same_off; [reflexivity|apply G_put| |].
      * intro H. exact H.
      * eapply postA_bound; [exact (kle_call _ _ _ B)|intro H; exact H|].
        apply (IHg r (cx X k)); try assumption.
        -- intros a [<-|Ha].
           ++ split; [rewrite (is_lrule_found r F); exact LR|]. intros _. apply has_entry_put_self.
           ++ apply (opn_put _ _ _ _ _ _ _ (opn_cx _ _ _ _ _ O)). exact Ha.
        -- exact I.
        -- apply CInv_put; [exact C|]. intros v0 s0 E. discriminate.
  - assert (B' : callb X k (UCall (r_name r)) = true).
    { destruct B as [B|[B _]]; [exact B|]. rewrite (is_lrule_found r F), LR in B. discriminate. }
    unfold OnceWF.callb in B'. apply andb_prop in B'. destruct B' as [B' _]. apply andb_prop in B'. destruct B' as [B' D].
    pose proof (unit_body r (cx X k) F D) as K. rewrite LR in K.
    pose proof (kle_call _ _ _ B') as Tr.
    destruct (fl_memoize (flags_of (r_directives r))) eqn:FM.
    + assert (Tok : entok (r_name r, off st)).
      { split; [apply mnames_in; assumption|]. cbn. unfold bnd in Bd. lia. }
      (* the rank of a memoized rule does not depend on the context *)
      assert (Ei : rkX (cx X k) (UCall (r_name r)) = rk0 (UCall (r_name r))).
      { pose proof (Hmemo _ _ D) as Hm. cbn [memo_ok] in Hm. unfold is_mrule in Hm. rewrite F, LR, FM in Hm. cbn in Hm.
        apply Nat.eqb_eq in Hm. exact Hm. }
      assert (B0 : bound_ok rk0 k (UCall (r_name r)) = true).
      { destruct k as [k0|]; [|reflexivity]. cbn in Ei, B' |- *. rewrite <- Ei. exact B'. }
      destruct (cache_get (r_name r) (off st) (g_cache gl)) as [c|] eqn:CG.
      * apply (hit_post _ _ _ _ _ CG C); reflexivity.
      * set (gl1 := log_eval ustate (r_name r, off st) gl).
        assert (C1 : CInv gl1) by (eapply CInv_same; [|exact C]; reflexivity).
        assert (O1 : opn (cx X k) (Some (rkX (cx X k) (UCall (r_name r)))) st gl1).
        { eapply opn_pre; [|apply opn_cx; exact O]. reflexivity. }
        pose proof (rule_body_post r st gl1 _ _ K O1 C1 Bd) as P. rewrite Ei in P.
        destruct (rule_body ustate scfg fcfg hk g ev r st gl1) as [[v st'|e|p|] gl']; cbn in P; try exact I.
        -- destruct P as (P1 & P2 & P3 & P4 & P5). cbn. split; [exact P1|]. split; [auto|]. split; [|split; [|exact P5]].
           ++ eapply G_miss; eauto.
           ++ apply CInv_put; [exact P4|]. intros v0 s0 E. injection E as <- <-. split; [exact P1|split; [auto|exact P5]].
        -- destruct P as (P3 & P4). rewrite Hclosed. cbn. split.
           ++ eapply G_miss; eauto.
           ++ apply CInv_put; [exact P4|]. intros v0 s0 E. discriminate.
    + eapply postA_bound; [exact Tr|exact Hn|]. apply (rule_body_post r st gl (cx X k)); [exact K|apply opn_cx; exact O|exact C|exact Bd].
Qed.

Lemma char_parts_post nm X ps : forall st gl k,
  (forall m, In (CPIdent m) ps -> callb X k (UCall m) = true) -> opn X k st gl -> CInv gl -> bnd LEN st ->
  postA (existsb (fun p => match p with CPIdent m => nul m | _ => false end) ps) k st gl
        (char_parts ustate scfg tcfg ev nm ps st gl).
Proof.
  induction ps as [|pt ps IH]; intros st gl k B O C Bd; cbn [char_parts]; [apply fail_post; exact C|].
  assert (IH' : postA (existsb (fun p => match p with CPIdent m => nul m | _ => false end) ps) k st gl
                      (char_parts ustate scfg tcfg ev nm ps st gl)).
  { apply IH; [|exact O|exact C|exact Bd]. intros m Hm. apply B. right. exact Hm. }
  destruct pt as [i|a b|n].
  - destruct (decode_item i) as [c| |]; try exact I.
    pose proof (off_clit scfg tcfg st c) as T.
    destruct (parse_character_literal scfg tcfg st c) as [v st'|e| |]; cbn in T; try exact I.
    + destruct T as [T1 T2]. cbn. split; [lia|]. split; [intro; lia|]. split; [apply G_refl|split; [exact C|auto]].
    + exact IH'.
  - destruct (compile_range a b) as [x y| |]; try exact I.
    pose proof (off_range scfg tcfg st x y) as T.
    destruct (parse_character_range scfg tcfg st x y) as [v st'|e| |]; cbn in T; try exact I.
    + destruct T as [T1 T2]. cbn. split; [lia|]. split; [intro; lia|]. split; [apply G_refl|split; [exact C|auto]].
    + exact IH'.
  - pose proof (IHr n st gl X k (or_introl (B n (or_introl eq_refl))) O C Bd) as P.
    destruct (ev_rule ev n st gl) as [[v st'|e|p|] gl']; cbn in P; try exact I.
    + destruct P as (P1 & P2 & P3 & P4 & P5). cbn. split; [exact P1|]. split; [|split; [assumption|split; assumption]].
      intro E. rewrite (P2 E). reflexivity.
    + destruct P as (P3 & P4).
      eapply postA_same_off; [reflexivity|exact P3| |apply IH; [| |exact P4|exact Bd]].
      * cbn [existsb]. intro H. rewrite H. apply Bool.orb_true_r.
      * intros m Hm. apply B. right. exact Hm.
      * eapply opn_same; [reflexivity|exact (G_mono _ _ _ _ P3)|exact O].
Qed.

Lemma char_rule_post r st gl X k :
  In (GChar r) g -> find_grule g (cr_name r) = Some (GChar r) -> callb X k (UCall (cr_name r)) = true -> opn X k st gl ->
  CInv gl -> bnd LEN st ->
  postA (nul (cr_name r)) k st gl (char_rule_body ustate scfg tcfg hk ev r st gl).
Proof.
  intros Hin F B O C Bd.
  unfold OnceWF.callb in B. apply andb_prop in B. destruct B as [B _]. apply andb_prop in B. destruct B as [B D].
  pose proof (Hunit _ _ D) as K. cbn [unit_ok] in K. rewrite F in K. rewrite forallb_forall in K.
  pose proof (wf_nul' _ Hin) as Kn. cbn [nul_ok_rule] in Kn.
  assert (P : postA (nul (cr_name r)) k st gl (char_parts ustate scfg tcfg ev (cr_name r) (cr_choices r) st gl)).
  { eapply postA_bound; [| |apply (char_parts_post (cr_name r) (cx X k) (cr_choices r) st gl (Some (rkX (cx X k) (UCall (cr_name r)))))].
    - apply kle_call. exact B.
    - intro H. rewrite H in Kn. exact Kn.
    - intros m Hm. specialize (K _ Hm). cbn in K. exact K.
    - apply opn_cx. exact O.
    - exact C.
    - exact Bd. }
  unfold char_rule_body. destruct (cr_checks r); [exact P|].
  destruct (rest st); [apply fail_post; exact C|].
  destruct (decode1 (n :: b)) as [[ch kk]|]; [|exact I].
  destruct (char_checks ustate hk (cr_name r) (l :: l0) ch); [exact P|apply fail_post; exact C].
Qed.

Lemma extern_post r st gl k :
  In (GExtern r) g -> CInv gl -> bnd LEN st ->
  postA (nul (er_name r)) k st gl (extern_rule_body ustate scfg hk r st gl).
Proof.
  intros Hin C Bd. pose proof (wf_nul' _ Hin) as Kn. cbn [nul_ok_rule] in Kn.
  unfold extern_rule_body. destruct (h_extern hk (er_function r) (rest st) (g_user gl)) as [res u].
  destruct res as [[v n]|msg].
  - unfold advance_safe, advance. destruct (Nat.ltb (length (rest st)) n) eqn:E; [exact I|]. apply Nat.ltb_ge in E.
    destruct (is_boundary (rest st) n); [|exact I]. cbn. split; [lia|]. split; [auto|].
    split; [apply G_same; reflexivity|split; [eapply CInv_same; [|exact C]; reflexivity|]].
    unfold bnd in *. cbn. rewrite skipn_length. lia.
  - cbn. split; [apply G_same; reflexivity|eapply CInv_same; [|exact C]; reflexivity].
Qed.

Theorem rule_step_post n st gl X k :
  callok X k n st gl -> opn X k st gl -> CInv gl -> bnd LEN st ->
  postA (nul n) k st gl (rule_step ustate scfg tcfg fcfg rcfg hk g ev n st gl).
Proof.
  intros B O C Bd. unfold rule_step.
  assert (NL : is_lrule g n = false -> callb X k (UCall n) = true).
  { intro H. destruct B as [B|[B _]]; [exact B|]. rewrite H in B. discriminate. }
  destruct (find_grule g n) as [[r|r|r]|] eqn:F.
  - destruct (fg_in _ _ _ F) as [Hin Hn]. cbn in Hn. subst n.
    set (gl1 := trace ustate (TStart (r_name r) (off st)) gl).
    assert (C1 : CInv gl1) by (eapply CInv_same; [|exact C]; reflexivity).
    assert (B1 : callok X k (r_name r) st gl1).
    { destruct B as [B|[B1 B2]]; [left; exact B|right; split; [exact B1|exact B2]]. }
    assert (O1 : opn X k st gl1) by (eapply opn_pre; [|exact O]; reflexivity).
    pose proof (memo_wrap_post r st gl1 X k Hin F B1 O1 C1 Bd) as P.
    apply (postA_pre _ _ _ gl gl1) in P; [|reflexivity|reflexivity].
    destruct (memo_wrap ustate scfg fcfg rcfg hk g ev r st gl1) as [[v st'|e|p|] gl']; cbn in P |- *; try exact I.
    + destruct P as (P1 & P2 & P3 & P4 & P5). split; [exact P1|]. split; [exact P2|].
      split; [eapply G_post; [| |exact P3]; reflexivity|split; [eapply CInv_same; [|exact P4]; reflexivity|exact P5]].
    + destruct P as (P3 & P4). split; [eapply G_post; [| |exact P3]; reflexivity|eapply CInv_same; [|exact P4]; reflexivity].
  - destruct (fg_in _ _ _ F) as [Hin Hn]. cbn in Hn. subst n. apply (char_rule_post r st gl X); [exact Hin|exact F| |exact O|exact C|exact Bd].
    apply NL. unfold is_lrule. rewrite F. reflexivity.
  - destruct (fg_in _ _ _ F) as [Hin Hn]. cbn in Hn. subst n. apply extern_post; assumption.
  - destruct (name_eqb n n_char) eqn:E1.
    + apply lift_post; [exact C|exact Bd|]. destruct (nul n); cbn; [apply tadv_weaken|]; apply off_char.
    + destruct (name_eqb n n_Whitespace) eqn:E2; [|exact I]. apply name_eqb_eq in E2. subst n.
      apply lift_post; [exact C|exact Bd|]. rewrite wf_ws'. cbn. apply off_ws.
Qed.

End Step.

(* ---- all levels --------------------------------------------------------------------- *)
Theorem once_levels : forall n,
  (forall ctx e st gl X k, wfe X k (c_skip ctx) e = true -> opn X k st gl -> CInv gl -> bnd LEN st ->
     postA (enull e) k st gl (ev_expr (Run n) ctx e st gl)) /\
  (forall nm st gl X k, callok X k nm st gl -> opn X k st gl -> CInv gl -> bnd LEN st ->
     postA (nul nm) k st gl (ev_rule (Run n) nm st gl)) /\
  (forall ctx b plus st it acc gl X k, wfe X k (c_skip ctx) b = true -> enull b = false -> opn X k st gl -> CInv gl -> bnd LEN st ->
     postA (negb (plus && Nat.eqb it 0)) k st gl (ev_loop (Run n) ctx b plus st it acc gl)) /\
  (forall r X st best gl, In (GRule r) g -> find_grule g (r_name r) = Some (GRule r) ->
     fl_left_recursive (flags_of (r_directives r)) = true -> dem X (UCall (r_name r)) = true ->
     opn (r_name r :: X) (Some (rkX X (UCall (r_name r)))) st gl -> bestok (r_name r) st best -> CInv gl -> bnd LEN st ->
     postA (nul (r_name r)) (Some (rkX X (UCall (r_name r)))) st gl (ev_grow (Run n) r st best gl)).
Proof.
  induction n as [|n (IHe & IHr & IHl & IHg)].
  - split; [|split; [|split]]; intros; exact I.
  - split; [|split; [|split]]; intros; cbn [run step ev_expr ev_rule ev_loop ev_grow].
    + eapply expr_step_post; eassumption.
    + eapply rule_step_post; eassumption.
    + eapply loop_step_post; eassumption.
    + apply grow_step_post; assumption.
Qed.

Lemma CInv_init u : CInv (init_glob ustate u).
Proof. intros n o v s H. discriminate. Qed.

End Once.

(* the packrat bound: when the parse returns, no (rule, offset) occurs twice among the body
   evaluations of memoized rules that were started; each is at a memoized rule of the grammar and at
   an offset inside the input, so there are at most (memoized rules) x (input length + 1) of them.
   Stated for any set of demanded units `dem` that is closed (every demanded unit's body passes the
   check, OnceWF.unit_ok) and on which memoized rules have one rank; the start rule is demanded in the
   empty context. *)
Theorem at_most_once_dem ustate scfg tcfg fcfg rcfg (hk : hooks ustate) g nul rkX dem :
  nul_okX g nul = true ->
  (forall X u, dem X u = true -> unit_ok g nul rkX dem X u = true) ->
  (forall X u, dem X u = true -> memo_ok g rkX X u = true) ->
  memo_closed rcfg = true ->
  forall n rule_name input u, dem [] (UCall rule_name) = true ->
  match m_parse ustate scfg tcfg fcfg rcfg hk g n rule_name input u with
  | (MOk _ _, gl') | (MErr _, gl') =>
    NoDup (g_evals gl') /\
    Forall (fun e => In (fst e) (mnames g) /\ snd e <= length input) (g_evals gl') /\
    length (g_evals gl') <= length (mnames g) * S (length input)
  | _ => True
  end.
Proof.
  intros Hn Hu Hm Hc n rule_name input u D. unfold m_parse.
  destruct (once_levels ustate scfg tcfg fcfg rcfg hk g nul rkX dem Hn Hu Hm Hc (length input) n) as (_ & Hr & _).
  assert (Bd : bnd (length input) (init_state input)) by (unfold bnd, init_state; cbn; lia).
  assert (B : callok ustate g rkX dem [] None rule_name (init_state input) (init_glob ustate u)).
  { left. unfold callb. cbn. rewrite D. reflexivity. }
  pose proof (Hr rule_name (init_state input) (init_glob ustate u) [] None B (opn_nil _ _ _ _ _) (CInv_init _ _ _ _) Bd) as P.
  assert (K : forall d : list (name * nat), NoDup d ->
            Forall (entok g (length input)) d ->
            NoDup d /\ Forall (fun e => In (fst e) (mnames g) /\ snd e <= length input) d /\
            length d <= length (mnames g) * S (length input)).
  { intros d N T. split; [exact N|]. split; [exact T|].
    rewrite <- (seq_length (S (length input)) 0), <- prod_length.
    apply NoDup_incl_length; [exact N|]. intros [a b] Hin. rewrite Forall_forall in T. destruct (T _ Hin) as [T1 T2].
    apply in_prod; [exact T1|]. apply in_seq. cbn in T2. lia. }
  destruct (ev_rule (run ustate scfg tcfg fcfg rcfg hk g n) rule_name (init_state input) (init_glob ustate u)) as [[v st'|e|p|] gl']; cbn in P; try exact I.
  - destruct P as (_ & _ & [_ (d & E & _ & N & _ & _ & T)] & _). rewrite E. cbn [init_glob g_evals]. rewrite app_nil_r. apply K; assumption.
  - destruct P as ([_ (d & E & _ & N & _ & _ & T)] & _). rewrite E. cbn [init_glob g_evals]. rewrite app_nil_r. apply K; assumption.
Qed.

(* with a finite certificate: the demanded units as a list, checked by the boolean function *)
Theorem at_most_once_lr ustate scfg tcfg fcfg rcfg (hk : hooks ustate) g nul rkX U :
  wf_check_onceX g nul rkX U = true ->
  memo_closed rcfg = true ->
  forall n rule_name input u, memU U [] (UCall rule_name) = true ->
  match m_parse ustate scfg tcfg fcfg rcfg hk g n rule_name input u with
  | (MOk _ _, gl') | (MErr _, gl') =>
    NoDup (g_evals gl') /\
    Forall (fun e => In (fst e) (mnames g) /\ snd e <= length input) (g_evals gl') /\
    length (g_evals gl') <= length (mnames g) * S (length input)
  | _ => True
  end.
Proof.
  intros W Hc. apply (at_most_once_dem ustate scfg tcfg fcfg rcfg hk g nul rkX (memU U)).
  - unfold wf_check_onceX in W. apply andb_prop in W. tauto.
  - intros X u D. exact (proj1 (wf_check_onceX_unit g nul rkX U W X u D)).
  - intros X u D. exact (proj2 (wf_check_onceX_unit g nul rkX U W X u D)).
  - exact Hc.
Qed.

(* without @leftrec rules nothing is ever open: the certificate of C01 (WellFormed.wf_check) suffices,
   every unit demanded, ranks independent of the (empty) context *)
Lemma wfe_wfeX nul rk : forall e X k s,
  wfe nul rk k s e = true -> wfeX nul (fun _ => rk) (fun _ _ => true) X k s e = true.
Proof.
  induction e using expr_ind'; intros X k s W.
  - cbn [wfe wfeX] in *. rewrite forallb_forall in *. intros y Hy. rewrite Forall_forall in H. apply H; auto.
  - rewrite wfe_seq_eq in W. rewrite wfeX_seq_eq. revert k W. induction H as [|p ps Hp Hps IH]; intros k W; [reflexivity|].
    cbn [wfseq wfseqX] in *. apply andb_prop in W. destruct W as [W1 W2]. rewrite (Hp _ _ _ W1). cbn. apply IH. exact W2.
  - cbn [wfe wfeX] in *. auto.
  - cbn [wfe wfeX] in *. auto.
  - cbn [wfe wfeX] in *. apply andb_prop in W. destruct W as [W1 W2]. rewrite (IHe _ _ _ W1), W2. reflexivity.
  - cbn [wfe wfeX] in *. auto.
  - cbn [wfe wfeX] in *. auto.
  - cbn [wfe wfeX] in *. unfold ws_ok in W. unfold wsb, callb. destruct s; [rewrite W|]; reflexivity.
  - cbn [wfe wfeX] in *. unfold ws_ok in W. unfold wsb, callb. destruct s; [rewrite W|]; reflexivity.
  - cbn [wfe wfeX] in *. unfold ws_ok in W. unfold wsb, callb. destruct s; [rewrite W|]; reflexivity.
  - cbn [wfe wfeX] in *. unfold callb. rewrite W. reflexivity.
  - cbn [wfe wfeX] in *. apply andb_prop in W. destruct W as [W1 W2]. unfold ws_ok in W1. unfold wsb, callb.
    rewrite W2. rewrite Bool.orb_true_r. destruct s; [rewrite W1|]; reflexivity.
Qed.

Theorem at_most_once ustate scfg tcfg fcfg rcfg (hk : hooks ustate) g nul rk :
  wf_check g nul rk = true ->
  (forall r, In (GRule r) g -> fl_left_recursive (flags_of (r_directives r)) = false) ->
  memo_closed rcfg = true ->
  forall n rule_name input u,
  match m_parse ustate scfg tcfg fcfg rcfg hk g n rule_name input u with
  | (MOk _ _, gl') | (MErr _, gl') =>
    NoDup (g_evals gl') /\
    Forall (fun e => In (fst e) (mnames g) /\ snd e <= length input) (g_evals gl') /\
    length (g_evals gl') <= length (mnames g) * S (length input)
  | _ => True
  end.
Proof.
  intros WF NoLR Hc n rule_name input u.
  apply (at_most_once_dem ustate scfg tcfg fcfg rcfg hk g nul (fun _ => rk) (fun _ _ => true)); [| | |exact Hc|reflexivity].
  - unfold nul_okX. unfold wf_check in WF. apply andb_prop in WF. tauto.
  - intros X u0 _. destruct u0 as [m|s m]; cbn [unit_ok].
    + destruct (find_grule g m) as [[r|r|r]|] eqn:F; try reflexivity.
      * destruct (fg_in _ _ _ F) as [Hin Hm]. cbn in Hm. subst m.
        pose proof (wf_rank g nul rk WF _ Hin) as K. cbn [rank_ok_rule] in K.
        apply andb_prop in K. destruct K as [K _]. apply andb_prop in K. destruct K as [K _].
        rewrite (NoLR r Hin) in *. cbn [orb] in K. apply wfe_wfeX. exact K.
      * destruct (fg_in _ _ _ F) as [Hin Hm]. cbn in Hm. subst m.
        pose proof (wf_rank g nul rk WF _ Hin) as K. cbn [rank_ok_rule] in K.
        rewrite forallb_forall in *. intros p Hp. specialize (K p Hp). destruct p; try reflexivity.
        unfold callb, bound_ok. rewrite K. reflexivity.
    + destruct (find_rule g m) as [r|] eqn:F; [|reflexivity].
      destruct (fr_in _ _ _ F) as [Hin Hm]. subst m.
      pose proof (wf_rank g nul rk WF _ Hin) as K. cbn [rank_ok_rule] in K.
      apply andb_prop in K. destruct K as [K K3]. apply andb_prop in K. destruct K as [_ K2].
      apply wfe_wfeX. destruct s; assumption.
  - intros X u0 _. destruct u0 as [m|s m]; cbn [memo_ok]; [|reflexivity]. rewrite Nat.eqb_refl. destruct (is_mrule g m); reflexivity.
Qed.
