(* Model of runtime/src/state.rs (ParseState) and runtime/src/error.rs
   (ParseError, ParseErrorSpecifics). *)
From PegV Require Import Utf8.

Definition name := list N.   (* an identifier / static string, as its bytes *)

Fixpoint name_eqb (a b : name) : bool :=
  match a, b with
  | [], [] => true
  | x :: a', y :: b' => N.eqb x y && name_eqb a' b'
  | _, _ => false
  end.

(* ParseErrorSpecifics *)
Inductive specifics :=
| ExpectedAnyCharacter
| ExpectedCharacter (c : N)
| ExpectedCharacterRange (from to : N)
| ExpectedString (s : bytes)
| ExpectedCharacterClass (nm : name)
| ExpectedEoi
| NegativeLookaheadFailed
| CheckFunctionFailed (fn : name)
| ExternRuleFailed (msg : name)
| LeftRecursionSentinel
| OtherError.

Record perr := { e_pos : nat; e_spec : specifics }.

Record pstate := { rest : bytes; off : nat; far : option perr }.

(* The two comparison operators of state.rs, regenerated from the source:
   rec_le : record_error replaces the stored error when
            `farthest_error.position <= error.position` (true) or `<` (false)
   further_gt : is_further_than is `self.start_index > other.start_index`
            (true) or `>=` (false) *)
Record state_cfg := { rec_le : bool; further_gt : bool }.

Section WithCfg.
Variable cfg : state_cfg.

Definition init_state (input : bytes) : pstate := {| rest := input; off := 0; far := None |}.

Definition record_error (st : pstate) (e : perr) : pstate :=
  match far st with
  | Some f =>
    if (if rec_le cfg then Nat.leb (e_pos f) (e_pos e) else Nat.ltb (e_pos f) (e_pos e))
    then {| rest := rest st; off := off st; far := Some e |}
    else st
  | None => {| rest := rest st; off := off st; far := Some e |}
  end.

Definition report_farthest_error (st : pstate) : perr :=
  match far st with
  | Some e => e
  | None => {| e_pos := off st; e_spec := OtherError |}
  end.

Definition report_error (st : pstate) (sp : specifics) : perr :=
  report_farthest_error (record_error st {| e_pos := off st; e_spec := sp |}).

Definition is_further_than (a b : pstate) : bool :=
  if further_gt cfg then Nat.ltb (off b) (off a) else Nat.leb (off b) (off a).

End WithCfg.

(* Outcome of moving the cursor.  `advance` is the unchecked (unsafe) variant:
   its callers promise a char boundary.  With the cfg(peginator_verif) hook the
   implementation asserts that promise, so a broken promise is an outcome of
   its own (ASplit) rather than undefined behaviour. *)
Inductive adv :=
| AOk (st : pstate)
| AOverrun            (* panic!("String length overrun in advance()") *)
| ASplit.             (* cut inside a UTF-8 sequence *)

Definition advance (st : pstate) (n : nat) : adv :=
  if Nat.ltb (length (rest st)) n then AOverrun
  else if is_boundary (rest st) n
       then AOk {| rest := skipn n (rest st); off := off st + n; far := far st |}
       else ASplit.

(* advance_safe: `&self.partial_string[length..]` panics off a boundary too;
   both failure modes are panics of the checked variant *)
Definition advance_safe (st : pstate) (n : nat) : adv := advance st n.

Definition slice_until (st st' : pstate) : bytes := firstn (off st' - off st) (rest st).
Definition range_until (st st' : pstate) : nat * nat := (off st, off st').
Definition cache_key (st : pstate) : nat := off st.
