(* Proofs about the pretty-error model: the repaired configuration meets the
   C11 specification for every text and every position 0..=len; the
   configuration of the pinned source does not (witnesses). *)
From PegV Require Import Utf8 Utf8Facts Pretty.
Local Open Scope N_scope.

Definition no_nl (bs : bytes) : Prop := Forall (fun b => (b =? NL) = false) bs.

Lemma no_nl_app a b : no_nl (a ++ b) <-> no_nl a /\ no_nl b.
Proof. apply Forall_app. Qed.

Lemma no_nl_firstn n a : no_nl a -> no_nl (firstn n a).
Proof.
  intro H. revert n. induction H; intros [|n]; cbn; try constructor; auto.
  apply IHForall.
Qed.

Lemma no_nl_skipn n a : no_nl a -> no_nl (skipn n a).
Proof.
  intro H. revert n. induction H; intros [|n]; cbn; try constructor; auto.
Qed.

Lemma no_nl_rev a : no_nl a -> no_nl (rev a).
Proof. unfold no_nl. apply Forall_rev. Qed.

Lemma before_first_nl_no_nl c r : no_nl c -> before_first_nl (c ++ r) = c ++ before_first_nl r.
Proof.
  induction 1 as [|b c Hb Hc IH]; [reflexivity|].
  cbn [app before_first_nl]. rewrite Hb, IH. reflexivity.
Qed.

Lemma before_first_nl_id c : no_nl c -> before_first_nl c = c.
Proof.
  intro H. rewrite <- (app_nil_r c) at 1. rewrite before_first_nl_no_nl by auto.
  cbn. apply app_nil_r.
Qed.

Lemma before_first_nl_cut a b : before_first_nl (a ++ NL :: b) = before_first_nl a.
Proof.
  induction a as [|x a IH]; [reflexivity|].
  cbn [app before_first_nl]. destruct (x =? NL); [reflexivity|]. rewrite IH. reflexivity.
Qed.

Lemma after_last_nl_id c : no_nl c -> after_last_nl c = c.
Proof.
  intro H. unfold after_last_nl. rewrite before_first_nl_id by (apply no_nl_rev; auto).
  apply rev_involutive.
Qed.

Lemma after_last_nl_cut c y : after_last_nl (c ++ NL :: y) = after_last_nl y.
Proof.
  unfold after_last_nl. rewrite rev_app_distr. cbn [rev]. rewrite <- app_assoc. cbn [app].
  rewrite before_first_nl_cut. reflexivity.
Qed.

Lemma count_nl_app a b : count_nl (a ++ b) = (count_nl a + count_nl b)%nat.
Proof. unfold count_nl. rewrite filter_app, app_length. reflexivity. Qed.

Lemma count_nl_no_nl c : no_nl c -> count_nl c = O.
Proof.
  unfold count_nl. induction 1 as [|b c Hb Hc IH]; [reflexivity|].
  cbn [filter]. rewrite Hb. exact IH.
Qed.

Lemma before_first_nl_length z : (length (before_first_nl z) <= length z)%nat.
Proof. induction z as [|x z IH]; cbn; [lia|]. destruct (x =? NL); cbn; lia. Qed.

Lemma after_last_nl_length z : (length (after_last_nl z) <= length z)%nat.
Proof.
  unfold after_last_nl. rewrite rev_length.
  pose proof (before_first_nl_length (rev z)) as H. rewrite rev_length in H. exact H.
Qed.

(* -------- what `find` returns on the line list ------------------------- *)

Definition found_ok (start no : nat) (X : bytes) (p : nat) (l : line) : Prop :=
  l_no l = (no + count_nl (firstn p X))%nat /\
  l_s l = after_last_nl (firstn p X) ++ before_first_nl (skipn p X) /\
  l_start l = (start + p - length (after_last_nl (firstn p X)))%nat.

Lemma firstn_app_le {A} n (a b : list A) : (n <= length a)%nat -> firstn n (a ++ b) = firstn n a.
Proof.
  intro H. rewrite firstn_app. replace (n - length a)%nat with O by lia.
  cbn. apply app_nil_r.
Qed.

Lemma skipn_app_le {A} n (a b : list A) : (n <= length a)%nat -> skipn n (a ++ b) = skipn n a ++ b.
Proof.
  intro H. rewrite skipn_app. replace (n - length a)%nat with O by lia. reflexivity.
Qed.

Lemma found_in_cur start no cur rest p :
  no_nl cur -> (p <= length cur)%nat -> (rest = [] \/ exists r, rest = NL :: r) ->
  found_ok start no (cur ++ rest) p
           {| l_s := cur; l_no := no; l_start := start; l_end := start + length cur + 1 |}.
Proof.
  intros Hc Hp Hrest. unfold found_ok. cbn [l_no l_s l_start].
  rewrite firstn_app_le, skipn_app_le by auto.
  rewrite after_last_nl_id by (apply no_nl_firstn; auto).
  rewrite count_nl_no_nl by (apply no_nl_firstn; auto).
  rewrite before_first_nl_no_nl by (apply no_nl_skipn; auto).
  rewrite firstn_length, Nat.min_l by auto.
  repeat split; try lia.
  replace (before_first_nl rest) with (@nil N).
  - rewrite app_nil_r, firstn_skipn. reflexivity.
  - destruct Hrest as [->|[r ->]]; [reflexivity|]. cbn. reflexivity.
Qed.

Lemma split_find rem : forall cur no start pos,
  no_nl cur -> (start <= pos <= start + length cur + length rem)%nat ->
  exists l,
    find (line_has cfg_fixed pos)
         (split_lines cfg_fixed rem cur no start (start + length cur)) = Some l /\
    found_ok start no (cur ++ rem) (pos - start) l.
Proof.
  induction rem as [|b r IH]; intros cur no start pos Hc Hpos.
  - cbn [split_lines cfg_fixed iter_stop_ge andb find].
    unfold line_has at 1. cbn [l_start l_end cfg_fixed find_end_ge].
    cbn [length] in Hpos.
    replace (Nat.leb start pos) with true by (symmetry; apply Nat.leb_le; lia).
    replace (Nat.ltb pos (start + length cur + 1)) with true by (symmetry; apply Nat.ltb_lt; lia).
    cbn [andb]. eexists; split; [reflexivity|].
    apply found_in_cur; auto. lia.
  - cbn [split_lines]. destruct (b =? NL) eqn:Eb.
    + apply N.eqb_eq in Eb. subst b.
      cbn [find]. unfold line_has at 1. cbn [l_start l_end cfg_fixed find_end_ge].
      replace (Nat.leb start pos) with true by (symmetry; apply Nat.leb_le; lia).
      cbn [andb].
      destruct (Nat.ltb pos (start + length cur + 1)) eqn:Elt.
      * apply Nat.ltb_lt in Elt. eexists; split; [reflexivity|].
        apply found_in_cur; auto; [lia|]. right. eexists; reflexivity.
      * apply Nat.ltb_ge in Elt.
        cbn [length] in Hpos.
        destruct (IH [] (S no) (start + length cur + 1)%nat pos) as [l [Hf Hok]];
          [constructor | cbn [length]; lia |].
        cbn [length] in Hf. rewrite Nat.add_0_r in Hf.
        exists l. split; [exact Hf|].
        cbn [app] in Hok. destruct Hok as [H1 [H2 H3]].
        set (p' := (pos - (start + length cur + 1))%nat) in *.
        assert (Ef : firstn (pos - start) (cur ++ NL :: r) = cur ++ NL :: firstn p' r).
        { rewrite firstn_app. rewrite firstn_all2 by lia. f_equal.
          replace (pos - start - length cur)%nat with (S p') by (unfold p'; lia).
          reflexivity. }
        assert (Es : skipn (pos - start) (cur ++ NL :: r) = skipn p' r).
        { rewrite skipn_app. rewrite skipn_all2 by lia. cbn [app].
          replace (pos - start - length cur)%nat with (S p') by (unfold p'; lia).
          reflexivity. }
        unfold found_ok. rewrite Ef, Es, after_last_nl_cut.
        rewrite count_nl_app. cbn [count_nl]. unfold count_nl at 2. cbn [filter].
        replace (NL =? NL) with true by reflexivity. cbn [length].
        rewrite count_nl_no_nl by auto.
        fold (count_nl (firstn p' r)).
        repeat split; [lia | exact H2 |].
        rewrite H3.
        pose proof (after_last_nl_length (firstn p' r)) as Hl.
        rewrite firstn_length in Hl. lia.
    + destruct (IH (cur ++ [b]) no start pos) as [l [Hf Hok]].
      { apply no_nl_app. split; auto. constructor; auto. }
      { rewrite app_length. cbn [length] in *. lia. }
      rewrite app_length in Hf. cbn [length] in Hf.
      rewrite Nat.add_assoc in Hf.
      exists l. split; [exact Hf|].
      rewrite <- app_assoc in Hok. exact Hok.
Qed.

(* -------- the column ---------------------------------------------------- *)

Lemma char_starts_lt bs : forall i n, (i <= n)%nat ->
  length (filter (fun cp => Nat.ltb cp n) (char_starts bs i)) = count_lead (firstn (n - i) bs).
Proof.
  induction bs as [|b bs IH]; intros i n Hin.
  - cbn. rewrite firstn_nil. reflexivity.
  - cbn [char_starts].
    destruct (Nat.eq_dec i n) as [->|Hne].
    + rewrite Nat.sub_diag. cbn [firstn]. unfold count_lead. cbn [filter length].
      assert (G : forall l j, (n <= j)%nat ->
                 filter (fun cp => Nat.ltb cp n) (char_starts l j) = []).
      { induction l as [|x l IHl]; intros j Hj; [reflexivity|].
        cbn [char_starts]. destruct (is_cont x).
        - apply IHl. lia.
        - cbn [filter]. replace (Nat.ltb j n) with false by (symmetry; apply Nat.ltb_ge; lia).
          apply IHl. lia. }
      destruct (is_cont b).
      * rewrite G by lia. reflexivity.
      * cbn [filter]. rewrite Nat.ltb_irrefl. rewrite G by lia. reflexivity.
    + replace (n - i)%nat with (S (n - S i)) by lia. cbn [firstn].
      unfold count_lead. cbn [filter].
      destruct (is_cont b) eqn:Ec; cbn [negb].
      * rewrite IH by lia. reflexivity.
      * cbn [filter]. replace (Nat.ltb i n) with true by (symmetry; apply Nat.ltb_lt; lia).
        cbn [length]. rewrite IH by lia. reflexivity.
Qed.

(* -------- C11 for the repaired configuration --------------------------- *)

Theorem pretty_fixed_correct text pos :
  (pos <= length text)%nat ->
  from_parse_error cfg_fixed text pos = pretty_spec text pos.
Proof.
  intro Hpos. unfold from_parse_error, lines_of.
  destruct (split_find text [] 0%nat 0%nat pos) as [l [Hf [H1 [H2 H3]]]];
    [constructor | cbn [length]; lia |].
  cbn [length app Nat.add] in Hf. rewrite Hf.
  cbn [app] in H1, H2, H3. rewrite Nat.sub_0_r in *.
  unfold pretty_spec, spec_line, spec_col, spec_text.
  f_equal.
  - rewrite H1. reflexivity.
  - unfold column0. cbn [cfg_fixed col_by_position].
    rewrite char_starts_lt by lia. rewrite Nat.sub_0_r.
    rewrite H3, H2.
    pose proof (after_last_nl_length (firstn pos text)) as Hl.
    rewrite firstn_length, Nat.min_l in Hl by auto.
    replace (pos - (0 + pos - length (after_last_nl (firstn pos text))))%nat
      with (length (after_last_nl (firstn pos text))) by lia.
    rewrite firstn_app_le by lia. rewrite firstn_all. reflexivity.
  - exact H2.
Qed.

(* never panics, for every text, also the empty one *)
Corollary pretty_fixed_no_panic text pos :
  (pos <= length text)%nat -> from_parse_error cfg_fixed text pos <> PPanic.
Proof. intro H. rewrite pretty_fixed_correct by auto. discriminate. Qed.

(* -------- the pinned source's configuration violates C11 ---------------- *)

(* "" at 0: unwrap on None *)
Lemma pretty_original_panics_on_empty : from_parse_error cfg_original [] 0 = PPanic.
Proof. reflexivity. Qed.

(* "abc" at 3 (end of input): column 1 instead of 4 *)
Lemma pretty_original_eoi_column :
  from_parse_error cfg_original [97; 98; 99] 3 = PShown 1 1 [97; 98; 99] /\
  pretty_spec [97; 98; 99] 3 = PShown 1 4 [97; 98; 99].
Proof. split; reflexivity. Qed.

(* "ab\ncd" at 3 (first character of line 2): line 1 instead of 2 *)
Lemma pretty_original_next_line :
  from_parse_error cfg_original [97; 98; 10; 99; 100] 3 = PShown 1 1 [97; 98] /\
  pretty_spec [97; 98; 10; 99; 100] 3 = PShown 2 1 [99; 100].
Proof. split; reflexivity. Qed.

Theorem pretty_original_refuted :
  exists text pos, (pos <= length text)%nat /\
    from_parse_error cfg_original text pos <> pretty_spec text pos.
Proof. exists [], 0%nat. split; [cbn; lia|]. cbn. discriminate. Qed.

(* non-vacuity: a multi-line multi-byte text *)
Example pretty_fixed_example :
  from_parse_error cfg_fixed [97; 10; 195; 169; 98; 10] 4 = PShown 2 2 [195; 169; 98].
Proof. reflexivity. Qed.
