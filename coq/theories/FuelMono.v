(* Fuel monotonicity: a run of the model (or of the specification) that returns
   without exhausting its fuel returns the same result with any larger fuel. *)
From Coq Require Import Lia.
From PegV Require Import Utf8 State Terminals Syntax Fields Literals Model Spec.

Section MonoM.
Variable ustate : Type.
Variable scfg : state_cfg.
Variable tcfg : term_cfg.
Variable fcfg : fields_cfg.
Variable rcfg : rule_cfg.
Variable hk : hooks ustate.
Variable g : grammar.
Notation glb := (glob ustate).

Definition nofuel {A} (x : R ustate A) : Prop := match fst x with MFuel => False | _ => True end.

Definition le_ev (ev ev' : evals ustate) : Prop :=
  (forall ctx e st gl, nofuel (ev_expr ev ctx e st gl) -> ev_expr ev' ctx e st gl = ev_expr ev ctx e st gl) /\
  (forall n st gl, nofuel (ev_rule ev n st gl) -> ev_rule ev' n st gl = ev_rule ev n st gl) /\
  (forall ctx b plus st it acc gl, nofuel (ev_loop ev ctx b plus st it acc gl) ->
      ev_loop ev' ctx b plus st it acc gl = ev_loop ev ctx b plus st it acc gl) /\
  (forall r st best gl, nofuel (ev_grow ev r st best gl) -> ev_grow ev' r st best gl = ev_grow ev r st best gl).

Section Step.
Variables ev ev' : evals ustate.
Hypothesis H : le_ev ev ev'.

Let He := proj1 H.
Let Hr := proj1 (proj2 H).
Let Hl := proj1 (proj2 (proj2 H)).
Let Hg := proj2 (proj2 (proj2 H)).

(* a tactic for the common shape: the composite matches on a sub-call; if the
   composite did not run out of fuel, neither did the sub-call *)
Ltac sub X :=
  let E := fresh "E" in
  destruct X as [[? ?|?|?|] ?] eqn:E; cbn [fst] in *.

Lemma with_ws_mono {A} ctx st gl (k k' : pstate -> glb -> R ustate A) :
  (forall st1 gl1, nofuel (k st1 gl1) -> k' st1 gl1 = k st1 gl1) ->
  nofuel (with_ws ustate ev ctx st gl k) ->
  with_ws ustate ev' ctx st gl k' = with_ws ustate ev ctx st gl k.
Proof.
  intros Hk. unfold with_ws. destruct (c_skip ctx); [|apply Hk].
  destruct (ev_rule ev n_Whitespace st gl) as [[v st1|e|p|] gl1] eqn:E; intro NF.
  - rewrite (Hr n_Whitespace st gl) by (unfold nofuel; rewrite E; exact I). rewrite E. apply Hk. exact NF.
  - rewrite (Hr n_Whitespace st gl) by (unfold nofuel; rewrite E; exact I). rewrite E. reflexivity.
  - rewrite (Hr n_Whitespace st gl) by (unfold nofuel; rewrite E; exact I). rewrite E. reflexivity.
  - destruct NF.
Qed.

Lemma no_fields_nofuel {A} (x : R ustate A) : nofuel (no_fields ustate x) -> nofuel x.
Proof. destruct x as [[v st|e|p|] gl]; cbn; auto. Qed.

Lemma choice_loop_mono ctx fds alts : forall cst gl,
  nofuel (choice_loop ustate scfg fcfg g ev ctx fds alts cst gl) ->
  choice_loop ustate scfg fcfg g ev' ctx fds alts cst gl = choice_loop ustate scfg fcfg g ev ctx fds alts cst gl.
Proof.
  induction alts as [|a alts IH]; intros cst gl NF; [reflexivity|]. cbn [choice_loop] in *.
  destruct (ev_expr ev ctx a cst gl) as [[fs st'|e|p|] gl'] eqn:E.
  - rewrite (He ctx a cst gl) by (unfold nofuel; rewrite E; exact I). rewrite E. reflexivity.
  - rewrite (He ctx a cst gl) by (unfold nofuel; rewrite E; exact I). rewrite E. apply IH. exact NF.
  - rewrite (He ctx a cst gl) by (unfold nofuel; rewrite E; exact I). rewrite E. reflexivity.
  - destruct NF.
Qed.

Lemma seq_loop_mono ctx fds parts : forall st acc gl,
  nofuel (seq_loop ustate ev ctx fds parts st acc gl) ->
  seq_loop ustate ev' ctx fds parts st acc gl = seq_loop ustate ev ctx fds parts st acc gl.
Proof.
  induction parts as [|p ps IH]; intros st acc gl NF; [reflexivity|]. cbn [seq_loop] in *.
  destruct (ev_expr ev ctx p st gl) as [[fs st'|e|pp|] gl'] eqn:E.
  - rewrite (He ctx p st gl) by (unfold nofuel; rewrite E; exact I). rewrite E.
    destruct (seq_merge_vals acc fs); [apply IH; exact NF|reflexivity].
  - rewrite (He ctx p st gl) by (unfold nofuel; rewrite E; exact I). rewrite E. reflexivity.
  - rewrite (He ctx p st gl) by (unfold nofuel; rewrite E; exact I). rewrite E. reflexivity.
  - destruct NF.
Qed.

Ltac use_e ctx e st gl :=
  let E := fresh "E" in
  destruct (ev_expr ev ctx e st gl) as [[? ?|?|?|] ?] eqn:E;
  [ rewrite (He ctx e st gl) by (unfold nofuel; rewrite E; exact I); rewrite E
  | rewrite (He ctx e st gl) by (unfold nofuel; rewrite E; exact I); rewrite E
  | rewrite (He ctx e st gl) by (unfold nofuel; rewrite E; exact I); rewrite E
  | idtac ].

Theorem expr_step_mono ctx e st gl :
  nofuel (expr_step ustate scfg tcfg fcfg rcfg g ev ctx e st gl) ->
  expr_step ustate scfg tcfg fcfg rcfg g ev' ctx e st gl = expr_step ustate scfg tcfg fcfg rcfg g ev ctx e st gl.
Proof.
  intro NF. destruct e; cbn [expr_step] in *.
  - destruct alts as [|a [|a2 rest]]; [reflexivity|apply He; exact NF|].
    destruct (filt fcfg g ctx _); [apply choice_loop_mono; exact NF|reflexivity].
  - destruct parts as [|p [|p2 rest]]; [reflexivity|apply He; exact NF|].
    destruct (filt fcfg g ctx _); [apply seq_loop_mono; exact NF|reflexivity].
  - apply He; exact NF.
  - use_e ctx e st gl; try reflexivity. destruct NF.
  - destruct (filt fcfg g ctx e); [apply Hl; exact NF|reflexivity].
  - use_e ctx e st gl; try reflexivity. destruct NF.
  - use_e ctx e st gl; try reflexivity. destruct NF.
  - destruct (compile_range from to); try reflexivity.
    f_equal. apply with_ws_mono; [intros; reflexivity|]. apply no_fields_nofuel. exact NF.
  - destruct (compile_lit (insens_guard rcfg) insensitive body); try reflexivity.
    f_equal. apply with_ws_mono; [intros; reflexivity|]. apply no_fields_nofuel. exact NF.
  - f_equal. apply with_ws_mono; [intros; reflexivity|]. apply no_fields_nofuel. exact NF.
  - destruct (find_rule g rule); [apply He; exact NF|reflexivity].
  - assert (W : nofuel (with_ws ustate ev ctx st gl (fun st0 gl0 => ev_rule ev typ st0 gl0))).
    { destruct (with_ws ustate ev ctx st gl (fun st0 gl0 => ev_rule ev typ st0 gl0)) as [[v st'|er|p|] gl']; cbn in *; auto.
      destruct (fname_of fname); cbn in NF; exact NF. }
    rewrite (with_ws_mono ctx st gl (fun st0 gl0 => ev_rule ev typ st0 gl0) (fun st0 gl0 => ev_rule ev' typ st0 gl0)); auto.
Qed.

Theorem loop_step_mono ctx b plus st it acc gl :
  nofuel (loop_step ustate scfg ev ctx b plus st it acc gl) ->
  loop_step ustate scfg ev' ctx b plus st it acc gl = loop_step ustate scfg ev ctx b plus st it acc gl.
Proof.
  unfold loop_step. intro NF. use_e ctx b st gl; try reflexivity; [|destruct NF].
  match goal with |- context [extend_all acc ?x] => destruct (extend_all acc x) end; [apply Hl; exact NF|reflexivity].
Qed.

Lemma rule_body_mono r st gl :
  nofuel (rule_body ustate scfg fcfg hk g ev r st gl) ->
  rule_body ustate scfg fcfg hk g ev' r st gl = rule_body ustate scfg fcfg hk g ev r st gl.
Proof.
  unfold rule_body. intro NF. destruct (get_fields fcfg (gf_fuel g) g (r_def r)); try reflexivity.
  match goal with |- context [ev_expr ev ?c (r_def r) st gl] => use_e c (r_def r) st gl end; try reflexivity.
  destruct NF.
Qed.

Theorem grow_step_mono r st best gl :
  nofuel (grow_step ustate scfg fcfg rcfg hk g ev r st best gl) ->
  grow_step ustate scfg fcfg rcfg hk g ev' r st best gl = grow_step ustate scfg fcfg rcfg hk g ev r st best gl.
Proof.
  unfold grow_step. intro NF.
  destruct (rule_body ustate scfg fcfg hk g ev r st (trace ustate (TInfo 2) gl)) as [[v st'|e|p|] gl2] eqn:E.
  - rewrite rule_body_mono by (unfold nofuel; rewrite E; exact I). rewrite E.
    destruct best as [bv bst|be].
    + destruct (is_further_than scfg st' bst); [apply Hg; exact NF|reflexivity].
    + apply Hg; exact NF.
  - rewrite rule_body_mono by (unfold nofuel; rewrite E; exact I). rewrite E. reflexivity.
  - rewrite rule_body_mono by (unfold nofuel; rewrite E; exact I). rewrite E. reflexivity.
  - destruct NF.
Qed.

Lemma memo_wrap_mono r st gl :
  nofuel (memo_wrap ustate scfg fcfg rcfg hk g ev r st gl) ->
  memo_wrap ustate scfg fcfg rcfg hk g ev' r st gl = memo_wrap ustate scfg fcfg rcfg hk g ev r st gl.
Proof.
  unfold memo_wrap. intro NF. destruct (fl_left_recursive (flags_of (r_directives r))).
  - destruct (cache_get (r_name r) (off st) (g_cache gl)); [reflexivity|apply Hg; exact NF].
  - destruct (fl_memoize (flags_of (r_directives r))); [|apply rule_body_mono; exact NF].
    destruct (cache_get (r_name r) (off st) (g_cache gl)); [reflexivity|].
    destruct (rule_body ustate scfg fcfg hk g ev r st (log_eval ustate (r_name r, off st) gl)) as [[v st'|e|p|] gl2] eqn:E.
    + rewrite rule_body_mono by (unfold nofuel; rewrite E; exact I). rewrite E. reflexivity.
    + rewrite rule_body_mono by (unfold nofuel; rewrite E; exact I). rewrite E. reflexivity.
    + rewrite rule_body_mono by (unfold nofuel; rewrite E; exact I). rewrite E. reflexivity.
    + destruct NF.
Qed.

Lemma char_parts_mono nm ps st : forall gl,
  nofuel (char_parts ustate scfg tcfg ev nm ps st gl) ->
  char_parts ustate scfg tcfg ev' nm ps st gl = char_parts ustate scfg tcfg ev nm ps st gl.
Proof.
  induction ps as [|pt ps IH]; intros gl NF; [reflexivity|]. cbn [char_parts] in *.
  destruct pt as [i|a b|n].
  - destruct (decode_item i); try reflexivity. destruct (parse_character_literal scfg tcfg st a); try reflexivity.
    apply IH. exact NF.
  - destruct (compile_range a b); try reflexivity. destruct (parse_character_range scfg tcfg st a0 b0); try reflexivity.
    apply IH. exact NF.
  - destruct (ev_rule ev n st gl) as [[v st'|e|p|] gl'] eqn:E.
    + rewrite (Hr n st gl) by (unfold nofuel; rewrite E; exact I). rewrite E. reflexivity.
    + rewrite (Hr n st gl) by (unfold nofuel; rewrite E; exact I). rewrite E. apply IH. exact NF.
    + rewrite (Hr n st gl) by (unfold nofuel; rewrite E; exact I). rewrite E. reflexivity.
    + destruct NF.
Qed.

Theorem rule_step_mono n st gl :
  nofuel (rule_step ustate scfg tcfg fcfg rcfg hk g ev n st gl) ->
  rule_step ustate scfg tcfg fcfg rcfg hk g ev' n st gl = rule_step ustate scfg tcfg fcfg rcfg hk g ev n st gl.
Proof.
  unfold rule_step. intro NF. destruct (find_grule g n) as [[r|r|r]|]; try reflexivity.
  - destruct (memo_wrap ustate scfg fcfg rcfg hk g ev r st (trace ustate (TStart (r_name r) (off st)) gl))
      as [[v st'|e|p|] gl2] eqn:E.
    + rewrite memo_wrap_mono by (unfold nofuel; rewrite E; exact I). rewrite E. reflexivity.
    + rewrite memo_wrap_mono by (unfold nofuel; rewrite E; exact I). rewrite E. reflexivity.
    + rewrite memo_wrap_mono by (unfold nofuel; rewrite E; exact I). rewrite E. reflexivity.
    + destruct NF.
  - unfold char_rule_body in *. destruct (cr_checks r); [apply char_parts_mono; exact NF|].
    destruct (rest st); [reflexivity|]. destruct (decode1 (n0 :: b)) as [[c k]|]; [|reflexivity].
    destruct (char_checks ustate hk (cr_name r) (l :: l0) c); [apply char_parts_mono; exact NF|reflexivity].
Qed.

Theorem step_mono : le_ev (step ustate scfg tcfg fcfg rcfg hk g ev) (step ustate scfg tcfg fcfg rcfg hk g ev').
Proof.
  split; [|split; [|split]]; cbn [step ev_expr ev_rule ev_loop ev_grow].
  - intros. apply expr_step_mono; auto.
  - intros. apply rule_step_mono; auto.
  - intros. apply loop_step_mono; auto.
  - intros. apply grow_step_mono; auto.
Qed.

End Step.

Notation Mrun := (run ustate scfg tcfg fcfg rcfg hk g).

Lemma run_succ_mono n : le_ev (Mrun n) (Mrun (S n)).
Proof.
  induction n as [|n IH].
  - split; [|split; [|split]]; intros; cbn in *; contradiction.
  - apply step_mono. exact IH.
Qed.

Lemma le_ev_refl ev : le_ev ev ev.
Proof. split; [|split; [|split]]; intros; reflexivity. Qed.

Lemma le_ev_trans a b c : le_ev a b -> le_ev b c -> le_ev a c.
Proof.
  intros [A1 [A2 [A3 A4]]] [B1 [B2 [B3 B4]]].
  split; [|split; [|split]]; intros.
  - rewrite <- (A1 _ _ _ _ H). apply B1. rewrite (A1 _ _ _ _ H). exact H.
  - rewrite <- (A2 _ _ _ H). apply B2. rewrite (A2 _ _ _ H). exact H.
  - rewrite <- (A3 _ _ _ _ _ _ _ H). apply B3. rewrite (A3 _ _ _ _ _ _ _ H). exact H.
  - rewrite <- (A4 _ _ _ _ H). apply B4. rewrite (A4 _ _ _ _ H). exact H.
Qed.

Theorem run_mono n m : n <= m -> le_ev (Mrun n) (Mrun m).
Proof.
  induction 1 as [|m Hle IH]; [apply le_ev_refl|].
  eapply le_ev_trans; [exact IH|apply run_succ_mono].
Qed.

Corollary m_parse_mono n m rule_name input u :
  n <= m -> nofuel (m_parse ustate scfg tcfg fcfg rcfg hk g n rule_name input u) ->
  m_parse ustate scfg tcfg fcfg rcfg hk g m rule_name input u = m_parse ustate scfg tcfg fcfg rcfg hk g n rule_name input u.
Proof. intros Hle NF. unfold m_parse in *. apply (proj1 (proj2 (run_mono n m Hle))). exact NF. Qed.

End MonoM.
