(* The grammar compiler as a total function: CodegenGrammar::generate_code
   (grammar/mod.rs), CodegenRule::generate_code with check_flags and the three
   rule kinds (rule.rs), the declaration emitters (common.rs:
   generate_parsed_struct_type, generate_field_type, generate_enum_type), char
   and extern rules, the restriction errors raised while generating code
   (string.rs, lookahead.rs, include_rule.rs through get_fields), and the
   identifier constructions (safe_ident / format_ident!).
   The result is the list of public type declarations, or the first error in
   the order the code raises them. *)
From PegV Require Import Utf8 State Syntax Fields Literals Model.

(* ---- Rust type expressions and declarations the emitters produce ---------- *)
Inductive rtype :=
| RName (n : name)            (* safe_ident n: a rule type or a generated enum *)
| RChar                       (* the built-in `char` *)
| RString
| RPath (p : list name)       (* @extern(.. -> a::b::T) *)
| RBox (t : rtype)
| ROption (t : rtype)
| RVec (t : rtype).

Inductive decl :=
| DStruct (n : name) (fields : list (name * rtype)) (position : bool)
| DUnit (n : name)                                  (* pub struct n; *)
| DAlias (n : name) (t : rtype)                     (* pub type n = t; *)
| DEnum (n : name) (variants : list (name * bool)). (* variant V(V) or V(Box<V>) *)

Definition decl_name (d : decl) : name :=
  match d with DStruct n _ _ | DUnit n | DAlias n _ | DEnum n _ => n end.

Definition underscore : N := 95%N.

Definition wrap_arity (a : arity) (t : rtype) : rtype :=
  match a with One => t | Optional => ROption t | Multiple => RVec t end.

Definition raw_type (t : name) : rtype := if name_eqb t n_char then RChar else RName t.

(* generate_field_type; None = `.next().unwrap()` on an empty type map *)
Definition field_type (parent : name) (fd : fdesc) : option rtype :=
  match fd_types fd with
  | [] => None
  | [(t, b)] => Some (wrap_arity (fd_arity fd) (if b then RBox (raw_type t) else raw_type t))
  | _ => Some (wrap_arity (fd_arity fd) (RName (parent ++ underscore :: fd_name fd)))
  end.

Definition multi_typed (fd : fdesc) : bool :=
  match fd_types fd with _ :: _ :: _ => true | _ => false end.

(* ---- errors, in the classes the code distinguishes ------------------------- *)
Inductive cerr :=
| CEFields (e : gf_err)            (* lookahead with fields, include of a missing/@char/@extern rule *)
| CEStringExport
| CEWhitespaceSkips
| CEMemoizeNoClone
| CEPositionVariant (t : name)     (* a variant of a @position enum rule is not @position *)
| CEInvalidCodepoint (n : N)
| CENonAsciiInsensitive
| CEOverrideExport
| CEOverridePosition
| CEEnumOverrideArity
| CEMixOverride.

Inductive cpanic :=
| PDigit            (* to_digit(16).unwrap(): unreachable from the front end *)
| PNoTypes.         (* field.types.iter().next().unwrap() *)

Inductive cres (A : Type) :=
| COk (a : A)
| CErr (e : cerr)
| CPanic (p : cpanic)
| CFuel.            (* unbounded recursion over includes: a stack overflow in the real compiler *)
Arguments COk {A}. Arguments CErr {A}. Arguments CPanic {A}. Arguments CFuel {A}.

Record csettings := {
  cs_derives : list name;            (* CodegenSettings::derives *)
  cs_ctx : option (list name)        (* user context type path *)
}.

Definition n_Clone : name := [67; 108; 111; 110; 101]%N.
Definition has_clone (s : csettings) : bool := existsb (fun d => name_eqb d n_Clone) (cs_derives s).

Section Compile.
Variable fcfg : fields_cfg.
Variable guard : bool.          (* insens_guard: non-ASCII i-literals are rejected *)
Variable cfg_leftrec_clone : bool.  (* check_flags also demands Clone for @leftrec *)
Variable cfg_pos_variants : bool.   (* check_position_variants is called *)
Variable cfg_idents_checked : bool. (* Grammar::check_identifiers is called *)
Variable cfg_cycles_checked : bool. (* Grammar::check_include_cycles is called *)
Variable g : grammar.

(* errors raised while generating the code of an expression: literals and
   ranges, left to right, included bodies in place *)
Fixpoint first_err {A} (f : A -> cres unit) (l : list A) : cres unit :=
  match l with
  | [] => COk tt
  | x :: r => match f x with COk _ => first_err f r | e => e end
  end.

Definition item_check (i : string_item) : cres unit :=
  match decode_item i with
  | DOk _ => COk tt
  | DInvalidCodepoint n => CErr (CEInvalidCodepoint n)
  | DPanic => CPanic PDigit
  end.

Fixpoint lit_check (fuel : nat) (e : expr) : cres unit :=
  match fuel with
  | O => CFuel
  | S f =>
    match e with
    | ELit ins body =>
      match compile_lit guard ins body with
      | LOk _ => COk tt
      | LInvalidCodepoint n => CErr (CEInvalidCodepoint n)
      | LNonAsciiInsensitive => CErr CENonAsciiInsensitive
      | LPanic => CPanic PDigit
      end
    | ERange a b =>
      match compile_range a b with
      | RgOk _ _ => COk tt
      | RgInvalidCodepoint n => CErr (CEInvalidCodepoint n)
      | RgPanic => CPanic PDigit
      end
    | EChoice l | ESeq l => first_err (lit_check f) l
    | EGroup b | EOptional b | EClosure b _ | ENeg b | EPos b => lit_check f b
    | EInclude n =>
      match find_rule g n with
      | Some r => lit_check f (r_def r)
      | None => CErr (CEFields (GEIncludeNotFound n))
      end
    | EField _ _ _ | EEoi => COk tt
    end
  end.

Definition n_string_field : name := n_string.

Definition rule_has_position (t : name) : bool :=
  existsb (fun gr => match gr with
                     | GRule r => name_eqb (r_name r) t && fl_position (flags_of (r_directives r))
                     | _ => false
                     end) g.

(* check_position_variants: the first variant (in type-set order) that is not a @position rule *)
Definition position_variant_error (fl : rule_flags) (fields : list fdesc) : option name :=
  if cfg_pos_variants && fl_position fl && negb (fl_string fl) then
    match fields with
    | [fd] =>
      if name_eqb (fd_name fd) n_override && multi_typed fd
      then option_map fst (find (fun tb => negb (rule_has_position (fst tb))) (fd_types fd))
      else None
    | _ => None
    end
  else None.

Fixpoint opt_all {A} (l : list (option A)) : option (list A) :=
  match l with
  | [] => Some []
  | Some x :: r => match opt_all r with Some r' => Some (x :: r') | None => None end
  | None :: _ => None
  end.

Definition struct_fields (parent : name) (fields : list fdesc) : option (list (name * rtype)) :=
  opt_all (map (fun fd => option_map (fun t => (fd_name fd, t)) (field_type parent fd)) fields).

Definition enum_decls (parent : name) (fields : list fdesc) : list decl :=
  map (fun fd => DEnum (parent ++ underscore :: fd_name fd) (fd_types fd)) (filter multi_typed fields).

(* Rule::generate_code, errors in the order the code raises them *)
Definition compile_rule (s : csettings) (fuel : nat) (r : rule) : cres (list decl) :=
  let fl := flags_of (r_directives r) in
  match get_fields fcfg fuel g (r_def r) with
  | GFFuel => CFuel
  | GFErr e => CErr (CEFields e)
  | GFOk fields =>
    if fl_export fl && fl_string fl then CErr CEStringExport
    else if name_eqb (r_name r) n_Whitespace && negb (fl_no_skip_ws fl) then CErr CEWhitespaceSkips
    else if (fl_memoize fl || (cfg_leftrec_clone && fl_left_recursive fl)) && negb (has_clone s) then CErr CEMemoizeNoClone
    else match position_variant_error fl fields with Some t => CErr (CEPositionVariant t) | None =>
      match lit_check fuel (r_def r) with
      | CErr e => CErr e
      | CPanic p => CPanic p
      | CFuel => CFuel
      | COk _ =>
        if fl_string fl then
          COk [if fl_position fl then DStruct (r_name r) [(n_string_field, RString)] true
               else DAlias (r_name r) RString]
        else
          let normal :=
            if existsb (fun fd => name_eqb (fd_name fd) n_override) fields then CErr CEMixOverride
            else
              match struct_fields (r_name r) fields with
              | None => CPanic PNoTypes
              | Some fs =>
                COk ((match fs, fl_position fl with
                      | [], false => DUnit (r_name r)
                      | _, p => DStruct (r_name r) fs p
                      end) :: enum_decls (r_name r) fields)
              end in
          match fields with
          | [fd] =>
            if name_eqb (fd_name fd) n_override then
              if multi_typed fd then
                if arity_eqb (fd_arity fd) One then COk [DEnum (r_name r) (fd_types fd)]
                else CErr CEEnumOverrideArity
              else if fl_export fl then CErr CEOverrideExport
              else if fl_position fl then CErr CEOverridePosition
              else match field_type (r_name r) fd with
                   | Some t => COk [DAlias (r_name r) t]
                   | None => CPanic PNoTypes
                   end
            else normal
          | _ => normal
          end
      end
    end
  end.

Definition char_part_check (p : char_part) : cres unit :=
  match p with
  | CPChar i => item_check i
  | CPRange a b =>
    match item_check a with COk _ => item_check b | e => e end
  | CPIdent _ => COk tt
  end.

Definition compile_grule (s : csettings) (fuel : nat) (r : grule) : cres (list decl) :=
  match r with
  | GRule r => compile_rule s fuel r
  | GChar r =>
    match first_err char_part_check (cr_choices r) with
    | COk _ => COk [DAlias (cr_name r) RChar]
    | CErr e => CErr e | CPanic p => CPanic p | CFuel => CFuel
    end
  | GExtern r =>
    COk [DAlias (er_name r) (match er_return r with Some p => RPath p | None => RString end)]
  end.

(* the rules in order; the first failing rule decides *)
Inductive gres :=
| GOk (ds : list decl)
| GFail (rule_index : nat) (rule_name : name) (e : cerr)
| GPanic (rule_index : nat) (p : cpanic)
| GOverflow (rule_index : nat)
| GBadIdent (n : name)            (* check_identifiers: a name that is not a Rust identifier *)
| GCycle.                         (* check_include_cycles *)

Fixpoint compile_rules (s : csettings) (fuel : nat) (idx : nat) (rs : list grule) (acc : list decl) : gres :=
  match rs with
  | [] => GOk acc
  | r :: rest =>
    match compile_grule s fuel r with
    | COk ds => compile_rules s fuel (S idx) rest (acc ++ ds)
    | CErr e => GFail idx (grule_name r) e
    | CPanic p => GPanic idx p
    | CFuel => GOverflow idx
    end
  end.

(* ---- the checks made before any code is generated ------------------------------ *)
Fixpoint includes (e : expr) : list name :=
  match e with
  | EChoice l | ESeq l => flat_map includes l
  | EGroup b | EOptional b | EClosure b _ | ENeg b | EPos b => includes b
  | EInclude n => [n]
  | _ => []
  end.

(* the rules an include of n leads to (the first normal rule of that name is the one found) *)
Definition inc_of (n : name) : list name :=
  match find_rule g n with Some r => includes (r_def r) | None => [] end.

(* length of the longest chain of includes that starts at n, cut off at k *)
Fixpoint inc_depth (k : nat) (n : name) : nat :=
  match k with
  | O => 0
  | S k' => fold_right (fun m a => Nat.max (S (inc_depth k' m)) a) 0 (inc_of n)
  end.

Definition rule_names : list name :=
  flat_map (fun gr => match gr with GRule r => [r_name r] | _ => [] end) g.

(* a chain of includes longer than the number of rules visits a rule twice: a cycle *)
Definition has_cycle : bool :=
  existsb (fun n => Nat.ltb (length g) (inc_depth (S (length g)) n)) rule_names.

(* str::split("::") *)
Fixpoint split_colons (n : name) (cur : name) : list name :=
  match n with
  | [] => [rev cur]
  | a :: r =>
    match r with
    | b :: r' => if N.eqb a 58 && N.eqb b 58 then rev cur :: split_colons r' [] else split_colons r (a :: cur)
    | [] => [rev (a :: cur)]
    end
  end.

Definition is_digit (c : N) : bool := (N.leb 48 c && N.leb c 57)%bool.
Definition ident_char (c : N) : bool :=
  (is_digit c || (N.leb 65 c && N.leb c 90) || (N.leb 97 c && N.leb c 122) || N.eqb c 95 || N.leb 128 c)%bool.
(* what proc_macro2 lexes as one identifier (non-ASCII: taken as identifier characters) *)
Definition ident_valid (n : name) : bool :=
  match n with [] => false | c :: _ => negb (is_digit c) end && forallb ident_char n.

Fixpoint expr_idents (e : expr) : list name :=
  match e with
  | EChoice l | ESeq l => flat_map expr_idents l
  | EGroup b | EOptional b | EClosure b _ | ENeg b | EPos b => expr_idents b
  | EField (FNamed n) _ t => [n; t]
  | EField FOverride _ t => [t]
  | _ => []
  end.

Definition directive_idents (d : directive) : list name :=
  match d with DCheck p => p | _ => [] end.

Definition grule_idents (r : grule) : list name :=
  match r with
  | GRule r => r_name r :: flat_map directive_idents (r_directives r) ++ expr_idents (r_def r)
  | GChar r => cr_name r :: concat (cr_checks r)
  | GExtern r => er_name r :: er_function r ++ match er_return r with Some p => p | None => [] end
  end.

(* in the order check_identifiers visits them *)
Definition checked_idents (s : csettings) : list name :=
  flat_map grule_idents g ++ flat_map (fun d => split_colons d []) (cs_derives s).

Definition compile_f (s : csettings) (fuel : nat) : gres :=
  match (if cfg_idents_checked then find (fun n => negb (ident_valid n)) (checked_idents s) else None) with
  | Some n => GBadIdent n
  | None => if cfg_cycles_checked && has_cycle then GCycle else compile_rules s fuel 0 g []
  end.
Definition compile (s : csettings) : gres := compile_f s (gf_fuel g).

(* ---- identifiers the checks do not cover ---------------------------------------- *)
(* CodegenSettings::set_user_context_type builds identifiers when it is called (a
   panic there is outside Grammar::generate_code); without check_identifiers every
   name of the grammar and every derive can panic in format_ident!/Ident::new *)
Definition n_self : name := [115; 101; 108; 102]%N.
Definition n_Self : name := [83; 101; 108; 102]%N.
Definition n_super : name := [115; 117; 112; 101; 114]%N.

Definition ident_ok (raw_kw_guard : bool) (n : name) : bool :=
  ident_valid n &&
  (raw_kw_guard || negb (name_eqb n n_self || name_eqb n n_Self || name_eqb n n_super)).

Definition all_idents (s : csettings) : list name :=
  flat_map grule_idents g ++ match cs_ctx s with Some p => p | None => [] end.

(* panic class: false = some identifier construction can panic *)
Definition idents_ok (raw_kw_guard : bool) (s : csettings) : bool :=
  forallb (ident_ok raw_kw_guard) (if cfg_idents_checked then match cs_ctx s with Some p => p | None => [] end else all_idents s).

Definition derive_ok (d : name) : bool := forallb ident_valid (if cfg_idents_checked then split_colons d [] else [d]) .
Definition derives_ok (s : csettings) : bool := cfg_idents_checked || forallb derive_ok (cs_derives s).

End Compile.
