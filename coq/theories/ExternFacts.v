(* The checked cursor move of extern rules: on a valid string, advancing n bytes
   succeeds exactly when n is the byte length of a character prefix. *)
From Coq Require Import Lia.
From PegV Require Import Utf8 Utf8Facts State Spec.

Lemma is_boundary_skip a b j : is_boundary (a ++ b) (length a + j) = is_boundary b j.
Proof.
  unfold is_boundary. rewrite app_length.
  destruct (Nat.compare_spec j (length b)).
  - subst. rewrite Nat.compare_refl. reflexivity.
  - replace (length a + j ?= length a + length b) with Lt by (symmetry; apply Nat.compare_lt_iff; lia).
    rewrite app_nth2 by lia. replace (length a + j - length a) with j by lia. reflexivity.
  - replace (length a + j ?= length a + length b) with Gt by (symmetry; apply Nat.compare_gt_iff; lia).
    reflexivity.
Qed.

Lemma encode_inner_cont c n :
  is_scalar c = true -> 0 < n < utf8_len c -> is_cont (nth n (encode c) 0%N) = true.
Proof.
  intros Hc Hn. pose proof (encode_tail_cont c Hc) as T. pose proof (encode_length c) as L.
  destruct (encode c) as [|b t] eqn:E; [cbn in L; lia|]. cbn [tl] in T.
  destruct n as [|k]; [lia|]. cbn [nth]. cbn [length] in L.
  rewrite Forall_forall in T. apply T. apply nth_In. lia.
Qed.

Lemma boundary_split cs : forall n,
  all_scalar cs -> n <= length (encode_str cs) -> is_boundary (encode_str cs) n = true ->
  exists m cs', split_bytes n cs = Some (m, cs') /\ cs = m ++ cs' /\ n = blen m.
Proof.
  induction cs as [|c cs IH]; intros n Hs Hn Hb.
  - cbn in Hn. assert (n = 0) by lia. subst. exists [], []. cbn. auto.
  - destruct n as [|k]; [exists [], (c :: cs); cbn; auto|].
    apply all_scalar_cons in Hs. destruct Hs as [Hc Hs].
    rewrite encode_str_cons in *. cbn [split_bytes].
    destruct (Nat.leb (utf8_len c) (S k)) eqn:E.
    + apply Nat.leb_le in E.
      replace (S k) with (length (encode c) + (S k - utf8_len c)) in Hb by (rewrite encode_length; lia).
      rewrite is_boundary_skip in Hb.
      destruct (IH (S k - utf8_len c) Hs) as [m [cs' [H1 [H2 H3]]]]; auto.
      { rewrite app_length, encode_length in Hn. lia. }
      rewrite H1. exists (c :: m), cs'. split; [reflexivity|]. split; [rewrite H2; reflexivity|].
      unfold blen in *. rewrite encode_str_cons, app_length, encode_length. lia.
    + apply Nat.leb_gt in E. exfalso.
      unfold is_boundary in Hb.
      replace (S k ?= length (encode c ++ encode_str cs)) with Lt in Hb
        by (symmetry; apply Nat.compare_lt_iff; rewrite app_length, encode_length; lia).
      rewrite app_nth1 in Hb by (rewrite encode_length; lia).
      rewrite encode_inner_cont in Hb by (auto; lia). discriminate.
Qed.

Lemma advance_split st cs n st' :
  rest st = encode_str cs -> all_scalar cs -> advance st n = AOk st' ->
  exists m cs', split_bytes n cs = Some (m, cs') /\ cs = m ++ cs' /\ n = blen m /\
                rest st' = encode_str cs' /\ off st' = off st + n /\ far st' = far st.
Proof.
  intros Hr Hs Ha. unfold advance in Ha. rewrite Hr in Ha.
  destruct (Nat.ltb (length (encode_str cs)) n) eqn:L; [discriminate|].
  destruct (is_boundary (encode_str cs) n) eqn:B; [|discriminate].
  injection Ha as <-. apply Nat.ltb_ge in L.
  destruct (boundary_split cs n Hs L B) as [m [cs' [H1 [H2 H3]]]].
  exists m, cs'. repeat split; auto. cbn.
  rewrite H2, encode_str_app, H3. unfold blen. apply skipn_app_exact.
Qed.
