(* The certificate of Once.v (the packrat bound) for grammars that may contain
   @leftrec rules.  It is WellFormed.wf_check with one relaxation and one
   extra demand:
     - inside the body of a @leftrec rule A, a reference to A itself needs no
       rank (`self`): while A is open at a position its own calls at that
       position are answered from the cache (the sentinel, later the seed) and
       evaluate nothing;
     - the body of a @leftrec rule is checked like every other body (wf_check
       skips it), with the rule's own rank as the bound.
   Every other reference to a @leftrec rule is ranked like any call, so a
   memoized rule can not lie on a cycle through a @leftrec rule that returns
   to it at the same position - the shape of the known finding
   c06:reentrant-through-leftrec, where a body is evaluated twice. *)
From PegV Require Import Utf8 State Syntax WellFormed Termination.

Definition self_ok (x : option name) (n : name) : bool :=
  match x with Some a => name_eqb a n | None => false end.

Section WFS.
Variable g : grammar.
Variable nul : name -> bool.
Variable rk : runit -> nat.

Notation enull := (enull nul).
Notation bound_ok := (bound_ok rk).
Notation ws_ok := (ws_ok rk).

Fixpoint wfeS (x : option name) (k : option nat) (s : bool) (e : expr) : bool :=
  match e with
  | EChoice alts => forallb (wfeS x k s) alts
  | ESeq parts =>
    (fix go (k : option nat) (ps : list expr) : bool :=
       match ps with
       | [] => true
       | p :: r => wfeS x k s p && go (if enull p then k else None) r
       end) k parts
  | EGroup b => wfeS x k s b
  | EOptional b => wfeS x k s b
  | EClosure b _ => wfeS x k s b && negb (enull b)
  | ENeg b => wfeS x k s b
  | EPos b => wfeS x k s b
  | ERange _ _ => ws_ok k s
  | ELit _ _ => ws_ok k s
  | EEoi => ws_ok k s
  | EInclude n => bound_ok k (UInc s n)
  | EField _ _ typ => ws_ok k s && (self_ok x typ || bound_ok k (UCall typ))
  end.

Fixpoint wfseqS (x : option name) (k : option nat) (s : bool) (ps : list expr) : bool :=
  match ps with
  | [] => true
  | p :: r => wfeS x k s p && wfseqS x (if enull p then k else None) s r
  end.

Lemma wfeS_seq_eq x k s parts : wfeS x k s (ESeq parts) = wfseqS x k s parts.
Proof. cbn [wfeS]. revert k. induction parts as [|p ps IH]; intro k; cbn [wfseqS]; [reflexivity|]. rewrite IH. reflexivity. Qed.

Lemma wfeS_none : forall e k s, wfeS None k s e = wfe nul rk k s e.
Proof.
  induction e using expr_ind'; intros k s.
  - cbn [wfeS wfe]. induction H as [|a l Ha Hl IH]; [reflexivity|]. cbn [forallb]. rewrite Ha, IH. reflexivity.
  - rewrite wfeS_seq_eq, wfe_seq_eq. revert k. induction H as [|p ps Hp Hps IH]; intro k; [reflexivity|].
    cbn [wfseqS wfseq]. rewrite Hp, IH. reflexivity.
  - cbn [wfeS wfe]. auto.
  - cbn [wfeS wfe]. auto.
  - cbn [wfeS wfe]. rewrite IHe. reflexivity.
  - cbn [wfeS wfe]. auto.
  - cbn [wfeS wfe]. auto.
  - reflexivity.
  - reflexivity.
  - reflexivity.
  - reflexivity.
  - reflexivity.
Qed.

Lemma wfeS_weaken : forall e x k s, wfeS x k s e = true -> wfeS x None s e = true.
Proof.
  induction e using expr_ind'; intros x k s W.
  - cbn [wfeS] in *. rewrite forallb_forall in *. intros y Hy. rewrite Forall_forall in H. eapply H; eauto.
  - rewrite wfeS_seq_eq in *. revert k W. induction H as [|p ps Hp Hps IH]; intros k W; [reflexivity|].
    cbn [wfseqS] in *. apply andb_prop in W. destruct W as [W1 W2]. rewrite (Hp _ _ _ W1). cbn.
    destruct (enull p); eapply IH; eauto.
  - cbn [wfeS] in *. eauto.
  - cbn [wfeS] in *. eauto.
  - cbn [wfeS] in *. apply andb_prop in W. destruct W as [W1 W2]. rewrite (IHe _ _ _ W1), W2. reflexivity.
  - cbn [wfeS] in *. eauto.
  - cbn [wfeS] in *. eauto.
  - cbn [wfeS] in *. eapply ws_ok_weaken; eauto.
  - cbn [wfeS] in *. eapply ws_ok_weaken; eauto.
  - cbn [wfeS] in *. eapply ws_ok_weaken; eauto.
  - reflexivity.
  - cbn [wfeS] in *. apply andb_prop in W. destruct W as [W1 _]. rewrite (ws_ok_weaken rk _ _ W1). cbn. apply Bool.orb_true_r.
Qed.

Lemma wfseqS_weaken ps : forall x k s, wfseqS x k s ps = true -> wfseqS x None s ps = true.
Proof. intros x k s W. rewrite <- wfeS_seq_eq in *. eapply wfeS_weaken; eauto. Qed.

Definition rank_ok_once (gr : grule) : bool :=
  match gr with
  | GRule r =>
    let fl := flags_of (r_directives r) in
    wfeS (if fl_left_recursive fl then Some (r_name r) else None)
         (Some (rk (UCall (r_name r)))) (negb (fl_no_skip_ws fl)) (r_def r)
    && wfeS None (Some (rk (UInc true (r_name r)))) true (r_def r)
    && wfeS None (Some (rk (UInc false (r_name r)))) false (r_def r)
  | GChar r =>
    forallb (fun p => match p with
                      | CPIdent m => Nat.ltb (rk (UCall m)) (rk (UCall (cr_name r)))
                      | _ => true
                      end) (cr_choices r)
  | GExtern _ => true
  end.

Definition wf_check_once : bool :=
  nul n_Whitespace && forallb (nul_ok_rule nul) g && forallb rank_ok_once g.

(* without @leftrec rules this is WellFormed.wf_check *)
Lemma wf_check_once_of_wf_check :
  (forall r, In (GRule r) g -> fl_left_recursive (flags_of (r_directives r)) = false) ->
  wf_check g nul rk = true -> wf_check_once = true.
Proof.
  intros NoLR W. unfold wf_check in W. unfold wf_check_once.
  apply andb_prop in W. destruct W as [W W3]. rewrite W. cbn [andb].
  rewrite forallb_forall in *. intros gr Hin. specialize (W3 gr Hin). destruct gr as [r|r|r]; cbn [rank_ok_once rank_ok_rule] in *; auto.
  rewrite (NoLR r Hin) in *. cbn [orb] in W3. rewrite !wfeS_none. exact W3.
Qed.

Section Access.
Hypothesis WF : wf_check_once = true.

Lemma wfo_ws : nul n_Whitespace = true.
Proof. unfold wf_check_once in WF. apply andb_prop in WF. destruct WF as [W _]. apply andb_prop in W. tauto. Qed.

Lemma wfo_nul gr : In gr g -> nul_ok_rule nul gr = true.
Proof.
  unfold wf_check_once in WF. apply andb_prop in WF. destruct WF as [W _]. apply andb_prop in W. destruct W as [_ W].
  rewrite forallb_forall in W. auto.
Qed.

Lemma wfo_rank gr : In gr g -> rank_ok_once gr = true.
Proof. unfold wf_check_once in WF. apply andb_prop in WF. destruct WF as [_ W]. rewrite forallb_forall in W. auto. Qed.
End Access.

End WFS.

(* ---- the analysis: ranks along heads, a @leftrec rule's own name left out of its heads ---- *)

Definition not_self (n : name) (u : runit) : bool :=
  match u with UCall m => negb (name_eqb n m) | _ => true end.

Definition unit_heads_once (g : grammar) (nul : name -> bool) (u : runit) : list runit :=
  match u with
  | UCall n =>
    match find_grule g n with
    | Some (GRule r) =>
      let fl := flags_of (r_directives r) in
      let hs := heads nul (negb (fl_no_skip_ws fl)) (r_def r) in
      if fl_left_recursive fl then filter (not_self (r_name r)) hs else hs
    | Some (GChar r) =>
      flat_map (fun p => match p with CPIdent m => [UCall m] | _ => [] end) (cr_choices r)
    | _ => []
    end
  | UInc s n =>
    match find_rule g n with
    | Some r => heads nul s (r_def r)
    | None => []
    end
  end.

Definition rk_step_once (g : grammar) (nul : name -> bool) (t : list (runit * nat)) : list (runit * nat) :=
  map (fun ur => let u := fst ur in
                 (u, match unit_heads_once g nul u with
                     | [] => 0
                     | hs => S (fold_right (fun h a => Nat.max (rk_lookup t h) a) 0 hs)
                     end)) t.

Fixpoint rk_iter_once (g : grammar) (nul : name -> bool) (k : nat) (t : list (runit * nat)) : list (runit * nat) :=
  match k with
  | O => t
  | S k' => rk_iter_once g nul k' (rk_step_once g nul t)
  end.

Definition analyse_once (g : grammar) : cert :=
  let nl := nul_iter g (S (length g)) [] in
  let nul := nul_of nl in
  let us := all_units g in
  let t := rk_iter_once g nul (S (length us)) (map (fun u => (u, 0)) us) in
  {| c_nul := nul; c_rk := rk_lookup t |}.

Definition well_formed_once (g : grammar) : bool :=
  let c := analyse_once g in wf_check_once g (c_nul c) (c_rk c).

Definition is_lrule (g : grammar) (n : name) : bool :=
  match find_grule g n with
  | Some (GRule r) => fl_left_recursive (flags_of (r_directives r))
  | _ => false
  end.
