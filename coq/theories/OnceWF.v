(* The certificate of Once.v (the packrat bound) for grammars that may contain
   @leftrec rules.  It refines WellFormed.wf_check by the set X of @leftrec
   rules that are *open* at the current offset (their growth loop is running
   there, so a call is answered from the cache - sentinel or seed - and
   evaluates nothing):
     - a unit of recursion is a pair (X, u): the call or include u entered
       while the rules of X are open; entering a @leftrec rule n adds n to X
       for its body; once a character has been consumed nothing is known to
       be open any more (X = []);
     - ranks may depend on X (the same plain rule can be entered with and
       without the @leftrec rule it recurses into being open), except for
       memoized rules: their rank must be the same in every context in which
       they are demanded.  A memoized rule on a cycle through a @leftrec rule
       that can return to it at the same offset has no such rank - the shape
       of the known finding c06:reentrant-through-leftrec;
     - `dem X u` says which units are demanded (every call demands its unit
       in the current context and in the empty one); every demanded unit's
       body must pass the check.
   Without @leftrec rules X is always empty and the check is WellFormed.wf_check. *)
From PegV Require Import Utf8 State Syntax Fields FieldsFacts WellFormed Termination.

Definition is_lrule (g : grammar) (n : name) : bool :=
  match find_grule g n with
  | Some (GRule r) => fl_left_recursive (flags_of (r_directives r))
  | _ => false
  end.

Definition is_mrule (g : grammar) (n : name) : bool :=
  match find_grule g n with
  | Some (GRule r) => let fl := flags_of (r_directives r) in negb (fl_left_recursive fl) && fl_memoize fl
  | _ => false
  end.

Definition openb (X : list name) (n : name) : bool := existsb (name_eqb n) X.

Lemma openb_in X n : openb X n = true -> In n X.
Proof.
  unfold openb. intro H. apply existsb_exists in H. destruct H as (a & Ha & E). apply name_eqb_eq in E. subst a. exact Ha.
Qed.

Section WFX.
Variable g : grammar.
Variable nul : name -> bool.
Variable rkX : list name -> runit -> nat.
Variable dem : list name -> runit -> bool.

Notation enull := (enull nul).

(* the context that is still known: nothing once a character has been consumed *)
Definition cx (X : list name) (k : option nat) : list name := match k with Some _ => X | None => [] end.

Definition callb (X : list name) (k : option nat) (u : runit) : bool :=
  bound_ok (rkX X) k u && dem (cx X k) u && dem [] u.

Definition wsb (X : list name) (k : option nat) (s : bool) : bool :=
  if s then callb X k (UCall n_Whitespace) else true.

Definition openk (X : list name) (k : option nat) (n : name) : bool :=
  match k with Some _ => openb X n | None => false end.

Fixpoint wfeX (X : list name) (k : option nat) (s : bool) (e : expr) : bool :=
  match e with
  | EChoice alts => forallb (wfeX X k s) alts
  | ESeq parts =>
    (fix go (k : option nat) (ps : list expr) : bool :=
       match ps with
       | [] => true
       | p :: r => wfeX X k s p && go (if enull p then k else None) r
       end) k parts
  | EGroup b => wfeX X k s b
  | EOptional b => wfeX X k s b
  | EClosure b _ => wfeX X k s b && negb (enull b)
  | ENeg b => wfeX X k s b
  | EPos b => wfeX X k s b
  | ERange _ _ => wsb X k s
  | ELit _ _ => wsb X k s
  | EEoi => wsb X k s
  | EInclude n => callb X k (UInc s n)
  | EField _ _ typ => wsb X k s && dem [] (UCall typ) && (openk X k typ || callb X k (UCall typ))
  end.

Fixpoint wfseqX (X : list name) (k : option nat) (s : bool) (ps : list expr) : bool :=
  match ps with
  | [] => true
  | p :: r => wfeX X k s p && wfseqX X (if enull p then k else None) s r
  end.

Lemma wfeX_seq_eq X k s parts : wfeX X k s (ESeq parts) = wfseqX X k s parts.
Proof. cbn [wfeX]. revert k. induction parts as [|p ps IH]; intro k; cbn [wfseqX]; [reflexivity|]. rewrite IH. reflexivity. Qed.

Lemma callb_weaken X k u : callb X k u = true -> callb X None u = true.
Proof.
  unfold callb. intro H. apply andb_prop in H. destruct H as [H H2]. cbn. rewrite H2. reflexivity.
Qed.

Lemma wsb_weaken X k s : wsb X k s = true -> wsb X None s = true.
Proof. unfold wsb. destruct s; [apply callb_weaken|auto]. Qed.

Lemma wfeX_weaken : forall e X k s, wfeX X k s e = true -> wfeX X None s e = true.
Proof.
  induction e using expr_ind'; intros X k s W.
  - cbn [wfeX] in *. rewrite forallb_forall in *. intros y Hy. rewrite Forall_forall in H. eapply H; eauto.
  - rewrite wfeX_seq_eq in *. revert k W. induction H as [|p ps Hp Hps IH]; intros k W; [reflexivity|].
    cbn [wfseqX] in *. apply andb_prop in W. destruct W as [W1 W2]. rewrite (Hp _ _ _ W1). cbn.
    destruct (enull p); eapply IH; eauto.
  - cbn [wfeX] in *. eauto.
  - cbn [wfeX] in *. eauto.
  - cbn [wfeX] in *. apply andb_prop in W. destruct W as [W1 W2]. rewrite (IHe _ _ _ W1), W2. reflexivity.
  - cbn [wfeX] in *. eauto.
  - cbn [wfeX] in *. eauto.
  - cbn [wfeX] in *. eapply wsb_weaken; eauto.
  - cbn [wfeX] in *. eapply wsb_weaken; eauto.
  - cbn [wfeX] in *. eapply wsb_weaken; eauto.
  - cbn [wfeX] in *. eapply callb_weaken; eauto.
  - cbn [wfeX] in *. apply andb_prop in W. destruct W as [W W3]. apply andb_prop in W. destruct W as [W1 W2].
    rewrite (wsb_weaken _ _ _ W1), W2. cbn. unfold callb. cbn. rewrite W2. reflexivity.
Qed.

Lemma wfseqX_weaken ps : forall X k s, wfseqX X k s ps = true -> wfseqX X None s ps = true.
Proof. intros X k s W. rewrite <- wfeX_seq_eq in *. eapply wfeX_weaken; eauto. Qed.

(* the body of a demanded unit, under the unit's own rank and with the unit's rule added to the open
   ones when it is a @leftrec rule *)
Definition unit_ok (X : list name) (u : runit) : bool :=
  match u with
  | UCall n =>
    match find_grule g n with
    | Some (GRule r) =>
      let fl := flags_of (r_directives r) in
      wfeX (if fl_left_recursive fl then r_name r :: X else X) (Some (rkX X u)) (negb (fl_no_skip_ws fl)) (r_def r)
    | Some (GChar r) =>
      forallb (fun p => match p with
                        | CPIdent m => callb X (Some (rkX X u)) (UCall m)
                        | _ => true
                        end) (cr_choices r)
    | _ => true
    end
  | UInc s n =>
    match find_rule g n with
    | Some r => wfeX X (Some (rkX X u)) s (r_def r)
    | None => true
    end
  end.

(* memoized rules: one rank, whatever is open *)
Definition memo_ok (X : list name) (u : runit) : bool :=
  match u with
  | UCall n => implb (is_mrule g n) (Nat.eqb (rkX X u) (rkX [] u))
  | _ => true
  end.

Definition nul_okX : bool := nul n_Whitespace && forallb (nul_ok_rule nul) g.

End WFX.

(* ---- a finite certificate: the demanded units as a list ----------------------------------- *)

Fixpoint names_eqb (a b : list name) : bool :=
  match a, b with
  | [], [] => true
  | x :: a', y :: b' => name_eqb x y && names_eqb a' b'
  | _, _ => false
  end.

Lemma names_eqb_eq a : forall b, names_eqb a b = true -> a = b.
Proof.
  induction a as [|x a IH]; intros [|y b] H; cbn in H; try discriminate; [reflexivity|].
  apply andb_prop in H. destruct H as [H1 H2]. apply name_eqb_eq in H1. subst y. rewrite (IH _ H2). reflexivity.
Qed.

Lemma runit_eqb_eq a b : runit_eqb a b = true -> a = b.
Proof.
  destruct a as [n|s n], b as [m|t m]; cbn; try discriminate.
  - intro H. apply name_eqb_eq in H. subst m. reflexivity.
  - intro H. apply andb_prop in H. destruct H as [H1 H2]. apply name_eqb_eq in H2. subst m.
    destruct s, t; cbn in H1; try discriminate; reflexivity.
Qed.

Definition xunit := (list name * runit)%type.

Definition memU (U : list xunit) (X : list name) (u : runit) : bool :=
  existsb (fun y => names_eqb X (fst y) && runit_eqb u (snd y)) U.

Lemma memU_in U X u : memU U X u = true -> In (X, u) U.
Proof.
  unfold memU. intro H. apply existsb_exists in H. destruct H as ([Y v] & Hin & E). cbn in E.
  apply andb_prop in E. destruct E as [E1 E2]. apply names_eqb_eq in E1. apply runit_eqb_eq in E2. subst. exact Hin.
Qed.

Definition wf_check_onceX (g : grammar) (nul : name -> bool) (rkX : list name -> runit -> nat) (U : list xunit) : bool :=
  nul_okX g nul &&
  forallb (fun y => unit_ok g nul rkX (memU U) (fst y) (snd y) && memo_ok g rkX (fst y) (snd y)) U.

Lemma wf_check_onceX_unit g nul rkX U : wf_check_onceX g nul rkX U = true ->
  forall X u, memU U X u = true -> unit_ok g nul rkX (memU U) X u = true /\ memo_ok g rkX X u = true.
Proof.
  intros W X u H. unfold wf_check_onceX in W. apply andb_prop in W. destruct W as [_ W].
  rewrite forallb_forall in W. specialize (W _ (memU_in _ _ _ H)). cbn in W. apply andb_prop in W. exact W.
Qed.

(* ---- the analysis ------------------------------------------------------------------------- *)
(* demanded units: everything in the empty context, closed under "reached before a character is
   consumed" with the @leftrec rules entered on the way open *)

Definition enter (g : grammar) (X : list name) (u : runit) : list name :=
  match u with
  | UCall n => if is_lrule g n && negb (openb X n) then n :: X else X
  | UInc _ _ => X
  end.

Definition raw_heads (g : grammar) (nul : name -> bool) (u : runit) : list runit :=
  match u with
  | UCall n =>
    match find_grule g n with
    | Some (GRule r) => heads nul (negb (fl_no_skip_ws (flags_of (r_directives r)))) (r_def r)
    | Some (GChar r) => flat_map (fun p => match p with CPIdent m => [UCall m] | _ => [] end) (cr_choices r)
    | _ => []
    end
  | UInc s n =>
    match find_rule g n with
    | Some r => heads nul s (r_def r)
    | None => []
    end
  end.

Definition is_open (X : list name) (u : runit) : bool :=
  match u with UCall m => openb X m | _ => false end.

(* what (X, u) reaches before consuming, with the context its body runs in; open rules are hits *)
Definition succ_units (g : grammar) (nul : name -> bool) (y : xunit) : list xunit :=
  let X' := enter g (fst y) (snd y) in
  map (fun h => (X', h)) (filter (fun h => negb (is_open X' h)) (raw_heads g nul (snd y))).

Definition add_unit (U : list xunit) (y : xunit) : list xunit :=
  if memU U (fst y) (snd y) then U else U ++ [y].

Fixpoint close_units (g : grammar) (nul : name -> bool) (fuel : nat) (U : list xunit) : list xunit :=
  match fuel with
  | O => U
  | S f =>
    let U' := fold_left add_unit (flat_map (succ_units g nul) U) U in
    if Nat.eqb (length U') (length U) then U else close_units g nul f U'
  end.

Fixpoint rkx_lookup (t : list (xunit * nat)) (X : list name) (u : runit) : nat :=
  match t with
  | [] => 0
  | (y, r) :: t' => if names_eqb X (fst y) && runit_eqb u (snd y) then r else rkx_lookup t' X u
  end.

Definition raw_rank (g : grammar) (nul : name -> bool) (t : list (xunit * nat)) (y : xunit) : nat :=
  match succ_units g nul y with
  | [] => 0
  | hs => S (fold_right (fun h a => Nat.max (rkx_lookup t (fst h) (snd h)) a) 0 hs)
  end.

(* memoized rules take the largest rank over the contexts they are demanded in *)
Definition rkx_step (g : grammar) (nul : name -> bool) (t : list (xunit * nat)) : list (xunit * nat) :=
  let raw := map (fun yr => (fst yr, raw_rank g nul t (fst yr))) t in
  map (fun yr =>
         match snd (fst yr) with
         | UCall n =>
           if is_mrule g n
           then (fst yr, fold_right (fun zr a => if runit_eqb (snd (fst zr)) (UCall n) then Nat.max (snd zr) a else a) 0 raw)
           else yr
         | _ => yr
         end) raw.

Fixpoint rkx_iter (g : grammar) (nul : name -> bool) (k : nat) (t : list (xunit * nat)) : list (xunit * nat) :=
  match k with
  | O => t
  | S k' =>
    let t' := rkx_step g nul t in
    if forallb (fun ab => Nat.eqb (snd (fst ab)) (snd (snd ab))) (combine t t') then t else rkx_iter g nul k' t'
  end.

Record certX := { cx_nul : name -> bool; cx_rk : list name -> runit -> nat; cx_units : list xunit }.

Definition analyse_onceX (g : grammar) : certX :=
  let nl := nul_iter g (S (length g)) [] in
  let nul := nul_of nl in
  let U0 := map (fun u => ([], u)) (all_units g) in
  let U := close_units g nul (S (length U0) * S (length g)) U0 in
  let t := rkx_iter g nul (S (length U)) (map (fun y => (y, 0)) U) in
  {| cx_nul := nul; cx_rk := rkx_lookup t; cx_units := U |}.

Definition well_formed_once (g : grammar) : bool :=
  let c := analyse_onceX g in wf_check_onceX g (cx_nul c) (cx_rk c) (cx_units c).

(* ... and every rule of the grammar may be the start rule *)
Definition well_formed_once_all (g : grammar) : bool :=
  well_formed_once g && forallb (fun gr => memU (cx_units (analyse_onceX g)) [] (UCall (grule_name gr))) g.
