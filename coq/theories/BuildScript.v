(* Model of codegen/src/buildscript.rs: Compile::run / run_on_single_file over
   an abstract file system (one grammar file, one destination), and the
   histories of C18.  `hdr g p` (generate_source_header of the grammar text -
   version, build time, CRC of the text - followed by generate_prefix_header of
   the prefix - its CRC), `compile` (Grammar::from_str + generate_code, None on
   error) and `fmt` (rustfmt) are parameters.  `run_old` is the algorithm before
   the repair (the header named only the grammar; the up-to-date test compared
   header + prefix text): kept to state what was wrong with it. *)
From Coq Require Import Lia.
From PegV Require Import Utf8.

Definition text := list N.

Section BS.
Variable hdr : text -> text -> text.
Variable compile : text -> option text.
Variable fmt : text -> text.

Definition NL : text := [10%N].

Record fs := { gfile : option text;      (* None: the grammar file cannot be read *)
               dest : option text;       (* None: the destination does not exist *)
               writes : nat }.           (* number of fs::write calls so far *)

Record conf := { prefix : text; format : bool }.

Definition source_header (c : conf) (g : text) : text := hdr g (prefix c).
Definition content (c : conf) (g : text) (code : text) : text :=
  source_header c g ++ NL ++ prefix c ++ NL ++ code.
Definition output (c : conf) (g : text) (code : text) : text :=
  if format c then fmt (content c g code) else content c g code.

Fixpoint text_eqb (a b : text) : bool :=
  match a, b with
  | [], [] => true
  | x :: a', y :: b' => N.eqb x y && text_eqb a' b'
  | _, _ => false
  end.

(* `f.take(source_header.len()).read_to_string(..).is_ok() && source_header == existing_header` *)
Definition up_to_date (c : conf) (g : text) (d : text) : bool :=
  text_eqb (source_header c g) (firstn (length (source_header c g)) d).

Inductive res := ROk | RErr.

Definition run (c : conf) (s : fs) : res * fs :=
  match gfile s with
  | None => (RErr, s)                                   (* fs::read_to_string(source)? *)
  | Some g =>
    if match dest s with Some d => up_to_date c g d | None => false end
    then (ROk, s)                                       (* return Ok(()) without touching anything *)
    else
      match compile g with
      | None => (RErr, s)                               (* parse / generate error, before fs::write *)
      | Some code =>
        (ROk, {| gfile := gfile s; dest := Some (output c g code); writes := S (writes s) |})
      end
  end.

(* directory mode: `read_dir()?.try_for_each(|c| self.run_recursively(..))` - the entries in the
   order the directory lists them (sub-directories flattened; entries that are not grammars do
   nothing), stopping at the first error.  `stop_at_error = false` is the variant that walks on and
   returns the last entry's result. *)
Fixpoint run_dir (stop_at_error : bool) (c : conf) (entries : list fs) : res * list fs :=
  match entries with
  | [] => (ROk, [])
  | s :: rest =>
    match run c s with
    | (RErr, s1) =>
      if stop_at_error then (RErr, s1 :: rest)
      else match rest with
           | [] => (RErr, [s1])
           | _ => let '(r, rest') := run_dir stop_at_error c rest in (r, s1 :: rest')
           end
    | (ROk, s1) => let '(r, rest') := run_dir stop_at_error c rest in (r, s1 :: rest')
    end
  end.

(* the histories of C18 *)
Inductive op :=
| OEdit (g : option text)      (* edit / remove / make unreadable the grammar file *)
| OPrefix (p : text)
| OFormat (b : bool)
| ODelete                      (* delete the destination *)
| ORun.

Definition step (cs : conf * fs) (o : op) : conf * fs :=
  let '(c, s) := cs in
  match o with
  | OEdit g => (c, {| gfile := g; dest := dest s; writes := writes s |})
  | OPrefix p => ({| prefix := p; format := format c |}, s)
  | OFormat b => ({| prefix := prefix c; format := b |}, s)
  | ODelete => (c, {| gfile := gfile s; dest := None; writes := writes s |})
  | ORun => (c, snd (run c s))
  end.

Definition exec (ops : list op) (cs : conf * fs) : conf * fs := fold_left step ops cs.

(* what the property calls "the compilation of the grammar file as it is now (header,
   prefix, code)" - whether or not rustfmt went over it *)
Definition fresh (c : conf) (s : fs) : Prop :=
  match gfile s with
  | Some g =>
    match compile g with
    | Some code => dest s = Some (content c g code) \/ dest s = Some (fmt (content c g code))
    | None => True
    end
  | None => True
  end.

(* the destination, if there is one, was written by an earlier run *)
Definition produced (s : fs) : Prop :=
  match dest s with
  | None => True
  | Some d => exists c g code, compile g = Some code /\ d = output c g code
  end.

(* ---- the algorithm before the repair -------------------------------------------- *)
Variable hdr_old : text -> text.
Definition source_header_old (c : conf) (g : text) : text := hdr_old g ++ NL ++ prefix c.
Definition output_old (c : conf) (g : text) (code : text) : text := source_header_old c g ++ NL ++ code.
Definition up_to_date_old (c : conf) (g : text) (d : text) : bool :=
  text_eqb (source_header_old c g) (firstn (length (source_header_old c g)) d).
Definition run_old (c : conf) (s : fs) : res * fs :=
  match gfile s with
  | None => (RErr, s)
  | Some g =>
    if match dest s with Some d => up_to_date_old c g d | None => false end
    then (ROk, s)
    else
      match compile g with
      | None => (RErr, s)
      | Some code =>
        (ROk, {| gfile := gfile s; dest := Some (output_old c g code); writes := S (writes s) |})
      end
  end.

End BS.
