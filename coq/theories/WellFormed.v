(* Well-formedness of a grammar in the sense of the quantifier of C01 (no left
   recursion outside @leftrec rules, no closure whose body can succeed without
   consuming), as a *checkable certificate*:
     c_nul : which names may succeed without consuming a character,
     c_rk  : a rank that strictly decreases from every unit of recursion to
             every unit it can reach before a character has been consumed.
   The units of recursion are the calls of a rule (`UCall n`: the body under
   the rule's own whitespace setting) and the includes (`UInc s n`: the body
   under the includer's setting s).  `wf_check` is a boolean function; the
   certificate itself is computed by `analyse` (no proof about the analysis is
   needed: whatever it returns is checked).  Termination.v proves that a
   grammar that passes the check makes the specification - and with the
   simulation, the model of the generated parser - return on every input. *)
From PegV Require Import Utf8 State Syntax.

Inductive runit := UCall (n : name) | UInc (s : bool) (n : name).

Definition runit_eqb (a b : runit) : bool :=
  match a, b with
  | UCall n, UCall m => name_eqb n m
  | UInc s n, UInc t m => Bool.eqb s t && name_eqb n m
  | _, _ => false
  end.

Record cert := { c_nul : name -> bool; c_rk : runit -> nat }.

Section WF.
Variable g : grammar.
Variable nul : name -> bool.
Variable rk : runit -> nat.

(* may succeed without consuming (over-approximation) *)
Fixpoint enull (e : expr) : bool :=
  match e with
  | EChoice alts => existsb enull alts
  | ESeq parts => forallb enull parts
  | EGroup b => enull b
  | EOptional _ => true
  | EClosure b plus => if plus then enull b else true
  | ENeg _ => true
  | EPos _ => true
  | ERange _ _ => false
  | ELit _ body => match body with [] => true | _ => false end
  | EEoi => true
  | EInclude n => nul n
  | EField _ _ typ => nul typ
  end.

(* k = Some r: every unit reachable before a character is consumed has rank < r;
   k = None: a character has been consumed since the enclosing unit was entered *)
Definition bound_ok (k : option nat) (u : runit) : bool :=
  match k with Some r => Nat.ltb (rk u) r | None => true end.

Definition ws_ok (k : option nat) (s : bool) : bool :=
  if s then bound_ok k (UCall n_Whitespace) else true.

Fixpoint wfe (k : option nat) (s : bool) (e : expr) : bool :=
  match e with
  | EChoice alts => forallb (wfe k s) alts
  | ESeq parts =>
    (fix wfseq (k : option nat) (ps : list expr) : bool :=
       match ps with
       | [] => true
       | p :: r => wfe k s p && wfseq (if enull p then k else None) r
       end) k parts
  | EGroup b => wfe k s b
  | EOptional b => wfe k s b
  | EClosure b _ => wfe k s b && negb (enull b)
  | ENeg b => wfe k s b
  | EPos b => wfe k s b
  | ERange _ _ => ws_ok k s
  | ELit _ _ => ws_ok k s
  | EEoi => ws_ok k s
  | EInclude n => bound_ok k (UInc s n)
  | EField _ _ typ => ws_ok k s && bound_ok k (UCall typ)
  end.

Fixpoint wfseq (k : option nat) (s : bool) (ps : list expr) : bool :=
  match ps with
  | [] => true
  | p :: r => wfe k s p && wfseq (if enull p then k else None) s r
  end.

Definition nul_ok_rule (gr : grule) : bool :=
  match gr with
  | GRule r => implb (enull (r_def r)) (nul (r_name r))
  | GChar r => implb (existsb (fun p => match p with CPIdent m => nul m | _ => false end) (cr_choices r))
                     (nul (cr_name r))
  | GExtern r => nul (er_name r)
  end.

Definition rank_ok_rule (gr : grule) : bool :=
  match gr with
  | GRule r =>
    let fl := flags_of (r_directives r) in
    (fl_left_recursive fl || wfe (Some (rk (UCall (r_name r)))) (negb (fl_no_skip_ws fl)) (r_def r))
    && wfe (Some (rk (UInc true (r_name r)))) true (r_def r)
    && wfe (Some (rk (UInc false (r_name r)))) false (r_def r)
  | GChar r =>
    forallb (fun p => match p with
                      | CPIdent m => Nat.ltb (rk (UCall m)) (rk (UCall (cr_name r)))
                      | _ => true
                      end) (cr_choices r)
  | GExtern _ => true
  end.

Definition wf_check : bool :=
  nul n_Whitespace && forallb nul_ok_rule g && forallb rank_ok_rule g.

(* ---- what a unit reaches before consuming (for the analysis only) -------- *)

Definition ws_head (s : bool) : list runit := if s then [UCall n_Whitespace] else [].

Fixpoint heads (s : bool) (e : expr) : list runit :=
  match e with
  | EChoice alts => flat_map (heads s) alts
  | ESeq parts =>
    (fix hseq (ps : list expr) : list runit :=
       match ps with
       | [] => []
       | p :: r => heads s p ++ (if enull p then hseq r else [])
       end) parts
  | EGroup b => heads s b
  | EOptional b => heads s b
  | EClosure b _ => heads s b
  | ENeg b => heads s b
  | EPos b => heads s b
  | ERange _ _ => ws_head s
  | ELit _ _ => ws_head s
  | EEoi => ws_head s
  | EInclude n => [UInc s n]
  | EField _ _ typ => ws_head s ++ [UCall typ]
  end.

Definition unit_heads (u : runit) : list runit :=
  match u with
  | UCall n =>
    match find_grule g n with
    | Some (GRule r) =>
      let fl := flags_of (r_directives r) in
      if fl_left_recursive fl then [] else heads (negb (fl_no_skip_ws fl)) (r_def r)
    | Some (GChar r) =>
      flat_map (fun p => match p with CPIdent m => [UCall m] | _ => [] end) (cr_choices r)
    | _ => []
    end
  | UInc s n =>
    match find_rule g n with
    | Some r => heads s (r_def r)
    | None => []
    end
  end.

End WF.

(* ---- the analysis: least nullable set, longest-head-chain ranks ---------- *)

Definition mem_name (n : name) (l : list name) : bool := existsb (name_eqb n) l.

Definition nul_of (l : list name) (n : name) : bool := mem_name n l || name_eqb n n_Whitespace.

Definition gr_nullable (nul : name -> bool) (gr : grule) : bool :=
  match gr with
  | GRule r => enull nul (r_def r)
  | GChar r => existsb (fun p => match p with CPIdent m => nul m | _ => false end) (cr_choices r)
  | GExtern _ => true
  end.

Fixpoint nul_iter (g : grammar) (k : nat) (l : list name) : list name :=
  match k with
  | O => l
  | S k' => nul_iter g k' (map grule_name (filter (gr_nullable (nul_of l)) g))
  end.

Definition all_units (g : grammar) : list runit :=
  UCall n_Whitespace :: UCall n_char ::
  flat_map (fun gr => let n := grule_name gr in [UCall n; UInc true n; UInc false n]) g.

Fixpoint rk_lookup (t : list (runit * nat)) (u : runit) : nat :=
  match t with
  | [] => 0
  | (v, r) :: t' => if runit_eqb u v then r else rk_lookup t' u
  end.

Definition rk_step (g : grammar) (nul : name -> bool) (t : list (runit * nat)) : list (runit * nat) :=
  map (fun ur => let u := fst ur in
                 (u, match unit_heads g nul u with
                     | [] => 0
                     | hs => S (fold_right (fun h a => Nat.max (rk_lookup t h) a) 0 hs)
                     end)) t.

Fixpoint rk_iter (g : grammar) (nul : name -> bool) (k : nat) (t : list (runit * nat)) : list (runit * nat) :=
  match k with
  | O => t
  | S k' => rk_iter g nul k' (rk_step g nul t)
  end.

Definition analyse (g : grammar) : cert :=
  let nl := nul_iter g (S (length g)) [] in
  let nul := nul_of nl in
  let us := all_units g in
  let t := rk_iter g nul (S (length us)) (map (fun u => (u, 0)) us) in
  {| c_nul := nul; c_rk := rk_lookup t |}.

(* the grammar is well-formed: the computed certificate passes the check *)
Definition well_formed (g : grammar) : bool :=
  let c := analyse g in wf_check g (c_nul c) (c_rk c).
