(* @leftrec: the seed-and-grow loop (rule.rs generate_memoized_body, left_recursive
   branch).  Termination bound: with the strict progress test of
   ParseState::is_further_than, and given that evaluations of the rule body
   return, the loop returns after at most (L - off(seed) + 2) turns, where L
   bounds the offsets a body evaluation can reach (the input length). *)
From Coq Require Import Lia.
From PegV Require Import Utf8 State Terminals Syntax Fields Literals Model FuelMono.

Section Leftrec.
Variable ustate : Type.
Variable scfg : state_cfg.
Hypothesis Hstrict : further_gt scfg = true.
Variable tcfg : term_cfg.
Variable fcfg : fields_cfg.
Variable rcfg : rule_cfg.
Variable hk : hooks ustate.
Variable g : grammar.
Notation glb := (glob ustate).
Notation Mrun := (run ustate scfg tcfg fcfg rcfg hk g).
Notation body m := (rule_body ustate scfg fcfg hk g (Mrun m)).

(* what one turn of the loop does (definitional) *)
Theorem grow_turn m r st best gl :
  ev_grow (Mrun (S m)) r st best gl =
  match body m r st (trace ustate (TInfo 2) gl) with
  | (MOk v st', gl2) =>
    match best with
    | COk _ bst =>
      if is_further_than scfg st' bst
      then ev_grow (Mrun m) r st (COk v st') (cache_put ustate (r_name r) (off st) (COk v st') gl2)
      else (of_cached best, gl2)
    | CErr _ => ev_grow (Mrun m) r st (COk v st') (cache_put ustate (r_name r) (off st) (COk v st') gl2)
    end
  | (MErr e, gl2) =>
    if leftrec_closed rcfg then
      match best with
      | COk _ _ => (of_cached best, gl2)
      | CErr _ => (MErr e, cache_put ustate (r_name r) (off st) (CErr e) gl2)
      end
    else (MErr e, gl2)
  | (MPanic p, gl2) => (MPanic p, gl2)
  | (MFuel, gl2) => (MFuel, gl2)
  end.
Proof. reflexivity. Qed.

(* progress measure: how far the best result can still grow *)
Definition room (L : nat) (best : cached) : nat :=
  match best with COk _ bst => S L - off bst | CErr _ => S (S L) end.

Theorem grow_bound (r : rule) (st : pstate) (n L : nat) :
  (forall m gl, n <= m -> nofuel ustate (body m r st gl)) ->
  (forall m gl v st', fst (body m r st gl) = MOk v st' -> off st' <= L) ->
  forall d best gl, room L best <= d ->
    nofuel ustate (ev_grow (Mrun (n + S d)) r st best gl).
Proof.
  intros Hret Hbound. induction d as [|d IH]; intros best gl Hroom.
  - (* no room left: best is Ok at offset > L, so any Ok body result is not further *)
    destruct best as [bv bst|be]; [|unfold room in Hroom; lia].
    unfold room in Hroom. replace (n + 1) with (S n) by lia. rewrite grow_turn.
    pose proof (Hret n (trace ustate (TInfo 2) gl) (Nat.le_refl n)) as NF.
    pose proof (Hbound n (trace ustate (TInfo 2) gl)) as HB.
    destruct (body n r st (trace ustate (TInfo 2) gl)) as [[v st'|e|p|] gl2]; cbn [fst] in *.
    + specialize (HB v st' eq_refl).
      unfold is_further_than. rewrite Hstrict.
      replace (Nat.ltb (off bst) (off st')) with false by (symmetry; apply Nat.ltb_ge; lia).
      unfold nofuel. cbn. exact I.
    + destruct (leftrec_closed rcfg); unfold nofuel; cbn; exact I.
    + unfold nofuel. cbn. exact I.
    + exact NF.
  - replace (n + S (S d)) with (S (n + S d)) by lia. rewrite grow_turn.
    assert (Hle : n <= n + S d) by lia.
    pose proof (Hret (n + S d) (trace ustate (TInfo 2) gl) Hle) as NF.
    pose proof (Hbound (n + S d) (trace ustate (TInfo 2) gl)) as HB.
    destruct (body (n + S d) r st (trace ustate (TInfo 2) gl)) as [[v st'|e|p|] gl2]; cbn [fst] in *.
    + specialize (HB v st' eq_refl).
      destruct best as [bv bst|be].
      * unfold is_further_than. rewrite Hstrict.
        destruct (Nat.ltb (off bst) (off st')) eqn:Elt.
        -- apply Nat.ltb_lt in Elt. apply IH. unfold room in *. lia.
        -- unfold nofuel. cbn. exact I.
      * apply IH. unfold room in *. lia.
    + destruct (leftrec_closed rcfg); [destruct best|]; unfold nofuel; cbn; exact I.
    + unfold nofuel. cbn. exact I.
    + exact NF.
Qed.

(* from the seed: at most L - off st + 3 fuel levels beyond what the body needs.
   (the first turn runs from the failing sentinel; a successful seed ends at an
   offset >= off st, so at most L - off st + 1 strictly growing turns follow,
   and one last turn that does not grow) *)
Corollary leftrec_returns (r : rule) (st : pstate) (n L : nat) gl e :
  (forall m gl, n <= m -> nofuel ustate (body m r st gl)) ->
  (forall m gl v st', fst (body m r st gl) = MOk v st' -> off st' <= L) ->
  nofuel ustate (ev_grow (Mrun (n + S (S (S L)))) r st (CErr e) gl).
Proof. intros H1 H2. apply (grow_bound r st n L H1 H2 (S (S L)) (CErr e) gl). unfold room. lia. Qed.

End Leftrec.
