(* Decoded literals are made of scalar values; case-insensitive literals that
   pass the ASCII guard are ASCII and lower-case. *)
From Coq Require Import ZArith ZifyBool ZifyNat ZifyN Lia.
From PegV Require Import Utf8 Utf8Facts State TerminalsSpec Syntax Literals.
Ltac Zify.zify_post_hook ::= Z.div_mod_to_equations.
Local Open Scope N_scope.

Lemma decode_item_scalar i c : decode_item i = DOk c -> is_scalar c = true.
Proof.
  destruct i; cbn [decode_item].
  - destruct (hex_digit c1), (hex_digit c2); try discriminate. intro H. injection H as <-.
    unfold is_scalar. lia.
  - intro H. injection H as <-. destruct e; reflexivity.
  - destruct (hex_digit c1); [|discriminate].
    match goal with |- context [utf8_fold ?a ?b] => destruct (utf8_fold a b) as [k|]; [|discriminate] end.
    destruct (is_scalar k) eqn:E; [|discriminate]. intro H. injection H as <-. exact E.
  - destruct (is_scalar c0) eqn:E; [|discriminate]. intro H. injection H as <-. exact E.
Qed.

Lemma decode_items_scalar l cs : decode_items l = DOk cs -> all_scalar cs.
Proof.
  revert cs. induction l as [|i l IH]; intros cs H; cbn in H.
  - injection H as <-. constructor.
  - destruct (decode_item i) eqn:D; try discriminate.
    destruct (decode_items l) eqn:L; try discriminate. injection H as <-.
    constructor; [eapply decode_item_scalar; eauto | apply IH; reflexivity].
Qed.

Lemma to_ascii_lower_idem c : to_ascii_lower (to_ascii_lower c) = to_ascii_lower c.
Proof.
  unfold to_ascii_lower. destruct ((0x41 <=? c) && (c <=? 0x5A)) eqn:E; [|rewrite E; reflexivity].
  replace ((0x41 <=? c + 32) && (c + 32 <=? 0x5A)) with false by lia. reflexivity.
Qed.

Lemma to_ascii_lower_ascii c : is_ascii c = true -> is_ascii (to_ascii_lower c) = true.
Proof. unfold is_ascii, to_ascii_lower. intro H. destruct ((0x41 <=? c) && (c <=? 0x5A)) eqn:E; lia. Qed.

Definition lit_ok (m : lit_matcher) : Prop :=
  match m with
  | LMChar c => is_scalar c = true
  | LMStr s => all_scalar s
  | LMIChar c => is_ascii c = true /\ to_ascii_lower c = c
  | LMIStr s => ascii_lower_str s
  end.

Lemma lower_map_ok cs :
  forallb is_ascii cs = true ->
  ascii_lower_str (map (fun c => if is_ascii c then to_ascii_lower c else c) cs).
Proof.
  induction cs as [|c cs IH]; intro H; [constructor|].
  cbn in H. apply andb_true_iff in H. destruct H as [Hc H]. cbn [map]. rewrite Hc.
  constructor; [|apply IH; exact H].
  split; [apply to_ascii_lower_ascii; exact Hc | apply to_ascii_lower_idem].
Qed.

Lemma compile_lit_ok ins body m : compile_lit true ins body = LOk m -> lit_ok m.
Proof.
  unfold compile_lit. destruct (decode_items body) as [cs| |] eqn:D; try discriminate.
  pose proof (decode_items_scalar _ _ D) as Hs.
  destruct ins.
  - cbn [andb]. destruct (forallb is_ascii cs) eqn:A; cbn [negb]; [|discriminate].
    pose proof (lower_map_ok cs A) as L.
    destruct (map _ cs) as [|c [|c2 r]] eqn:M; intro H; injection H as <-; cbn; auto.
    inversion L; subst. assumption.
  - destruct cs as [|c [|c2 r]]; intro H; injection H as <-; cbn; auto.
    inversion Hs; subst. assumption.
Qed.

Lemma compile_range_ok a b x y : compile_range a b = RgOk x y -> is_scalar x = true /\ is_scalar y = true.
Proof.
  unfold compile_range. destruct (decode_item a) eqn:A; try discriminate.
  destruct (decode_item b) eqn:B; try discriminate. intro H. injection H as <- <-.
  split; eapply decode_item_scalar; eauto.
Qed.

Lemma compile_lit_scalar gd ins body m : compile_lit gd ins body = LOk m ->
  match m with LMChar c => is_scalar c = true | LMStr s => all_scalar s | _ => True end.
Proof.
  unfold compile_lit. destruct (decode_items body) as [cs| |] eqn:D; try discriminate.
  pose proof (decode_items_scalar _ _ D) as Hs.
  destruct ins.
  - destruct (gd && negb (forallb is_ascii cs)); [discriminate|].
    destruct (map _ cs) as [|c [|c2 r]]; intro H; injection H as <-; exact I.
  - destruct cs as [|c [|c2 r]]; intro H; injection H as <-; cbn; auto.
    inversion Hs; subst. assumption.
Qed.
