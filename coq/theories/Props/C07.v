(* C07 — @leftrec rules terminate and build the left-nested tree of the longest growth. *)
From PegV Require Import Utf8 State Terminals Syntax Fields Literals Model FuelMono Leftrec Extracted.
From PegV Require WellFormed LRTerm.
From PegV Require Import Conform CleanFrame UsualShape UsualShapeN Indirect UsualShapeExamples.

Theorem C07_facts :
  further_gt Extracted.scfg = true /\ leftrec_closed Extracted.rcfg = true /\
  Extracted.file_codegen_src_rule_rs = true /\ Extracted.file_runtime_src_state_rs = true /\
  Extracted.file_runtime_src_error_rs = true.
Proof. repeat split; reflexivity. Qed.
Print Assumptions C07_facts.

(* the algorithm: one turn of the loop re-evaluates the body with the cache entry of
   (rule, offset) standing for the previous result, keeps the new result and goes on iff
   it reaches strictly further, and otherwise returns the best result so far *)
Theorem C07_grow : forall ustate scfg tcfg fcfg rcfg hk g m r st best gl,
  ev_grow (run ustate scfg tcfg fcfg rcfg hk g (S m)) r st best gl =
  match rule_body ustate scfg fcfg hk g (run ustate scfg tcfg fcfg rcfg hk g m) r st (trace ustate (TInfo 2) gl) with
  | (MOk v st', gl2) =>
    match best with
    | COk _ bst =>
      if is_further_than scfg st' bst
      then ev_grow (run ustate scfg tcfg fcfg rcfg hk g m) r st (COk v st')
                   (cache_put ustate (r_name r) (off st) (COk v st') gl2)
      else (of_cached best, gl2)
    | CErr _ => ev_grow (run ustate scfg tcfg fcfg rcfg hk g m) r st (COk v st')
                        (cache_put ustate (r_name r) (off st) (COk v st') gl2)
    end
  | (MErr e, gl2) =>
    if leftrec_closed rcfg then
      match best with
      | COk _ _ => (of_cached best, gl2)
      | CErr _ => (MErr e, cache_put ustate (r_name r) (off st) (CErr e) gl2)
      end
    else (MErr e, gl2)
  | (MPanic p, gl2) => (MPanic p, gl2)
  | (MFuel, gl2) => (MFuel, gl2)
  end.
Proof. intros. apply grow_turn. Qed.
Print Assumptions C07_grow.

(* termination of the loop: with the strict progress test found in the source, given that
   the evaluations of the rule body return (from fuel n on) and never reach beyond offset L
   (the input length, C04), the loop returns within L + 3 further fuel levels, i.e. after
   at most L - off(seed) + 2 turns *)
Theorem C07_bound : forall ustate tcfg fcfg rcfg hk g (r : rule) (st : pstate) (n L : nat) gl e,
  (forall m gl, n <= m ->
     nofuel ustate (rule_body ustate Extracted.scfg fcfg hk g (run ustate Extracted.scfg tcfg fcfg rcfg hk g m) r st gl)) ->
  (forall m gl v st',
     fst (rule_body ustate Extracted.scfg fcfg hk g (run ustate Extracted.scfg tcfg fcfg rcfg hk g m) r st gl) = MOk v st' ->
     off st' <= L) ->
  nofuel ustate (ev_grow (run ustate Extracted.scfg tcfg fcfg rcfg hk g (n + S (S (S L)))) r st (CErr e) gl).
Proof. intros. apply leftrec_returns; auto. Qed.
Print Assumptions C07_bound.

(* more fuel never changes a result that was obtained *)
Theorem C07_fuel_monotone : forall ustate scfg tcfg fcfg rcfg hk g n m rule_name input u,
  n <= m -> nofuel ustate (m_parse ustate scfg tcfg fcfg rcfg hk g n rule_name input u) ->
  m_parse ustate scfg tcfg fcfg rcfg hk g m rule_name input u = m_parse ustate scfg tcfg fcfg rcfg hk g n rule_name input u.
Proof. intros. apply m_parse_mono; auto. Qed.
Print Assumptions C07_fuel_monotone.

(* ---- "Parsing a rule marked @leftrec terminates on every input" -------------------------------
   For EVERY grammar in the property's quantifier - left recursion goes through @leftrec rules only
   (direct, or indirect through other rules), no closure over a body that can succeed without
   consuming; decided by the checkable certificate LRTerm.wf_check_lr, which is WellFormed.wf_check
   with references to @leftrec rules exempt from the rank condition - with any rules @memoize, any
   number of @leftrec rules nested or at the same position, arbitrary stateful hooks, every rule and
   every input (valid UTF-8 or not): the model of the generated parser returns, with a result that
   no longer depends on the recursion bound from some bound on.  Measure: remaining input, number of
   @leftrec rules not yet open at the position, rank, size; each growth loop by the strict progress
   test (fact further_gt) and the stored seed (fact leftrec_closed). *)
Theorem C07_terminates :
  forall (ustate : Type) (tcfg : term_cfg) (fcfg : fields_cfg) (hk : hooks ustate) (g : grammar)
         (nul : name -> bool) (rk : WellFormed.runit -> nat),
    LRTerm.wf_check_lr g nul rk = true ->
    forall rule_name input u,
    exists F x, fst x <> MFuel /\
      forall f, F <= f -> m_parse ustate Extracted.scfg tcfg fcfg Extracted.rcfg hk g f rule_name input u = x.
Proof.
  intros ustate tcfg fcfg hk g nul rk W.
  exact (LRTerm.lr_terminates ustate Extracted.scfg tcfg fcfg Extracted.rcfg hk g nul rk W eq_refl eq_refl).
Qed.
Print Assumptions C07_terminates.

(* the certificate is computed and then checked; a calculator with two @leftrec rules passes,
   the same grammar without the marker does not *)
Theorem C07_well_formed_terminates :
  forall (ustate : Type) (tcfg : term_cfg) (fcfg : fields_cfg) (hk : hooks ustate) (g : grammar),
    LRTerm.well_formed_lr g = true ->
    forall rule_name input u,
    exists F x, fst x <> MFuel /\
      forall f, F <= f -> m_parse ustate Extracted.scfg tcfg fcfg Extracted.rcfg hk g f rule_name input u = x.
Proof.
  intros ustate tcfg fcfg hk g W.
  exact (LRTerm.well_formed_lr_terminates ustate Extracted.scfg tcfg fcfg Extracted.rcfg hk g W eq_refl eq_refl).
Qed.
Print Assumptions C07_well_formed_terminates.

Theorem C07_instances :
  LRTerm.well_formed_lr LRTerm.g_calc = true /\ LRTerm.well_formed_lr LRTerm.g_calc_unmarked = false.
Proof. split; [exact LRTerm.calc_well_formed_lr|exact LRTerm.unmarked_not_well_formed_lr]. Qed.
Print Assumptions C07_instances.

(* ---- "For the usual shape  A = A x | ... | b  this accepts exactly  b x*  (greedy) and returns the
   tree nested to the left, each extension holding the previous result in its recursive field" -----
   UsualShape.v resolves the recursive reference of a rule  A = l:A x1 xs... | b1 | balts...  (any x, any
   further alternatives, any other directives and checks on A, memoized or left-recursive rules inside x
   and b allowed, stateful hooks, every bound): as long as nothing is skipped between the entry of the rule
   and its recursive field (`ws_trivial`: the rule is @no_skip_ws, or no whitespace follows the entry
   offset), the body of a loop turn IS `usual_body` - the seed turn evaluates the other alternatives, a
   growth turn binds the previous result to l and evaluates  x1 xs...  from the previous result's end
   (C07_usual_body); what the parse of A returns was produced by such turns, each strictly further than the
   one before, and the loop stopped because one more turn did not get strictly further - greedy
   (C07_usual_parse; a failure is the failure of the seed turn), and a successful growth turn
   extended the previous result or fell back to the other alternatives (C07_usual_extension).
   The proviso is necessary: C07_closed_form_refuted_before_whitespace is the counterexample on the
   unchanged tree (known finding c07:entered-before-whitespace). *)
Theorem C07_usual_body :
  forall (ustate : Type) (scfg : state_cfg) (tcfg : term_cfg) (fcfg : fields_cfg) 
    (rcfg : rule_cfg) (hk : hooks ustate) (g : grammar) (A : rule) (l : name) 
    (bx : bool) (x1 : expr) (xs : list expr) (b1 : expr) (balts : list expr),
  r_def A = adef A l bx x1 xs b1 balts ->
  find_grule g (r_name A) = Some (GRule A) ->
  fl_left_recursive (flags_of (r_directives A)) = true ->
  forall rf fds fds1 inner1 : list fdesc,
  get_fields fcfg (gf_fuel g) g (adef A l bx x1 xs b1 balts) = GFOk rf ->
  filt fcfg g (actx A rf) (adef A l bx x1 xs b1 balts) = Some fds ->
  filt fcfg g (actx A rf) (alt1 A l bx x1 xs) = Some fds1 ->
  own_fields fcfg g (alt1 A l bx x1 xs) = Some inner1 ->
  forall (k : nat) (st : pstate) (gl : glob ustate) (c : cached),
  ws_trivial g A rf st ->
  cache_get (r_name A) (off st) (g_cache gl) = Some c ->
  rule_body ustate scfg fcfg hk g (run ustate scfg tcfg fcfg rcfg hk g (S (S (S (S k))))) A st gl =
  usual_body ustate scfg tcfg fcfg rcfg hk g A l x1 xs b1 balts rf fds fds1 inner1 k st c gl.
Proof. exact usual_body_eq. Qed.
Print Assumptions C07_usual_body.

Theorem C07_usual_parse :
  forall (ustate : Type) (scfg : state_cfg) (tcfg : term_cfg) (fcfg : fields_cfg) 
    (rcfg : rule_cfg) (hk : hooks ustate) (g : grammar) (A : rule) (l : name) 
    (bx : bool) (x1 : expr) (xs : list expr) (b1 : expr) (balts : list expr),
  r_def A = adef A l bx x1 xs b1 balts ->
  find_grule g (r_name A) = Some (GRule A) ->
  fl_left_recursive (flags_of (r_directives A)) = true ->
  forall rf fds fds1 inner1 : list fdesc,
  get_fields fcfg (gf_fuel g) g (adef A l bx x1 xs b1 balts) = GFOk rf ->
  filt fcfg g (actx A rf) (adef A l bx x1 xs b1 balts) = Some fds ->
  filt fcfg g (actx A rf) (alt1 A l bx x1 xs) = Some fds1 ->
  own_fields fcfg g (alt1 A l bx x1 xs) = Some inner1 ->
  forall st : pstate,
  ws_trivial g A rf st ->
  forall (F : nat) (gl : glob ustate) (r : mres value) (gl' : glob ustate),
  cache_get (r_name A) (off st) (g_cache gl) = None ->
  ev_rule (run ustate scfg tcfg fcfg rcfg hk g F) (r_name A) st gl = (r, gl') ->
  let sentinel := CErr (report_error scfg st LeftRecursionSentinel) in
  match r with
  | MOk v s' =>
      Produced ustate scfg tcfg fcfg rcfg hk g A l x1 xs b1 balts rf fds fds1 inner1 st sentinel v s'
  | MErr e =>
      leftrec_closed rcfg = true ->
      exists (k : nat) (gl0 gl1 : glob ustate),
        usual_body ustate scfg tcfg fcfg rcfg hk g A l x1 xs b1 balts rf fds fds1 inner1 k st sentinel
          gl0 = (MErr e, gl1)
  | _ => True
  end.
Proof. exact usual_parse. Qed.
Print Assumptions C07_usual_parse.

Theorem C07_usual_extension :
  forall (ustate : Type) (scfg : state_cfg) (tcfg : term_cfg) (fcfg : fields_cfg) 
    (rcfg : rule_cfg) (hk : hooks ustate) (g : grammar) (A : rule) (l : name) 
    (x1 : expr) (xs : list expr) (b1 : expr) (balts : list expr) (rf fds fds1 inner1 : list fdesc)
    (k : nat) (st : pstate) (v : value) (s1 : pstate) (gl0 : glob ustate) (v' : value) 
    (s' : pstate) (gl1 : glob ustate),
  usual_body ustate scfg tcfg fcfg rcfg hk g A l x1 xs b1 balts rf fds fds1 inner1 k st (COk v s1) gl0 =
  (MOk v' s', gl1) ->
  exists fs acc : fields,
    postprocess rf l (r_name A) v = Some fs /\
    seq_merge_vals [] fs = Some acc /\
    ((exists (fs' : fields) (gl2 : glob ustate) (out : fields),
        seq_loop ustate (run ustate scfg tcfg fcfg rcfg hk g (S (S k))) (actx A rf) fds1 
          (x1 :: xs) s1 acc (hitg ustate A (COk v s1) st gl0) = (MOk fs' s', gl2) /\
        convert_arm fds inner1 fs' = Some out /\
        finish ustate scfg hk A rf st (MOk out s', gl2) = (MOk v' s', gl1)) \/
     (exists (e : perr) (gl2 : glob ustate),
        seq_loop ustate (run ustate scfg tcfg fcfg rcfg hk g (S (S k))) (actx A rf) fds1 
          (x1 :: xs) s1 acc (hitg ustate A (COk v s1) st gl0) = (MErr e, gl2) /\
        finish ustate scfg hk A rf st
          (choice_loop ustate scfg fcfg g (run ustate scfg tcfg fcfg rcfg hk g (S (S (S k))))
             (actx A rf) fds (b1 :: balts) (record_error scfg st e) gl2) = (
        MOk v' s', gl1))).
Proof. exact usual_extension. Qed.
Print Assumptions C07_usual_extension.

Theorem C07_usual_instance :
  r_def rE = adef rE nl true x_plus [x_num] b_num [] /\
  find_grule g_sum (r_name rE) = Some (GRule rE) /\
  fl_left_recursive (flags_of (r_directives rE)) = true /\
  (exists rf fds fds1 inner1 : list fdesc,
     get_fields fields_cfg_doc (gf_fuel g_sum) g_sum (adef rE nl true x_plus [x_num] b_num []) = GFOk rf /\
     filt fields_cfg_doc g_sum (actx rE rf) (adef rE nl true x_plus [x_num] b_num []) = Some fds /\
     filt fields_cfg_doc g_sum (actx rE rf) (alt1 rE nl true x_plus [x_num]) = Some fds1 /\
     own_fields fields_cfg_doc g_sum (alt1 rE nl true x_plus [x_num]) = Some inner1).
Proof. exact sum_is_usual. Qed.
Print Assumptions C07_usual_instance.

Theorem C07_usual_instance_left_nested :
  exists st : pstate,
    fst (run_sum [49%N; 43%N; 50%N; 43%N; 51%N]) = MOk (node (node (leaf 49) 50) 51) st /\
    off st = 5 /\
    parse_Whitespace (init_state [49%N; 43%N; 50%N; 43%N; 51%N]) =
    TOk tt (init_state [49%N; 43%N; 50%N; 43%N; 51%N]).
Proof. exact sum_left_nested. Qed.
Print Assumptions C07_usual_instance_left_nested.

Theorem C07_closed_form_refuted_before_whitespace :
  (exists st : pstate, fst (run_sum [32%N; 49%N; 43%N; 50%N]) = MOk (leaf 49) st /\ off st = 2) /\
  (exists st : pstate, fst (run_sum [49%N; 43%N; 50%N]) = MOk (node (leaf 49) 50) st /\ off st = 3) /\
  parse_Whitespace (init_state [32%N; 49%N; 43%N; 50%N]) <> TOk tt (init_state [32%N; 49%N; 43%N; 50%N]).
Proof. exact leading_blank_refuted. Qed.
Print Assumptions C07_closed_form_refuted_before_whitespace.

(* ---- the closed form itself ---------------------------------------------------------------------
   When only the first alternative is recursive and  x...  and the other alternatives refer to rules of a
   clean set (closed under reference, no @memoize / @leftrec rule: CleanFrame.v, C07_clean_frame - such
   expressions never touch the cache, and their results depend on the position only: not on the cache, the
   callback list, the ghost logs or the recorded furthest error), hooks carry no state, and the decision
   points are as in the source (strict progress test, the seed's failure is stored):
   B ("the other alternatives match at the entry, value v, end s") and X ("from (v, s) the rest of the first
   alternative matches with the recursive field bound to v, value v', end s'") are partial functions of the
   position (C07_base_is_a_function, C07_extension_is_a_function, _matches_or_fails), and the parse of A
   fails iff B fails, and returns (v, s) iff  B = (v0, s0),  (v0, s0) X ... X (v, s)  with strictly increasing
   offsets and X fails at (v, s) or does not get beyond s (C07_closed_form, C07_closed_form_accepts); that
   chain is unique (C07_greedy_unique): the result is THE greedy left-nested match  b x*.
   C07_closed_form_instance: the hypotheses are met by  @leftrec E = l:*E '+' n:N | n:N. *)
Theorem C07_clean_frame :
  forall (ustate : Type) (scfg : state_cfg) (tcfg : term_cfg) (fcfg : fields_cfg) 
    (rcfg : rule_cfg) (hk : hooks ustate) (g : grammar) (clean : name -> bool),
  (forall n : name, clean n = true -> rule_clean g clean n) ->
  (forall (n : name) (r : rule),
   clean n = true -> find_rule g n = Some r -> eclean clean (r_def r) = true) ->
  clean n_Whitespace = true -> forall n : nat, Cev ustate clean (run ustate scfg tcfg fcfg rcfg hk g n).
Proof. exact clean_frame. Qed.
Print Assumptions C07_clean_frame.

Theorem C07_closed_form :
  forall (ustate : Type) (scfg : state_cfg) (tcfg : term_cfg) (fcfg : fields_cfg) 
    (rcfg : rule_cfg) (hk : hooks ustate) (g : grammar) (A : rule) (l : name) 
    (bx : bool) (x1 : expr) (xs : list expr) (b1 : expr) (balts : list expr),
  r_def A = adef A l bx x1 xs b1 balts ->
  find_grule g (r_name A) = Some (GRule A) ->
  fl_left_recursive (flags_of (r_directives A)) = true ->
  forall rf fds fds1 inner1 : list fdesc,
  get_fields fcfg (gf_fuel g) g (adef A l bx x1 xs b1 balts) = GFOk rf ->
  filt fcfg g (actx A rf) (adef A l bx x1 xs b1 balts) = Some fds ->
  filt fcfg g (actx A rf) (alt1 A l bx x1 xs) = Some fds1 ->
  own_fields fcfg g (alt1 A l bx x1 xs) = Some inner1 ->
  forall clean : name -> bool,
  (forall n : name, clean n = true -> rule_clean g clean n) ->
  (forall (n : name) (r : rule),
   clean n = true -> find_rule g n = Some r -> eclean clean (r_def r) = true) ->
  clean n_Whitespace = true ->
  lclean clean (b1 :: balts) = true ->
  (forall u u' : ustate, u = u') ->
  further_gt scfg = true ->
  leftrec_closed rcfg = true ->
  forall st : pstate,
  ws_trivial g A rf st ->
  forall (F : nat) (gl : glob ustate) (r : mres value) (gl' : glob ustate),
  cache_get (r_name A) (off st) (g_cache gl) = None ->
  ev_rule (run ustate scfg tcfg fcfg rcfg hk g F) (r_name A) st gl = (r, gl') ->
  match r with
  | MOk v s =>
      exists (v0 : value) (s0 : pstate),
        Bok ustate scfg tcfg fcfg rcfg hk g A b1 balts rf fds st v0 s0 /\
        Star ustate scfg tcfg fcfg rcfg hk g A l x1 xs rf fds fds1 inner1 st v0 s0 v s /\
        Stop ustate scfg tcfg fcfg rcfg hk g A l x1 xs rf fds fds1 inner1 st v s
  | MErr _ => Bfail ustate scfg tcfg fcfg rcfg hk g A b1 balts rf fds st
  | _ => True
  end.
Proof. exact closed_form. Qed.
Print Assumptions C07_closed_form.

Theorem C07_closed_form_accepts :
  forall (ustate : Type) (scfg : state_cfg) (tcfg : term_cfg) (fcfg : fields_cfg) 
    (rcfg : rule_cfg) (hk : hooks ustate) (g : grammar) (A : rule) (l : name) 
    (bx : bool) (x1 : expr) (xs : list expr) (b1 : expr) (balts : list expr),
  r_def A = adef A l bx x1 xs b1 balts ->
  find_grule g (r_name A) = Some (GRule A) ->
  fl_left_recursive (flags_of (r_directives A)) = true ->
  forall rf fds fds1 inner1 : list fdesc,
  get_fields fcfg (gf_fuel g) g (adef A l bx x1 xs b1 balts) = GFOk rf ->
  filt fcfg g (actx A rf) (adef A l bx x1 xs b1 balts) = Some fds ->
  filt fcfg g (actx A rf) (alt1 A l bx x1 xs) = Some fds1 ->
  own_fields fcfg g (alt1 A l bx x1 xs) = Some inner1 ->
  forall clean : name -> bool,
  (forall n : name, clean n = true -> rule_clean g clean n) ->
  (forall (n : name) (r : rule),
   clean n = true -> find_rule g n = Some r -> eclean clean (r_def r) = true) ->
  clean n_Whitespace = true ->
  lclean clean (b1 :: balts) = true ->
  (forall u u' : ustate, u = u') ->
  further_gt scfg = true ->
  leftrec_closed rcfg = true ->
  forall st : pstate,
  ws_trivial g A rf st ->
  forall (F : nat) (gl : glob ustate) (e : perr) (gl' : glob ustate) (v0 : value) (s0 : pstate),
  cache_get (r_name A) (off st) (g_cache gl) = None ->
  Bok ustate scfg tcfg fcfg rcfg hk g A b1 balts rf fds st v0 s0 ->
  ev_rule (run ustate scfg tcfg fcfg rcfg hk g F) (r_name A) st gl <> (MErr e, gl').
Proof. exact closed_form_accepts. Qed.
Print Assumptions C07_closed_form_accepts.

Theorem C07_base_is_a_function :
  forall (ustate : Type) (scfg : state_cfg) (tcfg : term_cfg) (fcfg : fields_cfg) 
    (rcfg : rule_cfg) (hk : hooks ustate) (g : grammar) (A : rule) (b1 : expr) 
    (balts : list expr) (rf fds : list fdesc) (clean : name -> bool),
  (forall n : name, clean n = true -> rule_clean g clean n) ->
  (forall (n : name) (r : rule),
   clean n = true -> find_rule g n = Some r -> eclean clean (r_def r) = true) ->
  clean n_Whitespace = true ->
  lclean clean (b1 :: balts) = true ->
  (forall u u' : ustate, u = u') ->
  forall (st : pstate) (v : value) (s : pstate) (v' : value) (s' : pstate),
  Bok ustate scfg tcfg fcfg rcfg hk g A b1 balts rf fds st v s ->
  Bok ustate scfg tcfg fcfg rcfg hk g A b1 balts rf fds st v' s' -> v = v' /\ Rst s s'.
Proof. exact Bok_fun. Qed.
Print Assumptions C07_base_is_a_function.

Theorem C07_base_matches_or_fails :
  forall (ustate : Type) (scfg : state_cfg) (tcfg : term_cfg) (fcfg : fields_cfg) 
    (rcfg : rule_cfg) (hk : hooks ustate) (g : grammar) (A : rule) (b1 : expr) 
    (balts : list expr) (rf fds : list fdesc) (clean : name -> bool),
  (forall n : name, clean n = true -> rule_clean g clean n) ->
  (forall (n : name) (r : rule),
   clean n = true -> find_rule g n = Some r -> eclean clean (r_def r) = true) ->
  clean n_Whitespace = true ->
  lclean clean (b1 :: balts) = true ->
  (forall u u' : ustate, u = u') ->
  forall (st : pstate) (v : value) (s : pstate),
  Bok ustate scfg tcfg fcfg rcfg hk g A b1 balts rf fds st v s ->
  ~ Bfail ustate scfg tcfg fcfg rcfg hk g A b1 balts rf fds st.
Proof. exact Bok_not_fail. Qed.
Print Assumptions C07_base_matches_or_fails.

Theorem C07_extension_is_a_function :
  forall (ustate : Type) (scfg : state_cfg) (tcfg : term_cfg) (fcfg : fields_cfg) 
    (rcfg : rule_cfg) (hk : hooks ustate) (g : grammar) (A : rule) (l : name) 
    (x1 : expr) (xs : list expr) (rf fds fds1 inner1 : list fdesc) (clean : name -> bool),
  (forall n : name, clean n = true -> rule_clean g clean n) ->
  (forall (n : name) (r : rule),
   clean n = true -> find_rule g n = Some r -> eclean clean (r_def r) = true) ->
  clean n_Whitespace = true ->
  lclean clean (x1 :: xs) = true ->
  (forall u u' : ustate, u = u') ->
  forall (st : pstate) (v : value) (s : pstate) (v1 : value) (s1 : pstate) (v2 : value) (s2 : pstate),
  Xok ustate scfg tcfg fcfg rcfg hk g A l x1 xs rf fds fds1 inner1 st v s v1 s1 ->
  Xok ustate scfg tcfg fcfg rcfg hk g A l x1 xs rf fds fds1 inner1 st v s v2 s2 -> v1 = v2 /\ Rst s1 s2.
Proof. exact Xok_fun. Qed.
Print Assumptions C07_extension_is_a_function.

Theorem C07_extension_matches_or_fails :
  forall (ustate : Type) (scfg : state_cfg) (tcfg : term_cfg) (fcfg : fields_cfg) 
    (rcfg : rule_cfg) (hk : hooks ustate) (g : grammar) (A : rule) (l : name) 
    (x1 : expr) (xs : list expr) (rf fds fds1 inner1 : list fdesc) (clean : name -> bool),
  (forall n : name, clean n = true -> rule_clean g clean n) ->
  (forall (n : name) (r : rule),
   clean n = true -> find_rule g n = Some r -> eclean clean (r_def r) = true) ->
  clean n_Whitespace = true ->
  lclean clean (x1 :: xs) = true ->
  (forall u u' : ustate, u = u') ->
  forall (st : pstate) (v : value) (s : pstate) (v1 : value) (s1 : pstate),
  Xok ustate scfg tcfg fcfg rcfg hk g A l x1 xs rf fds fds1 inner1 st v s v1 s1 ->
  ~ Xfail ustate scfg tcfg fcfg rcfg hk g A l x1 xs rf fds fds1 inner1 st v s.
Proof. exact Xok_not_fail. Qed.
Print Assumptions C07_extension_matches_or_fails.

Theorem C07_greedy_unique :
  forall (ustate : Type) (scfg : state_cfg) (tcfg : term_cfg) (fcfg : fields_cfg) 
    (rcfg : rule_cfg) (hk : hooks ustate) (g : grammar) (A : rule) (l : name) 
    (x1 : expr) (xs : list expr),
  expr ->
  list expr ->
  forall (rf fds fds1 inner1 : list fdesc) (clean : name -> bool),
  (forall n : name, clean n = true -> rule_clean g clean n) ->
  (forall (n : name) (r : rule),
   clean n = true -> find_rule g n = Some r -> eclean clean (r_def r) = true) ->
  clean n_Whitespace = true ->
  lclean clean (x1 :: xs) = true ->
  (forall u u' : ustate, u = u') ->
  forall (st : pstate) (v : value) (s : pstate) (va : value) (sa : pstate) (vb : value) (sb : pstate),
  Star ustate scfg tcfg fcfg rcfg hk g A l x1 xs rf fds fds1 inner1 st v s va sa ->
  Stop ustate scfg tcfg fcfg rcfg hk g A l x1 xs rf fds fds1 inner1 st va sa ->
  Star ustate scfg tcfg fcfg rcfg hk g A l x1 xs rf fds fds1 inner1 st v s vb sb ->
  Stop ustate scfg tcfg fcfg rcfg hk g A l x1 xs rf fds fds1 inner1 st vb sb -> va = vb /\ Rst sa sb.
Proof. exact greedy_unique. Qed.
Print Assumptions C07_greedy_unique.

Theorem C07_closed_form_instance :
  forall st : pstate,
  ws_trivial g_sum rE rf_sum st ->
  forall (F : nat) (gl : glob unit) (r : mres value) (gl' : glob unit),
  cache_get nE (off st) (g_cache gl) = None ->
  ev_rule (run unit scfg_doc term_cfg_expected fields_cfg_doc rcfg_doc no_hooks g_sum F) nE st gl =
  (r, gl') ->
  match r with
  | MOk v s =>
      exists (v0 : value) (s0 : pstate),
        Bok unit scfg_doc term_cfg_expected fields_cfg_doc rcfg_doc no_hooks g_sum rE b_num [] rf_sum
          fds_sum st v0 s0 /\
        Star unit scfg_doc term_cfg_expected fields_cfg_doc rcfg_doc no_hooks g_sum rE nl x_plus [x_num]
          rf_sum fds_sum fds1_sum inner1_sum st v0 s0 v s /\
        Stop unit scfg_doc term_cfg_expected fields_cfg_doc rcfg_doc no_hooks g_sum rE nl x_plus [x_num]
          rf_sum fds_sum fds1_sum inner1_sum st v s
  | MErr _ =>
      Bfail unit scfg_doc term_cfg_expected fields_cfg_doc rcfg_doc no_hooks g_sum rE b_num [] rf_sum
        fds_sum st
  | _ => True
  end.
Proof. exact sum_closed_form. Qed.
Print Assumptions C07_closed_form_instance.

(* ---- several recursive alternatives first:  A = l1:A x1... | l2:A x2... | ... | b...  (UsualShapeN.v) ------
   e.g.  Expr = left:*Expr '+' n:Num | left:*Expr '-' n:Num | n:Num.  Provided nothing is skipped at the entry
   and the rests xi... refer to rules of a clean set only, the recursive field of EVERY recursive alternative
   evaluates to the loop's current best result: the body of a turn is `rec_loop` - on the seed turn every
   recursive alternative fails with the sentinel and the other alternatives are tried; on a growth turn the
   rests are tried in order from the previous result's end state with their field bound to the previous
   result, the first that matches is the turn's result, and when all fail the other alternatives are tried
   (C07_usualN_body, exact for every bound, hooks, tracer); C07_usualN_turn is the loop equation with that
   body; C07_usualN_instance: a grammar with '+' and '-' meets the hypotheses, 1-2+3 is ((1-2)+3). *)
Theorem C07_usualN_body :
  forall (ustate : Type) (scfg : state_cfg) (tcfg : term_cfg) (fcfg : fields_cfg) 
    (rcfg : rule_cfg) (hk : hooks ustate) (g : grammar) (A : rule),
  find_grule g (r_name A) = Some (GRule A) ->
  fl_left_recursive (flags_of (r_directives A)) = true ->
  forall (recs : list ralt) (balts : list expr) (al1 al2 : expr) (alr : list expr),
  map (ralt_e A) recs ++ balts = al1 :: al2 :: alr ->
  r_def A = adefN A recs balts ->
  forall rf fds : list fdesc,
  get_fields fcfg (gf_fuel g) g (adefN A recs balts) = GFOk rf ->
  filt fcfg g (actx A rf) (adefN A recs balts) = Some fds ->
  forall fds1_of inner_of : ralt -> list fdesc,
  (forall r : ralt,
   In r recs ->
   filt fcfg g (actx A rf) (ralt_e A r) = Some (fds1_of r) /\
   own_fields fcfg g (ralt_e A r) = Some (inner_of r)) ->
  forall clean : name -> bool,
  (forall n : name, clean n = true -> rule_clean g clean n) ->
  (forall (n : name) (r : rule),
   clean n = true -> find_rule g n = Some r -> eclean clean (r_def r) = true) ->
  clean n_Whitespace = true ->
  (forall r : ralt, In r recs -> lclean clean (ra_x1 r :: ra_xs r) = true) ->
  forall (k : nat) (st : pstate) (gl : glob ustate) (c : cached),
  ws_trivial g A rf st ->
  cache_get (r_name A) (off st) (g_cache gl) = Some c ->
  rule_body ustate scfg fcfg hk g (run ustate scfg tcfg fcfg rcfg hk g (S (S (S (S k))))) A st gl =
  finish ustate scfg hk A rf st
    (rec_loop ustate scfg tcfg fcfg rcfg hk g A balts rf fds fds1_of inner_of k c recs st gl).
Proof. exact usualN_body_eq. Qed.
Print Assumptions C07_usualN_body.

Theorem C07_usualN_turn :
  forall (ustate : Type) (scfg : state_cfg) (tcfg : term_cfg) (fcfg : fields_cfg) 
    (rcfg : rule_cfg) (hk : hooks ustate) (g : grammar) (A : rule),
  find_grule g (r_name A) = Some (GRule A) ->
  fl_left_recursive (flags_of (r_directives A)) = true ->
  forall (recs : list ralt) (balts : list expr) (al1 al2 : expr) (alr : list expr),
  map (ralt_e A) recs ++ balts = al1 :: al2 :: alr ->
  r_def A = adefN A recs balts ->
  forall rf fds : list fdesc,
  get_fields fcfg (gf_fuel g) g (adefN A recs balts) = GFOk rf ->
  filt fcfg g (actx A rf) (adefN A recs balts) = Some fds ->
  forall fds1_of inner_of : ralt -> list fdesc,
  (forall r : ralt,
   In r recs ->
   filt fcfg g (actx A rf) (ralt_e A r) = Some (fds1_of r) /\
   own_fields fcfg g (ralt_e A r) = Some (inner_of r)) ->
  forall clean : name -> bool,
  (forall n : name, clean n = true -> rule_clean g clean n) ->
  (forall (n : name) (r : rule),
   clean n = true -> find_rule g n = Some r -> eclean clean (r_def r) = true) ->
  clean n_Whitespace = true ->
  (forall r : ralt, In r recs -> lclean clean (ra_x1 r :: ra_xs r) = true) ->
  forall (k : nat) (st : pstate) (best : cached) (gl : glob ustate),
  ws_trivial g A rf st ->
  cache_get (r_name A) (off st) (g_cache gl) = Some best ->
  ev_grow (run ustate scfg tcfg fcfg rcfg hk g (S (S (S (S (S k)))))) A st best gl =
  (let (m, gl2) :=
     finish ustate scfg hk A rf st
       (rec_loop ustate scfg tcfg fcfg rcfg hk g A balts rf fds fds1_of inner_of k best recs st
          (trace ustate (TInfo 2) gl)) in
   match m with
   | MOk v st' =>
       match best with
       | COk _ bst =>
           if is_further_than scfg st' bst
           then
            ev_grow (run ustate scfg tcfg fcfg rcfg hk g (S (S (S (S k))))) A st 
              (COk v st') (cache_put ustate (r_name A) (off st) (COk v st') gl2)
           else (of_cached best, gl2)
       | CErr _ =>
           ev_grow (run ustate scfg tcfg fcfg rcfg hk g (S (S (S (S k))))) A st 
             (COk v st') (cache_put ustate (r_name A) (off st) (COk v st') gl2)
       end
   | MErr e =>
       if leftrec_closed rcfg
       then
        match best with
        | COk _ _ => (of_cached best, gl2)
        | CErr _ => (MErr e, cache_put ustate (r_name A) (off st) (CErr e) gl2)
        end
       else (MErr e, gl2)
   | MPanic p => (MPanic p, gl2)
   | MFuel => (MFuel, gl2)
   end).
Proof. exact usualN_turn. Qed.
Print Assumptions C07_usualN_turn.

Theorem C07_usualN_instance :
  forall (k : nat) (st : pstate) (gl : glob unit) (c : cached),
  ws_trivial g_pm rS rf_pm st ->
  cache_get nS (off st) (g_cache gl) = Some c ->
  rule_body unit scfg_doc fields_cfg_doc no_hooks g_pm
    (run unit scfg_doc term_cfg_expected fields_cfg_doc rcfg_doc no_hooks g_pm (S (S (S (S k))))) rS st
    gl =
  finish unit scfg_doc no_hooks rS rf_pm st
    (rec_loop unit scfg_doc term_cfg_expected fields_cfg_doc rcfg_doc no_hooks g_pm rS [b_num] rf_pm
       fds_pm fds1_pm inner_pm k c [ra_plus; ra_minus] st gl).
Proof. exact pm_is_usualN. Qed.
Print Assumptions C07_usualN_instance.

Theorem C07_usualN_instance_left_nested :
  exists st : pstate,
    fst
      (m_parse unit scfg_doc term_cfg_expected fields_cfg_doc rcfg_doc no_hooks g_pm 80 nS
         [49%N; 45%N; 50%N; 43%N; 51%N] tt) = MOk (nodeS (nodeS (leafS 49) 50) 51) st /\ 
    off st = 5.
Proof. exact pm_left_nested. Qed.
Print Assumptions C07_usualN_instance_left_nested.

(* ---- ... and the closed form for several recursive alternatives: the extension X tries the rests xi... in
   order (ordered choice) from the previous result's end state, each with its field bound to the previous
   result.  With the other alternatives over the clean set too, stateless hooks and the source's decision
   points: what the parse returns was produced by turns of `rec_loop` (C07_usualN_parse), X is a partial
   function of the position (C07_extensionN_is_a_function), the parse of A fails iff the base fails and
   otherwise returns the end of the unique chain  B X ... X  with strictly increasing offsets at which X fails
   or does not progress (C07_closed_formN, C07_greedyN_unique); C07_closed_formN_instance: the '+' / '-'
   grammar meets the hypotheses. *)
Theorem C07_usualN_parse :
  forall (ustate : Type) (scfg : state_cfg) (tcfg : term_cfg) (fcfg : fields_cfg) 
    (rcfg : rule_cfg) (hk : hooks ustate) (g : grammar) (A : rule),
  find_grule g (r_name A) = Some (GRule A) ->
  fl_left_recursive (flags_of (r_directives A)) = true ->
  forall (recs : list ralt) (balts : list expr) (al1 al2 : expr) (alr : list expr),
  map (ralt_e A) recs ++ balts = al1 :: al2 :: alr ->
  r_def A = adefN A recs balts ->
  forall rf fds : list fdesc,
  get_fields fcfg (gf_fuel g) g (adefN A recs balts) = GFOk rf ->
  filt fcfg g (actx A rf) (adefN A recs balts) = Some fds ->
  forall fds1_of inner_of : ralt -> list fdesc,
  (forall r : ralt,
   In r recs ->
   filt fcfg g (actx A rf) (ralt_e A r) = Some (fds1_of r) /\
   own_fields fcfg g (ralt_e A r) = Some (inner_of r)) ->
  forall clean : name -> bool,
  (forall n : name, clean n = true -> rule_clean g clean n) ->
  (forall (n : name) (r : rule),
   clean n = true -> find_rule g n = Some r -> eclean clean (r_def r) = true) ->
  clean n_Whitespace = true ->
  (forall r : ralt, In r recs -> lclean clean (ra_x1 r :: ra_xs r) = true) ->
  forall (r1 : ralt) (recs' : list ralt),
  recs = r1 :: recs' ->
  forall st : pstate,
  ws_trivial g A rf st ->
  forall (F : nat) (gl : glob ustate) (r : mres value) (gl' : glob ustate),
  cache_get (r_name A) (off st) (g_cache gl) = None ->
  ev_rule (run ustate scfg tcfg fcfg rcfg hk g F) (r_name A) st gl = (r, gl') ->
  let sentinel := CErr (report_error scfg st LeftRecursionSentinel) in
  match r with
  | MOk v s' =>
      ProducedN ustate scfg tcfg fcfg rcfg hk g A recs balts rf fds fds1_of inner_of st sentinel v s'
  | MErr e =>
      leftrec_closed rcfg = true ->
      exists (k : nat) (gl0 gl1 : glob ustate),
        bodyN ustate scfg tcfg fcfg rcfg hk g A recs balts rf fds fds1_of inner_of k st sentinel gl0 =
        (MErr e, gl1)
  | _ => True
  end.
Proof. exact usualN_parse. Qed.
Print Assumptions C07_usualN_parse.

Theorem C07_closed_formN :
  forall (ustate : Type) (scfg : state_cfg) (tcfg : term_cfg) (fcfg : fields_cfg) 
    (rcfg : rule_cfg) (hk : hooks ustate) (g : grammar) (A : rule),
  find_grule g (r_name A) = Some (GRule A) ->
  fl_left_recursive (flags_of (r_directives A)) = true ->
  forall (recs : list ralt) (balts : list expr) (al1 al2 : expr) (alr : list expr),
  map (ralt_e A) recs ++ balts = al1 :: al2 :: alr ->
  r_def A = adefN A recs balts ->
  forall rf fds : list fdesc,
  get_fields fcfg (gf_fuel g) g (adefN A recs balts) = GFOk rf ->
  filt fcfg g (actx A rf) (adefN A recs balts) = Some fds ->
  forall fds1_of inner_of : ralt -> list fdesc,
  (forall r : ralt,
   In r recs ->
   filt fcfg g (actx A rf) (ralt_e A r) = Some (fds1_of r) /\
   own_fields fcfg g (ralt_e A r) = Some (inner_of r)) ->
  forall clean : name -> bool,
  (forall n : name, clean n = true -> rule_clean g clean n) ->
  (forall (n : name) (r : rule),
   clean n = true -> find_rule g n = Some r -> eclean clean (r_def r) = true) ->
  clean n_Whitespace = true ->
  (forall r : ralt, In r recs -> lclean clean (ra_x1 r :: ra_xs r) = true) ->
  forall (r1 : ralt) (recs' : list ralt),
  recs = r1 :: recs' ->
  lclean clean balts = true ->
  (forall u u' : ustate, u = u') ->
  further_gt scfg = true ->
  leftrec_closed rcfg = true ->
  forall st : pstate,
  ws_trivial g A rf st ->
  forall (F : nat) (gl : glob ustate) (r : mres value) (gl' : glob ustate),
  cache_get (r_name A) (off st) (g_cache gl) = None ->
  ev_rule (run ustate scfg tcfg fcfg rcfg hk g F) (r_name A) st gl = (r, gl') ->
  match r with
  | MOk v s =>
      exists (v0 : value) (s0 : pstate),
        BokN ustate scfg tcfg fcfg rcfg hk g A balts rf fds st v0 s0 /\
        StarN ustate scfg tcfg fcfg rcfg hk g A recs rf fds fds1_of inner_of st v0 s0 v s /\
        StopN ustate scfg tcfg fcfg rcfg hk g A recs rf fds fds1_of inner_of st v s
  | MErr _ => BfailN ustate scfg tcfg fcfg rcfg hk g A balts rf fds st
  | _ => True
  end.
Proof. exact closed_formN. Qed.
Print Assumptions C07_closed_formN.

Theorem C07_extensionN_is_a_function :
  forall (ustate : Type) (scfg : state_cfg) (tcfg : term_cfg) (fcfg : fields_cfg) 
    (rcfg : rule_cfg) (hk : hooks ustate) (g : grammar) (A : rule) (recs : list ralt)
    (rf fds : list fdesc) (fds1_of inner_of : ralt -> list fdesc) (clean : name -> bool),
  (forall n : name, clean n = true -> rule_clean g clean n) ->
  (forall (n : name) (r : rule),
   clean n = true -> find_rule g n = Some r -> eclean clean (r_def r) = true) ->
  clean n_Whitespace = true ->
  (forall r : ralt, In r recs -> lclean clean (ra_x1 r :: ra_xs r) = true) ->
  (forall u u' : ustate, u = u') ->
  forall (st : pstate) (v : value) (s : pstate) (v1 : value) (s1 : pstate) (v2 : value) (s2 : pstate),
  XokN ustate scfg tcfg fcfg rcfg hk g A recs rf fds fds1_of inner_of st v s v1 s1 ->
  XokN ustate scfg tcfg fcfg rcfg hk g A recs rf fds fds1_of inner_of st v s v2 s2 ->
  v1 = v2 /\ Rst s1 s2.
Proof. exact XokN_fun. Qed.
Print Assumptions C07_extensionN_is_a_function.

Theorem C07_greedyN_unique :
  forall (ustate : Type) (scfg : state_cfg) (tcfg : term_cfg) (fcfg : fields_cfg) 
    (rcfg : rule_cfg) (hk : hooks ustate) (g : grammar) (A : rule) (recs : list ralt),
  list expr ->
  forall (rf fds : list fdesc) (fds1_of inner_of : ralt -> list fdesc),
  (forall r : ralt,
   In r recs ->
   filt fcfg g (actx A rf) (ralt_e A r) = Some (fds1_of r) /\
   own_fields fcfg g (ralt_e A r) = Some (inner_of r)) ->
  forall clean : name -> bool,
  (forall n : name, clean n = true -> rule_clean g clean n) ->
  (forall (n : name) (r : rule),
   clean n = true -> find_rule g n = Some r -> eclean clean (r_def r) = true) ->
  clean n_Whitespace = true ->
  (forall r : ralt, In r recs -> lclean clean (ra_x1 r :: ra_xs r) = true) ->
  ralt ->
  (forall u u' : ustate, u = u') ->
  forall (st : pstate) (v : value) (s : pstate) (va : value) (sa : pstate) (vb : value) (sb : pstate),
  StarN ustate scfg tcfg fcfg rcfg hk g A recs rf fds fds1_of inner_of st v s va sa ->
  StopN ustate scfg tcfg fcfg rcfg hk g A recs rf fds fds1_of inner_of st va sa ->
  StarN ustate scfg tcfg fcfg rcfg hk g A recs rf fds fds1_of inner_of st v s vb sb ->
  StopN ustate scfg tcfg fcfg rcfg hk g A recs rf fds fds1_of inner_of st vb sb -> va = vb /\ Rst sa sb.
Proof. exact greedyN_unique. Qed.
Print Assumptions C07_greedyN_unique.

Theorem C07_closed_formN_instance :
  forall st : pstate,
  ws_trivial g_pm rS rf_pm st ->
  forall (F : nat) (gl : glob unit) (r : mres value) (gl' : glob unit),
  cache_get nS (off st) (g_cache gl) = None ->
  ev_rule (run unit scfg_doc term_cfg_expected fields_cfg_doc rcfg_doc no_hooks g_pm F) nS st gl =
  (r, gl') ->
  match r with
  | MOk v s =>
      exists (v0 : value) (s0 : pstate),
        BokN unit scfg_doc term_cfg_expected fields_cfg_doc rcfg_doc no_hooks g_pm rS [b_num] rf_pm
          fds_pm st v0 s0 /\
        StarN unit scfg_doc term_cfg_expected fields_cfg_doc rcfg_doc no_hooks g_pm rS
          [ra_plus; ra_minus] rf_pm fds_pm fds1_pm inner_pm st v0 s0 v s /\
        StopN unit scfg_doc term_cfg_expected fields_cfg_doc rcfg_doc no_hooks g_pm rS
          [ra_plus; ra_minus] rf_pm fds_pm fds1_pm inner_pm st v s
  | MErr _ =>
      BfailN unit scfg_doc term_cfg_expected fields_cfg_doc rcfg_doc no_hooks g_pm rS [b_num] rf_pm
        fds_pm st
  | _ => True
  end.
Proof. exact pm_closed_form. Qed.
Print Assumptions C07_closed_formN_instance.

(* ---- recursion through a plain rule - the style of the documentation and of the repository's calculator
   example:  @leftrec A = @:P | b...   P = l:*A x...   (Indirect.v over the generic growth loop of GrowLoop.v).
   Provided nothing is skipped between the entry of A and the recursive field of P, that field evaluates to
   the current best result of A's loop: the body of a turn is `indirect_body` - P's rest x... from the previous
   result's end with l bound to the previous result, P's own value built from it and handed to A through `@:`;
   when that fails, the other alternatives of A (C07_indirect_body, exact for every bound, hooks, tracer,
   cache); what A's parse returns was produced by such turns, each strictly further, stopped because one more
   turn did not get further (C07_indirect_parse).  Instance  X = @:A | @:N; A = l:*X '+' r:N : 1+2+3 nests to
   the left; entered before a blank, " 1+2" gives 1 (the known finding, C07_indirect_refuted_before_whitespace). *)
Theorem C07_indirect_body :
  forall (ustate : Type) (scfg : state_cfg) (tcfg : term_cfg) (fcfg : fields_cfg) 
    (rcfg : rule_cfg) (hk : hooks ustate) (g : grammar) (A P : rule) (l : name) 
    (bx : bool) (x1 : expr) (xs : list expr) (b1 : expr) (balts : list expr),
  r_def A = idef P b1 balts ->
  r_def P = pdef A l bx x1 xs ->
  find_grule g (r_name A) = Some (GRule A) ->
  find_grule g (r_name P) = Some (GRule P) ->
  fl_left_recursive (flags_of (r_directives A)) = true ->
  fl_left_recursive (flags_of (r_directives P)) = false ->
  fl_memoize (flags_of (r_directives P)) = false ->
  forall rfA fdsA innerA1 rfP fdsP1 : list fdesc,
  get_fields fcfg (gf_fuel g) g (idef P b1 balts) = GFOk rfA ->
  get_fields fcfg (gf_fuel g) g (pdef A l bx x1 xs) = GFOk rfP ->
  filt fcfg g (actx A rfA) (idef P b1 balts) = Some fdsA ->
  own_fields fcfg g (ialt1 P) = Some innerA1 ->
  filt fcfg g (actx P rfP) (palt A l bx x1 xs) = Some fdsP1 ->
  forall (k : nat) (st : pstate) (gl : glob ustate) (c : cached),
  Wi g A P rfA rfP st ->
  cache_get (r_name A) (off st) (g_cache gl) = Some c ->
  rule_body ustate scfg fcfg hk g (run ustate scfg tcfg fcfg rcfg hk g (8 + k)) A st gl =
  indirect_body ustate scfg tcfg fcfg rcfg hk g A P l x1 xs b1 balts rfA fdsA innerA1 rfP fdsP1 k st c
    gl.
Proof. exact indirect_body_eq. Qed.
Print Assumptions C07_indirect_body.

Theorem C07_indirect_parse :
  forall (ustate : Type) (scfg : state_cfg) (tcfg : term_cfg) (fcfg : fields_cfg) 
    (rcfg : rule_cfg) (hk : hooks ustate) (g : grammar) (A P : rule) (l : name) 
    (bx : bool) (x1 : expr) (xs : list expr) (b1 : expr) (balts : list expr),
  r_def A = idef P b1 balts ->
  r_def P = pdef A l bx x1 xs ->
  find_grule g (r_name A) = Some (GRule A) ->
  find_grule g (r_name P) = Some (GRule P) ->
  fl_left_recursive (flags_of (r_directives A)) = true ->
  fl_left_recursive (flags_of (r_directives P)) = false ->
  fl_memoize (flags_of (r_directives P)) = false ->
  forall rfA fdsA innerA1 rfP fdsP1 : list fdesc,
  get_fields fcfg (gf_fuel g) g (idef P b1 balts) = GFOk rfA ->
  get_fields fcfg (gf_fuel g) g (pdef A l bx x1 xs) = GFOk rfP ->
  filt fcfg g (actx A rfA) (idef P b1 balts) = Some fdsA ->
  own_fields fcfg g (ialt1 P) = Some innerA1 ->
  filt fcfg g (actx P rfP) (palt A l bx x1 xs) = Some fdsP1 ->
  forall st : pstate,
  Wi g A P rfA rfP st ->
  forall (F : nat) (gl : glob ustate) (r : mres value) (gl' : glob ustate),
  cache_get (r_name A) (off st) (g_cache gl) = None ->
  ev_rule (run ustate scfg tcfg fcfg rcfg hk g F) (r_name A) st gl = (r, gl') ->
  let sentinel := CErr (report_error scfg st LeftRecursionSentinel) in
  match r with
  | MOk v s' =>
      IProduced ustate scfg tcfg fcfg rcfg hk g A P l x1 xs b1 balts rfA fdsA innerA1 rfP fdsP1 st
        sentinel v s'
  | MErr e =>
      leftrec_closed rcfg = true ->
      exists (k : nat) (gl0 gl1 : glob ustate),
        indirect_body ustate scfg tcfg fcfg rcfg hk g A P l x1 xs b1 balts rfA fdsA innerA1 rfP fdsP1 k
          st sentinel gl0 = (MErr e, gl1)
  | _ => True
  end.
Proof. exact indirect_parse. Qed.
Print Assumptions C07_indirect_parse.

Theorem C07_indirect_instance :
  forall (k : nat) (st : pstate) (gl : glob unit) (c : cached),
  Wi g_ind rX rAd rfX rfAd st ->
  cache_get nX (off st) (g_cache gl) = Some c ->
  rule_body unit scfg_doc fields_cfg_doc no_hooks g_ind
    (run unit scfg_doc term_cfg_expected fields_cfg_doc rcfg_doc no_hooks g_ind (8 + k)) rX st gl =
  indirect_body unit scfg_doc term_cfg_expected fields_cfg_doc rcfg_doc no_hooks g_ind rX rAd nl x_plus
    [x_rnum] b_onum [] rfX fdsX innerX1 rfAd fdsAd1 k st c gl.
Proof. exact ind_is_indirect. Qed.
Print Assumptions C07_indirect_instance.

Theorem C07_indirect_instance_left_nested :
  exists st : pstate,
    fst
      (m_parse unit scfg_doc term_cfg_expected fields_cfg_doc rcfg_doc no_hooks g_ind 90 nX
         [49%N; 43%N; 50%N; 43%N; 51%N] tt) = MOk (addv (addv (VEnum nN (VStr [49%N])) 50) 51) st /\
    off st = 5.
Proof. exact ind_left_nested. Qed.
Print Assumptions C07_indirect_instance_left_nested.

Theorem C07_indirect_refuted_before_whitespace :
  exists st : pstate,
    fst
      (m_parse unit scfg_doc term_cfg_expected fields_cfg_doc rcfg_doc no_hooks g_ind 90 nX
         [32%N; 49%N; 43%N; 50%N] tt) = MOk (VEnum nN (VStr [49%N])) st /\ off st = 2.
Proof. exact ind_leading_blank_refuted. Qed.
Print Assumptions C07_indirect_refuted_before_whitespace.

(* ---- ... and its closed form (GrowLoop.greedy_closed_form instantiated): with P's rest and A's other
   alternatives over a clean set, stateless hooks and the source's decision points, the parse of A fails iff
   the base fails and otherwise returns the end of the unique chain  B X ... X  (X: P's rest from the previous
   result's end with l bound to it, P's value handed to A through `@:`) with strictly increasing offsets at
   which X fails or does not progress (C07_indirect_closed_form, C07_indirect_greedy_unique);
   C07_indirect_closed_form_instance: the hypotheses are met by  X = @:A | @:N; A = l:*X '+' r:N. *)
Theorem C07_indirect_closed_form :
  forall (ustate : Type) (scfg : state_cfg) (tcfg : term_cfg) (fcfg : fields_cfg) 
    (rcfg : rule_cfg) (hk : hooks ustate) (g : grammar) (A P : rule) (l : name) 
    (bx : bool) (x1 : expr) (xs : list expr) (b1 : expr) (balts : list expr),
  r_def A = idef P b1 balts ->
  r_def P = pdef A l bx x1 xs ->
  find_grule g (r_name A) = Some (GRule A) ->
  find_grule g (r_name P) = Some (GRule P) ->
  fl_left_recursive (flags_of (r_directives A)) = true ->
  fl_left_recursive (flags_of (r_directives P)) = false ->
  fl_memoize (flags_of (r_directives P)) = false ->
  forall rfA fdsA innerA1 rfP fdsP1 : list fdesc,
  get_fields fcfg (gf_fuel g) g (idef P b1 balts) = GFOk rfA ->
  get_fields fcfg (gf_fuel g) g (pdef A l bx x1 xs) = GFOk rfP ->
  filt fcfg g (actx A rfA) (idef P b1 balts) = Some fdsA ->
  own_fields fcfg g (ialt1 P) = Some innerA1 ->
  filt fcfg g (actx P rfP) (palt A l bx x1 xs) = Some fdsP1 ->
  forall clean : name -> bool,
  (forall n : name, clean n = true -> rule_clean g clean n) ->
  (forall (n : name) (r : rule),
   clean n = true -> find_rule g n = Some r -> eclean clean (r_def r) = true) ->
  clean n_Whitespace = true ->
  lclean clean (x1 :: xs) = true ->
  lclean clean (b1 :: balts) = true ->
  (forall u u' : ustate, u = u') ->
  further_gt scfg = true ->
  leftrec_closed rcfg = true ->
  forall st : pstate,
  Wi g A P rfA rfP st ->
  forall (F : nat) (gl : glob ustate) (r : mres value) (gl' : glob ustate),
  cache_get (r_name A) (off st) (g_cache gl) = None ->
  ev_rule (run ustate scfg tcfg fcfg rcfg hk g F) (r_name A) st gl = (r, gl') ->
  match r with
  | MOk v s =>
      exists (v0 : value) (s0 : pstate),
        Bok ustate scfg tcfg fcfg rcfg hk g A b1 balts rfA fdsA st v0 s0 /\
        StarI ustate scfg tcfg fcfg rcfg hk g A P l x1 xs rfA fdsA innerA1 rfP fdsP1 st v0 s0 v s /\
        StopI ustate scfg tcfg fcfg rcfg hk g A P l x1 xs rfA fdsA innerA1 rfP fdsP1 st v s
  | MErr _ => Bfail ustate scfg tcfg fcfg rcfg hk g A b1 balts rfA fdsA st
  | _ => True
  end.
Proof. exact indirect_closed_form. Qed.
Print Assumptions C07_indirect_closed_form.

Theorem C07_indirect_greedy_unique :
  forall (ustate : Type) (scfg : state_cfg) (tcfg : term_cfg) (fcfg : fields_cfg) 
    (rcfg : rule_cfg) (hk : hooks ustate) (g : grammar) (A P : rule) (l : name) 
    (bx : bool) (x1 : expr) (xs : list expr) (b1 : expr) (balts : list expr),
  r_def A = idef P b1 balts ->
  r_def P = pdef A l bx x1 xs ->
  find_grule g (r_name A) = Some (GRule A) ->
  find_grule g (r_name P) = Some (GRule P) ->
  fl_left_recursive (flags_of (r_directives A)) = true ->
  fl_left_recursive (flags_of (r_directives P)) = false ->
  fl_memoize (flags_of (r_directives P)) = false ->
  forall rfA fdsA innerA1 rfP fdsP1 : list fdesc,
  get_fields fcfg (gf_fuel g) g (idef P b1 balts) = GFOk rfA ->
  get_fields fcfg (gf_fuel g) g (pdef A l bx x1 xs) = GFOk rfP ->
  filt fcfg g (actx A rfA) (idef P b1 balts) = Some fdsA ->
  own_fields fcfg g (ialt1 P) = Some innerA1 ->
  filt fcfg g (actx P rfP) (palt A l bx x1 xs) = Some fdsP1 ->
  forall clean : name -> bool,
  (forall n : name, clean n = true -> rule_clean g clean n) ->
  (forall (n : name) (r : rule),
   clean n = true -> find_rule g n = Some r -> eclean clean (r_def r) = true) ->
  clean n_Whitespace = true ->
  lclean clean (x1 :: xs) = true ->
  lclean clean (b1 :: balts) = true ->
  (forall u u' : ustate, u = u') ->
  forall (st : pstate) (v : value) (s : pstate) (va : value) (sa : pstate) (vb : value) (sb : pstate),
  StarI ustate scfg tcfg fcfg rcfg hk g A P l x1 xs rfA fdsA innerA1 rfP fdsP1 st v s va sa ->
  StopI ustate scfg tcfg fcfg rcfg hk g A P l x1 xs rfA fdsA innerA1 rfP fdsP1 st va sa ->
  StarI ustate scfg tcfg fcfg rcfg hk g A P l x1 xs rfA fdsA innerA1 rfP fdsP1 st v s vb sb ->
  StopI ustate scfg tcfg fcfg rcfg hk g A P l x1 xs rfA fdsA innerA1 rfP fdsP1 st vb sb ->
  va = vb /\ Rst sa sb.
Proof. exact indirect_greedy_unique. Qed.
Print Assumptions C07_indirect_greedy_unique.

Theorem C07_indirect_closed_form_instance :
  forall st : pstate,
  Wi g_ind rX rAd rfX rfAd st ->
  forall (F : nat) (gl : glob unit) (r : mres value) (gl' : glob unit),
  cache_get nX (off st) (g_cache gl) = None ->
  ev_rule (run unit scfg_doc term_cfg_expected fields_cfg_doc rcfg_doc no_hooks g_ind F) nX st gl =
  (r, gl') ->
  match r with
  | MOk v s =>
      exists (v0 : value) (s0 : pstate),
        Bok unit scfg_doc term_cfg_expected fields_cfg_doc rcfg_doc no_hooks g_ind rX b_onum [] rfX fdsX
          st v0 s0 /\
        StarI unit scfg_doc term_cfg_expected fields_cfg_doc rcfg_doc no_hooks g_ind rX rAd nl x_plus
          [x_rnum] rfX fdsX innerX1 rfAd fdsAd1 st v0 s0 v s /\
        StopI unit scfg_doc term_cfg_expected fields_cfg_doc rcfg_doc no_hooks g_ind rX rAd nl x_plus
          [x_rnum] rfX fdsX innerX1 rfAd fdsAd1 st v s
  | MErr _ =>
      Bfail unit scfg_doc term_cfg_expected fields_cfg_doc rcfg_doc no_hooks g_ind rX b_onum [] rfX fdsX
        st
  | _ => True
  end.
Proof. exact ind_closed_form. Qed.
Print Assumptions C07_indirect_closed_form_instance.
