(* C07 — @leftrec rules terminate and build the left-nested tree of the longest growth. *)
From PegV Require Import Utf8 State Terminals Syntax Fields Literals Model FuelMono Leftrec Extracted.

Theorem C07_facts :
  further_gt Extracted.scfg = true /\ leftrec_closed Extracted.rcfg = true /\
  Extracted.file_codegen_src_rule_rs = true /\ Extracted.file_runtime_src_state_rs = true /\
  Extracted.file_runtime_src_error_rs = true.
Proof. repeat split; reflexivity. Qed.
Print Assumptions C07_facts.

(* the algorithm: one turn of the loop re-evaluates the body with the cache entry of
   (rule, offset) standing for the previous result, keeps the new result and goes on iff
   it reaches strictly further, and otherwise returns the best result so far *)
Theorem C07_grow : forall ustate scfg tcfg fcfg rcfg hk g m r st best gl,
  ev_grow (run ustate scfg tcfg fcfg rcfg hk g (S m)) r st best gl =
  match rule_body ustate scfg fcfg hk g (run ustate scfg tcfg fcfg rcfg hk g m) r st (trace ustate (TInfo 2) gl) with
  | (MOk v st', gl2) =>
    match best with
    | COk _ bst =>
      if is_further_than scfg st' bst
      then ev_grow (run ustate scfg tcfg fcfg rcfg hk g m) r st (COk v st')
                   (cache_put ustate (r_name r) (off st) (COk v st') gl2)
      else (of_cached best, gl2)
    | CErr _ => ev_grow (run ustate scfg tcfg fcfg rcfg hk g m) r st (COk v st')
                        (cache_put ustate (r_name r) (off st) (COk v st') gl2)
    end
  | (MErr e, gl2) =>
    if leftrec_closed rcfg then
      match best with
      | COk _ _ => (of_cached best, gl2)
      | CErr _ => (MErr e, cache_put ustate (r_name r) (off st) (CErr e) gl2)
      end
    else (MErr e, gl2)
  | (MPanic p, gl2) => (MPanic p, gl2)
  | (MFuel, gl2) => (MFuel, gl2)
  end.
Proof. intros. apply grow_turn. Qed.
Print Assumptions C07_grow.

(* termination of the loop: with the strict progress test found in the source, given that
   the evaluations of the rule body return (from fuel n on) and never reach beyond offset L
   (the input length, C04), the loop returns within L + 3 further fuel levels, i.e. after
   at most L - off(seed) + 2 turns *)
Theorem C07_bound : forall ustate tcfg fcfg rcfg hk g (r : rule) (st : pstate) (n L : nat) gl e,
  (forall m gl, n <= m ->
     nofuel ustate (rule_body ustate Extracted.scfg fcfg hk g (run ustate Extracted.scfg tcfg fcfg rcfg hk g m) r st gl)) ->
  (forall m gl v st',
     fst (rule_body ustate Extracted.scfg fcfg hk g (run ustate Extracted.scfg tcfg fcfg rcfg hk g m) r st gl) = MOk v st' ->
     off st' <= L) ->
  nofuel ustate (ev_grow (run ustate Extracted.scfg tcfg fcfg rcfg hk g (n + S (S (S L)))) r st (CErr e) gl).
Proof. intros. apply leftrec_returns; auto. Qed.
Print Assumptions C07_bound.

(* more fuel never changes a result that was obtained *)
Theorem C07_fuel_monotone : forall ustate scfg tcfg fcfg rcfg hk g n m rule_name input u,
  n <= m -> nofuel ustate (m_parse ustate scfg tcfg fcfg rcfg hk g n rule_name input u) ->
  m_parse ustate scfg tcfg fcfg rcfg hk g m rule_name input u = m_parse ustate scfg tcfg fcfg rcfg hk g n rule_name input u.
Proof. intros. apply m_parse_mono; auto. Qed.
Print Assumptions C07_fuel_monotone.
