(* C07 — @leftrec rules terminate and build the left-nested tree of the longest growth. *)
From PegV Require Import Utf8 State Terminals Syntax Fields Literals Model FuelMono Leftrec Extracted.
From PegV Require WellFormed LRTerm.

Theorem C07_facts :
  further_gt Extracted.scfg = true /\ leftrec_closed Extracted.rcfg = true /\
  Extracted.file_codegen_src_rule_rs = true /\ Extracted.file_runtime_src_state_rs = true /\
  Extracted.file_runtime_src_error_rs = true.
Proof. repeat split; reflexivity. Qed.
Print Assumptions C07_facts.

(* the algorithm: one turn of the loop re-evaluates the body with the cache entry of
   (rule, offset) standing for the previous result, keeps the new result and goes on iff
   it reaches strictly further, and otherwise returns the best result so far *)
Theorem C07_grow : forall ustate scfg tcfg fcfg rcfg hk g m r st best gl,
  ev_grow (run ustate scfg tcfg fcfg rcfg hk g (S m)) r st best gl =
  match rule_body ustate scfg fcfg hk g (run ustate scfg tcfg fcfg rcfg hk g m) r st (trace ustate (TInfo 2) gl) with
  | (MOk v st', gl2) =>
    match best with
    | COk _ bst =>
      if is_further_than scfg st' bst
      then ev_grow (run ustate scfg tcfg fcfg rcfg hk g m) r st (COk v st')
                   (cache_put ustate (r_name r) (off st) (COk v st') gl2)
      else (of_cached best, gl2)
    | CErr _ => ev_grow (run ustate scfg tcfg fcfg rcfg hk g m) r st (COk v st')
                        (cache_put ustate (r_name r) (off st) (COk v st') gl2)
    end
  | (MErr e, gl2) =>
    if leftrec_closed rcfg then
      match best with
      | COk _ _ => (of_cached best, gl2)
      | CErr _ => (MErr e, cache_put ustate (r_name r) (off st) (CErr e) gl2)
      end
    else (MErr e, gl2)
  | (MPanic p, gl2) => (MPanic p, gl2)
  | (MFuel, gl2) => (MFuel, gl2)
  end.
Proof. intros. apply grow_turn. Qed.
Print Assumptions C07_grow.

(* termination of the loop: with the strict progress test found in the source, given that
   the evaluations of the rule body return (from fuel n on) and never reach beyond offset L
   (the input length, C04), the loop returns within L + 3 further fuel levels, i.e. after
   at most L - off(seed) + 2 turns *)
Theorem C07_bound : forall ustate tcfg fcfg rcfg hk g (r : rule) (st : pstate) (n L : nat) gl e,
  (forall m gl, n <= m ->
     nofuel ustate (rule_body ustate Extracted.scfg fcfg hk g (run ustate Extracted.scfg tcfg fcfg rcfg hk g m) r st gl)) ->
  (forall m gl v st',
     fst (rule_body ustate Extracted.scfg fcfg hk g (run ustate Extracted.scfg tcfg fcfg rcfg hk g m) r st gl) = MOk v st' ->
     off st' <= L) ->
  nofuel ustate (ev_grow (run ustate Extracted.scfg tcfg fcfg rcfg hk g (n + S (S (S L)))) r st (CErr e) gl).
Proof. intros. apply leftrec_returns; auto. Qed.
Print Assumptions C07_bound.

(* more fuel never changes a result that was obtained *)
Theorem C07_fuel_monotone : forall ustate scfg tcfg fcfg rcfg hk g n m rule_name input u,
  n <= m -> nofuel ustate (m_parse ustate scfg tcfg fcfg rcfg hk g n rule_name input u) ->
  m_parse ustate scfg tcfg fcfg rcfg hk g m rule_name input u = m_parse ustate scfg tcfg fcfg rcfg hk g n rule_name input u.
Proof. intros. apply m_parse_mono; auto. Qed.
Print Assumptions C07_fuel_monotone.

(* ---- "Parsing a rule marked @leftrec terminates on every input" -------------------------------
   For EVERY grammar in the property's quantifier - left recursion goes through @leftrec rules only
   (direct, or indirect through other rules), no closure over a body that can succeed without
   consuming; decided by the checkable certificate LRTerm.wf_check_lr, which is WellFormed.wf_check
   with references to @leftrec rules exempt from the rank condition - with any rules @memoize, any
   number of @leftrec rules nested or at the same position, arbitrary stateful hooks, every rule and
   every input (valid UTF-8 or not): the model of the generated parser returns, with a result that
   no longer depends on the recursion bound from some bound on.  Measure: remaining input, number of
   @leftrec rules not yet open at the position, rank, size; each growth loop by the strict progress
   test (fact further_gt) and the stored seed (fact leftrec_closed). *)
Theorem C07_terminates :
  forall (ustate : Type) (tcfg : term_cfg) (fcfg : fields_cfg) (hk : hooks ustate) (g : grammar)
         (nul : name -> bool) (rk : WellFormed.runit -> nat),
    LRTerm.wf_check_lr g nul rk = true ->
    forall rule_name input u,
    exists F x, fst x <> MFuel /\
      forall f, F <= f -> m_parse ustate Extracted.scfg tcfg fcfg Extracted.rcfg hk g f rule_name input u = x.
Proof.
  intros ustate tcfg fcfg hk g nul rk W.
  exact (LRTerm.lr_terminates ustate Extracted.scfg tcfg fcfg Extracted.rcfg hk g nul rk W eq_refl eq_refl).
Qed.
Print Assumptions C07_terminates.

(* the certificate is computed and then checked; a calculator with two @leftrec rules passes,
   the same grammar without the marker does not *)
Theorem C07_well_formed_terminates :
  forall (ustate : Type) (tcfg : term_cfg) (fcfg : fields_cfg) (hk : hooks ustate) (g : grammar),
    LRTerm.well_formed_lr g = true ->
    forall rule_name input u,
    exists F x, fst x <> MFuel /\
      forall f, F <= f -> m_parse ustate Extracted.scfg tcfg fcfg Extracted.rcfg hk g f rule_name input u = x.
Proof.
  intros ustate tcfg fcfg hk g W.
  exact (LRTerm.well_formed_lr_terminates ustate Extracted.scfg tcfg fcfg Extracted.rcfg hk g W eq_refl eq_refl).
Qed.
Print Assumptions C07_well_formed_terminates.

Theorem C07_instances :
  LRTerm.well_formed_lr LRTerm.g_calc = true /\ LRTerm.well_formed_lr LRTerm.g_calc_unmarked = false.
Proof. split; [exact LRTerm.calc_well_formed_lr|exact LRTerm.unmarked_not_well_formed_lr]. Qed.
Print Assumptions C07_instances.
