(* C18 — Build-script compilation leaves the destination matching the current grammar. *)
From PegV Require Import Utf8 BuildScript BuildScriptOk Extracted.

Theorem C18_facts :
  Extracted.file_codegen_src_buildscript_rs = true /\ Extracted.file_codegen_src_header_rs = true /\
  Extracted.file_codegen_build_rs = true.
Proof. repeat split; reflexivity. Qed.
Print Assumptions C18_facts.

(* a run that fails (unreadable or invalid grammar) returns an error and leaves the
   destination and the write counter exactly as they were *)
Theorem C18_failed_run : forall hdr compile fmt c s s',
  run hdr compile fmt c s = (RErr, s') -> s' = s.
Proof. exact failed_run_untouched. Qed.
Print Assumptions C18_failed_run.

Theorem C18_unreadable : forall hdr compile fmt c s,
  gfile s = None -> run hdr compile fmt c s = (RErr, s).
Proof. exact unreadable_fails. Qed.
Print Assumptions C18_unreadable.

Theorem C18_invalid : forall hdr compile fmt c s g,
  gfile s = Some g -> compile g = None ->
  match dest s with Some d => up_to_date hdr c g d = false | None => True end ->
  run hdr compile fmt c s = (RErr, s).
Proof. exact invalid_fails. Qed.
Print Assumptions C18_invalid.

(* The header has a fixed width (version, build time and the two checksums are printed with fixed
   widths) and rustfmt leaves the leading comment lines alone: then a destination already produced
   from the same grammar, prefix and library is left untouched - with or without formatting, and also
   when formatting was switched on or off in between. *)
Theorem C18_idempotent : forall hdr compile fmt,
  (forall g p g' p', length (hdr g p) = length (hdr g' p')) ->
  (forall c g code, firstn (length (source_header hdr c g)) (fmt (content hdr c g code)) = source_header hdr c g) ->
  forall c c' s s1, prefix c' = prefix c ->
    run hdr compile fmt c s = (ROk, s1) -> run hdr compile fmt c' s1 = (ROk, s1).
Proof. intros hdr compile fmt Hlen Hfmt c c' s s1. exact (idempotent_other_format hdr compile fmt Hlen Hfmt c c' s s1). Qed.
Print Assumptions C18_idempotent.

(* after a successful run: either the compilation of the grammar as it is now was
   written, or the destination already started with the expected header *)
Theorem C18_ok : forall hdr compile fmt c s s1,
  run hdr compile fmt c s = (ROk, s1) ->
  (fresh hdr compile fmt c s1 /\ writes s1 = S (writes s)) \/
  (s1 = s /\ exists g d, gfile s = Some g /\ dest s = Some d /\ up_to_date hdr c g d = true).
Proof. exact ok_fresh_or_shortcut. Qed.
Print Assumptions C18_ok.

(* Freshness over histories.  If moreover the header identifies grammar text and prefix (no
   CRC-32 collision among the texts in play - the one way left to fool the test, recorded as a
   known finding and shown below), then whatever sequence of grammar edits, prefix changes,
   formatting changes, destination deletions and earlier runs (failed or not) preceded it, after a
   successful run the destination is the compilation of the grammar file as it is now: header,
   prefix, code. *)
Theorem C18_fresh : forall hdr compile fmt,
  (forall g p g' p', length (hdr g p) = length (hdr g' p')) ->
  (forall c g code, firstn (length (source_header hdr c g)) (fmt (content hdr c g code)) = source_header hdr c g) ->
  (forall g p g' p', hdr g p = hdr g' p' -> g = g' /\ p = p') ->
  forall ops c0 g0 c s s',
    exec hdr compile fmt ops (c0, {| gfile := g0; dest := None; writes := 0 |}) = (c, s) ->
    run hdr compile fmt c s = (ROk, s') -> fresh hdr compile fmt c s'.
Proof.
  intros hdr compile fmt Hlen Hfmt Hinj ops c0 g0 c s s' E R.
  exact (fresh_after_history hdr compile fmt Hlen Hfmt Hinj ops c0 {| gfile := g0; dest := None; writes := 0 |} c s s' I E R).
Qed.
Print Assumptions C18_fresh.

(* without that hypothesis (KNOWN FINDING c18:crc-collision): two texts with the same header leave
   the compilation of the old text in place *)
Theorem C18_fresh_refuted_by_collision : forall hdr compile fmt g g' p code,
  hdr g p = hdr g' p -> compile g = Some code ->
  let c := {| prefix := p; format := false |} in
  let s0 := {| gfile := Some g; dest := None; writes := 0 |} in
  let s2 := snd (exec hdr compile fmt [ORun; OEdit (Some g'); ORun] (c, s0)) in
  gfile s2 = Some g' /\ dest s2 = Some (content hdr c g code) /\ writes s2 = 1.
Proof. exact stale_after_collision. Qed.
Print Assumptions C18_fresh_refuted_by_collision.

(* the algorithm before the repair (header without the prefix checksum, up-to-date test on header
   + prefix text): changing the prefix to a proper prefix of the old one left the old destination
   in place - for every header function *)
Theorem C18_refuted_before_fix : forall compile hdr_old g code p q,
  compile g = Some code -> q <> [] ->
  let c0 := {| prefix := p ++ q; format := false |} in
  let c1 := {| prefix := p; format := false |} in
  let s0 := {| gfile := Some g; dest := None; writes := 0 |} in
  let s1 := {| gfile := Some g; dest := Some (output_old hdr_old c0 g code); writes := 1 |} in
  run_old compile hdr_old c0 s0 = (ROk, s1) /\
  run_old compile hdr_old c1 s1 = (ROk, s1) /\
  output_old hdr_old c0 g code <> output_old hdr_old c1 g code.
Proof. exact old_stale_after_prefix_shrink. Qed.
Print Assumptions C18_refuted_before_fix.

(* ---- directory mode: the entries of the directory in listing order, the walk stops at the first
   error.  A successful run compiled (or found fresh) EVERY grammar of the directory; any invalid or
   unreadable grammar makes the run fail; what precedes the failing entry was compiled, the failing
   entry and what follows it are untouched.  A walk that goes on and returns the last entry's result
   is refuted. *)
Theorem C18_directory_ok : forall hdr compile fmt c entries entries',
  run_dir hdr compile fmt true c entries = (ROk, entries') ->
  Forall2 (fun s s' => run hdr compile fmt c s = (ROk, s')) entries entries'.
Proof. exact dir_ok_all. Qed.
Print Assumptions C18_directory_ok.

Theorem C18_directory_fails : forall hdr compile fmt c entries s,
  In s entries -> fst (run hdr compile fmt c s) = RErr -> fst (run_dir hdr compile fmt true c entries) = RErr.
Proof. exact dir_fails_on_any_failure. Qed.
Print Assumptions C18_directory_fails.

Theorem C18_directory_failure_untouched : forall hdr compile fmt c entries entries',
  run_dir hdr compile fmt true c entries = (RErr, entries') ->
  exists pre pre' s post, entries = pre ++ s :: post /\ entries' = pre' ++ s :: post /\
    Forall2 (fun a a' => run hdr compile fmt c a = (ROk, a')) pre pre' /\ fst (run hdr compile fmt c s) = RErr.
Proof. exact dir_err_some. Qed.
Print Assumptions C18_directory_failure_untouched.

Theorem C18_directory_walk_on_refuted : forall hdr compile fmt c bad good good',
  fst (run hdr compile fmt c bad) = RErr -> run hdr compile fmt c good = (ROk, good') ->
  fst (run_dir hdr compile fmt false c [bad; good]) = ROk /\ fst (run_dir hdr compile fmt true c [bad; good]) = RErr.
Proof. exact dir_walk_on_refuted. Qed.
Print Assumptions C18_directory_walk_on_refuted.
