(* C18 — Build-script compilation leaves the destination matching the current grammar. *)
From PegV Require Import Utf8 BuildScript BuildScriptOk Extracted.

Theorem C18_facts :
  Extracted.file_codegen_src_buildscript_rs = true /\ Extracted.file_codegen_src_header_rs = true /\
  Extracted.file_codegen_build_rs = true.
Proof. repeat split; reflexivity. Qed.
Print Assumptions C18_facts.

(* a run that fails (unreadable or invalid grammar) returns an error and leaves the
   destination and the write counter exactly as they were *)
Theorem C18_failed_run : forall hdr compile fmt c s s',
  run hdr compile fmt c s = (RErr, s') -> s' = s.
Proof. exact failed_run_untouched. Qed.
Print Assumptions C18_failed_run.

Theorem C18_unreadable : forall hdr compile fmt c s,
  gfile s = None -> run hdr compile fmt c s = (RErr, s).
Proof. exact unreadable_fails. Qed.
Print Assumptions C18_unreadable.

Theorem C18_invalid : forall hdr compile fmt c s g,
  gfile s = Some g -> compile g = None ->
  match dest s with Some d => up_to_date hdr c g d = false | None => True end ->
  run hdr compile fmt c s = (RErr, s).
Proof. exact invalid_fails. Qed.
Print Assumptions C18_invalid.

(* a destination already produced from the same grammar, prefix and library is left untouched *)
Theorem C18_idempotent : forall hdr compile fmt c s s1,
  format c = false -> run hdr compile fmt c s = (ROk, s1) -> run hdr compile fmt c s1 = (ROk, s1).
Proof. exact idempotent. Qed.
Print Assumptions C18_idempotent.

(* after a successful run: either the compilation of the grammar as it is now was
   written, or the destination already started with the expected header and prefix *)
Theorem C18_ok : forall hdr compile fmt c s s1,
  run hdr compile fmt c s = (ROk, s1) ->
  (fresh hdr compile fmt c s1 /\ writes s1 = S (writes s)) \/
  (s1 = s /\ exists g d, gfile s = Some g /\ dest s = Some d /\ up_to_date hdr c g d = true).
Proof. exact ok_fresh_or_shortcut. Qed.
Print Assumptions C18_ok.

(* freshness, provided no earlier destination can pass the header+prefix test for
   another (grammar, prefix) *)
Theorem C18_fresh_partial : forall hdr compile fmt c s s1,
  run hdr compile fmt c s = (ROk, s1) ->
  (forall g d code, gfile s = Some g -> dest s = Some d -> compile g = Some code ->
                    up_to_date hdr c g d = true -> d = output hdr fmt c g code) ->
  fresh hdr compile fmt c s1.
Proof. exact fresh_if_no_confusion. Qed.
Print Assumptions C18_fresh_partial.

(* the unconditional statement is false (KNOWN FINDING): changing the prefix to a
   proper prefix of the old one leaves the old destination in place *)
Theorem C18_fresh_refuted : forall hdr compile fmt g code p q,
  compile g = Some code -> q <> [] ->
  let c0 := {| prefix := p ++ q; format := false |} in
  let c1 := {| prefix := p; format := false |} in
  let s0 := {| gfile := Some g; dest := None; writes := 0 |} in
  let '(c, s) := exec hdr compile fmt [ORun; OPrefix p; ORun] (c0, s0) in
  c = c1 /\ dest s = Some (output hdr fmt c0 g code) /\ writes s = 1 /\ ~ fresh hdr compile fmt c1 s.
Proof. exact stale_after_prefix_shrink. Qed.
Print Assumptions C18_fresh_refuted.
