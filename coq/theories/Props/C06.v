(* C06 — A memoized rule body runs at most once per input position (packrat bound). *)
From PegV Require Import Utf8 State Terminals Syntax Fields Literals Model Inv Memo Extracted.
From PegV Require WellFormed Once.

Theorem C06_facts :
  memo_closed Extracted.rcfg = true /\ Extracted.file_codegen_src_rule_rs = true /\
  Extracted.file_runtime_src_state_rs = true.
Proof. repeat split; reflexivity. Qed.
Print Assumptions C06_facts.

(* For every grammar, hooks and evaluators: once a call of a memoized rule at
   (R, offset) has returned - Ok or Err - the cache has an entry for it ... *)
Theorem C06_entry_after_return : forall ustate scfg fcfg hk g (ev : evals ustate) r st gl,
  is_memo r ->
  match memo_wrap ustate scfg fcfg Extracted.rcfg hk g ev r st gl with
  | (MOk _ _, gl') | (MErr _, gl') => has_entry ustate (r_name r) (off st) gl'
  | _ => True
  end.
Proof. intros. apply memo_entry_after; auto. Qed.
Print Assumptions C06_entry_after_return.

(* ... entries are never removed, and a body evaluation of (R, offset) is only ever
   started when there is no entry for (R, offset): for any rule call inside a parse,
   everything logged in g_evals between its start and its end had no entry at its start *)
Theorem C06_no_evaluation_with_entry : forall ustate scfg tcfg fcfg rcfg hk g n nm st gl,
  grows ustate gl (snd (ev_rule (run ustate scfg tcfg fcfg rcfg hk g n) nm st gl)).
Proof. intros. apply cache_invariant. Qed.
Print Assumptions C06_no_evaluation_with_entry.

(* a hit evaluates nothing *)
Theorem C06_hit_evaluates_nothing : forall ustate scfg fcfg rcfg hk g (ev : evals ustate) r st gl c,
  is_memo r -> cache_get (r_name r) (off st) (g_cache gl) = Some c ->
  g_evals (snd (memo_wrap ustate scfg fcfg rcfg hk g ev r st gl)) = g_evals gl /\
  g_cache (snd (memo_wrap ustate scfg fcfg rcfg hk g ev r st gl)) = g_cache gl /\
  g_user (snd (memo_wrap ustate scfg fcfg rcfg hk g ev r st gl)) = g_user gl.
Proof. intros. eapply memo_hit_evaluates_nothing; eauto. Qed.
Print Assumptions C06_hit_evaluates_nothing.

(* with the wrapper shape of the pinned source before the fix (body's early exits skip the
   insert) a failing evaluation leaves no entry: the statement above is false *)
Theorem C06_refuted_unwrapped : forall ustate scfg fcfg hk g (ev : evals ustate) r st gl e gl',
  is_memo r -> cache_get (r_name r) (off st) (g_cache gl) = None ->
  rule_body ustate scfg fcfg hk g ev r st (log_eval ustate (r_name r, off st) gl) = (MErr e, gl') ->
  memo_wrap ustate scfg fcfg {| memo_closed := false; leftrec_closed := false; insens_guard := true |} hk g ev r st gl
  = (MErr e, gl').
Proof. intros. rewrite memo_miss by auto. rewrite H1. reflexivity. Qed.
Print Assumptions C06_refuted_unwrapped.

(* ---- the packrat bound itself -------------------------------------------------------------
   For EVERY grammar that passes the well-formedness check of C01 (no left recursion, no closure
   over a body that can succeed without consuming) and has no @leftrec rule, any subset of rules
   marked @memoize, arbitrary - also stateful - check and extern functions, every setting of the
   other decision points, every rule, input and recursion bound: when the parse returns, the log of
   started body evaluations of memoized rules has no duplicate - no memoized body ran twice at one
   offset, succeeding or failing -, every entry is a memoized rule of the grammar at an offset
   inside the input, hence there are at most (memoized rules) x (input length + 1) of them.
   (memo_closed: the wrapper stores failures too - the fact regenerated from rule.rs; without it
   the statement is refuted by C06_refuted_unwrapped.)  The proof walks every template with the
   invariant: an evaluation entered at offset p in a context of rank bound k only starts
   evaluations at offsets > p, or at p for rules of rank < k - never the ones in progress. *)
Theorem C06_at_most_once :
  forall (ustate : Type) (scfg : state_cfg) (tcfg : term_cfg) (fcfg : fields_cfg) (hk : hooks ustate)
         (g : grammar) (nul : name -> bool) (rk : WellFormed.runit -> nat),
    WellFormed.wf_check g nul rk = true ->
    (forall r, In (GRule r) g -> fl_left_recursive (flags_of (r_directives r)) = false) ->
    forall n rule_name input u,
    match m_parse ustate scfg tcfg fcfg Extracted.rcfg hk g n rule_name input u with
    | (MOk _ _, gl') | (MErr _, gl') =>
      NoDup (g_evals gl') /\
      Forall (fun e => In (fst e) (Once.mnames g) /\ snd e <= length input) (g_evals gl') /\
      length (g_evals gl') <= length (Once.mnames g) * S (length input)
    | _ => True
    end.
Proof.
  intros ustate scfg tcfg fcfg hk g nul rk W NoLR.
  exact (Once.at_most_once ustate scfg tcfg fcfg Extracted.rcfg hk g nul rk W NoLR eq_refl).
Qed.
Print Assumptions C06_at_most_once.
