(* C06 — A memoized rule body runs at most once per input position (packrat bound). *)
From PegV Require Import Utf8 State Terminals Syntax Fields Literals Model Inv Memo Extracted.
From PegV Require WellFormed OnceWF Once OnceExamples CleanFrame.

Theorem C06_facts :
  memo_closed Extracted.rcfg = true /\ Extracted.file_codegen_src_rule_rs = true /\
  Extracted.file_runtime_src_state_rs = true.
Proof. repeat split; reflexivity. Qed.
Print Assumptions C06_facts.

(* For every grammar, hooks and evaluators: once a call of a memoized rule at
   (R, offset) has returned - Ok or Err - the cache has an entry for it ... *)
Theorem C06_entry_after_return : forall ustate scfg fcfg hk g (ev : evals ustate) r st gl,
  is_memo r ->
  match memo_wrap ustate scfg fcfg Extracted.rcfg hk g ev r st gl with
  | (MOk _ _, gl') | (MErr _, gl') => has_entry ustate (r_name r) (off st) gl'
  | _ => True
  end.
Proof. intros. apply memo_entry_after; auto. Qed.
Print Assumptions C06_entry_after_return.

(* ... entries are never removed, and a body evaluation of (R, offset) is only ever
   started when there is no entry for (R, offset): for any rule call inside a parse,
   everything logged in g_evals between its start and its end had no entry at its start *)
Theorem C06_no_evaluation_with_entry : forall ustate scfg tcfg fcfg rcfg hk g n nm st gl,
  grows ustate gl (snd (ev_rule (run ustate scfg tcfg fcfg rcfg hk g n) nm st gl)).
Proof. intros. apply cache_invariant. Qed.
Print Assumptions C06_no_evaluation_with_entry.

(* a hit evaluates nothing *)
Theorem C06_hit_evaluates_nothing : forall ustate scfg fcfg rcfg hk g (ev : evals ustate) r st gl c,
  is_memo r -> cache_get (r_name r) (off st) (g_cache gl) = Some c ->
  g_evals (snd (memo_wrap ustate scfg fcfg rcfg hk g ev r st gl)) = g_evals gl /\
  g_cache (snd (memo_wrap ustate scfg fcfg rcfg hk g ev r st gl)) = g_cache gl /\
  g_user (snd (memo_wrap ustate scfg fcfg rcfg hk g ev r st gl)) = g_user gl.
Proof. intros. eapply memo_hit_evaluates_nothing; eauto. Qed.
Print Assumptions C06_hit_evaluates_nothing.

(* with the wrapper shape of the pinned source before the fix (body's early exits skip the
   insert) a failing evaluation leaves no entry: the statement above is false *)
Theorem C06_refuted_unwrapped : forall ustate scfg fcfg hk g (ev : evals ustate) r st gl e gl',
  is_memo r -> cache_get (r_name r) (off st) (g_cache gl) = None ->
  rule_body ustate scfg fcfg hk g ev r st (log_eval ustate (r_name r, off st) gl) = (MErr e, gl') ->
  memo_wrap ustate scfg fcfg {| memo_closed := false; leftrec_closed := false; insens_guard := true |} hk g ev r st gl
  = (MErr e, gl').
Proof. intros. rewrite memo_miss by auto. rewrite H1. reflexivity. Qed.
Print Assumptions C06_refuted_unwrapped.

(* ---- the packrat bound itself -------------------------------------------------------------
   For EVERY grammar that passes the well-formedness check of C01 (no left recursion, no closure
   over a body that can succeed without consuming) and has no @leftrec rule, any subset of rules
   marked @memoize, arbitrary - also stateful - check and extern functions, every setting of the
   other decision points, every rule, input and recursion bound: when the parse returns, the log of
   started body evaluations of memoized rules has no duplicate - no memoized body ran twice at one
   offset, succeeding or failing -, every entry is a memoized rule of the grammar at an offset
   inside the input, hence there are at most (memoized rules) x (input length + 1) of them.
   (memo_closed: the wrapper stores failures too - the fact regenerated from rule.rs; without it
   the statement is refuted by C06_refuted_unwrapped.)  The proof walks every template with the
   invariant: an evaluation entered at offset p in a context of rank bound k only starts
   evaluations at offsets > p, or at p for rules of rank < k - never the ones in progress. *)
Theorem C06_at_most_once :
  forall (ustate : Type) (scfg : state_cfg) (tcfg : term_cfg) (fcfg : fields_cfg) (hk : hooks ustate)
         (g : grammar) (nul : name -> bool) (rk : WellFormed.runit -> nat),
    WellFormed.wf_check g nul rk = true ->
    (forall r, In (GRule r) g -> fl_left_recursive (flags_of (r_directives r)) = false) ->
    forall n rule_name input u,
    match m_parse ustate scfg tcfg fcfg Extracted.rcfg hk g n rule_name input u with
    | (MOk _ _, gl') | (MErr _, gl') =>
      NoDup (g_evals gl') /\
      Forall (fun e => In (fst e) (Once.mnames g) /\ snd e <= length input) (g_evals gl') /\
      length (g_evals gl') <= length (Once.mnames g) * S (length input)
    | _ => True
    end.
Proof.
  intros ustate scfg tcfg fcfg hk g nul rk W NoLR.
  exact (Once.at_most_once ustate scfg tcfg fcfg Extracted.rcfg hk g nul rk W NoLR eq_refl).
Qed.
Print Assumptions C06_at_most_once.

(* ---- grammars with @leftrec rules ---------------------------------------------------------
   The quantifier of the property allows @leftrec rules beside the memoized ones.  The bound holds
   for every grammar with a certificate that passes OnceWF.wf_check_onceX: the ranks of C01 refined
   by the set X of @leftrec rules that are open at the current offset (their calls there are
   answered from the cache - sentinel or seed - and start nothing).  A unit of recursion is a
   pair (X, call or include); entering a @leftrec rule adds it to X for its body, consuming a
   character empties X; ranks may depend on X - the plain rule `Add = left:*Expr ...` is entered
   with Expr open and without - except that a memoized rule has ONE rank over all contexts in
   which it is demanded.  The growth loop re-runs the body at the same offset: the memoized
   rules it reaches there were entered on the first turn and are hits on every later one.
   Without @leftrec rules X is always empty and the certificate is the one of C01
   (C06_at_most_once is the corollary). *)
Theorem C06_at_most_once_lr :
  forall (ustate : Type) (scfg : state_cfg) (tcfg : term_cfg) (fcfg : fields_cfg) (hk : hooks ustate)
         (g : grammar) (nul : name -> bool) (rkX : list name -> WellFormed.runit -> nat) (U : list OnceWF.xunit),
    OnceWF.wf_check_onceX g nul rkX U = true ->
    forall n rule_name input u, OnceWF.memU U [] (WellFormed.UCall rule_name) = true ->
    match m_parse ustate scfg tcfg fcfg Extracted.rcfg hk g n rule_name input u with
    | (MOk _ _, gl') | (MErr _, gl') =>
      NoDup (g_evals gl') /\
      Forall (fun e => In (fst e) (Once.mnames g) /\ snd e <= length input) (g_evals gl') /\
      length (g_evals gl') <= length (Once.mnames g) * S (length input)
    | _ => True
    end.
Proof.
  intros ustate scfg tcfg fcfg hk g nul rkX U W.
  exact (Once.at_most_once_lr ustate scfg tcfg fcfg Extracted.rcfg hk g nul rkX U W eq_refl).
Qed.
Print Assumptions C06_at_most_once_lr.

(* the computed certificate: a grammar is an instance, for each of its rules as the start rule, as
   soon as OnceWF.well_formed_once_all says so (the harness evaluates the extracted function on
   every stream grammar) *)
Theorem C06_certified_instances :
  forall (ustate : Type) (scfg : state_cfg) (tcfg : term_cfg) (fcfg : fields_cfg) (hk : hooks ustate) (g : grammar),
    OnceWF.well_formed_once_all g = true ->
    forall n rule_name input u, In rule_name (map grule_name g) ->
    match m_parse ustate scfg tcfg fcfg Extracted.rcfg hk g n rule_name input u with
    | (MOk _ _, gl') | (MErr _, gl') => NoDup (g_evals gl')
    | _ => True
    end.
Proof.
  intros ustate scfg tcfg fcfg hk g W n rule_name input u Hin. unfold OnceWF.well_formed_once_all in W.
  apply andb_prop in W. destruct W as [W1 W2]. unfold OnceWF.well_formed_once in W1.
  apply in_map_iff in Hin. destruct Hin as (gr & <- & Hin). rewrite forallb_forall in W2. specialize (W2 gr Hin).
  pose proof (C06_at_most_once_lr ustate scfg tcfg fcfg hk g _ _ _ W1 n (grule_name gr) input u W2) as H.
  destruct (m_parse ustate scfg tcfg fcfg Extracted.rcfg hk g n (grule_name gr) input u) as [[v st|e|p|] gl']; try exact I; tauto.
Qed.
Print Assumptions C06_certified_instances.

(* not vacuous: left-recursive E over memoized T and N is certified, and so is the usual peginator
   way of writing left recursion - through a plain rule - with memoized operands ... *)
Theorem C06_lr_memo_certified :
  OnceWF.well_formed_once_all OnceExamples.g_lr_memo = true /\ OnceWF.well_formed_once_all OnceExamples.g_style = true.
Proof. split; [exact OnceExamples.lr_memo_certified|exact OnceExamples.style_certified]. Qed.
Print Assumptions C06_lr_memo_certified.

(* ... and the certificate is what separates the known finding c06:reentrant-through-leftrec:
   @memoize M = a:A 'm' | 'k';  @leftrec A = m:*M 'x' | 'b';  is rejected, and on it the bound fails
   in the model exactly as in the generated parser (M's body is started twice at offset 0 on "bm").
   The same happens when the plain rule of the usual style is memoized and the input starts with
   a blank (Add's body is started twice at offset 1 on " 1+2"). *)
Theorem C06_reentrant_not_certified :
  OnceWF.well_formed_once OnceExamples.g_reentrant = false /\ OnceWF.well_formed_once OnceExamples.g_style_memo_add = false.
Proof. split; [exact OnceExamples.reentrant_not_certified|exact OnceExamples.style_memo_add_not_certified]. Qed.
Print Assumptions C06_reentrant_not_certified.

Theorem C06_refuted_through_leftrec :
  (exists v st gl, OnceExamples.run_reentrant [98; 109]%N = (MOk v st, gl) /\ ~ NoDup (g_evals gl)) /\
  (exists v st gl, OnceExamples.run_doc OnceExamples.g_style_memo_add [69; 120; 112; 114]%N [32; 49; 43; 50]%N = (MOk v st, gl) /\
                   ~ NoDup (g_evals gl)).
Proof. split; [exact OnceExamples.reentrant_evaluated_twice|exact OnceExamples.style_memo_add_evaluated_twice]. Qed.
Print Assumptions C06_refuted_through_leftrec.

(* ---- only marked rules use the cache ---------------------------------------------------------------
   For every set of rule names closed under reference that contains no @memoize / @leftrec rule
   (CleanFrame.v), every rule of the set, every bound, stateful hooks: the call leaves the cache exactly
   as it found it, and its result does not depend on the cache it is started with (nor on the callback
   list or the ghost logs): the packrat table is written and read by the wrappers of marked rules only. *)
Theorem C06_unmarked_rules_leave_the_cache :
  forall (ustate : Type) (scfg : state_cfg) (tcfg : term_cfg) (fcfg : fields_cfg)
         (rcfg : rule_cfg) (hk : hooks ustate) (g : grammar) (clean : name -> bool),
    (forall n : name, clean n = true -> CleanFrame.rule_clean g clean n) ->
    (forall (n : name) (r : rule),
       clean n = true -> find_rule g n = Some r -> CleanFrame.eclean clean (r_def r) = true) ->
    clean n_Whitespace = true ->
    forall (n : nat) (nm : name) (st : pstate) (gl : glob ustate),
      clean nm = true ->
      g_cache (snd (ev_rule (run ustate scfg tcfg fcfg rcfg hk g n) nm st gl)) = g_cache gl.
Proof. exact CleanFrame.clean_cache_untouched. Qed.
Print Assumptions C06_unmarked_rules_leave_the_cache.

Theorem C06_unmarked_rules_ignore_the_cache :
  forall (ustate : Type) (scfg : state_cfg) (tcfg : term_cfg) (fcfg : fields_cfg)
         (rcfg : rule_cfg) (hk : hooks ustate) (g : grammar) (clean : name -> bool),
    (forall n : name, clean n = true -> CleanFrame.rule_clean g clean n) ->
    (forall (n : name) (r : rule),
       clean n = true -> find_rule g n = Some r -> CleanFrame.eclean clean (r_def r) = true) ->
    clean n_Whitespace = true ->
    forall (n : nat) (nm : name) (st : pstate) (a b : glob ustate),
      clean nm = true -> g_user a = g_user b ->
      CleanFrame.Rres (fst (ev_rule (run ustate scfg tcfg fcfg rcfg hk g n) nm st a))
                      (fst (ev_rule (run ustate scfg tcfg fcfg rcfg hk g n) nm st b)).
Proof. exact CleanFrame.clean_ignores_cache. Qed.
Print Assumptions C06_unmarked_rules_ignore_the_cache.
