(* C06 — A memoized rule body runs at most once per input position (packrat bound). *)
From PegV Require Import Utf8 State Terminals Syntax Fields Literals Model Inv Memo Extracted.
From PegV Require WellFormed OnceWF Once OnceExamples.

Theorem C06_facts :
  memo_closed Extracted.rcfg = true /\ Extracted.file_codegen_src_rule_rs = true /\
  Extracted.file_runtime_src_state_rs = true.
Proof. repeat split; reflexivity. Qed.
Print Assumptions C06_facts.

(* For every grammar, hooks and evaluators: once a call of a memoized rule at
   (R, offset) has returned - Ok or Err - the cache has an entry for it ... *)
Theorem C06_entry_after_return : forall ustate scfg fcfg hk g (ev : evals ustate) r st gl,
  is_memo r ->
  match memo_wrap ustate scfg fcfg Extracted.rcfg hk g ev r st gl with
  | (MOk _ _, gl') | (MErr _, gl') => has_entry ustate (r_name r) (off st) gl'
  | _ => True
  end.
Proof. intros. apply memo_entry_after; auto. Qed.
Print Assumptions C06_entry_after_return.

(* ... entries are never removed, and a body evaluation of (R, offset) is only ever
   started when there is no entry for (R, offset): for any rule call inside a parse,
   everything logged in g_evals between its start and its end had no entry at its start *)
Theorem C06_no_evaluation_with_entry : forall ustate scfg tcfg fcfg rcfg hk g n nm st gl,
  grows ustate gl (snd (ev_rule (run ustate scfg tcfg fcfg rcfg hk g n) nm st gl)).
Proof. intros. apply cache_invariant. Qed.
Print Assumptions C06_no_evaluation_with_entry.

(* a hit evaluates nothing *)
Theorem C06_hit_evaluates_nothing : forall ustate scfg fcfg rcfg hk g (ev : evals ustate) r st gl c,
  is_memo r -> cache_get (r_name r) (off st) (g_cache gl) = Some c ->
  g_evals (snd (memo_wrap ustate scfg fcfg rcfg hk g ev r st gl)) = g_evals gl /\
  g_cache (snd (memo_wrap ustate scfg fcfg rcfg hk g ev r st gl)) = g_cache gl /\
  g_user (snd (memo_wrap ustate scfg fcfg rcfg hk g ev r st gl)) = g_user gl.
Proof. intros. eapply memo_hit_evaluates_nothing; eauto. Qed.
Print Assumptions C06_hit_evaluates_nothing.

(* with the wrapper shape of the pinned source before the fix (body's early exits skip the
   insert) a failing evaluation leaves no entry: the statement above is false *)
Theorem C06_refuted_unwrapped : forall ustate scfg fcfg hk g (ev : evals ustate) r st gl e gl',
  is_memo r -> cache_get (r_name r) (off st) (g_cache gl) = None ->
  rule_body ustate scfg fcfg hk g ev r st (log_eval ustate (r_name r, off st) gl) = (MErr e, gl') ->
  memo_wrap ustate scfg fcfg {| memo_closed := false; leftrec_closed := false; insens_guard := true |} hk g ev r st gl
  = (MErr e, gl').
Proof. intros. rewrite memo_miss by auto. rewrite H1. reflexivity. Qed.
Print Assumptions C06_refuted_unwrapped.

(* ---- the packrat bound itself -------------------------------------------------------------
   For EVERY grammar that passes the well-formedness check of C01 (no left recursion, no closure
   over a body that can succeed without consuming) and has no @leftrec rule, any subset of rules
   marked @memoize, arbitrary - also stateful - check and extern functions, every setting of the
   other decision points, every rule, input and recursion bound: when the parse returns, the log of
   started body evaluations of memoized rules has no duplicate - no memoized body ran twice at one
   offset, succeeding or failing -, every entry is a memoized rule of the grammar at an offset
   inside the input, hence there are at most (memoized rules) x (input length + 1) of them.
   (memo_closed: the wrapper stores failures too - the fact regenerated from rule.rs; without it
   the statement is refuted by C06_refuted_unwrapped.)  The proof walks every template with the
   invariant: an evaluation entered at offset p in a context of rank bound k only starts
   evaluations at offsets > p, or at p for rules of rank < k - never the ones in progress. *)
Theorem C06_at_most_once :
  forall (ustate : Type) (scfg : state_cfg) (tcfg : term_cfg) (fcfg : fields_cfg) (hk : hooks ustate)
         (g : grammar) (nul : name -> bool) (rk : WellFormed.runit -> nat),
    WellFormed.wf_check g nul rk = true ->
    (forall r, In (GRule r) g -> fl_left_recursive (flags_of (r_directives r)) = false) ->
    forall n rule_name input u,
    match m_parse ustate scfg tcfg fcfg Extracted.rcfg hk g n rule_name input u with
    | (MOk _ _, gl') | (MErr _, gl') =>
      NoDup (g_evals gl') /\
      Forall (fun e => In (fst e) (Once.mnames g) /\ snd e <= length input) (g_evals gl') /\
      length (g_evals gl') <= length (Once.mnames g) * S (length input)
    | _ => True
    end.
Proof.
  intros ustate scfg tcfg fcfg hk g nul rk W NoLR.
  exact (Once.at_most_once ustate scfg tcfg fcfg Extracted.rcfg hk g nul rk W NoLR eq_refl).
Qed.
Print Assumptions C06_at_most_once.

(* ---- grammars with @leftrec rules ---------------------------------------------------------
   The quantifier of the property allows @leftrec rules beside the memoized ones.  The bound holds
   for every grammar that passes OnceWF.wf_check_once: the certificate of C01 in which the body of a
   @leftrec rule is ranked like every other body, except that the rule's own name inside its own body
   needs no rank - while the rule is open at an offset its own calls there are answered from the
   cache (sentinel or seed) and start nothing.  The growth loop re-runs the body at the same
   offset: the memoized rules it reaches there were entered on the first turn and are hits on
   every later one.  Without @leftrec rules the check is WellFormed.wf_check (C06_at_most_once is
   this theorem's corollary). *)
Theorem C06_at_most_once_lr :
  forall (ustate : Type) (scfg : state_cfg) (tcfg : term_cfg) (fcfg : fields_cfg) (hk : hooks ustate)
         (g : grammar) (nul : name -> bool) (rk : WellFormed.runit -> nat),
    OnceWF.wf_check_once g nul rk = true ->
    forall n rule_name input u,
    match m_parse ustate scfg tcfg fcfg Extracted.rcfg hk g n rule_name input u with
    | (MOk _ _, gl') | (MErr _, gl') =>
      NoDup (g_evals gl') /\
      Forall (fun e => In (fst e) (Once.mnames g) /\ snd e <= length input) (g_evals gl') /\
      length (g_evals gl') <= length (Once.mnames g) * S (length input)
    | _ => True
    end.
Proof.
  intros ustate scfg tcfg fcfg hk g nul rk W.
  exact (Once.at_most_once_lr ustate scfg tcfg fcfg Extracted.rcfg hk g nul rk W eq_refl).
Qed.
Print Assumptions C06_at_most_once_lr.

(* the computed certificate: a grammar is an instance as soon as OnceWF.well_formed_once says so
   (the harness evaluates the extracted function on every stream grammar) *)
Theorem C06_certified_instances :
  forall (ustate : Type) (scfg : state_cfg) (tcfg : term_cfg) (fcfg : fields_cfg) (hk : hooks ustate) (g : grammar),
    OnceWF.well_formed_once g = true ->
    forall n rule_name input u,
    match m_parse ustate scfg tcfg fcfg Extracted.rcfg hk g n rule_name input u with
    | (MOk _ _, gl') | (MErr _, gl') => NoDup (g_evals gl')
    | _ => True
    end.
Proof.
  intros ustate scfg tcfg fcfg hk g W n rule_name input u. unfold OnceWF.well_formed_once in W.
  pose proof (C06_at_most_once_lr ustate scfg tcfg fcfg hk g _ _ W n rule_name input u) as H.
  destruct (m_parse ustate scfg tcfg fcfg Extracted.rcfg hk g n rule_name input u) as [[v st|e|p|] gl']; try exact I; tauto.
Qed.
Print Assumptions C06_certified_instances.

(* not vacuous: left-recursive E over memoized T and N is certified ... *)
Theorem C06_lr_memo_certified : OnceWF.well_formed_once OnceExamples.g_lr_memo = true.
Proof. exact OnceExamples.lr_memo_certified. Qed.
Print Assumptions C06_lr_memo_certified.

(* ... and the certificate is what separates the known finding c06:reentrant-through-leftrec:
   @memoize M = a:A 'm' | 'k';  @leftrec A = m:*M 'x' | 'b';  is rejected, and on it the bound fails
   in the model exactly as in the generated parser (M's body is started twice at offset 0 on "bm") *)
Theorem C06_reentrant_not_certified : OnceWF.well_formed_once OnceExamples.g_reentrant = false.
Proof. exact OnceExamples.reentrant_not_certified. Qed.
Print Assumptions C06_reentrant_not_certified.

Theorem C06_refuted_through_leftrec :
  exists v st gl, OnceExamples.run_reentrant [98; 109]%N = (MOk v st, gl) /\ ~ NoDup (g_evals gl).
Proof. exact OnceExamples.reentrant_evaluated_twice. Qed.
Print Assumptions C06_refuted_through_leftrec.
