(* C05 — @memoize never changes what is accepted or the tree that is returned. *)
From PegV Require Import Utf8 State Terminals Syntax Fields Literals Model Inv Memo Spec Sim Conform ConformX Extracted.

Theorem C05_facts :
  Extracted.file_codegen_src_rule_rs = true /\ Extracted.file_codegen_src_grammar_mod_rs = true /\
  Extracted.file_runtime_src_state_rs = true /\ Extracted.file_runtime_src_global_rs = true /\
  Extracted.scan_shared_state = true.
Proof. repeat split; reflexivity. Qed.
Print Assumptions C05_facts.

(* the wrapper: a hit returns exactly the stored result and touches nothing but the
   tracer log; a miss returns exactly the body's result and stores it *)
Theorem C05_hit : forall ustate scfg fcfg rcfg hk g (ev : evals ustate) r st gl c,
  is_memo r -> cache_get (r_name r) (off st) (g_cache gl) = Some c ->
  memo_wrap ustate scfg fcfg rcfg hk g ev r st gl = (of_cached c, trace ustate (TInfo 0) gl).
Proof. intros. apply memo_hit; auto. Qed.
Print Assumptions C05_hit.

Theorem C05_miss : forall ustate scfg fcfg hk g (ev : evals ustate) r st gl,
  is_memo r -> cache_get (r_name r) (off st) (g_cache gl) = None ->
  fst (memo_wrap ustate scfg fcfg Extracted.rcfg hk g ev r st gl) =
  fst (rule_body ustate scfg fcfg hk g ev r st (log_eval ustate (r_name r, off st) gl)).
Proof.
  intros. rewrite memo_miss by auto.
  destruct (rule_body _ _ _ _ _ _ r st _) as [[v st'|e|p|] gl']; reflexivity.
Qed.
Print Assumptions C05_miss.

(* (whether failing results are stored at all is C06's concern: memo_closed) *)
Theorem C05_stores_what_it_returns : forall ustate scfg fcfg rcfg hk g (ev : evals ustate) r st gl,
  is_memo r -> memo_closed rcfg = true -> cache_get (r_name r) (off st) (g_cache gl) = None ->
  match memo_wrap ustate scfg fcfg rcfg hk g ev r st gl with
  | (MOk v st', gl') => cache_get (r_name r) (off st) (g_cache gl') = Some (COk v st')
  | (MErr e, gl') => cache_get (r_name r) (off st) (g_cache gl') = Some (CErr e)
  | _ => True
  end.
Proof. intros. apply memo_stores_result; auto. Qed.
Print Assumptions C05_stores_what_it_returns.

(* every parse call starts from an empty cache *)
Theorem C05_fresh : forall ustate scfg tcfg fcfg rcfg hk g fuel r input (u : ustate),
  m_parse ustate scfg tcfg fcfg rcfg hk g fuel r input u =
  ev_rule (run ustate scfg tcfg fcfg rcfg hk g fuel) r (init_state input) (init_glob ustate u) /\
  g_cache (init_glob ustate u) = [].
Proof. intros. split; reflexivity. Qed.
Print Assumptions C05_fresh.

(* without markers the model IS the PEG specification (C01); the specification never
   looks at @memoize, so it is the common reference of a grammar and of the grammar
   with its markers removed.  (The global transparency theorem for the marked
   grammar - cache soundness across the whole run - is not proved yet: partial.) *)
Theorem C05_unmarked_reference :
  forall (ustate : Type) (hk : hooks ustate) (shk : shooks) (g : grammar),
    pure_hooks ustate hk shk -> plain_grammar g ->
    forall fuel rule_name cs u, all_scalar cs ->
      conforms cs
        (fst (m_parse ustate Extracted.scfg Extracted.tcfg Extracted.fcfg Extracted.rcfg hk g
                      fuel rule_name (encode_str cs) u))
        (s_parse Extracted.fcfg shk g true fuel rule_name cs).
Proof. exact conform_x. Qed.
Print Assumptions C05_unmarked_reference.
