(* C05 — @memoize never changes what is accepted or the tree that is returned. *)
From PegV Require Import Utf8 State Terminals Syntax Fields Literals Model Inv Memo MemoEq Spec Sim Conform ConformX Extracted.
From PegV Require Import MemoTot.
From PegV Require LocalConform LocalExamples OnceExamples.

Theorem C05_facts :
  Extracted.file_codegen_src_rule_rs = true /\ Extracted.file_codegen_src_grammar_mod_rs = true /\
  Extracted.file_runtime_src_state_rs = true /\ Extracted.file_runtime_src_global_rs = true /\
  Extracted.scan_shared_state = true.
Proof. repeat split; reflexivity. Qed.
Print Assumptions C05_facts.

(* the wrapper: a hit returns exactly the stored result and touches nothing but the
   tracer log; a miss returns exactly the body's result and stores it *)
Theorem C05_hit : forall ustate scfg fcfg rcfg hk g (ev : evals ustate) r st gl c,
  is_memo r -> cache_get (r_name r) (off st) (g_cache gl) = Some c ->
  memo_wrap ustate scfg fcfg rcfg hk g ev r st gl = (of_cached c, trace ustate (TInfo 0) gl).
Proof. intros. apply memo_hit; auto. Qed.
Print Assumptions C05_hit.

Theorem C05_miss : forall ustate scfg fcfg hk g (ev : evals ustate) r st gl,
  is_memo r -> cache_get (r_name r) (off st) (g_cache gl) = None ->
  fst (memo_wrap ustate scfg fcfg Extracted.rcfg hk g ev r st gl) =
  fst (rule_body ustate scfg fcfg hk g ev r st (log_eval ustate (r_name r, off st) gl)).
Proof.
  intros. rewrite memo_miss by auto.
  destruct (rule_body _ _ _ _ _ _ r st _) as [[v st'|e|p|] gl']; reflexivity.
Qed.
Print Assumptions C05_miss.

(* (whether failing results are stored at all is C06's concern: memo_closed) *)
Theorem C05_stores_what_it_returns : forall ustate scfg fcfg rcfg hk g (ev : evals ustate) r st gl,
  is_memo r -> memo_closed rcfg = true -> cache_get (r_name r) (off st) (g_cache gl) = None ->
  match memo_wrap ustate scfg fcfg rcfg hk g ev r st gl with
  | (MOk v st', gl') => cache_get (r_name r) (off st) (g_cache gl') = Some (COk v st')
  | (MErr e, gl') => cache_get (r_name r) (off st) (g_cache gl') = Some (CErr e)
  | _ => True
  end.
Proof. intros. apply memo_stores_result; auto. Qed.
Print Assumptions C05_stores_what_it_returns.

(* every parse call starts from an empty cache *)
Theorem C05_fresh : forall ustate scfg tcfg fcfg rcfg hk g fuel r input (u : ustate),
  m_parse ustate scfg tcfg fcfg rcfg hk g fuel r input u =
  ev_rule (run ustate scfg tcfg fcfg rcfg hk g fuel) r (init_state input) (init_glob ustate u) /\
  g_cache (init_glob ustate u) = [].
Proof. intros. split; reflexivity. Qed.
Print Assumptions C05_fresh.

(* without markers the model IS the PEG specification (C01); the specification never
   looks at @memoize, so it is the common reference of a grammar and of the grammar
   with its markers removed.  (The global transparency theorem for the marked
   grammar - cache soundness across the whole run - is not proved yet: partial.) *)
Theorem C05_unmarked_reference :
  forall (ustate : Type) (hk : hooks ustate) (shk : shooks) (g : grammar),
    pure_hooks ustate hk shk -> plain_grammar g ->
    forall fuel rule_name cs u, all_scalar cs ->
      conforms cs
        (fst (m_parse ustate Extracted.scfg Extracted.tcfg Extracted.fcfg Extracted.rcfg hk g
                      fuel rule_name (encode_str cs) u))
        (s_parse Extracted.fcfg shk g true fuel rule_name cs).
Proof. exact conform_x. Qed.
Print Assumptions C05_unmarked_reference.

(* The whole-grammar theorem.  For every grammar without @leftrec rules, any
   subset of rules marked @memoize, hooks whose results do not depend on the
   user state, every input, rule and pair of recursion bounds: the parser of the
   grammar and the parser of the grammar with all @memoize markers removed -
   whenever both return - accept alike, return the same tree and stop at the
   same offset (the error detail may differ).  It holds for every setting of
   the decision points of the source (no fact of Extracted.v is needed). *)
Definition same_outcome (a b : mres value) : Prop :=
  match a, b with
  | MOk v1 s1, MOk v2 s2 => v1 = v2 /\ rest s1 = rest s2 /\ off s1 = off s2
  | MErr _, MErr _ => True
  | MPanic p1, MPanic p2 => p1 = p2      (* not a runtime panic: the model's marker for code that rustc would reject *)
  | MFuel, _ | _, MFuel => True
  | _, _ => False
  end.

Theorem C05_transparent :
  forall (ustate : Type) (scfg : state_cfg) (tcfg : term_cfg) (fcfg : fields_cfg) (rcfg : rule_cfg)
         (hk : hooks ustate) (g : grammar) (input : bytes),
    (forall r, In (GRule r) g -> fl_left_recursive (flags_of (r_directives r)) = false) ->
    (forall f v u u', fst (h_check hk f v u) = fst (h_check hk f v u')) ->
    (forall f bs u u', fst (h_extern hk f bs u) = fst (h_extern hk f bs u')) ->
    forall n m rule_name u u',
      same_outcome (fst (m_parse ustate scfg tcfg fcfg rcfg hk g n rule_name input u))
                   (fst (m_parse ustate scfg tcfg fcfg rcfg hk (strip g) m rule_name input u')).
Proof.
  intros ustate scfg tcfg fcfg rcfg hk g input H1 H2 H3 n m rule_name u u'.
  pose proof (memoize_transparent ustate scfg tcfg fcfg rcfg hk g input H1 H2 H3 n m rule_name u u') as W.
  destruct (fst (m_parse ustate scfg tcfg fcfg rcfg hk g n rule_name input u)) as [v1 s1|e1|p1|];
    destruct (fst (m_parse ustate scfg tcfg fcfg rcfg hk (strip g) m rule_name input u')) as [v2 s2|e2|p2|];
    cbn in *; try exact I; try contradiction; try (match goal with |- @eq panic_site _ _ => assumption end).
  destruct W as [-> [R1 R2]]. auto.
Qed.
Print Assumptions C05_transparent.

(* any two markings of the same grammar: both agree with the unmarked grammar *)
Corollary C05_any_two_markings :
  forall (ustate : Type) (scfg : state_cfg) (tcfg : term_cfg) (fcfg : fields_cfg) (rcfg : rule_cfg)
         (hk : hooks ustate) (g1 g2 : grammar) (input : bytes),
    strip g1 = strip g2 ->
    (forall r, In (GRule r) g1 -> fl_left_recursive (flags_of (r_directives r)) = false) ->
    (forall r, In (GRule r) g2 -> fl_left_recursive (flags_of (r_directives r)) = false) ->
    (forall f v u u', fst (h_check hk f v u) = fst (h_check hk f v u')) ->
    (forall f bs u u', fst (h_extern hk f bs u) = fst (h_extern hk f bs u')) ->
    forall n1 n2 m rule_name u1 u2 u v s,
      fst (m_parse ustate scfg tcfg fcfg rcfg hk (strip g1) m rule_name input u) = MOk v s ->
      same_outcome (fst (m_parse ustate scfg tcfg fcfg rcfg hk g1 n1 rule_name input u1)) (MOk v s) /\
      same_outcome (fst (m_parse ustate scfg tcfg fcfg rcfg hk g2 n2 rule_name input u2)) (MOk v s).
Proof.
  intros ustate scfg tcfg fcfg rcfg hk g1 g2 input E L1 L2 H2 H3 n1 n2 m rule_name u1 u2 u v s HB.
  split.
  - rewrite <- HB. apply C05_transparent; assumption.
  - rewrite <- HB, E. apply C05_transparent; assumption.
Qed.
Print Assumptions C05_any_two_markings.

(* Memoization never costs termination: whenever the parser of the unmarked grammar returns with a
   recursion bound m, the parser of the marked grammar returns with every bound n >= m - and by
   C05_transparent the two then accept alike, with the same tree and end offset.  (A third walk
   over the templates; a cache hit needs no fuel, a miss evaluates the body one level down on both
   sides.) *)
Theorem C05_keeps_termination :
  forall (ustate : Type) (scfg : state_cfg) (tcfg : term_cfg) (fcfg : fields_cfg) (rcfg : rule_cfg)
         (hk : hooks ustate) (g : grammar) (input : bytes),
    (forall r, In (GRule r) g -> fl_left_recursive (flags_of (r_directives r)) = false) ->
    (forall f v u u', fst (h_check hk f v u) = fst (h_check hk f v u')) ->
    (forall f bs u u', fst (h_extern hk f bs u) = fst (h_extern hk f bs u')) ->
    forall n m rule_name u u', m <= n ->
      fst (m_parse ustate scfg tcfg fcfg rcfg hk (strip g) m rule_name input u') <> MFuel ->
      fst (m_parse ustate scfg tcfg fcfg rcfg hk g n rule_name input u) <> MFuel.
Proof.
  intros ustate scfg tcfg fcfg rcfg hk g input H1 H2 H3 n m rule_name u u'.
  exact (memoize_keeps_termination ustate scfg tcfg fcfg rcfg hk g input H1 H2 H3 n m rule_name u u').
Qed.
Print Assumptions C05_keeps_termination.

(* ---- @memoize beside @leftrec ------------------------------------------------------------------------
   "... rules that are not part of a left-recursive cycle": in a grammar WITH @leftrec rules, for every rule
   from which no @leftrec rule is reachable (a set of names closed under reference without @leftrec rule;
   memoized rules allowed: a memoized number or term rule of a calculator, say), the parse with the @memoize
   markers and the parse without them accept alike, return the same tree and stop at the same offset, for any
   two bounds.  C05_transparent - which speaks about grammars without any @leftrec rule - transported through
   locality (Local.v: such rules do exactly the same in g and in g with the @leftrec markers removed). *)
Theorem C05_transparent_beside_leftrec :
  forall (ustate : Type) (scfg : state_cfg) (tcfg : term_cfg) (fcfg : fields_cfg) (rcfg : rule_cfg)
         (hk : hooks ustate) (g : grammar) (nolr : name -> bool) (input : bytes),
    LocalConform.no_leftrec_reachable g nolr ->
    (forall f v u u', fst (h_check hk f v u) = fst (h_check hk f v u')) ->
    (forall f bs u u', fst (h_extern hk f bs u) = fst (h_extern hk f bs u')) ->
    forall n m rule_name u u', nolr rule_name = true ->
      same_outcome (fst (m_parse ustate scfg tcfg fcfg rcfg hk g n rule_name input u))
                   (fst (m_parse ustate scfg tcfg fcfg rcfg hk (strip g) m rule_name input u')).
Proof.
  intros ustate scfg tcfg fcfg rcfg hk g nolr input N H2 H3 n m rule_name u u' L.
  pose proof (LocalConform.memoize_transparent_beside_leftrec ustate scfg tcfg fcfg rcfg hk g nolr input N H2 H3 n m rule_name u u' L) as W.
  destruct (fst (m_parse ustate scfg tcfg fcfg rcfg hk g n rule_name input u)) as [v1 s1|e1|p1|];
    destruct (fst (m_parse ustate scfg tcfg fcfg rcfg hk (strip g) m rule_name input u')) as [v2 s2|e2|p2|];
    cbn in *; try exact I; try contradiction; try (match goal with |- @eq panic_site _ _ => assumption end).
  destruct W as [-> [R1 R2]]. auto.
Qed.
Print Assumptions C05_transparent_beside_leftrec.

(* the hypotheses are met by  @leftrec E = l:*E '+' t:T | t:T;  @memoize T = n:N '*' t:*T | n:N;  @memoize N :
   no @leftrec rule is reachable from the memoized rules T and N *)
Theorem C05_beside_leftrec_instance :
  LocalConform.no_leftrec_reachable OnceExamples.g_lr_memo LocalExamples.nolr_calc /\ LocalExamples.nolr_calc LocalExamples.nT = true.
Proof. exact LocalExamples.calc_no_leftrec_reachable. Qed.
Print Assumptions C05_beside_leftrec_instance.
