(* C10 — A failed parse reports a real failure offset - the furthest one without memo. *)
From PegV Require Import Utf8 Utf8Facts State Terminals TerminalsSpec TerminalsOk Syntax Fields
  FieldsFacts GetFieldsFacts Literals LiteralsFacts Model Spec ShapeFacts ErrLog Sim Conform ConformX Extracted Real.
From PegV Require Import CleanFrame UsualShape UsualShapeN Indirect NoSentinel UsualShapeExamples.
From PegV Require Local LocalConform.

Theorem C10_facts :
  rec_le Extracted.scfg = true /\ Extracted.tcfg = term_cfg_expected /\
  fcfg_sound Extracted.fcfg = true /\ insens_guard Extracted.rcfg = true /\
  Extracted.file_runtime_src_builtin_parsers_rs = true /\ Extracted.file_runtime_src_state_rs = true /\
  Extracted.file_runtime_src_choice_helper_rs = true /\ Extracted.file_runtime_src_parse_result_rs = true /\
  Extracted.file_codegen_src_sequence_rs = true /\ Extracted.file_codegen_src_choice_rs = true /\
  Extracted.file_codegen_src_closure_rs = true /\ Extracted.file_codegen_src_optional_rs = true /\
  Extracted.file_codegen_src_lookahead_rs = true /\ Extracted.file_codegen_src_string_rs = true /\
  Extracted.file_codegen_src_field_rs = true /\ Extracted.file_codegen_src_eoi_rs = true /\
  Extracted.file_codegen_src_char_rule_rs = true /\ Extracted.file_codegen_src_misc_rs = true /\
  Extracted.file_codegen_src_rule_rs = true /\ Extracted.file_codegen_src_common_rs = true /\
  Extracted.file_codegen_src_include_rule_rs = true /\ Extracted.file_codegen_src_extern_rule_rs = true /\
  Extracted.file_codegen_src_grammar_mod_rs = true.
Proof. repeat split; reflexivity. Qed.
Print Assumptions C10_facts.

(* Without memoized / left-recursive rules: the reported error is the
   furthest-latest entry of the specification's log of failed attempts
   (terminals, @char classes, checks, externs, negative lookaheads; attempts
   inside a lookahead only if the lookahead as a whole failed there). *)
Theorem C10_furthest :
  forall (ustate : Type) (hk : hooks ustate) (shk : shooks) (g : grammar),
    pure_hooks ustate hk shk -> plain_grammar g ->
    forall fuel rule_name cs u e, all_scalar cs ->
      fst (m_parse ustate Extracted.scfg Extracted.tcfg Extracted.fcfg Extracted.rcfg hk g
                   fuel rule_name (encode_str cs) u) = MErr e ->
      exists l, s_parse Extracted.fcfg shk g true fuel rule_name cs = SFail l /\
                Some e = furthest_latest None l.
Proof.
  intros ustate hk shk g Hp Hg fuel rule_name cs u e Hs E.
  pose proof (conform_x ustate hk shk g Hp Hg fuel rule_name cs u Hs) as C.
  rewrite E in C. exact C.
Qed.
Print Assumptions C10_furthest.

(* furthest-latest really is the furthest offset, and among equals the latest *)
Theorem C10_fold_furthest : forall l x, exists y,
  furthest_latest (Some x) l = Some y /\ e_pos x <= e_pos y.
Proof. intros l x. exact (fl_some_mono l x). Qed.
Print Assumptions C10_fold_furthest.

(* needs record_error to use <=: with < an equal-offset later attempt would not replace *)
Theorem C10_record_error : forall st e,
  far (record_error Extracted.scfg st e) = furthest_latest (far st) [e].
Proof. intros. apply record_error_far. reflexivity. Qed.
Print Assumptions C10_record_error.

(* Every grammar - @memoize and @leftrec rules included - every input, arbitrary
   stateful hooks, every setting of the decision points: the error a failed
   parse reports is an entry of the log of match attempts that failed during
   that very parse (a terminal, check, extern or lookahead attempt, recorded
   with the offset of the state at which it was made), unless it is the
   left-recursion sentinel or the farthest-error default.  (The offset of every
   logged attempt is a character boundary inside the input: C04_errpos.) *)
Theorem C10_real :
  forall (ustate : Type) (scfg : state_cfg) (tcfg : term_cfg) (fcfg : fields_cfg) (rcfg : rule_cfg)
         (hk : hooks ustate) (g : grammar) fuel rule_name input u e gl',
    m_parse ustate scfg tcfg fcfg rcfg hk g fuel rule_name input u = (MErr e, gl') ->
    In e (g_fails gl') \/ e_spec e = LeftRecursionSentinel \/ e_spec e = OtherError.
Proof. intros. eapply reported_error_is_real; eauto. Qed.
Print Assumptions C10_real.

(* ---- "it is never the internal left-recursion sentinel when left-recursive rules list their recursive
   alternatives first" --------------------------------------------------------------------------------
   NoSentinel.v.  With the newer-or-equal-replaces comparison of record_error (fact rec_le): in the part of
   a grammar from which no @memoize / @leftrec rule is reachable, every real failure at or beyond an offset
   p replaces a sentinel recorded at or before p, and every error such an evaluation returns is a real one
   (C10_clean_part_replaces_the_sentinel: an invariant of every template, every bound, stateful hooks).
   Hence for the usual shape  A = l:A x... | b1 | balts...  (recursive alternative first, the other
   alternatives over such rules), entered in a state whose recorded error is not a sentinel - the exported
   root in particular - with nothing skipped between the entry and the recursive field: a failing parse of A
   never reports the sentinel (C10_no_sentinel_usual_shape). *)
Theorem C10_no_sentinel_usual_shape :
  forall (ustate : Type) (scfg : state_cfg),
  rec_le scfg = true ->
  forall (tcfg : term_cfg) (fcfg : fields_cfg) (rcfg : rule_cfg),
  leftrec_closed rcfg = true ->
  forall (hk : hooks ustate) (g : grammar) (A : rule) (l : name) (bx : bool) 
    (x1 : expr) (xs : list expr) (b1 : expr) (balts : list expr),
  r_def A = adef A l bx x1 xs b1 balts ->
  find_grule g (r_name A) = Some (GRule A) ->
  fl_left_recursive (flags_of (r_directives A)) = true ->
  forall rf fds fds1 inner1 : list fdesc,
  get_fields fcfg (gf_fuel g) g (adef A l bx x1 xs b1 balts) = GFOk rf ->
  filt fcfg g (actx A rf) (adef A l bx x1 xs b1 balts) = Some fds ->
  filt fcfg g (actx A rf) (alt1 A l bx x1 xs) = Some fds1 ->
  own_fields fcfg g (alt1 A l bx x1 xs) = Some inner1 ->
  forall clean : name -> bool,
  (forall n : name, clean n = true -> rule_clean g clean n) ->
  (forall (n : name) (r : rule),
   clean n = true -> find_rule g n = Some r -> eclean clean (r_def r) = true) ->
  clean n_Whitespace = true ->
  lclean clean (b1 :: balts) = true ->
  forall (st : pstate) (F : nat) (gl : glob ustate) (e : perr) (gl' : glob ustate),
  ws_trivial g A rf st ->
  (forall f : perr, far st = Some f -> e_spec f <> LeftRecursionSentinel) ->
  cache_get (r_name A) (off st) (g_cache gl) = None ->
  ev_rule (run ustate scfg tcfg fcfg rcfg hk g F) (r_name A) st gl = (MErr e, gl') ->
  e_spec e <> LeftRecursionSentinel.
Proof. exact usual_no_sentinel. Qed.
Print Assumptions C10_no_sentinel_usual_shape.

Theorem C10_clean_part_replaces_the_sentinel :
  forall (ustate : Type) (scfg : state_cfg),
  rec_le scfg = true ->
  forall (tcfg : term_cfg) (fcfg : fields_cfg) (rcfg : rule_cfg) (hk : hooks ustate) 
    (g : grammar) (clean : name -> bool),
  (forall n : name, clean n = true -> rule_clean g clean n) ->
  (forall (n : name) (r : rule),
   clean n = true -> find_rule g n = Some r -> eclean clean (r_def r) = true) ->
  clean n_Whitespace = true ->
  forall p n : nat, Uev ustate clean p (run ustate scfg tcfg fcfg rcfg hk g n).
Proof. exact no_sentinel_walk. Qed.
Print Assumptions C10_clean_part_replaces_the_sentinel.

(* the hypotheses are met by  @export @leftrec E = l:*E '+' n:N | n:N : its parse never reports the sentinel;
   "x" is rejected with the real failure of the base *)
Theorem C10_no_sentinel_instance :
  (forall input F e gl',
     ws_trivial g_sum rE rf_sum (init_state input) ->
     m_parse unit scfg_doc term_cfg_expected fields_cfg_doc rcfg_doc no_hooks g_sum F nE input tt = (MErr e, gl') ->
     e_spec e <> LeftRecursionSentinel) /\
  fst (run_sum [120]%N) = MErr {| e_pos := 0; e_spec := ExpectedCharacterRange 48 57 |}.
Proof. split; [exact sum_no_sentinel|exact sum_fails_with_a_real_error]. Qed.
Print Assumptions C10_no_sentinel_instance.

(* the furthest-failure clause for the unmarked part of ANY grammar (Local.v): a failing parse of a rule from
   which no marked rule is reachable reports the furthest-latest failed attempt of the specification *)
Theorem C10_furthest_clean_part :
  forall (ustate : Type) (hk : hooks ustate) (shk : shooks) (g : grammar) (clean : name -> bool),
    pure_hooks ustate hk shk ->
    (forall n, clean n = true -> CleanFrame.rule_clean g clean n) ->
    (forall n r, clean n = true -> find_rule g n = Some r -> CleanFrame.eclean clean (r_def r) = true) ->
    clean n_Whitespace = true ->
    forall fuel rule_name cs u e, clean rule_name = true -> all_scalar cs ->
      fst (m_parse ustate Extracted.scfg Extracted.tcfg Extracted.fcfg Extracted.rcfg hk g
                   fuel rule_name (encode_str cs) u) = MErr e ->
      exists l, s_parse Extracted.fcfg shk (Local.unmarkb true g) true fuel rule_name cs = SFail l /\
                Some e = furthest_latest None l.
Proof.
  intros ustate hk shk g clean Hp Hc Hi Hw fuel rule_name cs u e L Hs E.
  pose proof (LocalConform.clean_conforms ustate hk shk g clean Hp Hc Hi Hw fuel rule_name cs u L Hs) as C.
  rewrite E in C. exact C.
Qed.
Print Assumptions C10_furthest_clean_part.

(* the same clause for recursion through a plain rule, the style of the documentation and of the calculator
   example ( @leftrec A = @:P | b...;  P = l:*A x... , A's other alternatives over the clean set): a failing
   parse of A entered with no sentinel recorded never reports the sentinel *)
Theorem C10_no_sentinel_indirect :
  forall (ustate : Type) (scfg : state_cfg),
  rec_le scfg = true ->
  forall (tcfg : term_cfg) (fcfg : fields_cfg) (rcfg : rule_cfg),
  leftrec_closed rcfg = true ->
  forall (hk : hooks ustate) (g : grammar) (A P : rule) (l : name) (bx : bool) 
    (x1 : expr) (xs : list expr) (b1 : expr) (balts : list expr),
  r_def A = idef P b1 balts ->
  r_def P = pdef A l bx x1 xs ->
  find_grule g (r_name A) = Some (GRule A) ->
  find_grule g (r_name P) = Some (GRule P) ->
  fl_left_recursive (flags_of (r_directives A)) = true ->
  fl_left_recursive (flags_of (r_directives P)) = false ->
  fl_memoize (flags_of (r_directives P)) = false ->
  forall rfA fdsA innerA1 rfP fdsP1 : list fdesc,
  get_fields fcfg (gf_fuel g) g (idef P b1 balts) = GFOk rfA ->
  get_fields fcfg (gf_fuel g) g (pdef A l bx x1 xs) = GFOk rfP ->
  filt fcfg g (actx A rfA) (idef P b1 balts) = Some fdsA ->
  own_fields fcfg g (ialt1 P) = Some innerA1 ->
  filt fcfg g (actx P rfP) (palt A l bx x1 xs) = Some fdsP1 ->
  forall clean : name -> bool,
  (forall n : name, clean n = true -> rule_clean g clean n) ->
  (forall (n : name) (r : rule),
   clean n = true -> find_rule g n = Some r -> eclean clean (r_def r) = true) ->
  clean n_Whitespace = true ->
  lclean clean (b1 :: balts) = true ->
  forall (st : pstate) (F : nat) (gl : glob ustate) (e : perr) (gl' : glob ustate),
  Wi g A P rfA rfP st ->
  (forall f : perr, far st = Some f -> e_spec f <> LeftRecursionSentinel) ->
  cache_get (r_name A) (off st) (g_cache gl) = None ->
  ev_rule (run ustate scfg tcfg fcfg rcfg hk g F) (r_name A) st gl = (MErr e, gl') ->
  e_spec e <> LeftRecursionSentinel.
Proof. exact indirect_no_sentinel. Qed.
Print Assumptions C10_no_sentinel_indirect.

(* ... and for several recursive alternatives first followed by at least one other alternative
   ( A = l1:A x1... | l2:A x2... | ... | b1 | ... , UsualShapeN.v): every recursive alternative fails with the
   planted error on the seed turn, the other alternatives then record a real failure *)
Theorem C10_no_sentinel_usualN :
  forall (ustate : Type) (scfg : state_cfg),
  rec_le scfg = true ->
  forall (tcfg : term_cfg) (fcfg : fields_cfg) (rcfg : rule_cfg),
  leftrec_closed rcfg = true ->
  forall (hk : hooks ustate) (g : grammar) (A : rule),
  find_grule g (r_name A) = Some (GRule A) ->
  fl_left_recursive (flags_of (r_directives A)) = true ->
  forall (recs : list ralt) (b1 : expr) (balts' : list expr) (al1 al2 : expr) (alr : list expr),
  map (ralt_e A) recs ++ b1 :: balts' = al1 :: al2 :: alr ->
  r_def A = adefN A recs (b1 :: balts') ->
  forall rf fds : list fdesc,
  get_fields fcfg (gf_fuel g) g (adefN A recs (b1 :: balts')) = GFOk rf ->
  filt fcfg g (actx A rf) (adefN A recs (b1 :: balts')) = Some fds ->
  forall fds1_of inner_of : ralt -> list fdesc,
  (forall r : ralt,
   In r recs ->
   filt fcfg g (actx A rf) (ralt_e A r) = Some (fds1_of r) /\
   own_fields fcfg g (ralt_e A r) = Some (inner_of r)) ->
  forall clean : name -> bool,
  (forall n : name, clean n = true -> rule_clean g clean n) ->
  (forall (n : name) (r : rule),
   clean n = true -> find_rule g n = Some r -> eclean clean (r_def r) = true) ->
  clean n_Whitespace = true ->
  (forall r : ralt, In r recs -> lclean clean (ra_x1 r :: ra_xs r) = true) ->
  forall (r1 : ralt) (recs' : list ralt),
  recs = r1 :: recs' ->
  lclean clean (b1 :: balts') = true ->
  forall (st : pstate) (F : nat) (gl : glob ustate) (e : perr) (gl' : glob ustate),
  ws_trivial g A rf st ->
  (forall f : perr, far st = Some f -> e_spec f <> LeftRecursionSentinel) ->
  cache_get (r_name A) (off st) (g_cache gl) = None ->
  ev_rule (run ustate scfg tcfg fcfg rcfg hk g F) (r_name A) st gl = (MErr e, gl') ->
  e_spec e <> LeftRecursionSentinel.
Proof. exact usualN_no_sentinel. Qed.
Print Assumptions C10_no_sentinel_usualN.
