(* C10 — A failed parse reports a real failure offset - the furthest one without memo. *)
From PegV Require Import Utf8 Utf8Facts State Terminals TerminalsSpec TerminalsOk Syntax Fields
  FieldsFacts GetFieldsFacts Literals LiteralsFacts Model Spec ShapeFacts ErrLog Sim Conform ConformX Extracted Real.

Theorem C10_facts :
  rec_le Extracted.scfg = true /\ Extracted.tcfg = term_cfg_expected /\
  fcfg_sound Extracted.fcfg = true /\ insens_guard Extracted.rcfg = true /\
  Extracted.file_runtime_src_builtin_parsers_rs = true /\ Extracted.file_runtime_src_state_rs = true /\
  Extracted.file_runtime_src_choice_helper_rs = true /\ Extracted.file_runtime_src_parse_result_rs = true /\
  Extracted.file_codegen_src_sequence_rs = true /\ Extracted.file_codegen_src_choice_rs = true /\
  Extracted.file_codegen_src_closure_rs = true /\ Extracted.file_codegen_src_optional_rs = true /\
  Extracted.file_codegen_src_lookahead_rs = true /\ Extracted.file_codegen_src_string_rs = true /\
  Extracted.file_codegen_src_field_rs = true /\ Extracted.file_codegen_src_eoi_rs = true /\
  Extracted.file_codegen_src_char_rule_rs = true /\ Extracted.file_codegen_src_misc_rs = true /\
  Extracted.file_codegen_src_rule_rs = true /\ Extracted.file_codegen_src_common_rs = true /\
  Extracted.file_codegen_src_include_rule_rs = true /\ Extracted.file_codegen_src_extern_rule_rs = true /\
  Extracted.file_codegen_src_grammar_mod_rs = true.
Proof. repeat split; reflexivity. Qed.
Print Assumptions C10_facts.

(* Without memoized / left-recursive rules: the reported error is the
   furthest-latest entry of the specification's log of failed attempts
   (terminals, @char classes, checks, externs, negative lookaheads; attempts
   inside a lookahead only if the lookahead as a whole failed there). *)
Theorem C10_furthest :
  forall (ustate : Type) (hk : hooks ustate) (shk : shooks) (g : grammar),
    pure_hooks ustate hk shk -> plain_grammar g ->
    forall fuel rule_name cs u e, all_scalar cs ->
      fst (m_parse ustate Extracted.scfg Extracted.tcfg Extracted.fcfg Extracted.rcfg hk g
                   fuel rule_name (encode_str cs) u) = MErr e ->
      exists l, s_parse Extracted.fcfg shk g true fuel rule_name cs = SFail l /\
                Some e = furthest_latest None l.
Proof.
  intros ustate hk shk g Hp Hg fuel rule_name cs u e Hs E.
  pose proof (conform_x ustate hk shk g Hp Hg fuel rule_name cs u Hs) as C.
  rewrite E in C. exact C.
Qed.
Print Assumptions C10_furthest.

(* furthest-latest really is the furthest offset, and among equals the latest *)
Theorem C10_fold_furthest : forall l x, exists y,
  furthest_latest (Some x) l = Some y /\ e_pos x <= e_pos y.
Proof. intros l x. exact (fl_some_mono l x). Qed.
Print Assumptions C10_fold_furthest.

(* needs record_error to use <=: with < an equal-offset later attempt would not replace *)
Theorem C10_record_error : forall st e,
  far (record_error Extracted.scfg st e) = furthest_latest (far st) [e].
Proof. intros. apply record_error_far. reflexivity. Qed.
Print Assumptions C10_record_error.

(* Every grammar - @memoize and @leftrec rules included - every input, arbitrary
   stateful hooks, every setting of the decision points: the error a failed
   parse reports is an entry of the log of match attempts that failed during
   that very parse (a terminal, check, extern or lookahead attempt, recorded
   with the offset of the state at which it was made), unless it is the
   left-recursion sentinel or the farthest-error default.  (The offset of every
   logged attempt is a character boundary inside the input: C04_errpos.) *)
Theorem C10_real :
  forall (ustate : Type) (scfg : state_cfg) (tcfg : term_cfg) (fcfg : fields_cfg) (rcfg : rule_cfg)
         (hk : hooks ustate) (g : grammar) fuel rule_name input u e gl',
    m_parse ustate scfg tcfg fcfg rcfg hk g fuel rule_name input u = (MErr e, gl') ->
    In e (g_fails gl') \/ e_spec e = LeftRecursionSentinel \/ e_spec e = OtherError.
Proof. intros. eapply reported_error_is_real; eauto. Qed.
Print Assumptions C10_real.
