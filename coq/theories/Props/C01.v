(* C01 — Generated parsers recognise exactly the PEG language of the grammar.
   Only statements, `exact`, `Check` pins and Print Assumptions live here. *)
From PegV Require Import Utf8 Utf8Facts State Terminals TerminalsSpec TerminalsOk Syntax Fields
  FieldsFacts Literals LiteralsFacts Model Spec Sim Conform MemoEq MemoSpec Extracted WellFormed Termination TermModel MemoTerm GrammarEbnf.
From PegV Require CleanFrame Local LocalConform UsualShapeExamples LocalExamples.

(* side conditions on the decision points found in the current source *)
Theorem C01_facts :
  rec_le Extracted.scfg = true /\ Extracted.tcfg = term_cfg_expected /\
  fcfg_sound Extracted.fcfg = true /\ insens_guard Extracted.rcfg = true /\
  Extracted.file_runtime_src_builtin_parsers_rs = true /\ Extracted.file_runtime_src_state_rs = true /\
  Extracted.file_runtime_src_choice_helper_rs = true /\ Extracted.file_runtime_src_parse_result_rs = true /\
  Extracted.file_codegen_src_sequence_rs = true /\ Extracted.file_codegen_src_choice_rs = true /\
  Extracted.file_codegen_src_closure_rs = true /\ Extracted.file_codegen_src_optional_rs = true /\
  Extracted.file_codegen_src_lookahead_rs = true /\ Extracted.file_codegen_src_string_rs = true /\
  Extracted.file_codegen_src_field_rs = true /\ Extracted.file_codegen_src_eoi_rs = true /\
  Extracted.file_codegen_src_char_rule_rs = true /\ Extracted.file_codegen_src_misc_rs = true /\
  Extracted.file_codegen_src_rule_rs = true /\ Extracted.file_codegen_src_common_rs = true /\
  Extracted.file_codegen_src_include_rule_rs = true /\ Extracted.file_codegen_src_extern_rule_rs = true /\
  Extracted.file_codegen_src_grammar_mod_rs = true.
Proof. repeat split; reflexivity. Qed.
Print Assumptions C01_facts.

(* For every grammar without @memoize/@leftrec rules (those are C05/C07), every
   family of pure check/extern oracles, every rule name, every input (a list
   of scalar values cs, i.e. any valid UTF-8 string), every fuel:
   whenever the model of the generated parser returns, the PEG specification
   returns the same verdict at the same fuel — accept with the same value and
   exactly the same consumed prefix (bytes consumed = UTF-8 length of the
   characters S consumed), or reject with M's error being the furthest-latest
   failed attempt of S; and M runs out of fuel exactly when S does. *)
Theorem C01_conform :
  forall (ustate : Type) (hk : hooks ustate) (shk : shooks) (g : grammar),
    pure_hooks ustate hk shk -> plain_grammar g ->
    forall fuel rule_name cs u, all_scalar cs ->
      conforms cs
        (fst (m_parse ustate Extracted.scfg Extracted.tcfg Extracted.fcfg Extracted.rcfg hk g
                      fuel rule_name (encode_str cs) u))
        (s_parse Extracted.fcfg shk g true fuel rule_name cs).
Proof.
  intros ustate hk shk g Hp Hg. exact (conform ustate Extracted.scfg Extracted.fcfg Extracted.rcfg hk shk g
    eq_refl eq_refl eq_refl Hp Hg).
Qed.
Print Assumptions C01_conform.

Theorem C01_converse :
  forall (ustate : Type) (hk : hooks ustate) (shk : shooks) (g : grammar),
    pure_hooks ustate hk shk -> plain_grammar g ->
    forall fuel rule_name cs u, all_scalar cs ->
      let mr := fst (m_parse ustate Extracted.scfg Extracted.tcfg Extracted.fcfg Extracted.rcfg hk g
                             fuel rule_name (encode_str cs) u) in
      match s_parse Extracted.fcfg shk g true fuel rule_name cs with
      | SOk v cs' o l => (exists st', mr = MOk v st' /\ off st' = o) \/ (exists p, mr = MPanic p)
      | SFail l => (exists e, mr = MErr e /\ Some e = furthest_latest None l) \/ (exists p, mr = MPanic p)
      | SStuck => (exists p, mr = MPanic p)
      | SFuel => mr = MFuel \/ (exists p, mr = MPanic p)
      end.
Proof.
  intros ustate hk shk g Hp Hg. exact (conform_converse ustate Extracted.scfg Extracted.fcfg Extracted.rcfg hk shk g
    eq_refl eq_refl eq_refl Hp Hg).
Qed.
Print Assumptions C01_converse.

(* Terminals: on valid UTF-8 each byte-level matcher accepts exactly the
   character-level language of TerminalsSpec and consumes the UTF-8 length of
   what it matched (term_ok: result = Ok(value, state advanced by the matched
   characters) when term_match gives them, Err(report_error ..) otherwise). *)
Theorem C01_terminals : forall (st : pstate) (cs : list N),
  rest st = encode_str cs -> all_scalar cs ->
  term_ok Extracted.scfg (parse_char Extracted.scfg st) st cs TmAny (fun m => hd 0%N m) ExpectedAnyCharacter /\
  term_ok Extracted.scfg (parse_Whitespace st) st cs TmWs (fun _ => tt) OtherError /\
  term_ok Extracted.scfg (parse_end_of_input Extracted.scfg st) st cs TmEoi (fun _ => tt) ExpectedEoi /\
  (forall s, all_scalar s ->
     term_ok Extracted.scfg (parse_string_literal Extracted.scfg st (encode_str s)) st cs (TmStr s)
             (fun _ => tt) (ExpectedString (encode_str s))) /\
  (forall c, is_scalar c = true ->
     term_ok Extracted.scfg (parse_character_literal Extracted.scfg Extracted.tcfg st c) st cs (TmChar c)
             (fun _ => c) (ExpectedCharacter c)) /\
  (forall a b, is_scalar a = true -> is_scalar b = true ->
     term_ok Extracted.scfg (parse_character_range Extracted.scfg Extracted.tcfg st a b) st cs (TmRange a b)
             (fun m => hd 0%N m) (ExpectedCharacterRange a b)) /\
  (forall s, ascii_lower_str s ->
     term_ok Extracted.scfg (parse_string_literal_insensitive Extracted.scfg Extracted.tcfg st s) st cs (TmIStr s)
             (fun _ => tt) (ExpectedString s)) /\
  (forall c, is_ascii c = true -> to_ascii_lower c = c ->
     term_ok Extracted.scfg (parse_character_literal_insensitive Extracted.scfg Extracted.tcfg st c) st cs (TmIChar c)
             (fun _ => c) (ExpectedCharacter c)).
Proof.
  intros st cs Hr Hs.
  split; [exact (parse_char_ok Extracted.scfg st cs Hr Hs)|].
  split; [exact (parse_Whitespace_ok Extracted.scfg st cs Hr Hs)|].
  split; [exact (parse_end_of_input_ok Extracted.scfg st cs Hr Hs)|].
  split; [exact (fun s H => parse_string_literal_ok Extracted.scfg st cs s Hr Hs H)|].
  split; [exact (fun c H => parse_character_literal_ok Extracted.scfg st cs c Hr Hs H)|].
  split; [exact (fun a b Ha Hb => parse_character_range_ok Extracted.scfg st cs a b Hr Hs Ha Hb)|].
  split; [exact (fun s H => parse_string_literal_insensitive_ok Extracted.scfg st cs s Hr Hs H)|].
  exact (fun c H1 H2 => parse_character_literal_insensitive_ok Extracted.scfg st cs c Hr Hs H1 H2).
Qed.
Print Assumptions C01_terminals.

(* Literals: what the compile-time decoding hands to the matchers denotes
   scalar values; a case-insensitive literal that is accepted is ASCII and
   lower-case (so the byte-wise insensitive matchers apply). *)
Theorem C01_literals : forall ins body m, compile_lit true ins body = LOk m -> lit_ok m.
Proof. exact compile_lit_ok. Qed.
Print Assumptions C01_literals.

(* Trailing input: the entry point is the call of the exported rule at offset 0
   on a fresh state and a fresh global; it adds no end-of-input test. *)
Theorem C01_trailing : forall ustate scfg tcfg fcfg rcfg hk g fuel r input u,
  m_parse ustate scfg tcfg fcfg rcfg hk g fuel r input u =
  ev_rule (run ustate scfg tcfg fcfg rcfg hk g fuel) r (init_state input) (init_glob ustate u).
Proof. reflexivity. Qed.
Print Assumptions C01_trailing.

Check conforms.
Check (eq_refl : term_match (TmRange 97 122) [98; 99]%N = Some [98%N]).

(* Grammars with @memoize rules (any subset; no @leftrec rule): the model of the
   generated parser still agrees with the PEG specification on acceptance, tree
   and end offset, for every pair of recursion bounds - either the specification
   has not returned yet with that bound, or it returns the same thing.  (The
   middle disjunct - the unmarked model panics - is the template-plumbing case the
   simulation leaves open; it never occurs in the correspondence runs.) *)
Theorem C01_memoized :
  forall (ustate : Type) (hk : hooks ustate) (shk : shooks) (g : grammar),
    pure_hooks ustate hk shk ->
    (forall r, In (GRule r) g -> fl_left_recursive (flags_of (r_directives r)) = false) ->
    forall n m rule_name cs u, all_scalar cs ->
      match fst (m_parse ustate Extracted.scfg Extracted.tcfg Extracted.fcfg Extracted.rcfg hk g
                         n rule_name (encode_str cs) u) with
      | MOk v st' =>
        s_parse Extracted.fcfg shk g true m rule_name cs = SFuel \/
        (exists p, fst (m_parse ustate Extracted.scfg Extracted.tcfg Extracted.fcfg Extracted.rcfg hk (strip g)
                                m rule_name (encode_str cs) u) = MPanic p) \/
        exists cs' l, s_parse Extracted.fcfg shk g true m rule_name cs = SOk v cs' (off st') l
      | MErr _ =>
        s_parse Extracted.fcfg shk g true m rule_name cs = SFuel \/
        (exists p, fst (m_parse ustate Extracted.scfg Extracted.tcfg Extracted.fcfg Extracted.rcfg hk (strip g)
                                m rule_name (encode_str cs) u) = MPanic p) \/
        exists l, s_parse Extracted.fcfg shk g true m rule_name cs = SFail l
      | _ => True
      end.
Proof.
  intros ustate hk shk g Hp NoLR n m rule_name cs u Hs.
  exact (memoized_vs_spec ustate Extracted.scfg Extracted.fcfg Extracted.rcfg hk shk g
           eq_refl eq_refl eq_refl Hp NoLR n m rule_name cs u Hs).
Qed.
Print Assumptions C01_memoized.

(* ---- "and the parse terminates" -------------------------------------------
   Well-formedness in the sense of the quantifier (no left recursion outside
   @leftrec rules, no closure whose body can succeed without consuming) is a
   checkable certificate (WellFormed.wf_check: a nullable set closed under the
   rules, and a rank that strictly decreases from every rule / include to
   everything it can reach before a character is consumed).  For EVERY grammar
   that passes the check, every family of oracles, every rule and every input:
   the PEG specification returns, and its result no longer depends on the
   recursion bound once the bound is large enough. *)
Theorem C01_terminates :
  forall (shk : shooks) (g : grammar) (nul : name -> bool) (rk : WellFormed.runit -> nat),
    WellFormed.wf_check g nul rk = true ->
    forall rule_name cs,
      exists F r, r <> SFuel /\
        forall f, F <= f -> s_parse Extracted.fcfg shk g true f rule_name cs = r.
Proof. intros shk g nul rk W. exact (Termination.spec_terminates Extracted.fcfg shk g true nul rk W). Qed.
Print Assumptions C01_terminates.

(* ... and so does the model of the generated parser (plain grammars; grammars
   with @memoize rules: C01_memoized relates them to the same specification) *)
Theorem C01_model_terminates :
  forall (ustate : Type) (hk : hooks ustate) (shk : shooks) (g : grammar),
    pure_hooks ustate hk shk -> plain_grammar g ->
    forall nul rk, WellFormed.wf_check g nul rk = true ->
    forall rule_name cs u, all_scalar cs ->
    exists F, forall f, F <= f ->
      fst (m_parse ustate Extracted.scfg Extracted.tcfg Extracted.fcfg Extracted.rcfg hk g
                   f rule_name (encode_str cs) u) <> MFuel /\
      s_parse Extracted.fcfg shk g true f rule_name cs <> SFuel.
Proof.
  intros ustate hk shk g Hp Hg nul rk W.
  exact (TermModel.model_terminates ustate Extracted.scfg Extracted.fcfg Extracted.rcfg hk shk g
           eq_refl eq_refl eq_refl Hp Hg nul rk W).
Qed.
Print Assumptions C01_model_terminates.

(* the certificate is computed (WellFormed.analyse) and then checked: *)
Theorem C01_well_formed_terminates :
  forall (shk : shooks) (g : grammar), WellFormed.well_formed g = true ->
    forall rule_name cs,
      exists F r, r <> SFuel /\
        forall f, F <= f -> s_parse Extracted.fcfg shk g true f rule_name cs = r.
Proof. intros shk g W. exact (TermModel.well_formed_terminates Extracted.fcfg shk g true W). Qed.
Print Assumptions C01_well_formed_terminates.

(* non-vacuity: the grammar of grammars (AST regenerated from /repo/grammar.ebnf
   on every run) passes the check, so the front end returns on every text *)
Theorem C01_frontend_well_formed : WellFormed.well_formed GrammarEbnf.g = true.
Proof. vm_compute. reflexivity. Qed.
Print Assumptions C01_frontend_well_formed.

(* the two ways out of the quantifier really diverge in the specification *)
Theorem C01_left_recursion_diverges :
  WellFormed.well_formed TermModel.g_leftrec = false /\
  forall fcfg shk insens f cs, s_parse fcfg shk TermModel.g_leftrec insens f TermModel.nmA cs = SFuel.
Proof. split; [exact TermModel.leftrec_not_well_formed|]. intros. apply TermModel.leftrec_example_diverges. Qed.
Print Assumptions C01_left_recursion_diverges.

Theorem C01_nullable_closure_diverges :
  WellFormed.well_formed TermModel.g_nullclo = false /\
  forall fcfg shk insens f, s_parse fcfg shk TermModel.g_nullclo insens f TermModel.nmA [98%N] = SFuel.
Proof. split; [exact TermModel.nullclo_not_well_formed|]. intros. apply TermModel.nullclo_example_diverges. Qed.
Print Assumptions C01_nullable_closure_diverges.

Check WellFormed.wf_check : grammar -> (name -> bool) -> (WellFormed.runit -> nat) -> bool.

(* grammars with @memoize rules (any subset, no @leftrec rule) that pass the check: the model of
   the generated, memoizing parser returns on every input from some bound on *)
Theorem C01_memoized_terminates :
  forall (ustate : Type) (hk : hooks ustate) (shk : shooks) (g : grammar),
    pure_hooks ustate hk shk ->
    (forall r, In (GRule r) g -> fl_left_recursive (flags_of (r_directives r)) = false) ->
    forall nul rk, WellFormed.wf_check g nul rk = true ->
    forall rule_name cs u, all_scalar cs ->
    exists F, forall f, F <= f ->
      fst (m_parse ustate Extracted.scfg Extracted.tcfg Extracted.fcfg Extracted.rcfg hk g
                   f rule_name (encode_str cs) u) <> MFuel.
Proof.
  intros ustate hk shk g Hp NoLR nul rk W.
  exact (MemoTerm.memo_model_terminates ustate Extracted.scfg Extracted.fcfg Extracted.rcfg hk shk g
           eq_refl eq_refl eq_refl Hp NoLR nul rk W).
Qed.
Print Assumptions C01_memoized_terminates.

(* ---- the headline for grammars with @memoize rules ------------------------------------------
   EVERY grammar that passes the well-formedness check and has no @leftrec rule, ANY subset of its
   rules marked @memoize, pure check/extern oracles, every rule and every input: there is a bound F
   such that for all recursion bounds n, m >= F the model of the generated (memoizing) parser with
   bound n returns, the PEG specification with bound m returns, and
     - the parser accepts iff the specification does, with the same tree, the same consumed prefix
       and the same end offset (C01, C02, C05, C08, C09, C14 on memoized grammars),
     - the parser fails iff the specification does,
     - the model never stops at a value-shape mismatch (C03).
   (MemoEq: memoized ~ unmarked; Sim: unmarked ~ specification; Termination + MemoTot: all three
   return.) *)
Theorem C01_memoized_well_formed :
  forall (ustate : Type) (hk : hooks ustate) (shk : shooks) (g : grammar),
    pure_hooks ustate hk shk ->
    (forall r, In (GRule r) g -> fl_left_recursive (flags_of (r_directives r)) = false) ->
    forall nul rk, WellFormed.wf_check g nul rk = true ->
    forall rule_name cs u, all_scalar cs ->
    exists F, forall n m, F <= n -> F <= m ->
      match fst (m_parse ustate Extracted.scfg Extracted.tcfg Extracted.fcfg Extracted.rcfg hk g
                         n rule_name (encode_str cs) u) with
      | MOk v st' =>
        exists consumed cs' l,
          s_parse Extracted.fcfg shk g true m rule_name cs = SOk v cs' (off st') l /\ cs = consumed ++ cs' /\
          off st' = length (encode_str consumed) /\ rest st' = encode_str cs'
      | MErr _ => exists l, s_parse Extracted.fcfg shk g true m rule_name cs = SFail l
      | MPanic p => p <> PanicShape
      | MFuel => False
      end.
Proof.
  intros ustate hk shk g Hp NoLR nul rk W.
  exact (MemoTerm.memoized_well_formed_conforms ustate Extracted.scfg Extracted.fcfg Extracted.rcfg hk shk g
           eq_refl eq_refl eq_refl Hp NoLR nul rk W).
Qed.
Print Assumptions C01_memoized_well_formed.

(* ---- the clean part of ANY grammar ---------------------------------------------------------------
   Local.v: for a set of rule names closed under reference that contains no @memoize / @leftrec rule, the
   model of the generated parser of g and that of `unmark g` (every marker removed) do exactly the same on
   every expression over those names - same result, state and global, every bound, stateful hooks: marked
   rules elsewhere in the grammar cannot influence them (C01_clean_part_sees_no_markers).  `unmark g` is a
   plain grammar, so the simulation applies: the parse of every such rule accepts, builds, consumes and
   reports what the PEG specification S of the unmarked grammar says (C01_clean_part_of_any_grammar) - the
   statement of C01_conform (and with it C02_tree, C08_points, C09_span, C10_furthest) for the unmarked
   part of every grammar, also of grammars with @memoize and @leftrec rules. *)
Theorem C01_clean_part_sees_no_markers :
  forall (ustate : Type) (scfg : state_cfg) (tcfg : term_cfg) (fcfg : fields_cfg) (rcfg : rule_cfg)
         (hk : hooks ustate) (g : grammar) (mb : bool) (clean : name -> bool),
    (* mb = true: no marked rule in the set, all markers removed; mb = false: no @leftrec rule in the set
       (memoized rules allowed), the @leftrec markers removed *)
    (forall n, clean n = true -> Local.rule_cleanb g mb clean n) ->
    (forall n r, clean n = true -> find_rule g n = Some r -> CleanFrame.eclean clean (r_def r) = true) ->
    clean n_Whitespace = true ->
    forall fuel rule_name input u, clean rule_name = true ->
      m_parse ustate scfg tcfg fcfg rcfg hk g fuel rule_name input u =
      m_parse ustate scfg tcfg fcfg rcfg hk (Local.unmarkb mb g) fuel rule_name input u.
Proof. exact Local.clean_parse_unmarked. Qed.
Print Assumptions C01_clean_part_sees_no_markers.

Theorem C01_clean_part_of_any_grammar :
  forall (ustate : Type) (hk : hooks ustate) (shk : shooks) (g : grammar) (clean : name -> bool),
    pure_hooks ustate hk shk ->
    (forall n, clean n = true -> CleanFrame.rule_clean g clean n) ->
    (forall n r, clean n = true -> find_rule g n = Some r -> CleanFrame.eclean clean (r_def r) = true) ->
    clean n_Whitespace = true ->
    forall fuel rule_name cs u, clean rule_name = true -> all_scalar cs ->
      conforms cs
        (fst (m_parse ustate Extracted.scfg Extracted.tcfg Extracted.fcfg Extracted.rcfg hk g
                      fuel rule_name (encode_str cs) u))
        (s_parse Extracted.fcfg shk (Local.unmarkb true g) true fuel rule_name cs).
Proof. exact LocalConform.clean_conforms. Qed.
Print Assumptions C01_clean_part_of_any_grammar.

(* the hypotheses are met by a grammar that HAS a @leftrec rule: in  @leftrec E = l:*E '+' n:N | n:N  the set
   { N, Whitespace } is closed and unmarked, E is not in it, and N parses as in the unmarked grammar *)
Theorem C01_clean_part_instance :
  ((forall n, UsualShapeExamples.clean_sum n = true -> CleanFrame.rule_clean UsualShapeExamples.g_sum UsualShapeExamples.clean_sum n) /\
   (forall n r, UsualShapeExamples.clean_sum n = true -> find_rule UsualShapeExamples.g_sum n = Some r ->
                CleanFrame.eclean UsualShapeExamples.clean_sum (r_def r) = true) /\
   UsualShapeExamples.clean_sum n_Whitespace = true /\ UsualShapeExamples.clean_sum UsualShapeExamples.nN = true /\
   UsualShapeExamples.clean_sum UsualShapeExamples.nE = false).
Proof. exact LocalExamples.sum_clean_set. Qed.
Print Assumptions C01_clean_part_instance.
