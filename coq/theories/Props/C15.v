(* C15 — the grammar compiler always answers: code, or an error. *)
From PegV Require Import Utf8 State Syntax Fields FieldsFacts GetFieldsFacts TypesFacts Literals Model Compile Totality Restrictions Tmpl Extracted.

Theorem C15_facts :
  insens_guard Extracted.rcfg = true /\ Extracted.x_leftrec_needs_clone = true /\
  Extracted.x_pos_variants_checked = true /\ Extracted.x_cli_exit_nonzero = true /\
  Extracted.x_idents_checked = true /\ Extracted.x_cycles_checked = true /\ Extracted.x_raw_kw_guard = true /\
  fcfg_sound Extracted.fcfg = true /\
  Extracted.file_codegen_src_rule_rs = true /\ Extracted.file_codegen_src_lookahead_rs = true /\
  Extracted.file_codegen_src_string_rs = true /\ Extracted.file_codegen_src_include_rule_rs = true /\
  Extracted.file_codegen_src_common_rs = true /\ Extracted.file_codegen_src_choice_rs = true /\
  Extracted.file_codegen_src_sequence_rs = true /\ Extracted.file_codegen_src_grammar_mod_rs = true /\
  Extracted.file_codegen_src_char_rule_rs = true /\ Extracted.file_codegen_src_extern_rule_rs = true /\
  Extracted.file_codegen_src_buildscript_rs = true /\ Extracted.file_cli_src_main_rs = true /\
  Extracted.file_macro_src_lib_rs = true.
Proof. repeat split; reflexivity. Qed.
Print Assumptions C15_facts.

Definition compile_x (g : grammar) (s : csettings) (F : nat) : gres :=
  compile_f Extracted.fcfg (insens_guard Extracted.rcfg) Extracted.x_leftrec_needs_clone
            Extracted.x_pos_variants_checked Extracted.x_idents_checked Extracted.x_cycles_checked g s F.

(* Termination.  The model is a total function of (grammar, settings, fuel); the
   only answer that stands for "no answer" is GOverflow (recursion over includes
   deeper than the fuel).  If the include relation is well-founded, a fuel bound
   computed from the grammar suffices for every rule: the real compiler's
   recursion is bounded and it answers with code or with an error. *)
Theorem C15_terminates : forall (g : grammar) (s : csettings) (rank : name -> nat),
  ranked g rank ->
  forall F, enough g rank <= F -> forall i, compile_x g s F <> GOverflow i.
Proof. intros g s rank R F HF i. apply (compile_never_overflows _ _ g _ _ _ _ s rank R F HF). Qed.
Print Assumptions C15_terminates.

(* With the include-cycle check that the compiler now makes first, no hypothesis on
   the grammar is left: for EVERY grammar with distinct rule names there is a fuel
   bound, computed from the grammar, from which on the model never answers "out of
   fuel" - the compiler's recursion over includes is bounded, it answers with code
   or with an error (a cycle is one). *)
Theorem C15_never_overflows : forall (g : grammar) (s : csettings),
  NoDup (rule_names g) ->
  forall F, enough g (inc_depth g (S (length g))) <= F -> forall i, compile_x g s F <> GOverflow i.
Proof. intros g s ND F HF i. apply (checked_compile_never_overflows _ _ g _ _ _ s ND F HF). Qed.
Print Assumptions C15_never_overflows.

Theorem C15_cycles_are_rejected : forall (g : grammar) (s : csettings) F,
  has_cycle g = true -> compile_x g s F = GCycle \/ exists n, compile_x g s F = GBadIdent n.
Proof. intros g s F H. apply cycle_rejected. exact H. Qed.
Print Assumptions C15_cycles_are_rejected.

(* names that are not Rust identifiers are answered with an error before any
   identifier is built from them *)
Theorem C15_bad_identifiers_are_rejected : forall (g : grammar) (s : csettings) F n,
  find (fun x => negb (ident_valid x)) (checked_idents g s) = Some n -> compile_x g s F = GBadIdent n.
Proof. intros g s F n H. unfold compile_x, compile_f. cbn. rewrite H. reflexivity. Qed.
Print Assumptions C15_bad_identifiers_are_rejected.

(* ... and if it is not, no fuel suffices: without the cycle check `@export A = >A;`
   recurses for ever in the model, i.e. until the stack overflows in the real
   compiler (the defect repaired by the cycle check). *)
Theorem C15_cycle_overflows_unchecked : forall s F,
  compile_f Extracted.fcfg (insens_guard Extracted.rcfg) Extracted.x_leftrec_needs_clone
            Extracted.x_pos_variants_checked false false cyclic s F = GOverflow 0.
Proof. intros. apply cycle_overflows. Qed.
Print Assumptions C15_cycle_overflows_unchecked.

Theorem C15_cycle_is_not_ranked : forall rank, ~ ranked cyclic rank.
Proof.
  intros rank R.
  specialize (R {| r_directives := [DExport]; r_name := n_A; r_def := EInclude n_A |} (or_introl eq_refl)
                n_A {| r_directives := [DExport]; r_name := n_A; r_def := EInclude n_A |} (or_introl eq_refl) eq_refl).
  cbn in R. exact (PeanoNat.Nat.lt_irrefl _ R).
Qed.
Print Assumptions C15_cycle_is_not_ranked.

(* Restrictions.  Whenever a rule is accepted, no documented restriction is
   broken anywhere in its body, at any depth and through any chain of includes. *)
Theorem C15_accepted_rules_respect_the_restrictions :
  forall g s F r ds,
    compile_rule Extracted.fcfg true Extracted.x_leftrec_needs_clone Extracted.x_pos_variants_checked g s F r = COk ds ->
    let fl := flags_of (r_directives r) in
    (* @string with @export; a skipping Whitespace rule; @memoize / @leftrec without Clone *)
    fl_export fl && fl_string fl = false /\
    (name_eqb (r_name r) n_Whitespace = true -> fl_no_skip_ws fl = true) /\
    (fl_memoize fl = true -> has_clone s = true) /\
    (fl_left_recursive fl = true -> has_clone s = true) /\
    exists fields, get_fields Extracted.fcfg F g (r_def r) = GFOk fields /\
    (* fields inside lookaheads *)
    (forall d b, desc g d (ENeg b) (r_def r) \/ desc g d (EPos b) (r_def r) ->
        exists F', get_fields Extracted.fcfg F' g b = GFOk []) /\
    (* including a missing / @char / @extern rule *)
    (forall d n, desc g d (EInclude n) (r_def r) -> exists r', find_rule g n = Some r') /\
    (* invalid code points and non-ASCII case-insensitive literals *)
    (forall d ins body, desc g d (ELit ins body) (r_def r) ->
        exists cs, decode_items body = DOk cs /\ (ins = true -> forallb is_ascii cs = true)) /\
    (forall d a b, desc g d (ERange a b) (r_def r) -> exists x y, compile_range a b = RgOk x y) /\
    (* @: rules *)
    (fl_string fl = false ->
       (forall fd, fields = [fd] -> fd_name fd = n_override -> multi_typed fd = false ->
          fl_export fl = false /\ fl_position fl = false) /\
       (forall fd, fields = [fd] -> fd_name fd = n_override -> multi_typed fd = true -> fd_arity fd = One) /\
       ((forall fd, fields <> [fd]) \/ (exists fd, fields = [fd] /\ fd_name fd <> n_override) ->
          existsb (fun fd => name_eqb (fd_name fd) n_override) fields = false)).
Proof.
  intros g s F r ds H.
  destruct (accepted_rule_respects _ _ _ _ _ _ _ _ _ H) as [fields [G [L [R1 [R2 [R3 [R4 [_ R6]]]]]]]].
  cbn zeta. split; [exact R1|]. split; [exact R2|]. split; [exact R3|]. split; [apply R4; reflexivity|].
  exists fields. split; [exact G|].
  split; [intros d b D; eapply accepted_lookaheads_have_no_fields; eauto|].
  split; [intros d n D; eapply accepted_includes_resolve; eauto|].
  destruct (accepted_literals_compile _ _ _ _ L) as [L1 L2].
  split.
  { intros d ins body D. destruct (L1 d ins body D) as [m Hm].
    destruct ins.
    - destruct (compiled_insensitive_is_ascii true body m eq_refl Hm) as [cs [E A]]. exists cs. split; [exact E|auto].
    - destruct (compiled_literal_decodes true false body m Hm) as [cs E]. exists cs. split; [exact E|discriminate]. }
  split; [exact L2|exact R6].
Qed.
Print Assumptions C15_accepted_rules_respect_the_restrictions.

Theorem C15_include_resolves_only_normal_rules : forall g n,
  (forall r, In (GRule r) g -> r_name r <> n) -> forall F, get_fields Extracted.fcfg (S F) g (EInclude n) = GFErr (GEIncludeNotFound n).
Proof. intros g n H F. cbn. rewrite (include_only_normal_rules g n H). reflexivity. Qed.
Print Assumptions C15_include_resolves_only_normal_rules.

Theorem C15_invalid_code_points : forall n,
  is_scalar n = false ->
  forall c1 c2 c3 c4 c5 c6, hex_digit c1 <> None ->
    utf8_fold (match hex_digit c1 with Some d => d | None => 0%N end) [c2; c3; c4; c5; c6] = Some n ->
    decode_item (SIUtf8 c1 c2 c3 c4 c5 c6) = DInvalidCodepoint n.
Proof.
  intros n Hs c1 c2 c3 c4 c5 c6 H1 H2. unfold decode_item.
  destruct (hex_digit c1) as [d1|]; [|congruence]. rewrite H2, Hs. reflexivity.
Qed.
Print Assumptions C15_invalid_code_points.

(* The panic sites inside the code templates (field.rs: two `expect`s; choice.rs:
   `panic!("Outer field .. cannot be One if inner does not exist")`; sequence.rs:
   `assert_eq!(field.arity, Arity::Multiple)`) are unreachable: walking any rule
   body the way the generator does, under the descriptors get_fields computed for
   that body, none of them fires - for every grammar, at every depth, through
   includes. *)
Theorem C15_templates_never_panic : forall (g : grammar) (F : nat) (e : expr) (rf : list fdesc),
  get_fields Extracted.fcfg F g e = GFOk rf ->
  forall T, tmpl_ok Extracted.fcfg g F T rf e = true.
Proof.
  intros g F e rf G T.
  apply (tmpl_never_panics Extracted.fcfg (proj1 (proj2 (proj2 (proj2 (proj2 C15_facts))))) g F rf).
  - exact (gf_nodup Extracted.fcfg g F e rf G).
  - exists rf. split; [exact G|apply sub_refl].
  - exists rf. split; [exact G|apply tsub_refl].
Qed.
Print Assumptions C15_templates_never_panic.
