(* C11 — Pretty errors point at the line and column of the error position.
   Only statements, `exact`, `Check` pins and Print Assumptions live here. *)
From PegV Require Import Utf8 Pretty PrettyOk Extracted.

(* For every text and every position 0..=len (boundary or not), with the
   decision points found in the current source (Extracted.pretty), the model
   of PrettyParseError::from_parse_error does not panic and yields exactly:
   line = newlines before the position + 1, column = characters between the
   start of that line and the position + 1 (= caret offset), printed line =
   the line around the position. *)
Theorem C11_pretty : forall (text : bytes) (pos : nat),
  (pos <= length text)%nat ->
  from_parse_error Extracted.pretty text pos = pretty_spec text pos.
Proof. exact pretty_fixed_correct. Qed.
Print Assumptions C11_pretty.

Theorem C11_no_panic : forall (text : bytes) (pos : nat),
  (pos <= length text)%nat -> from_parse_error Extracted.pretty text pos <> PPanic.
Proof. exact pretty_fixed_no_panic. Qed.
Print Assumptions C11_no_panic.

(* the remaining shape of both functions is the one the model mirrors *)
Theorem C11_shape : Extracted.file_runtime_src_error_rs = true.
Proof. reflexivity. Qed.
Print Assumptions C11_shape.

(* The configuration of the pinned source before the `fix:` commit violated
   the property (kept as a regression witness; replayed on the implementation
   by the corpus). *)
Theorem C11_refuted_before_fix :
  exists text pos, (pos <= length text)%nat /\
    from_parse_error cfg_original text pos <> pretty_spec text pos.
Proof. exact pretty_original_refuted. Qed.
Print Assumptions C11_refuted_before_fix.

Check pretty_spec : bytes -> nat -> pretty_out.
Check (eq_refl : spec_line [97; 10; 98]%N 2 = 2%nat).
Check (eq_refl : spec_col [97; 10; 195; 169; 98]%N 4 = 2%nat).
