(* C03 — generated types follow the documented field/arity mapping. *)
From PegV Require Import Utf8 Utf8Facts State Terminals Syntax Fields FieldsFacts GetFieldsFacts TypesFacts Literals Model Spec ShapeFacts Arity Compile Sim Conform ConformX Extracted.
From PegV Require WellFormed TermModel MemoEq MemoSpec MemoTerm.

Theorem C03_facts :
  fcfg_sound Extracted.fcfg = true /\
  Extracted.file_codegen_src_common_rs = true /\ Extracted.file_codegen_src_rule_rs = true /\
  Extracted.file_codegen_src_choice_rs = true /\ Extracted.file_codegen_src_sequence_rs = true /\
  Extracted.file_codegen_src_closure_rs = true /\ Extracted.file_codegen_src_optional_rs = true /\
  Extracted.file_codegen_src_field_rs = true /\ Extracted.file_codegen_src_grammar_mod_rs = true /\
  Extracted.file_codegen_src_extern_rule_rs = true /\ Extracted.file_codegen_src_char_rule_rs = true /\
  Extracted.file_codegen_src_include_rule_rs = true /\ Extracted.file_codegen_src_lookahead_rs = true.
Proof. repeat split; reflexivity. Qed.
Print Assumptions C03_facts.

(* the tables in the source are the documented lattice One < Optional < Multiple *)
Theorem C03_lattice : forall a b,
  combine_arity Extracted.fcfg a b = arity_join a b /\
  opt_arity Extracted.fcfg a = arity_join Optional a /\
  clo_arity Extracted.fcfg a = Multiple /\
  seq_dup_arity Extracted.fcfg = Multiple /\
  choice_missing Extracted.fcfg a = arity_join Optional a /\
  choice_new Extracted.fcfg a = arity_join Optional a.
Proof. intros [] []; repeat split; reflexivity. Qed.
Print Assumptions C03_lattice.

(* Soundness of the mapping, for every grammar, expression and input: on the
   successful path of the PEG semantics, every field-match event belongs to a
   declared field; a field declared plain (One) is matched exactly once, a field
   declared Option at most once (Vec: any number of times), and the rule type of
   the event is one of the types declared for the field (a multi-type field's
   generated enum has a variant for it). *)
Theorem C03_arity_sound :
  forall (shk : shooks) (g : grammar) (n F : nat) skip e cs o evs cs' o' l own,
    get_fields Extracted.fcfg F g e = GFOk own ->
    sv_expr (srun Extracted.fcfg shk g true n) skip e cs o = SOk evs cs' o' l ->
    (forall ev, In ev evs -> has_fd (ev_field ev) own = true /\
                               has_type (ev_typ ev) (types_of (ev_field ev) own) = true) /\
    (forall f a, arity_of f own = Some a ->
       match a with
       | One => length (mine f evs) = 1
       | Optional => length (mine f evs) <= 1
       | Multiple => True
       end).
Proof.
  intros shk g n F skip e cs o evs cs' o' l own G E.
  destruct (proj1 (arity_sound Extracted.fcfg (proj1 C03_facts) shk g true n) _ _ _ _ _ _ _ _ _ _ G E) as [N [T C]].
  split; [intros ev Hin; split; [apply N|apply T]; exact Hin|]. intros f a Ha. specialize (C f a Ha). destruct a; exact C.
Qed.
Print Assumptions C03_arity_sound.

(* hence the value of every rule match can be stored in the declared type: the
   specification never gets stuck on an arity mismatch *)
Theorem C03_values_fit :
  forall (shk : shooks) (g : grammar) n (r : rule) skip cs o evs cs' o' l rf consumed span,
    get_fields Extracted.fcfg (gf_fuel_s g) g (r_def r) = GFOk rf ->
    sv_expr (srun Extracted.fcfg shk g true n) skip (r_def r) cs o = SOk evs cs' o' l ->
    shape Extracted.fcfg g r consumed span evs <> None.
Proof. intros. eapply (shape_total Extracted.fcfg (proj1 C03_facts)); eauto. Qed.
Print Assumptions C03_values_fit.

(* the declaration emitters: arity decides the wrapper, the type set decides the
   inner type, `*` decides Box, `char` is the built-in *)
Theorem C03_field_type_single : forall parent n t b a,
  field_type parent {| fd_name := n; fd_types := [(t, b)]; fd_arity := a |} =
  Some (match a with One => fun x => x | Optional => ROption | Multiple => RVec end
          ((if b then RBox else fun x => x) (if name_eqb t n_char then RChar else RName t))).
Proof. intros. unfold field_type, raw_type. cbn. destruct a, b; reflexivity. Qed.
Print Assumptions C03_field_type_single.

Theorem C03_field_type_enum : forall parent n t1 t2 ts a,
  field_type parent {| fd_name := n; fd_types := t1 :: t2 :: ts; fd_arity := a |} =
  Some (match a with One => fun x => x | Optional => ROption | Multiple => RVec end
          (RName (parent ++ underscore :: n))).
Proof. intros. unfold field_type. cbn. destruct t1, a; reflexivity. Qed.
Print Assumptions C03_field_type_enum.

(* rule kinds: @string -> String (or {string, position}), field-less -> unit
   struct, @position adds the range, override-only -> alias / enum *)
Theorem C03_rule_kinds : forall leftrec_clone posv g s fuel r fields,
  get_fields Extracted.fcfg fuel g (r_def r) = GFOk fields ->
  forall ds, compile_rule Extracted.fcfg true leftrec_clone posv g s fuel r = COk ds ->
  let fl := flags_of (r_directives r) in
  (fl_string fl = true -> ds = [if fl_position fl then DStruct (r_name r) [(n_string, RString)] true else DAlias (r_name r) RString]) /\
  (fl_string fl = false -> fields = [] -> ds = [if fl_position fl then DStruct (r_name r) [] true else DUnit (r_name r)]) /\
  (fl_string fl = false -> forall fd, fields = [fd] -> fd_name fd = n_override ->
     (multi_typed fd = false -> exists t, field_type (r_name r) fd = Some t /\ ds = [DAlias (r_name r) t]) /\
     (multi_typed fd = true -> ds = [DEnum (r_name r) (fd_types fd)] /\ fd_arity fd = One)).
Proof.
  intros lc pv g s fuel r fields G ds C. cbn zeta. unfold compile_rule in C. rewrite G in C.
  destruct (fl_export (flags_of (r_directives r)) && fl_string (flags_of (r_directives r))); [discriminate|].
  destruct (name_eqb (r_name r) n_Whitespace && negb (fl_no_skip_ws (flags_of (r_directives r)))); [discriminate|].
  destruct ((fl_memoize (flags_of (r_directives r)) || lc && fl_left_recursive (flags_of (r_directives r))) && negb (has_clone s)); [discriminate|].
  destruct (position_variant_error pv g (flags_of (r_directives r)) fields); [discriminate|].
  destruct (lit_check true g fuel (r_def r)); try discriminate.
  destruct (fl_string (flags_of (r_directives r))) eqn:Es.
  - injection C as <-. split; [reflexivity|]. split; intro; discriminate.
  - remember (fl_position (flags_of (r_directives r))) as pos.
    remember (fl_export (flags_of (r_directives r))) as ex.
    split; [intro; discriminate|]. split.
    + intros _ ->. cbn in C. destruct pos; injection C as <-; reflexivity.
    + intros _ fd -> Hn. rewrite Hn in C. cbn in C.
      split; intro Hm; rewrite Hm in C.
      * destruct ex; [discriminate|].
        destruct pos; [discriminate|].
        destruct (field_type (r_name r) fd) as [t|]; [|discriminate]. injection C as <-. eauto.
      * destruct (arity_eqb (fd_arity fd) One) eqn:Ea; [|discriminate]. injection C as <-.
        split; [reflexivity|]. destruct (fd_arity fd); try discriminate; reflexivity.
Qed.
Print Assumptions C03_rule_kinds.

(* The value plumbing of the generated code agrees with the declarations: the
   model of the generated parser never reaches a shape mismatch (a field missing
   from an arm's result, a One field without a value, extend on a non-Vec, a
   binding that is not in the struct) - for every grammar without
   @memoize/@leftrec, every input and every recursion bound.  These are the
   places where rustc would reject the code, or a template would silently build
   a value of another type than the one declared. *)
Theorem C03_templates_agree_with_declarations :
  forall (ustate : Type) (hk : hooks ustate) (shk : shooks) (g : grammar),
    pure_hooks ustate hk shk -> plain_grammar g ->
    forall fuel rule_name cs u, all_scalar cs ->
      fst (m_parse ustate Extracted.scfg Extracted.tcfg Extracted.fcfg Extracted.rcfg hk g
                   fuel rule_name (encode_str cs) u) <> MPanic PanicShape.
Proof.
  intros ustate hk shk g Hp Hg fuel rule_name cs u Hs E.
  pose proof (conform_x ustate hk shk g Hp Hg fuel rule_name cs u Hs) as C.
  rewrite E in C. cbn in C. apply C. reflexivity.
Qed.
Print Assumptions C03_templates_agree_with_declarations.

(* The same for grammars with any subset of rules marked @memoize (no @leftrec rule) that pass the
   well-formedness check of C01: the memoized parser fails at a panic site only where the parser of
   the unmarked grammar fails at the SAME site (MemoEq: the relation between the two runs keeps
   the site), the unmarked parser returns (C01_terminates) and is free of shape mismatches (above). *)
Theorem C03_templates_agree_memoized :
  forall (ustate : Type) (hk : hooks ustate) (shk : shooks) (g : grammar) (nul : name -> bool) (rk : WellFormed.runit -> nat),
    pure_hooks ustate hk shk ->
    (forall r, In (GRule r) g -> fl_left_recursive (flags_of (r_directives r)) = false) ->
    WellFormed.wf_check g nul rk = true ->
    forall fuel rule_name cs u, all_scalar cs ->
      fst (m_parse ustate Extracted.scfg Extracted.tcfg Extracted.fcfg Extracted.rcfg hk g
                   fuel rule_name (encode_str cs) u) <> MPanic PanicShape.
Proof.
  intros ustate hk shk g nul rk Hp NoLR WF fuel rule_name cs u Hs E.
  pose proof WF as WF'. rewrite <- MemoTerm.wf_check_strip in WF'.
  destruct (TermModel.model_terminates ustate Extracted.scfg Extracted.fcfg Extracted.rcfg hk shk (MemoEq.strip g)
              eq_refl eq_refl eq_refl Hp (MemoSpec.strip_plain g NoLR) nul rk WF' rule_name cs u Hs) as [F H].
  destruct (H F (Nat.le_refl F)) as [H1 _]. change term_cfg_expected with Extracted.tcfg in H1.
  destruct Hp as [P1 [P2 P3]].
  assert (Pc : forall f v u0 u', fst (h_check hk f v u0) = fst (h_check hk f v u')) by (intros; rewrite !P1; reflexivity).
  assert (Pe : forall f bs u0 u', fst (h_extern hk f bs u0) = fst (h_extern hk f bs u')) by (intros; rewrite !P3; reflexivity).
  pose proof (MemoEq.memoize_transparent ustate Extracted.scfg Extracted.tcfg Extracted.fcfg Extracted.rcfg hk g (encode_str cs)
                NoLR Pc Pe fuel F rule_name u u) as W.
  rewrite E in W.
  pose proof (C03_templates_agree_with_declarations ustate hk shk (MemoEq.strip g) (conj P1 (conj P2 P3))
                (MemoSpec.strip_plain g NoLR) F rule_name cs u Hs) as N.
  destruct (fst (m_parse ustate Extracted.scfg Extracted.tcfg Extracted.fcfg Extracted.rcfg hk (MemoEq.strip g) F rule_name (encode_str cs) u))
    as [v2 s2|e2|p2|]; cbn in W; try contradiction.
  subst p2. apply N. reflexivity.
Qed.
Print Assumptions C03_templates_agree_memoized.
