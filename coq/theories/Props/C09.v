(* C09 — @position ranges are exactly the byte span the rule consumed. *)
From PegV Require Import Utf8 Utf8Facts State Terminals TerminalsSpec TerminalsOk Syntax Fields
  FieldsFacts GetFieldsFacts Literals LiteralsFacts Model Spec SpecPos ShapeFacts ErrLog Sim Conform ConformX MemoEq MemoSpec Extracted.
From PegV Require Import CleanFrame UsualShape.
From PegV Require Local LocalConform.

Theorem C09_facts :
  Extracted.file_codegen_src_rule_rs = true /\ Extracted.file_runtime_src_state_rs = true /\
  rec_le Extracted.scfg = true /\ fcfg_sound Extracted.fcfg = true.
Proof. repeat split; reflexivity. Qed.
Print Assumptions C09_facts.

(* M records the spans S attaches: the value M returns is S's value (whose
   @position nodes carry (offset at rule entry, offset at rule exit)), and
   the entry point starts at offset 0 *)
Theorem C09_span :
  forall (ustate : Type) (hk : hooks ustate) (shk : shooks) (g : grammar),
    pure_hooks ustate hk shk -> plain_grammar g ->
    forall fuel rule_name cs u v st', all_scalar cs ->
      fst (m_parse ustate Extracted.scfg Extracted.tcfg Extracted.fcfg Extracted.rcfg hk g
                   fuel rule_name (encode_str cs) u) = MOk v st' ->
      exists cs' l, sv_rule (srun Extracted.fcfg shk g true fuel) rule_name cs 0 = SOk v cs' (off st') l.
Proof.
  intros ustate hk shk g Hp Hg fuel rule_name cs u v st' Hs E.
  pose proof (conform_x ustate hk shk g Hp Hg fuel rule_name cs u Hs) as C.
  rewrite E in C. destruct C as [m [cs' [l [E1 _]]]]. exists cs', l. exact E1.
Qed.
Print Assumptions C09_span.

(* in S: a rule match from offset o to o' has o <= o', every range recorded
   anywhere inside its value lies within [o, o'] with start <= end, and the
   values of successive field matches of an expression occupy successive,
   non-overlapping stretches (ordered) *)
Theorem C09_nest : forall fcfg shk g insens,
  (forall f bs v n, sh_extern shk f bs = inl (v, n) -> spans v = []) ->
  forall n,
  (forall nm cs o v cs' o' l, sv_rule (srun fcfg shk g insens n) nm cs o = SOk v cs' o' l ->
      o <= o' /\ within o o' v) /\
  (forall skip e cs o evs cs' o' l, sv_expr (srun fcfg shk g insens n) skip e cs o = SOk evs cs' o' l ->
      ordered o o' evs).
Proof.
  intros fcfg shk g insens Hext n.
  destruct (spec_positions fcfg shk g insens Hext n) as [He [Hr _]]. split; [exact Hr|exact He].
Qed.
Print Assumptions C09_nest.

(* the range of a @position node is its own span; a @string @position node
   holds the consumed slice next to it *)
Theorem C09_own : forall fcfg g r consumed span evs v,
  fl_position (flags_of (r_directives r)) = true ->
  shape fcfg g r consumed span evs = Some v ->
  (exists fs, v = VStruct (r_name r) fs (Some span)) \/
  (fl_string (flags_of (r_directives r)) = false /\
   exists fd, get_fields fcfg (gf_fuel_s g) g (r_def r) = GFOk [fd] /\ name_eqb (fd_name fd) n_override = true).
Proof. exact spec_own_span. Qed.
Print Assumptions C09_own.

Theorem C09_string_slice : forall fcfg g r consumed span evs,
  fl_string (flags_of (r_directives r)) = true -> fl_position (flags_of (r_directives r)) = true ->
  shape fcfg g r consumed span evs = Some (VStruct (r_name r) [(n_string, VStr (encode_str consumed))] (Some span)).
Proof. intros fcfg g r consumed span evs H1 H2. unfold shape. rewrite H1, H2. reflexivity. Qed.
Print Assumptions C09_string_slice.

(* grammars with @memoize rules (any subset, no @leftrec rule): the positions in the tree the
   memoized parser returns are those of the specification *)
Theorem C09_span_memoized :
  forall (ustate : Type) (hk : hooks ustate) (shk : shooks) (g : grammar),
    pure_hooks ustate hk shk ->
    (forall r, In (GRule r) g -> fl_left_recursive (flags_of (r_directives r)) = false) ->
    forall n m rule_name cs u v st', all_scalar cs ->
      fst (m_parse ustate Extracted.scfg Extracted.tcfg Extracted.fcfg Extracted.rcfg hk g
                   n rule_name (encode_str cs) u) = MOk v st' ->
      s_parse Extracted.fcfg shk g true m rule_name cs = SFuel \/
      (exists p, fst (m_parse ustate Extracted.scfg Extracted.tcfg Extracted.fcfg Extracted.rcfg hk (strip g)
                              m rule_name (encode_str cs) u) = MPanic p) \/
      exists cs' l, s_parse Extracted.fcfg shk g true m rule_name cs = SOk v cs' (off st') l.
Proof.
  intros ustate hk shk g Hp NoLR n m rule_name cs u v st' Hs E.
  pose proof (memoized_vs_spec ustate Extracted.scfg Extracted.fcfg Extracted.rcfg hk shk g
                eq_refl eq_refl eq_refl Hp NoLR n m rule_name cs u Hs) as C.
  change term_cfg_expected with Extracted.tcfg in C. rewrite E in C. exact C.
Qed.
Print Assumptions C09_span_memoized.

(* ---- @position on a @leftrec rule of the usual shape (UsualShape.v): the value of every turn of the growth
   loop - the seed and every extension, hence every node nested in the recursive field - records the range
   from the rule's entry offset to that turn's own end offset: nested nodes share the start of their parent
   and end inside it *)
Theorem C09_leftrec_positions :
  forall (ustate : Type) (scfg : state_cfg) (tcfg : term_cfg) (fcfg : fields_cfg) 
    (rcfg : rule_cfg) (hk : hooks ustate) (g : grammar) (A : rule) (l : name) 
    (bx : bool) (x1 : expr) (xs : list expr) (b1 : expr) (balts : list expr)
    (rf fds fds1 inner1 : list fdesc),
  get_fields fcfg (gf_fuel g) g (adef A l bx x1 xs b1 balts) = GFOk rf ->
  forall (k : nat) (st : pstate) (c : cached) (gl0 : glob ustate) (v1 : value) 
    (s1 : pstate) (gl1 : glob ustate),
  fl_position (flags_of (r_directives A)) = true ->
  fl_string (flags_of (r_directives A)) = false ->
  (forall fd : fdesc, rf = [fd] -> name_eqb (fd_name fd) n_override = false) ->
  usual_body ustate scfg tcfg fcfg rcfg hk g A l x1 xs b1 balts rf fds fds1 inner1 k st c gl0 =
  (MOk v1 s1, gl1) ->
  exists fs : list (name * value), v1 = VStruct (r_name A) fs (Some (off st, off s1)).
Proof. exact usual_turn_position. Qed.
Print Assumptions C09_leftrec_positions.

(* the span clause for the unmarked part of ANY grammar (Local.v) *)
Theorem C09_span_clean_part :
  forall (ustate : Type) (hk : hooks ustate) (shk : shooks) (g : grammar) (clean : name -> bool),
    pure_hooks ustate hk shk ->
    (forall n, clean n = true -> CleanFrame.rule_clean g clean n) ->
    (forall n r, clean n = true -> find_rule g n = Some r -> CleanFrame.eclean clean (r_def r) = true) ->
    clean n_Whitespace = true ->
    forall fuel rule_name cs u v st', clean rule_name = true -> all_scalar cs ->
      fst (m_parse ustate Extracted.scfg Extracted.tcfg Extracted.fcfg Extracted.rcfg hk g
                   fuel rule_name (encode_str cs) u) = MOk v st' ->
      exists cs' l, sv_rule (srun Extracted.fcfg shk (Local.unmarkb true g) true fuel) rule_name cs 0 = SOk v cs' (off st') l.
Proof.
  intros ustate hk shk g clean Hp Hc Hi Hw fuel rule_name cs u v st' L Hs E.
  pose proof (LocalConform.clean_conforms ustate hk shk g clean Hp Hc Hi Hw fuel rule_name cs u L Hs) as C.
  rewrite E in C. destruct C as [m [cs' [l [E1 _]]]]. exists cs', l. exact E1.
Qed.
Print Assumptions C09_span_clean_part.
