(* C08 — Whitespace is skipped before every token of skipping rules and nowhere else. *)
From PegV Require Import Utf8 Utf8Facts State Terminals TerminalsSpec TerminalsOk Syntax Fields
  FieldsFacts GetFieldsFacts Literals LiteralsFacts Model Spec SpecPos ShapeFacts ErrLog Sim Conform ConformX Extracted.
From PegV Require CleanFrame Local LocalConform.

Theorem C08_facts :
  Extracted.file_codegen_src_common_rs = true /\ Extracted.file_codegen_src_rule_rs = true /\
  Extracted.file_codegen_src_field_rs = true /\ Extracted.file_codegen_src_string_rs = true /\
  Extracted.file_codegen_src_eoi_rs = true /\ Extracted.file_codegen_src_include_rule_rs = true /\
  Extracted.file_runtime_src_builtin_parsers_rs = true /\ rec_le Extracted.scfg = true.
Proof. repeat split; reflexivity. Qed.
Print Assumptions C08_facts.

(* S skips exactly at the documented points (s_with_ws in the Field, literal,
   range and $ cases of Spec.sexpr_step, under the flag of the rule whose body
   is being evaluated; an included body runs under the includer's flag; a
   referenced rule uses its own flag); M agrees with S on every consumed byte *)
Theorem C08_points :
  forall (ustate : Type) (hk : hooks ustate) (shk : shooks) (g : grammar),
    pure_hooks ustate hk shk -> plain_grammar g ->
    forall fuel rule_name cs u, all_scalar cs ->
      conforms cs
        (fst (m_parse ustate Extracted.scfg Extracted.tcfg Extracted.fcfg Extracted.rcfg hk g
                      fuel rule_name (encode_str cs) u))
        (s_parse Extracted.fcfg shk g true fuel rule_name cs).
Proof. exact conform_x. Qed.
Print Assumptions C08_points.

(* a @no_skip_ws context makes no Whitespace call of its own *)
Theorem C08_noskip : forall ustate (ev : evals ustate) A ctx st gl (k : pstate -> glob ustate -> R ustate A),
  c_skip ctx = false -> with_ws ustate ev ctx st gl k = k st gl.
Proof. intros. unfold with_ws. rewrite H. reflexivity. Qed.
Print Assumptions C08_noskip.

(* the flag of a rule body is the rule's own directive *)
Theorem C08_callee : forall sv fcfg shk g r nm cs o,
  find_grule g nm = Some (GRule r) -> fl_left_recursive (flags_of (r_directives r)) = false ->
  srule_step fcfg shk g sv nm cs o =
  match sv_expr sv (negb (fl_no_skip_ws (flags_of (r_directives r)))) (r_def r) cs o with
  | SOk evs cs' o' l =>
    match shape fcfg g r (firstn (length cs - length cs') cs) (o, o') evs with
    | Some v => match s_checks shk (checks_of (r_directives r)) v o' with
                | None => SOk v cs' o' l | Some e => SFail (l ++ [e]) end
    | None => SStuck
    end
  | SFail l => SFail l | SStuck => SStuck | SFuel => SFuel
  end.
Proof. intros. unfold srule_step. rewrite H, H0. reflexivity. Qed.
Print Assumptions C08_callee.

(* the built-in skipper consumes the longest prefix over exactly
   { space, \t, \n, \x0C, \r } and never fails *)
Theorem C08_builtin : forall st cs,
  rest st = encode_str cs -> all_scalar cs ->
  parse_Whitespace st =
  TOk tt {| rest := encode_str (skipn (length (take_ws cs)) cs);
            off := off st + length (encode_str (take_ws cs)); far := far st |}.
Proof. intros st cs Hr Hs. unfold parse_Whitespace. rewrite Hr. apply ws_loop_ok. exact Hs. Qed.
Print Assumptions C08_builtin.

Theorem C08_ws_set : forall c,
  is_ws_char c = true <-> (c = 32 \/ c = 9 \/ c = 10 \/ c = 12 \/ c = 13)%N.
Proof.
  intro c. unfold is_ws_char, is_ascii_ws. rewrite !orb_true_iff, !N.eqb_eq. tauto.
Qed.
Print Assumptions C08_ws_set.

Theorem C08_longest : forall cs,
  Forall (fun c => is_ws_char c = true) (take_ws cs) /\
  match skipn (length (take_ws cs)) cs with c :: _ => is_ws_char c = false | [] => True end.
Proof.
  induction cs as [|c cs [IH1 IH2]]; cbn; [split; [constructor|exact I]|].
  destruct (is_ws_char c) eqn:E; cbn; [split; [constructor; auto|exact IH2]|split; [constructor|exact E]].
Qed.
Print Assumptions C08_longest.

(* the same for the unmarked part of ANY grammar (Local.v: marked rules elsewhere cannot influence it) *)
Theorem C08_points_clean_part :
  forall (ustate : Type) (hk : hooks ustate) (shk : shooks) (g : grammar) (clean : name -> bool),
    pure_hooks ustate hk shk ->
    (forall n, clean n = true -> CleanFrame.rule_clean g clean n) ->
    (forall n r, clean n = true -> find_rule g n = Some r -> CleanFrame.eclean clean (r_def r) = true) ->
    clean n_Whitespace = true ->
    forall fuel rule_name cs u, clean rule_name = true -> all_scalar cs ->
      conforms cs
        (fst (m_parse ustate Extracted.scfg Extracted.tcfg Extracted.fcfg Extracted.rcfg hk g
                      fuel rule_name (encode_str cs) u))
        (s_parse Extracted.fcfg shk (Local.unmarkb true g) true fuel rule_name cs).
Proof. exact LocalConform.clean_conforms. Qed.
Print Assumptions C08_points_clean_part.
