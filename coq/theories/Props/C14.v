(* C14 — User check and extern functions decide matches exactly as documented. *)
From PegV Require Import Utf8 Utf8Facts State Terminals TerminalsSpec TerminalsOk Syntax Fields
  FieldsFacts GetFieldsFacts Literals LiteralsFacts Model Spec ShapeFacts ErrLog Sim Conform ConformX Extracted.

Theorem C14_facts :
  Extracted.file_codegen_src_rule_rs = true /\ Extracted.file_codegen_src_char_rule_rs = true /\
  Extracted.file_codegen_src_extern_rule_rs = true /\ Extracted.file_codegen_src_common_rs = true /\
  Extracted.file_runtime_src_state_rs = true /\ rec_le Extracted.scfg = true.
Proof. repeat split; reflexivity. Qed.
Print Assumptions C14_facts.

(* The specification's reading of the documentation: a rule with checks
   matches exactly when its body matches and every check returns true for the
   value the rule produces (checked in directive order, first failure wins,
   reported at the end of the body's match). *)
Theorem C14_checks_spec : forall shk cks v o,
  (s_checks shk cks v o = None <-> Forall (fun f => sh_check shk f v = true) cks).
Proof.
  intros shk cks v o. induction cks as [|f cks IH]; cbn.
  - split; [constructor|reflexivity].
  - destruct (sh_check shk f v) eqn:E.
    + rewrite IH. split; [constructor; auto|intro H; inversion H; auto].
    + split; [discriminate|intro H; inversion H; congruence].
Qed.
Print Assumptions C14_checks_spec.

(* M agrees with that reading (value, verdict, consumed bytes, error): conformance
   for grammars with checks and externs as pure oracles *)
Theorem C14_conform :
  forall (ustate : Type) (hk : hooks ustate) (shk : shooks) (g : grammar),
    pure_hooks ustate hk shk -> plain_grammar g ->
    forall fuel rule_name cs u, all_scalar cs ->
      conforms cs
        (fst (m_parse ustate Extracted.scfg Extracted.tcfg Extracted.fcfg Extracted.rcfg hk g
                      fuel rule_name (encode_str cs) u))
        (s_parse Extracted.fcfg shk g true fuel rule_name cs).
Proof. exact conform_x. Qed.
Print Assumptions C14_conform.

(* the check calls of the model, for arbitrary (stateful) hooks: run in
   directive order on the value the rule returns, stop at the first false,
   which is an ordinary Err at the body's end state; the value and state are
   returned unchanged when all pass *)
Theorem C14_run_checks : forall ustate scfg (hk : hooks ustate) cks v st' gl,
  match fst (run_checks ustate scfg hk cks v st' gl) with
  | MOk v' st'' => v' = v /\ st'' = st'
  | MErr e => exists f, In f cks /\ e = report_error scfg st' (CheckFunctionFailed (join_names f))
  | _ => False
  end.
Proof.
  intros ustate scfg hk cks v st'. induction cks as [|f cks IH]; intro gl; cbn [run_checks].
  - cbn. auto.
  - destruct (h_check hk f v (g_user gl)) as [ok u]. destruct ok.
    + specialize (IH (set_user ustate u gl)).
      destruct (fst (run_checks ustate scfg hk cks v st' (set_user ustate u gl))); auto.
      destruct IH as [f0 [H1 H2]]. exists f0. split; [right; exact H1|exact H2].
    + cbn. exists f. split; [left; reflexivity|reflexivity].
Qed.
Print Assumptions C14_run_checks.

(* extern rules: the function receives exactly the remaining input and the
   user state; Ok((v, n)) yields v and advances exactly n bytes through the
   checked advance; Err(msg) is an ordinary failure at the current offset *)
Theorem C14_extern : forall ustate scfg (hk : hooks ustate) r st gl,
  fst (extern_rule_body ustate scfg hk r st gl) =
  match fst (h_extern hk (er_function r) (rest st) (g_user gl)) with
  | inl (v, n) =>
    match advance_safe st n with
    | AOk st' => MOk v st'
    | AOverrun => MPanic PanicIndex
    | ASplit => MPanic PanicSplit
    end
  | inr msg => MErr (report_error scfg st (ExternRuleFailed msg))
  end.
Proof.
  intros. unfold extern_rule_body. destruct (h_extern hk (er_function r) (rest st) (g_user gl)) as [[[v n]|msg] u]; cbn.
  - destruct (advance_safe st n); reflexivity.
  - reflexivity.
Qed.
Print Assumptions C14_extern.
