(* C20 — Parsing is a pure function of grammar and input, also across threads. *)
From PegV Require Import Utf8 State Terminals Syntax Fields Literals Model Determ Extracted.

Theorem C20_facts :
  Extracted.scan_shared_state = true /\
  Extracted.file_codegen_src_grammar_mod_rs = true /\ Extracted.file_runtime_src_global_rs = true /\
  Extracted.file_runtime_src_peg_parser_rs = true /\ Extracted.file_runtime_src_trace_rs = true.
Proof. repeat split; reflexivity. Qed.
Print Assumptions C20_facts.

(* every parse call starts from a fresh state and a fresh global (empty cache, new
   tracer): the result of a call is a function of (grammar, hooks, input, user
   state) alone, so a sequence of calls returns the list of single-call results *)
Theorem C20_pure : forall ustate scfg tcfg fcfg rcfg hk g fuel r (inputs : list (bytes * ustate)),
  map (fun iu => m_parse ustate scfg tcfg fcfg rcfg hk g fuel r (fst iu) (snd iu)) inputs =
  map (fun iu => ev_rule (run ustate scfg tcfg fcfg rcfg hk g fuel) r (init_state (fst iu)) (init_glob ustate (snd iu))) inputs.
Proof. intros. reflexivity. Qed.
Print Assumptions C20_pure.

Theorem C20_fresh_cache : forall ustate (u : ustate), g_cache (init_glob ustate u) = [] /\ g_trace (init_glob ustate u) = [].
Proof. intros. split; reflexivity. Qed.
Print Assumptions C20_fresh_cache.

(* parses whose steps act on disjoint private components: every interleaving
   projects, for each parse, to its own sequential run *)
Theorem C20_interleave : forall (St : Type) (step : St -> St) sched s i,
  run_sched St step sched s i = iter St step (count_occ Nat.eq_dec sched i) (s i).
Proof. exact interleave_projects. Qed.
Print Assumptions C20_interleave.

Theorem C20_schedule_irrelevant : forall (St : Type) (step : St -> St) s1 s2 s,
  (forall i, count_occ Nat.eq_dec s1 i = count_occ Nat.eq_dec s2 i) ->
  forall i, run_sched St step s1 s i = run_sched St step s2 s i.
Proof. exact interleave_irrelevant. Qed.
Print Assumptions C20_schedule_irrelevant.
