(* C17 — The bootstrapped grammar parser is a fixpoint of the generator.
   Decided by re-bootstrapping (translation validation, lib/props/c17.py); the
   Coq side is the instance: the grammar of grammars, as read by the shipped
   front end, is a grammar the general theorems apply to. *)
From PegV Require Import Utf8 State Syntax Fields FieldsFacts Model Spec Conform ConformX GrammarEbnf Extracted.

Theorem C17_facts :
  Extracted.file_codegen_src_grammar_mod_rs = true /\ Extracted.file_codegen_src_header_rs = true.
Proof. repeat split; reflexivity. Qed.
Print Assumptions C17_facts.

Theorem C17_instance :
  plain_grammar GrammarEbnf.g /\
  (forall fuel cs, all_scalar cs ->
    conforms cs
      (fst (m_parse unit Extracted.scfg Extracted.tcfg Extracted.fcfg Extracted.rcfg no_hooks GrammarEbnf.g
                    fuel [71; 114; 97; 109; 109; 97; 114]%N (encode_str cs) tt))
      (s_parse Extracted.fcfg no_shooks GrammarEbnf.g true fuel [71; 114; 97; 109; 109; 97; 114]%N cs)).
Proof.
  assert (P : plain_grammar GrammarEbnf.g) by (apply plain_grammar_b_ok; vm_compute; reflexivity).
  split; [exact P|]. intros fuel cs Hs.
  exact (conform_x unit no_hooks no_shooks GrammarEbnf.g no_hooks_pure P fuel _ cs tt Hs).
Qed.
Print Assumptions C17_instance.

(* the declared fields of every rule of grammar.ebnf can be computed (no include cycle, no
   field in a lookahead): get_fields succeeds on all of them *)
Theorem C17_fields_ok :
  forallb (fun r => match r with
                    | GRule r => match get_fields Extracted.fcfg (gf_fuel GrammarEbnf.g) GrammarEbnf.g (r_def r) with
                                 | GFOk _ => true | _ => false end
                    | _ => true end) GrammarEbnf.g = true.
Proof. vm_compute. reflexivity. Qed.
Print Assumptions C17_fields_ok.
