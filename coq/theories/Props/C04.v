(* C04 — No panic and no split UTF-8 sequence on any input string. *)
From PegV Require Import Utf8 Utf8Facts State Terminals TerminalsSpec TerminalsOk Syntax Fields
  Literals LiteralsFacts Model Inv Valid Extracted.

Theorem C04_facts :
  Extracted.tcfg = term_cfg_expected /\ insens_guard Extracted.rcfg = true /\
  Extracted.file_runtime_src_builtin_parsers_rs = true /\ Extracted.file_runtime_src_state_rs = true /\
  Extracted.file_codegen_src_string_rs = true /\ Extracted.file_codegen_src_char_rule_rs = true /\
  Extracted.file_codegen_src_extern_rule_rs = true /\ Extracted.file_runtime_src_error_rs = true.
Proof. repeat split; reflexivity. Qed.
Print Assumptions C04_facts.

(* For every grammar (memoized and left-recursive rules included), every
   family of hooks whose extern functions return a char-boundary length within
   what they were given, every valid UTF-8 input and every fuel: the model of
   the generated parser never reaches a panic site of the runtime (index out
   of bounds, advance overrun, or a cursor advance that is not on a character
   boundary - the cfg(peginator_verif) assertion); a successful parse ends in
   a state anchored on a character boundary of the input (rest = the suffix at
   `off`, prefix and suffix valid UTF-8); a failed parse reports a position
   that is a character boundary inside the input. *)
Theorem C04_all :
  forall (ustate : Type) (hk : hooks ustate) (g : grammar) (input : bytes),
    ext_ok ustate hk -> valid_utf8 input ->
    forall fuel rule_name u,
      match m_parse ustate Extracted.scfg Extracted.tcfg Extracted.fcfg Extracted.rcfg hk g fuel rule_name input u with
      | (MOk _ st', _) => anchored input st'
      | (MErr e, _) => okpos input (e_pos e)
      | (MPanic p, _) => p <> PanicIndex /\ p <> PanicSplit
      | (MFuel, _) => True
      end.
Proof.
  intros ustate hk g input Hext Hv fuel rule_name u. unfold m_parse.
  assert (Hs : vst input (init_state input)).
  { split; [|discriminate]. exists []. repeat split; auto. apply valid_nil. }
  assert (Hg : vgl ustate input (init_glob ustate u)) by (intros n k c H; discriminate).
  pose proof (valid_invariant ustate Extracted.scfg Extracted.fcfg Extracted.rcfg eq_refl hk g Hext input
                              fuel rule_name (init_state input) (init_glob ustate u) Hs Hg) as V.
  destruct (ev_rule _ rule_name _ _) as [[v st'|e|p|] gl'].
  - destruct V as [[A _] _]. exact A.
  - destruct V as [H _]. exact H.
  - exact V.
  - exact I.
Qed.
Print Assumptions C04_all.

(* an anchored state's offset is a character boundary of the input *)
Theorem C04_boundary : forall input st, anchored input st -> is_boundary input (off st) = true /\ off st <= length input.
Proof.
  intros input st [pre [E [L [V1 V2]]]]. rewrite E, <- L. split.
  - apply is_boundary_app_exact. exact V2.
  - rewrite app_length. apply Nat.le_add_r.
Qed.
Print Assumptions C04_boundary.

Theorem C04_errpos : forall input p, okpos input p -> is_boundary input p = true /\ p <= length input.
Proof.
  intros input p [pre [suf [E [L [V1 V2]]]]]. rewrite E, <- L. split.
  - apply is_boundary_app_exact. exact V2.
  - rewrite app_length. apply Nat.le_add_r.
Qed.
Print Assumptions C04_errpos.

(* the compile-time ASCII guard of case-insensitive literals is load-bearing:
   without it the one-character insensitive matcher cuts U+9000 (E9 80 80) in
   two when asked for i'é' (U+00E9, truncated to the byte E9) *)
Theorem C04_guard_refuted :
  parse_character_literal_insensitive Extracted.scfg Extracted.tcfg
    {| rest := [233; 128; 128]%N; off := 0; far := None |} 233%N = TSplit.
Proof. reflexivity. Qed.
Print Assumptions C04_guard_refuted.

Theorem C04_guard : forall body,
  (exists c cs, decode_items body = DOk (c :: cs) /\ forallb is_ascii (c :: cs) = false) ->
  compile_lit true true body = LNonAsciiInsensitive.
Proof.
  intros body [c [cs [D A]]]. unfold compile_lit. rewrite D, A. reflexivity.
Qed.
Print Assumptions C04_guard.
