(* C02 — The returned tree holds exactly the matches on the successful path, in order. *)
From PegV Require Import Utf8 Utf8Facts State Terminals TerminalsSpec TerminalsOk Syntax Fields
  FieldsFacts GetFieldsFacts Literals LiteralsFacts Model Spec ShapeFacts ErrLog Sim Conform ConformX MemoEq MemoSpec Extracted.
From PegV Require CleanFrame Local LocalConform.

Theorem C02_facts :
  rec_le Extracted.scfg = true /\ Extracted.tcfg = term_cfg_expected /\
  fcfg_sound Extracted.fcfg = true /\ insens_guard Extracted.rcfg = true /\
  Extracted.file_runtime_src_builtin_parsers_rs = true /\ Extracted.file_runtime_src_state_rs = true /\
  Extracted.file_runtime_src_choice_helper_rs = true /\ Extracted.file_runtime_src_parse_result_rs = true /\
  Extracted.file_codegen_src_sequence_rs = true /\ Extracted.file_codegen_src_choice_rs = true /\
  Extracted.file_codegen_src_closure_rs = true /\ Extracted.file_codegen_src_optional_rs = true /\
  Extracted.file_codegen_src_lookahead_rs = true /\ Extracted.file_codegen_src_string_rs = true /\
  Extracted.file_codegen_src_field_rs = true /\ Extracted.file_codegen_src_eoi_rs = true /\
  Extracted.file_codegen_src_char_rule_rs = true /\ Extracted.file_codegen_src_misc_rs = true /\
  Extracted.file_codegen_src_rule_rs = true /\ Extracted.file_codegen_src_common_rs = true /\
  Extracted.file_codegen_src_include_rule_rs = true /\ Extracted.file_codegen_src_extern_rule_rs = true /\
  Extracted.file_codegen_src_grammar_mod_rs = true.
Proof. repeat split; reflexivity. Qed.
Print Assumptions C02_facts.

(* The value the model of the generated parser returns (assembled piecewise by
   the templates: box/enum/Some/vec! post-processing, sequence destructuring
   and extend, choice conversion with defaults, optional defaults, closure
   accumulation, struct / override / @string assembly) is the value the
   specification builds from the ordered list of field-match events on the
   successful path, grouped by field name and embedded by the declared arity
   (Spec.shape).  Abandoned alternatives, optionals, closure iterations and
   lookaheads contribute no event in S by definition. *)
Theorem C02_tree :
  forall (ustate : Type) (hk : hooks ustate) (shk : shooks) (g : grammar),
    pure_hooks ustate hk shk -> plain_grammar g ->
    forall fuel rule_name cs u v st', all_scalar cs ->
      fst (m_parse ustate Extracted.scfg Extracted.tcfg Extracted.fcfg Extracted.rcfg hk g
                   fuel rule_name (encode_str cs) u) = MOk v st' ->
      exists cs' l, s_parse Extracted.fcfg shk g true fuel rule_name cs = SOk v cs' (off st') l.
Proof.
  intros ustate hk shk g Hp Hg fuel rule_name cs u v st' Hs E.
  pose proof (conform_x ustate hk shk g Hp Hg fuel rule_name cs u Hs) as C.
  rewrite E in C. destruct C as [m [cs' [l [E1 _]]]]. eauto.
Qed.
Print Assumptions C02_tree.

(* every sub-expression: the fields a template hands upwards are the shape of
   the events of that sub-expression, and the events mention only its own names *)
Theorem C02_subexpressions :
  forall (ustate : Type) (hk : hooks ustate) (shk : shooks) (g : grammar),
    pure_hooks ustate hk shk -> plain_grammar g ->
    forall n ctx e st gl cs,
      dom Extracted.fcfg g (gf_fuel g) (c_fields ctx) e -> wf_rf (c_fields ctx) ->
      rest st = encode_str cs -> all_scalar cs ->
      corr (RVe Extracted.fcfg g ctx e) (far st) cs (off st)
           (fst (ev_expr (run ustate Extracted.scfg Extracted.tcfg Extracted.fcfg Extracted.rcfg hk g n) ctx e st gl))
           (sv_expr (srun Extracted.fcfg shk g true n) (c_skip ctx) e cs (off st)).
Proof.
  intros ustate hk shk g Hp Hg n.
  exact (proj1 (sim_x ustate hk shk g Hp Hg n)).
Qed.
Print Assumptions C02_subexpressions.

(* the spec's grouping: a Multiple field collects its events in input order *)
Theorem C02_order : forall fd a b,
  fd_arity fd = Multiple ->
  field_value fd (a ++ b) =
  Some (VList (map (wrap_enum fd) (mine (fd_name fd) a) ++ map (wrap_enum fd) (mine (fd_name fd) b))).
Proof. intros fd a b H. rewrite field_value_multiple, mine_app, map_app by exact H. reflexivity. Qed.
Print Assumptions C02_order.

(* grammars with @memoize rules (any subset, no @leftrec rule): the tree is still the one the
   specification builds from the events of the successful path *)
Theorem C02_tree_memoized :
  forall (ustate : Type) (hk : hooks ustate) (shk : shooks) (g : grammar),
    pure_hooks ustate hk shk ->
    (forall r, In (GRule r) g -> fl_left_recursive (flags_of (r_directives r)) = false) ->
    forall n m rule_name cs u v st', all_scalar cs ->
      fst (m_parse ustate Extracted.scfg Extracted.tcfg Extracted.fcfg Extracted.rcfg hk g
                   n rule_name (encode_str cs) u) = MOk v st' ->
      s_parse Extracted.fcfg shk g true m rule_name cs = SFuel \/
      (exists p, fst (m_parse ustate Extracted.scfg Extracted.tcfg Extracted.fcfg Extracted.rcfg hk (strip g)
                              m rule_name (encode_str cs) u) = MPanic p) \/
      exists cs' l, s_parse Extracted.fcfg shk g true m rule_name cs = SOk v cs' (off st') l.
Proof.
  intros ustate hk shk g Hp NoLR n m rule_name cs u v st' Hs E.
  pose proof (memoized_vs_spec ustate Extracted.scfg Extracted.fcfg Extracted.rcfg hk shk g
                eq_refl eq_refl eq_refl Hp NoLR n m rule_name cs u Hs) as C.
  change term_cfg_expected with Extracted.tcfg in C. rewrite E in C. exact C.
Qed.
Print Assumptions C02_tree_memoized.

(* the same for the unmarked part of ANY grammar (Local.v: marked rules elsewhere cannot influence it): the tree
   of a rule from which no marked rule is reachable is the tree of the specification of the unmarked grammar *)
Theorem C02_tree_clean_part :
  forall (ustate : Type) (hk : hooks ustate) (shk : shooks) (g : grammar) (clean : name -> bool),
    pure_hooks ustate hk shk ->
    (forall n, clean n = true -> CleanFrame.rule_clean g clean n) ->
    (forall n r, clean n = true -> find_rule g n = Some r -> CleanFrame.eclean clean (r_def r) = true) ->
    clean n_Whitespace = true ->
    forall fuel rule_name cs u v st', clean rule_name = true -> all_scalar cs ->
      fst (m_parse ustate Extracted.scfg Extracted.tcfg Extracted.fcfg Extracted.rcfg hk g
                   fuel rule_name (encode_str cs) u) = MOk v st' ->
      exists cs' l, s_parse Extracted.fcfg shk (Local.unmarkb true g) true fuel rule_name cs = SOk v cs' (off st') l.
Proof.
  intros ustate hk shk g clean Hp Hc Hi Hw fuel rule_name cs u v st' L Hs E.
  pose proof (LocalConform.clean_conforms ustate hk shk g clean Hp Hc Hi Hw fuel rule_name cs u L Hs) as C.
  rewrite E in C. destruct C as [m [cs' [l [E1 _]]]]. eauto.
Qed.
Print Assumptions C02_tree_clean_part.
