(* C13 — `>Rule` behaves exactly like writing the rule's body in place. *)
From PegV Require Import Utf8 Utf8Facts State Terminals TerminalsSpec TerminalsOk Syntax Fields
  FieldsFacts GetFieldsFacts Literals LiteralsFacts Model Spec ShapeFacts ErrLog Sim Conform ConformX Extracted.

Theorem C13_facts :
  Extracted.file_codegen_src_include_rule_rs = true /\ Extracted.file_codegen_src_misc_rs = true /\
  Extracted.file_codegen_src_common_rs = true.
Proof. repeat split; reflexivity. Qed.
Print Assumptions C13_facts.

(* declarations: the fields an include contributes are those of the
   parenthesised body, at every fuel, for any arity tables *)
Theorem C13_decl : forall fcfg fuel g n r,
  find_rule g n = Some r ->
  get_fields fcfg fuel g (EInclude n) = get_fields fcfg fuel g (EGroup (r_def r)).
Proof. intros fcfg [|fuel] g n r H; cbn; [reflexivity|]. rewrite H. reflexivity. Qed.
Print Assumptions C13_decl.

(* behaviour: under any context (the includer's whitespace setting and rule
   fields), any state and global, any sub-evaluators (hence also with
   memoized / left-recursive rules, any hooks), the generated code for the
   include is the generated code for the group of the body: result, tree,
   positions, farthest error, trace, cache, user state all coincide; the
   directives of the included rule do not occur. *)
Theorem C13_run : forall ustate scfg tcfg fcfg rcfg g (ev : evals ustate) ctx n r st gl,
  find_rule g n = Some r ->
  expr_step ustate scfg tcfg fcfg rcfg g ev ctx (EInclude n) st gl =
  expr_step ustate scfg tcfg fcfg rcfg g ev ctx (EGroup (r_def r)) st gl.
Proof. intros. cbn [expr_step]. rewrite H. reflexivity. Qed.
Print Assumptions C13_run.

Theorem C13_spec : forall g insens sv skip n r cs o,
  find_rule g n = Some r ->
  sexpr_step g insens sv skip (EInclude n) cs o = sexpr_step g insens sv skip (EGroup (r_def r)) cs o.
Proof. intros. cbn [sexpr_step]. rewrite H. reflexivity. Qed.
Print Assumptions C13_spec.

(* including a rule that is not a normal rule is rejected at compile time *)
Theorem C13_missing : forall fcfg fuel g n,
  find_rule g n = None -> get_fields fcfg (S fuel) g (EInclude n) = GFErr (GEIncludeNotFound n).
Proof. intros. cbn. rewrite H. reflexivity. Qed.
Print Assumptions C13_missing.
