(* C13 — `>Rule` behaves exactly like writing the rule's body in place. *)
From PegV Require Import Utf8 Utf8Facts State Terminals TerminalsSpec TerminalsOk Syntax Fields
  FieldsFacts GetFieldsFacts Literals LiteralsFacts Model Spec ShapeFacts ErrLog Sim Conform ConformX Subst Extracted.

Theorem C13_facts :
  Extracted.file_codegen_src_include_rule_rs = true /\ Extracted.file_codegen_src_misc_rs = true /\
  Extracted.file_codegen_src_common_rs = true.
Proof. repeat split; reflexivity. Qed.
Print Assumptions C13_facts.

(* declarations: the fields an include contributes are those of the
   parenthesised body, at every fuel, for any arity tables *)
Theorem C13_decl : forall fcfg fuel g n r,
  find_rule g n = Some r ->
  get_fields fcfg fuel g (EInclude n) = get_fields fcfg fuel g (EGroup (r_def r)).
Proof. intros fcfg [|fuel] g n r H; cbn; [reflexivity|]. rewrite H. reflexivity. Qed.
Print Assumptions C13_decl.

(* behaviour: under any context (the includer's whitespace setting and rule
   fields), any state and global, any sub-evaluators (hence also with
   memoized / left-recursive rules, any hooks), the generated code for the
   include is the generated code for the group of the body: result, tree,
   positions, farthest error, trace, cache, user state all coincide; the
   directives of the included rule do not occur. *)
Theorem C13_run : forall ustate scfg tcfg fcfg rcfg g (ev : evals ustate) ctx n r st gl,
  find_rule g n = Some r ->
  expr_step ustate scfg tcfg fcfg rcfg g ev ctx (EInclude n) st gl =
  expr_step ustate scfg tcfg fcfg rcfg g ev ctx (EGroup (r_def r)) st gl.
Proof. intros. cbn [expr_step]. rewrite H. reflexivity. Qed.
Print Assumptions C13_run.

Theorem C13_spec : forall g insens sv skip n r cs o,
  find_rule g n = Some r ->
  sexpr_step g insens sv skip (EInclude n) cs o = sexpr_step g insens sv skip (EGroup (r_def r)) cs o.
Proof. intros. cbn [sexpr_step]. rewrite H. reflexivity. Qed.
Print Assumptions C13_spec.

(* including a rule that is not a normal rule is rejected at compile time *)
Theorem C13_missing : forall fcfg fuel g n,
  find_rule g n = None -> get_fields fcfg (S fuel) g (EInclude n) = GFErr (GEIncludeNotFound n).
Proof. intros. cbn. rewrite H. reflexivity. Qed.
Print Assumptions C13_missing.

(* ---- whole grammars -----------------------------------------------------------
   g' is g with any subset of its includes - in any rules, at any nesting depth,
   also inside bodies that were themselves put in place - replaced by the
   parenthesised body of the included rule (relation Subst.grel, decided by the
   boolean Subst.grel_b), and g is accepted as far as its declarations go.  Then
   for every family of oracles, every rule, input and recursion bound the PEG
   specification of the two grammars returns the very same answer: verdict,
   value with its positions, remaining input, offset and the complete log of
   failed attempts (hence the same reported error). *)
Theorem C13_subst :
  forall (shk : shooks) (fuel : nat) (g g' : grammar),
    Subst.grel_b fuel g g' = true -> Subst.fields_ok_b Extracted.fcfg g = true ->
    forall f rule_name cs,
      s_parse Extracted.fcfg shk g true f rule_name cs = s_parse Extracted.fcfg shk g' true f rule_name cs.
Proof. intros shk fuel g g' R H. exact (Subst.subst_spec_b Extracted.fcfg shk true fuel g g' R H). Qed.
Print Assumptions C13_subst.

(* the same public types: related rules declare the same fields (the declaration
   emitters are functions of the fields, the directives and the name) *)
Theorem C13_subst_decl :
  forall (fuel : nat) (g g' : grammar),
    Subst.grel_b fuel g g' = true -> Subst.fields_ok_b Extracted.fcfg g = true ->
    forall r r', In (GRule r) g -> r_directives r = r_directives r' -> r_name r = r_name r' ->
      Subst.inl g (r_def r) (r_def r') ->
      get_fields Extracted.fcfg (gf_fuel_s g) g (r_def r) = get_fields Extracted.fcfg (gf_fuel_s g') g' (r_def r').
Proof.
  intros fuel g g' R H. exact (Subst.subst_fields g g' (Subst.grel_b_ok fuel g g' R) Extracted.fcfg
                                 (Subst.fields_ok_b_ok Extracted.fcfg g H)).
Qed.
Print Assumptions C13_subst_decl.

(* the models of the two generated parsers agree: same tree, same end offset and
   remaining input, same reported error; same behaviour with respect to the bound *)
Theorem C13_subst_model :
  forall (ustate : Type) (hk : hooks ustate) (shk : shooks) (fuel : nat) (g g' : grammar),
    pure_hooks ustate hk shk -> plain_grammar g ->
    Subst.grel_b fuel g g' = true -> Subst.fields_ok_b Extracted.fcfg g = true ->
    forall f rule_name cs u, all_scalar cs ->
      Subst.same_outcome
        (fst (m_parse ustate Extracted.scfg Extracted.tcfg Extracted.fcfg Extracted.rcfg hk g f rule_name (encode_str cs) u))
        (fst (m_parse ustate Extracted.scfg Extracted.tcfg Extracted.fcfg Extracted.rcfg hk g' f rule_name (encode_str cs) u)).
Proof.
  intros ustate hk shk fuel g g' Hp Hg R H.
  exact (Subst.subst_model ustate Extracted.scfg Extracted.fcfg Extracted.rcfg hk shk g g'
           eq_refl eq_refl eq_refl Hp Hg (Subst.grel_b_ok fuel g g' R) (Subst.fields_ok_b_ok Extracted.fcfg g H)).
Qed.
Print Assumptions C13_subst_model.

(* non-vacuity: the function that replaces every include of every rule by the
   parenthesised body produces a related grammar, for every grammar *)
Theorem C13_inline_every_include :
  forall (shk : shooks) (g : grammar), Subst.fields_ok_b Extracted.fcfg g = true ->
    forall f rule_name cs,
      s_parse Extracted.fcfg shk g true f rule_name cs =
      s_parse Extracted.fcfg shk (Subst.inline_grammar g) true f rule_name cs.
Proof. intros shk g H. exact (Subst.inline_grammar_spec Extracted.fcfg shk true g H). Qed.
Print Assumptions C13_inline_every_include.
