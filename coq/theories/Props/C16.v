(* C16 — Code generation is deterministic and identical through every integration route. *)
From PegV Require Import Utf8 State Syntax Fields FieldsFacts Determ BuildScript Extracted.

Theorem C16_facts :
  Extracted.scan_ambient = true /\
  Extracted.file_codegen_src_common_rs = true /\ Extracted.file_codegen_src_grammar_mod_rs = true /\
  Extracted.file_codegen_src_rule_rs = true /\ Extracted.file_codegen_src_header_rs = true /\
  Extracted.file_codegen_src_buildscript_rs = true /\ Extracted.file_cli_src_main_rs = true /\
  Extracted.file_macro_src_lib_rs = true /\ Extracted.file_codegen_src_sequence_rs = true /\
  Extracted.file_codegen_build_rs = true.
Proof. repeat split; reflexivity. Qed.
Print Assumptions C16_facts.

(* the only order-relevant container of the generator, the type set of a field
   (BTreeMap), is kept strictly sorted by type name, so the emitted enum
   variants depend only on the set of types, not on the order of discovery *)
Theorem C16_types_sorted : forall l r, types_sorted l -> types_sorted (combine_types l r).
Proof. exact combine_types_sorted. Qed.
Print Assumptions C16_types_sorted.

Theorem C16_types_canonical : forall m1 m2,
  types_sorted m1 -> types_sorted m2 -> (forall x, In x m1 <-> In x m2) -> m1 = m2.
Proof. exact sorted_canonical. Qed.
Print Assumptions C16_types_canonical.

(* routes: the build-script output is the header lines (which name grammar and prefix), the
   prefix and the code of the one shared entry point (CodegenGrammar::generate_code) *)
Theorem C16_routes : forall hdr fmt c g code,
  format c = false -> output hdr fmt c g code = hdr g (prefix c) ++ NL ++ prefix c ++ NL ++ code.
Proof. intros. unfold output, content, source_header. rewrite H. reflexivity. Qed.
Print Assumptions C16_routes.
