(* C12 — Grammar text is read into the structure its syntax denotes. *)
From PegV Require Import Utf8 Utf8Facts State Terminals Syntax Fields FieldsFacts Literals Escapes Model Spec
  Sim Conform ConformX GrammarEbnf Extracted.

Theorem C12_facts :
  Extracted.file_codegen_src_string_rs = true /\ Extracted.file_codegen_src_rule_rs = true /\
  Extracted.file_codegen_src_grammar_mod_rs = true.
Proof. repeat split; reflexivity. Qed.
Print Assumptions C12_facts.

(* --- escapes: every scalar value, every applicable form, any hex case --------- *)
Theorem C12_escapes :
  (forall c u1 u2, (c < 256)%N ->
     decode_item (SIHexa (hexchar (c / 16) u1) (hexchar (c mod 16) u2)) = DOk c) /\
  (forall c u3 u2 u1 u0, is_scalar c = true -> (c < 65536)%N ->
     decode_item (SIUtf8 (hexchar (dg c 3) u3) (Some (hexchar (dg c 2) u2)) (Some (hexchar (dg c 1) u1))
                         (Some (hexchar (dg c 0) u0)) None None) = DOk c) /\
  (forall c u5 u4 u3 u2 u1 u0, is_scalar c = true ->
     decode_item (SIUtf8 (hexchar (dg c 5) u5) (Some (hexchar (dg c 4) u4)) (Some (hexchar (dg c 3) u3))
                         (Some (hexchar (dg c 2) u2)) (Some (hexchar (dg c 1) u1)) (Some (hexchar (dg c 0) u0))) = DOk c) /\
  (forall c u0, is_scalar c = true -> (c < 16)%N ->
     decode_item (SIUtf8 (hexchar (dg c 0) u0) None None None None None) = DOk c) /\
  (forall c u1 u0, is_scalar c = true -> (c < 256)%N ->
     decode_item (SIUtf8 (hexchar (dg c 1) u1) (Some (hexchar (dg c 0) u0)) None None None None) = DOk c) /\
  (forall c u2 u1 u0, is_scalar c = true -> (c < 4096)%N ->
     decode_item (SIUtf8 (hexchar (dg c 2) u2) (Some (hexchar (dg c 1) u1)) (Some (hexchar (dg c 0) u0)) None None None) = DOk c) /\
  (forall c u4 u3 u2 u1 u0, is_scalar c = true -> (c < 1048576)%N ->
     decode_item (SIUtf8 (hexchar (dg c 4) u4) (Some (hexchar (dg c 3) u3)) (Some (hexchar (dg c 2) u2))
                         (Some (hexchar (dg c 1) u1)) (Some (hexchar (dg c 0) u0)) None) = DOk c) /\
  (forall n u5 u4 u3 u2 u1 u0, (n < 16777216)%N -> is_scalar n = false ->
     decode_item (SIUtf8 (hexchar (dg n 5) u5) (Some (hexchar (dg n 4) u4)) (Some (hexchar (dg n 3) u3))
                         (Some (hexchar (dg n 2) u2)) (Some (hexchar (dg n 1) u1)) (Some (hexchar (dg n 0) u0)))
     = DInvalidCodepoint n) /\
  (forall c, is_scalar c = true -> decode_item (SIChar c) = DOk c).
Proof.
  split; [exact esc_hexa|]. split; [exact esc_u4|]. split; [exact esc_u6|]. split; [exact esc_b1|].
  split; [exact esc_b2|]. split; [exact esc_b3|]. split; [exact esc_b5|]. split; [exact esc_invalid|exact esc_plain].
Qed.
Print Assumptions C12_escapes.

Theorem C12_simple_escapes :
  decode_item (SISimple EscNewline) = DOk 10%N /\ decode_item (SISimple EscCarriageReturn) = DOk 13%N /\
  decode_item (SISimple EscTab) = DOk 9%N /\ decode_item (SISimple EscBackslash) = DOk 92%N /\
  decode_item (SISimple EscQuote) = DOk 39%N /\ decode_item (SISimple EscDQuote) = DOk 34%N.
Proof. exact esc_simple. Qed.
Print Assumptions C12_simple_escapes.

(* --- directives: order-independent flags, checks collected in order ----------- *)
Theorem C12_directives :
  (forall ds ds', (forall d, In d ds <-> In d ds') -> flags_of ds = flags_of ds') /\
  (forall a b, checks_of (a ++ b) = checks_of a ++ checks_of b).
Proof. split; [exact flags_perm|exact checks_in_order]. Qed.
Print Assumptions C12_directives.

(* --- the front end is an instance of the general theorems: the grammar of
   grammars (regenerated from /repo/grammar.ebnf through the shipped front
   end) has no memoized or left-recursive rule and uses no hooks, so by the
   simulation the model of its generated parser reads every text exactly as
   the PEG specification reads it under grammar.ebnf *)
Theorem C12_frontend_plain : plain_grammar GrammarEbnf.g.
Proof. apply plain_grammar_b_ok. vm_compute. reflexivity. Qed.
Print Assumptions C12_frontend_plain.

Theorem C12_frontend :
  forall fuel cs, all_scalar cs ->
    conforms cs
      (fst (m_parse unit Extracted.scfg Extracted.tcfg Extracted.fcfg Extracted.rcfg no_hooks GrammarEbnf.g
                    fuel [71; 114; 97; 109; 109; 97; 114]%N (encode_str cs) tt))
      (s_parse Extracted.fcfg no_shooks GrammarEbnf.g true fuel [71; 114; 97; 109; 109; 97; 114]%N cs).
Proof.
  intros fuel cs Hs.
  exact (conform_x unit no_hooks no_shooks GrammarEbnf.g no_hooks_pure C12_frontend_plain fuel _ cs tt Hs).
Qed.
Print Assumptions C12_frontend.

(* non-vacuity: the specification reads a small grammar text under grammar.ebnf *)
Example C12_reads_a_rule :
  match s_parse Extracted.fcfg no_shooks GrammarEbnf.g true 200 [71; 114; 97; 109; 109; 97; 114]%N
                [65; 32; 61; 32; 39; 97; 39; 59]%N (* "A = 'a';" *) with
  | SOk _ [] 8 _ => True
  | _ => False
  end.
Proof. vm_compute. exact I. Qed.
