(* C19 — Tracing a parse changes nothing but the log (balance part). *)
From PegV Require Import Utf8 State Terminals Syntax Fields Literals Model Inv TraceBal Extracted TraceFrame.

Theorem C19_facts :
  Extracted.file_codegen_src_rule_rs = true /\ Extracted.file_runtime_src_trace_rs = true /\
  Extracted.file_runtime_src_peg_parser_rs = true /\ Extracted.file_codegen_src_char_rule_rs = true /\
  Extracted.file_codegen_src_extern_rule_rs = true /\
  Extracted.file_runtime_src_state_rs = true /\ Extracted.file_runtime_src_global_rs = true.
Proof. repeat split; reflexivity. Qed.
Print Assumptions C19_facts.

(* For every grammar (memoized, left-recursive, checks that fail, externs),
   every hooks family, every input and fuel, whatever the decision points:
   the callback sequence the model hands to the tracer is balanced whenever the
   parse returns Ok or Err - every print_trace_start is followed by exactly
   one matching print_trace_result, the running depth never goes below zero
   and ends at zero (IndentedTracer's usize never underflows); a run that
   does not return has produced a prefix of such a sequence. *)
Theorem C19_balanced :
  forall (ustate : Type) scfg tcfg fcfg rcfg (hk : hooks ustate) (g : grammar) fuel rule_name input u,
    match m_parse ustate scfg tcfg fcfg rcfg hk g fuel rule_name input u with
    | (MOk _ _, gl') | (MErr _, gl') => balanced (rev (g_trace gl'))
    | (_, gl') => partial (rev (g_trace gl'))
    end.
Proof. exact parse_trace_balanced. Qed.
Print Assumptions C19_balanced.

(* ... and for every rule call inside a parse *)
Theorem C19_every_call :
  forall (ustate : Type) scfg tcfg fcfg rcfg (hk : hooks ustate) (g : grammar) n nm st gl,
    match ev_rule (run ustate scfg tcfg fcfg rcfg hk g n) nm st gl with
    | (MOk _ _, gl') | (MErr _, gl') => Btr ustate gl gl'
    | (_, gl') => Rtr ustate gl gl'
    end.
Proof. intros. apply trace_invariant. Qed.
Print Assumptions C19_every_call.

Check (eq_refl : depth 0 [TStart [65%N] 0; TInfo 0; TResOk 3] = Some 0).
Check (eq_refl : depth 0 [TResOk 3] = None).

(* The tracer cannot influence the parse: for every grammar (memoized and
   left-recursive rules included), stateful hooks, every setting of the decision
   points and every fuel, two runs that start from global states which differ
   only in what the tracer has been told so far return the same result - value,
   end state, error - and leave the cache, the user state and the ghost logs
   equal.  A concrete tracer's state is a function of the callbacks it has
   received, so `parse_with_trace` (IndentedTracer), a recording tracer and
   `parse` (NoopTracer) return the same result. *)
Theorem C19_tracer_independent :
  forall (ustate : Type) (scfg : state_cfg) (tcfg : term_cfg) (fcfg : fields_cfg) (rcfg : rule_cfg)
         (hk : hooks ustate) (g : grammar) fuel rule_name st (a b : glob ustate),
    Rg ustate a b ->
    fst (ev_rule (run ustate scfg tcfg fcfg rcfg hk g fuel) rule_name st a) =
    fst (ev_rule (run ustate scfg tcfg fcfg rcfg hk g fuel) rule_name st b) /\
    Rg ustate (snd (ev_rule (run ustate scfg tcfg fcfg rcfg hk g fuel) rule_name st a))
              (snd (ev_rule (run ustate scfg tcfg fcfg rcfg hk g fuel) rule_name st b)).
Proof. intros. apply parse_ignores_tracer. assumption. Qed.
Print Assumptions C19_tracer_independent.
