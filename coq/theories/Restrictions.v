(* C15: every documented restriction leads to an error.
   Stated as: whenever the compiler model accepts a rule, none of the
   restrictions is broken anywhere in the rule body, however deeply nested and
   through any chain of includes - independently of the order in which the
   code generator walks the body. *)
From Coq Require Import Lia.
From PegV Require Import Utf8 State Syntax Fields FieldsFacts GetFieldsFacts Literals Model Compile.

Section Restrictions.
Variable c : fields_cfg.
Variable guard : bool.
Variable g : grammar.

(* direct sub-expressions; the body of an included rule is one *)
Inductive child : expr -> expr -> Prop :=
| ch_choice a l : In a l -> child a (EChoice l)
| ch_seq a l : In a l -> child a (ESeq l)
| ch_group b : child b (EGroup b)
| ch_opt b : child b (EOptional b)
| ch_clo b p : child b (EClosure b p)
| ch_neg b : child b (ENeg b)
| ch_pos b : child b (EPos b)
| ch_inc n r : find_rule g n = Some r -> child (r_def r) (EInclude n).

Inductive desc : nat -> expr -> expr -> Prop :=
| desc_refl e : desc 0 e e
| desc_step d e'' e' e : child e'' e' -> desc d e' e -> desc (S d) e'' e.

Definition gf_ok (F : nat) (e : expr) : Prop := exists l, get_fields c F g e = GFOk l.

Lemma gf_seq_parts gf ps : forall all res, gf_seq c gf ps all = GFOk res -> forall p, In p ps -> exists l, gf p = GFOk l.
Proof.
  induction ps as [|q ps IH]; intros all res H p Hin; [destruct Hin|]. cbn in H.
  destruct (gf q) as [new| |] eqn:E; try discriminate.
  destruct Hin as [->|Hin]; [eauto|]. eapply IH; eauto.
Qed.

Lemma gf_choice_parts gf ps : forall first all res, gf_choice c gf ps first all = GFOk res -> forall p, In p ps -> exists l, gf p = GFOk l.
Proof.
  induction ps as [|q ps IH]; intros first all res H p Hin; [destruct Hin|]. cbn in H.
  destruct (gf q) as [new| |] eqn:E; try discriminate.
  destruct Hin as [->|Hin]; [eauto|]. eapply IH; eauto.
Qed.

Lemma gf_ok_child F e e' : gf_ok (S F) e -> child e' e -> gf_ok F e'.
Proof.
  intros [l H] Hc. cbn [get_fields] in H. unfold gf_ok. destruct Hc as [a l0 Hin|a l0 Hin|b|b|b p|b|b|n r H0].
  - eapply gf_choice_parts; [exact H|exact Hin].
  - eapply gf_seq_parts; [exact H|exact Hin].
  - exists l. exact H.
  - destruct (get_fields c F g b) as [lb| |]; try discriminate. eauto.
  - destruct (get_fields c F g b) as [lb| |]; try discriminate. eauto.
  - destruct (get_fields c F g b) as [lb| |]; try discriminate. eauto.
  - destruct (get_fields c F g b) as [lb| |]; try discriminate. eauto.
  - rewrite H0 in H. exists l. exact H.
Qed.

Lemma gf_ok_zero e : ~ gf_ok 0 e.
Proof. intros [l H]. discriminate. Qed.

Lemma gf_ok_desc d : forall F e e', gf_ok F e -> desc d e' e -> d < F /\ gf_ok (F - d) e'.
Proof.
  induction d as [|d IH]; intros F e e' H D.
  - inversion D; subst. destruct F; [exfalso; eapply gf_ok_zero; eauto|]. split; [lia|]. rewrite Nat.sub_0_r. exact H.
  - inversion D as [|? ? e1 ? Hc D']; subst. destruct (IH F e e1 H D') as [Hlt Hok].
    destruct (F - d) as [|k] eqn:Ek; [lia|].
    pose proof (gf_ok_child k e1 e' Hok Hc) as Hk.
    assert (k = F - S d) by lia. subst k.
    split; [|exact Hk]. destruct (F - S d) eqn:E0; [exfalso; eapply gf_ok_zero; eauto|lia].
Qed.

(* ---- lookaheads and includes -------------------------------------------------- *)
Theorem accepted_lookaheads_have_no_fields F e l :
  get_fields c F g e = GFOk l ->
  forall d b, (desc d (ENeg b) e \/ desc d (EPos b) e) ->
    exists F', get_fields c F' g b = GFOk [].
Proof.
  intros H d b D.
  destruct D as [D|D]; destruct (gf_ok_desc d F e _ (ex_intro _ l H) D) as [_ [l' H']];
    destruct (F - d) as [|k]; try discriminate; cbn [get_fields] in H'; exists k;
    destruct (get_fields c k g b) as [[|x lb]| |]; try discriminate; reflexivity.
Qed.

Theorem accepted_includes_resolve F e l :
  get_fields c F g e = GFOk l ->
  forall d n, desc d (EInclude n) e -> exists r, find_rule g n = Some r.
Proof.
  intros H d n D. destruct (gf_ok_desc d F e _ (ex_intro _ l H) D) as [_ [l' H']].
  destruct (F - d) as [|k]; try discriminate. cbn [get_fields] in H'.
  destruct (find_rule g n) as [r|]; [eauto|discriminate].
Qed.

(* include only resolves to normal rules: @char and @extern rules are not found *)
Lemma include_only_normal_rules n :
  (forall r, In (GRule r) g -> r_name r <> n) -> find_rule g n = None.
Proof.
  induction g as [|x g' IH]; intros H; [reflexivity|]. cbn. destruct x as [r|cr|er].
  - destruct (name_eqb (r_name r) n) eqn:E.
    + exfalso. apply (H r); [left; reflexivity|]. apply name_eqb_eq. exact E.
    + apply IH. intros r' Hin. apply H. right. exact Hin.
  - apply IH. intros r' Hin. apply H. right. exact Hin.
  - apply IH. intros r' Hin. apply H. right. exact Hin.
Qed.

(* ---- literals ------------------------------------------------------------------ *)
Definition lit_ok (F : nat) (e : expr) : Prop := lit_check guard g F e = COk tt.

Lemma first_err_all {A} (f : A -> cres unit) l : first_err f l = COk tt -> forall x, In x l -> f x = COk tt.
Proof.
  induction l as [|y l IH]; intros H x Hin; [destruct Hin|]. cbn in H.
  destruct (f y) as [[]| | |] eqn:E; try discriminate.
  destruct Hin as [->|Hin]; [exact E|auto].
Qed.

Lemma lit_ok_child F e e' : lit_ok (S F) e -> child e' e -> lit_ok F e'.
Proof.
  unfold lit_ok. intros H Hc. cbn [lit_check] in H. destruct Hc as [a l0 Hin|a l0 Hin|b|b|b p|b|b|n r H0]; try exact H.
  - eapply first_err_all; [exact H|exact Hin].
  - eapply first_err_all; [exact H|exact Hin].
  - rewrite H0 in H. exact H.
Qed.

Lemma lit_ok_desc d : forall F e e', lit_ok F e -> desc d e' e -> d < F /\ lit_ok (F - d) e'.
Proof.
  induction d as [|d IH]; intros F e e' H D.
  - inversion D; subst. destruct F; [discriminate|]. split; [lia|]. rewrite Nat.sub_0_r. exact H.
  - inversion D as [|? ? e1 ? Hc D']; subst. destruct (IH F e e1 H D') as [Hlt Hok].
    destruct (F - d) as [|k] eqn:Ek; [lia|].
    pose proof (lit_ok_child k e1 e' Hok Hc) as Hk.
    assert (k = F - S d) by lia. subst k.
    split; [|exact Hk]. destruct (F - S d) eqn:E0; [discriminate|lia].
Qed.

Theorem accepted_literals_compile F e :
  lit_check guard g F e = COk tt ->
  (forall d ins body, desc d (ELit ins body) e -> exists m, compile_lit guard ins body = LOk m) /\
  (forall d a b, desc d (ERange a b) e -> exists x y, compile_range a b = RgOk x y).
Proof.
  intro H. split.
  - intros d ins body D. destruct (lit_ok_desc d F e _ H D) as [_ H'].
    unfold lit_ok in H'. destruct (F - d); [discriminate|]. cbn [lit_check] in H'.
    destruct (compile_lit guard ins body); try discriminate. eauto.
  - intros d a b D. destruct (lit_ok_desc d F e _ H D) as [_ H'].
    unfold lit_ok in H'. destruct (F - d); [discriminate|]. cbn [lit_check] in H'.
    destruct (compile_range a b); try discriminate. eauto.
Qed.

(* what a compiled literal excludes *)
Lemma compiled_insensitive_is_ascii body m :
  guard = true -> compile_lit guard true body = LOk m ->
  exists cs, decode_items body = DOk cs /\ forallb is_ascii cs = true.
Proof.
  intros -> H. unfold compile_lit in H. destruct (decode_items body) as [cs| |]; try discriminate.
  exists cs. split; [reflexivity|]. cbn in H. destruct (forallb is_ascii cs); [reflexivity|discriminate].
Qed.

Lemma compiled_literal_decodes ins body m :
  compile_lit guard ins body = LOk m -> exists cs, decode_items body = DOk cs.
Proof. unfold compile_lit. destruct (decode_items body); try discriminate. eauto. Qed.

(* ---- rule-level restrictions -------------------------------------------------- *)
Variable lc pv : bool.

Theorem accepted_rule_respects s F r ds :
  compile_rule c guard lc pv g s F r = COk ds ->
  let fl := flags_of (r_directives r) in
  exists fields,
    get_fields c F g (r_def r) = GFOk fields /\
    lit_check guard g F (r_def r) = COk tt /\
    (fl_export fl && fl_string fl = false) /\
    (name_eqb (r_name r) n_Whitespace = true -> fl_no_skip_ws fl = true) /\
    (fl_memoize fl = true -> has_clone s = true) /\
    (lc = true -> fl_left_recursive fl = true -> has_clone s = true) /\
    position_variant_error pv g fl fields = None /\
    (fl_string fl = false ->
       (forall fd, fields = [fd] -> fd_name fd = n_override -> multi_typed fd = false ->
          fl_export fl = false /\ fl_position fl = false) /\
       (forall fd, fields = [fd] -> fd_name fd = n_override -> multi_typed fd = true -> fd_arity fd = One) /\
       ((forall fd, fields <> [fd]) \/ (exists fd, fields = [fd] /\ fd_name fd <> n_override) ->
          existsb (fun fd => name_eqb (fd_name fd) n_override) fields = false)).
Proof.
  intros H. cbn zeta. unfold compile_rule in H.
  destruct (get_fields c F g (r_def r)) as [fields| |]; try discriminate. exists fields.
  split; [reflexivity|].
  remember (flags_of (r_directives r)) as fl.
  destruct (fl_export fl && fl_string fl) eqn:E1; [discriminate|].
  destruct (name_eqb (r_name r) n_Whitespace && negb (fl_no_skip_ws fl)) eqn:E2; [discriminate|].
  destruct ((fl_memoize fl || lc && fl_left_recursive fl) && negb (has_clone s)) eqn:E3; [discriminate|].
  destruct (position_variant_error pv g fl fields) eqn:E4; [discriminate|].
  destruct (lit_check guard g F (r_def r)) as [[]| | |] eqn:E5; try discriminate.
  split; [reflexivity|]. split; [reflexivity|].
  split.
  { intro Hn. rewrite Hn in E2. cbn in E2. destruct (fl_no_skip_ws fl); [reflexivity|discriminate]. }
  split.
  { intro Hm. rewrite Hm in E3. cbn in E3. destruct (has_clone s); [reflexivity|discriminate]. }
  split.
  { intros -> Hl. rewrite Hl in E3. rewrite orb_true_r in E3. cbn in E3. destruct (has_clone s); [reflexivity|discriminate]. }
  split; [reflexivity|].
  intro Hs. rewrite Hs in H.
  split; [|split].
  - intros fd -> Hn Hm. rewrite Hn, Hm in H. cbn in H.
    destruct (fl_export fl); [discriminate|]. destruct (fl_position fl); [discriminate|]. auto.
  - intros fd -> Hn Hm. rewrite Hn, Hm in H. cbn in H.
    destruct (fd_arity fd); try discriminate; reflexivity.
  - intros Hcase. destruct (existsb (fun fd => name_eqb (fd_name fd) n_override) fields) eqn:Ex; [|reflexivity].
    exfalso. destruct fields as [|fd [|fd2 rest]].
    + discriminate.
    + destruct Hcase as [Hc|[fd' [Hc Hn]]]; [exact (Hc fd eq_refl)|].
      injection Hc as <-. destruct (name_eqb (fd_name fd) n_override) eqn:En; [apply Hn; apply name_eqb_eq; exact En|].
      cbn in Ex. rewrite En in Ex. discriminate.
    + discriminate.
Qed.

End Restrictions.
