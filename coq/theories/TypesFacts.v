(* The type sets of field descriptors (common.rs combine_field_types, the
   BTreeMap of FieldDescriptor::types): a type that a child's descriptor lists
   for a field is listed by every enclosing descriptor of that field
   ("type dominance", the companion of GetFieldsFacts.sub for arities). *)
From Coq Require Import Lia.
From PegV Require Import Utf8 State Syntax Fields FieldsFacts GetFieldsFacts.

Definition has_type (t : name) (m : list (name * bool)) : bool :=
  existsb (fun tb => name_eqb (fst tb) t) m.

Lemma types_insert_has t k b m : has_type t (types_insert k b m) = name_eqb k t || has_type t m.
Proof.
  unfold has_type. induction m as [|[k' b'] m IH]; cbn [types_insert existsb fst]; [rewrite orb_false_r; reflexivity|].
  destruct (name_eqb k k') eqn:E.
  - apply name_eqb_eq in E. subst k'. cbn [existsb fst]. destruct (name_eqb k t); reflexivity.
  - destruct (name_ltb k k'); cbn [existsb fst].
    + reflexivity.
    + rewrite IH. destruct (name_eqb k' t), (name_eqb k t); reflexivity.
Qed.

Lemma combine_types_has t r : forall l, has_type t (combine_types l r) = has_type t l || has_type t r.
Proof.
  unfold combine_types. induction r as [|[k b] r IH]; intros l; cbn [fold_left].
  - cbn. rewrite orb_false_r. reflexivity.
  - rewrite IH. cbn [fst snd]. rewrite types_insert_has.
    change (has_type t ((k, b) :: r)) with (name_eqb k t || has_type t r). clear IH.
    destruct (name_eqb k t), (has_type t l), (has_type t r); reflexivity.
Qed.

Definition types_of (n : name) (l : list fdesc) : list (name * bool) :=
  match find_fd n l with Some fd => fd_types fd | None => [] end.

Section TF.
Variable c : fields_cfg.
Hypothesis Hc : fcfg_sound c = true.
Variable g : grammar.

(* every type the child lists for a field, the parent lists too *)
Definition tsub (lc lp : list fdesc) : Prop :=
  forall n t, has_type t (types_of n lc) = true -> has_type t (types_of n lp) = true.

Lemma tsub_refl l : tsub l l.
Proof. intros n t H. exact H. Qed.

Lemma tsub_trans a b d : tsub a b -> tsub b d -> tsub a d.
Proof. intros H1 H2 n t H. auto. Qed.

Lemma tsub_nil l : tsub [] l.
Proof. intros n t H. discriminate. Qed.

Lemma types_of_app n a b : types_of n (a ++ b) = match find_fd n a with Some fd => fd_types fd | None => types_of n b end.
Proof. unfold types_of. rewrite find_fd_app. destruct (find_fd n a); reflexivity. Qed.

(* one step of either merge: the updated / appended entry *)
Lemma types_of_update_same n u l f :
  (forall x, fd_name (u x) = fd_name x) ->
  find_fd n l = Some f -> types_of n (update_fd n u l) = fd_types (u f).
Proof.
  intros Hn H. unfold types_of. rewrite (find_fd_update_same n u l f Hn H). reflexivity.
Qed.

Lemma types_of_update_other n m u l :
  (forall x, fd_name (u x) = fd_name x) -> n <> m -> types_of m (update_fd n u l) = types_of m l.
Proof. intros Hn H. unfold types_of. rewrite find_fd_update_other; auto. Qed.

Lemma seq_step_types t n all nf :
  has_type t (types_of n (seq_step c all nf)) =
  has_type t (types_of n all) || (name_eqb (fd_name nf) n && has_type t (fd_types nf)).
Proof.
  unfold seq_step, has_fd.
  destruct (find_fd (fd_name nf) all) as [o|] eqn:F.
  - destruct (name_eqb (fd_name nf) n) eqn:E.
    + apply name_eqb_eq in E. subst n.
      rewrite (types_of_update_same _ (seq_upd c nf) _ o (fun x => eq_refl) F). cbn [seq_upd fd_types].
      rewrite combine_types_has. unfold types_of. rewrite F. reflexivity.
    + apply name_eqb_neq in E. rewrite types_of_update_other; [|intro x; reflexivity|exact E]. cbn. rewrite orb_false_r. reflexivity.
  - rewrite types_of_app.
    destruct (name_eqb (fd_name nf) n) eqn:E.
    + apply name_eqb_eq in E. subst n. unfold types_of at 2. rewrite F. cbn.
      unfold types_of. cbn. rewrite name_eqb_refl. reflexivity.
    + cbn. rewrite orb_false_r. unfold types_of at 2.
      destruct (find_fd n all) eqn:Fn; [reflexivity|].
      unfold types_of. cbn. rewrite E. reflexivity.
Qed.

Lemma seq_merge_types_old t n new : forall all,
  has_type t (types_of n all) = true -> has_type t (types_of n (seq_merge c all new)) = true.
Proof.
  induction new as [|nf new IH]; intros all H; [exact H|].
  rewrite seq_merge_fold. cbn [fold_left]. rewrite <- seq_merge_fold. apply IH.
  rewrite seq_step_types, H. reflexivity.
Qed.

Lemma seq_merge_types_new t n new : forall all,
  has_type t (types_of n new) = true -> has_type t (types_of n (seq_merge c all new)) = true.
Proof.
  induction new as [|nf new IH]; intros all H; [discriminate|].
  rewrite seq_merge_fold. cbn [fold_left]. rewrite <- seq_merge_fold.
  unfold types_of in H. cbn [find_fd] in H.
  destruct (name_eqb (fd_name nf) n) eqn:E.
  - apply seq_merge_types_old. rewrite seq_step_types, E, H. apply orb_true_r.
  - apply IH. unfold types_of. exact H.
Qed.

Lemma ch_step_types first t n all nf :
  has_type t (types_of n (ch_step c first all nf)) =
  has_type t (types_of n all) || (name_eqb (fd_name nf) n && has_type t (fd_types nf)).
Proof.
  unfold ch_step, has_fd.
  destruct (find_fd (fd_name nf) all) as [o|] eqn:F.
  - destruct (name_eqb (fd_name nf) n) eqn:E.
    + apply name_eqb_eq in E. subst n.
      rewrite (types_of_update_same _ (ch_upd c nf) _ o (fun x => eq_refl) F). cbn [ch_upd fd_types].
      rewrite combine_types_has. unfold types_of. rewrite F. reflexivity.
    + apply name_eqb_neq in E. rewrite types_of_update_other; [|intro x; reflexivity|exact E]. cbn. rewrite orb_false_r. reflexivity.
  - assert (K : forall x, fd_name x = fd_name nf -> fd_types x = fd_types nf ->
                has_type t (types_of n (all ++ [x])) =
                has_type t (types_of n all) || (name_eqb (fd_name nf) n && has_type t (fd_types nf))).
    { intros x Hx Ht. rewrite types_of_app.
      destruct (name_eqb (fd_name nf) n) eqn:E.
      - apply name_eqb_eq in E. subst n. unfold types_of at 2. rewrite F. cbn.
        unfold types_of. cbn. rewrite Hx, name_eqb_refl, Ht. reflexivity.
      - cbn. rewrite orb_false_r. unfold types_of at 2.
        destruct (find_fd n all) eqn:Fn; [reflexivity|].
        unfold types_of. cbn. rewrite Hx, E. reflexivity. }
    destruct first; apply K; reflexivity.
Qed.

Lemma ch_pre_types first n all new : types_of n (ch_pre c first all new) = types_of n all.
Proof.
  unfold ch_pre. destruct first; [reflexivity|]. unfold types_of.
  induction all as [|f all IH]; [reflexivity|]. cbn.
  destruct (negb (has_fd (fd_name f) new)); cbn; destruct (name_eqb (fd_name f) n); auto.
Qed.

Lemma ch_fold_types_old first t n new : forall all,
  has_type t (types_of n all) = true -> has_type t (types_of n (fold_left (ch_step c first) new all)) = true.
Proof.
  induction new as [|nf new IH]; intros all H; [exact H|]. cbn [fold_left]. apply IH.
  rewrite ch_step_types, H. reflexivity.
Qed.

Lemma choice_merge_types_old first t n all new :
  has_type t (types_of n all) = true -> has_type t (types_of n (choice_merge c first all new)) = true.
Proof. intro H. rewrite choice_merge_fold. apply ch_fold_types_old. rewrite ch_pre_types. exact H. Qed.

Lemma choice_merge_types_new first t n new : forall all,
  has_type t (types_of n new) = true -> has_type t (types_of n (choice_merge c first all new)) = true.
Proof.
  intros all H. rewrite choice_merge_fold. generalize (ch_pre c first all new) as all0.
  induction new as [|nf new IH]; intros all0; [discriminate|]. cbn [fold_left].
  unfold types_of in H. cbn [find_fd] in H.
  destruct (name_eqb (fd_name nf) n) eqn:E.
  - apply ch_fold_types_old. rewrite ch_step_types, E, H. apply orb_true_r.
  - apply IH. unfold types_of. exact H.
Qed.

Lemma types_of_map_set n h l :
  types_of n (map (fun f => set_arity (h (fd_arity f)) f) l) = types_of n l.
Proof.
  unfold types_of. induction l as [|f l IH]; [reflexivity|]. cbn. destruct (name_eqb (fd_name f) n); auto.
Qed.

(* ---- along gf_seq / gf_choice ------------------------------------------------ *)
Lemma gf_seq_tsub gf ps : forall all res p new,
  gf_seq c gf ps all = GFOk res -> In p ps -> gf p = GFOk new -> tsub new res.
Proof.
  induction ps as [|q ps IH]; intros all res p new H Hin Hp; [destruct Hin|]. cbn in H.
  destruct (gf q) as [nq| |] eqn:Eq; try discriminate.
  destruct Hin as [->|Hin].
  - rewrite Hp in Eq. injection Eq as <-. intros n t Ht.
    assert (K : forall ps all res, gf_seq c gf ps all = GFOk res -> has_type t (types_of n all) = true -> has_type t (types_of n res) = true).
    { clear. induction ps as [|q ps IH]; intros all res H Ha; cbn in H; [injection H as <-; exact Ha|].
      destruct (gf q) as [nq| |]; try discriminate. eapply IH; [exact H|]. apply seq_merge_types_old. exact Ha. }
    eapply K; [exact H|]. apply seq_merge_types_new. exact Ht.
  - eapply IH; eauto.
Qed.

Lemma gf_choice_tsub gf ps : forall first all res p new,
  gf_choice c gf ps first all = GFOk res -> In p ps -> gf p = GFOk new -> tsub new res.
Proof.
  induction ps as [|q ps IH]; intros first all res p new H Hin Hp; [destruct Hin|]. cbn in H.
  destruct (gf q) as [nq| |] eqn:Eq; try discriminate.
  destruct Hin as [->|Hin].
  - rewrite Hp in Eq. injection Eq as <-. intros n t Ht.
    assert (K : forall ps first all res, gf_choice c gf ps first all = GFOk res -> has_type t (types_of n all) = true -> has_type t (types_of n res) = true).
    { clear. induction ps as [|q ps IH]; intros first all res H Ha; cbn in H; [injection H as <-; exact Ha|].
      destruct (gf q) as [nq| |]; try discriminate. eapply IH; [exact H|]. apply choice_merge_types_old. exact Ha. }
    eapply K; [exact H|]. apply choice_merge_types_new. exact Ht.
  - eapply IH; eauto.
Qed.

End TF.
