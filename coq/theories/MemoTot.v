(* Memoization never costs termination: whenever the parser of the grammar with
   all @memoize markers removed returns with some recursion bound, the parser of
   the marked grammar returns with that bound (or any larger one).  A third walk
   over the templates, using the relational walk of MemoEq (agreement of the
   sub-results, soundness of the cache) as a black box. *)
From Coq Require Import Lia.
From PegV Require Import Utf8 State Terminals Syntax Fields FieldsFacts Literals Model FuelMono MemoEq.

Section Main.
Variable ustate : Type.
Variable scfg : state_cfg.
Variable tcfg : term_cfg.
Variable fcfg : fields_cfg.
Variable rcfg : rule_cfg.
Variable hk : hooks ustate.
Variable g : grammar.
Variable input : bytes.
Hypothesis NoLR : forall r, In (GRule r) g -> fl_left_recursive (flags_of (r_directives r)) = false.
Hypothesis Pcheck : forall f v u u', fst (h_check hk f v u) = fst (h_check hk f v u').
Hypothesis Pext : forall f bs u u', fst (h_extern hk f bs u) = fst (h_extern hk f bs u').

Notation glb := (glob ustate).
Notation RunA := (run ustate scfg tcfg fcfg rcfg hk g).
Notation RunB := (run ustate scfg tcfg fcfg rcfg hk (strip g)).
Notation an := (anch input).
Notation CS := (CS ustate scfg tcfg fcfg rcfg hk g input).
Notation Uev := (Uev ustate scfg tcfg fcfg rcfg hk g input).
Notation Wev := (Wev ustate scfg tcfg fcfg rcfg hk g input).

Definition nf {A} (r : mres A) : Prop := r <> MFuel.

Definition Tev (evA evB : evals ustate) : Prop :=
  (forall ctx e st1 gl1 st2 gl2, Rst st1 st2 -> an st1 -> CS gl1 ->
     nf (fst (ev_expr evB ctx e st2 gl2)) -> nf (fst (ev_expr evA ctx e st1 gl1))) /\
  (forall n st1 gl1 st2 gl2, Rst st1 st2 -> an st1 -> CS gl1 ->
     nf (fst (ev_rule evB n st2 gl2)) -> nf (fst (ev_rule evA n st1 gl1))) /\
  (forall ctx b plus st1 gl1 st2 gl2 it acc, Rst st1 st2 -> an st1 -> CS gl1 ->
     nf (fst (ev_loop evB ctx b plus st2 it acc gl2)) -> nf (fst (ev_loop evA ctx b plus st1 it acc gl1))).


Lemma nf_cached (c : cached) : @nf value (of_cached c).
Proof. destruct c; discriminate. Qed.

Section Walk.
Variable evA evB : evals ustate.
Hypothesis HU : Uev evA.
Hypothesis HW : Wev evA evB.
Hypothesis HT : Tev evA evB.

Let HUe := proj1 HU.
Let HUr := proj1 (proj2 HU).
Let HUl := proj2 (proj2 HU).
Let HWe := proj1 HW.
Let HWr := proj1 (proj2 HW).
Let HWl := proj2 (proj2 HW).
Let HTe := proj1 HT.
Let HTr := proj1 (proj2 HT).
Let HTl := proj2 (proj2 HT).

(* a pair of sub-calls: B's sub-result is not MFuel (else B's whole result would be), hence A's is not
   either, and the two agree (MemoEq) *)
Ltac pair_e ctx e st1 gl1 st2 gl2 HR HA HC Hnf :=
  let Hw := fresh "Hw" in let Hu := fresh "Hu" in let Ht := fresh "Ht" in
  pose proof (HWe ctx e st1 gl1 st2 gl2 HR HA HC) as Hw;
  pose proof (HUe ctx e st1 gl1 HA HC) as Hu;
  pose proof (HTe ctx e st1 gl1 st2 gl2 HR HA HC) as Ht;
  destruct (ev_expr evA ctx e st1 gl1) as [[?v1 ?s1|?e1|?p1|] ?ga];
  destruct (ev_expr evB ctx e st2 gl2) as [[?v2 ?s2|?e2|?p2|] ?gb];
  cbn [fst snd MemoEq.wres] in Hw, Hu, Ht, Hnf |- *; try contradiction; try discriminate;
  try (exfalso; apply Hnf; reflexivity); try (exfalso; apply Ht; [discriminate|reflexivity]).

Ltac pair_r n st1 gl1 st2 gl2 HR HA HC Hnf :=
  let Hw := fresh "Hw" in let Hu := fresh "Hu" in let Ht := fresh "Ht" in
  pose proof (HWr n st1 gl1 st2 gl2 HR HA HC) as Hw;
  pose proof (HUr n st1 gl1 HA HC) as Hu;
  pose proof (HTr n st1 gl1 st2 gl2 HR HA HC) as Ht;
  destruct (ev_rule evA n st1 gl1) as [[?v1 ?s1|?e1|?p1|] ?ga];
  destruct (ev_rule evB n st2 gl2) as [[?v2 ?s2|?e2|?p2|] ?gb];
  cbn [fst snd MemoEq.wres] in Hw, Hu, Ht, Hnf |- *; try contradiction; try discriminate;
  try (exfalso; apply Hnf; reflexivity); try (exfalso; apply Ht; [discriminate|reflexivity]).

Lemma T_lift {X Y} (f : X -> Y) sp st (r : tres X) gl : nf (fst (lift_t ustate f sp st r gl)).
Proof. destruct r; cbn; discriminate. Qed.

Lemma T_fail {X} st sp gl : @nf X (fst (fail_at ustate scfg st sp gl)).
Proof. cbn. discriminate. Qed.

Lemma T_with_ws {X} ctx st1 gl1 st2 gl2 (k1 k2 : pstate -> glb -> R ustate X) :
  Rst st1 st2 -> an st1 -> CS gl1 ->
  (forall s1 g1 s2 g2, Rst s1 s2 -> an s1 -> CS g1 -> nf (fst (k2 s2 g2)) -> nf (fst (k1 s1 g1))) ->
  nf (fst (with_ws ustate evB ctx st2 gl2 k2)) -> nf (fst (with_ws ustate evA ctx st1 gl1 k1)).
Proof.
  intros HR HA HC Hk Hnf. unfold with_ws in *. destruct (c_skip ctx); [|eapply Hk; eauto].
  pair_r n_Whitespace st1 gl1 st2 gl2 HR HA HC Hnf.
  destruct Hw as [_ Hs]. destruct Hu as [Hc Ha]. eapply Hk; eauto.
Qed.

Lemma T_no_fields {X} (a b : R ustate X) :
  (nf (fst b) -> nf (fst a)) -> nf (fst (no_fields ustate b)) -> nf (fst (no_fields ustate a)).
Proof.
  unfold nf. destruct a as [[v1 s1|e1|p1|] ga], b as [[v2 s2|e2|p2|] gb]; cbn; intros H Hb; try discriminate.
  all: intros _; try (apply Hb; reflexivity).
  all: apply H; [discriminate|reflexivity].
Qed.

Lemma T_run_lit m st gl : nf (fst (run_lit ustate scfg tcfg m st gl)).
Proof. destruct m; cbn [run_lit]; apply T_lift. Qed.

Lemma T_choice_loop ctx fds alts : forall c1 gl1 c2 gl2, Rst c1 c2 -> an c1 -> CS gl1 ->
  nf (fst (choice_loop ustate scfg fcfg (strip g) evB ctx fds alts c2 gl2)) ->
  nf (fst (choice_loop ustate scfg fcfg g evA ctx fds alts c1 gl1)).
Proof.
  induction alts as [|a alts IH]; intros c1 gl1 c2 gl2 HR HA HC Hnf; cbn [choice_loop] in *; [discriminate|].
  rewrite own_fields_strip in Hnf.
  pair_e ctx a c1 gl1 c2 gl2 HR HA HC Hnf.
  - destruct (own_fields fcfg g a) as [inner|]; [|discriminate].
    destruct (convert_arm fds inner v1); discriminate.
  - destruct Hu as [Hc _]. eapply IH; [apply Rst_record; exact HR|apply anch_record; exact HA|exact Hc|exact Hnf].
Qed.

Lemma T_seq_loop ctx fds parts : forall st1 gl1 st2 gl2 acc, Rst st1 st2 -> an st1 -> CS gl1 ->
  nf (fst (seq_loop ustate evB ctx fds parts st2 acc gl2)) -> nf (fst (seq_loop ustate evA ctx fds parts st1 acc gl1)).
Proof.
  induction parts as [|p ps IH]; intros st1 gl1 st2 gl2 acc HR HA HC Hnf; cbn [seq_loop] in *.
  - destruct (order_as fds acc); discriminate.
  - pair_e ctx p st1 gl1 st2 gl2 HR HA HC Hnf.
    destruct Hw as [-> Hs]. destruct Hu as [Hc Ha]. destruct (seq_merge_vals acc v2); [eapply IH; eauto|discriminate].
Qed.

Notation stepA_e := (expr_step ustate scfg tcfg fcfg rcfg g evA).
Notation stepB_e := (expr_step ustate scfg tcfg fcfg rcfg (strip g) evB).

Theorem T_expr ctx e st1 gl1 st2 gl2 : Rst st1 st2 -> an st1 -> CS gl1 ->
  nf (fst (stepB_e ctx e st2 gl2)) -> nf (fst (stepA_e ctx e st1 gl1)).
Proof.
  intros HR HA HC Hnf. destruct e; cbn [expr_step] in *.
  - (* EChoice *)
    destruct alts as [|a [|a2 rest]]; [discriminate|eapply HTe; eauto|].
    rewrite filt_strip in Hnf. destruct (filt fcfg g ctx (EChoice (a :: a2 :: rest))); [|discriminate].
    eapply T_choice_loop; eauto.
  - (* ESeq *)
    destruct parts as [|p [|p2 rest]]; [discriminate|eapply HTe; eauto|].
    rewrite filt_strip in Hnf. destruct (filt fcfg g ctx (ESeq (p :: p2 :: rest))); [|discriminate].
    eapply T_seq_loop; eauto.
  - (* EGroup *) eapply HTe; eauto.
  - (* EOptional *)
    rewrite filt_strip in Hnf. pair_e ctx e st1 gl1 st2 gl2 HR HA HC Hnf.
    destruct (filt fcfg g ctx e) as [fds|]; [|discriminate]. destruct (defaults fds); discriminate.
  - (* EClosure *)
    rewrite filt_strip in Hnf. destruct (filt fcfg g ctx e) as [fds|]; [|discriminate]. eapply HTl; eauto.
  - (* ENeg *) pair_e ctx e st1 gl1 st2 gl2 HR HA HC Hnf.
  - (* EPos *) pair_e ctx e st1 gl1 st2 gl2 HR HA HC Hnf.
  - (* ERange *)
    destruct (compile_range from to); try discriminate.
    eapply T_no_fields; [|exact Hnf]. eapply T_with_ws; [exact HR|exact HA|exact HC|]. intros. apply T_lift.
  - (* ELit *)
    destruct (compile_lit (insens_guard rcfg) insensitive body); try discriminate.
    eapply T_no_fields; [|exact Hnf]. eapply T_with_ws; [exact HR|exact HA|exact HC|]. intros. apply T_run_lit.
  - (* EEoi *)
    eapply T_no_fields; [|exact Hnf]. eapply T_with_ws; [exact HR|exact HA|exact HC|]. intros. apply T_lift.
  - (* EInclude *)
    rewrite find_rule_strip in Hnf. destruct (find_rule g rule) as [r|]; cbn [option_map] in Hnf; [eapply HTe; eauto|discriminate].
  - (* EField *)
    assert (Hr : nf (fst (with_ws ustate evB ctx st2 gl2 (fun st gl => ev_rule evB typ st gl))) ->
                 nf (fst (with_ws ustate evA ctx st1 gl1 (fun st gl => ev_rule evA typ st gl)))).
    { eapply T_with_ws; [exact HR|exact HA|exact HC|]. intros s1 g1 s2 g2 R1 A1 C1. eapply HTr; eauto. }
    destruct (fname_of fname) as [n|]; [|eapply T_no_fields; [exact Hr|exact Hnf]].
    destruct (with_ws ustate evA ctx st1 gl1 (fun st gl => ev_rule evA typ st gl)) as [[v1 s1|e1|p1|] ga];
      destruct (with_ws ustate evB ctx st2 gl2 (fun st gl => ev_rule evB typ st gl)) as [[v2 s2|e2|p2|] gb];
      cbn [fst] in Hr, Hnf |- *; try discriminate;
      try (destruct (postprocess (c_fields ctx) n typ v1); discriminate);
      try (exfalso; apply Hnf; reflexivity);
      try (exfalso; apply Hr; [try discriminate; destruct (postprocess (c_fields ctx) n typ v2); discriminate|reflexivity]).
Qed.

Theorem T_loop ctx b plus st1 gl1 st2 gl2 it acc : Rst st1 st2 -> an st1 -> CS gl1 ->
  nf (fst (loop_step ustate scfg evB ctx b plus st2 it acc gl2)) -> nf (fst (loop_step ustate scfg evA ctx b plus st1 it acc gl1)).
Proof.
  intros HR HA HC Hnf. unfold loop_step in *. pair_e ctx b st1 gl1 st2 gl2 HR HA HC Hnf.
  - destruct Hw as [-> Hs]. destruct Hu as [Hc Ha]. destruct (extend_all acc v2); [eapply HTl; eauto|discriminate].
  - destruct (plus && Nat.eqb it 0); discriminate.
Qed.

Lemma T_run_checks cs v : forall st gl, nf (fst (run_checks ustate scfg hk cs v st gl)).
Proof.
  induction cs as [|f cs IH]; intros st gl; cbn [run_checks]; [discriminate|].
  destruct (h_check hk f v (g_user gl)) as [ok u]. destruct ok; [apply IH|apply T_fail].
Qed.

Theorem T_rule_body r st1 gl1 st2 gl2 : Rst st1 st2 -> an st1 -> CS gl1 ->
  nf (fst (rule_body ustate scfg fcfg hk (strip g) evB (strip_rule r) st2 gl2)) ->
  nf (fst (rule_body ustate scfg fcfg hk g evA r st1 gl1)).
Proof.
  intros HR HA HC Hnf. unfold rule_body in *.
  destruct (flags_strip r) as [F1 [F2 [F3 [F4 [F5 F6]]]]]. cbn zeta in *.
  rewrite F1, F3, F4, checks_strip in Hnf. unfold gf_fuel in *. rewrite grammar_size_strip, get_fields_strip in Hnf.
  cbn [strip_rule r_def r_name] in Hnf.
  destruct (get_fields fcfg (S (grammar_size g)) g (r_def r)) as [rf| |]; try discriminate.
  set (ctx := {| c_skip := negb (fl_no_skip_ws (flags_of (r_directives r))); c_fields := rf |}) in *.
  pair_e ctx (r_def r) st1 gl1 st2 gl2 HR HA HC Hnf.
  match goal with |- nf (fst (match ?o with _ => _ end)) => destruct o as [v|] end; [apply T_run_checks|discriminate].
Qed.

Lemma T_char_parts nm ps : forall st1 gl1 st2 gl2, Rst st1 st2 -> an st1 -> CS gl1 ->
  nf (fst (char_parts ustate scfg tcfg evB nm ps st2 gl2)) -> nf (fst (char_parts ustate scfg tcfg evA nm ps st1 gl1)).
Proof.
  induction ps as [|pt ps IH]; intros st1 gl1 st2 gl2 HR HA HC Hnf; cbn [char_parts] in *; [apply T_fail|].
  destruct pt as [i|a b|n].
  - destruct (decode_item i) as [c| |]; try discriminate.
    pose proof (tw_clit scfg tcfg st1 st2 c HR) as T.
    destruct (parse_character_literal scfg tcfg st1 c), (parse_character_literal scfg tcfg st2 c); cbn in T; try contradiction; try discriminate.
    eapply IH; eauto.
  - destruct (compile_range a b) as [x y| |]; try discriminate.
    pose proof (tw_range scfg tcfg st1 st2 x y HR) as T.
    destruct (parse_character_range scfg tcfg st1 x y), (parse_character_range scfg tcfg st2 x y); cbn in T; try contradiction; try discriminate.
    eapply IH; eauto.
  - pair_r n st1 gl1 st2 gl2 HR HA HC Hnf.
    destruct Hu as [Hc _]. eapply IH; eauto.
Qed.

Lemma T_char_rule r st1 gl1 st2 gl2 : Rst st1 st2 -> an st1 -> CS gl1 ->
  nf (fst (char_rule_body ustate scfg tcfg hk evB r st2 gl2)) -> nf (fst (char_rule_body ustate scfg tcfg hk evA r st1 gl1)).
Proof.
  intros HR HA HC Hnf. unfold char_rule_body in *.
  pose proof (T_char_parts (cr_name r) (cr_choices r) st1 gl1 st2 gl2 HR HA HC) as Hp.
  destruct (cr_checks r) as [|c cs]; [apply Hp; exact Hnf|].
  destruct HR as [R1 R2]. rewrite <- R1 in Hnf.
  destruct (rest st1) as [|x xs] eqn:Er; [apply T_fail|].
  destruct (decode1 (x :: xs)) as [[ch k]|]; [|discriminate].
  destruct (char_checks ustate hk (cr_name r) (c :: cs) ch); [apply Hp; exact Hnf|apply T_fail].
Qed.

Lemma T_extern r st gl : nf (fst (extern_rule_body ustate scfg hk r st gl)).
Proof.
  unfold extern_rule_body. destruct (h_extern hk (er_function r) (rest st) (g_user gl)) as [res u].
  destruct res as [[v k]|msg]; [|apply T_fail]. destruct (advance_safe st k); discriminate.
Qed.

End Walk.

(* ---- the rule call ---------------------------------------------------------------- *)
Section RuleLevel.
Variable evA : evals ustate.
Variable m : nat.
Hypothesis HU : Uev evA.
Hypothesis HW : Wev evA (RunB m).
Hypothesis HT : Tev evA (RunB m).

Theorem T_rule n st1 gl1 st2 gl2 : Rst st1 st2 -> an st1 -> CS gl1 ->
  nf (fst (ev_rule (RunB (S m)) n st2 gl2)) ->
  nf (fst (rule_step ustate scfg tcfg fcfg rcfg hk g evA n st1 gl1)).
Proof.
  intros HR HA HC Hnf.
  destruct (find_grule g n) as [[r|r|r]|] eqn:Hf.
  - rewrite (B_rule_step ustate scfg tcfg fcfg rcfg hk g NoLR m n r st2 gl2 Hf) in Hnf.
    unfold rule_step. rewrite Hf.
    destruct (find_grule_in g n r Hf) as [Hin Hn].
    set (gl1' := trace ustate (TStart (r_name r) (off st1)) gl1).
    assert (C1 : CS gl1') by (eapply CS_same; [|exact HC]; reflexivity).
    assert (Hm : nf (fst (memo_wrap ustate scfg fcfg rcfg hk g evA r st1 gl1'))).
    { unfold memo_wrap. rewrite (NoLR r Hin).
      destruct (fl_memoize (flags_of (r_directives r))); [|eapply (T_rule_body evA (RunB m) HU HW HT); eauto].
      destruct (cache_get (r_name r) (off st1) (g_cache gl1')) as [c|] eqn:Ec; [apply nf_cached|].
      set (gl2' := log_eval ustate (r_name r, off st1) gl1').
      assert (C2 : CS gl2') by (eapply CS_same; [|exact C1]; reflexivity).
      pose proof (T_rule_body evA (RunB m) HU HW HT r st1 gl2' st2 _ HR HA C2 Hnf) as Hb.
      destruct (rule_body ustate scfg fcfg hk g evA r st1 gl2') as [[v s|e|p|] gb]; cbn [fst] in *; try discriminate.
      - destruct (memo_closed rcfg); discriminate.
      - exact Hb. }
    destruct (memo_wrap ustate scfg fcfg rcfg hk g evA r st1 gl1') as [[v s|e|p|] gb]; cbn [fst] in *; try discriminate.
    exact Hm.
  - cbn [run step ev_rule] in Hnf. unfold rule_step in *. rewrite find_grule_strip, Hf in Hnf. cbn [option_map strip_grule] in Hnf.
    rewrite Hf. eapply (T_char_rule evA (RunB m) HU HW HT); eauto.
  - unfold rule_step. rewrite Hf. apply T_extern.
  - unfold rule_step. rewrite Hf.
    destruct (name_eqb n n_char); [apply T_lift|].
    destruct (name_eqb n n_Whitespace); [apply T_lift|discriminate].
Qed.

End RuleLevel.

(* ---- putting the levels together: the marked parser with bound n against the unmarked one
        with any bound m <= n ------------------------------------------------------------- *)
Theorem tot_levels : forall n m, m <= n -> Tev (RunA n) (RunB m).
Proof.
  induction n as [|n IH]; intros m Hle.
  - assert (m = 0) by lia. subst m. split; [|split]; intros; cbn in *; exfalso; match goal with H : nf MFuel |- _ => apply H; reflexivity end.
  - destruct m as [|m].
    + split; [|split]; intros; cbn in *; exfalso; match goal with H : nf MFuel |- _ => apply H; reflexivity end.
    + destruct (memo_levels ustate scfg tcfg fcfg rcfg hk g input NoLR Pcheck Pext n) as [HU HW].
      assert (HT : Tev (RunA n) (RunB m)) by (apply IH; lia).
      split; [|split]; intros; cbn [run step ev_expr ev_rule ev_loop] in *.
      * eapply (T_expr (RunA n) (RunB m) HU (HW m) HT); eauto.
      * eapply (T_rule (RunA n) m HU (HW m) HT); eauto.
      * eapply (T_loop (RunA n) (RunB m) HU (HW m) HT); eauto.
Qed.

(* the whole parse *)
Theorem memoize_keeps_termination n m rule_name u u' : m <= n ->
  fst (m_parse ustate scfg tcfg fcfg rcfg hk (strip g) m rule_name input u') <> MFuel ->
  fst (m_parse ustate scfg tcfg fcfg rcfg hk g n rule_name input u) <> MFuel.
Proof.
  intros Hle Hnf. unfold m_parse in *. destruct (tot_levels n m Hle) as [_ [Hr _]].
  eapply Hr; [apply Rst_refl|reflexivity|apply CS_init|exact Hnf].
Qed.

End Main.
