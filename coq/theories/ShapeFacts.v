(* Relating the templates' piecewise assembly of field values (Model: lookup,
   seq_merge_vals, order_as, convert_arm, defaults, extend_all) to the
   specification's grouping of events by declared arity (Spec: field_value,
   shape_fields). *)
From Coq Require Import Lia.
From PegV Require Import Utf8 State Syntax Fields FieldsFacts Model Spec.

Definition mine (n : name) (evs : list event) : list event :=
  filter (fun e => name_eqb (ev_field e) n) evs.

Lemma mine_app n a b : mine n (a ++ b) = mine n a ++ mine n b.
Proof. unfold mine. apply filter_app. Qed.

Definition no_events (n : name) (evs : list event) : Prop :=
  Forall (fun e => name_eqb (ev_field e) n = false) evs.

Lemma mine_none n evs : no_events n evs -> mine n evs = [].
Proof.
  unfold mine. induction 1 as [|e evs He _ IH]; [reflexivity|]. cbn. rewrite He. exact IH.
Qed.

Lemma no_events_app n a b : no_events n (a ++ b) <-> no_events n a /\ no_events n b.
Proof. apply Forall_app. Qed.

Lemma field_value_mine fd evs :
  field_value fd evs =
  match fd_arity fd with
  | One => match mine (fd_name fd) evs with [e] => Some (wrap_enum fd e) | _ => None end
  | Optional => match mine (fd_name fd) evs with
                | [] => Some VNone | [e] => Some (VSome (wrap_enum fd e)) | _ => None end
  | Multiple => Some (VList (map (wrap_enum fd) (mine (fd_name fd) evs)))
  end.
Proof. reflexivity. Qed.

Lemma field_value_nil fd : field_value fd [] = default_of (fd_arity fd).
Proof. unfold field_value. destruct (fd_arity fd); reflexivity. Qed.

Lemma field_value_app_l fd a b : no_events (fd_name fd) b -> field_value fd (a ++ b) = field_value fd a.
Proof. intro H. rewrite !field_value_mine, mine_app, (mine_none _ b H), app_nil_r. reflexivity. Qed.

Lemma field_value_app_r fd a b : no_events (fd_name fd) a -> field_value fd (a ++ b) = field_value fd b.
Proof. intro H. rewrite !field_value_mine, mine_app, (mine_none _ a H). reflexivity. Qed.

Lemma field_value_multiple fd evs :
  fd_arity fd = Multiple -> field_value fd evs = Some (VList (map (wrap_enum fd) (mine (fd_name fd) evs))).
Proof. intro H. rewrite field_value_mine, H. reflexivity. Qed.

Lemma field_value_app_multiple fd a b la lb :
  fd_arity fd = Multiple -> field_value fd a = Some (VList la) -> field_value fd b = Some (VList lb) ->
  field_value fd (a ++ b) = Some (VList (la ++ lb)).
Proof.
  intros H Ha Hb. rewrite field_value_multiple in * by auto.
  injection Ha as <-. injection Hb as <-. rewrite mine_app, map_app. reflexivity.
Qed.

(* ---------- association lists ------------------------------------------- *)

Lemma lookup_app n a b : lookup n (a ++ b) = match lookup n a with Some v => Some v | None => lookup n b end.
Proof.
  induction a as [|[m v] a IH]; cbn; [reflexivity|]. destruct (name_eqb n m); auto.
Qed.

Lemma lookup_update_same n v fs : lookup n fs <> None -> lookup n (update n v fs) = Some v.
Proof.
  induction fs as [|[m w] fs IH]; cbn; [congruence|].
  destruct (name_eqb n m) eqn:E; cbn; rewrite E; auto.
Qed.

Lemma lookup_update_other n m v fs : n <> m -> lookup m (update n v fs) = lookup m fs.
Proof.
  intro H. induction fs as [|[k w] fs IH]; cbn; [reflexivity|].
  destruct (name_eqb n k) eqn:E; cbn.
  - apply name_eqb_eq in E. subst k.
    replace (name_eqb m n) with false by (symmetry; apply name_eqb_neq; auto).
    destruct (name_eqb m n) eqn:E2; [apply name_eqb_eq in E2; congruence|reflexivity].
  - destruct (name_eqb m k); auto.
Qed.

(* ---------- shape_fields -------------------------------------------------- *)

Lemma shape_fields_names fds evs fs :
  shape_fields fds evs = Some fs -> map fst fs = map fd_name fds.
Proof.
  revert fs. induction fds as [|fd fds IH]; intros fs H; cbn in H.
  - injection H as <-. reflexivity.
  - destruct (field_value fd evs); [|discriminate].
    destruct (shape_fields fds evs) as [r|]; [|discriminate].
    injection H as <-. cbn. rewrite (IH r eq_refl). reflexivity.
Qed.

Lemma lookup_shape fds evs fs n fd :
  shape_fields fds evs = Some fs -> find_fd n fds = Some fd -> lookup n fs = field_value fd evs.
Proof.
  revert fs. induction fds as [|x fds IH]; intros fs H F; [discriminate|].
  cbn in H. destruct (field_value x evs) as [v|] eqn:V; [|discriminate].
  destruct (shape_fields fds evs) as [r|]; [|discriminate]. injection H as <-.
  cbn in F. cbn. rewrite name_eqb_sym.
  destruct (name_eqb (fd_name x) n); [injection F as <-; auto | apply IH; auto].
Qed.

Lemma lookup_shape_none fds evs fs n :
  shape_fields fds evs = Some fs -> find_fd n fds = None -> lookup n fs = None.
Proof.
  revert fs. induction fds as [|x fds IH]; intros fs H F; cbn in H.
  - injection H as <-. reflexivity.
  - destruct (field_value x evs) as [v|]; [|discriminate].
    destruct (shape_fields fds evs) as [r|]; [|discriminate]. injection H as <-.
    cbn in F. cbn. rewrite name_eqb_sym.
    destruct (name_eqb (fd_name x) n); [discriminate | apply IH; auto].
Qed.

Lemma defaults_shape fds : defaults fds = shape_fields fds [].
Proof.
  induction fds as [|fd fds IH]; [reflexivity|]. cbn. rewrite field_value_nil, IH. reflexivity.
Qed.

Lemma order_as_shape fds acc evs :
  (forall fd, In fd fds -> lookup (fd_name fd) acc = field_value fd evs) ->
  order_as fds acc = shape_fields fds evs.
Proof.
  induction fds as [|fd fds IH]; intro H; [reflexivity|]. cbn.
  rewrite (H fd (or_introl eq_refl)), IH; [reflexivity|]. intros; apply H; right; auto.
Qed.

Lemma convert_arm_shape fds inner fs evs :
  (forall fd, In fd fds ->
     (if has_fd (fd_name fd) inner then lookup (fd_name fd) fs else default_of (fd_arity fd))
     = field_value fd evs) ->
  convert_arm fds inner fs = shape_fields fds evs.
Proof.
  induction fds as [|fd fds IH]; intro H; [reflexivity|]. cbn.
  rewrite (H fd (or_introl eq_refl)), IH; [reflexivity|]. intros; apply H; right; auto.
Qed.

(* closure accumulators *)
Definition clo_acc (fds : list fdesc) (evs : list event) : fields :=
  map (fun fd => (fd_name fd, VList (map (wrap_enum fd) (mine (fd_name fd) evs)))) fds.

Lemma clo_acc_nil fds : clo_acc fds [] = empty_vecs fds.
Proof. reflexivity. Qed.

Lemma shape_fields_clo fds evs :
  Forall (fun fd => fd_arity fd = Multiple) fds -> shape_fields fds evs = Some (clo_acc fds evs).
Proof.
  induction 1 as [|fd fds H _ IH]; [reflexivity|]. cbn.
  rewrite field_value_multiple, IH by auto. reflexivity.
Qed.

(* extend_all with the shaped result of one more iteration *)
Lemma extend_all_clo fds : forall sub evs new_evs fs,
  (forall fd, In fd sub -> find_fd (fd_name fd) fds = Some fd) ->
  Forall (fun fd => fd_arity fd = Multiple) fds ->
  shape_fields fds new_evs = Some fs ->
  extend_all (clo_acc sub evs) fs = Some (clo_acc sub (evs ++ new_evs)).
Proof.
  induction sub as [|fd sub IH]; intros evs new_evs fs Hsub Hm Hs; [reflexivity|].
  cbn [clo_acc map extend_all].
  rewrite (lookup_shape fds new_evs fs (fd_name fd) fd Hs) by (apply Hsub; left; reflexivity).
  assert (Hfd : fd_arity fd = Multiple).
  { pose proof (Hsub fd (or_introl eq_refl)) as F. apply find_fd_in in F.
    rewrite Forall_forall in Hm. apply Hm. exact F. }
  rewrite field_value_multiple by exact Hfd.
  fold (clo_acc sub evs). rewrite (IH evs new_evs fs); auto.
  - rewrite mine_app, map_app. reflexivity.
  - intros; apply Hsub; right; auto.
Qed.

(* ---------- seq_merge_vals ------------------------------------------------ *)

Lemma seq_merge_vals_lookup new : forall acc acc',
  NoDup (map fst new) -> seq_merge_vals acc new = Some acc' ->
  forall n, lookup n acc' =
    match lookup n new with
    | None => lookup n acc
    | Some v =>
      match lookup n acc with
      | None => Some v
      | Some (VList a) => match v with VList b => Some (VList (a ++ b)) | _ => None end
      | Some _ => None
      end
    end.
Proof.
  induction new as [|[m v] new IH]; intros acc acc' ND H n.
  - cbn in H. injection H as <-. reflexivity.
  - inversion ND as [|? ? Hnotin ND']; subst. cbn [seq_merge_vals] in H. cbn [lookup].
    assert (Hnew : forall k, name_eqb k m = true -> lookup k new = None).
    { intros k E. apply name_eqb_eq in E. subst k.
      destruct (lookup m new) eqn:L; [|reflexivity]. exfalso. apply Hnotin.
      clear -L. induction new as [|[k w] new IH]; [discriminate|]. cbn in *.
      destruct (name_eqb m k) eqn:E; [apply name_eqb_eq in E; left; auto | right; auto]. }
    destruct (lookup m acc) as [old|] eqn:LA.
    + destruct old; try discriminate. destruct v; try discriminate.
      rewrite (IH _ _ ND' H n).
      destruct (name_eqb n m) eqn:E.
      * rewrite (Hnew n E). apply name_eqb_eq in E. subst n.
        rewrite lookup_update_same by congruence. rewrite LA. reflexivity.
      * rewrite lookup_update_other by (apply name_eqb_neq; rewrite name_eqb_sym; exact E). reflexivity.
    + rewrite (IH _ _ ND' H n). rewrite lookup_app. cbn [lookup].
      destruct (name_eqb n m) eqn:E.
      * rewrite (Hnew n E). apply name_eqb_eq in E. subst n. rewrite LA. reflexivity.
      * destruct (lookup n acc); reflexivity.
Qed.
