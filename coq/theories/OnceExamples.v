(* Instances for OnceWF / Once: a grammar with a @leftrec rule and memoized rules that the
   certificate of the packrat bound covers, and the grammar of the known finding
   c06:reentrant-through-leftrec, which it rejects and on which the bound fails.
   (ASTs dumped through the shipped front end from the grammar texts quoted below.) *)
From PegV Require Import Utf8 State Terminals Syntax Fields FieldsFacts Literals Model Conform WellFormed OnceWF Once.

(* @export S = m:M;  @memoize M = a:A 'm' | 'k';  @leftrec A = m:*M 'x' | 'b'; *)
Definition g_reentrant : grammar := [
  (GRule {| r_directives := [DExport]; r_name := [83]%N; r_def := (EChoice [(ESeq [(EField (FNamed [109]%N) false [77]%N)])]) |});
  (GRule {| r_directives := [DMemoize]; r_name := [77]%N; r_def := (EChoice [(ESeq [(EField (FNamed [97]%N) false [65]%N); (ELit false [(SIChar 109%N)])]); (ESeq [(ELit false [(SIChar 107%N)])])]) |});
  (GRule {| r_directives := [DLeftrec]; r_name := [65]%N; r_def := (EChoice [(ESeq [(EField (FNamed [109]%N) true [77]%N); (ELit false [(SIChar 120%N)])]); (ESeq [(ELit false [(SIChar 98%N)])])]) |})
].

(* @export @leftrec E = l:*E '+' t:T | t:T;  @memoize T = n:N '*' t:*T | n:N;
   @memoize @string @no_skip_ws N = {'0'..'9'}+; *)
Definition g_lr_memo : grammar := [
  (GRule {| r_directives := [DExport; DLeftrec]; r_name := [69]%N; r_def := (EChoice [(ESeq [(EField (FNamed [108]%N) true [69]%N); (ELit false [(SIChar 43%N)]); (EField (FNamed [116]%N) false [84]%N)]); (ESeq [(EField (FNamed [116]%N) false [84]%N)])]) |});
  (GRule {| r_directives := [DMemoize]; r_name := [84]%N; r_def := (EChoice [(ESeq [(EField (FNamed [110]%N) false [78]%N); (ELit false [(SIChar 42%N)]); (EField (FNamed [116]%N) true [84]%N)]); (ESeq [(EField (FNamed [110]%N) false [78]%N)])]) |});
  (GRule {| r_directives := [DMemoize; DString; DNoSkipWs]; r_name := [78]%N; r_def := (EChoice [(ESeq [(EClosure (EChoice [(ESeq [(ERange (SIChar 48%N) (SIChar 57%N))])]) true)])]) |})
].

Lemma lr_memo_certified : well_formed_once g_lr_memo = true.
Proof. vm_compute. reflexivity. Qed.

Lemma reentrant_not_certified : well_formed_once g_reentrant = false.
Proof. vm_compute. reflexivity. Qed.

Definition scfg_doc : state_cfg := {| rec_le := true; further_gt := true |}.
Definition rcfg_doc : rule_cfg := {| memo_closed := true; leftrec_closed := true; insens_guard := true |}.
Definition run_reentrant (input : bytes) :=
  m_parse unit scfg_doc term_cfg_expected fields_cfg_doc rcfg_doc no_hooks g_reentrant 40 [83]%N input tt.

(* "bm" is accepted, and the body of M was started twice at offset 0: M is entered at offset 0,
   opens A, whose body enters M at offset 0 again (no entry yet) *)
Lemma reentrant_evaluated_twice :
  exists v st gl, run_reentrant [98; 109]%N = (MOk v st, gl) /\ ~ NoDup (g_evals gl).
Proof.
  destruct (run_reentrant [98; 109]%N) as [[v st|e|p|] gl] eqn:E; try (vm_compute in E; discriminate).
  exists v, st, gl. split; [reflexivity|].
  assert (H : g_evals gl = [([77%N], 0); ([77%N], 0)]).
  { change gl with (snd (MOk v st, gl)). rewrite <- E. vm_compute. reflexivity. }
  rewrite H. intro N. inversion N as [|x l Hn _]. apply Hn. left. reflexivity.
Qed.
