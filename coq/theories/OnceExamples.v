(* Instances for OnceWF / Once: grammars with @leftrec rules and memoized rules that the
   certificate of the packrat bound covers, and grammars - the one of the known finding
   c06:reentrant-through-leftrec among them - which it rejects and on which the bound fails.
   (ASTs dumped through the shipped front end from the grammar texts quoted below.) *)
From PegV Require Import Utf8 State Terminals Syntax Fields FieldsFacts Literals Model Conform WellFormed OnceWF Once.

(* @export S = m:M;  @memoize M = a:A 'm' | 'k';  @leftrec A = m:*M 'x' | 'b'; *)
Definition g_reentrant : grammar := [
  (GRule {| r_directives := [DExport]; r_name := [83]%N; r_def := (EChoice [(ESeq [(EField (FNamed [109]%N) false [77]%N)])]) |});
  (GRule {| r_directives := [DMemoize]; r_name := [77]%N; r_def := (EChoice [(ESeq [(EField (FNamed [97]%N) false [65]%N); (ELit false [(SIChar 109%N)])]); (ESeq [(ELit false [(SIChar 107%N)])])]) |});
  (GRule {| r_directives := [DLeftrec]; r_name := [65]%N; r_def := (EChoice [(ESeq [(EField (FNamed [109]%N) true [77]%N); (ELit false [(SIChar 120%N)])]); (ESeq [(ELit false [(SIChar 98%N)])])]) |})
].

(* @export @leftrec E = l:*E '+' t:T | t:T;  @memoize T = n:N '*' t:*T | n:N;
   @memoize @string @no_skip_ws N = {'0'..'9'}+; *)
Definition g_lr_memo : grammar := [
  (GRule {| r_directives := [DExport; DLeftrec]; r_name := [69]%N; r_def := (EChoice [(ESeq [(EField (FNamed [108]%N) true [69]%N); (ELit false [(SIChar 43%N)]); (EField (FNamed [116]%N) false [84]%N)]); (ESeq [(EField (FNamed [116]%N) false [84]%N)])]) |});
  (GRule {| r_directives := [DMemoize]; r_name := [84]%N; r_def := (EChoice [(ESeq [(EField (FNamed [110]%N) false [78]%N); (ELit false [(SIChar 42%N)]); (EField (FNamed [116]%N) true [84]%N)]); (ESeq [(EField (FNamed [110]%N) false [78]%N)])]) |});
  (GRule {| r_directives := [DMemoize; DString; DNoSkipWs]; r_name := [78]%N; r_def := (EChoice [(ESeq [(EClosure (EChoice [(ESeq [(ERange (SIChar 48%N) (SIChar 57%N))])]) true)])]) |})
].

(* the usual way of writing left recursion with peginator: the recursion goes through a plain rule
   @export @leftrec Expr = @:Add | @:Term;  Add = left:*Expr '+' right:Term;
   @memoize Term = n:Number | '(' e:*Expr ')';  @memoize @string @no_skip_ws Number = {'0'..'9'}+;
   and the same with Add memoized too *)
Definition g_style : grammar := [
  (GRule {| r_directives := [DExport; DLeftrec]; r_name := [69; 120; 112; 114]%N; r_def := (EChoice [(ESeq [(EField FOverride false [65; 100; 100]%N)]); (ESeq [(EField FOverride false [84; 101; 114; 109]%N)])]) |});
  (GRule {| r_directives := []; r_name := [65; 100; 100]%N; r_def := (EChoice [(ESeq [(EField (FNamed [108; 101; 102; 116]%N) true [69; 120; 112; 114]%N); (ELit false [(SIChar 43%N)]); (EField (FNamed [114; 105; 103; 104; 116]%N) false [84; 101; 114; 109]%N)])]) |});
  (GRule {| r_directives := [DMemoize]; r_name := [84; 101; 114; 109]%N; r_def := (EChoice [(ESeq [(EField (FNamed [110]%N) false [78; 117; 109; 98; 101; 114]%N)]); (ESeq [(ELit false [(SIChar 40%N)]); (EField (FNamed [101]%N) true [69; 120; 112; 114]%N); (ELit false [(SIChar 41%N)])])]) |});
  (GRule {| r_directives := [DMemoize; DString; DNoSkipWs]; r_name := [78; 117; 109; 98; 101; 114]%N; r_def := (EChoice [(ESeq [(EClosure (EChoice [(ESeq [(ERange (SIChar 48%N) (SIChar 57%N))])]) true)])]) |})
].

Definition g_style_memo_add : grammar := [
  (GRule {| r_directives := [DExport; DLeftrec]; r_name := [69; 120; 112; 114]%N; r_def := (EChoice [(ESeq [(EField FOverride false [65; 100; 100]%N)]); (ESeq [(EField FOverride false [84; 101; 114; 109]%N)])]) |});
  (GRule {| r_directives := [DMemoize]; r_name := [65; 100; 100]%N; r_def := (EChoice [(ESeq [(EField (FNamed [108; 101; 102; 116]%N) true [69; 120; 112; 114]%N); (ELit false [(SIChar 43%N)]); (EField (FNamed [114; 105; 103; 104; 116]%N) false [84; 101; 114; 109]%N)])]) |});
  (GRule {| r_directives := [DMemoize]; r_name := [84; 101; 114; 109]%N; r_def := (EChoice [(ESeq [(EField (FNamed [110]%N) false [78; 117; 109; 98; 101; 114]%N)]); (ESeq [(ELit false [(SIChar 40%N)]); (EField (FNamed [101]%N) true [69; 120; 112; 114]%N); (ELit false [(SIChar 41%N)])])]) |});
  (GRule {| r_directives := [DMemoize; DString; DNoSkipWs]; r_name := [78; 117; 109; 98; 101; 114]%N; r_def := (EChoice [(ESeq [(EClosure (EChoice [(ESeq [(ERange (SIChar 48%N) (SIChar 57%N))])]) true)])]) |})
].


Lemma lr_memo_certified : well_formed_once_all g_lr_memo = true.
Proof. vm_compute. reflexivity. Qed.

(* Add is entered with Expr open (its call of Expr is a hit) and, after whitespace, with Expr not
   open: it has a rank in each context *)
Lemma style_certified : well_formed_once_all g_style = true.
Proof. vm_compute. reflexivity. Qed.

Lemma reentrant_not_certified : well_formed_once g_reentrant = false.
Proof. vm_compute. reflexivity. Qed.

Lemma style_memo_add_not_certified : well_formed_once g_style_memo_add = false.
Proof. vm_compute. reflexivity. Qed.

Definition scfg_doc : state_cfg := {| rec_le := true; further_gt := true |}.
Definition rcfg_doc : rule_cfg := {| memo_closed := true; leftrec_closed := true; insens_guard := true |}.
Definition run_doc (g : grammar) (rule_name : name) (input : bytes) :=
  m_parse unit scfg_doc term_cfg_expected fields_cfg_doc rcfg_doc no_hooks g 60 rule_name input tt.
Definition run_reentrant := run_doc g_reentrant [83]%N.

(* "bm" is accepted, and the body of M was started twice at offset 0: M is entered at offset 0,
   opens A, whose body enters M at offset 0 again (no entry yet) *)
Lemma reentrant_evaluated_twice :
  exists v st gl, run_reentrant [98; 109]%N = (MOk v st, gl) /\ ~ NoDup (g_evals gl).
Proof.
  destruct (run_reentrant [98; 109]%N) as [[v st|e|p|] gl] eqn:E; try (vm_compute in E; discriminate).
  exists v, st, gl. split; [reflexivity|].
  assert (H : g_evals gl = [([77%N], 0); ([77%N], 0)]).
  { change gl with (snd (MOk v st, gl)). rewrite <- E. vm_compute. reflexivity. }
  rewrite H. intro N. inversion N as [|x l Hn _]. apply Hn. left. reflexivity.
Qed.

(* " 1+2" (a leading blank): Expr opens at offset 0 and skips the blank, Add is entered at offset 1
   where Expr is not open, opens it there, and is entered at offset 1 again *)
Lemma style_memo_add_evaluated_twice :
  exists v st gl, run_doc g_style_memo_add [69; 120; 112; 114]%N [32; 49; 43; 50]%N = (MOk v st, gl) /\ ~ NoDup (g_evals gl).
Proof.
  destruct (run_doc g_style_memo_add [69; 120; 112; 114]%N [32; 49; 43; 50]%N) as [[v st|e|p|] gl] eqn:E; try (vm_compute in E; discriminate).
  exists v, st, gl. split; [reflexivity|].
  assert (H : exists l, g_evals gl = l ++ [([65; 100; 100]%N, 1); ([65; 100; 100]%N, 1)]).
  { change gl with (snd (MOk v st, gl)). rewrite <- E.
    exists [([78; 117; 109; 98; 101; 114]%N, 3); ([84; 101; 114; 109]%N, 3); ([78; 117; 109; 98; 101; 114]%N, 1); ([84; 101; 114; 109]%N, 1)].
    vm_compute. reflexivity. }
  destruct H as [l H]. rewrite H. intro N. apply NoDup_remove_2 in N. apply N. apply in_or_app. right. left. reflexivity.
Qed.
