(* C10: the error a failed parse reports is a match attempt that really failed
   during that parse (or the farthest-error default, or the left-recursion
   sentinel), for EVERY grammar - memoized and left-recursive rules included -
   and arbitrary stateful hooks.  Instance of the generic invariant theorem: the
   ghost log g_fails records every failed terminal / check / extern / lookahead
   attempt at the state where it failed; every error value that flows through
   the model (farthest errors in states, cached errors, returned errors) is an
   entry of that log. *)
From Coq Require Import Lia.
From PegV Require Import Utf8 State Terminals Syntax Fields Literals Model Inv.

Section Real.
Variable ustate : Type.
Variable scfg : state_cfg.
Variable tcfg : term_cfg.
Variable fcfg : fields_cfg.
Variable rcfg : rule_cfg.
Variable hk : hooks ustate.
Variable g : grammar.
Notation glb := (glob ustate).

Definition real (gl : glb) (e : perr) : Prop :=
  In e (g_fails gl) \/ e_spec e = LeftRecursionSentinel \/ e_spec e = OtherError.
Definition rst (gl : glb) (st : pstate) : Prop := forall e, far st = Some e -> real gl e.
Definition rcached (gl : glb) (c : cached) : Prop := match c with COk _ st => rst gl st | CErr e => real gl e end.
Definition rgl (gl : glb) : Prop := forall n k c, cache_get n k (g_cache gl) = Some c -> rcached gl c.
Definition grows (gl gl' : glb) : Prop := exists d, g_fails gl' = d ++ g_fails gl.

Lemma grows_refl gl : grows gl gl. Proof. exists []. reflexivity. Qed.
Lemma grows_trans a b c : grows a b -> grows b c -> grows a c.
Proof. intros [d1 E1] [d2 E2]. exists (d2 ++ d1). rewrite E2, E1, app_assoc. reflexivity. Qed.
Lemma real_mono gl gl' e : grows gl gl' -> real gl e -> real gl' e.
Proof. intros [d E] [H|H]; [left; rewrite E; apply in_or_app; right; exact H|right; exact H]. Qed.
Lemma rst_mono gl gl' st : grows gl gl' -> rst gl st -> rst gl' st.
Proof. intros G H e He. eapply real_mono; eauto. Qed.
Lemma rcached_mono gl gl' c : grows gl gl' -> rcached gl c -> rcached gl' c.
Proof. intros G H. destruct c; [eapply rst_mono|eapply real_mono]; eauto. Qed.
Lemma same_fails gl gl' : g_fails gl' = g_fails gl -> grows gl gl'.
Proof. intro E. exists []. exact E. Qed.
Lemma rgl_same gl gl' : g_cache gl' = g_cache gl -> grows gl gl' -> rgl gl -> rgl gl'.
Proof. intros E G H n k c Hc. rewrite E in Hc. eapply rcached_mono; eauto. Qed.

Lemma far_adv_then {A} st n (v v' : A) st' : adv_then st n v = TOk v' st' -> far st' = far st.
Proof.
  unfold adv_then, advance. destruct (Nat.ltb (length (rest st)) n); [discriminate|].
  destruct (is_boundary (rest st) n); [|discriminate]. intro H. injection H as _ <-. reflexivity.
Qed.

Lemma far_ws_loop bs : forall o f v st', ws_loop bs o f = TOk v st' -> far st' = f.
Proof.
  induction bs as [|x bs IH]; intros o f v st' E; cbn [ws_loop] in E.
  - injection E as _ <-. reflexivity.
  - destruct (is_ascii_ws x); [|injection E as _ <-; reflexivity].
    destruct (advance {| rest := x :: bs; off := o; far := f |} 1); try discriminate. eapply IH; eauto.
Qed.

Ltac far_tac H :=
  repeat match type of H with
         | adv_then _ _ _ = TOk _ _ => eapply far_adv_then; exact H
         | TErr _ = TOk _ _ => discriminate H
         | TPanic = TOk _ _ => discriminate H
         | (match ?x with _ => _ end) = _ => destruct x eqn:?
         | (if ?x then _ else _) = _ => destruct x eqn:?
         end.

Lemma tpost {A} gl st (r : tres A) :
  rst gl st -> (forall v st', r = TOk v st' -> far st' = far st) ->
  term_post ustate rst false gl r.
Proof.
  intros H Hf. destruct r as [v st'|e| |]; cbn.
  - intros e He. rewrite (Hf v st' eq_refl) in He. auto.
  - exact I.
  - reflexivity.
  - reflexivity.
Qed.

Theorem real_invariant n :
  let Mrun := run ustate scfg tcfg fcfg rcfg hk g n in
  forall nm st gl, rst gl st -> rgl gl ->
    post ustate rst real rgl grows grows false gl (ev_rule Mrun nm st gl).
Proof.
  cbn zeta. intros nm st0 gl0 HS HG.
  apply (m_inv_rule ustate scfg tcfg fcfg rcfg hk g rst real rgl grows grows false);
    try exact HS; try exact HG; try (intros; discriminate).
  - apply grows_refl.
  - apply grows_trans.
  - apply grows_refl.
  - apply grows_trans.
  - auto.
  - intros gl gl' st G H. eapply rst_mono; eauto.
  - intros gl gl' e G H. eapply real_mono; eauto.
  - intros gl st e Hs He x Hx. unfold record_error in Hx.
    destruct (far st) as [f|] eqn:Ef.
    + destruct (if rec_le scfg then _ else _); cbn in Hx.
      * injection Hx as <-. exact He.
      * apply Hs. exact Hx.
    + cbn in Hx. injection Hx as <-. exact He.
  - intros gl st Hs. unfold report_farthest_error. destruct (far st) as [f|] eqn:Ef; [apply Hs; exact Ef|].
    right. right. reflexivity.
  - intros gl st sp Hs Hg. cbn zeta.
    assert (G : grows gl (log_fail ustate {| e_pos := off st; e_spec := sp |} gl)) by (eexists [_]; reflexivity).
    split; [apply (rgl_same gl); [reflexivity|exact G|exact Hg]|]. split; [exact G|]. left. cbn. left. reflexivity.
  - intros gl st Hs. right. left. reflexivity.
  - intros gl e Hg. apply (rgl_same gl); [reflexivity|apply same_fails; reflexivity|exact Hg].
  - intros gl n0 o. apply same_fails. reflexivity.
  - intros gl e st Hs. exact Hs.
  - intros gl e x Hx. exact Hx.
  - intros gl k. apply same_fails. reflexivity.
  - intros gl gl2 n0 o e [d E] _. exists d. cbn. exact E.
  - intros gl n0 o _ Hg. split; [apply (rgl_same gl); [reflexivity|apply same_fails; reflexivity|exact Hg]|apply same_fails; reflexivity].
  - intros gl u Hg. split; [apply (rgl_same gl); [reflexivity|apply same_fails; reflexivity|exact Hg]|apply same_fails; reflexivity].
  - intros gl n0 k c Hg Hc. exact (Hg n0 k c Hc).
  - intros gl n0 k c Hg Hc. split; [|apply same_fails; reflexivity].
    intros n1 k1 c1 H1. cbn in H1. destruct (name_eqb n1 n0 && Nat.eqb k1 k).
    + injection H1 as <-. destruct c; exact Hc.
    + exact (Hg n1 k1 c1 H1).
  - intros gl st Hs. apply (tpost gl st); [exact Hs|]. intros v st' E. unfold parse_char in E. far_tac E.
  - intros gl st Hs. apply (tpost gl st); [exact Hs|]. intros v st' E. unfold parse_Whitespace in E. eapply far_ws_loop; eauto.
  - intros gl st Hs. apply (tpost gl st); [exact Hs|]. intros v st' E. unfold parse_end_of_input in E.
    destruct (rest st); [|discriminate]. injection E as _ <-. reflexivity.
  - intros gl st s Hs _. apply (tpost gl st); [exact Hs|]. intros v st' E. unfold parse_string_literal in E. far_tac E.
  - intros gl st c Hs _. apply (tpost gl st); [exact Hs|]. intros v st' E. unfold parse_character_literal in E. far_tac E.
  - intros gl st a b Hs _ _. apply (tpost gl st); [exact Hs|]. intros v st' E. unfold parse_character_range in E. far_tac E.
  - intros gl st s Hs _. apply (tpost gl st); [exact Hs|]. intros v st' E. unfold parse_string_literal_insensitive in E. far_tac E.
  - intros gl st c Hs _. apply (tpost gl st); [exact Hs|]. intros v st' E. unfold parse_character_literal_insensitive in E. far_tac E.
  - intros. reflexivity.
  - intros gl r st Hs Hg. destruct (fst (h_extern hk (er_function r) (rest st) (g_user gl))) as [[v k]|]; [|exact I].
    unfold advance_safe, advance. destruct (Nat.ltb (length (rest st)) k); [reflexivity|].
    destruct (is_boundary (rest st) k); [|reflexivity]. intros e He. cbn in He. auto.
Qed.

(* the whole parse: the reported error is an entry of the log of failed attempts of this parse *)
Corollary reported_error_is_real fuel rule_name input u e gl' :
  m_parse ustate scfg tcfg fcfg rcfg hk g fuel rule_name input u = (MErr e, gl') ->
  In e (g_fails gl') \/ e_spec e = LeftRecursionSentinel \/ e_spec e = OtherError.
Proof.
  unfold m_parse. intro H.
  pose proof (real_invariant fuel rule_name (init_state input) (init_glob ustate u)) as K. cbn zeta in K.
  rewrite H in K. apply K.
  - intros x Hx. discriminate.
  - intros n k c Hc. discriminate.
Qed.

End Real.
