(* Termination for grammars with @memoize rules: the well-formedness certificate does
   not look at the marker, the unmarked grammar is plain (so its model terminates by
   TermModel.model_terminates), and the marked parser returns whenever the unmarked one
   does (MemoTot). *)
From Coq Require Import Lia.
From PegV Require Import Utf8 Utf8Facts State Terminals Syntax Fields FieldsFacts Literals Model Spec
  Sim Conform MemoEq MemoSpec MemoTot WellFormed Termination TermModel.

Lemma forallb_map_ext {A B} (f : B -> bool) (h : A -> B) (f' : A -> bool) l :
  (forall a, f (h a) = f' a) -> forallb f (map h l) = forallb f' l.
Proof. intro H. induction l as [|a l IH]; cbn; [reflexivity|]. rewrite H, IH. reflexivity. Qed.

Lemma wf_check_strip g nul rk : wf_check (strip g) nul rk = wf_check g nul rk.
Proof.
  unfold wf_check, strip. f_equal; [f_equal|].
  - apply forallb_map_ext. intros [r|c|x]; reflexivity.
  - apply forallb_map_ext. intros [r|c|x]; try reflexivity.
    cbn [strip_grule rank_ok_rule]. destruct (flags_strip r) as [F1 [_ [_ [_ [F5 _]]]]]. cbn zeta in *.
    rewrite F1, F5. reflexivity.
Qed.

Section MT.
Variable ustate : Type.
Variable scfg : state_cfg.
Variable fcfg : fields_cfg.
Variable rcfg : rule_cfg.
Variable hk : hooks ustate.
Variable shk : shooks.
Variable g : grammar.

Theorem memo_model_terminates :
  rec_le scfg = true -> fcfg_sound fcfg = true -> insens_guard rcfg = true ->
  pure_hooks ustate hk shk ->
  (forall r, In (GRule r) g -> fl_left_recursive (flags_of (r_directives r)) = false) ->
  forall nul rk, wf_check g nul rk = true ->
  forall rule_name cs u, all_scalar cs ->
  exists F, forall f, F <= f ->
    fst (m_parse ustate scfg term_cfg_expected fcfg rcfg hk g f rule_name (encode_str cs) u) <> MFuel.
Proof.
  intros Hle Hf Hg Hp NoLR nul rk WF rule_name cs u Hs.
  rewrite <- wf_check_strip in WF.
  destruct (model_terminates ustate scfg fcfg rcfg hk shk (strip g) Hle Hf Hg Hp
              (strip_plain g NoLR) nul rk WF rule_name cs u Hs) as [F H].
  exists F. intros f Hge. destruct (H f Hge) as [H1 _].
  destruct Hp as [P1 [P2 P3]].
  eapply (memoize_keeps_termination ustate scfg term_cfg_expected fcfg rcfg hk g (encode_str cs) NoLR);
    [| |apply Nat.le_refl|exact H1].
  - intros c v a b. rewrite !P1. reflexivity.
  - intros c bs a b. rewrite !P3. reflexivity.
Qed.

End MT.
