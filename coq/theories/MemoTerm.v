(* Termination for grammars with @memoize rules: the well-formedness certificate does
   not look at the marker, the unmarked grammar is plain (so its model terminates by
   TermModel.model_terminates), and the marked parser returns whenever the unmarked one
   does (MemoTot). *)
From Coq Require Import Lia.
From PegV Require Import Utf8 Utf8Facts State Terminals Syntax Fields FieldsFacts Literals Model Spec
  Sim Conform MemoEq MemoSpec MemoTot WellFormed Termination TermModel.

Lemma forallb_map_ext {A B} (f : B -> bool) (h : A -> B) (f' : A -> bool) l :
  (forall a, f (h a) = f' a) -> forallb f (map h l) = forallb f' l.
Proof. intro H. induction l as [|a l IH]; cbn; [reflexivity|]. rewrite H, IH. reflexivity. Qed.

Lemma wf_check_strip g nul rk : wf_check (strip g) nul rk = wf_check g nul rk.
Proof.
  unfold wf_check, strip. f_equal; [f_equal|].
  - apply forallb_map_ext. intros [r|c|x]; reflexivity.
  - apply forallb_map_ext. intros [r|c|x]; try reflexivity.
    cbn [strip_grule rank_ok_rule]. destruct (flags_strip r) as [F1 [_ [_ [_ [F5 _]]]]]. cbn zeta in *.
    rewrite F1, F5. reflexivity.
Qed.

Section MT.
Variable ustate : Type.
Variable scfg : state_cfg.
Variable fcfg : fields_cfg.
Variable rcfg : rule_cfg.
Variable hk : hooks ustate.
Variable shk : shooks.
Variable g : grammar.

Theorem memo_model_terminates :
  rec_le scfg = true -> fcfg_sound fcfg = true -> insens_guard rcfg = true ->
  pure_hooks ustate hk shk ->
  (forall r, In (GRule r) g -> fl_left_recursive (flags_of (r_directives r)) = false) ->
  forall nul rk, wf_check g nul rk = true ->
  forall rule_name cs u, all_scalar cs ->
  exists F, forall f, F <= f ->
    fst (m_parse ustate scfg term_cfg_expected fcfg rcfg hk g f rule_name (encode_str cs) u) <> MFuel.
Proof.
  intros Hle Hf Hg Hp NoLR nul rk WF rule_name cs u Hs.
  rewrite <- wf_check_strip in WF.
  destruct (model_terminates ustate scfg fcfg rcfg hk shk (strip g) Hle Hf Hg Hp
              (strip_plain g NoLR) nul rk WF rule_name cs u Hs) as [F H].
  exists F. intros f Hge. destruct (H f Hge) as [H1 _].
  destruct Hp as [P1 [P2 P3]].
  eapply (memoize_keeps_termination ustate scfg term_cfg_expected fcfg rcfg hk g (encode_str cs) NoLR);
    [| |apply Nat.le_refl|exact H1].
  - intros c v a b. rewrite !P1. reflexivity.
  - intros c bs a b. rewrite !P3. reflexivity.
Qed.

(* ... and then the two agree, whatever the bounds: a well-formed grammar with any subset of rules
   memoized is a parser for the PEG language of the grammar, full stop - there is a bound F beyond
   which the memoized model returns, the specification returns, and acceptance, tree and consumed
   prefix are the same *)
Theorem memoized_well_formed_conforms :
  rec_le scfg = true -> fcfg_sound fcfg = true -> insens_guard rcfg = true ->
  pure_hooks ustate hk shk ->
  (forall r, In (GRule r) g -> fl_left_recursive (flags_of (r_directives r)) = false) ->
  forall nul rk, wf_check g nul rk = true ->
  forall rule_name cs u, all_scalar cs ->
  exists F, forall n m, F <= n -> F <= m ->
    match fst (m_parse ustate scfg term_cfg_expected fcfg rcfg hk g n rule_name (encode_str cs) u) with
    | MOk v st' =>
      exists consumed cs' l,
        s_parse fcfg shk g true m rule_name cs = SOk v cs' (off st') l /\ cs = consumed ++ cs' /\
        off st' = length (encode_str consumed) /\ rest st' = encode_str cs'
    | MErr _ => exists l, s_parse fcfg shk g true m rule_name cs = SFail l
    | MPanic p => p <> PanicShape
    | MFuel => False
    end.
Proof.
  intros Hle Hf Hg Hp NoLR nul rk WF rule_name cs u Hs.
  pose proof WF as WF'. rewrite <- wf_check_strip in WF'.
  destruct (model_terminates ustate scfg fcfg rcfg hk shk (strip g) Hle Hf Hg Hp
              (strip_plain g NoLR) nul rk WF' rule_name cs u Hs) as [F H].
  exists F. intros n m Hn Hm.
  destruct (H F (Nat.le_refl F)) as [HF _]. destruct (H m Hm) as [H1 H2].
  destruct Hp as [P1 [P2 P3]].
  assert (Pc : forall f v u0 u', fst (h_check hk f v u0) = fst (h_check hk f v u')) by (intros; rewrite !P1; reflexivity).
  assert (Pe : forall f bs u0 u', fst (h_extern hk f bs u0) = fst (h_extern hk f bs u')) by (intros; rewrite !P3; reflexivity).
  pose proof (memoize_keeps_termination ustate scfg term_cfg_expected fcfg rcfg hk g (encode_str cs) NoLR Pc Pe n F rule_name u u Hn HF) as T.
  pose proof (memoize_transparent ustate scfg term_cfg_expected fcfg rcfg hk g (encode_str cs) NoLR Pc Pe n m rule_name u u) as W.
  pose proof (conform ustate scfg fcfg rcfg hk shk (strip g) Hle Hf Hg (conj P1 (conj P2 P3)) (strip_plain g NoLR) m rule_name cs u Hs) as C.
  rewrite Hg in C. rewrite s_parse_strip in C. rewrite s_parse_strip in H2.
  destruct (fst (m_parse ustate scfg term_cfg_expected fcfg rcfg hk g n rule_name (encode_str cs) u)) as [v st'|e|p|];
    [| | |apply T; reflexivity];
    destruct (fst (m_parse ustate scfg term_cfg_expected fcfg rcfg hk (strip g) m rule_name (encode_str cs) u)) as [v2 st2|e2|p2|];
    cbn in W, C; try contradiction; try (exfalso; apply H1; reflexivity).
  - destruct W as [-> [Hr Ho]]. destruct C as (consumed & cs' & l & E & E1 & E2 & E3).
    exists consumed, cs', l. rewrite Ho, Hr. auto.
  - destruct C as [l [E _]]. exists l. exact E.
  - subst p2. exact C.
Qed.

End MT.
