(* Top-level corollaries of the simulation, for whole parses:
   PegParserAdvanced::parse_advanced on an exported rule (m_parse) against the
   rule applied at offset 0 as a PEG (s_parse). *)
From Coq Require Import Lia.
From PegV Require Import Utf8 Utf8Facts State Terminals Syntax Fields FieldsFacts Literals Model Spec
  ErrLog Sim.

Section Conform.
Variable ustate : Type.
Variable scfg : state_cfg.
Variable fcfg : fields_cfg.
Variable rcfg : rule_cfg.
Variable hk : hooks ustate.
Variable shk : shooks.
Variable g : grammar.

Definition plain_grammar (g : grammar) : Prop :=
  forall r, In (GRule r) g ->
    fl_memoize (flags_of (r_directives r)) = false /\ fl_left_recursive (flags_of (r_directives r)) = false.

Definition pure_hooks : Prop :=
  (forall f v u, fst (h_check hk f v u) = sh_check shk f v) /\
  (forall f c, h_check_char hk f c = sh_check_char shk f c) /\
  (forall f bs u, fst (h_extern hk f bs u) = sh_extern shk f bs).

Definition conforms (cs : list N) (mr : mres value) (sr : sres value) : Prop :=
  match mr with
  | MOk v st' =>
    exists consumed cs' l,
      sr = SOk v cs' (off st') l /\ cs = consumed ++ cs' /\
      off st' = length (encode_str consumed) /\ rest st' = encode_str cs'
  | MErr e => exists l, sr = SFail l /\ Some e = furthest_latest None l
  | MPanic p => p <> PanicShape
  | MFuel => sr = SFuel
  end.

Theorem conform :
  rec_le scfg = true -> fcfg_sound fcfg = true -> insens_guard rcfg = true ->
  pure_hooks -> plain_grammar g ->
  forall fuel rule_name cs u, all_scalar cs ->
    conforms cs
      (fst (m_parse ustate scfg term_cfg_expected fcfg rcfg hk g fuel rule_name (encode_str cs) u))
      (s_parse fcfg shk g (insens_guard rcfg) fuel rule_name cs).
Proof.
  intros Hle Hf Hg [P1 [P2 P3]] Hplain fuel rule_name cs u Hs.
  destruct (sim_all ustate scfg Hle fcfg Hf rcfg Hg hk shk P1 P2 P3 g Hplain fuel) as [_ [Hr _]].
  unfold m_parse, s_parse.
  pose proof (Hr rule_name (init_state (encode_str cs)) (init_glob ustate u) cs eq_refl Hs) as C.
  cbn [init_state off far] in C.
  destruct (fst (ev_rule _ rule_name _ _)) as [v st'|e|p|]; cbn in *.
  - destruct C as [w [m [cs' [l [E1 [E2 [E3 [E4 [E5 E6]]]]]]]]]. subst w.
    exists m, cs', l. repeat split; auto.
  - exact C.
  - exact C.
  - exact C.
Qed.

(* and conversely: whatever S decides, M decides the same unless it panics *)
Corollary conform_converse :
  rec_le scfg = true -> fcfg_sound fcfg = true -> insens_guard rcfg = true ->
  pure_hooks -> plain_grammar g ->
  forall fuel rule_name cs u, all_scalar cs ->
    let mr := fst (m_parse ustate scfg term_cfg_expected fcfg rcfg hk g fuel rule_name (encode_str cs) u) in
    match s_parse fcfg shk g (insens_guard rcfg) fuel rule_name cs with
    | SOk v cs' o l => (exists st', mr = MOk v st' /\ off st' = o) \/ (exists p, mr = MPanic p)
    | SFail l => (exists e, mr = MErr e /\ Some e = furthest_latest None l) \/ (exists p, mr = MPanic p)
    | SStuck => (exists p, mr = MPanic p)
    | SFuel => mr = MFuel \/ (exists p, mr = MPanic p)
    end.
Proof.
  intros Hle Hf Hg Hp Hplain fuel rule_name cs u Hs.
  pose proof (conform Hle Hf Hg Hp Hplain fuel rule_name cs u Hs) as C. cbn zeta.
  destruct (fst (m_parse _ _ _ _ _ _ _ fuel rule_name (encode_str cs) u)) as [v st'|e|p|]; cbn in C.
  - destruct C as [m [cs' [l [E1 _]]]]. rewrite E1. left. eauto.
  - destruct C as [l [E1 E2]]. rewrite E1. left. eauto.
  - destruct (s_parse _ _ _ _ fuel rule_name cs); eauto.
  - rewrite C. left. reflexivity.
Qed.

End Conform.

(* decidable version of plain_grammar, and hooks for grammars that use none *)
Definition plain_grammar_b (g : grammar) : bool :=
  forallb (fun r => match r with
                    | GRule r => negb (fl_memoize (flags_of (r_directives r))) &&
                                 negb (fl_left_recursive (flags_of (r_directives r)))
                    | _ => true
                    end) g.

Lemma plain_grammar_b_ok g : plain_grammar_b g = true -> plain_grammar g.
Proof.
  unfold plain_grammar_b, plain_grammar. intros H r Hin. rewrite forallb_forall in H.
  specialize (H _ Hin). cbv beta iota in H. apply andb_true_iff in H. destruct H as [H1 H2].
  apply negb_true_iff in H1. apply negb_true_iff in H2. auto.
Qed.

Definition no_hooks : hooks unit :=
  {| h_check := fun _ _ u => (true, u); h_check_char := fun _ _ => true;
     h_extern := fun _ _ u => (inr [], u) |}.
Definition no_shooks : shooks :=
  {| sh_check := fun _ _ => true; sh_check_char := fun _ _ => true; sh_extern := fun _ _ => inr [] |}.

Lemma no_hooks_pure : pure_hooks unit no_hooks no_shooks.
Proof. repeat split. Qed.
