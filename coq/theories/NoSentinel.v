(* C10, "it is never the internal left-recursion sentinel when left-recursive rules list their
   recursive alternatives first".

   Part 1 (any grammar): the error bookkeeping of the clean part of a grammar (CleanFrame: rules from
   which no @memoize / @leftrec rule is reachable).  Fix an offset p.  A state is fine when it is at or
   beyond p and its recorded furthest error is a real one at or beyond p, or a sentinel at or before p;
   an error is fine when it is not the sentinel and lies at or beyond p.  With the "newer or equal
   replaces" comparison of record_error (fact rec_le), every evaluation of a clean expression from a
   fine state ends in a fine state or fails with a fine error: any real failure replaces the sentinel.

   Part 2 (the usual shape  A = l:A x... | b1 | balts...  of UsualShape.v, other alternatives clean): a
   failing parse of A entered in a state whose recorded error is not a sentinel - in particular the
   exported root - never reports the sentinel. *)
From Coq Require Import Lia.
From PegV Require Import Utf8 Utf8Facts State Terminals Syntax Fields FieldsFacts Literals Model CleanFrame UsualShape.

Section NS.
Variable ustate : Type.
Variable scfg : state_cfg.
Hypothesis Hle : rec_le scfg = true.
Variable tcfg : term_cfg.
Variable fcfg : fields_cfg.
Variable rcfg : rule_cfg.
Variable hk : hooks ustate.
Variable g : grammar.
Notation glb := (glob ustate).
Variable clean : name -> bool.
Hypothesis Hclean : forall n, clean n = true -> rule_clean g clean n.
Hypothesis Hinc : forall n r, clean n = true -> find_rule g n = Some r -> eclean clean (r_def r) = true.
Hypothesis Hws : clean n_Whitespace = true.
Variable p : nat.

Definition sent (e : perr) : Prop := e_spec e = LeftRecursionSentinel.
Definition Ierr (e : perr) : Prop := e_spec e <> LeftRecursionSentinel /\ p <= e_pos e.
Definition Ifar (f : perr) : Prop := Ierr f \/ (sent f /\ e_pos f <= p).
Definition Ist (s : pstate) : Prop := p <= off s /\ forall f, far s = Some f -> Ifar f.
(* the recorded error is a real one *)
Definition Nst (s : pstate) : Prop := p <= off s /\ exists f, far s = Some f /\ Ierr f.

Lemma Nst_Ist s : Nst s -> Ist s.
Proof. intros [A [f [B C]]]. split; [exact A|]. intros f' E. rewrite B in E. injection E as <-. left. exact C. Qed.

Lemma record_ok s e : Ist s -> Ierr e -> Nst (record_error scfg s e).
Proof.
  intros [A B] E. unfold record_error. rewrite Hle. destruct (far s) as [f|] eqn:F.
  - destruct (Nat.leb (e_pos f) (e_pos e)) eqn:L.
    + split; [exact A|]. exists e. split; [reflexivity|exact E].
    + apply PeanoNat.Nat.leb_gt in L. split; [exact A|]. exists f. split; [exact F|].
      destruct (B f eq_refl) as [I|[_ I]]; [exact I|]. destruct E as [_ E]. lia.
  - split; [exact A|]. exists e. split; [reflexivity|exact E].
Qed.

Lemma farthest_ok s : Nst s -> Ierr (report_farthest_error s).
Proof. intros [_ [f [B C]]]. unfold report_farthest_error. rewrite B. exact C. Qed.

Lemma report_ok s sp : Ist s -> sp <> LeftRecursionSentinel -> Ierr (report_error scfg s sp).
Proof.
  intros I N. unfold report_error. apply farthest_ok. apply record_ok; [exact I|].
  split; [exact N|]. cbn. exact (proj1 I).
Qed.

Lemma adv_ok s n s' : Ist s -> advance s n = AOk s' -> Ist s'.
Proof.
  intros [A B]. unfold advance. destruct (Nat.ltb (length (rest s)) n); [discriminate|].
  destruct (is_boundary (rest s) n); [|discriminate]. intro E. injection E as <-. split; cbn; [lia|exact B].
Qed.

Definition tpost {A} (r : tres A) : Prop :=
  match r with TOk _ s' => Ist s' | TErr e => Ierr e | _ => True end.

Lemma adv_then_ok {A} s n (v : A) : Ist s -> tpost (adv_then s n v).
Proof. intro I. unfold adv_then. destruct (advance s n) eqn:E; cbn; auto. eapply adv_ok; eauto. Qed.

Ltac spec_ne := discriminate.

Lemma P_char s : Ist s -> tpost (parse_char scfg s).
Proof.
  intro I. unfold parse_char. destruct (rest s); [apply report_ok; [exact I|spec_ne]|].
  destruct (decode1 (n :: b)) as [[c k]|]; [apply adv_then_ok; exact I|exact Logic.I].
Qed.

Lemma P_wsl bs : forall o f, Ist {| rest := bs; off := o; far := f |} -> tpost (ws_loop bs o f).
Proof.
  induction bs as [|x r IH]; intros o f I; cbn [ws_loop]; [exact I|].
  destruct (is_ascii_ws x); [|exact I].
  destruct (advance {| rest := x :: r; off := o; far := f |} 1) as [s'| |] eqn:E; try exact Logic.I.
  apply IH. pose proof (adv_ok _ _ _ I E) as I'. unfold advance in E. cbn [rest off far] in E.
  destruct (Nat.ltb (length (x :: r)) 1); [discriminate|]. destruct (is_boundary (x :: r) 1); [|discriminate].
  injection E as <-. exact I'.
Qed.

Lemma P_ws s : Ist s -> tpost (parse_Whitespace s).
Proof. intro I. unfold parse_Whitespace. apply P_wsl. destruct s; exact I. Qed.

Lemma P_eoi s : Ist s -> tpost (parse_end_of_input scfg s).
Proof. intro I. unfold parse_end_of_input. destruct (rest s); [exact I|apply report_ok; [exact I|spec_ne]]. Qed.

Lemma P_lit s x : Ist s -> tpost (parse_string_literal scfg s x).
Proof.
  intro I. unfold parse_string_literal. destruct (starts_with x (rest s)); [apply adv_then_ok; exact I|].
  apply report_ok; [exact I|spec_ne].
Qed.

Lemma P_clit s c : Ist s -> tpost (parse_character_literal scfg tcfg s c).
Proof.
  intro I. unfold parse_character_literal.
  destruct (if lit_fast_is_ascii tcfg then is_ascii c else true).
  - destruct (rest s); [apply report_ok; [exact I|spec_ne]|].
    destruct (negb (N.eqb n (as_u8 c))); [apply report_ok; [exact I|spec_ne]|apply adv_then_ok; exact I].
  - destruct (negb (starts_with (encode c) (rest s))); [apply report_ok; [exact I|spec_ne]|apply adv_then_ok; exact I].
Qed.

Lemma P_range s x y : Ist s -> tpost (parse_character_range scfg tcfg s x y).
Proof.
  intro I. unfold parse_character_range.
  destruct (if range_fast_both_ascii tcfg then is_ascii x && is_ascii y else is_ascii x).
  - destruct (rest s); [apply report_ok; [exact I|spec_ne]|].
    destruct (N.ltb n (as_u8 x) || N.ltb (as_u8 y) n); [apply report_ok; [exact I|spec_ne]|apply adv_then_ok; exact I].
  - destruct (rest s); [apply report_ok; [exact I|spec_ne]|].
    destruct (decode1 (n :: b)) as [[c k]|]; [|exact Logic.I].
    destruct (N.ltb c x || N.ltb y c); [apply report_ok; [exact I|spec_ne]|apply adv_then_ok; exact I].
Qed.

Lemma P_ilit s x : Ist s -> tpost (parse_string_literal_insensitive scfg tcfg s x).
Proof.
  intro I. unfold parse_string_literal_insensitive. destruct (ieq tcfg x (rest s)); [apply adv_then_ok; exact I|].
  apply report_ok; [exact I|spec_ne].
Qed.

Lemma P_iclit s c : Ist s -> tpost (parse_character_literal_insensitive scfg tcfg s c).
Proof.
  intro I. unfold parse_character_literal_insensitive. destruct (rest s); [apply report_ok; [exact I|spec_ne]|].
  destruct (negb (N.eqb (lower_in tcfg n) (as_u8 c))); [apply report_ok; [exact I|spec_ne]|apply adv_then_ok; exact I].
Qed.

(* ---- the walk ---------------------------------------------------------------------------------- *)
Definition post {A} (x : R ustate A) : Prop :=
  match fst x with MOk _ s' => Ist s' | MErr e => Ierr e | _ => True end.

Lemma post_lift {X Y} (f : X -> Y) sp st (r : tres X) gl : tpost r -> post (lift_t ustate f sp st r gl).
Proof. destruct r; cbn; auto. Qed.

Lemma post_fail {A} st sp gl : Ist st -> sp <> LeftRecursionSentinel -> @post A (fail_at ustate scfg st sp gl).
Proof. intros I N. unfold fail_at, post. cbn. apply report_ok; assumption. Qed.

Definition Uev (ev : evals ustate) : Prop :=
  (forall ctx e st gl, eclean clean e = true -> Ist st -> post (ev_expr ev ctx e st gl)) /\
  (forall n st gl, clean n = true -> Ist st -> post (ev_rule ev n st gl)) /\
  (forall ctx e plus st it acc gl, eclean clean e = true -> Ist st -> post (ev_loop ev ctx e plus st it acc gl)).

Section Step.
Variable ev : evals ustate.
Hypothesis H : Uev ev.
Let He := proj1 H.
Let Hr := proj1 (proj2 H).
Let Hl := proj2 (proj2 H).

Ltac sub X P :=
  let E := fresh "E" in
  destruct X as [[?v ?s|?e|?pn|] ?g1] eqn:E; unfold post in P; cbn [fst] in P.

Lemma U_with_ws {X} ctx st gl (k : pstate -> glb -> R ustate X) :
  Ist st -> (forall s x, Ist s -> post (k s x)) -> post (with_ws ustate ev ctx st gl k).
Proof.
  intros I Hk. unfold with_ws. destruct (c_skip ctx); [|apply Hk; exact I].
  pose proof (Hr n_Whitespace st gl Hws I) as P.
  sub (ev_rule ev n_Whitespace st gl) P; try exact Logic.I; [apply Hk; exact P|exact P].
Qed.

Lemma U_no_fields {X} (x : R ustate X) : post x -> post (no_fields ustate x).
Proof. destruct x as [[? ?|?|?|] ?]; cbn; auto. Qed.

Lemma U_run_lit m st gl : Ist st -> post (run_lit ustate scfg tcfg m st gl).
Proof.
  intro I. destruct m; cbn [run_lit]; apply post_lift.
  - apply P_clit; exact I. - apply P_lit; exact I. - apply P_iclit; exact I. - apply P_ilit; exact I.
Qed.

Lemma U_choice_loop ctx fds alts : lclean clean alts = true -> forall cst gl,
  Ist cst -> (alts = [] -> Nst cst) -> post (choice_loop ustate scfg fcfg g ev ctx fds alts cst gl).
Proof.
  induction alts as [|x alts IH]; intros L cst gl I N; cbn [choice_loop].
  - unfold post. cbn. apply farthest_ok. apply N. reflexivity.
  - rewrite lclean_cons in L. apply andb_prop in L. destruct L as [Lx La].
    pose proof (He ctx x cst gl Lx I) as P.
    sub (ev_expr ev ctx x cst gl) P; try exact Logic.I.
    + destruct (own_fields fcfg g x) as [inner|]; [|exact Logic.I].
      destruct (convert_arm fds inner v); [exact P|exact Logic.I].
    + pose proof (record_ok cst e I P) as R. apply (IH La); [apply Nst_Ist; exact R|intros _; exact R].
Qed.

Lemma U_seq_loop ctx fds parts : lclean clean parts = true -> forall st acc gl,
  Ist st -> post (seq_loop ustate ev ctx fds parts st acc gl).
Proof.
  induction parts as [|x ps IH]; intros L st acc gl I; cbn [seq_loop].
  - destruct (order_as fds acc); [exact I|exact Logic.I].
  - rewrite lclean_cons in L. apply andb_prop in L. destruct L as [Lx Lp].
    pose proof (He ctx x st gl Lx I) as P.
    sub (ev_expr ev ctx x st gl) P; try exact Logic.I; [|exact P].
    destruct (seq_merge_vals acc v); [apply (IH Lp); exact P|exact Logic.I].
Qed.

Theorem U_expr ctx e st gl : eclean clean e = true -> Ist st ->
  post (expr_step ustate scfg tcfg fcfg rcfg g ev ctx e st gl).
Proof.
  intros L I. destruct e; cbn [expr_step].
  - rewrite eclean_choice in L. destruct alts as [|x [|y r]]; [exact Logic.I| |].
    + rewrite lclean_cons in L. apply andb_prop in L. apply He; [exact (proj1 L)|exact I].
    + destruct (filt fcfg g ctx (EChoice (x :: y :: r))); [|exact Logic.I].
      apply U_choice_loop; [exact L|exact I|intro X; discriminate X].
  - rewrite eclean_seq in L. destruct parts as [|x [|y r]]; [exact I| |].
    + rewrite lclean_cons in L. apply andb_prop in L. apply He; [exact (proj1 L)|exact I].
    + destruct (filt fcfg g ctx (ESeq (x :: y :: r))); [apply U_seq_loop; assumption|exact Logic.I].
  - apply He; assumption.
  - cbn [eclean] in L. pose proof (He ctx e st gl L I) as P.
    sub (ev_expr ev ctx e st gl) P; try exact Logic.I; [exact P|].
    destruct (filt fcfg g ctx e) as [fds|]; [|exact Logic.I].
    destruct (defaults fds); [|exact Logic.I]. unfold post. cbn. apply Nst_Ist. apply record_ok; assumption.
  - cbn [eclean] in L. destruct (filt fcfg g ctx e) as [fds|]; [apply Hl; assumption|exact Logic.I].
  - cbn [eclean] in L. pose proof (He ctx e st gl L I) as P.
    sub (ev_expr ev ctx e st gl) P; try exact Logic.I; [|exact I].
    apply post_fail; [exact I|intro X; discriminate X].
  - cbn [eclean] in L. pose proof (He ctx e st gl L I) as P.
    sub (ev_expr ev ctx e st gl) P; try exact Logic.I; [exact I|exact P].
  - destruct (compile_range from to); try exact Logic.I.
    apply U_no_fields. apply U_with_ws; [exact I|]. intros s x Is. apply post_lift. apply P_range; exact Is.
  - destruct (compile_lit (insens_guard rcfg) insensitive body); try exact Logic.I.
    apply U_no_fields. apply U_with_ws; [exact I|]. intros s x Is. apply U_run_lit; exact Is.
  - apply U_no_fields. apply U_with_ws; [exact I|]. intros s x Is. apply post_lift. apply P_eoi; exact Is.
  - cbn [eclean] in L. destruct (find_rule g rule) as [r|] eqn:Fr; [|exact Logic.I].
    apply He; [exact (Hinc rule r L Fr)|exact I].
  - cbn [eclean] in L.
    assert (P : post (with_ws ustate ev ctx st gl (fun st gl => ev_rule ev typ st gl))).
    { apply U_with_ws; [exact I|]. intros s x Is. apply Hr; assumption. }
    destruct (fname_of fname) as [n|]; [|apply U_no_fields; exact P].
    sub (with_ws ustate ev ctx st gl (fun st gl => ev_rule ev typ st gl)) P; try exact Logic.I; [|exact P].
    destruct (postprocess (c_fields ctx) n typ v); [exact P|exact Logic.I].
Qed.

Theorem U_loop ctx e plus st it acc gl : eclean clean e = true -> Ist st ->
  post (loop_step ustate scfg ev ctx e plus st it acc gl).
Proof.
  intros L I. unfold loop_step. pose proof (He ctx e st gl L I) as P.
  sub (ev_expr ev ctx e st gl) P; try exact Logic.I.
  - destruct (extend_all acc v); [apply Hl; assumption|exact Logic.I].
  - pose proof (record_ok st e0 I P) as R.
    destruct (plus && Nat.eqb it 0); unfold post; cbn; [apply farthest_ok; exact R|apply Nst_Ist; exact R].
Qed.

Lemma U_run_checks cs v : forall st gl, Ist st -> post (run_checks ustate scfg hk cs v st gl).
Proof.
  induction cs as [|f cs IH]; intros st gl I; cbn [run_checks]; [exact I|].
  destruct (h_check hk f v (g_user gl)) as [ok u]. destruct ok; [apply IH; exact I|].
  apply post_fail; [exact I|intro X; discriminate X].
Qed.

Theorem U_rule_body r st gl : eclean clean (r_def r) = true -> Ist st ->
  post (rule_body ustate scfg fcfg hk g ev r st gl).
Proof.
  intros L I. unfold rule_body.
  destruct (get_fields fcfg (gf_fuel g) g (r_def r)) as [rf| |]; try exact Logic.I.
  set (ctx := {| c_skip := negb (fl_no_skip_ws (flags_of (r_directives r))); c_fields := rf |}).
  pose proof (He ctx (r_def r) st gl L I) as P.
  sub (ev_expr ev ctx (r_def r) st gl) P; try exact Logic.I; [|exact P].
  match goal with |- post (match ?o with _ => _ end) => destruct o as [w|] end; [|exact Logic.I].
  apply U_run_checks. exact P.
Qed.

Lemma U_char_parts nm ps : forallb (cp_clean clean) ps = true -> forall st gl, Ist st ->
  post (char_parts ustate scfg tcfg ev nm ps st gl).
Proof.
  induction ps as [|pt ps IH]; intros L st gl I; cbn [char_parts].
  - apply post_fail; [exact I|intro X; discriminate X].
  - cbn [forallb] in L. apply andb_prop in L. destruct L as [Lp Lr]. destruct pt as [i|x y|n].
    + destruct (decode_item i); try exact Logic.I.
      pose proof (P_clit st a I) as T.
      destruct (parse_character_literal scfg tcfg st a) as [v s|e| |]; [exact T|apply (IH Lr); exact I|exact Logic.I|exact Logic.I].
    + destruct (compile_range x y); try exact Logic.I.
      pose proof (P_range st a b I) as T.
      destruct (parse_character_range scfg tcfg st a b) as [v s|e| |]; [exact T|apply (IH Lr); exact I|exact Logic.I|exact Logic.I].
    + cbn [cp_clean] in Lp. pose proof (Hr n st gl Lp I) as P.
      sub (ev_rule ev n st gl) P; try exact Logic.I; [exact P|apply (IH Lr); exact I].
Qed.

Lemma U_char_rule r st gl : forallb (cp_clean clean) (cr_choices r) = true -> Ist st ->
  post (char_rule_body ustate scfg tcfg hk ev r st gl).
Proof.
  intros L I. unfold char_rule_body. pose proof (U_char_parts (cr_name r) (cr_choices r) L st gl I) as P.
  destruct (cr_checks r) as [|c cs]; [exact P|].
  destruct (rest st); [apply post_fail; [exact I|intro X; discriminate X]|].
  destruct (decode1 (n :: b)) as [[ch k]|]; [|exact Logic.I].
  destruct (char_checks ustate hk (cr_name r) (c :: cs) ch); [exact P|apply post_fail; [exact I|intro X; discriminate X]].
Qed.

Lemma U_extern r st gl : Ist st -> post (extern_rule_body ustate scfg hk r st gl).
Proof.
  intro I. unfold extern_rule_body.
  destruct (h_extern hk (er_function r) (rest st) (g_user gl)) as [res u].
  destruct res as [[v k]|msg]; [|apply post_fail; [exact I|intro X; discriminate X]].
  unfold advance_safe. destruct (advance st k) eqn:E; unfold post; cbn; auto. eapply adv_ok; eauto.
Qed.

Theorem U_rule n st gl : clean n = true -> Ist st ->
  post (rule_step ustate scfg tcfg fcfg rcfg hk g ev n st gl).
Proof.
  intros L I. unfold rule_step. pose proof (Hclean n L) as Hc. unfold rule_clean in Hc.
  destruct (find_grule g n) as [[r|r|r]|].
  - destruct Hc as [H1 [H2 H3]]. unfold memo_wrap. rewrite H1, H2.
    pose proof (U_rule_body r st (trace ustate (TStart (r_name r) (off st)) gl) H3 I) as P.
    sub (rule_body ustate scfg fcfg hk g ev r st (trace ustate (TStart (r_name r) (off st)) gl)) P; try exact Logic.I; exact P.
  - apply U_char_rule; assumption.
  - apply U_extern; assumption.
  - destruct (name_eqb n n_char); [apply post_lift; apply P_char; exact I|].
    destruct (name_eqb n n_Whitespace); [apply post_lift; apply P_ws; exact I|exact Logic.I].
Qed.

End Step.

Theorem no_sentinel_walk n : Uev (run ustate scfg tcfg fcfg rcfg hk g n).
Proof.
  induction n as [|n IH].
  - split; [|split]; intros; exact Logic.I.
  - split; [|split]; intros; cbn [run step ev_expr ev_rule ev_loop].
    + apply U_expr; assumption.
    + apply U_rule; assumption.
    + apply U_loop; assumption.
Qed.

End NS.

(* ---- the entry state of a @leftrec loop ------------------------------------------------------------ *)
Section Entry.
Variable scfg : state_cfg.
Hypothesis Hle : rec_le scfg = true.

Lemma entry_ok0 st :
  (forall f, far st = Some f -> e_spec f <> LeftRecursionSentinel) ->
  Ist (off st) (record_error scfg st (report_error scfg st LeftRecursionSentinel)).
Proof.
  intro N. set (a0 := {| e_pos := off st; e_spec := LeftRecursionSentinel |}).
  assert (Ia : Ist (off st) {| rest := rest st; off := off st; far := Some a0 |}).
  { split; cbn; [constructor|]. intros f' E. injection E as <-. right. split; [reflexivity|cbn; constructor]. }
  unfold report_error. fold a0.
  destruct (far st) as [f|] eqn:F.
  - specialize (N f eq_refl). destruct (Nat.leb (e_pos f) (off st)) eqn:L.
    + assert (R1 : record_error scfg st a0 = {| rest := rest st; off := off st; far := Some a0 |}).
      { unfold record_error. rewrite F, Hle. cbn [e_pos a0]. rewrite L. reflexivity. }
      rewrite R1. unfold report_farthest_error. cbn [far]. rewrite R1. exact Ia.
    + assert (R1 : record_error scfg st a0 = st).
      { unfold record_error. rewrite F, Hle. cbn [e_pos a0]. rewrite L. reflexivity. }
      rewrite R1. unfold report_farthest_error. rewrite F.
      unfold record_error. rewrite F, Hle, PeanoNat.Nat.leb_refl.
      split; cbn; [constructor|]. intros f' E. injection E as <-.
      left. split; [exact N|]. apply PeanoNat.Nat.leb_gt in L. lia.
  - assert (R1 : record_error scfg st a0 = {| rest := rest st; off := off st; far := Some a0 |}).
    { unfold record_error. rewrite F. reflexivity. }
    rewrite R1. unfold report_farthest_error. cbn [far]. rewrite R1. exact Ia.
Qed.

End Entry.

(* ---- the usual shape ----------------------------------------------------------------------------- *)
Section UsualNS.
Variable ustate : Type.
Variable scfg : state_cfg.
Hypothesis Hle : rec_le scfg = true.
Variable tcfg : term_cfg.
Variable fcfg : fields_cfg.
Variable rcfg : rule_cfg.
Hypothesis Hclosed : leftrec_closed rcfg = true.
Variable hk : hooks ustate.
Variable g : grammar.
Notation glb := (glob ustate).
Notation Mrun := (run ustate scfg tcfg fcfg rcfg hk g).

Variable A : rule.
Variable l : name.
Variable bx : bool.
Variable x1 : expr.
Variable xs : list expr.
Variable b1 : expr.
Variable balts : list expr.
Notation a := (r_name A).
Hypothesis Hdef : r_def A = adef A l bx x1 xs b1 balts.
Hypothesis Hfind : find_grule g a = Some (GRule A).
Hypothesis Hlr : fl_left_recursive (flags_of (r_directives A)) = true.
Variable rf fds fds1 inner1 : list fdesc.
Hypothesis Hrf : get_fields fcfg (gf_fuel g) g (adef A l bx x1 xs b1 balts) = GFOk rf.
Hypothesis Hfds : filt fcfg g (actx A rf) (adef A l bx x1 xs b1 balts) = Some fds.
Hypothesis Hfds1 : filt fcfg g (actx A rf) (alt1 A l bx x1 xs) = Some fds1.
Hypothesis Hinner1 : own_fields fcfg g (alt1 A l bx x1 xs) = Some inner1.

Variable clean : name -> bool.
Hypothesis Hclean : forall n, clean n = true -> rule_clean g clean n.
Hypothesis Hinc : forall n r, clean n = true -> find_rule g n = Some r -> eclean clean (r_def r) = true.
Hypothesis Hwsc : clean n_Whitespace = true.
Hypothesis Hb : lclean clean (b1 :: balts) = true.

(* the state in which the other alternatives are tried on the seed turn is fine for p = the entry offset *)
Lemma entry_ok st :
  (forall f, far st = Some f -> e_spec f <> LeftRecursionSentinel) ->
  Ist (off st) (record_error scfg st (report_error scfg st LeftRecursionSentinel)).
Proof.
  intro N. set (a0 := {| e_pos := off st; e_spec := LeftRecursionSentinel |}).
  assert (Ia : Ist (off st) {| rest := rest st; off := off st; far := Some a0 |}).
  { split; cbn; [constructor|]. intros f' E. injection E as <-. right. split; [reflexivity|cbn; constructor]. }
  unfold report_error. fold a0.
  destruct (far st) as [f|] eqn:F.
  - specialize (N f eq_refl). destruct (Nat.leb (e_pos f) (off st)) eqn:L.
    + assert (R1 : record_error scfg st a0 = {| rest := rest st; off := off st; far := Some a0 |}).
      { unfold record_error. rewrite F, Hle. cbn [e_pos a0]. rewrite L. reflexivity. }
      rewrite R1. unfold report_farthest_error. cbn [far]. rewrite R1. exact Ia.
    + assert (R1 : record_error scfg st a0 = st).
      { unfold record_error. rewrite F, Hle. cbn [e_pos a0]. rewrite L. reflexivity. }
      rewrite R1. unfold report_farthest_error. rewrite F.
      unfold record_error. rewrite F, Hle, PeanoNat.Nat.leb_refl.
      split; cbn; [constructor|]. intros f' E. injection E as <-.
      left. split; [exact N|]. apply PeanoNat.Nat.leb_gt in L. lia.
  - assert (R1 : record_error scfg st a0 = {| rest := rest st; off := off st; far := Some a0 |}).
    { unfold record_error. rewrite F. reflexivity. }
    rewrite R1. unfold report_farthest_error. cbn [far]. rewrite R1. exact Ia.
Qed.

Theorem usual_no_sentinel st F gl e gl' :
  ws_trivial g A rf st ->
  (forall f, far st = Some f -> e_spec f <> LeftRecursionSentinel) ->
  cache_get a (off st) (g_cache gl) = None ->
  ev_rule (Mrun F) a st gl = (MErr e, gl') ->
  e_spec e <> LeftRecursionSentinel.
Proof.
  intros W N C E.
  pose proof (usual_parse ustate scfg tcfg fcfg rcfg hk g A l bx x1 xs b1 balts Hdef Hfind Hlr
                rf fds fds1 inner1 Hrf Hfds Hfds1 Hinner1 st W F gl (MErr e) gl' C E) as U.
  cbv zeta in U. destruct (U Hclosed) as (k & gl0 & gl1 & B). clear U.
  unfold usual_body in B.
  set (cst := record_error scfg st (report_error scfg st LeftRecursionSentinel)) in *.
  pose proof (entry_ok st N) as I0. fold cst in I0.
  pose proof (U_choice_loop ustate scfg Hle fcfg g clean (off st) (Mrun (S (S (S k))))
                (no_sentinel_walk ustate scfg Hle tcfg fcfg rcfg hk g clean Hclean Hinc Hwsc (off st) (S (S (S k))))
                (actx A rf) fds (b1 :: balts) Hb cst
                (hitg ustate A (CErr (report_error scfg st LeftRecursionSentinel)) st gl0) I0
                (fun X => ltac:(discriminate X))) as P.
  unfold post in P.
  destruct (choice_loop ustate scfg fcfg g (Mrun (S (S (S k)))) (actx A rf) fds (b1 :: balts) cst
              (hitg ustate A (CErr (report_error scfg st LeftRecursionSentinel)) st gl0)) as [[fs s'|e'|pn|] g2];
    cbn [fst] in P; unfold finish in B.
  - match type of B with (match ?o with _ => _ end) = _ => destruct o as [w|] end; [|discriminate B].
    pose proof (U_run_checks ustate scfg Hle hk clean (off st) (checks_of (r_directives A)) w s' g2 P) as Q.
    unfold post in Q. rewrite B in Q. cbn [fst] in Q. exact (proj1 Q).
  - injection B as <- _. exact (proj1 P).
  - discriminate B.
  - discriminate B.
Qed.

End UsualNS.

(* ---- recursion through a plain rule (Indirect.v):  @leftrec A = @:P | b1 | balts...;  P = l:*A x... ---------- *)
From PegV Require Import GrowLoop Indirect.

Section IndirectNS.
Variable ustate : Type.
Variable scfg : state_cfg.
Hypothesis Hle : rec_le scfg = true.
Variable tcfg : term_cfg.
Variable fcfg : fields_cfg.
Variable rcfg : rule_cfg.
Hypothesis Hclosed : leftrec_closed rcfg = true.
Variable hk : hooks ustate.
Variable g : grammar.
Notation glb := (glob ustate).
Notation Mrun := (run ustate scfg tcfg fcfg rcfg hk g).

Variable A P : rule.
Notation a := (r_name A).
Notation p := (r_name P).
Variable l : name.
Variable bx : bool.
Variable x1 : expr.
Variable xs : list expr.
Variable b1 : expr.
Variable balts : list expr.
Hypothesis HdefA : r_def A = idef P b1 balts.
Hypothesis HdefP : r_def P = pdef A l bx x1 xs.
Hypothesis HfindA : find_grule g a = Some (GRule A).
Hypothesis HfindP : find_grule g p = Some (GRule P).
Hypothesis HlrA : fl_left_recursive (flags_of (r_directives A)) = true.
Hypothesis HlrP : fl_left_recursive (flags_of (r_directives P)) = false.
Hypothesis HmemoP : fl_memoize (flags_of (r_directives P)) = false.
Variable rfA fdsA innerA1 rfP fdsP1 : list fdesc.
Hypothesis HrfA : get_fields fcfg (gf_fuel g) g (idef P b1 balts) = GFOk rfA.
Hypothesis HrfP : get_fields fcfg (gf_fuel g) g (pdef A l bx x1 xs) = GFOk rfP.
Hypothesis HfdsA : filt fcfg g (actx A rfA) (idef P b1 balts) = Some fdsA.
Hypothesis HinnerA1 : own_fields fcfg g (ialt1 P) = Some innerA1.
Hypothesis HfdsP1 : filt fcfg g (actx P rfP) (palt A l bx x1 xs) = Some fdsP1.

Variable clean : name -> bool.
Hypothesis Hclean : forall n, clean n = true -> rule_clean g clean n.
Hypothesis Hinc : forall n r, clean n = true -> find_rule g n = Some r -> eclean clean (r_def r) = true.
Hypothesis Hwsc : clean n_Whitespace = true.
Hypothesis Hb : lclean clean (b1 :: balts) = true.

Theorem indirect_no_sentinel st F gl e gl' :
  Wi g A P rfA rfP st ->
  (forall f, far st = Some f -> e_spec f <> LeftRecursionSentinel) ->
  cache_get a (off st) (g_cache gl) = None ->
  ev_rule (Mrun F) a st gl = (MErr e, gl') ->
  e_spec e <> LeftRecursionSentinel.
Proof.
  intros W N C E.
  pose proof (indirect_parse ustate scfg tcfg fcfg rcfg hk g A P l bx x1 xs b1 balts HdefA HdefP HfindA HfindP HlrA HlrP HmemoP
                rfA fdsA innerA1 rfP fdsP1 HrfA HrfP HfdsA HinnerA1 HfdsP1 st W F gl (MErr e) gl' C E) as U.
  cbv zeta in U. destruct (U Hclosed) as (k & gl0 & gl1 & B). clear U.
  unfold indirect_body, p_call, p_resolved in B. cbn [finish] in B.
  set (e0 := report_error scfg st LeftRecursionSentinel) in *.
  set (cst := record_error scfg st e0) in *.
  pose proof (entry_ok0 scfg Hle st N) as I0. fold e0 in I0. fold cst in I0.
  match type of B with finish _ _ _ _ _ _ (choice_loop _ _ _ _ ?ev ?ctx ?fds ?alts ?c0 ?g0) = _ =>
    pose proof (U_choice_loop ustate scfg Hle fcfg g clean (off st) ev
                  (no_sentinel_walk ustate scfg Hle tcfg fcfg rcfg hk g clean Hclean Hinc Hwsc (off st) _)
                  ctx fds alts Hb c0 g0 I0 (fun X => ltac:(discriminate X))) as Q;
    unfold post in Q; destruct (choice_loop ustate scfg fcfg g ev ctx fds alts c0 g0) as [[fs s'|e'|pn|] g2]
  end; cbn [fst] in Q; unfold finish in B.
  - match type of B with (match ?o with _ => _ end) = _ => destruct o as [w|] end; [|discriminate B].
    pose proof (U_run_checks ustate scfg Hle hk clean (off st) (checks_of (r_directives A)) w s' g2 Q) as Q2.
    unfold post in Q2. rewrite B in Q2. cbn [fst] in Q2. exact (proj1 Q2).
  - injection B as <- _. exact (proj1 Q).
  - discriminate B.
  - discriminate B.
Qed.

End IndirectNS.

(* ---- several recursive alternatives first (UsualShapeN.v), at least one other alternative ------------------ *)
From PegV Require Import UsualShapeN.

Section Far.
Variable scfg : state_cfg.
Hypothesis Hle : rec_le scfg = true.

(* the planted error is the sentinel at the entry offset, or the real error the state already held beyond it *)
Lemma e0_far st :
  (forall f, far st = Some f -> e_spec f <> LeftRecursionSentinel) ->
  Ifar (off st) (report_error scfg st LeftRecursionSentinel).
Proof.
  intro N. set (a0 := {| e_pos := off st; e_spec := LeftRecursionSentinel |}).
  assert (Fa : Ifar (off st) a0) by (right; split; [reflexivity|cbn; constructor]).
  unfold report_error. fold a0.
  destruct (far st) as [f|] eqn:F.
  - specialize (N f eq_refl). destruct (Nat.leb (e_pos f) (off st)) eqn:L.
    + assert (R1 : record_error scfg st a0 = {| rest := rest st; off := off st; far := Some a0 |}).
      { unfold record_error. rewrite F, Hle. cbn [e_pos a0]. rewrite L. reflexivity. }
      rewrite R1. exact Fa.
    + assert (R1 : record_error scfg st a0 = st).
      { unfold record_error. rewrite F, Hle. cbn [e_pos a0]. rewrite L. reflexivity. }
      rewrite R1. unfold report_farthest_error. rewrite F.
      left. split; [exact N|]. apply PeanoNat.Nat.leb_gt in L. lia.
  - assert (R1 : record_error scfg st a0 = {| rest := rest st; off := off st; far := Some a0 |}).
    { unfold record_error. rewrite F. reflexivity. }
    rewrite R1. exact Fa.
Qed.

Lemma record_far_ok p s e : Ist p s -> Ifar p e -> Ist p (record_error scfg s e).
Proof.
  intros I0 [E|[S L]]; [exact (Nst_Ist p _ (record_ok scfg Hle (fun _ => true) p s e I0 E))|].
  destruct I0 as [A B]. unfold record_error. rewrite Hle. destruct (far s) as [f|] eqn:F.
  - destruct (Nat.leb (e_pos f) (e_pos e)).
    + split; [exact A|]. cbn. intros f' X. injection X as <-. right. split; assumption.
    + split; [exact A|]. intros f' X. rewrite F in X. exact (B f' X).
  - split; [exact A|]. cbn. intros f' X. injection X as <-. right. split; assumption.
Qed.
End Far.

Section UsualN_NS.
Variable ustate : Type.
Variable scfg : state_cfg.
Hypothesis Hle : rec_le scfg = true.
Variable tcfg : term_cfg.
Variable fcfg : fields_cfg.
Variable rcfg : rule_cfg.
Hypothesis Hclosed : leftrec_closed rcfg = true.
Variable hk : hooks ustate.
Variable g : grammar.
Notation glb := (glob ustate).
Notation Mrun := (run ustate scfg tcfg fcfg rcfg hk g).
Variable A : rule.
Notation a := (r_name A).
Hypothesis Hfind : find_grule g a = Some (GRule A).
Hypothesis Hlr : fl_left_recursive (flags_of (r_directives A)) = true.
Variable recs : list ralt.
Variable b1 : expr.
Variable balts' : list expr.
Notation balts := (b1 :: balts').
Variables (al1 al2 : expr) (alr : list expr).
Hypothesis Hshape : map (ralt_e A) recs ++ balts = al1 :: al2 :: alr.
Hypothesis HdefN : r_def A = adefN A recs balts.
Variable rf fds : list fdesc.
Hypothesis HrfN : get_fields fcfg (gf_fuel g) g (adefN A recs balts) = GFOk rf.
Hypothesis HfdsN : filt fcfg g (actx A rf) (adefN A recs balts) = Some fds.
Variables fds1_of inner_of : ralt -> list fdesc.
Hypothesis Hper : forall r, In r recs ->
  filt fcfg g (actx A rf) (ralt_e A r) = Some (fds1_of r) /\ own_fields fcfg g (ralt_e A r) = Some (inner_of r).
Variable clean : name -> bool.
Hypothesis Hclean : forall n, clean n = true -> rule_clean g clean n.
Hypothesis Hinc : forall n r, clean n = true -> find_rule g n = Some r -> eclean clean (r_def r) = true.
Hypothesis Hwsc : clean n_Whitespace = true.
Hypothesis Htails : forall r, In r recs -> lclean clean (ra_x1 r :: ra_xs r) = true.
Variables (r1 : ralt) (recs' : list ralt).
Hypothesis Hrecs : recs = r1 :: recs'.
Hypothesis Hb : lclean clean balts = true.

(* on the seed turn every recursive alternative records the planted error; the other alternatives start from a
   fine state *)
Lemma rec_loop_seed_I k e0 p0 : Ifar p0 e0 -> forall rs cst gl, Ist p0 cst -> exists cst' gl',
  Ist p0 cst' /\
  rec_loop ustate scfg tcfg fcfg rcfg hk g A balts rf fds fds1_of inner_of k (CErr e0) rs cst gl =
  choice_loop ustate scfg fcfg g (Mrun (S (S (S k)))) (actx A rf) fds balts cst' gl'.
Proof.
  intro F0. induction rs as [|r rest IH]; intros cst gl I; cbn [rec_loop].
  - exists cst, gl. split; [exact I|reflexivity].
  - apply IH. apply (record_far_ok scfg Hle); assumption.
Qed.

Theorem usualN_no_sentinel st F gl e gl' :
  ws_trivial g A rf st ->
  (forall f, far st = Some f -> e_spec f <> LeftRecursionSentinel) ->
  cache_get a (off st) (g_cache gl) = None ->
  ev_rule (Mrun F) a st gl = (MErr e, gl') ->
  e_spec e <> LeftRecursionSentinel.
Proof.
  intros W N C E.
  pose proof (usualN_parse ustate scfg tcfg fcfg rcfg hk g A Hfind Hlr recs balts al1 al2 alr Hshape HdefN rf fds HrfN HfdsN
                fds1_of inner_of Hper clean Hclean Hinc Hwsc Htails r1 recs' Hrecs st W F gl (MErr e) gl' C E) as U.
  cbv zeta in U. destruct (U Hclosed) as (k & gl0 & gl1 & B). clear U.
  unfold bodyN in B. rewrite Hrecs in B. cbn [rec_loop] in B.
  set (e0 := report_error scfg st LeftRecursionSentinel) in *.
  pose proof (entry_ok0 scfg Hle st N) as I0. fold e0 in I0.
  destruct (rec_loop_seed_I k e0 (off st) (e0_far scfg Hle st N) recs' (record_error scfg st e0)
              (hitg ustate A (CErr e0) st gl0) I0) as (cst' & g' & I1 & E1).
  rewrite E1 in B.
  pose proof (U_choice_loop ustate scfg Hle fcfg g clean (off st) (Mrun (S (S (S k))))
                (no_sentinel_walk ustate scfg Hle tcfg fcfg rcfg hk g clean Hclean Hinc Hwsc (off st) (S (S (S k))))
                (actx A rf) fds balts Hb cst' g' I1 (fun X => ltac:(discriminate X))) as Q.
  unfold post in Q.
  destruct (choice_loop ustate scfg fcfg g (Mrun (S (S (S k)))) (actx A rf) fds balts cst' g') as [[fs s'|e'|pn|] g2];
    cbn [fst] in Q; unfold finish in B.
  - match type of B with (match ?o with _ => _ end) = _ => destruct o as [w|] end; [|discriminate B].
    pose proof (U_run_checks ustate scfg Hle hk clean (off st) (checks_of (r_directives A)) w s' g2 Q) as Q2.
    unfold post in Q2. rewrite B in Q2. cbn [fst] in Q2. exact (proj1 Q2).
  - injection B as <- _. exact (proj1 Q).
  - discriminate B.
  - discriminate B.
Qed.

End UsualN_NS.
