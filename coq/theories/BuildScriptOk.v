(* Proofs about the build-script model (C18). *)
From Coq Require Import Lia.
From PegV Require Import Utf8 BuildScript.

Lemma text_eqb_refl a : text_eqb a a = true.
Proof. induction a as [|x a IH]; cbn; [reflexivity|]. rewrite N.eqb_refl, IH. reflexivity. Qed.

Lemma text_eqb_eq a b : text_eqb a b = true -> a = b.
Proof.
  revert b. induction a as [|x a IH]; intros [|y b]; cbn; try discriminate; [reflexivity|].
  intro H. apply andb_true_iff in H. destruct H as [H1 H2]. apply N.eqb_eq in H1. subst. f_equal. auto.
Qed.

Lemma firstn_app_exact {A} (a b : list A) : firstn (length a) (a ++ b) = a.
Proof. induction a; cbn; [reflexivity|]. f_equal. auto. Qed.

Section BSOk.
Variable hdr : text -> text -> text.
Variable compile : text -> option text.
Variable fmt : text -> text.

Notation run := (run hdr compile fmt).
Notation output := (output hdr fmt).
Notation content := (content hdr).
Notation source_header := (source_header hdr).
Notation up_to_date := (up_to_date hdr).
Notation fresh := (fresh hdr compile fmt).
Notation produced := (produced hdr compile fmt).
Notation exec := (exec hdr compile fmt).
Notation step := (step hdr compile fmt).

(* a run that fails leaves everything exactly as it was *)
Theorem failed_run_untouched c s s' : run c s = (RErr, s') -> s' = s.
Proof.
  unfold BuildScript.run. destruct (gfile s) as [g|]; [|intro H; injection H; auto].
  destruct (match dest s with Some d => up_to_date c g d | None => false end); [discriminate|].
  destruct (compile g); [discriminate|intro H; injection H; auto].
Qed.

Theorem unreadable_fails c s : gfile s = None -> run c s = (RErr, s).
Proof. intro H. unfold BuildScript.run. rewrite H. reflexivity. Qed.

Theorem invalid_fails c s g :
  gfile s = Some g -> compile g = None ->
  match dest s with Some d => up_to_date c g d = false | None => True end ->
  run c s = (RErr, s).
Proof.
  intros Hg Hc Hd. unfold BuildScript.run. rewrite Hg, Hc.
  destruct (dest s); [rewrite Hd|]; reflexivity.
Qed.

(* a successful run either wrote the compilation of the current grammar, or found
   a destination that starts with the expected header *)
Theorem ok_fresh_or_shortcut c s s1 :
  run c s = (ROk, s1) ->
  (fresh c s1 /\ writes s1 = S (writes s)) \/
  (s1 = s /\ exists g d, gfile s = Some g /\ dest s = Some d /\ up_to_date c g d = true).
Proof.
  assert (W : forall g code, compile g = Some code ->
              fresh c {| gfile := Some g; dest := Some (output c g code); writes := S (writes s) |}).
  { intros g code C. unfold BuildScript.fresh. cbn [gfile dest]. rewrite C.
    unfold BuildScript.output. destruct (format c); auto. }
  unfold BuildScript.run. destruct (gfile s) as [g|] eqn:Hg; [|discriminate].
  destruct (dest s) as [d|] eqn:Hd.
  - destruct (up_to_date c g d) eqn:U.
    + intro H. injection H as <-. right. split; [reflexivity|]. exists g, d. auto.
    + destruct (compile g) as [code|] eqn:C; [|discriminate]. intro H. injection H as <-.
      left. split; [|reflexivity]. apply W. exact C.
  - destruct (compile g) as [code|] eqn:C; [|discriminate]. intro H. injection H as <-.
    left. split; [|reflexivity]. apply W. exact C.
Qed.

Notation run_dir := (run_dir hdr compile fmt).

(* ---- directory mode ---------------------------------------------------------------------- *)
(* a successful directory run: every entry's own run succeeded (so each destination is fresh, by
   fresh_after_run); a failing one: some entry failed, the entries before it were compiled, the failing
   one and the ones after it are exactly as they were *)
Theorem dir_ok_all c : forall entries entries',
  run_dir true c entries = (ROk, entries') ->
  Forall2 (fun s s' => run c s = (ROk, s')) entries entries'.
Proof.
  induction entries as [|s rest IH]; intros entries' H; cbn [run_dir] in H.
  - injection H as <-. constructor.
  - destruct (run c s) as [[|] s1] eqn:E; [|discriminate].
    destruct (run_dir true c rest) as [r rest'] eqn:E2. injection H as -> <-.
    constructor; [exact E|]. apply IH. reflexivity.
Qed.

Theorem dir_err_some c : forall entries entries',
  run_dir true c entries = (RErr, entries') ->
  exists pre pre' s post, entries = pre ++ s :: post /\ entries' = pre' ++ s :: post /\
    Forall2 (fun a a' => run c a = (ROk, a')) pre pre' /\ fst (run c s) = RErr.
Proof.
  induction entries as [|s rest IH]; intros entries' H; cbn [run_dir] in H; [discriminate|].
  destruct (run c s) as [[|] s1] eqn:E.
  - destruct (run_dir true c rest) as [r rest'] eqn:E2. injection H as -> <-.
    destruct (IH _ eq_refl) as (pre & pre' & x & post & H1 & H2 & H3 & H4).
    exists (s :: pre), (s1 :: pre'), x, post. subst. repeat split; try reflexivity; [constructor; assumption|exact H4].
  - injection H as <-. pose proof (failed_run_untouched c s s1 E) as ->.
    exists [], [], s, rest. repeat split; try constructor. rewrite E. reflexivity.
Qed.

(* every invalid or unreadable grammar in the directory makes the run fail *)
Theorem dir_fails_on_any_failure c entries s :
  In s entries -> fst (run c s) = RErr -> fst (run_dir true c entries) = RErr.
Proof.
  induction entries as [|x rest IH]; intros Hin Hf; [contradiction|]. cbn [run_dir].
  destruct (run c x) as [[|] x1] eqn:E.
  - destruct Hin as [->|Hin]; [rewrite E in Hf; discriminate|].
    specialize (IH Hin Hf). destruct (run_dir true c rest) as [r rest']. exact IH.
  - reflexivity.
Qed.

(* the walk that goes on after an error and returns the last result reports success although an entry
   failed, as soon as a later entry succeeds *)
Theorem dir_walk_on_refuted c bad good good' :
  fst (run c bad) = RErr -> run c good = (ROk, good') ->
  fst (run_dir false c [bad; good]) = ROk /\ fst (run_dir true c [bad; good]) = RErr.
Proof.
  intros Hb Hg. cbn [run_dir]. destruct (run c bad) as [[|] b1] eqn:E; [discriminate|].
  rewrite Hg. split; reflexivity.
Qed.

(* ---- what the header has to provide ------------------------------------------------ *)
(* fixed width: version, build time and the two checksums are printed with fixed widths *)
Hypothesis Hlen : forall g p g' p', length (hdr g p) = length (hdr g' p').
(* rustfmt leaves the leading comment lines alone *)
Hypothesis Hfmt : forall c g code,
  firstn (length (source_header c g)) (fmt (content c g code)) = source_header c g.

Lemma head_of_output c g code c' g' :
  firstn (length (source_header c' g')) (output c g code) = source_header c g.
Proof.
  unfold BuildScript.source_header at 1. rewrite (Hlen g' (prefix c') g (prefix c)).
  fold (source_header c g). unfold BuildScript.output. destruct (format c); [apply Hfmt|].
  unfold BuildScript.content. apply firstn_app_exact.
Qed.

Lemma up_to_date_own c g code : up_to_date c g (output c g code) = true.
Proof. unfold BuildScript.up_to_date. rewrite head_of_output. apply text_eqb_refl. Qed.

(* a destination already produced from the same grammar, prefix and library is left untouched *)
Theorem idempotent c s s1 : run c s = (ROk, s1) -> run c s1 = (ROk, s1).
Proof.
  intros H. unfold BuildScript.run in *. destruct (gfile s) as [g|] eqn:Hg; [|discriminate].
  destruct (match dest s with Some d => up_to_date c g d | None => false end) eqn:U.
  - injection H as H. subst s1. rewrite Hg, U. reflexivity.
  - destruct (compile g) as [code|] eqn:C; [|discriminate]. injection H as H. subst s1. cbn [gfile dest].
    rewrite up_to_date_own. reflexivity.
Qed.

(* ... also when formatting was switched on or off in between *)
Theorem idempotent_other_format c c' s s1 :
  prefix c' = prefix c -> run c s = (ROk, s1) -> run c' s1 = (ROk, s1).
Proof.
  intros Hp H. unfold BuildScript.run in *. destruct (gfile s) as [g|] eqn:Hg; [|discriminate].
  assert (SH : source_header c' g = source_header c g) by (unfold BuildScript.source_header; rewrite Hp; reflexivity).
  destruct (match dest s with Some d => up_to_date c g d | None => false end) eqn:U.
  - injection H as H. subst s1. rewrite Hg. destruct (dest s) as [d|]; [|discriminate].
    unfold BuildScript.up_to_date in *. rewrite SH, U. reflexivity.
  - destruct (compile g) as [code|] eqn:C; [|discriminate]. injection H as H. subst s1. cbn [gfile dest].
    unfold BuildScript.up_to_date. rewrite head_of_output. rewrite SH. rewrite text_eqb_refl. reflexivity.
Qed.

(* ---- freshness ------------------------------------------------------------------------ *)
(* the header identifies grammar text and prefix (no checksum collision among the texts in play) *)
Hypothesis Hinj : forall g p g' p', hdr g p = hdr g' p' -> g = g' /\ p = p'.

Theorem fresh_after_run c s s1 :
  produced s -> run c s = (ROk, s1) -> fresh c s1 /\ produced s1.
Proof.
  intros P H. destruct (ok_fresh_or_shortcut _ _ _ H) as [[F W]|[-> [g [d [Hg [Hd U]]]]]].
  - split; [exact F|]. unfold BuildScript.run in H. destruct (gfile s) as [g|]; [|discriminate].
    destruct (match dest s with Some d => up_to_date c g d | None => false end).
    + injection H as <-. lia.
    + destruct (compile g) as [code|] eqn:C; [|discriminate]. injection H as <-.
      unfold BuildScript.produced. cbn [dest]. exists c, g, code. auto.
  - split; [|exact P]. unfold BuildScript.produced in P. rewrite Hd in P.
    destruct P as (c' & g' & code' & C' & ->).
    unfold BuildScript.up_to_date in U. rewrite head_of_output in U. apply text_eqb_eq in U.
    unfold BuildScript.source_header in U. apply Hinj in U. destruct U as [<- Hp].
    unfold BuildScript.fresh. rewrite Hg, C', Hd.
    assert (E : content c' g code' = content c g code').
    { unfold BuildScript.content, BuildScript.source_header. rewrite Hp. reflexivity. }
    unfold BuildScript.output. rewrite E. destruct (format c'); auto.
Qed.

Lemma step_produced c s o c' s' : produced s -> step (c, s) o = (c', s') -> produced s'.
Proof.
  intros P H. destruct o; cbn in H; injection H as <- <-; try exact P; try exact I.
  destruct (run c s) as [r s1] eqn:R. cbn [snd]. destruct r.
  - exact (proj2 (fresh_after_run c s s1 P R)).
  - rewrite (failed_run_untouched _ _ _ R). exact P.
Qed.

Lemma exec_produced ops : forall c s c' s', produced s -> exec ops (c, s) = (c', s') -> produced s'.
Proof.
  induction ops as [|o ops IH]; intros c s c' s' P H; unfold BuildScript.exec in H; cbn [fold_left] in H;
    [injection H as <- <-; exact P|].
  destruct (step (c, s) o) as [c1 s1] eqn:S1. eapply IH; [|exact H]. eapply step_produced; eauto.
Qed.

(* whatever sequence of grammar edits, prefix and formatting changes, destination deletions and
   earlier runs preceded it: after a successful run the destination is the compilation of the
   grammar file as it is now *)
Theorem fresh_after_history ops c0 s0 c s s' :
  produced s0 -> exec ops (c0, s0) = (c, s) -> run c s = (ROk, s') -> fresh c s'.
Proof.
  intros P E R. exact (proj1 (fresh_after_run c s s' (exec_produced ops c0 s0 c s P E) R)).
Qed.

(* the number of writes never decreases; only a successful run or a deletion changes the destination *)
Theorem step_dest c s o c' s' :
  step (c, s) o = (c', s') ->
  dest s' = dest s \/ o = ODelete \/ (o = ORun /\ writes s' = S (writes s)).
Proof.
  destruct o; cbn; intro H; injection H as <- <-; auto.
  unfold BuildScript.run. destruct (gfile s) as [g|]; [|left; reflexivity].
  destruct (match dest s with Some d => up_to_date c g d | None => false end); [left; reflexivity|].
  destruct (compile g); [right; right; auto|left; reflexivity].
Qed.

End BSOk.

(* ---- without the hypothesis on the header: a checksum collision leaves a stale destination ---- *)
Theorem stale_after_collision hdr compile fmt g g' p code :
  hdr g p = hdr g' p -> compile g = Some code ->
  let c := {| prefix := p; format := false |} in
  let s0 := {| gfile := Some g; dest := None; writes := 0 |} in
  let s2 := snd (exec hdr compile fmt [ORun; OEdit (Some g'); ORun] (c, s0)) in
  gfile s2 = Some g' /\ dest s2 = Some (content hdr c g code) /\ writes s2 = 1.
Proof.
  intros E C. cbn zeta.
  set (c := {| prefix := p; format := false |}).
  set (s1 := {| gfile := Some g; dest := Some (content hdr c g code); writes := 1 |}).
  assert (R1 : run hdr compile fmt c {| gfile := Some g; dest := None; writes := 0 |} = (ROk, s1)).
  { unfold run. cbn [gfile dest writes]. rewrite C. reflexivity. }
  set (s1' := {| gfile := Some g'; dest := Some (content hdr c g code); writes := 1 |}).
  assert (U : up_to_date hdr c g' (content hdr c g code) = true).
  { unfold up_to_date, content, source_header, c. cbn [prefix]. rewrite <- E.
    rewrite firstn_app_exact. apply text_eqb_refl. }
  assert (R2 : run hdr compile fmt c s1' = (ROk, s1')).
  { unfold run, s1'. cbn [gfile dest]. rewrite U. reflexivity. }
  unfold exec. cbn [fold_left step]. rewrite R1. cbn [snd gfile dest writes s1].
  change {| gfile := Some g'; dest := Some (content hdr c g code); writes := 1 |} with s1'.
  rewrite R2. cbn. auto.
Qed.

(* ---- the algorithm before the repair: a prefix that shrinks to a prefix of the old one ---------- *)
Lemma text_eqb_prefix a b : text_eqb a (firstn (length a) (a ++ b)) = true.
Proof. rewrite firstn_app_exact. apply text_eqb_refl. Qed.

Theorem old_stale_after_prefix_shrink compile hdr_old g code p q :
  compile g = Some code -> q <> [] ->
  let c0 := {| prefix := p ++ q; format := false |} in
  let c1 := {| prefix := p; format := false |} in
  let s0 := {| gfile := Some g; dest := None; writes := 0 |} in
  let s1 := {| gfile := Some g; dest := Some (output_old hdr_old c0 g code); writes := 1 |} in
  run_old compile hdr_old c0 s0 = (ROk, s1) /\
  run_old compile hdr_old c1 s1 = (ROk, s1) /\
  output_old hdr_old c0 g code <> output_old hdr_old c1 g code.
Proof.
  intros C Hq. cbn zeta. split; [|split].
  - unfold run_old. cbn [gfile dest writes]. rewrite C. reflexivity.
  - unfold run_old. cbn [gfile dest writes].
    assert (U : up_to_date_old hdr_old {| prefix := p; format := false |} g
                  (output_old hdr_old {| prefix := p ++ q; format := false |} g code) = true).
    { unfold up_to_date_old, output_old, source_header_old. cbn [prefix].
      replace ((hdr_old g ++ NL ++ p ++ q) ++ NL ++ code) with ((hdr_old g ++ NL ++ p) ++ (q ++ NL ++ code))
        by (rewrite <- !app_assoc; reflexivity).
      apply text_eqb_prefix. }
    rewrite U. reflexivity.
  - unfold output_old, source_header_old. cbn [prefix]. intro E.
    apply (f_equal (@length N)) in E. rewrite !app_length in E. destruct q; [congruence|]. cbn in E. lia.
Qed.
