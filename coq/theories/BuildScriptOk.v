(* Proofs about the build-script model (C18). *)
From Coq Require Import Lia.
From PegV Require Import Utf8 BuildScript.

Lemma text_eqb_refl a : text_eqb a a = true.
Proof. induction a as [|x a IH]; cbn; [reflexivity|]. rewrite N.eqb_refl, IH. reflexivity. Qed.

Lemma text_eqb_eq a b : text_eqb a b = true -> a = b.
Proof.
  revert b. induction a as [|x a IH]; intros [|y b]; cbn; try discriminate; [reflexivity|].
  intro H. apply andb_true_iff in H. destruct H as [H1 H2]. apply N.eqb_eq in H1. subst. f_equal. auto.
Qed.

Lemma firstn_app_exact {A} (a b : list A) : firstn (length a) (a ++ b) = a.
Proof. induction a; cbn; [reflexivity|]. f_equal. auto. Qed.

Section BSOk.
Variable hdr : text -> text.
Variable compile : text -> option text.
Variable fmt : text -> text.

Notation run := (run hdr compile fmt).
Notation output := (output hdr fmt).
Notation source_header := (source_header hdr).
Notation up_to_date := (up_to_date hdr).
Notation fresh := (fresh hdr compile fmt).
Notation exec := (exec hdr compile fmt).

(* a run that fails leaves everything exactly as it was *)
Theorem failed_run_untouched c s s' : run c s = (RErr, s') -> s' = s.
Proof.
  unfold BuildScript.run. destruct (gfile s) as [g|]; [|intro H; injection H; auto].
  destruct (match dest s with Some d => up_to_date c g d | None => false end); [discriminate|].
  destruct (compile g); [discriminate|intro H; injection H; auto].
Qed.

Theorem unreadable_fails c s : gfile s = None -> run c s = (RErr, s).
Proof. intro H. unfold BuildScript.run. rewrite H. reflexivity. Qed.

Theorem invalid_fails c s g :
  gfile s = Some g -> compile g = None ->
  match dest s with Some d => up_to_date c g d = false | None => True end ->
  run c s = (RErr, s).
Proof.
  intros Hg Hc Hd. unfold BuildScript.run. rewrite Hg, Hc.
  destruct (dest s); [rewrite Hd|]; reflexivity.
Qed.

Lemma up_to_date_own c g code :
  format c = false -> up_to_date c g (output c g code) = true.
Proof.
  intro Hf. unfold BuildScript.up_to_date, BuildScript.output. rewrite Hf.
  rewrite firstn_app_exact. apply text_eqb_refl.
Qed.

(* with rustfmt: as long as formatting keeps header and prefix at the front *)
Lemma up_to_date_own_fmt c g code :
  firstn (length (source_header c g)) (fmt (source_header c g ++ NL ++ code)) = source_header c g ->
  format c = true -> up_to_date c g (output c g code) = true.
Proof.
  intros Hk Hf. unfold BuildScript.up_to_date, BuildScript.output. rewrite Hf, Hk. apply text_eqb_refl.
Qed.

(* a destination already produced from the same grammar, prefix and library is left untouched *)
Theorem idempotent c s s1 :
  format c = false -> run c s = (ROk, s1) -> run c s1 = (ROk, s1).
Proof.
  intros Hf H. unfold BuildScript.run in *. destruct (gfile s) as [g|] eqn:Hg; [|discriminate].
  destruct (match dest s with Some d => up_to_date c g d | None => false end) eqn:U.
  - injection H as H. subst s1. rewrite Hg, U. reflexivity.
  - destruct (compile g) as [code|] eqn:C; [|discriminate]. injection H as H. subst s1. cbn [gfile dest].
    rewrite up_to_date_own by exact Hf. reflexivity.
Qed.

(* a successful run either wrote the compilation of the current grammar, or found
   a destination that starts with the expected header and prefix *)
Theorem ok_fresh_or_shortcut c s s1 :
  run c s = (ROk, s1) ->
  (fresh c s1 /\ writes s1 = S (writes s)) \/
  (s1 = s /\ exists g d, gfile s = Some g /\ dest s = Some d /\ up_to_date c g d = true).
Proof.
  unfold BuildScript.run. destruct (gfile s) as [g|] eqn:Hg; [|discriminate].
  destruct (dest s) as [d|] eqn:Hd.
  - destruct (up_to_date c g d) eqn:U.
    + intro H. injection H as <-. right. split; [reflexivity|]. exists g, d. auto.
    + destruct (compile g) as [code|] eqn:C; [|discriminate]. intro H. injection H as <-.
      left. split; [|reflexivity]. unfold BuildScript.fresh. cbn [gfile dest]. rewrite C. reflexivity.
  - destruct (compile g) as [code|] eqn:C; [|discriminate]. intro H. injection H as <-.
    left. split; [|reflexivity]. unfold BuildScript.fresh. cbn [gfile dest]. rewrite C. reflexivity.
Qed.

(* freshness, provided the header+prefix test cannot be fooled by the file that is there *)
Theorem fresh_if_no_confusion c s s1 :
  run c s = (ROk, s1) ->
  (forall g d code, gfile s = Some g -> dest s = Some d -> compile g = Some code ->
                    up_to_date c g d = true -> d = output c g code) ->
  fresh c s1.
Proof.
  intros H NC. destruct (ok_fresh_or_shortcut _ _ _ H) as [[F _]|[-> [g [d [Hg [Hd U]]]]]]; [exact F|].
  unfold BuildScript.fresh. rewrite Hg. destruct (compile g) as [code|] eqn:C; [|exact I].
  rewrite Hd. f_equal. eapply NC; eauto.
Qed.

(* ---- the unconditional statement is false: a prefix that shrinks to a prefix of the old one *)
Lemma text_eqb_prefix a b : text_eqb a (firstn (length a) (a ++ b)) = true.
Proof. rewrite firstn_app_exact. apply text_eqb_refl. Qed.

Theorem stale_after_prefix_shrink g code p q :
  compile g = Some code -> q <> [] ->
  let c0 := {| prefix := p ++ q; format := false |} in
  let c1 := {| prefix := p; format := false |} in
  let s0 := {| gfile := Some g; dest := None; writes := 0 |} in
  let '(c, s) := exec [ORun; OPrefix p; ORun] (c0, s0) in
  c = c1 /\ dest s = Some (output c0 g code) /\ writes s = 1 /\ ~ fresh c1 s.
Proof.
  intros C Hq. cbn zeta.
  set (c0 := {| prefix := p ++ q; format := false |}).
  set (c1 := {| prefix := p; format := false |}).
  set (s1 := {| gfile := Some g; dest := Some (output c0 g code); writes := 1 |}).
  assert (R1 : run c0 {| gfile := Some g; dest := None; writes := 0 |} = (ROk, s1)).
  { unfold BuildScript.run. cbn [gfile dest writes]. rewrite C. reflexivity. }
  assert (U : up_to_date c1 g (output c0 g code) = true).
  { unfold BuildScript.up_to_date, BuildScript.output, BuildScript.source_header, c0, c1. cbn [format prefix].
    replace ((hdr g ++ NL ++ p ++ q) ++ NL ++ code) with ((hdr g ++ NL ++ p) ++ (q ++ NL ++ code))
      by (rewrite <- !app_assoc; reflexivity).
    apply text_eqb_prefix. }
  assert (R2 : run c1 s1 = (ROk, s1)).
  { unfold BuildScript.run, s1. cbn [gfile dest]. rewrite U. reflexivity. }
  unfold BuildScript.exec. cbn [fold_left BuildScript.step]. rewrite R1. cbn [snd prefix format].
  change {| prefix := p; format := format c0 |} with c1. rewrite R2. cbn [snd]. split; [reflexivity|]. split; [reflexivity|]. split; [reflexivity|].
  unfold BuildScript.fresh, s1. cbn [gfile dest]. rewrite C. intro E. injection E as E.
  unfold BuildScript.output, BuildScript.source_header, c0, c1 in E. cbn [format prefix] in E.
  apply (f_equal (@length N)) in E. rewrite !app_length in E.
  destruct q; [congruence|]. cbn in E. lia.
Qed.

(* the number of writes never decreases; only a successful run or a deletion changes the destination *)
Theorem step_dest c s o c' s' :
  step hdr compile fmt (c, s) o = (c', s') ->
  dest s' = dest s \/ o = ODelete \/ (o = ORun /\ writes s' = S (writes s)).
Proof.
  destruct o; cbn; intro H; injection H as <- <-; auto.
  unfold BuildScript.run. destruct (gfile s) as [g|]; [|left; reflexivity].
  destruct (match dest s with Some d => up_to_date c g d | None => false end); [left; reflexivity|].
  destruct (compile g); [right; right; auto|left; reflexivity].
Qed.

End BSOk.
