(* Grammar AST, mirroring the type family of codegen/src/grammar/generated.rs
   (Choice{choices}, Sequence{parts}, the DelimitedExpression variants,
   StringItem with its three escape records, directives, CharRule,
   ExternRule).  Choice / Sequence / DelimitedExpression are one type here;
   the dumper emits them in the nesting the front end produces. *)
From PegV Require Import Utf8 State.

Inductive simple_escape :=
| EscBackslash | EscCarriageReturn | EscDQuote | EscNewline | EscQuote | EscTab.

(* hex digits are kept as the characters the front end stored *)
Inductive string_item :=
| SIHexa (c1 c2 : N)
| SISimple (e : simple_escape)
| SIUtf8 (c1 : N) (c2 c3 c4 c5 c6 : option N)
| SIChar (c : N).

Inductive field_name :=
| FNone                      (* plain rule match, result dropped *)
| FNamed (n : name)          (* name:Rule *)
| FOverride.                 (* @:Rule *)

Inductive expr :=
| EChoice (alts : list expr)
| ESeq (parts : list expr)
| EGroup (body : expr)
| EOptional (body : expr)
| EClosure (body : expr) (at_least_one : bool)
| ENeg (e : expr)
| EPos (e : expr)
| ERange (from to : string_item)
| ELit (insensitive : bool) (body : list string_item)
| EEoi
| EInclude (rule : name)
| EField (fname : field_name) (boxed : bool) (typ : name).

Inductive directive :=
| DString | DNoSkipWs | DExport | DPosition | DMemoize | DLeftrec
| DCheck (fn : list name).

Record rule := { r_directives : list directive; r_name : name; r_def : expr }.

Inductive char_part :=
| CPChar (s : string_item)
| CPRange (a b : string_item)
| CPIdent (n : name).

Record char_rule := { cr_checks : list (list name); cr_name : name; cr_choices : list char_part }.

Record extern_rule := { er_function : list name; er_return : option (list name); er_name : name }.

Inductive grule :=
| GRule (r : rule)
| GChar (r : char_rule)
| GExtern (r : extern_rule).

Definition grammar := list grule.

Definition grule_name (r : grule) : name :=
  match r with GRule r => r_name r | GChar r => cr_name r | GExtern r => er_name r end.

(* Rule::flags *)
Record rule_flags := {
  fl_no_skip_ws : bool; fl_export : bool; fl_string : bool;
  fl_position : bool; fl_memoize : bool; fl_left_recursive : bool
}.

Definition has_dir (p : directive -> bool) (ds : list directive) : bool := existsb p ds.

Definition flags_of (ds : list directive) : rule_flags := {|
  fl_no_skip_ws := has_dir (fun d => match d with DNoSkipWs => true | _ => false end) ds;
  fl_export := has_dir (fun d => match d with DExport => true | _ => false end) ds;
  fl_string := has_dir (fun d => match d with DString => true | _ => false end) ds;
  fl_position := has_dir (fun d => match d with DPosition => true | _ => false end) ds;
  fl_memoize := has_dir (fun d => match d with DMemoize => true | _ => false end) ds;
  fl_left_recursive := has_dir (fun d => match d with DLeftrec => true | _ => false end) ds
|}.

Fixpoint checks_of (ds : list directive) : list (list name) :=
  match ds with
  | [] => []
  | DCheck f :: r => f :: checks_of r
  | _ :: r => checks_of r
  end.

(* lookups.  `parse_X` resolves to the grammar's own item first (it shadows the
   glob-imported built-ins), then to the built-in `char` / `Whitespace`. *)
Fixpoint find_grule (g : grammar) (n : name) : option grule :=
  match g with
  | [] => None
  | r :: g' => if name_eqb (grule_name r) n then Some r else find_grule g' n
  end.

(* IncludeRule::included_rule_definition: the first *normal* rule of that name *)
Fixpoint find_rule (g : grammar) (n : name) : option rule :=
  match g with
  | [] => None
  | GRule r :: g' => if name_eqb (r_name r) n then Some r else find_rule g' n
  | _ :: g' => find_rule g' n
  end.

(* names as byte lists: "char", "Whitespace", "_override", "string", "position" *)
Definition n_char : name := [99; 104; 97; 114]%N.
Definition n_Whitespace : name := [87; 104; 105; 116; 101; 115; 112; 97; 99; 101]%N.
Definition n_override : name := [95; 111; 118; 101; 114; 114; 105; 100; 101]%N.
Definition n_string : name := [115; 116; 114; 105; 110; 103]%N.
