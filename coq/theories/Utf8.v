(* UTF-8 over N: encoding, strict one-step decoding, valid strings as
   encodings of scalar-value lists, and the boundary / prefix-code facts the
   byte-level matchers of runtime/src/builtin_parsers.rs rely on.
   Stdlib only, no axioms. *)
From Coq Require Export List NArith Bool Lia Arith.
From Coq Require Import ZArith ZifyBool ZifyNat ZifyN.
Export ListNotations.
Ltac Zify.zify_post_hook ::= Z.div_mod_to_equations.

Global Arguments N.add : simpl never.
Global Arguments N.sub : simpl never.
Global Arguments N.mul : simpl never.
Global Arguments N.div : simpl never.
Global Arguments N.modulo : simpl never.
Global Arguments N.ltb : simpl never.
Global Arguments N.leb : simpl never.
Global Arguments N.eqb : simpl never.

Local Open Scope N_scope.

Definition byte := N.
Definition cpt := N.            (* code point *)
Definition bytes := list N.

Definition is_scalar (c : N) : bool :=
  (c <? 0xD800) || ((0xE000 <=? c) && (c <? 0x110000)).

Definition encode (c : N) : bytes :=
  if c <? 0x80 then [c]
  else if c <? 0x800 then [0xC0 + c / 64; 0x80 + c mod 64]
  else if c <? 0x10000 then
         [0xE0 + c / 4096; 0x80 + (c / 64) mod 64; 0x80 + c mod 64]
  else [0xF0 + c / 262144; 0x80 + (c / 4096) mod 64;
        0x80 + (c / 64) mod 64; 0x80 + c mod 64].

Definition utf8_len (c : N) : nat :=
  if c <? 0x80 then 1%nat else if c <? 0x800 then 2%nat
  else if c <? 0x10000 then 3%nat else 4%nat.

Definition encode_str (cs : list N) : bytes := flat_map encode cs.

Definition is_cont (b : N) : bool := (0x80 <=? b) && (b <? 0xC0).

(* Strict decoder of the first character (what `str::chars().next()` yields on
   a valid string): returns the scalar value and its byte length. *)
Definition decode1 (bs : bytes) : option (N * nat) :=
  match bs with
  | [] => None
  | b0 :: r =>
    if b0 <? 0x80 then Some (b0, 1%nat)
    else if b0 <? 0xC2 then None
    else if b0 <? 0xE0 then
      match r with
      | b1 :: _ => if is_cont b1 then Some ((b0 - 0xC0) * 64 + (b1 - 0x80), 2%nat) else None
      | _ => None
      end
    else if b0 <? 0xF0 then
      match r with
      | b1 :: b2 :: _ =>
        if is_cont b1 && is_cont b2 then
          let c := (b0 - 0xE0) * 4096 + (b1 - 0x80) * 64 + (b2 - 0x80) in
          if (0x800 <=? c) && is_scalar c then Some (c, 3%nat) else None
        else None
      | _ => None
      end
    else if b0 <? 0xF5 then
      match r with
      | b1 :: b2 :: b3 :: _ =>
        if is_cont b1 && is_cont b2 && is_cont b3 then
          let c := (b0 - 0xF0) * 262144 + (b1 - 0x80) * 4096 + (b2 - 0x80) * 64 + (b3 - 0x80) in
          if (0x10000 <=? c) && (c <? 0x110000) then Some (c, 4%nat) else None
        else None
      | _ => None
      end
    else None
  end.

Definition all_scalar (cs : list N) : Prop := Forall (fun c => is_scalar c = true) cs.

(* A byte list is a valid Rust `str` iff it is the encoding of scalar values. *)
Definition valid_utf8 (bs : bytes) : Prop :=
  exists cs, all_scalar cs /\ bs = encode_str cs.

(* Executable validity check / decoder (fuel = length suffices). *)
Fixpoint decode_all (fuel : nat) (bs : bytes) : option (list N) :=
  match bs with
  | [] => Some []
  | _ =>
    match fuel with
    | O => None
    | S f =>
      match decode1 bs with
      | Some (c, n) =>
        match decode_all f (skipn n bs) with
        | Some cs => Some (c :: cs)
        | None => None
        end
      | None => None
      end
    end
  end.

Definition decode_str (bs : bytes) : option (list N) := decode_all (length bs) bs.

(* `str::is_char_boundary(i)`: i = len, or byte i is not a continuation byte. *)
Definition is_boundary (bs : bytes) (i : nat) : bool :=
  match Nat.compare i (length bs) with
  | Eq => true
  | Gt => false
  | Lt => negb (is_cont (nth i bs 0))
  end.

(* number of characters = number of non-continuation bytes
   (this is how core::str counts chars) *)
Definition count_lead (bs : bytes) : nat :=
  length (filter (fun b => negb (is_cont b)) bs).

Definition is_ascii (c : N) : bool := c <? 0x80.

Definition to_ascii_lower (b : N) : N :=
  if (0x41 <=? b) && (b <=? 0x5A) then b + 32 else b.

Definition is_ascii_ws (b : N) : bool :=
  (b =? 0x20) || (b =? 0x09) || (b =? 0x0A) || (b =? 0x0C) || (b =? 0x0D).
