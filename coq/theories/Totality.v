(* C15: the compiler's recursion over includes.
   - If the include relation of a grammar is well-founded (a rank exists that
     decreases along every include), the recursion of get_fields and of the code
     generator over included bodies is bounded: with enough fuel the model never
     answers "out of fuel", i.e. the real compiler's recursion ends.
   - If it is not (an include cycle), no amount of fuel suffices: the real
     compiler recurses until the stack overflows (known finding). *)
From Coq Require Import Lia.
From PegV Require Import Utf8 State Syntax Fields FieldsFacts GetFieldsFacts Literals Model Compile.

Lemma size_in (a : expr) l : In a l -> expr_size a <= fold_right (fun x s => expr_size x + s) 0 l.
Proof.
  induction l as [|x l IH]; intros H; [destruct H|]. cbn. destruct H as [->|H]; [lia|]. specialize (IH H). lia.
Qed.

Lemma find_rule_in g n r : find_rule g n = Some r -> In (GRule r) g /\ r_name r = n.
Proof.
  induction g as [|x g IH]; intros H; [discriminate|]. cbn in H. destruct x as [r0|c0|e0].
  - destruct (name_eqb (r_name r0) n) eqn:E.
    + injection H as <-. split; [left; reflexivity|]. apply name_eqb_eq. exact E.
    + destruct (IH H) as [A B]. split; [right; exact A|exact B].
  - destruct (IH H) as [A B]. split; [right; exact A|exact B].
  - destruct (IH H) as [A B]. split; [right; exact A|exact B].
Qed.

Lemma rule_size_le g r : In (GRule r) g -> expr_size (r_def r) <= grammar_size g.
Proof.
  induction g as [|x g IH]; intros H; [destruct H|]. unfold grammar_size in *. cbn.
  destruct H as [->|H]; [lia|]. specialize (IH H). lia.
Qed.

Lemma find_rule_defined g r : In (GRule r) g -> find_rule g (r_name r) <> None.
Proof.
  induction g as [|x g' IH]; intro H; [destruct H|]. cbn. destruct H as [->|H].
  - rewrite name_eqb_refl. discriminate.
  - destruct x as [r0|c0|e0]; try (apply IH; exact H).
    destruct (name_eqb (r_name r0) (r_name r)); [discriminate|apply IH; exact H].
Qed.

Section Totality.
Variable c : fields_cfg.
Variable guard : bool.
Variable g : grammar.

(* a rank that strictly decreases along every include *)
Definition ranked (rank : name -> nat) : Prop :=
  forall r, In (GRule r) g -> forall n r', In n (includes (r_def r)) -> find_rule g n = Some r' ->
    rank (r_name r') < rank (r_name r).

Definition below (rank : name -> nat) (k : nat) (e : expr) : Prop :=
  forall n r', In n (includes e) -> find_rule g n = Some r' -> rank (r_name r') < k.

Definition need (k : nat) (e : expr) : nat := expr_size e + k * S (grammar_size g).

Lemma gf_seq_nofuel gf ps : (forall p, In p ps -> gf p <> GFFuel) -> forall all, gf_seq c gf ps all <> GFFuel.
Proof.
  induction ps as [|p ps IH]; intros H all; cbn; [discriminate|].
  pose proof (H p (or_introl eq_refl)) as Hp. destruct (gf p); [|discriminate|congruence].
  apply IH. intros q Hq. apply H. right. exact Hq.
Qed.

Lemma gf_choice_nofuel gf ps : (forall p, In p ps -> gf p <> GFFuel) -> forall first all, gf_choice c gf ps first all <> GFFuel.
Proof.
  induction ps as [|p ps IH]; intros H first all; cbn; [discriminate|].
  pose proof (H p (or_introl eq_refl)) as Hp. destruct (gf p); [|discriminate|congruence].
  apply IH. intros q Hq. apply H. right. exact Hq.
Qed.

Lemma below_child rank k (e a : expr) l :
  (e = EChoice l \/ e = ESeq l) -> In a l -> below rank k e -> below rank k a.
Proof.
  intros He Hin B n r' Hn Hf. apply (B n r'); [|exact Hf].
  destruct He as [->| ->]; cbn; apply in_flat_map; exists a; split; assumption.
Qed.

Theorem get_fields_bounded rank : ranked rank ->
  forall F e k, below rank k e -> need k e < F -> get_fields c F g e <> GFFuel.
Proof.
  intros R. induction F as [|F IH]; intros e k B Hn; [unfold need in Hn; lia|].
  cbn [get_fields]. unfold need in *.
  destruct e; cbn [expr_size] in Hn.
  - apply gf_choice_nofuel. intros a Hin. apply (IH a k).
    + eapply below_child; [left; reflexivity|exact Hin|exact B].
    + pose proof (size_in a alts Hin). lia.
  - apply gf_seq_nofuel. intros a Hin. apply (IH a k).
    + eapply below_child; [right; reflexivity|exact Hin|exact B].
    + pose proof (size_in a parts Hin). lia.
  - apply (IH e k); [exact B|lia].
  - assert (H : get_fields c F g e <> GFFuel) by (apply (IH e k); [exact B|lia]).
    destruct (get_fields c F g e); congruence || discriminate.
  - assert (H : get_fields c F g e <> GFFuel) by (apply (IH e k); [exact B|lia]).
    destruct (get_fields c F g e); congruence || discriminate.
  - assert (H : get_fields c F g e <> GFFuel) by (apply (IH e k); [exact B|lia]).
    destruct (get_fields c F g e) as [[|x l]| |]; congruence || discriminate.
  - assert (H : get_fields c F g e <> GFFuel) by (apply (IH e k); [exact B|lia]).
    destruct (get_fields c F g e) as [[|x l]| |]; congruence || discriminate.
  - discriminate.
  - discriminate.
  - discriminate.
  - destruct (find_rule g rule) as [r|] eqn:Ef; [|discriminate].
    destruct (find_rule_in _ _ _ Ef) as [Hin Hname].
    assert (Hk : rank (r_name r) < k) by (apply (B rule r); [left; reflexivity|exact Ef]).
    apply (IH (r_def r) (rank (r_name r))).
    + intros n r' Hn' Hf'. eapply R; eauto.
    + pose proof (rule_size_le g r Hin) as Hs.
      assert (S (rank (r_name r)) * S (grammar_size g) <= k * S (grammar_size g)) by (apply Nat.mul_le_mono_r; lia).
      lia.
  - destruct (fname_of fname); discriminate.
Qed.

Lemma first_err_nofuel {A} (f : A -> cres unit) l : (forall x, In x l -> f x <> CFuel) -> first_err f l <> CFuel.
Proof.
  induction l as [|x l IH]; intros H; cbn; [discriminate|].
  pose proof (H x (or_introl eq_refl)) as Hx. destruct (f x); try congruence; try discriminate.
  apply IH. intros y Hy. apply H. right. exact Hy.
Qed.

Theorem lit_check_bounded rank : ranked rank ->
  forall F e k, below rank k e -> need k e < F -> lit_check guard g F e <> CFuel.
Proof.
  intros R. induction F as [|F IH]; intros e k B Hn; [unfold need in Hn; lia|].
  cbn [lit_check]. unfold need in *.
  destruct e; cbn [expr_size] in Hn.
  - apply first_err_nofuel. intros a Hin. apply (IH a k).
    + eapply below_child; [left; reflexivity|exact Hin|exact B].
    + pose proof (size_in a alts Hin). lia.
  - apply first_err_nofuel. intros a Hin. apply (IH a k).
    + eapply below_child; [right; reflexivity|exact Hin|exact B].
    + pose proof (size_in a parts Hin). lia.
  - apply (IH e k); [exact B|lia].
  - apply (IH e k); [exact B|lia].
  - apply (IH e k); [exact B|lia].
  - apply (IH e k); [exact B|lia].
  - apply (IH e k); [exact B|lia].
  - destruct (compile_range from to); discriminate.
  - destruct (compile_lit guard insensitive body); discriminate.
  - discriminate.
  - destruct (find_rule g rule) as [r|] eqn:Ef; [|discriminate].
    destruct (find_rule_in _ _ _ Ef) as [Hin Hname].
    assert (Hk : rank (r_name r) < k) by (apply (B rule r); [left; reflexivity|exact Ef]).
    apply (IH (r_def r) (rank (r_name r))).
    + intros n r' Hn' Hf'. eapply R; eauto.
    + pose proof (rule_size_le g r Hin) as Hs.
      assert (S (rank (r_name r)) * S (grammar_size g) <= k * S (grammar_size g)) by (apply Nat.mul_le_mono_r; lia).
      lia.
  - discriminate.
Qed.

(* enough fuel for every rule of the grammar *)
Definition max_rank (rank : name -> nat) : nat :=
  fold_right (fun r a => Nat.max (rank (grule_name r)) a) 0 g.

Lemma max_rank_ge rank r : In (GRule r) g -> rank (r_name r) <= max_rank rank.
Proof.
  unfold max_rank. induction g as [|x g' IH]; intros H; [destruct H|]. cbn.
  destruct H as [->|H]; [cbn; lia|]. specialize (IH H). lia.
Qed.

Definition enough (rank : name -> nat) : nat := S (S (max_rank rank)) * S (grammar_size g).

Theorem compile_rule_bounded lc pv s rank : ranked rank ->
  forall r, In (GRule r) g -> forall F, enough rank <= F -> compile_rule c guard lc pv g s F r <> CFuel.
Proof.
  intros R r Hin F HF. unfold compile_rule.
  assert (B : below rank (rank (r_name r)) (r_def r)) by (intros n r' Hn Hf; eapply R; eauto).
  assert (N : need (rank (r_name r)) (r_def r) < F).
  { unfold need, enough in *. pose proof (rule_size_le g r Hin). pose proof (max_rank_ge rank r Hin).
    assert (rank (r_name r) * S (grammar_size g) <= max_rank rank * S (grammar_size g)) by (apply Nat.mul_le_mono_r; lia).
    lia. }
  pose proof (get_fields_bounded rank R F (r_def r) _ B N) as G.
  pose proof (lit_check_bounded rank R F (r_def r) _ B N) as L.
  destruct (get_fields c F g (r_def r)) as [fields| |]; [|discriminate|congruence].
  destruct (fl_export _ && fl_string _); [discriminate|].
  destruct (name_eqb _ _ && negb _); [discriminate|].
  destruct ((fl_memoize _ || lc && fl_left_recursive _) && negb _); [discriminate|].
  destruct (position_variant_error pv g _ fields); [discriminate|].
  destruct (lit_check guard g F (r_def r)); try congruence; try discriminate.
  destruct (fl_string _); [discriminate|].
  assert (NN : forall x : cres (list decl),
             (if existsb (fun fd => name_eqb (fd_name fd) n_override) fields then CErr CEMixOverride else x) = CFuel -> x = CFuel).
  { intros x. destruct (existsb _ fields); [discriminate|auto]. }
  destruct fields as [|fd [|fd2 rest]].
  - cbn. discriminate.
  - destruct (name_eqb (fd_name fd) n_override).
    + destruct (multi_typed fd).
      * destruct (arity_eqb (fd_arity fd) One); discriminate.
      * destruct (fl_export _); [discriminate|]. destruct (fl_position _); [discriminate|].
        destruct (field_type (r_name r) fd); discriminate.
    + intro H. apply NN in H. destruct (struct_fields (r_name r) [fd]); discriminate.
  - intro H. apply NN in H. destruct (struct_fields (r_name r) (fd :: fd2 :: rest)); discriminate.
Qed.

Theorem compile_never_overflows lc pv ic cc s rank : ranked rank ->
  forall F, enough rank <= F -> forall i, compile_f c guard lc pv ic cc g s F <> GOverflow i.
Proof.
  intros R F HF. unfold compile_f.
  destruct (if ic then find _ _ else None); [discriminate|].
  destruct (cc && has_cycle g); [discriminate|].
  assert (K : forall rs idx acc i, (forall x, In x rs -> In x g) ->
              compile_rules c guard lc pv g s F idx rs acc <> GOverflow i).
  { induction rs as [|x rs IH]; intros idx acc i Hsub; cbn; [discriminate|].
    assert (Hx : compile_grule c guard lc pv g s F x <> CFuel).
    { destruct x as [r|cr|er]; cbn.
      - apply (compile_rule_bounded lc pv s rank R r); [apply Hsub; left; reflexivity|exact HF].
      - destruct (first_err char_part_check (cr_choices cr)) eqn:E; try discriminate.
        exfalso. revert E. apply first_err_nofuel. intros p _.
        destruct p; cbn; unfold item_check.
        + destruct (decode_item s0); discriminate.
        + destruct (decode_item a); try discriminate. destruct (decode_item b); discriminate.
        + discriminate.
      - discriminate. }
    destruct (compile_grule c guard lc pv g s F x); try congruence; try discriminate.
    apply IH. intros y Hy. apply Hsub. right. exact Hy. }
  intro i. apply K. auto.
Qed.

Lemma cycle_rejected_aux lc pv ic s F :
  has_cycle g = true ->
  compile_f c guard lc pv ic true g s F = GCycle \/ exists n, compile_f c guard lc pv ic true g s F = GBadIdent n.
Proof.
  intro H. unfold compile_f. destruct (if ic then find _ _ else None) as [n|]; [right; eauto|].
  rewrite H. left. reflexivity.
Qed.

(* ---- without an include cycle a rank exists -------------------------------------- *)
Lemma fold_max_ge (f : name -> nat) l m : In m l -> f m <= fold_right (fun x a => Nat.max (f x) a) 0 l.
Proof. induction l as [|x l IH]; intro H; [destruct H|]. cbn. destruct H as [->|H]; [lia|]. specialize (IH H). lia. Qed.

Lemma fold_max_le (f : name -> nat) l b : (forall m, In m l -> f m <= b) -> fold_right (fun x a => Nat.max (f x) a) 0 l <= b.
Proof. induction l as [|x l IH]; intro H; cbn; [lia|]. pose proof (H x (or_introl eq_refl)). assert (fold_right (fun x a => Nat.max (f x) a) 0 l <= b) by (apply IH; intros; apply H; right; assumption). lia. Qed.

Lemma fold_max_ext (f h : name -> nat) l : (forall m, In m l -> f m = h m) ->
  fold_right (fun x a => Nat.max (f x) a) 0 l = fold_right (fun x a => Nat.max (h x) a) 0 l.
Proof. induction l as [|x l IH]; intro H; cbn; [reflexivity|]. rewrite (H x (or_introl eq_refl)), IH; [reflexivity|]. intros; apply H; right; assumption. Qed.

(* if the depth cut off at k+1 stays within k, the cut-off did not matter *)
Lemma inc_depth_S k n :
  inc_depth g (S k) n = fold_right (fun m a => Nat.max (S (inc_depth g k m)) a) 0 (inc_of g n).
Proof. reflexivity. Qed.

Lemma inc_depth_stable : forall k n, inc_depth g (S k) n <= k -> inc_depth g (S k) n = inc_depth g k n.
Proof.
  induction k as [|k IH]; intros n H.
  - rewrite inc_depth_S in *. destruct (inc_of g n) as [|m l] eqn:El; [reflexivity|].
    pose proof (fold_max_ge (fun m0 => S (inc_depth g 0 m0)) (m :: l) m (or_introl eq_refl)) as G. cbn beta in G. lia.
  - rewrite (inc_depth_S (S k)) in H |- *. rewrite (inc_depth_S k n).
    apply (fold_max_ext (fun m => S (inc_depth g (S k) m)) (fun m => S (inc_depth g k m))).
    intros m Hin. f_equal. apply IH.
    pose proof (fold_max_ge (fun m => S (inc_depth g (S k) m)) (inc_of g n) m Hin) as G. cbn beta in G. lia.
Qed.

Lemma find_rule_unique r : NoDup (rule_names g) -> In (GRule r) g -> find_rule g (r_name r) = Some r.
Proof.
  unfold rule_names. induction g as [|x g' IH]; intros ND Hin; [destruct Hin|].
  cbn in ND. destruct Hin as [->|Hin].
  - cbn. rewrite name_eqb_refl. reflexivity.
  - destruct x as [r0|c0|e0]; cbn in ND |- *; try (apply IH; assumption).
    inversion ND as [|? ? Hn ND']; subst.
    destruct (name_eqb (r_name r0) (r_name r)) eqn:E; [|apply IH; assumption].
    exfalso. apply Hn. apply name_eqb_eq in E. rewrite E. apply in_flat_map. exists (GRule r). split; [exact Hin|left; reflexivity].
Qed.

Theorem acyclic_ranked : NoDup (rule_names g) -> has_cycle g = false -> ranked (inc_depth g (S (length g))).
Proof.
  intros ND H r Hin n r' Hn Hf.
  assert (Hall : forall x, In x (rule_names g) -> inc_depth g (S (length g)) x <= length g).
  { intros x Hx. unfold has_cycle in H. destruct (Nat.ltb (length g) (inc_depth g (S (length g)) x)) eqn:E.
    - exfalso. assert (existsb (fun n0 => Nat.ltb (length g) (inc_depth g (S (length g)) n0)) (rule_names g) = true)
        by (apply existsb_exists; exists x; split; assumption). congruence.
    - apply Nat.ltb_ge in E. exact E. }
  destruct (find_rule_in _ _ _ Hf) as [Hin' Hn'].
  assert (Hr' : In (r_name r') (rule_names g)) by (apply in_flat_map; exists (GRule r'); split; [exact Hin'|left; reflexivity]).
  rewrite (inc_depth_stable _ _ (Hall _ Hr')).
  rewrite (inc_depth_S (length g) (r_name r)). unfold inc_of. rewrite (find_rule_unique r ND Hin).
  pose proof (fold_max_ge (fun m => S (inc_depth g (length g) m)) (includes (r_def r)) n Hn) as G. cbn beta in G.
  rewrite Hn'. unfold lt. exact G.
Qed.

(* with the cycle check in place the compiler never overflows, for every grammar with distinct rule names *)
Theorem checked_compile_never_overflows lc pv ic s : NoDup (rule_names g) ->
  forall F, enough (inc_depth g (S (length g))) <= F -> forall i, compile_f c guard lc pv ic true g s F <> GOverflow i.
Proof.
  intros ND F HF i. destruct (has_cycle g) eqn:H.
  - destruct (cycle_rejected_aux lc pv ic s F H) as [E|[n E]]; rewrite E; discriminate.
  - apply compile_never_overflows with (rank := inc_depth g (S (length g))); [apply acyclic_ranked; assumption|exact HF].
Qed.

End Totality.

(* ---- an include cycle: no fuel suffices ------------------------------------- *)
Definition n_A : name := [65]%N.
Definition cyclic : grammar := [GRule {| r_directives := [DExport]; r_name := n_A; r_def := EInclude n_A |}].

Theorem cycle_diverges c : forall F, get_fields c F cyclic (EInclude n_A) = GFFuel.
Proof. induction F as [|F IH]; [reflexivity|]. cbn [get_fields]. cbn. exact IH. Qed.

(* without the cycle check the compiler recurses for ever on it ... *)
Theorem cycle_overflows c guard lc pv s : forall F, compile_f c guard lc pv false false cyclic s F = GOverflow 0.
Proof. intro F. unfold compile_f, cyclic. cbn. unfold compile_rule. cbn [r_def]. fold cyclic. rewrite cycle_diverges. reflexivity. Qed.

(* ... with it, every grammar with a cycle is answered with an error *)
Theorem cycle_rejected c guard lc pv ic g s F :
  has_cycle g = true ->
  compile_f c guard lc pv ic true g s F = GCycle \/ exists n, compile_f c guard lc pv ic true g s F = GBadIdent n.
Proof.
  intro H. unfold compile_f. destruct (if ic then find _ _ else None) as [n|]; [right; eauto|].
  rewrite H. left. reflexivity.
Qed.

Example cyclic_has_cycle : has_cycle cyclic = true.
Proof. reflexivity. Qed.
