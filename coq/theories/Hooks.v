(* The fixed library of user check / extern functions used by the
   correspondence runs: Gallina twins of harness/gen/hooks.rs.  In theorems
   hooks are universally quantified (Model.hooks); this instance only makes the
   model executable on grammars that use the library. *)
From Coq Require Import String Ascii.
From PegV Require Import Utf8 State Syntax Model.
Local Open Scope N_scope.

Definition nm (s : string) : name := map N_of_ascii (list_ascii_of_string s).

Record ustate := { u_counter : N; u_budget : N; u_log : list (name * nat) }.

Definition u_init : ustate := {| u_counter := 0; u_budget := 2; u_log := [] |}.

Definition ulog (e : name * nat) (u : ustate) : ustate :=
  {| u_counter := u_counter u; u_budget := u_budget u; u_log := e :: u_log u |}.

Definition last_part (p : list name) : name := last p [].

Fixpoint take_while (p : N -> bool) (bs : bytes) : bytes :=
  match bs with
  | b :: r => if p b then b :: take_while p r else []
  | [] => []
  end.

Definition is_lower (b : N) : bool := (0x61 <=? b) && (b <=? 0x7A).
Definition is_digit (b : N) : bool := (0x30 <=? b) && (b <=? 0x39).

Definition std_check (f : list name) (v : value) (u : ustate) : bool * ustate :=
  let n := last_part f in
  let u1 := ulog (n, O) u in
  if name_eqb n (nm "chk_true") then (true, u1)
  else if name_eqb n (nm "chk_false") then (false, u1)
  else if name_eqb n (nm "chk_str_short") then
    (match v with VStr s => Nat.leb (length s) 2 | _ => false end, u1)
  else if name_eqb n (nm "chk_str_noa") then
    (match v with VStr s => negb (existsb (N.eqb 0x61) s) | _ => false end, u1)
  else if name_eqb n (nm "chk_budget") then
    if 0 <? u_budget u
    then (true, {| u_counter := u_counter u; u_budget := u_budget u - 1; u_log := u_log u1 |})
    else (false, u1)
  else (false, u1).

Definition std_check_char (f : list name) (c : N) : bool :=
  let n := last_part f in
  if name_eqb n (nm "chk_lower") then is_lower c
  else if name_eqb n (nm "chk_not_x") then negb (c =? 0x78)
  else false.

Definition digits_value (ds : bytes) : N := fold_left (fun a d => a * 10 + (d - 0x30)) ds 0.

Definition std_extern (f : list name) (rest : bytes) (u : ustate) : (value * nat + name) * ustate :=
  let n := last_part f in
  if name_eqb n (nm "ext_ident") then
    let t := take_while is_lower rest in
    (match t with [] => inr (nm "expected ident") | _ => inl (VStr t, length t) end, u)
  else if name_eqb n (nm "ext_num") then
    let t := firstn 4 (take_while is_digit rest) in
    (match t with [] => inr (nm "expected number") | _ => inl (VNum (digits_value t), length t) end, u)
  else if name_eqb n (nm "ext_probe") then
    (inl (VStr [], O), ulog (n, length rest) u)
  else if name_eqb n (nm "ext_any2") then
    (match decode1 rest with
     | Some (_, n1) =>
       match decode1 (skipn n1 rest) with
       | Some (_, n2) => inl (VStr (firstn (n1 + n2) rest), (n1 + n2)%nat)
       | None => inr (nm "expected two chars")
       end
     | None => inr (nm "expected two chars")
     end, u)
  else if name_eqb n (nm "ext_next") then
    let c := u_counter u + 1 in
    (inl (VNum c, O), {| u_counter := c; u_budget := u_budget u; u_log := (n, length rest) :: u_log u |})
  else (inr (nm "unknown extern"), u).

Definition std_hooks : hooks ustate :=
  {| h_check := std_check; h_check_char := std_check_char; h_extern := std_extern |}.

(* the same library as pure oracles (for grammars that use no stateful hook) *)
From PegV Require Import Spec.
Definition std_shooks : shooks :=
  {| sh_check := fun f v => fst (std_check f v u_init);
     sh_check_char := std_check_char;
     sh_extern := fun f bs => fst (std_extern f bs u_init) |}.
