(* C12: the escape sequences of literals and ranges denote exactly the documented
   characters: for every scalar value and every escape form applicable to it,
   in any hex case, decoding the spelled item yields that character; an
   invalid code point yields an error, not a character. *)
From Coq Require Import ZArith ZifyBool ZifyNat ZifyN Lia.
From PegV Require Import Utf8 State Syntax Literals.
Ltac Zify.zify_post_hook ::= Z.div_mod_to_equations.
Local Open Scope N_scope.

(* the character of a hex digit d < 16, upper or lower case *)
Definition hexchar (d : N) (upper : bool) : N :=
  if d <? 10 then 0x30 + d else if upper then 0x41 + (d - 10) else 0x61 + (d - 10).

Lemma hex_digit_hexchar d u : d < 16 -> hex_digit (hexchar d u) = Some d.
Proof.
  intro H. unfold hexchar, hex_digit. destruct (d <? 10) eqn:E.
  - replace ((0x30 <=? 0x30 + d) && (0x30 + d <=? 0x39)) with true by lia. f_equal. lia.
  - destruct u.
    + replace ((0x30 <=? 0x41 + (d - 10)) && (0x41 + (d - 10) <=? 0x39)) with false by lia.
      replace ((0x61 <=? 0x41 + (d - 10)) && (0x41 + (d - 10) <=? 0x66)) with false by lia.
      replace ((0x41 <=? 0x41 + (d - 10)) && (0x41 + (d - 10) <=? 0x46)) with true by lia. f_equal. lia.
    + replace ((0x30 <=? 0x61 + (d - 10)) && (0x61 + (d - 10) <=? 0x39)) with false by lia.
      replace ((0x61 <=? 0x61 + (d - 10)) && (0x61 + (d - 10) <=? 0x66)) with true by lia. f_equal. lia.
Qed.

Definition dg (c : N) (i : N) : N := (c / 16 ^ i) mod 16.

Lemma dg_lt c i : dg c i < 16.
Proof. unfold dg. apply N.mod_lt. discriminate. Qed.

(* \xXX *)
Theorem esc_hexa c u1 u2 : c < 256 ->
  decode_item (SIHexa (hexchar (c / 16) u1) (hexchar (c mod 16) u2)) = DOk c.
Proof.
  intro H. cbn [decode_item]. rewrite !hex_digit_hexchar by lia. f_equal. lia.
Qed.

(* \uXXXX *)
Theorem esc_u4 c u3 u2 u1 u0 : is_scalar c = true -> c < 65536 ->
  decode_item (SIUtf8 (hexchar (dg c 3) u3) (Some (hexchar (dg c 2) u2)) (Some (hexchar (dg c 1) u1))
                      (Some (hexchar (dg c 0) u0)) None None) = DOk c.
Proof.
  intros Hs H. cbn [decode_item utf8_fold]. rewrite !hex_digit_hexchar by apply dg_lt.
  replace (((dg c 3 * 16 + dg c 2) * 16 + dg c 1) * 16 + dg c 0) with c; [rewrite Hs; reflexivity|].
  unfold dg. change (16 ^ 3) with 4096. change (16 ^ 2) with 256. change (16 ^ 1) with 16. change (16 ^ 0) with 1. lia.
Qed.

(* \U00XXXXXX  and  \u{XXXXXX} *)
Theorem esc_u6 c u5 u4 u3 u2 u1 u0 : is_scalar c = true ->
  decode_item (SIUtf8 (hexchar (dg c 5) u5) (Some (hexchar (dg c 4) u4)) (Some (hexchar (dg c 3) u3))
                      (Some (hexchar (dg c 2) u2)) (Some (hexchar (dg c 1) u1)) (Some (hexchar (dg c 0) u0))) = DOk c.
Proof.
  intros Hs. cbn [decode_item utf8_fold]. rewrite !hex_digit_hexchar by apply dg_lt.
  replace (((((dg c 5 * 16 + dg c 4) * 16 + dg c 3) * 16 + dg c 2) * 16 + dg c 1) * 16 + dg c 0) with c;
    [rewrite Hs; reflexivity|].
  unfold dg, is_scalar in *.
  change (16 ^ 5) with 1048576. change (16 ^ 4) with 65536. change (16 ^ 3) with 4096.
  change (16 ^ 2) with 256. change (16 ^ 1) with 16. change (16 ^ 0) with 1. lia.
Qed.

(* \u{X}, \u{XX}, \u{XXX}, \u{XXXXX}: 1, 2, 3 and 5 digits *)
Theorem esc_b1 c u0 : is_scalar c = true -> c < 16 ->
  decode_item (SIUtf8 (hexchar (dg c 0) u0) None None None None None) = DOk c.
Proof.
  intros Hs H. cbn [decode_item utf8_fold]. rewrite !hex_digit_hexchar by apply dg_lt.
  replace (dg c 0) with c; [rewrite Hs; reflexivity|]. unfold dg. change (16 ^ 0) with 1. lia.
Qed.

Theorem esc_b2 c u1 u0 : is_scalar c = true -> c < 256 ->
  decode_item (SIUtf8 (hexchar (dg c 1) u1) (Some (hexchar (dg c 0) u0)) None None None None) = DOk c.
Proof.
  intros Hs H. cbn [decode_item utf8_fold]. rewrite !hex_digit_hexchar by apply dg_lt.
  replace (dg c 1 * 16 + dg c 0) with c; [rewrite Hs; reflexivity|].
  unfold dg. change (16 ^ 1) with 16. change (16 ^ 0) with 1. lia.
Qed.

Theorem esc_b3 c u2 u1 u0 : is_scalar c = true -> c < 4096 ->
  decode_item (SIUtf8 (hexchar (dg c 2) u2) (Some (hexchar (dg c 1) u1)) (Some (hexchar (dg c 0) u0)) None None None) = DOk c.
Proof.
  intros Hs H. cbn [decode_item utf8_fold]. rewrite !hex_digit_hexchar by apply dg_lt.
  replace ((dg c 2 * 16 + dg c 1) * 16 + dg c 0) with c; [rewrite Hs; reflexivity|].
  unfold dg. change (16 ^ 2) with 256. change (16 ^ 1) with 16. change (16 ^ 0) with 1. lia.
Qed.

Theorem esc_b5 c u4 u3 u2 u1 u0 : is_scalar c = true -> c < 1048576 ->
  decode_item (SIUtf8 (hexchar (dg c 4) u4) (Some (hexchar (dg c 3) u3)) (Some (hexchar (dg c 2) u2))
                      (Some (hexchar (dg c 1) u1)) (Some (hexchar (dg c 0) u0)) None) = DOk c.
Proof.
  intros Hs H. cbn [decode_item utf8_fold]. rewrite !hex_digit_hexchar by apply dg_lt.
  replace ((((dg c 4 * 16 + dg c 3) * 16 + dg c 2) * 16 + dg c 1) * 16 + dg c 0) with c; [rewrite Hs; reflexivity|].
  unfold dg. change (16 ^ 4) with 65536. change (16 ^ 3) with 4096.
  change (16 ^ 2) with 256. change (16 ^ 1) with 16. change (16 ^ 0) with 1. lia.
Qed.

(* an invalid code point (surrogate, or above U+10FFFF) is an error, not a character *)
Theorem esc_invalid n u5 u4 u3 u2 u1 u0 : n < 16777216 -> is_scalar n = false ->
  decode_item (SIUtf8 (hexchar (dg n 5) u5) (Some (hexchar (dg n 4) u4)) (Some (hexchar (dg n 3) u3))
                      (Some (hexchar (dg n 2) u2)) (Some (hexchar (dg n 1) u1)) (Some (hexchar (dg n 0) u0)))
  = DInvalidCodepoint n.
Proof.
  intros H Hs. cbn [decode_item utf8_fold]. rewrite !hex_digit_hexchar by apply dg_lt.
  replace (((((dg n 5 * 16 + dg n 4) * 16 + dg n 3) * 16 + dg n 2) * 16 + dg n 1) * 16 + dg n 0) with n;
    [rewrite Hs; reflexivity|].
  unfold dg.
  change (16 ^ 5) with 1048576. change (16 ^ 4) with 65536. change (16 ^ 3) with 4096.
  change (16 ^ 2) with 256. change (16 ^ 1) with 16. change (16 ^ 0) with 1. lia.
Qed.

(* the six simple escapes *)
Theorem esc_simple :
  decode_item (SISimple EscNewline) = DOk 10 /\ decode_item (SISimple EscCarriageReturn) = DOk 13 /\
  decode_item (SISimple EscTab) = DOk 9 /\ decode_item (SISimple EscBackslash) = DOk 92 /\
  decode_item (SISimple EscQuote) = DOk 39 /\ decode_item (SISimple EscDQuote) = DOk 34.
Proof. repeat split; reflexivity. Qed.

(* an unescaped character denotes itself *)
Theorem esc_plain c : is_scalar c = true -> decode_item (SIChar c) = DOk c.
Proof. intro H. cbn. rewrite H. reflexivity. Qed.

(* Rule::flags: directives in any order give the same flags; checks are collected in order *)
Theorem flags_perm ds ds' : (forall d, In d ds <-> In d ds') -> flags_of ds = flags_of ds'.
Proof.
  intro H. unfold flags_of, has_dir.
  assert (E : forall p, existsb p ds = existsb p ds').
  { intro p. destruct (existsb p ds) eqn:A, (existsb p ds') eqn:B; auto.
    - apply existsb_exists in A. destruct A as [x [Hx Px]]. apply H in Hx.
      assert (existsb p ds' = true) by (apply existsb_exists; eauto). congruence.
    - apply existsb_exists in B. destruct B as [x [Hx Px]]. apply H in Hx.
      assert (existsb p ds = true) by (apply existsb_exists; eauto). congruence. }
  rewrite !E. reflexivity.
Qed.

Theorem checks_in_order a b : checks_of (a ++ b) = checks_of a ++ checks_of b.
Proof. induction a as [|d a IH]; [reflexivity|]. destruct d; cbn; rewrite ?IH; reflexivity. Qed.
