(* C13, whole grammar: replacing includes by the parenthesised body of the
   included rule - any subset of the includes, in any rules, to any depth -
   changes nothing: same declared fields, and the specification returns the
   very same result (value, rest, offset, log of failed attempts) for every
   rule, input and recursion bound. *)
From Coq Require Import Lia.
From PegV Require Import Utf8 Utf8Facts State Terminals TerminalsSpec Syntax Fields FieldsFacts GetFieldsFacts Literals Model Spec ErrLog Termination Sim Conform.

Section Subst.
Variable g : grammar.

(* e' is e with some includes replaced by a group around (a likewise treated copy of) the body *)
Inductive inl : expr -> expr -> Prop :=
| inl_choice alts alts' : Forall2 inl alts alts' -> inl (EChoice alts) (EChoice alts')
| inl_seq ps ps' : Forall2 inl ps ps' -> inl (ESeq ps) (ESeq ps')
| inl_group b b' : inl b b' -> inl (EGroup b) (EGroup b')
| inl_opt b b' : inl b b' -> inl (EOptional b) (EOptional b')
| inl_clo b b' plus : inl b b' -> inl (EClosure b plus) (EClosure b' plus)
| inl_neg b b' : inl b b' -> inl (ENeg b) (ENeg b')
| inl_pos b b' : inl b b' -> inl (EPos b) (EPos b')
| inl_range a b : inl (ERange a b) (ERange a b)
| inl_lit i b : inl (ELit i b) (ELit i b)
| inl_eoi : inl EEoi EEoi
| inl_field f b t : inl (EField f b t) (EField f b t)
| inl_keep n : inl (EInclude n) (EInclude n)
| inl_subst n r b' : find_rule g n = Some r -> inl (r_def r) b' -> inl (EInclude n) (EGroup b').

Definition grel (a b : grule) : Prop :=
  match a, b with
  | GRule r, GRule r' => r_directives r = r_directives r' /\ r_name r = r_name r' /\ inl (r_def r) (r_def r')
  | GChar c, GChar c' => c = c'
  | GExtern x, GExtern x' => x = x'
  | _, _ => False
  end.

Variable g' : grammar.
Hypothesis Hg : Forall2 grel g g'.

Lemma grel_name a b : grel a b -> grule_name a = grule_name b.
Proof. destruct a, b; cbn; try tauto; try (intros ->; reflexivity). Qed.

Lemma find_grule_rel' l l' : Forall2 grel l l' -> forall n,
  match find_grule l n, find_grule l' n with
  | Some a, Some b => grel a b
  | None, None => True
  | _, _ => False
  end.
Proof.
  induction 1 as [|a b l l' R _ IH]; intro n; cbn [find_grule]; [exact I|].
  rewrite <- (grel_name _ _ R). destruct (name_eqb (grule_name a) n); [exact R|apply IH].
Qed.

Lemma find_rule_rel' l l' : Forall2 grel l l' -> forall n,
  match find_rule l n, find_rule l' n with
  | Some r, Some r' => r_directives r = r_directives r' /\ r_name r = r_name r' /\ inl (r_def r) (r_def r')
  | None, None => True
  | _, _ => False
  end.
Proof.
  induction 1 as [|a b l l' R _ IH]; intro n; cbn [find_rule]; [exact I|].
  destruct a as [r|c|x], b as [r'|c'|x']; cbn in R; try tauto; try apply IH.
  destruct R as [R1 [R2 R3]]. rewrite <- R2. destruct (name_eqb (r_name r) n); [auto|apply IH].
Qed.

Definition find_grule_rel := find_grule_rel' g g' Hg.
Definition find_rule_rel := find_rule_rel' g g' Hg.

(* ---- declared fields ------------------------------------------------------ *)
Variable fcfg : fields_cfg.

Lemma gf_seq_rel (gf1 gf2 : expr -> gf_res) ps ps' :
  Forall2 (fun p p' => gf1 p = gf2 p') ps ps' -> forall all, gf_seq fcfg gf1 ps all = gf_seq fcfg gf2 ps' all.
Proof. induction 1 as [|p p' l l' E _ IH]; intro all; cbn; [reflexivity|]. rewrite E. destruct (gf2 p'); auto. Qed.

Lemma gf_choice_rel (gf1 gf2 : expr -> gf_res) cs cs' :
  Forall2 (fun p p' => gf1 p = gf2 p') cs cs' ->
  forall first all, gf_choice fcfg gf1 cs first all = gf_choice fcfg gf2 cs' first all.
Proof. induction 1 as [|p p' l l' E _ IH]; intros first all; cbn; [reflexivity|]. rewrite E. destruct (gf2 p'); auto. Qed.

Lemma Forall2_impl {A B} (P Q : A -> B -> Prop) l l' : (forall a b, P a b -> Q a b) -> Forall2 P l l' -> Forall2 Q l l'.
Proof. intros H F. induction F; constructor; auto. Qed.

Lemma gf_inl : forall fuel e e', inl e e' -> get_fields fcfg fuel g e = get_fields fcfg fuel g' e'.
Proof.
  induction fuel as [|fuel IH]; intros e e' I; [reflexivity|].
  inversion I; subst; cbn [get_fields]; try reflexivity.
  - apply gf_choice_rel. eapply Forall2_impl; [|eassumption]. intros a b Hab. apply IH. exact Hab.
  - apply gf_seq_rel. eapply Forall2_impl; [|eassumption]. intros a b Hab. apply IH. exact Hab.
  - apply IH. assumption.
  - rewrite (IH _ _ H). reflexivity.
  - rewrite (IH _ _ H). reflexivity.
  - rewrite (IH _ _ H). reflexivity.
  - rewrite (IH _ _ H). reflexivity.
  - pose proof (find_rule_rel n) as F. destruct (find_rule g n) as [r|], (find_rule g' n) as [r'|]; try tauto.
    apply IH. tauto.
  - rewrite H. apply IH. assumption.
Qed.

(* ---- sizes (the bound get_fields is given grows with the grammar) ----------- *)

Lemma sum_sizes_le l l' : Forall2 (fun a b => expr_size a <= expr_size b) l l' ->
  fold_right (fun x a => expr_size x + a) 0 l <= fold_right (fun x a => expr_size x + a) 0 l'.
Proof. induction 1; cbn [fold_right]; lia. Qed.

Lemma inl_size_list l : Forall (fun a => forall e', inl a e' -> expr_size a <= expr_size e') l ->
  forall l', Forall2 inl l l' -> Forall2 (fun a b => expr_size a <= expr_size b) l l'.
Proof.
  induction 1 as [|a l Ha _ IH]; intros l' F; inversion F; subst; constructor; auto.
Qed.

Lemma inl_size : forall e e', inl e e' -> expr_size e <= expr_size e'.
Proof.
  induction e using expr_ind'; intros e' I; inversion I; subst; cbn [expr_size]; try lia.
  - apply le_n_S. apply sum_sizes_le. eapply inl_size_list; eauto.
  - apply le_n_S. apply sum_sizes_le. eapply inl_size_list; eauto.
  - apply le_n_S. auto.
  - apply le_n_S. auto.
  - apply le_n_S. auto.
  - apply le_n_S. auto.
  - apply le_n_S. auto.
Qed.

Lemma grammar_size_le' l l' : Forall2 grel l l' -> grammar_size l <= grammar_size l'.
Proof.
  unfold grammar_size. induction 1 as [|a b l l' R _ IH]; cbn [fold_right]; [lia|].
  destruct a as [r|c|x], b as [r'|c'|x']; cbn in R; try tauto; try lia.
  destruct R as [_ [_ R]]. apply inl_size in R. lia.
Qed.

Lemma fuel_le : gf_fuel_s g <= gf_fuel_s g'.
Proof. unfold gf_fuel_s. apply le_n_S. apply grammar_size_le'. exact Hg. Qed.

(* ---- the specification ------------------------------------------------------ *)
Variable shk : shooks.
Variable insens : bool.

(* the grammar is accepted as far as its declarations go *)
Definition fields_ok : Prop :=
  forall r, In (GRule r) g -> exists l, get_fields fcfg (gf_fuel_s g) g (r_def r) = GFOk l.
Hypothesis Hok : fields_ok.

Lemma shape_rel r r' consumed span evs :
  In (GRule r) g -> r_directives r = r_directives r' -> r_name r = r_name r' -> inl (r_def r) (r_def r') ->
  shape fcfg g r consumed span evs = shape fcfg g' r' consumed span evs.
Proof.
  intros Hin D Nm I. unfold shape. rewrite <- D, <- Nm.
  destruct (Hok r Hin) as [l E].
  assert (E' : get_fields fcfg (gf_fuel_s g') g' (r_def r') = GFOk l).
  { rewrite <- (gf_inl _ _ _ I). eapply gf_mono; [exact E|apply fuel_le]. }
  rewrite E, E'. reflexivity.
Qed.

Definition Ee (sv sv' : sevals) : Prop :=
  forall skip e e' cs o, inl e e' -> sv_expr sv skip e cs o = sv_expr sv' skip e' cs o.
Definition Er (sv sv' : sevals) : Prop :=
  forall n cs o, sv_rule sv n cs o = sv_rule sv' n cs o.
Definition El (sv sv' : sevals) : Prop :=
  forall skip b b' plus cs o iters evs acc, inl b b' ->
    sv_loop sv skip b plus cs o iters evs acc = sv_loop sv' skip b' plus cs o iters evs acc.

Section Step.
Variable sv sv' : sevals.
Hypothesis He : Ee sv sv'.
Hypothesis Hr : Er sv sv'.
Hypothesis Hl : El sv sv'.

Lemma s_with_ws_rel {A} skip cs o (k k' : list N -> nat -> sres A) :
  (forall cs o, k cs o = k' cs o) -> s_with_ws sv skip cs o k = s_with_ws sv' skip cs o k'.
Proof.
  intro K. unfold s_with_ws. destruct skip; [|apply K]. rewrite <- Hr.
  destruct (sv_rule sv n_Whitespace cs o); try reflexivity. rewrite K. reflexivity.
Qed.

Lemma s_choice_rel skip alts alts' : Forall2 inl alts alts' ->
  forall cs o acc, s_choice sv skip alts cs o acc = s_choice sv' skip alts' cs o acc.
Proof.
  induction 1 as [|a a' l l' I _ IH]; intros cs o acc; cbn [s_choice]; [reflexivity|].
  rewrite (He _ _ _ _ _ I). destruct (sv_expr sv' skip a' cs o); auto.
Qed.

Lemma s_seq_rel skip ps ps' : Forall2 inl ps ps' ->
  forall cs o evs acc, s_seq sv skip ps cs o evs acc = s_seq sv' skip ps' cs o evs acc.
Proof.
  induction 1 as [|a a' l l' I _ IH]; intros cs o evs acc; cbn [s_seq]; [reflexivity|].
  rewrite (He _ _ _ _ _ I). destruct (sv_expr sv' skip a' cs o); auto.
Qed.

Lemma sexpr_step_rel : Ee (sstep fcfg shk g insens sv) (sstep fcfg shk g' insens sv').
Proof.
  intros skip e e' cs o I. cbn [sstep sv_expr]. unfold sexpr_step.
  inversion I; subst.
  - inversion H; subst; [reflexivity|]. inversion H1; subst; [apply He; assumption|].
    apply s_choice_rel. assumption.
  - inversion H; subst; [reflexivity|]. inversion H1; subst; [apply He; assumption|].
    apply s_seq_rel. assumption.
  - apply He. assumption.
  - rewrite (He _ _ _ _ _ H). reflexivity.
  - apply Hl. assumption.
  - rewrite (He _ _ _ _ _ H). reflexivity.
  - rewrite (He _ _ _ _ _ H). reflexivity.
  - destruct (compile_range a b); try reflexivity. f_equal. apply s_with_ws_rel. reflexivity.
  - destruct (compile_lit insens i b); try reflexivity. destruct (lit_term m). f_equal. apply s_with_ws_rel. reflexivity.
  - f_equal. apply s_with_ws_rel. reflexivity.
  - rewrite (s_with_ws_rel skip cs o (fun cs o => sv_rule sv t cs o) (fun cs o => sv_rule sv' t cs o)); [reflexivity|].
    intros. apply Hr.
  - pose proof (find_rule_rel n) as F. destruct (find_rule g n) as [r|], (find_rule g' n) as [r'|]; try tauto.
    apply He. tauto.
  - rewrite H. apply He. assumption.
Qed.

Lemma sloop_step_rel : El (sstep fcfg shk g insens sv) (sstep fcfg shk g' insens sv').
Proof.
  intros skip b b' plus cs o iters evs acc I. cbn [sstep sv_loop]. unfold sloop_step.
  rewrite (He _ _ _ _ _ I). destruct (sv_expr sv' skip b' cs o); try reflexivity. apply Hl. exact I.
Qed.

Lemma s_char_parts_rel ps : forall cs o, s_char_parts sv ps cs o = s_char_parts sv' ps cs o.
Proof.
  induction ps as [|p ps IH]; intros cs o; cbn [s_char_parts]; [reflexivity|].
  destruct p as [i|a b|n].
  - destruct (decode_item i) as [c| |]; try reflexivity. destruct (term_match (TmChar c) cs); [reflexivity|apply IH].
  - destruct (compile_range a b) as [x y| |]; try reflexivity. destruct (term_match (TmRange x y) cs); [reflexivity|apply IH].
  - rewrite Hr. destruct (sv_rule sv' n cs o); try reflexivity. apply IH.
Qed.

Lemma fg_in' (l : grammar) n gr : find_grule l n = Some gr -> In gr l.
Proof.
  induction l as [|x l IH]; cbn [find_grule]; [discriminate|].
  destruct (name_eqb (grule_name x) n); [intro H; injection H as <-; left; reflexivity|intro H; right; auto].
Qed.

Lemma srule_step_rel : Er (sstep fcfg shk g insens sv) (sstep fcfg shk g' insens sv').
Proof.
  intros n cs o. cbn [sstep sv_rule]. unfold srule_step.
  pose proof (find_grule_rel n) as F.
  destruct (find_grule g n) as [a|] eqn:FA, (find_grule g' n) as [b|]; try tauto.
  destruct a as [r|c|x], b as [r'|c'|x']; cbn in F; try tauto.
  - destruct F as [D [Nm I]]. rewrite <- D.
      destruct (fl_left_recursive (flags_of (r_directives r))); [reflexivity|].
      rewrite (He _ _ _ _ _ I).
      destruct (sv_expr sv' (negb (fl_no_skip_ws (flags_of (r_directives r)))) (r_def r') cs o); try reflexivity.
      rewrite (shape_rel r r' _ _ _ (fg_in' _ _ _ FA) D Nm I). reflexivity.
  - subst c'. cbn zeta. rewrite s_char_parts_rel. reflexivity.
  - subst x'. reflexivity.
Qed.

End Step.

Theorem subst_all : forall f,
  Ee (srun fcfg shk g insens f) (srun fcfg shk g' insens f) /\
  Er (srun fcfg shk g insens f) (srun fcfg shk g' insens f) /\
  El (srun fcfg shk g insens f) (srun fcfg shk g' insens f).
Proof.
  induction f as [|f [He [Hr Hl]]].
  - split; [|split]; unfold Ee, Er, El; intros; reflexivity.
  - split; [|split]; [apply sexpr_step_rel|apply srule_step_rel|apply sloop_step_rel]; auto.
Qed.

(* the two grammars have the same specification, at every bound *)
Theorem subst_spec : forall f rule_name cs,
  s_parse fcfg shk g insens f rule_name cs = s_parse fcfg shk g' insens f rule_name cs.
Proof. intros f rule_name cs. unfold s_parse. apply (proj1 (proj2 (subst_all f))). Qed.

(* and the same declared fields, rule by rule *)
Theorem subst_fields : forall r r', In (GRule r) g ->
  r_directives r = r_directives r' -> r_name r = r_name r' -> inl (r_def r) (r_def r') ->
  get_fields fcfg (gf_fuel_s g) g (r_def r) = get_fields fcfg (gf_fuel_s g') g' (r_def r').
Proof.
  intros r r' Hin D Nm I. destruct (Hok r Hin) as [l E]. rewrite E. symmetry.
  rewrite <- (gf_inl _ _ _ I). eapply gf_mono; [exact E|apply fuel_le].
Qed.

End Subst.

(* ---- a checkable form of the relation, and the one-level textual inlining ---- *)

Fixpoint list_forall2b {A} (p : A -> A -> bool) (l l' : list A) : bool :=
  match l, l' with
  | [], [] => true
  | a :: r, b :: r' => p a b && list_forall2b p r r'
  | _, _ => false
  end.

Lemma list_forall2b_ok {A} (p : A -> A -> bool) (P : A -> A -> Prop) l :
  forall l', (forall a b, In a l -> p a b = true -> P a b) -> list_forall2b p l l' = true -> Forall2 P l l'.
Proof.
  induction l as [|a r IH]; intros [|b r'] H E; cbn in E; try discriminate; constructor.
  - apply andb_prop in E. apply H; [left; reflexivity|tauto].
  - apply andb_prop in E. apply IH; [|tauto]. intros x y Hx. apply H. right. exact Hx.
Qed.

Definition item_eqb (a b : string_item) : bool :=
  match a, b with
  | SIHexa x1 x2, SIHexa y1 y2 => N.eqb x1 y1 && N.eqb x2 y2
  | SISimple x, SISimple y =>
    match x, y with
    | EscBackslash, EscBackslash | EscCarriageReturn, EscCarriageReturn | EscDQuote, EscDQuote
    | EscNewline, EscNewline | EscQuote, EscQuote | EscTab, EscTab => true
    | _, _ => false
    end
  | SIUtf8 a1 a2 a3 a4 a5 a6, SIUtf8 b1 b2 b3 b4 b5 b6 =>
    let oeq := fun (x y : option N) => match x, y with Some u, Some v => N.eqb u v | None, None => true | _, _ => false end in
    N.eqb a1 b1 && oeq a2 b2 && oeq a3 b3 && oeq a4 b4 && oeq a5 b5 && oeq a6 b6
  | SIChar x, SIChar y => N.eqb x y
  | _, _ => false
  end.

Lemma item_eqb_eq a b : item_eqb a b = true -> a = b.
Proof.
  destruct a, b; cbn; try discriminate.
  - intro H. apply andb_prop in H. destruct H as [H1 H2]. apply N.eqb_eq in H1, H2. congruence.
  - destruct e, e0; try discriminate; reflexivity.
  - intro H. repeat (apply andb_prop in H; destruct H as [H ?]).
    apply N.eqb_eq in H. subst.
    repeat match goal with
           | X : match ?x with Some _ => _ | None => _ end = true |- _ =>
             destruct x; try discriminate
           | X : match ?x with Some _ => false | None => true end = true |- _ => destruct x; try discriminate
           end.
    all: repeat match goal with X : N.eqb _ _ = true |- _ => apply N.eqb_eq in X; subst end; reflexivity.
  - intro H. apply N.eqb_eq in H. congruence.
Qed.

Definition fname_eqb (a b : field_name) : bool :=
  match a, b with
  | FNone, FNone => true
  | FNamed x, FNamed y => name_eqb x y
  | FOverride, FOverride => true
  | _, _ => false
  end.

Lemma fname_eqb_eq a b : fname_eqb a b = true -> a = b.
Proof. destruct a, b; cbn; try discriminate; try reflexivity. intro H. apply name_eqb_eq in H. congruence. Qed.

Fixpoint inl_b (fuel : nat) (g : grammar) (e e' : expr) {struct fuel} : bool :=
  match fuel with
  | O => false
  | S f =>
    match e, e' with
    | EChoice l, EChoice l' => list_forall2b (inl_b f g) l l'
    | ESeq l, ESeq l' => list_forall2b (inl_b f g) l l'
    | EGroup b, EGroup b' => inl_b f g b b'
    | EOptional b, EOptional b' => inl_b f g b b'
    | EClosure b p, EClosure b' p' => Bool.eqb p p' && inl_b f g b b'
    | ENeg b, ENeg b' => inl_b f g b b'
    | EPos b, EPos b' => inl_b f g b b'
    | ERange a b, ERange a' b' => item_eqb a a' && item_eqb b b'
    | ELit i l, ELit i' l' => Bool.eqb i i' && list_forall2b item_eqb l l'
    | EEoi, EEoi => true
    | EField fn bx t, EField fn' bx' t' => fname_eqb fn fn' && Bool.eqb bx bx' && name_eqb t t'
    | EInclude n, EInclude n' => name_eqb n n'
    | EInclude n, EGroup b' =>
      match find_rule g n with
      | Some r => inl_b f g (r_def r) b'
      | None => false
      end
    | _, _ => false
    end
  end.

Lemma items_eq l : forall l', list_forall2b item_eqb l l' = true -> l = l'.
Proof.
  induction l as [|a r IH]; intros [|b r'] E; cbn in E; try discriminate; [reflexivity|].
  apply andb_prop in E. destruct E as [E1 E2]. apply item_eqb_eq in E1. rewrite (IH _ E2), E1. reflexivity.
Qed.

Lemma inl_b_ok g : forall fuel e e', inl_b fuel g e e' = true -> inl g e e'.
Proof.
  induction fuel as [|f IH]; intros e e' E; [discriminate|].
  destruct e, e'; cbn [inl_b] in E; try discriminate.
  - constructor. eapply list_forall2b_ok; [|exact E]. intros a b _. apply IH.
  - constructor. eapply list_forall2b_ok; [|exact E]. intros a b _. apply IH.
  - constructor. auto.
  - constructor. auto.
  - apply andb_prop in E. destruct E as [E1 E2]. apply Bool.eqb_prop in E1. subst. constructor. auto.
  - constructor. auto.
  - constructor. auto.
  - apply andb_prop in E. destruct E as [E1 E2]. apply item_eqb_eq in E1, E2. subst. constructor.
  - apply andb_prop in E. destruct E as [E1 E2]. apply Bool.eqb_prop in E1. apply items_eq in E2. subst. constructor.
  - constructor.
  - destruct (find_rule g rule) as [r|] eqn:F; [|discriminate]. eapply inl_subst; eauto.
  - apply name_eqb_eq in E. subst. constructor.
  - apply andb_prop in E. destruct E as [E E3]. apply andb_prop in E. destruct E as [E1 E2].
    apply fname_eqb_eq in E1. apply Bool.eqb_prop in E2. apply name_eqb_eq in E3. subst. constructor.
Qed.

Definition dir_eqb (a b : directive) : bool :=
  match a, b with
  | DString, DString | DNoSkipWs, DNoSkipWs | DExport, DExport | DPosition, DPosition
  | DMemoize, DMemoize | DLeftrec, DLeftrec => true
  | DCheck f, DCheck f' => list_forall2b name_eqb f f'
  | _, _ => false
  end.

Lemma names_eq l : forall l', list_forall2b name_eqb l l' = true -> l = l'.
Proof.
  induction l as [|a r IH]; intros [|b r'] E; cbn in E; try discriminate; [reflexivity|].
  apply andb_prop in E. destruct E as [E1 E2]. apply name_eqb_eq in E1. rewrite (IH _ E2), E1. reflexivity.
Qed.

Lemma dir_eqb_eq a b : dir_eqb a b = true -> a = b.
Proof. destruct a, b; cbn; try discriminate; try reflexivity. intro H. apply names_eq in H. congruence. Qed.

Lemma dirs_eq l : forall l', list_forall2b dir_eqb l l' = true -> l = l'.
Proof.
  induction l as [|a r IH]; intros [|b r'] E; cbn in E; try discriminate; [reflexivity|].
  apply andb_prop in E. destruct E as [E1 E2]. apply dir_eqb_eq in E1. rewrite (IH _ E2), E1. reflexivity.
Qed.

(* rules pairwise: same directives and name, bodies related; @char and @extern rules are compared
   by the caller (they contain no includes): here they must be the very same term, which the
   one-level inlining below guarantees by construction *)
Definition inline1 (g : grammar) : expr -> expr :=
  fix go (e : expr) : expr :=
    match e with
    | EChoice l => EChoice (map go l)
    | ESeq l => ESeq (map go l)
    | EGroup b => EGroup (go b)
    | EOptional b => EOptional (go b)
    | EClosure b p => EClosure (go b) p
    | ENeg b => ENeg (go b)
    | EPos b => EPos (go b)
    | EInclude n => match find_rule g n with Some r => EGroup (r_def r) | None => EInclude n end
    | other => other
    end.

Lemma inl_refl g : forall e, inl g e e.
Proof.
  induction e using expr_ind'; try (constructor; auto; fail).
  - constructor. induction H; constructor; auto.
  - constructor. induction H; constructor; auto.
Qed.

Lemma inline1_inl g : forall e, inl g e (inline1 g e).
Proof.
  induction e using expr_ind'; cbn [inline1]; try (constructor; auto; fail).
  - constructor. induction H; cbn [map]; constructor; auto.
  - constructor. induction H; cbn [map]; constructor; auto.
  - destruct (find_rule g n) as [r|] eqn:F; [|constructor]. eapply inl_subst; [exact F|apply inl_refl].
Qed.

Definition inline_grammar (g : grammar) : grammar :=
  map (fun gr => match gr with
                 | GRule r => GRule {| r_directives := r_directives r; r_name := r_name r; r_def := inline1 g (r_def r) |}
                 | other => other
                 end) g.

Lemma inline_map_rel g0 l :
  Forall2 (grel g0) l
    (map (fun gr => match gr with
                    | GRule r => GRule {| r_directives := r_directives r; r_name := r_name r; r_def := inline1 g0 (r_def r) |}
                    | other => other
                    end) l).
Proof.
  induction l as [|a l IH]; cbn [map]; constructor; [|exact IH].
  destruct a; cbn; auto using inline1_inl.
Qed.

Lemma inline_grammar_rel g : Forall2 (grel g) g (inline_grammar g).
Proof. apply inline_map_rel. Qed.

Definition fields_ok_b (fcfg : fields_cfg) (g : grammar) : bool :=
  forallb (fun gr => match gr with
                     | GRule r => match get_fields fcfg (gf_fuel_s g) g (r_def r) with GFOk _ => true | _ => false end
                     | _ => true
                     end) g.

Lemma fields_ok_b_ok fcfg g : fields_ok_b fcfg g = true -> fields_ok g fcfg.
Proof.
  unfold fields_ok_b, fields_ok. rewrite forallb_forall. intros H r Hin. specialize (H _ Hin). cbv beta iota in H.
  destruct (get_fields fcfg (gf_fuel_s g) g (r_def r)) as [l| |]; try discriminate. exists l. reflexivity.
Qed.

(* every include replaced by the parenthesised body of the included rule, in every rule *)
Theorem inline_grammar_spec fcfg shk insens g :
  fields_ok_b fcfg g = true ->
  forall f rule_name cs,
    s_parse fcfg shk g insens f rule_name cs = s_parse fcfg shk (inline_grammar g) insens f rule_name cs.
Proof.
  intros H. apply subst_spec; [apply inline_grammar_rel|apply fields_ok_b_ok; exact H].
Qed.

(* ---- whole grammars, checkable ------------------------------------------------ *)

Definition part_eqb (a b : char_part) : bool :=
  match a, b with
  | CPChar x, CPChar y => item_eqb x y
  | CPRange x1 x2, CPRange y1 y2 => item_eqb x1 y1 && item_eqb x2 y2
  | CPIdent n, CPIdent m => name_eqb n m
  | _, _ => false
  end.

Lemma part_eqb_eq a b : part_eqb a b = true -> a = b.
Proof.
  destruct a, b; cbn; try discriminate.
  - intro H. apply item_eqb_eq in H. congruence.
  - intro H. apply andb_prop in H. destruct H as [H1 H2]. apply item_eqb_eq in H1, H2. congruence.
  - intro H. apply name_eqb_eq in H. congruence.
Qed.

Lemma list_eq_of {A} (p : A -> A -> bool) (Hp : forall a b, p a b = true -> a = b) l :
  forall l', list_forall2b p l l' = true -> l = l'.
Proof.
  induction l as [|a r IH]; intros [|b r'] E; cbn in E; try discriminate; [reflexivity|].
  apply andb_prop in E. destruct E as [E1 E2]. rewrite (Hp _ _ E1), (IH _ E2). reflexivity.
Qed.

Definition grule_rel_b (fuel : nat) (g : grammar) (a b : grule) : bool :=
  match a, b with
  | GRule r, GRule r' =>
    list_forall2b dir_eqb (r_directives r) (r_directives r') && name_eqb (r_name r) (r_name r') &&
    inl_b fuel g (r_def r) (r_def r')
  | GChar c, GChar c' =>
    list_forall2b (list_forall2b name_eqb) (cr_checks c) (cr_checks c') && name_eqb (cr_name c) (cr_name c') &&
    list_forall2b part_eqb (cr_choices c) (cr_choices c')
  | GExtern x, GExtern x' =>
    list_forall2b name_eqb (er_function x) (er_function x') &&
    match er_return x, er_return x' with
    | Some p, Some q => list_forall2b name_eqb p q
    | None, None => true
    | _, _ => false
    end && name_eqb (er_name x) (er_name x')
  | _, _ => false
  end.

Lemma grule_rel_b_ok fuel g a b : grule_rel_b fuel g a b = true -> grel g a b.
Proof.
  destruct a as [r|c|x], b as [r'|c'|x']; cbn; try discriminate; intro H.
  - apply andb_prop in H. destruct H as [H H3]. apply andb_prop in H. destruct H as [H1 H2].
    apply dirs_eq in H1. apply name_eqb_eq in H2. apply inl_b_ok in H3. auto.
  - apply andb_prop in H. destruct H as [H H3]. apply andb_prop in H. destruct H as [H1 H2].
    apply (list_eq_of _ names_eq) in H1. apply name_eqb_eq in H2. apply (list_eq_of _ part_eqb_eq) in H3.
    destruct c, c'; cbn in *. congruence.
  - apply andb_prop in H. destruct H as [H H3]. apply andb_prop in H. destruct H as [H1 H2].
    apply names_eq in H1. apply name_eqb_eq in H3.
    destruct x as [f1 r1 n1], x' as [f2 r2 n2]; cbn in *. subst.
    destruct r1, r2; try discriminate; [apply names_eq in H2; subst|]; reflexivity.
Qed.

Definition grel_b (fuel : nat) (g g' : grammar) : bool := list_forall2b (grule_rel_b fuel g) g g'.

Lemma grel_b_ok fuel g g' : grel_b fuel g g' = true -> Forall2 (grel g) g g'.
Proof.
  unfold grel_b. intro H. eapply list_forall2b_ok; [|exact H]. intros a b _. apply grule_rel_b_ok.
Qed.

Theorem subst_spec_b fcfg shk insens fuel g g' :
  grel_b fuel g g' = true -> fields_ok_b fcfg g = true ->
  forall f rule_name cs,
    s_parse fcfg shk g insens f rule_name cs = s_parse fcfg shk g' insens f rule_name cs.
Proof. intros R H. apply subst_spec; [eapply grel_b_ok; eauto|apply fields_ok_b_ok; exact H]. Qed.

(* ---- the model of the generated parsers ------------------------------------------ *)

Definition same_outcome (a b : mres value) : Prop :=
  match a, b with
  | MOk v st, MOk v' st' => v = v' /\ off st = off st' /\ rest st = rest st'
  | MErr e, MErr e' => e = e'
  | MFuel, MFuel => True
  | MPanic p, _ => p <> PanicShape
  | _, MPanic p => p <> PanicShape
  | _, _ => False
  end.

Lemma grel_plain g g' : Forall2 (grel g) g g' -> plain_grammar g -> plain_grammar g'.
Proof.
  intros F P r' Hin.
  assert (K : forall l l', Forall2 (grel g) l l' -> In (GRule r') l' ->
                exists r, In (GRule r) l /\ r_directives r = r_directives r').
  { induction 1 as [|a b l l' R _ IH]; intro Hb; [destruct Hb|]. destruct Hb as [Hb|Hb]; subst.
    - destruct a as [r|c|x]; cbn in R; try tauto. exists r. split; [left; reflexivity|tauto].
    - destruct (IH Hb) as [r [I D]]. exists r. split; [right; exact I|exact D]. }
  destruct (K _ _ F Hin) as [r [I D]]. rewrite <- D. apply P. exact I.
Qed.

Theorem subst_model ustate scfg fcfg rcfg (hk : hooks ustate) shk g g' :
  rec_le scfg = true -> fcfg_sound fcfg = true -> insens_guard rcfg = true ->
  pure_hooks ustate hk shk -> plain_grammar g ->
  Forall2 (grel g) g g' -> fields_ok g fcfg ->
  forall f rule_name cs u, all_scalar cs ->
    same_outcome
      (fst (m_parse ustate scfg term_cfg_expected fcfg rcfg hk g f rule_name (encode_str cs) u))
      (fst (m_parse ustate scfg term_cfg_expected fcfg rcfg hk g' f rule_name (encode_str cs) u)).
Proof.
  intros Hle Hf Hg Hp Hplain R Hok f rule_name cs u Hs.
  pose proof (conform ustate scfg fcfg rcfg hk shk g Hle Hf Hg Hp Hplain f rule_name cs u Hs) as C1.
  pose proof (conform ustate scfg fcfg rcfg hk shk g' Hle Hf Hg Hp (grel_plain _ _ R Hplain) f rule_name cs u Hs) as C2.
  rewrite <- (subst_spec g g' R fcfg shk (insens_guard rcfg) Hok f rule_name cs) in C2.
  destruct (fst (m_parse ustate scfg term_cfg_expected fcfg rcfg hk g f rule_name (encode_str cs) u)) as [v st|e|p|];
  destruct (fst (m_parse ustate scfg term_cfg_expected fcfg rcfg hk g' f rule_name (encode_str cs) u)) as [v' st'|e'|p'|];
  cbn in C1, C2 |- *; try exact C1; try exact C2; try exact I.
  - destruct C1 as (c1 & r1 & l1 & E1 & A1 & B1 & D1). destruct C2 as (c2 & r2 & l2 & E2 & A2 & B2 & D2).
    rewrite E1 in E2. injection E2 as Ev Er Eo _. rewrite D1, D2, Er. auto.
  - destruct C1 as (c1 & r1 & l1 & E1 & _). destruct C2 as (l2 & E2 & _). congruence.
  - destruct C1 as (c1 & r1 & l1 & E1 & _). congruence.
  - destruct C1 as (l1 & E1 & _). destruct C2 as (c2 & r2 & l2 & E2 & _). congruence.
  - destruct C1 as (l1 & E1 & F1). destruct C2 as (l2 & E2 & F2). rewrite E1 in E2. injection E2 as ->. congruence.
  - destruct C1 as (l1 & E1 & _). congruence.
  - destruct C2 as (c2 & r2 & l2 & E2 & _). congruence.
  - destruct C2 as (l2 & E2 & _). congruence.
Qed.
