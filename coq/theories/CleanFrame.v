(* The part of a grammar that reaches no @memoize / @leftrec rule never touches the cache, and its
   results do not depend on the cache, on what the tracer and the ghost logs hold, or on the
   furthest-error bookkeeping of the state it starts from.

   `clean : name -> bool` marks a set of rule names closed under reference: every clean normal rule
   is unmarked and its body refers (fields, includes, @char alternatives, the whitespace skipper) to
   clean names only.  For every expression over clean names, every fuel, stateful hooks: two runs
   from states at the same input position (the recorded furthest errors may differ) and globals with
   the same user state (cache, callback list, ghost logs may differ) return the same value at the same
   position - or both fail, both panic at the same site, both run out of fuel -, leave the same user
   state, and leave each cache exactly as it was. *)
From Coq Require Import Lia.
From PegV Require Import Utf8 Utf8Facts State Terminals Syntax Fields Literals Model.

Section Clean.
Variable ustate : Type.
Variable scfg : state_cfg.
Variable tcfg : term_cfg.
Variable fcfg : fields_cfg.
Variable rcfg : rule_cfg.
Variable hk : hooks ustate.
Variable g : grammar.
Notation glb := (glob ustate).

Variable clean : name -> bool.

Fixpoint eclean (e : expr) : bool :=
  match e with
  | EChoice l => (fix go (l : list expr) := match l with [] => true | x :: r => eclean x && go r end) l
  | ESeq l => (fix go (l : list expr) := match l with [] => true | x :: r => eclean x && go r end) l
  | EGroup b | EOptional b | EClosure b _ | ENeg b | EPos b => eclean b
  | ERange _ _ | ELit _ _ | EEoi => true
  | EInclude n => clean n
  | EField _ _ typ => clean typ
  end.

Definition lclean (l : list expr) : bool :=
  (fix go (l : list expr) := match l with [] => true | x :: r => eclean x && go r end) l.

Lemma lclean_cons x r : lclean (x :: r) = eclean x && lclean r.
Proof. reflexivity. Qed.
Lemma eclean_choice l : eclean (EChoice l) = lclean l. Proof. reflexivity. Qed.
Lemma eclean_seq l : eclean (ESeq l) = lclean l. Proof. reflexivity. Qed.

Definition cp_clean (p : char_part) : bool := match p with CPIdent n => clean n | _ => true end.

Definition rule_clean (n : name) : Prop :=
  match find_grule g n with
  | Some (GRule r) =>
    fl_left_recursive (flags_of (r_directives r)) = false /\
    fl_memoize (flags_of (r_directives r)) = false /\
    eclean (r_def r) = true
  | Some (GChar r) => forallb cp_clean (cr_choices r) = true
  | _ => True
  end.

Hypothesis Hclean : forall n, clean n = true -> rule_clean n.
Hypothesis Hinc : forall n r, clean n = true -> find_rule g n = Some r -> eclean (r_def r) = true.
Hypothesis Hws : clean n_Whitespace = true.

(* same position *)
Definition Rst (s s' : pstate) : Prop := rest s = rest s' /\ off s = off s'.
Lemma Rst_refl s : Rst s s. Proof. split; reflexivity. Qed.
Lemma Rst_record s s' e e' : Rst s s' -> Rst (record_error scfg s e) (record_error scfg s' e').
Proof.
  intros [A B]. unfold record_error.
  destruct (far s) as [f|]; destruct (far s') as [f'|];
    repeat match goal with |- context [if ?c then _ else _] => destruct c end; split; cbn; assumption.
Qed.
Lemma Rst_record_l s e : Rst (record_error scfg s e) s.
Proof.
  unfold record_error. destruct (far s) as [f|];
    repeat match goal with |- context [if ?c then _ else _] => destruct c end; split; reflexivity.
Qed.
Lemma Rst_trans a b c : Rst a b -> Rst b c -> Rst a c.
Proof. intros [A B] [C D]. split; congruence. Qed.
Lemma Rst_sym a b : Rst a b -> Rst b a.
Proof. intros [A B]. split; congruence. Qed.

(* same user state *)
Definition Ru (a b : glb) : Prop := g_user a = g_user b.

Definition Rres {A} (x y : mres A) : Prop :=
  match x, y with
  | MOk v s, MOk v' s' => v = v' /\ Rst s s'
  | MErr _, MErr _ => True
  | MPanic p, MPanic p' => p = p'
  | MFuel, MFuel => True
  | _, _ => False
  end.

Definition Req {A} (a b : glb) (x y : R ustate A) : Prop :=
  Rres (fst x) (fst y) /\ Ru (snd x) (snd y) /\ g_cache (snd x) = g_cache a /\ g_cache (snd y) = g_cache b.

Lemma Req_chain {A} a b a1 b1 (x y : R ustate A) :
  g_cache a1 = g_cache a -> g_cache b1 = g_cache b -> Req a1 b1 x y -> Req a b x y.
Proof. intros Ca Cb [E [U [C1 C2]]]. repeat split; try assumption; congruence. Qed.

Lemma F_ret {A} a b (r r' : mres A) a1 b1 :
  Rres r r' -> Ru a1 b1 -> g_cache a1 = g_cache a -> g_cache b1 = g_cache b -> Req a b (r, a1) (r', b1).
Proof. intros. repeat split; assumption. Qed.

Ltac pair X Y HXY :=
  let E := fresh "E" in let U := fresh "U" in let Ca := fresh "Ca" in let Cb := fresh "Cb" in
  destruct HXY as [E [U [Ca Cb]]];
  destruct X as [[?v ?s|?e|?p|] ?ga]; destruct Y as [[?v' ?s'|?e'|?p'|] ?gb];
  cbn [fst snd] in E, U, Ca, Cb; cbn [Rres] in E; try contradiction;
  try (match type of E with _ /\ _ => destruct E as [? E]; subst end);
  try (match type of E with _ = _ => subst end).

(* ---- terminals ------------------------------------------------------------------------------- *)
Definition trel {A} (x y : tres A) : Prop :=
  match x, y with
  | TOk v s, TOk v' s' => v = v' /\ Rst s s'
  | TErr _, TErr _ => True
  | TPanic, TPanic => True
  | TSplit, TSplit => True
  | _, _ => False
  end.

Ltac tsolve :=
  cbn [trel]; repeat split;
  repeat match goal with
         | |- context [if ?c then _ else _] => destruct c
         | |- context [match ?x with _ => _ end] => destruct x
         end; cbn [trel]; repeat split; auto.

Lemma T_adv {A} r o f f' n (v : A) :
  trel (adv_then {| rest := r; off := o; far := f |} n v) (adv_then {| rest := r; off := o; far := f' |} n v).
Proof.
  unfold adv_then, advance. cbn [rest off far].
  destruct (Nat.ltb (length r) n); [exact I|]. destruct (is_boundary r n); [|exact I].
  cbn. repeat split.
Qed.

Lemma T_char s s' : Rst s s' -> trel (parse_char scfg s) (parse_char scfg s').
Proof.
  destruct s as [r o f], s' as [r' o' f']. intros [A B]. cbn in A, B. subst r' o'.
  unfold parse_char. cbn [rest]. destruct r as [|x r]; [exact I|].
  destruct (decode1 (x :: r)) as [[c n]|]; [apply T_adv|exact I].
Qed.

Lemma T_wsl bs : forall o f f', trel (ws_loop bs o f) (ws_loop bs o f').
Proof.
  induction bs as [|x r IH]; intros o f f'; cbn [ws_loop]; [cbn; repeat split|].
  destruct (is_ascii_ws x); [|cbn; repeat split].
  unfold advance. cbn [rest off far].
  destruct (Nat.ltb (length (x :: r)) 1); [exact I|]. destruct (is_boundary (x :: r) 1); [apply IH|exact I].
Qed.

Lemma T_ws s s' : Rst s s' -> trel (parse_Whitespace s) (parse_Whitespace s').
Proof.
  destruct s as [r o f], s' as [r' o' f']. intros [A B]. cbn in A, B. subst r' o'.
  unfold parse_Whitespace. cbn [rest off far]. apply T_wsl.
Qed.

Lemma T_eoi s s' : Rst s s' -> trel (parse_end_of_input scfg s) (parse_end_of_input scfg s').
Proof.
  destruct s as [r o f], s' as [r' o' f']. intros [A B]. cbn in A, B. subst r' o'.
  unfold parse_end_of_input. cbn [rest]. destruct r; cbn; repeat split.
Qed.

Lemma T_lit s s' x : Rst s s' -> trel (parse_string_literal scfg s x) (parse_string_literal scfg s' x).
Proof.
  destruct s as [r o f], s' as [r' o' f']. intros [A B]. cbn in A, B. subst r' o'.
  unfold parse_string_literal. cbn [rest]. destruct (starts_with x r); [apply T_adv|exact I].
Qed.

Lemma T_clit s s' c : Rst s s' -> trel (parse_character_literal scfg tcfg s c) (parse_character_literal scfg tcfg s' c).
Proof.
  destruct s as [r o f], s' as [r' o' f']. intros [A B]. cbn in A, B. subst r' o'.
  unfold parse_character_literal. cbn [rest].
  destruct (if lit_fast_is_ascii tcfg then is_ascii c else true).
  - destruct r as [|x r]; [exact I|]. destruct (negb (N.eqb x (as_u8 c))); [exact I|apply T_adv].
  - destruct (negb (starts_with (encode c) r)); [exact I|apply T_adv].
Qed.

Lemma T_range s s' x y : Rst s s' -> trel (parse_character_range scfg tcfg s x y) (parse_character_range scfg tcfg s' x y).
Proof.
  destruct s as [r o f], s' as [r' o' f']. intros [A B]. cbn in A, B. subst r' o'.
  unfold parse_character_range. cbn [rest].
  destruct (if range_fast_both_ascii tcfg then is_ascii x && is_ascii y else is_ascii x).
  - destruct r as [|z r]; [exact I|]. destruct (N.ltb z (as_u8 x) || N.ltb (as_u8 y) z); [exact I|apply T_adv].
  - destruct r as [|z r]; [exact I|]. destruct (decode1 (z :: r)) as [[c n]|]; [|exact I].
    destruct (N.ltb c x || N.ltb y c); [exact I|apply T_adv].
Qed.

Lemma T_ilit s s' x : Rst s s' ->
  trel (parse_string_literal_insensitive scfg tcfg s x) (parse_string_literal_insensitive scfg tcfg s' x).
Proof.
  destruct s as [r o f], s' as [r' o' f']. intros [A B]. cbn in A, B. subst r' o'.
  unfold parse_string_literal_insensitive. cbn [rest]. destruct (ieq tcfg x r); [apply T_adv|exact I].
Qed.

Lemma T_iclit s s' c : Rst s s' ->
  trel (parse_character_literal_insensitive scfg tcfg s c) (parse_character_literal_insensitive scfg tcfg s' c).
Proof.
  destruct s as [r o f], s' as [r' o' f']. intros [A B]. cbn in A, B. subst r' o'.
  unfold parse_character_literal_insensitive. cbn [rest].
  destruct r as [|x r]; [exact I|]. destruct (negb (N.eqb (lower_in tcfg x) (as_u8 c))); [exact I|apply T_adv].
Qed.

Lemma F_lift {X Y} (f : X -> Y) sp st st' (r r' : tres X) a b :
  trel r r' -> Ru a b -> Req a b (lift_t ustate f sp st r a) (lift_t ustate f sp st' r' b).
Proof.
  intros T U. destruct r as [v s|e| |]; destruct r' as [v' s'|e'| |]; cbn [trel] in T; try contradiction; cbn [lift_t].
  - destruct T as [-> T]. apply F_ret; [split; [reflexivity|exact T]|exact U|reflexivity|reflexivity].
  - apply F_ret; [exact I|exact U|reflexivity|reflexivity].
  - apply F_ret; [reflexivity|exact U|reflexivity|reflexivity].
  - apply F_ret; [reflexivity|exact U|reflexivity|reflexivity].
Qed.

Lemma F_fail {A} st st' sp a b : Ru a b -> @Req A a b (fail_at ustate scfg st sp a) (fail_at ustate scfg st' sp b).
Proof. intro U. unfold fail_at. apply F_ret; [exact I|exact U|reflexivity|reflexivity]. Qed.

(* ---- the walk ---------------------------------------------------------------------------------- *)
Definition Cev (ev : evals ustate) : Prop :=
  (forall ctx e st st' a b, eclean e = true -> Rst st st' -> Ru a b ->
     Req a b (ev_expr ev ctx e st a) (ev_expr ev ctx e st' b)) /\
  (forall n st st' a b, clean n = true -> Rst st st' -> Ru a b ->
     Req a b (ev_rule ev n st a) (ev_rule ev n st' b)) /\
  (forall ctx e plus st st' it acc a b, eclean e = true -> Rst st st' -> Ru a b ->
     Req a b (ev_loop ev ctx e plus st it acc a) (ev_loop ev ctx e plus st' it acc b)).

Section Step.
Variable ev : evals ustate.
Hypothesis H : Cev ev.
Let He := proj1 H.
Let Hr := proj1 (proj2 H).
Let Hl := proj2 (proj2 H).

Lemma F_with_ws {X} ctx st st' a b (k : pstate -> glb -> R ustate X) :
  Rst st st' -> Ru a b ->
  (forall s s' x y, Rst s s' -> Ru x y -> Req x y (k s x) (k s' y)) ->
  Req a b (with_ws ustate ev ctx st a k) (with_ws ustate ev ctx st' b k).
Proof.
  intros S U Hk. unfold with_ws. destruct (c_skip ctx); [|apply Hk; assumption].
  pose proof (Hr n_Whitespace st st' a b Hws S U) as P.
  pair (ev_rule ev n_Whitespace st a) (ev_rule ev n_Whitespace st' b) P;
    try (apply F_ret; [first [exact I|reflexivity]|assumption|assumption|assumption]).
  eapply Req_chain; [exact Ca|exact Cb|]. apply Hk; assumption.
Qed.

Lemma F_no_fields {X} a b (x y : R ustate X) : Req a b x y -> Req a b (no_fields ustate x) (no_fields ustate y).
Proof.
  intro P. pair x y P; cbn [no_fields]; apply F_ret; try assumption; try exact I; try reflexivity.
  split; [reflexivity|assumption].
Qed.

Lemma F_run_lit m st st' a b : Rst st st' -> Ru a b ->
  Req a b (run_lit ustate scfg tcfg m st a) (run_lit ustate scfg tcfg m st' b).
Proof.
  intros S U. destruct m; cbn [run_lit]; apply F_lift; try exact U.
  - apply T_clit; exact S. - apply T_lit; exact S. - apply T_iclit; exact S. - apply T_ilit; exact S.
Qed.

Lemma F_choice_loop ctx fds alts : lclean alts = true -> forall cst cst' a b, Rst cst cst' -> Ru a b ->
  Req a b (choice_loop ustate scfg fcfg g ev ctx fds alts cst a) (choice_loop ustate scfg fcfg g ev ctx fds alts cst' b).
Proof.
  induction alts as [|x alts IH]; intros L cst cst' a b S U; cbn [choice_loop].
  - apply F_ret; [exact I|exact U|reflexivity|reflexivity].
  - rewrite lclean_cons in L. apply andb_prop in L. destruct L as [Lx La].
    pose proof (He ctx x cst cst' a b Lx S U) as P.
    pair (ev_expr ev ctx x cst a) (ev_expr ev ctx x cst' b) P;
      try (apply F_ret; [first [exact I|reflexivity]|assumption|assumption|assumption]).
    + destruct (own_fields fcfg g x) as [inner|]; [|apply F_ret; [reflexivity|assumption|assumption|assumption]].
      destruct (convert_arm fds inner v');
        apply F_ret; try assumption; try reflexivity. split; [reflexivity|assumption].
    + eapply Req_chain; [exact Ca|exact Cb|]. apply (IH La); [apply Rst_record; exact S|exact U0].
Qed.

Lemma F_seq_loop ctx fds parts : lclean parts = true -> forall st st' acc a b, Rst st st' -> Ru a b ->
  Req a b (seq_loop ustate ev ctx fds parts st acc a) (seq_loop ustate ev ctx fds parts st' acc b).
Proof.
  induction parts as [|x ps IH]; intros L st st' acc a b S U; cbn [seq_loop].
  - destruct (order_as fds acc); apply F_ret; try exact U; try reflexivity. split; [reflexivity|exact S].
  - rewrite lclean_cons in L. apply andb_prop in L. destruct L as [Lx Lp].
    pose proof (He ctx x st st' a b Lx S U) as P.
    pair (ev_expr ev ctx x st a) (ev_expr ev ctx x st' b) P;
      try (apply F_ret; [first [exact I|reflexivity]|assumption|assumption|assumption]).
    destruct (seq_merge_vals acc v'); [|apply F_ret; [reflexivity|assumption|assumption|assumption]].
    eapply Req_chain; [exact Ca|exact Cb|]. apply (IH Lp); assumption.
Qed.

Theorem F_expr ctx e st st' a b : eclean e = true -> Rst st st' -> Ru a b ->
  Req a b (expr_step ustate scfg tcfg fcfg rcfg g ev ctx e st a) (expr_step ustate scfg tcfg fcfg rcfg g ev ctx e st' b).
Proof.
  intros L S U. destruct e; cbn [expr_step].
  - (* choice *)
    rewrite eclean_choice in L.
    destruct alts as [|x [|y r]].
    + apply F_ret; [reflexivity|exact U|reflexivity|reflexivity].
    + rewrite lclean_cons in L. apply andb_prop in L. apply He; [exact (proj1 L)|exact S|exact U].
    + destruct (filt fcfg g ctx (EChoice (x :: y :: r))); [apply F_choice_loop; assumption|].
      apply F_ret; [reflexivity|exact U|reflexivity|reflexivity].
  - (* sequence *)
    rewrite eclean_seq in L.
    destruct parts as [|x [|y r]].
    + apply F_ret; [split; [reflexivity|exact S]|exact U|reflexivity|reflexivity].
    + rewrite lclean_cons in L. apply andb_prop in L. apply He; [exact (proj1 L)|exact S|exact U].
    + destruct (filt fcfg g ctx (ESeq (x :: y :: r))); [apply F_seq_loop; assumption|].
      apply F_ret; [reflexivity|exact U|reflexivity|reflexivity].
  - (* group *) apply He; assumption.
  - (* optional *)
    cbn [eclean] in L. pose proof (He ctx e st st' a b L S U) as P.
    pair (ev_expr ev ctx e st a) (ev_expr ev ctx e st' b) P;
      try (apply F_ret; [first [exact I|reflexivity]|assumption|assumption|assumption]).
    + apply F_ret; try assumption. split; [reflexivity|assumption].
    + destruct (filt fcfg g ctx e) as [fds|]; [|apply F_ret; [reflexivity|assumption|assumption|assumption]].
      destruct (defaults fds); apply F_ret; try assumption; try reflexivity.
      split; [reflexivity|apply Rst_record; exact S].
  - (* closure *)
    cbn [eclean] in L.
    destruct (filt fcfg g ctx e) as [fds|]; [apply Hl; assumption|apply F_ret; [reflexivity|exact U|reflexivity|reflexivity]].
  - (* negative lookahead *)
    cbn [eclean] in L. pose proof (He ctx e st st' a b L S U) as P.
    pair (ev_expr ev ctx e st a) (ev_expr ev ctx e st' b) P;
      try (apply F_ret; [first [exact I|reflexivity]|assumption|assumption|assumption]).
    all: try (eapply Req_chain; [exact Ca|exact Cb|]; apply F_fail; assumption).
    all: apply F_ret; try assumption; split; [reflexivity|exact S].
  - (* positive lookahead *)
    cbn [eclean] in L. pose proof (He ctx e st st' a b L S U) as P.
    pair (ev_expr ev ctx e st a) (ev_expr ev ctx e st' b) P;
      try (apply F_ret; [first [exact I|reflexivity]|assumption|assumption|assumption]).
    apply F_ret; try assumption. split; [reflexivity|exact S].
  - (* range *)
    destruct (compile_range from to); try (apply F_ret; [reflexivity|exact U|reflexivity|reflexivity]).
    apply F_no_fields. apply F_with_ws; [exact S|exact U|]. intros s s' x y Sxy Uxy.
    apply F_lift; [apply T_range; exact Sxy|exact Uxy].
  - (* literal *)
    destruct (compile_lit (insens_guard rcfg) insensitive body); try (apply F_ret; [reflexivity|exact U|reflexivity|reflexivity]).
    apply F_no_fields. apply F_with_ws; [exact S|exact U|]. intros s s' x y Sxy Uxy. apply F_run_lit; assumption.
  - (* end of input *)
    apply F_no_fields. apply F_with_ws; [exact S|exact U|]. intros s s' x y Sxy Uxy.
    apply F_lift; [apply T_eoi; exact Sxy|exact Uxy].
  - (* include *)
    cbn [eclean] in L. destruct (find_rule g rule) as [r|] eqn:Fr.
    + apply He; [exact (Hinc rule r L Fr)|exact S|exact U].
    + apply F_ret; [reflexivity|exact U|reflexivity|reflexivity].
  - (* field / rule reference *)
    cbn [eclean] in L.
    assert (P : Req a b (with_ws ustate ev ctx st a (fun st gl => ev_rule ev typ st gl))
                        (with_ws ustate ev ctx st' b (fun st gl => ev_rule ev typ st gl))).
    { apply F_with_ws; [exact S|exact U|]. intros s s' x y Sxy Uxy. apply Hr; assumption. }
    destruct (fname_of fname) as [n|]; [|apply F_no_fields; exact P].
    pair (with_ws ustate ev ctx st a (fun st gl => ev_rule ev typ st gl))
         (with_ws ustate ev ctx st' b (fun st gl => ev_rule ev typ st gl)) P;
      try (apply F_ret; [first [exact I|reflexivity]|assumption|assumption|assumption]).
    destruct (postprocess (c_fields ctx) n typ v'); apply F_ret; try assumption; try reflexivity.
    split; [reflexivity|assumption].
Qed.

Theorem F_loop ctx e plus st st' it acc a b : eclean e = true -> Rst st st' -> Ru a b ->
  Req a b (loop_step ustate scfg ev ctx e plus st it acc a) (loop_step ustate scfg ev ctx e plus st' it acc b).
Proof.
  intros L S U. unfold loop_step. pose proof (He ctx e st st' a b L S U) as P.
  pair (ev_expr ev ctx e st a) (ev_expr ev ctx e st' b) P;
    try (apply F_ret; [first [exact I|reflexivity]|assumption|assumption|assumption]).
  - destruct (extend_all acc v'); [|apply F_ret; [reflexivity|assumption|assumption|assumption]].
    eapply Req_chain; [exact Ca|exact Cb|]. apply Hl; assumption.
  - destruct (plus && Nat.eqb it 0); apply F_ret; try assumption; try exact I.
    split; [reflexivity|apply Rst_record; exact S].
Qed.

Lemma F_run_checks cs v : forall st st' a b, Rst st st' -> Ru a b ->
  Req a b (run_checks ustate scfg hk cs v st a) (run_checks ustate scfg hk cs v st' b).
Proof.
  induction cs as [|f cs IH]; intros st st' a b S U; cbn [run_checks].
  - apply F_ret; [split; [reflexivity|exact S]|exact U|reflexivity|reflexivity].
  - unfold Ru in U. rewrite U. destruct (h_check hk f v (g_user b)) as [ok u].
    assert (U' : Ru (set_user ustate u a) (set_user ustate u b)) by reflexivity.
    destruct ok.
    + eapply Req_chain; [| |apply IH; [exact S|exact U']]; reflexivity.
    + eapply Req_chain; [| |apply F_fail; exact U']; reflexivity.
Qed.

Lemma slice_rel st st' s s' : Rst st st' -> Rst s s' -> slice_until st s = slice_until st' s'.
Proof. intros [A B] [C D]. unfold slice_until. congruence. Qed.
Lemma range_rel st st' s s' : Rst st st' -> Rst s s' -> range_until st s = range_until st' s'.
Proof. intros [A B] [C D]. unfold range_until. congruence. Qed.

Theorem F_rule_body r st st' a b : eclean (r_def r) = true -> Rst st st' -> Ru a b ->
  Req a b (rule_body ustate scfg fcfg hk g ev r st a) (rule_body ustate scfg fcfg hk g ev r st' b).
Proof.
  intros L S U. unfold rule_body.
  destruct (get_fields fcfg (gf_fuel g) g (r_def r)) as [rf| |]; try (apply F_ret; [reflexivity|exact U|reflexivity|reflexivity]).
  set (ctx := {| c_skip := negb (fl_no_skip_ws (flags_of (r_directives r))); c_fields := rf |}).
  pose proof (He ctx (r_def r) st st' a b L S U) as P.
  pair (ev_expr ev ctx (r_def r) st a) (ev_expr ev ctx (r_def r) st' b) P;
    try (apply F_ret; [first [exact I|reflexivity]|assumption|assumption|assumption]).
  rewrite (slice_rel st st' s s' S E), (range_rel st st' s s' S E).
  match goal with |- Req _ _ (match ?o with _ => _ end) _ => destruct o as [w|] end;
    [|apply F_ret; [reflexivity|assumption|assumption|assumption]].
  eapply Req_chain; [exact Ca|exact Cb|]. apply F_run_checks; assumption.
Qed.

Lemma F_char_parts nm ps : forallb cp_clean ps = true -> forall st st' a b, Rst st st' -> Ru a b ->
  Req a b (char_parts ustate scfg tcfg ev nm ps st a) (char_parts ustate scfg tcfg ev nm ps st' b).
Proof.
  induction ps as [|pt ps IH]; intros L st st' a b S U; cbn [char_parts]; [apply F_fail; exact U|].
  cbn [forallb] in L. apply andb_prop in L. destruct L as [Lp Lr].
  destruct pt as [i|x y|n].
  - destruct (decode_item i); try (apply F_ret; [reflexivity|exact U|reflexivity|reflexivity]).
    pose proof (T_clit st st' a0 S) as T.
    destruct (parse_character_literal scfg tcfg st a0) as [v s|e| |];
      destruct (parse_character_literal scfg tcfg st' a0) as [v' s'|e'| |]; cbn [trel] in T; try contradiction.
    + destruct T as [-> T]. apply F_ret; [split; [reflexivity|exact T]|exact U|reflexivity|reflexivity].
    + apply (IH Lr); assumption.
    + apply F_ret; [reflexivity|exact U|reflexivity|reflexivity].
    + apply F_ret; [reflexivity|exact U|reflexivity|reflexivity].
  - destruct (compile_range x y); try (apply F_ret; [reflexivity|exact U|reflexivity|reflexivity]).
    pose proof (T_range st st' a0 b0 S) as T.
    destruct (parse_character_range scfg tcfg st a0 b0) as [v s|e| |];
      destruct (parse_character_range scfg tcfg st' a0 b0) as [v' s'|e'| |]; cbn [trel] in T; try contradiction.
    + destruct T as [-> T]. apply F_ret; [split; [reflexivity|exact T]|exact U|reflexivity|reflexivity].
    + apply (IH Lr); assumption.
    + apply F_ret; [reflexivity|exact U|reflexivity|reflexivity].
    + apply F_ret; [reflexivity|exact U|reflexivity|reflexivity].
  - cbn [cp_clean] in Lp. pose proof (Hr n st st' a b Lp S U) as P.
    pair (ev_rule ev n st a) (ev_rule ev n st' b) P;
      try (apply F_ret; [first [exact I|reflexivity]|assumption|assumption|assumption]).
    + apply F_ret; try assumption. split; [reflexivity|assumption].
    + eapply Req_chain; [exact Ca|exact Cb|]. apply (IH Lr); assumption.
Qed.

Lemma F_char_rule r st st' a b : forallb cp_clean (cr_choices r) = true -> Rst st st' -> Ru a b ->
  Req a b (char_rule_body ustate scfg tcfg hk ev r st a) (char_rule_body ustate scfg tcfg hk ev r st' b).
Proof.
  intros L S U. unfold char_rule_body. pose proof (F_char_parts (cr_name r) (cr_choices r) L st st' a b S U) as P.
  destruct (cr_checks r) as [|c cs]; [exact P|].
  destruct S as [S1 S2]. rewrite <- S1.
  destruct (rest st); [apply F_fail; exact U|].
  destruct (decode1 (n :: b0)) as [[ch k]|]; [|apply F_ret; [reflexivity|exact U|reflexivity|reflexivity]].
  destruct (char_checks ustate hk (cr_name r) (c :: cs) ch); [exact P|apply F_fail; exact U].
Qed.

Lemma F_extern r st st' a b : Rst st st' -> Ru a b ->
  Req a b (extern_rule_body ustate scfg hk r st a) (extern_rule_body ustate scfg hk r st' b).
Proof.
  intros S U. unfold extern_rule_body. unfold Ru in U. rewrite U. destruct S as [S1 S2]. rewrite <- S1.
  destruct (h_extern hk (er_function r) (rest st) (g_user b)) as [res u].
  assert (U' : Ru (set_user ustate u a) (set_user ustate u b)) by reflexivity.
  destruct res as [[v k]|msg]; [|eapply Req_chain; [| |apply F_fail; exact U']; reflexivity].
  unfold advance_safe, advance. rewrite <- S1, <- S2.
  destruct (Nat.ltb (length (rest st)) k); [apply F_ret; [reflexivity|exact U'|reflexivity|reflexivity]|].
  destruct (is_boundary (rest st) k); apply F_ret; try exact U'; try reflexivity.
  split; [reflexivity|split; reflexivity].
Qed.

Theorem F_rule n st st' a b : clean n = true -> Rst st st' -> Ru a b ->
  Req a b (rule_step ustate scfg tcfg fcfg rcfg hk g ev n st a) (rule_step ustate scfg tcfg fcfg rcfg hk g ev n st' b).
Proof.
  intros L S U. unfold rule_step. pose proof (Hclean n L) as Hc. unfold rule_clean in Hc.
  destruct (find_grule g n) as [[r|r|r]|].
  - destruct Hc as [H1 [H2 H3]]. unfold memo_wrap. rewrite H1, H2.
    destruct S as [S1 S2]. rewrite <- S2.
    assert (U' : Ru (trace ustate (TStart (r_name r) (off st)) a) (trace ustate (TStart (r_name r) (off st)) b)) by exact U.
    pose proof (F_rule_body r st st' _ _ H3 (conj S1 S2) U') as P.
    pair (rule_body ustate scfg fcfg hk g ev r st (trace ustate (TStart (r_name r) (off st)) a))
         (rule_body ustate scfg fcfg hk g ev r st' (trace ustate (TStart (r_name r) (off st)) b)) P;
      apply F_ret; try assumption; try exact I; try reflexivity.
    split; [reflexivity|assumption].
  - apply F_char_rule; assumption.
  - apply F_extern; assumption.
  - destruct (name_eqb n n_char); [apply F_lift; [apply T_char; exact S|exact U]|].
    destruct (name_eqb n n_Whitespace); [apply F_lift; [apply T_ws; exact S|exact U]|].
    apply F_ret; [reflexivity|exact U|reflexivity|reflexivity].
Qed.

End Step.

Theorem clean_frame n : Cev (run ustate scfg tcfg fcfg rcfg hk g n).
Proof.
  induction n as [|n IH].
  - split; [|split]; intros; cbn; apply F_ret; try exact I; try assumption; reflexivity.
  - split; [|split]; intros; cbn [run step ev_expr ev_rule ev_loop].
    + apply F_expr; assumption.
    + apply F_rule; assumption.
    + apply F_loop; assumption.
Qed.

(* a clean rule leaves the cache exactly as it found it: only @memoize / @leftrec rules write it *)
Corollary clean_cache_untouched n nm st gl :
  clean nm = true ->
  g_cache (snd (ev_rule (run ustate scfg tcfg fcfg rcfg hk g n) nm st gl)) = g_cache gl.
Proof.
  intro L. destruct (clean_frame n) as [_ [Hr _]].
  exact (proj1 (proj2 (proj2 (Hr nm st st gl gl L (Rst_refl st) eq_refl)))).
Qed.

(* ... and its result does not depend on the cache it is started with *)
Corollary clean_ignores_cache n nm st (a b : glb) :
  clean nm = true -> g_user a = g_user b ->
  Rres (fst (ev_rule (run ustate scfg tcfg fcfg rcfg hk g n) nm st a))
       (fst (ev_rule (run ustate scfg tcfg fcfg rcfg hk g n) nm st b)).
Proof.
  intros L U. destruct (clean_frame n) as [_ [Hr _]].
  exact (proj1 (Hr nm st st a b L (Rst_refl st) U)).
Qed.

End Clean.
