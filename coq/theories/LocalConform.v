(* Consequences of locality (Local.v).

   1. The clean part of every grammar conforms to the specification: the clean part of g is the clean
      part of the plain grammar `unmark g`, to which the simulation for plain grammars applies.
   2. @memoize is transparent beside @leftrec: in a grammar with @leftrec rules, for every rule from which
      no @leftrec rule is reachable (memoized rules allowed), the parse with the @memoize markers and the
      parse without them have the same outcome - MemoEq.memoize_transparent, which speaks about grammars
      without any @leftrec rule, transported through `unmark_lr`. *)
From PegV Require Import Utf8 Utf8Facts State Terminals Syntax Fields FieldsFacts GetFieldsFacts
  Literals Model Spec Sim Conform ConformX Extracted CleanFrame Local MemoEq.

Lemma unmark_is_plain g : plain_grammar (unmark g).
Proof. intros r Hin. exact (unmark_plain g r Hin). Qed.

Lemma rule_clean_b g clean n : rule_clean g clean n -> rule_cleanb g true clean n.
Proof.
  unfold rule_clean, rule_cleanb. destruct (find_grule g n) as [[r|r|r]|]; auto.
  intros [H1 [H2 H3]]. split; [exact H1|]. split; [intros _; exact H2|exact H3].
Qed.

Theorem clean_conforms :
  forall (ustate : Type) (hk : hooks ustate) (shk : shooks) (g : grammar) (clean : name -> bool),
    pure_hooks ustate hk shk ->
    (forall n, clean n = true -> rule_clean g clean n) ->
    (forall n r, clean n = true -> find_rule g n = Some r -> eclean clean (r_def r) = true) ->
    clean n_Whitespace = true ->
    forall fuel rule_name cs u, clean rule_name = true -> all_scalar cs ->
      conforms cs
        (fst (m_parse ustate Extracted.scfg Extracted.tcfg Extracted.fcfg Extracted.rcfg hk g
                      fuel rule_name (encode_str cs) u))
        (s_parse Extracted.fcfg shk (unmark g) true fuel rule_name cs).
Proof.
  intros ustate hk shk g clean Hp Hc Hi Hw fuel rule_name cs u L Hs.
  rewrite (clean_parse_unmarked ustate Extracted.scfg Extracted.tcfg Extracted.fcfg Extracted.rcfg hk g true clean
             (fun n H => rule_clean_b g clean n (Hc n H)) Hi Hw fuel rule_name (encode_str cs) u L).
  exact (conform_x ustate hk shk (unmark g) Hp (unmark_is_plain g) fuel rule_name cs u Hs).
Qed.

(* ---- @memoize beside @leftrec ---------------------------------------------------------------------- *)
(* a set of names closed under reference that contains no @leftrec rule (memoized rules allowed) *)
Definition no_leftrec_reachable (g : grammar) (nolr : name -> bool) : Prop :=
  (forall n, nolr n = true -> rule_cleanb g false nolr n) /\
  (forall n r, nolr n = true -> find_rule g n = Some r -> eclean nolr (r_def r) = true) /\
  nolr n_Whitespace = true.

Lemma filter_comm {A} (p q : A -> bool) l : filter p (filter q l) = filter q (filter p l).
Proof.
  induction l as [|x l IH]; [reflexivity|]. cbn. destruct (q x) eqn:Q; destruct (p x) eqn:P; cbn; rewrite ?P, ?Q, IH; reflexivity.
Qed.

Lemma strip_unmark_lr g : strip (unmark_lr g) = unmark_lr (strip g).
Proof.
  unfold strip, unmarkb. rewrite !map_map. apply map_ext. intros [r|c|e]; try reflexivity.
  cbn. unfold strip_rule, unmark_rule. cbn. f_equal. f_equal. apply filter_comm.
Qed.

Lemma unmark_lr_no_leftrec g r : In (GRule r) (unmark_lr g) -> fl_left_recursive (flags_of (r_directives r)) = false.
Proof.
  intro Hin. unfold unmarkb in Hin. apply in_map_iff in Hin. destruct Hin as [x [Hx Hin]].
  destruct x as [r0|c0|e0]; cbn in Hx; try discriminate. injection Hx as <-.
  destruct (flags_unmark false r0) as [_ [_ [_ [_ [F5 _]]]]]. exact F5.
Qed.

(* the closedness carries over to the grammar without @memoize markers *)
Lemma no_leftrec_strip g nolr : no_leftrec_reachable g nolr -> no_leftrec_reachable (strip g) nolr.
Proof.
  intros [H1 [H2 H3]]. split; [|split; [|exact H3]].
  - intros n L. specialize (H1 n L). unfold rule_cleanb in *. rewrite find_grule_strip.
    destruct (find_grule g n) as [[r|r|r]|]; cbn [option_map strip_grule]; auto.
    destruct H1 as [A [_ C]]. destruct (flags_strip r) as [_ [_ [_ [_ [F5 _]]]]]. cbn zeta in F5.
    split; [rewrite F5; exact A|]. split; [intro X; discriminate X|exact C].
  - intros n r L Fr. rewrite find_rule_strip in Fr. destruct (find_rule g n) as [r0|] eqn:E; [|discriminate].
    cbn in Fr. injection Fr as <-. cbn. exact (H2 n r0 L E).
Qed.

Theorem memoize_transparent_beside_leftrec :
  forall (ustate : Type) (scfg : state_cfg) (tcfg : term_cfg) (fcfg : fields_cfg) (rcfg : rule_cfg)
         (hk : hooks ustate) (g : grammar) (nolr : name -> bool) (input : bytes),
    no_leftrec_reachable g nolr ->
    (forall f v u u', fst (h_check hk f v u) = fst (h_check hk f v u')) ->
    (forall f bs u u', fst (h_extern hk f bs u) = fst (h_extern hk f bs u')) ->
    forall n m rule_name u u', nolr rule_name = true ->
      wres (fst (m_parse ustate scfg tcfg fcfg rcfg hk g n rule_name input u))
           (fst (m_parse ustate scfg tcfg fcfg rcfg hk (strip g) m rule_name input u')).
Proof.
  intros ustate scfg tcfg fcfg rcfg hk g nolr input N H2 H3 n m rule_name u u' L.
  destruct N as [N1 [N2 N3]].
  rewrite (clean_parse_unmarked ustate scfg tcfg fcfg rcfg hk g false nolr N1 N2 N3 n rule_name input u L).
  destruct (no_leftrec_strip g nolr (conj N1 (conj N2 N3))) as [S1 [S2 S3]].
  rewrite (clean_parse_unmarked ustate scfg tcfg fcfg rcfg hk (strip g) false nolr S1 S2 S3 m rule_name input u' L).
  rewrite <- strip_unmark_lr.
  exact (memoize_transparent ustate scfg tcfg fcfg rcfg hk (unmark_lr g) input (unmark_lr_no_leftrec g) H2 H3 n m rule_name u u').
Qed.
