(* Soundness of the arity lattice and of the type sets (C03): for every grammar, every expression and
   every input, the field-match events on the successful path of the
   specification S fit the descriptors Codegen::get_fields computes for that
   expression:
     - every event belongs to a declared field,
     - a field declared One has exactly one event, Optional at most one,
     - the rule type of every event is in the declared type set of its field
       (so a multi-type field's generated enum has a variant for it).
   Hence the "arity mismatch" stuck state of S (shape = None) is unreachable:
   the value of every rule match can be stored in the declared struct. *)
From Coq Require Import Lia.
From PegV Require Import Utf8 State TerminalsSpec Syntax Fields FieldsFacts GetFieldsFacts TypesFacts Literals Model Spec ShapeFacts.

Section Arity.
Variable c : fields_cfg.
Hypothesis Hc : fcfg_sound c = true.
Variable shk : shooks.
Variable g : grammar.
Variable guard : bool.
Notation Srun := (srun c shk g guard).

Definition count_ok (a : arity) (k : nat) : Prop :=
  match a with One => k = 1 | Optional => k <= 1 | Multiple => True end.

Lemma count_ok_ge a a' k : ge_arity a' a = true -> count_ok a k -> count_ok a' k.
Proof. destruct a, a'; cbn; intros; try discriminate; try lia; auto. Qed.

Lemma count_ok_zero a : ge_arity a Optional = true -> count_ok a 0.
Proof. destruct a; cbn; intros; try discriminate; try lia; auto. Qed.

Definition typed_in (own : list fdesc) (evs : list event) : Prop :=
  forall ev, In ev evs -> has_type (ev_typ ev) (types_of (ev_field ev) own) = true.

Definition fits (own : list fdesc) (evs : list event) : Prop :=
  (forall ev, In ev evs -> has_fd (ev_field ev) own = true) /\
  typed_in own evs /\
  (forall n a, arity_of n own = Some a -> count_ok a (length (mine n evs))).

Lemma fits_nil_nil : fits [] [].
Proof. split; [intros ev []|split; [intros ev []|intros n a H; discriminate]]. Qed.

Lemma mine_absent n own evs :
  (forall ev, In ev evs -> has_fd (ev_field ev) own = true) -> has_fd n own = false -> mine n evs = [].
Proof.
  intros H Hn. apply mine_none. apply Forall_forall. intros ev Hin.
  destruct (name_eqb (ev_field ev) n) eqn:E; [|reflexivity].
  apply name_eqb_eq in E. specialize (H ev Hin). rewrite E in H. congruence.
Qed.

Lemma arity_none_has n l : arity_of n l = None -> has_fd n l = false.
Proof. intro H. apply has_fd_false. exact H. Qed.

(* sequence: counts add up; a name in both halves is Multiple *)
Lemma fits_seq all new evs e1 :
  fits all evs -> fits new e1 -> fits (seq_merge c all new) (evs ++ e1).
Proof.
  intros [N1 [T1 C1]] [N2 [T2 C2]]. split; [|split].
  - intros ev Hin. rewrite (seq_merge_names c Hc). apply in_app_or in Hin. destruct Hin as [Hin|Hin].
    + rewrite (N1 _ Hin). reflexivity.
    + rewrite (N2 _ Hin). apply orb_true_r.
  - intros ev Hin. apply in_app_or in Hin. destruct Hin as [Hin|Hin].
    + apply seq_merge_types_old. apply T1. exact Hin.
    + apply seq_merge_types_new. apply T2. exact Hin.
  - intros n a Ha. rewrite mine_app, app_length.
    destruct (arity_of n all) as [x|] eqn:Ea; destruct (arity_of n new) as [y|] eqn:En.
    + rewrite (seq_merge_both c Hc n new all x y Ea En) in Ha. injection Ha as <-. exact I.
    + destruct (seq_merge_old c Hc n new all x Ea) as [a' [H' G']]. rewrite H' in Ha. injection Ha as <-.
      rewrite (mine_absent n new e1 N2 (arity_none_has _ _ En)). cbn. rewrite Nat.add_0_r.
      eapply count_ok_ge; [exact G'|]. apply C1. exact Ea.
    + destruct (seq_merge_new c Hc n new all y En) as [a' [H' G']]. rewrite H' in Ha. injection Ha as <-.
      rewrite (mine_absent n all evs N1 (arity_none_has _ _ Ea)). cbn.
      eapply count_ok_ge; [exact G'|]. apply C2. exact En.
    + assert (H : has_fd n (seq_merge c all new) = true) by (apply has_fd_arity; eauto).
      rewrite (seq_merge_names c Hc), (arity_none_has _ _ Ea), (arity_none_has _ _ En) in H. discriminate.
Qed.

(* a child's events fit every dominating descriptor list in which the names
   that the child lacks are at least Optional *)
Lemma fits_up lp l evs :
  fits lp evs -> sub lp l -> tsub lp l ->
  (forall n a, arity_of n lp = None -> arity_of n l = Some a -> ge_arity a Optional = true) ->
  fits l evs.
Proof.
  intros [N [T C]] S TS M. split; [|split].
  - intros ev Hin. specialize (N ev Hin). apply has_fd_arity in N. destruct N as [a Ha].
    destruct (S _ _ Ha) as [a' [Ha' _]]. apply has_fd_arity. eauto.
  - intros ev Hin. apply TS. apply T. exact Hin.
  - intros n a Ha. destruct (arity_of n lp) as [b|] eqn:Eb.
    + destruct (S _ _ Eb) as [a' [Ha' G]]. rewrite Ha in Ha'. injection Ha' as <-.
      eapply count_ok_ge; [exact G|]. apply C. exact Eb.
    + rewrite (mine_absent n lp evs N (arity_none_has _ _ Eb)). cbn. apply count_ok_zero. eapply M; eauto.
Qed.

(* ---- inversion of the specification's combinators ---------------------- *)

Lemma s_with_ws_ok {A} sv skip cs o (k : list N -> nat -> sres A) v cs' o' l :
  s_with_ws sv skip cs o k = SOk v cs' o' l -> exists cs1 o1 l2, k cs1 o1 = SOk v cs' o' l2.
Proof.
  unfold s_with_ws. destruct skip; [|eauto].
  destruct (sv_rule sv n_Whitespace cs o) as [w cs1 o1 l1| | |]; try discriminate.
  destruct (k cs1 o1) as [v2 cs2 o2 l2| | |] eqn:K; try discriminate.
  intro H. injection H as <- <- <- _. eauto.
Qed.

Lemma s_noev_ok {A} (r : sres A) evs cs' o' l : s_noev r = SOk evs cs' o' l -> evs = [].
Proof. destruct r; cbn; intro H; try discriminate. injection H as <- _ _ _. reflexivity. Qed.

Lemma s_choice_ok sv skip alts : forall cs o acc evs cs' o' l,
  s_choice sv skip alts cs o acc = SOk evs cs' o' l ->
  exists a l', In a alts /\ sv_expr sv skip a cs o = SOk evs cs' o' l'.
Proof.
  induction alts as [|a alts IH]; intros cs o acc evs cs' o' l H; [discriminate|].
  cbn in H. destruct (sv_expr sv skip a cs o) as [e1 cs1 o1 l1|l1| |] eqn:E; try discriminate.
  - injection H as <- <- <- _. exists a, l1. split; [left; reflexivity|exact E].
  - destruct (IH _ _ _ _ _ _ _ H) as [b [l' [Hin Hb]]]. exists b, l'. split; [right; exact Hin|exact Hb].
Qed.

(* ---- the theorem ---------------------------------------------------------- *)

Definition expr_claim (sv : sevals) : Prop :=
  forall F skip e cs o evs cs' o' l own,
    get_fields c F g e = GFOk own -> sv_expr sv skip e cs o = SOk evs cs' o' l -> fits own evs.

Definition in_own (lb : list fdesc) (evs : list event) : Prop :=
  forall ev, In ev evs -> has_fd (ev_field ev) lb = true /\ has_type (ev_typ ev) (types_of (ev_field ev) lb) = true.

Definition loop_claim (sv : sevals) : Prop :=
  forall F skip b plus cs o it evs0 acc evs cs' o' l lb,
    get_fields c F g b = GFOk lb -> in_own lb evs0 ->
    sv_loop sv skip b plus cs o it evs0 acc = SOk evs cs' o' l -> in_own lb evs.

Lemma seq_claim sv (H : expr_claim sv) F skip parts : forall cs o evs0 acc all res evs cs' o' l,
  gf_seq c (get_fields c F g) parts all = GFOk res -> fits all evs0 ->
  s_seq sv skip parts cs o evs0 acc = SOk evs cs' o' l -> fits res evs.
Proof.
  induction parts as [|p ps IH]; intros cs o evs0 acc all res evs cs' o' l G Hf E.
  - cbn in G, E. injection G as <-. injection E as <- _ _ _. exact Hf.
  - cbn in G, E. destruct (get_fields c F g p) as [new| |] eqn:Gp; try discriminate.
    destruct (sv_expr sv skip p cs o) as [e1 cs1 o1 l1|l1| |] eqn:Ep; try discriminate.
    eapply IH; [exact G| |exact E]. apply fits_seq; [exact Hf|]. eapply H; eauto.
Qed.

Lemma map_set_has h l n : has_fd n (map (fun f => set_arity (h (fd_arity f)) f) l) = has_fd n l.
Proof.
  pose proof (arity_of_map_set n h l) as P. unfold has_fd, arity_of in *.
  destruct (find_fd n (map _ l)), (find_fd n l); congruence.
Qed.

Lemma expr_step_claim sv : expr_claim sv -> loop_claim sv -> expr_claim (sstep c shk g guard sv).
Proof.
  intros He Hl F skip e cs o evs cs' o' l own G E.
  destruct F as [|F']; [discriminate|]. cbn [sstep sv_expr] in E.
  destruct e; cbn [get_fields] in G; cbn [sexpr_step] in E.
  - (* EChoice *)
    assert (D : dom c g (S F') own (EChoice alts)) by (exists own; split; [exact G|apply sub_refl]).
    destruct (dom_choice c Hc g _ _ _ D) as [l0 [E0 [_ [Hsub [Hmiss _]]]]].
    cbn [get_fields] in E0. rewrite G in E0. injection E0 as <-.
    assert (K : exists a l', In a alts /\ sv_expr sv skip a cs o = SOk evs cs' o' l').
    { destruct alts as [|a [|a2 rest]]; [discriminate| |].
      - exists a, l. split; [left; reflexivity|exact E].
      - eapply s_choice_ok; exact E. }
    destruct K as [a [l' [Hin Ea]]].
    destruct (Hsub a Hin) as [lp [Gp Sp]].
    destruct (gf_choice_parts_ok c _ _ _ _ _ G a Hin) as [new Gn].
    pose proof (gf_lift c g _ _ _ Gn) as Gn'. rewrite Gp in Gn'. injection Gn' as <-.
    eapply fits_up; [eapply He; eauto|exact Sp|eapply gf_choice_tsub; eauto|].
    intros n x Hn Hx. eapply Hmiss; eauto.
  - (* ESeq *)
    destruct parts as [|p [|p2 rest]].
    + cbn in G. injection G as <-. injection E as <- _ _ _. apply fits_nil_nil.
    + cbn in G. destruct (get_fields c F' g p) as [new| |] eqn:Gp; try discriminate.
      injection G as <-. replace evs with ([] ++ evs) by reflexivity.
      apply fits_seq; [apply fits_nil_nil|]. eapply He; eauto.
    + eapply seq_claim; [exact He|exact G|apply fits_nil_nil|exact E].
  - (* EGroup *) eapply He; eauto.
  - (* EOptional *)
    destruct (get_fields c F' g e) as [lb| |] eqn:Gb; try discriminate. injection G as <-.
    destruct (sv_expr sv skip e cs o) as [e1 cs1 o1 l1|l1| |] eqn:Eb; try discriminate.
    + injection E as <- <- <- <-. pose proof (He _ _ _ _ _ _ _ _ _ _ Gb Eb) as [N [T C]]. split; [|split].
      * intros ev Hin. rewrite map_set_has. auto.
      * intros ev Hin. rewrite types_of_map_set. auto.
      * intros n a Ha. rewrite arity_of_map_set in Ha. destruct (arity_of n lb) as [b|] eqn:Eq; [|discriminate].
        injection Ha as <-. eapply count_ok_ge; [apply (opt_ge c Hc)|]. apply C. exact Eq.
    + injection E as <- _ _ _. split; [intros ev []|split; [intros ev []|]].
      intros n a Ha. rewrite arity_of_map_set in Ha. destruct (arity_of n lb) as [b|]; [|discriminate].
      injection Ha as <-. cbn. apply count_ok_zero. apply (opt_ge_optional c Hc).
  - (* EClosure *)
    destruct (get_fields c F' g e) as [lb| |] eqn:Gb; try discriminate. injection G as <-.
    assert (IO : in_own lb evs) by (eapply (Hl F' skip e at_least_one cs o 0 [] [] evs cs' o' l lb Gb); [intros ? []|exact E]).
    split; [|split].
    + intros ev Hin. rewrite map_set_has. apply IO. exact Hin.
    + intros ev Hin. rewrite types_of_map_set. apply IO. exact Hin.
    + intros n a Ha. rewrite arity_of_map_set in Ha. destruct (arity_of n lb) as [b|]; [|discriminate].
      injection Ha as <-. rewrite (clo_multiple c Hc). exact I.
  - (* ENeg *)
    destruct (get_fields c F' g e) as [[|x lb]| |] eqn:Gb; try discriminate. injection G as <-.
    destruct (sv_expr sv skip e cs o); try discriminate. injection E as <- _ _ _. apply fits_nil_nil.
  - (* EPos *)
    destruct (get_fields c F' g e) as [[|x lb]| |] eqn:Gb; try discriminate. injection G as <-.
    destruct (sv_expr sv skip e cs o); try discriminate. injection E as <- _ _ _. apply fits_nil_nil.
  - (* ERange *)
    injection G as <-. destruct (compile_range from to); try discriminate.
    apply s_noev_ok in E. subst. apply fits_nil_nil.
  - (* ELit *)
    injection G as <-. destruct (compile_lit guard insensitive body) as [m| | |]; try discriminate.
    destruct (lit_term m) as [t sp]. apply s_noev_ok in E. subst. apply fits_nil_nil.
  - (* EEoi *)
    injection G as <-. apply s_noev_ok in E. subst. apply fits_nil_nil.
  - (* EInclude *)
    destruct (find_rule g rule) as [r|]; try discriminate. eapply He; eauto.
  - (* EField *)
    destruct (s_with_ws sv skip cs o (fun cs0 o0 => sv_rule sv typ cs0 o0)) as [v cs1 o1 l1|l1| |]; try discriminate.
    injection E as <- _ _ _.
    destruct (fname_of fname) as [n|]; injection G as <-; [|apply fits_nil_nil].
    split; [|split].
    + intros ev [<-|[]]. cbn. unfold has_fd. cbn. rewrite name_eqb_refl. reflexivity.
    + intros ev [<-|[]]. unfold types_of, has_type. cbn. rewrite !name_eqb_refl. cbn. rewrite name_eqb_refl. reflexivity.
    + intros m a Ha. unfold arity_of in Ha. cbn in Ha. unfold mine. cbn.
      destruct (name_eqb n m) eqn:Em; [|discriminate]. injection Ha as <-. reflexivity.
Qed.

Lemma loop_step_claim sv : expr_claim sv -> loop_claim sv -> loop_claim (sstep c shk g guard sv).
Proof.
  intros He Hl F skip b plus cs o it evs0 acc evs cs' o' l lb Gb H0 E.
  cbn [sstep sv_loop] in E. unfold sloop_step in E.
  destruct (sv_expr sv skip b cs o) as [e1 cs1 o1 l1|l1| |] eqn:Eb; try discriminate.
  - eapply Hl; [exact Gb| |exact E].
    intros ev Hin. apply in_app_or in Hin. destruct Hin as [Hin|Hin]; [auto|].
    destruct (He _ _ _ _ _ _ _ _ _ _ Gb Eb) as [N [T _]]. split; [apply N|apply T]; exact Hin.
  - destruct (plus && Nat.eqb it 0); try discriminate. injection E as <- _ _ _. exact H0.
Qed.

Theorem arity_sound n : expr_claim (Srun n) /\ loop_claim (Srun n).
Proof.
  induction n as [|n [IHe IHl]].
  - split; [intros F skip e cs o evs cs' o' l own _ E; discriminate|].
    intros F skip b plus cs o it evs0 acc evs cs' o' l lb _ _ E. discriminate.
  - split; [apply expr_step_claim; auto|apply loop_step_claim; auto].
Qed.

(* ---- consequence: values can always be assembled -------------------------- *)

Lemma field_value_fits own evs fd :
  fits own evs -> find_fd (fd_name fd) own = Some fd -> field_value fd evs <> None.
Proof.
  intros [_ [_ C]] Hf. specialize (C (fd_name fd) (fd_arity fd)).
  unfold arity_of in C. rewrite Hf in C. specialize (C eq_refl).
  rewrite field_value_mine. destruct (fd_arity fd); cbn in C.
  - destruct (mine (fd_name fd) evs) as [|e [|e2 r]]; cbn in C; try discriminate; lia.
  - destruct (mine (fd_name fd) evs) as [|e [|e2 r]]; cbn in C; try discriminate; lia.
  - discriminate.
Qed.

Lemma shape_fields_fits own evs : forall fds,
  fits own evs -> (forall fd, In fd fds -> find_fd (fd_name fd) own = Some fd) ->
  shape_fields fds evs <> None.
Proof.
  induction fds as [|fd r IH]; intros Hf Hin; [discriminate|].
  cbn. pose proof (field_value_fits own evs fd Hf (Hin fd (or_introl eq_refl))) as H1.
  assert (H2 : shape_fields r evs <> None) by (apply IH; auto; intros; apply Hin; right; auto).
  destruct (field_value fd evs); [|congruence]. destruct (shape_fields r evs); [discriminate|congruence].
Qed.

Lemma find_fd_nodup own fd : NoDup (map fd_name own) -> In fd own -> find_fd (fd_name fd) own = Some fd.
Proof.
  induction own as [|x own IH]; intros ND Hin; [destruct Hin|].
  cbn in ND. inversion ND as [|? ? Hn ND']; subst. cbn.
  destruct Hin as [->|Hin]; [rewrite name_eqb_refl; reflexivity|].
  destruct (name_eqb (fd_name x) (fd_name fd)) eqn:E.
  - exfalso. apply Hn. apply name_eqb_eq in E. rewrite E. apply in_map. exact Hin.
  - apply IH; auto.
Qed.

(* the arity-mismatch stuck state of the specification is unreachable *)
Theorem shape_total n (r : rule) skip cs o evs cs' o' l rf consumed span :
  get_fields c (gf_fuel_s g) g (r_def r) = GFOk rf ->
  sv_expr (Srun n) skip (r_def r) cs o = SOk evs cs' o' l ->
  shape c g r consumed span evs <> None.
Proof.
  intros G E. pose proof (proj1 (arity_sound n) _ _ _ _ _ _ _ _ _ _ G E) as Hf.
  pose proof (gf_nodup c g _ _ _ G) as ND.
  unfold shape. destruct (fl_string (flags_of (r_directives r))); [discriminate|]. rewrite G.
  assert (ALL : shape_fields rf evs <> None).
  { apply (shape_fields_fits rf evs rf Hf). intros fd Hin. apply find_fd_nodup; auto. }
  destruct rf as [|fd [|fd2 rest]].
  - cbn. discriminate.
  - destruct (name_eqb (fd_name fd) n_override).
    + apply (field_value_fits [fd] evs fd Hf). cbn. rewrite name_eqb_refl. reflexivity.
    + destruct (shape_fields [fd] evs); [discriminate|congruence].
  - destruct (shape_fields (fd :: fd2 :: rest) evs); [discriminate|congruence].
Qed.

End Arity.
