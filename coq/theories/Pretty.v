(* Model of runtime/src/error.rs: IndexedStringLineIterator and
   PrettyParseError::from_parse_error, over bytes; plus the specification the
   property C11 states.  No proofs here (PrettyOk.v). *)
From PegV Require Import Utf8.

(* The three decision points of the Rust code, regenerated from the source by
   tools/extract_facts.py (Extracted.v):
   - iter_stop_ge   : `if self.byte_offset >= self.source.bytes().len()` (true)
                      vs `>` (false) in IndexedStringLineIterator::next
   - find_end_ge    : `l.end_offset >= err.position` (true) vs `>` (false)
   - col_by_position: column found by `.position(|cp| cp == p).unwrap_or(0)`
                      (true) vs by counting the char starts before p (false) *)
Record pretty_cfg := {
  iter_stop_ge : bool;
  find_end_ge : bool;
  col_by_position : bool
}.

Record line := { l_s : bytes; l_no : nat; l_start : nat; l_end : nat }.

Definition NL : N := 10%N.

Section WithCfg.
Variable cfg : pretty_cfg.

(* All items the iterator yields for a text, in order.  `rem` is what is left
   of the source, `cur` the bytes of the line being collected (source
   [start..off]).  One pass instead of the `position()` search; the two are the
   same function (tied by the exhaustive correspondence run).
   end_offset of a line = offset of its '\n' + 1, or len + 1 for the last one.
   After the last line byte_offset = len + 1; a text that is empty or ends in
   '\n' has byte_offset = len at that point: `>=` stops there, `>` yields one
   more (empty) line. *)
Fixpoint split_lines (rem cur : bytes) (no start off : nat) : list line :=
  match rem with
  | [] =>
    if iter_stop_ge cfg && (match cur with [] => true | _ => false end)
    then []
    else [ {| l_s := cur; l_no := no; l_start := start; l_end := off + 1 |} ]
  | b :: r =>
    if (b =? NL)%N then
      {| l_s := cur; l_no := no; l_start := start; l_end := off + 1 |}
        :: split_lines r [] (S no) (off + 1) (off + 1)
    else split_lines r (cur ++ [b]) no start (off + 1)
  end.

Definition lines_of (text : bytes) : list line := split_lines text [] 0 0 0.

Definition line_has (pos : nat) (l : line) : bool :=
  Nat.leb (l_start l) pos &&
  (if find_end_ge cfg then Nat.leb pos (l_end l) else Nat.ltb pos (l_end l)).

(* byte offsets at which characters start: `char_indices().map(|(cp,_)| cp)` *)
Fixpoint char_starts (bs : bytes) (i : nat) : list nat :=
  match bs with
  | [] => []
  | b :: r => if is_cont b then char_starts r (S i) else i :: char_starts r (S i)
  end.

Fixpoint index_of (x : nat) (l : list nat) : option nat :=
  match l with
  | [] => None
  | y :: r => if Nat.eqb x y then Some O else option_map S (index_of x r)
  end.

Definition column0 (l : line) (pos : nat) : nat :=
  let p := pos - l_start l in
  if col_by_position cfg then
    match index_of p (char_starts (l_s l) 0) with Some k => k | None => O end
  else
    length (filter (fun cp => Nat.ltb cp p) (char_starts (l_s l) 0)).

Inductive pretty_out :=
| PPanic                                   (* `.unwrap()` on None *)
| PShown (lineno col : nat) (the_line : bytes).  (* 1-based; caret width = col *)

Definition from_parse_error (text : bytes) (pos : nat) : pretty_out :=
  match find (line_has pos) (lines_of text) with
  | None => PPanic
  | Some l => PShown (l_no l + 1) (column0 l pos + 1) (l_s l)
  end.

End WithCfg.

(* ------------------------------------------------------------------ *)
(* Specification (C11), independent of the iterator                     *)

Fixpoint before_first_nl (bs : bytes) : bytes :=
  match bs with
  | [] => []
  | b :: r => if (b =? NL)%N then [] else b :: before_first_nl r
  end.

Definition after_last_nl (bs : bytes) : bytes := rev (before_first_nl (rev bs)).

Definition count_nl (bs : bytes) : nat := length (filter (fun b => (b =? NL)%N) bs).

(* line = newlines before pos + 1; column = characters between the start of
   that line and pos, + 1; printed line = the whole line around pos *)
Definition spec_line (text : bytes) (pos : nat) : nat := count_nl (firstn pos text) + 1.
Definition spec_col (text : bytes) (pos : nat) : nat :=
  count_lead (after_last_nl (firstn pos text)) + 1.
Definition spec_text (text : bytes) (pos : nat) : bytes :=
  after_last_nl (firstn pos text) ++ before_first_nl (skipn pos text).

Definition pretty_spec (text : bytes) (pos : nat) : pretty_out :=
  PShown (spec_line text pos) (spec_col text pos) (spec_text text pos).

(* The configuration found in the pinned source before the repair, and the
   repaired one. *)
Definition cfg_original := {| iter_stop_ge := true; find_end_ge := true; col_by_position := true |}.
Definition cfg_fixed := {| iter_stop_ge := false; find_end_ge := false; col_by_position := false |}.
