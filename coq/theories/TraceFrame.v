(* C19: the tracer never influences the parse.
   The tracer's state in the model is the list of callbacks received so far
   (any concrete tracer's state is a fold over that list).  For every grammar
   (memoized and left-recursive rules included), stateful hooks and every fuel:
   running from two global states that differ only in the callback list yields
   the same result - value, state, error - and globals that again differ only in
   the callback list.  So the result of a traced parse is the result of the
   plain parse, whatever the tracer did before or does with its callbacks. *)
From Coq Require Import Lia.
From PegV Require Import Utf8 State Terminals Syntax Fields Literals Model.

Section Frame.
Variable ustate : Type.
Variable scfg : state_cfg.
Variable tcfg : term_cfg.
Variable fcfg : fields_cfg.
Variable rcfg : rule_cfg.
Variable hk : hooks ustate.
Variable g : grammar.
Notation glb := (glob ustate).

(* equal up to the callback list *)
Definition Rg (a b : glb) : Prop :=
  g_cache a = g_cache b /\ g_user a = g_user b /\ g_evals a = g_evals b /\ g_fails a = g_fails b.

Lemma Rg_refl a : Rg a a. Proof. repeat split. Qed.

Definition Req {A} (x y : R ustate A) : Prop := fst x = fst y /\ Rg (snd x) (snd y).

Lemma Rg_trace a b e e' : Rg a b -> Rg (trace ustate e a) (trace ustate e' b).
Proof. intros [A [B [C D]]]. repeat split; assumption. Qed.
Lemma Rg_trace_l a b e : Rg a b -> Rg (trace ustate e a) b.
Proof. intros [A [B [C D]]]. repeat split; assumption. Qed.
Lemma Rg_log_fail a b e : Rg a b -> Rg (log_fail ustate e a) (log_fail ustate e b).
Proof. intros [A [B [C D]]]. repeat split; cbn; congruence. Qed.
Lemma Rg_log_eval a b k : Rg a b -> Rg (log_eval ustate k a) (log_eval ustate k b).
Proof. intros [A [B [C D]]]. repeat split; cbn; congruence. Qed.
Lemma Rg_set_user a b u : Rg a b -> Rg (set_user ustate u a) (set_user ustate u b).
Proof. intros [A [B [C D]]]. repeat split; cbn; congruence. Qed.
Lemma Rg_cache_put a b n k c : Rg a b -> Rg (cache_put ustate n k c a) (cache_put ustate n k c b).
Proof. intros [A [B [C D]]]. repeat split; cbn; congruence. Qed.

Definition Eev (ev : evals ustate) : Prop :=
  (forall ctx e st a b, Rg a b -> Req (ev_expr ev ctx e st a) (ev_expr ev ctx e st b)) /\
  (forall n st a b, Rg a b -> Req (ev_rule ev n st a) (ev_rule ev n st b)) /\
  (forall ctx e plus st it acc a b, Rg a b -> Req (ev_loop ev ctx e plus st it acc a) (ev_loop ev ctx e plus st it acc b)) /\
  (forall r st best a b, Rg a b -> Req (ev_grow ev r st best a) (ev_grow ev r st best b)).

Section Step.
Variable ev : evals ustate.
Hypothesis H : Eev ev.
Let He := proj1 H.
Let Hr := proj1 (proj2 H).
Let Hl := proj1 (proj2 (proj2 H)).
Let Hg := proj2 (proj2 (proj2 H)).

(* split a related pair of sub-results; the first components are equal *)
Ltac pair X Y HXY :=
  let E := fresh "E" in let G := fresh "G" in
  destruct HXY as [E G];
  destruct X as [[?v ?s|?e|?p|] ?ga]; destruct Y as [[?v' ?s'|?e'|?p'|] ?gb];
  cbn [fst snd] in E, G; try discriminate E;
  try (injection E as ? ?; subst); try (injection E as ?; subst).

Lemma F_ret {A} (r : mres A) a b : Rg a b -> Req (r, a) (r, b).
Proof. intro G. split; [reflexivity|exact G]. Qed.

Lemma F_fail {A} st sp a b : Rg a b -> @Req A (fail_at ustate scfg st sp a) (fail_at ustate scfg st sp b).
Proof. intro G. unfold fail_at. split; [reflexivity|apply Rg_log_fail; exact G]. Qed.

Lemma F_lift {X Y} (f : X -> Y) sp st (r : tres X) a b : Rg a b ->
  Req (lift_t ustate f sp st r a) (lift_t ustate f sp st r b).
Proof. intro G. destruct r; cbn [lift_t]; try (apply F_ret; exact G). split; [reflexivity|apply Rg_log_fail; exact G]. Qed.

Lemma F_with_ws {X} ctx st a b (k : pstate -> glb -> R ustate X) : Rg a b ->
  (forall s x y, Rg x y -> Req (k s x) (k s y)) ->
  Req (with_ws ustate ev ctx st a k) (with_ws ustate ev ctx st b k).
Proof.
  intros G Hk. unfold with_ws. destruct (c_skip ctx); [|apply Hk; exact G].
  pose proof (Hr n_Whitespace st a b G) as P.
  pair (ev_rule ev n_Whitespace st a) (ev_rule ev n_Whitespace st b) P; try (apply F_ret; assumption).
  apply Hk. assumption.
Qed.

Lemma F_no_fields {X} (x y : R ustate X) : Req x y -> Req (no_fields ustate x) (no_fields ustate y).
Proof. intro P. pair x y P; apply F_ret; assumption. Qed.

Lemma F_run_lit m st a b : Rg a b -> Req (run_lit ustate scfg tcfg m st a) (run_lit ustate scfg tcfg m st b).
Proof. intro G. destruct m; cbn [run_lit]; apply F_lift; exact G. Qed.

Lemma F_choice_loop ctx fds alts : forall cst a b, Rg a b ->
  Req (choice_loop ustate scfg fcfg g ev ctx fds alts cst a) (choice_loop ustate scfg fcfg g ev ctx fds alts cst b).
Proof.
  induction alts as [|x alts IH]; intros cst a b G; cbn [choice_loop]; [apply F_ret; exact G|].
  pose proof (He ctx x cst a b G) as P.
  pair (ev_expr ev ctx x cst a) (ev_expr ev ctx x cst b) P; try (apply F_ret; assumption).
  - destruct (own_fields fcfg g x) as [inner|]; [|apply F_ret; assumption].
    destruct (convert_arm fds inner v'); apply F_ret; assumption.
  - apply IH. assumption.
Qed.

Lemma F_seq_loop ctx fds parts : forall st acc a b, Rg a b ->
  Req (seq_loop ustate ev ctx fds parts st acc a) (seq_loop ustate ev ctx fds parts st acc b).
Proof.
  induction parts as [|x ps IH]; intros st acc a b G; cbn [seq_loop].
  - destruct (order_as fds acc); apply F_ret; exact G.
  - pose proof (He ctx x st a b G) as P.
    pair (ev_expr ev ctx x st a) (ev_expr ev ctx x st b) P; try (apply F_ret; assumption).
    destruct (seq_merge_vals acc v'); [apply IH; assumption|apply F_ret; assumption].
Qed.

Theorem F_expr ctx e st a b : Rg a b ->
  Req (expr_step ustate scfg tcfg fcfg rcfg g ev ctx e st a) (expr_step ustate scfg tcfg fcfg rcfg g ev ctx e st b).
Proof.
  intro G. destruct e; cbn [expr_step].
  - destruct alts as [|x [|y r]]; [apply F_ret; exact G|apply He; exact G|].
    destruct (filt fcfg g ctx (EChoice (x :: y :: r))); [apply F_choice_loop; exact G|apply F_ret; exact G].
  - destruct parts as [|x [|y r]]; [apply F_ret; exact G|apply He; exact G|].
    destruct (filt fcfg g ctx (ESeq (x :: y :: r))); [apply F_seq_loop; exact G|apply F_ret; exact G].
  - apply He; exact G.
  - pose proof (He ctx e st a b G) as P.
    pair (ev_expr ev ctx e st a) (ev_expr ev ctx e st b) P; try (apply F_ret; assumption).
    destruct (filt fcfg g ctx e) as [fds|]; [|apply F_ret; assumption].
    destruct (defaults fds); apply F_ret; assumption.
  - destruct (filt fcfg g ctx e) as [fds|]; [apply Hl; exact G|apply F_ret; exact G].
  - pose proof (He ctx e st a b G) as P.
    pair (ev_expr ev ctx e st a) (ev_expr ev ctx e st b) P; try (apply F_ret; assumption).
    apply F_fail. assumption.
  - pose proof (He ctx e st a b G) as P.
    pair (ev_expr ev ctx e st a) (ev_expr ev ctx e st b) P; apply F_ret; assumption.
  - destruct (compile_range from to); try (apply F_ret; exact G).
    apply F_no_fields. apply F_with_ws; [exact G|]. intros s x y Gxy. apply F_lift. exact Gxy.
  - destruct (compile_lit (insens_guard rcfg) insensitive body); try (apply F_ret; exact G).
    apply F_no_fields. apply F_with_ws; [exact G|]. intros s x y Gxy. apply F_run_lit. exact Gxy.
  - apply F_no_fields. apply F_with_ws; [exact G|]. intros s x y Gxy. apply F_lift. exact Gxy.
  - destruct (find_rule g rule); [apply He; exact G|apply F_ret; exact G].
  - assert (P : Req (with_ws ustate ev ctx st a (fun st gl => ev_rule ev typ st gl))
                    (with_ws ustate ev ctx st b (fun st gl => ev_rule ev typ st gl))).
    { apply F_with_ws; [exact G|]. intros s x y Gxy. apply Hr. exact Gxy. }
    destruct (fname_of fname) as [n|]; [|apply F_no_fields; exact P].
    pair (with_ws ustate ev ctx st a (fun st gl => ev_rule ev typ st gl))
         (with_ws ustate ev ctx st b (fun st gl => ev_rule ev typ st gl)) P; try (apply F_ret; assumption).
    destruct (postprocess (c_fields ctx) n typ v'); apply F_ret; assumption.
Qed.

Theorem F_loop ctx e plus st it acc a b : Rg a b ->
  Req (loop_step ustate scfg ev ctx e plus st it acc a) (loop_step ustate scfg ev ctx e plus st it acc b).
Proof.
  intro G. unfold loop_step. pose proof (He ctx e st a b G) as P.
  pair (ev_expr ev ctx e st a) (ev_expr ev ctx e st b) P; try (apply F_ret; assumption).
  - destruct (extend_all acc v'); [apply Hl; assumption|apply F_ret; assumption].
  - destruct (plus && Nat.eqb it 0); apply F_ret; assumption.
Qed.

Lemma F_run_checks cs v : forall st a b, Rg a b ->
  Req (run_checks ustate scfg hk cs v st a) (run_checks ustate scfg hk cs v st b).
Proof.
  induction cs as [|f cs IH]; intros st a b G; cbn [run_checks]; [apply F_ret; exact G|].
  destruct G as [A [B [C D]]]. rewrite B.
  destruct (h_check hk f v (g_user b)) as [ok u].
  assert (G' : Rg (set_user ustate u a) (set_user ustate u b)) by (apply Rg_set_user; repeat split; assumption).
  destruct ok; [apply IH; exact G'|apply F_fail; exact G'].
Qed.

Theorem F_rule_body r st a b : Rg a b ->
  Req (rule_body ustate scfg fcfg hk g ev r st a) (rule_body ustate scfg fcfg hk g ev r st b).
Proof.
  intro G. unfold rule_body.
  destruct (get_fields fcfg (gf_fuel g) g (r_def r)) as [rf| |]; try (apply F_ret; exact G).
  set (ctx := {| c_skip := negb (fl_no_skip_ws (flags_of (r_directives r))); c_fields := rf |}).
  pose proof (He ctx (r_def r) st a b G) as P.
  pair (ev_expr ev ctx (r_def r) st a) (ev_expr ev ctx (r_def r) st b) P; try (apply F_ret; assumption).
  match goal with |- Req (match ?o with _ => _ end) _ => destruct o as [w|] end; [|apply F_ret; assumption].
  apply F_run_checks. assumption.
Qed.

Theorem F_grow r st best a b : Rg a b ->
  Req (grow_step ustate scfg fcfg rcfg hk g ev r st best a) (grow_step ustate scfg fcfg rcfg hk g ev r st best b).
Proof.
  intro G. unfold grow_step.
  pose proof (F_rule_body r st _ _ (Rg_trace a b (TInfo 2) (TInfo 2) G)) as P.
  pair (rule_body ustate scfg fcfg hk g ev r st (trace ustate (TInfo 2) a))
       (rule_body ustate scfg fcfg hk g ev r st (trace ustate (TInfo 2) b)) P; try (apply F_ret; assumption).
  - destruct best as [bv bst|be].
    + destruct (is_further_than scfg s' bst); [apply Hg; apply Rg_cache_put; assumption|apply F_ret; assumption].
    + apply Hg. apply Rg_cache_put. assumption.
  - destruct (leftrec_closed rcfg); [|apply F_ret; assumption].
    destruct best; [apply F_ret; assumption|]. split; [reflexivity|apply Rg_cache_put; assumption].
Qed.

Lemma F_memo_wrap r st a b : Rg a b ->
  Req (memo_wrap ustate scfg fcfg rcfg hk g ev r st a) (memo_wrap ustate scfg fcfg rcfg hk g ev r st b).
Proof.
  intro G. unfold memo_wrap. pose proof G as [A _]. rewrite A.
  destruct (fl_left_recursive (flags_of (r_directives r))).
  - destruct (cache_get (r_name r) (off st) (g_cache b)) as [c|].
    + split; [reflexivity|apply Rg_trace; exact G].
    + apply Hg. apply Rg_cache_put. exact G.
  - destruct (fl_memoize (flags_of (r_directives r))); [|apply F_rule_body; exact G].
    destruct (cache_get (r_name r) (off st) (g_cache b)) as [c|].
    + split; [reflexivity|apply Rg_trace; exact G].
    + pose proof (F_rule_body r st _ _ (Rg_log_eval a b (r_name r, off st) G)) as P.
      pair (rule_body ustate scfg fcfg hk g ev r st (log_eval ustate (r_name r, off st) a))
           (rule_body ustate scfg fcfg hk g ev r st (log_eval ustate (r_name r, off st) b)) P; try (apply F_ret; assumption).
      * split; [reflexivity|apply Rg_cache_put; assumption].
      * destruct (memo_closed rcfg); [split; [reflexivity|apply Rg_cache_put; assumption]|apply F_ret; assumption].
Qed.

Lemma F_char_parts nm ps : forall st a b, Rg a b ->
  Req (char_parts ustate scfg tcfg ev nm ps st a) (char_parts ustate scfg tcfg ev nm ps st b).
Proof.
  induction ps as [|pt ps IH]; intros st a b G; cbn [char_parts]; [apply F_fail; exact G|].
  destruct pt as [i|x y|n].
  - destruct (decode_item i); try (apply F_ret; exact G).
    destruct (parse_character_literal scfg tcfg st a0); try (apply F_ret; exact G). apply IH; exact G.
  - destruct (compile_range x y); try (apply F_ret; exact G).
    destruct (parse_character_range scfg tcfg st a0 b0); try (apply F_ret; exact G). apply IH; exact G.
  - pose proof (Hr n st a b G) as P.
    pair (ev_rule ev n st a) (ev_rule ev n st b) P; try (apply F_ret; assumption).
    apply IH. assumption.
Qed.

Lemma F_char_rule r st a b : Rg a b ->
  Req (char_rule_body ustate scfg tcfg hk ev r st a) (char_rule_body ustate scfg tcfg hk ev r st b).
Proof.
  intro G. unfold char_rule_body. pose proof (F_char_parts (cr_name r) (cr_choices r) st a b G) as P.
  destruct (cr_checks r) as [|c cs]; [exact P|].
  destruct (rest st); [apply F_fail; exact G|].
  destruct (decode1 (n :: b0)) as [[ch k]|]; [|apply F_ret; exact G].
  destruct (char_checks ustate hk (cr_name r) (c :: cs) ch); [exact P|apply F_fail; exact G].
Qed.

Lemma F_extern r st a b : Rg a b ->
  Req (extern_rule_body ustate scfg hk r st a) (extern_rule_body ustate scfg hk r st b).
Proof.
  intro G. unfold extern_rule_body. pose proof G as [_ [B _]]. rewrite B.
  destruct (h_extern hk (er_function r) (rest st) (g_user b)) as [res u].
  assert (G' : Rg (set_user ustate u a) (set_user ustate u b)) by (apply Rg_set_user; exact G).
  destruct res as [[v k]|msg]; [|apply F_fail; exact G'].
  destruct (advance_safe st k); apply F_ret; exact G'.
Qed.

Theorem F_rule n st a b : Rg a b ->
  Req (rule_step ustate scfg tcfg fcfg rcfg hk g ev n st a) (rule_step ustate scfg tcfg fcfg rcfg hk g ev n st b).
Proof.
  intro G. unfold rule_step. destruct (find_grule g n) as [[r|r|r]|].
  - pose proof (F_memo_wrap r st _ _ (Rg_trace a b (TStart (r_name r) (off st)) (TStart (r_name r) (off st)) G)) as P.
    pair (memo_wrap ustate scfg fcfg rcfg hk g ev r st (trace ustate (TStart (r_name r) (off st)) a))
         (memo_wrap ustate scfg fcfg rcfg hk g ev r st (trace ustate (TStart (r_name r) (off st)) b)) P;
      try (apply F_ret; assumption); split; try reflexivity; apply Rg_trace; assumption.
  - apply F_char_rule; exact G.
  - apply F_extern; exact G.
  - destruct (name_eqb n n_char); [apply F_lift; exact G|].
    destruct (name_eqb n n_Whitespace); [apply F_lift; exact G|apply F_ret; exact G].
Qed.

End Step.

Theorem frame n : Eev (run ustate scfg tcfg fcfg rcfg hk g n).
Proof.
  induction n as [|n IH].
  - repeat split; cbn; try reflexivity; apply H.
  - split; [|split; [|split]]; intros; cbn [run step ev_expr ev_rule ev_loop ev_grow].
    + apply F_expr; assumption.
    + apply F_rule; assumption.
    + apply F_loop; assumption.
    + apply F_grow; assumption.
Qed.

(* the result of a parse does not depend on what the tracer has seen before *)
Corollary parse_ignores_tracer fuel rule_name st (a b : glb) :
  Rg a b ->
  fst (ev_rule (run ustate scfg tcfg fcfg rcfg hk g fuel) rule_name st a) =
  fst (ev_rule (run ustate scfg tcfg fcfg rcfg hk g fuel) rule_name st b) /\
  Rg (snd (ev_rule (run ustate scfg tcfg fcfg rcfg hk g fuel) rule_name st a))
     (snd (ev_rule (run ustate scfg tcfg fcfg rcfg hk g fuel) rule_name st b)).
Proof. intro G. exact (proj1 (proj2 (frame fuel)) rule_name st a b G). Qed.

End Frame.
