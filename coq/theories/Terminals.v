(* Byte-level models of runtime/src/builtin_parsers.rs, one per function,
   keeping the ASCII fast paths and the exact `advance` lengths.  The decision
   points that an edit is likely to touch are parameters regenerated from the
   source (term_cfg). *)
From PegV Require Import Utf8 Utf8Facts State.

(* guards of the fast paths, as found in the source:
   lit_fast_guard   : parse_character_literal takes the byte path iff `c.is_ascii()`
   range_fast_guard : parse_character_range takes the byte path iff
                      `from.is_ascii() && to.is_ascii()` (true) — or a weaker
                      guard such as `from.is_ascii()` alone (false)
   ws_set           : bytes the built-in skipper accepts (u8::is_ascii_whitespace) *)
Record term_cfg := {
  lit_fast_is_ascii : bool;
  range_fast_both_ascii : bool;
  ilit_lowercases_input : bool
}.

Inductive tres (A : Type) :=
| TOk (v : A) (st : pstate)
| TErr (e : perr)
| TPanic                    (* index out of bounds / overrun / unwrap *)
| TSplit.                   (* advance off a char boundary (hook assertion) *)
Arguments TOk {A}. Arguments TErr {A}. Arguments TPanic {A}. Arguments TSplit {A}.

Definition adv_then {A} (st : pstate) (n : nat) (v : A) : tres A :=
  match advance st n with
  | AOk st' => TOk v st'
  | AOverrun => TPanic
  | ASplit => TSplit
  end.

Section WithCfg.
Variable scfg : state_cfg.
Variable tcfg : term_cfg.

Notation report_error := (report_error scfg).

Definition as_u8 (c : N) : N := N.modulo c 256.

(* parse_char *)
Definition parse_char (st : pstate) : tres N :=
  match rest st with
  | [] => TErr (report_error st ExpectedAnyCharacter)
  | _ =>
    match decode1 (rest st) with
    | Some (c, n) => adv_then st n c
    | None => TPanic      (* not a valid str: unreachable for Rust's &str *)
    end
  end.

(* parse_Whitespace: while !is_empty && bytes[0].is_ascii_whitespace() { advance(1) } *)
Fixpoint ws_loop (bs : bytes) (o : nat) (f : option perr) : tres unit :=
  match bs with
  | [] => TOk tt {| rest := []; off := o; far := f |}
  | b :: r =>
    if is_ascii_ws b then
      match advance {| rest := b :: r; off := o; far := f |} 1 with
      | AOk _ => ws_loop r (o + 1) f
      | AOverrun => TPanic
      | ASplit => TSplit
      end
    else TOk tt {| rest := b :: r; off := o; far := f |}
  end.

Definition parse_Whitespace (st : pstate) : tres unit := ws_loop (rest st) (off st) (far st).

(* parse_string_literal: `state.s().starts_with(s)` *)
Definition parse_string_literal (st : pstate) (s : bytes) : tres unit :=
  if starts_with s (rest st) then adv_then st (length s) tt
  else TErr (report_error st (ExpectedString s)).

(* parse_character_literal *)
Definition parse_character_literal (st : pstate) (c : N) : tres N :=
  if (if lit_fast_is_ascii tcfg then is_ascii c else true) then
    match rest st with
    | [] => TErr (report_error st (ExpectedCharacter c))
    | b :: _ =>
      if negb (N.eqb b (as_u8 c)) then TErr (report_error st (ExpectedCharacter c))
      else adv_then st 1 c
    end
  else if negb (starts_with (encode c) (rest st)) then
    TErr (report_error st (ExpectedCharacter c))
  else adv_then st (utf8_len c) c.

(* parse_character_range *)
Definition parse_character_range (st : pstate) (from to : N) : tres N :=
  if (if range_fast_both_ascii tcfg then is_ascii from && is_ascii to else is_ascii from) then
    match rest st with
    | [] => TErr (report_error st (ExpectedCharacterRange from to))
    | b :: _ =>
      if N.ltb b (as_u8 from) || N.ltb (as_u8 to) b
      then TErr (report_error st (ExpectedCharacterRange from to))
      else adv_then st 1 b
    end
  else
    match rest st with
    | [] => TErr (report_error st (ExpectedCharacterRange from to))
    | _ =>
      match decode1 (rest st) with
      | None => TPanic
      | Some (c, n) =>
        if N.ltb c from || N.ltb to c
        then TErr (report_error st (ExpectedCharacterRange from to))
        else adv_then st n c
      end
    end.

Definition lower_in (b : N) : N := if ilit_lowercases_input tcfg then to_ascii_lower b else b.

(* `s.bytes().eq(prefix)` where prefix = input bytes lower-cased, take(s.len()) *)
Fixpoint ieq (s bs : bytes) : bool :=
  match s, bs with
  | [], _ => true
  | x :: s', y :: bs' => N.eqb x (lower_in y) && ieq s' bs'
  | _ :: _, [] => false
  end.

(* parse_string_literal_insensitive *)
Definition parse_string_literal_insensitive (st : pstate) (s : bytes) : tres unit :=
  if ieq s (rest st) then adv_then st (length s) tt
  else TErr (report_error st (ExpectedString s)).

(* parse_character_literal_insensitive — "ASCII only!" *)
Definition parse_character_literal_insensitive (st : pstate) (c : N) : tres N :=
  match rest st with
  | [] => TErr (report_error st (ExpectedCharacter c))
  | b :: _ =>
    if negb (N.eqb (lower_in b) (as_u8 c)) then TErr (report_error st (ExpectedCharacter c))
    else adv_then st 1 c
  end.

(* parse_end_of_input *)
Definition parse_end_of_input (st : pstate) : tres unit :=
  match rest st with
  | [] => TOk tt st
  | _ => TErr (report_error st ExpectedEoi)
  end.

End WithCfg.

Definition term_cfg_expected : term_cfg :=
  {| lit_fast_is_ascii := true; range_fast_both_ascii := true; ilit_lowercases_input := true |}.
