(* C07, left recursion through a plain rule - the style of the documentation and of the repository's
   calculator example:

       @leftrec A = @:P | b1 | balts...          P = l:*A x1 xs...

   (e.g.  Expr = @:Add | @:Num;  Add = left:*Expr '+' right:Num).  P is neither @memoize nor @leftrec.
   Provided nothing is skipped between the entry of A and the recursive field of P (neither rule
   skips whitespace, or no whitespace follows the entry offset), the recursive field of P evaluates -
   without running anything - to the current best result of A's loop: the body of a turn of A's loop is
   `indirect_body` (theorem `indirect_body_eq`, exact for every bound, hooks, tracer and cache):

     seed turn   (best = sentinel e): P fails with e (its entry and exit are traced), then the other
                 alternatives of A at the entry state that recorded e
     growth turn (best = Ok v s1): the rest  x1 xs...  of P from s1 with l bound to v, P's own value
                 (struct / @position / checks) built from it and handed to A through `@:`; when the rest
                 or P's checks fail with e', the other alternatives of A at the entry state that
                 recorded e'

   and GrowLoop gives the loop equation and `indirect_parse`: what A's parse returns was produced by
   such turns, each strictly further, stopped because one more turn did not get further. *)
From Coq Require Import Lia.
From PegV Require Import Utf8 State Terminals Syntax Fields FieldsFacts Literals Model FuelMono CleanFrame UsualShape GrowLoop.

Section Indirect.
Variable ustate : Type.
Variable scfg : state_cfg.
Variable tcfg : term_cfg.
Variable fcfg : fields_cfg.
Variable rcfg : rule_cfg.
Variable hk : hooks ustate.
Variable g : grammar.
Notation glb := (glob ustate).
Notation Mrun := (run ustate scfg tcfg fcfg rcfg hk g).

Variable A P : rule.
Notation a := (r_name A).
Notation p := (r_name P).
Variable l : name.
Variable bx : bool.
Variable x1 : expr.
Variable xs : list expr.
Variable b1 : expr.
Variable balts : list expr.

Definition ifield : expr := EField FOverride false p.
Definition ialt1 : expr := ESeq [ifield].
Definition idef : expr := EChoice (ialt1 :: b1 :: balts).
Definition precf : expr := EField (FNamed l) bx a.
Definition palt : expr := ESeq (precf :: x1 :: xs).
Definition pdef : expr := EChoice [palt].

Hypothesis HdefA : r_def A = idef.
Hypothesis HdefP : r_def P = pdef.
Hypothesis HfindA : find_grule g a = Some (GRule A).
Hypothesis HfindP : find_grule g p = Some (GRule P).
Hypothesis HlrA : fl_left_recursive (flags_of (r_directives A)) = true.
Hypothesis HlrP : fl_left_recursive (flags_of (r_directives P)) = false.
Hypothesis HmemoP : fl_memoize (flags_of (r_directives P)) = false.

Variable rfA fdsA innerA1 rfP fdsP1 : list fdesc.
Hypothesis HrfA : get_fields fcfg (gf_fuel g) g idef = GFOk rfA.
Hypothesis HrfP : get_fields fcfg (gf_fuel g) g pdef = GFOk rfP.
Notation ctxA := (actx A rfA).
Notation ctxP := (actx P rfP).
Hypothesis HfdsA : filt fcfg g ctxA idef = Some fdsA.
Hypothesis HinnerA1 : own_fields fcfg g ialt1 = Some innerA1.
Hypothesis HfdsP1 : filt fcfg g ctxP palt = Some fdsP1.

Notation finishA := (finish ustate scfg hk A rfA).
Notation finishP := (finish ustate scfg hk P rfP).

Definition Wi (st : pstate) : Prop := ws_trivial g A rfA st /\ ws_trivial g P rfP st.

(* P's expression with the recursive reference resolved to c *)
Definition p_resolved (k : nat) (st : pstate) (c : cached) (gl : glb) : R ustate fields :=
  match c with
  | CErr e => (MErr e, hitg ustate A c st gl)
  | COk v s1 =>
    match postprocess rfP l a v with
    | Some fs =>
      match seq_merge_vals [] fs with
      | Some acc => seq_loop ustate (Mrun (S (S k))) ctxP fdsP1 (x1 :: xs) s1 acc (hitg ustate A c st gl)
      | None => (MPanic PanicShape, hitg ustate A c st gl)
      end
    | None => (MPanic PanicShape, hitg ustate A c st gl)
    end
  end.

(* the call of P from A's first alternative *)
Definition p_call (k : nat) (st : pstate) (c : cached) (gl : glb) : R ustate value :=
  match finishP st (p_resolved k st c (trace ustate (TStart p (off st)) gl)) with
  | (MOk v st', gl2) => (MOk v st', trace ustate (TResOk (off st')) gl2)
  | (MErr e, gl2) => (MErr e, trace ustate (TResErr e) gl2)
  | other => other
  end.

(* the body of one turn of A's loop *)
Definition indirect_body (k : nat) (st : pstate) (c : cached) (gl : glb) : R ustate value :=
  finishA st
    match p_call k st c gl with
    | (MOk v s2, gl') =>
      match postprocess rfA n_override p v with
      | Some fs =>
        match convert_arm fdsA innerA1 fs with
        | Some out => (MOk out s2, gl')
        | None => (MPanic PanicShape, gl')
        end
      | None => (MPanic PanicShape, gl')
      end
    | (MErr e, gl') =>
      choice_loop ustate scfg fcfg g (Mrun (S (S (S (S (S (S (S k)))))))) ctxA fdsA (b1 :: balts) (record_error scfg st e) gl'
    | (MPanic pn, gl') => (MPanic pn, gl')
    | (MFuel, gl') => (MFuel, gl')
    end.

Lemma ee1 k ctx e st gl :
  ev_expr (Mrun (S k)) ctx e st gl = expr_step ustate scfg tcfg fcfg rcfg g (Mrun k) ctx e st gl.
Proof. reflexivity. Qed.
Lemma er1 k n st gl :
  ev_rule (Mrun (S k)) n st gl = rule_step ustate scfg tcfg fcfg rcfg hk g (Mrun k) n st gl.
Proof. reflexivity. Qed.

(* P's recursive field *)
Lemma precf_eval k st gl c :
  ws_trivial g P rfP st -> cache_get a (off st) (g_cache gl) = Some c ->
  ev_expr (Mrun (S (S k))) ctxP precf st gl =
  match c with
  | COk v s1 =>
    match postprocess rfP l a v with
    | Some fs => (MOk fs s1, hitg ustate A c st gl)
    | None => (MPanic PanicShape, hitg ustate A c st gl)
    end
  | CErr e => (MErr e, hitg ustate A c st gl)
  end.
Proof.
  intros W C. rewrite ee1. unfold precf. cbn [expr_step fname_of].
  rewrite (ws_none ustate scfg tcfg fcfg rcfg hk g P rfP k st gl _ W).
  rewrite (rec_call ustate scfg tcfg fcfg rcfg hk g A HfindA HlrA k st gl c C).
  destruct c; reflexivity.
Qed.

Lemma pdef_eval k st gl c :
  ws_trivial g P rfP st -> cache_get a (off st) (g_cache gl) = Some c ->
  ev_expr (Mrun (S (S (S (S k))))) ctxP pdef st gl = p_resolved k st c gl.
Proof.
  intros W C. rewrite ee1. unfold pdef. cbn [expr_step].
  rewrite ee1. unfold palt at 1. cbn [expr_step]. fold palt. rewrite HfdsP1.
  cbn [seq_loop]. rewrite (precf_eval k st gl c W C). unfold p_resolved.
  destruct c as [v s1|e]; [|reflexivity].
  destruct (postprocess rfP l a v) as [fs|]; reflexivity.
Qed.

Lemma rule_body_finishP ev st gl :
  rule_body ustate scfg fcfg hk g ev P st gl = finishP st (ev_expr ev ctxP pdef st gl).
Proof.
  unfold rule_body, finish. rewrite HdefP, HrfP. fold ctxP.
  destruct (ev_expr ev ctxP pdef st gl) as [[fs st'|e|pn|] gl']; reflexivity.
Qed.

Lemma p_call_eval k st gl c :
  ws_trivial g P rfP st -> cache_get a (off st) (g_cache gl) = Some c ->
  ev_rule (Mrun (S (S (S (S (S k)))))) p st gl = p_call k st c gl.
Proof.
  intros W C. rewrite er1. unfold rule_step. rewrite HfindP. unfold memo_wrap. rewrite HlrP, HmemoP.
  rewrite rule_body_finishP. rewrite (pdef_eval k st (trace ustate (TStart p (off st)) gl) c W C).
  reflexivity.
Qed.

Lemma rule_body_finishA ev st gl :
  rule_body ustate scfg fcfg hk g ev A st gl = finishA st (ev_expr ev ctxA idef st gl).
Proof.
  unfold rule_body, finish. rewrite HdefA, HrfA. fold ctxA.
  destruct (ev_expr ev ctxA idef st gl) as [[fs st'|e|pn|] gl']; reflexivity.
Qed.

Theorem indirect_body_eq k st gl c :
  Wi st -> cache_get a (off st) (g_cache gl) = Some c ->
  rule_body ustate scfg fcfg hk g (Mrun (8 + k)) A st gl = indirect_body k st c gl.
Proof.
  intros [WA WP] C. cbn [Nat.add]. rewrite rule_body_finishA. unfold indirect_body. f_equal.
  rewrite ee1. unfold idef at 1. cbn [expr_step]. fold idef. rewrite HfdsA.
  cbn [choice_loop]. rewrite ee1. unfold ialt1 at 1. cbn [expr_step].
  rewrite ee1. unfold ifield at 1. cbn [expr_step fname_of].
  rewrite (ws_none ustate scfg tcfg fcfg rcfg hk g A rfA _ st gl _ WA).
  rewrite (p_call_eval k st gl c WP C).
  destruct (p_call k st c gl) as [[v s2|e|pn|] gl']; try reflexivity.
  cbn [c_fields actx].
  destruct (postprocess rfA n_override p v) as [fs|]; [|reflexivity].
  fold ialt1. rewrite HinnerA1. reflexivity.
Qed.

(* below eight levels the body cannot reach the recursive field: it runs out of fuel *)
Lemma indirect_top st gl : Wi st ->
  fst (rule_body ustate scfg fcfg hk g (Mrun 7) A st gl) = MFuel.
Proof.
  intros [WA WP]. rewrite rule_body_finishA.
  rewrite ee1. unfold idef at 1. cbn [expr_step]. fold idef. rewrite HfdsA.
  cbn [choice_loop]. rewrite ee1. unfold ialt1 at 1. cbn [expr_step].
  rewrite ee1. unfold ifield at 1. cbn [expr_step fname_of].
  rewrite (ws_none ustate scfg tcfg fcfg rcfg hk g A rfA _ st gl _ WA).
  rewrite er1. unfold rule_step. rewrite HfindP. unfold memo_wrap. rewrite HlrP, HmemoP.
  rewrite rule_body_finishP.
  rewrite ee1. unfold pdef. cbn [expr_step].
  rewrite ee1. unfold palt at 1. cbn [expr_step]. fold palt. rewrite HfdsP1.
  cbn [seq_loop]. rewrite ee1. unfold precf. cbn [expr_step fname_of].
  unfold with_ws. destruct (c_skip ctxP); reflexivity.
Qed.

Lemma indirect_low F st gl : Wi st -> F < 8 ->
  exists gl2, rule_body ustate scfg fcfg hk g (Mrun F) A st gl = (MFuel, gl2).
Proof.
  intros W L.
  destruct (rule_body ustate scfg fcfg hk g (Mrun F) A st gl) as [r gl2] eqn:E.
  destruct r as [v s|e|pn|]; [exfalso|exfalso|exfalso|exists gl2; reflexivity].
  all: assert (N : nofuel ustate (rule_body ustate scfg fcfg hk g (Mrun F) A st gl)) by (rewrite E; exact I).
  all: assert (Hle : F <= 7) by lia.
  all: pose proof (rule_body_mono ustate scfg fcfg hk g _ _ (run_mono ustate scfg tcfg fcfg rcfg hk g F 7 Hle) A st gl N) as M.
  all: pose proof (indirect_top st gl W) as T; rewrite M, E in T; discriminate T.
Qed.

(* ---- the loop (GrowLoop) ---- *)
Definition IProduced := LProduced ustate scfg rcfg A indirect_body.

Theorem indirect_turn k st best gl :
  Wi st -> cache_get a (off st) (g_cache gl) = Some best ->
  ev_grow (Mrun (S (8 + k))) A st best gl =
  match indirect_body k st best (trace ustate (TInfo 2) gl) with
  | (MOk v st', gl2) =>
    match best with
    | COk _ bst =>
      if is_further_than scfg st' bst
      then ev_grow (Mrun (8 + k)) A st (COk v st') (cache_put ustate a (off st) (COk v st') gl2)
      else (of_cached best, gl2)
    | CErr _ => ev_grow (Mrun (8 + k)) A st (COk v st') (cache_put ustate a (off st) (COk v st') gl2)
    end
  | (MErr e, gl2) =>
    if leftrec_closed rcfg then
      match best with
      | COk _ _ => (of_cached best, gl2)
      | CErr _ => (MErr e, cache_put ustate a (off st) (CErr e) gl2)
      end
    else (MErr e, gl2)
  | (MPanic pn, gl2) => (MPanic pn, gl2)
  | (MFuel, gl2) => (MFuel, gl2)
  end.
Proof.
  intros W C.
  exact (loop_turn ustate scfg tcfg fcfg rcfg hk g A Wi 8 indirect_body indirect_body_eq k st best gl W C).
Qed.

Theorem indirect_parse st (W : Wi st) F gl r gl' :
  cache_get a (off st) (g_cache gl) = None ->
  ev_rule (Mrun F) a st gl = (r, gl') ->
  let sentinel := CErr (report_error scfg st LeftRecursionSentinel) in
  match r with
  | MOk v s' => IProduced st sentinel v s'
  | MErr e => leftrec_closed rcfg = true -> exists k gl0 gl1, indirect_body k st sentinel gl0 = (MErr e, gl1)
  | _ => True
  end.
Proof.
  exact (loop_parse ustate scfg tcfg fcfg rcfg hk g A HfindA HlrA Wi 8 indirect_body indirect_body_eq indirect_low st W F gl r gl').
Qed.

(* ================================================================================================
   The closed form for the indirect style, from GrowLoop.greedy_closed_form: with P's rest and A's
   other alternatives over a clean set (CleanFrame), stateless hooks, strict progress test and the
   seed's failure stored.
   ================================================================================================ *)
Section ClosedI.
Variable clean : name -> bool.
Hypothesis Hclean : forall n, clean n = true -> rule_clean g clean n.
Hypothesis Hinc : forall n r, clean n = true -> find_rule g n = Some r -> eclean clean (r_def r) = true.
Hypothesis Hwsc : clean n_Whitespace = true.
Hypothesis Hx : lclean clean (x1 :: xs) = true.
Hypothesis Hb : lclean clean (b1 :: balts) = true.
Hypothesis Hu : forall u u' : ustate, u = u'.
Hypothesis Hstrict : further_gt scfg = true.
Hypothesis Hclosed : leftrec_closed rcfg = true.

Notation BokI := (Bok ustate scfg tcfg fcfg rcfg hk g A b1 balts rfA fdsA).
Notation BfailI := (Bfail ustate scfg tcfg fcfg rcfg hk g A b1 balts rfA fdsA).

Lemma Ru_anyI (x y : glb) : Ru ustate x y.
Proof. apply Hu. Qed.
Lemma frameI K : Cev ustate clean (Mrun K).
Proof. apply clean_frame; assumption. Qed.

(* the extension: P's rest from s1 with l bound to v, P's value, handed to A through `@:` *)
Definition wrapP (x : R ustate value) : R ustate value :=
  match x with
  | (MOk v st', gl2) => (MOk v st', trace ustate (TResOk (off st')) gl2)
  | (MErr e, gl2) => (MErr e, trace ustate (TResErr e) gl2)
  | other => other
  end.

Definition liftA (st : pstate) (x : R ustate value) : R ustate value :=
  match x with
  | (MOk v s2, gl') =>
    finishA st
      match postprocess rfA n_override p v with
      | Some fs =>
        match convert_arm fdsA innerA1 fs with
        | Some out => (MOk out s2, gl')
        | None => (MPanic PanicShape, gl')
        end
      | None => (MPanic PanicShape, gl')
      end
  | (MErr e, gl') => (MErr e, gl')
  | (MPanic pn, gl') => (MPanic pn, gl')
  | (MFuel, gl') => (MFuel, gl')
  end.

Definition tailI (k : nat) (v : value) (s1 : pstate) (gl : glb) : R ustate fields :=
  match postprocess rfP l a v with
  | Some fs =>
    match seq_merge_vals [] fs with
    | Some acc => seq_loop ustate (Mrun k) ctxP fdsP1 (x1 :: xs) s1 acc gl
    | None => (MPanic PanicShape, gl)
    end
  | None => (MPanic PanicShape, gl)
  end.

Definition ext_runI (k : nat) (st : pstate) (v : value) (s1 : pstate) (gl : glb) : R ustate value :=
  liftA st (wrapP (finishP st (tailI k v s1 gl))).

Definition XokI (st : pstate) (v : value) (s : pstate) (v' : value) (s' : pstate) : Prop :=
  exists k s1 gl s0 gl', Rst s1 s /\ ext_runI k st v s1 gl = (MOk v' s0, gl') /\ Rst s0 s'.
Definition XfailI (st : pstate) (v : value) (s : pstate) : Prop :=
  exists k s1 gl e gl', Rst s1 s /\ ext_runI k st v s1 gl = (MErr e, gl').

Lemma Req_wrapP q1 q2 x y : Req ustate q1 q2 x y -> Req ustate q1 q2 (wrapP x) (wrapP y).
Proof.
  intros [E [U [Ca Cb]]].
  destruct x as [[v s|e|pn|] ga]; destruct y as [[v' s'|e'|pn'|] gb]; cbn [fst snd wrapP] in *;
    cbn [CleanFrame.Rres] in E; try contradiction; repeat split; try assumption; try apply E.
Qed.

Lemma Req_liftA q1 q2 st x y : Req ustate q1 q2 x y -> Req ustate q1 q2 (liftA st x) (liftA st y).
Proof.
  intros [E [U [Ca Cb]]].
  destruct x as [[v s|e|pn|] ga]; destruct y as [[v' s'|e'|pn'|] gb]; cbn [fst snd liftA] in *;
    cbn [CleanFrame.Rres] in E; try contradiction.
  - destruct E as [<- E]. apply (F_finish ustate scfg hk A rfA st st _ _ q1 q2 (Rst_refl st)).
    destruct (postprocess rfA n_override p v) as [fs|]; [|repeat split; assumption].
    destruct (convert_arm fdsA innerA1 fs); repeat split; try reflexivity; try assumption; apply E.
  - repeat split; assumption.
  - repeat split; assumption.
  - repeat split; assumption.
Qed.

Lemma nofuel_wrapP x : nofuel ustate (wrapP x) -> nofuel ustate x.
Proof. destruct x as [[? ?|?|?|] ?]; cbn; auto. Qed.
Lemma nofuel_liftA st x : nofuel ustate (liftA st x) -> nofuel ustate x.
Proof. destruct x as [[? ?|?|?|] ?]; cbn; auto. Qed.

Lemma ext_relI k1 k2 st v sa sb s g1 g2 :
  Rst sa s -> Rst sb s ->
  nofuel ustate (ext_runI k1 st v sa g1) -> nofuel ustate (ext_runI k2 st v sb g2) ->
  Rres (fst (ext_runI k1 st v sa g1)) (fst (ext_runI k2 st v sb g2)).
Proof.
  intros S1 S2 N1 N2. unfold ext_runI in *.
  apply nofuel_liftA, nofuel_wrapP, nofuel_finish in N1. apply nofuel_liftA, nofuel_wrapP, nofuel_finish in N2.
  refine (proj1 (Req_liftA g1 g2 st _ _ (Req_wrapP g1 g2 _ _ (F_finish ustate scfg hk P rfP st st _ _ g1 g2 (Rst_refl st) _)))).
  unfold tailI in *.
  destruct (postprocess rfP l a v) as [fs|]; [|repeat split; try reflexivity; apply Ru_anyI].
  destruct (seq_merge_vals [] fs) as [acc|]; [|repeat split; try reflexivity; apply Ru_anyI].
  pose proof (run_mono ustate scfg tcfg fcfg rcfg hk g k1 (Nat.max k1 k2) (PeanoNat.Nat.le_max_l _ _)) as M1.
  pose proof (run_mono ustate scfg tcfg fcfg rcfg hk g k2 (Nat.max k1 k2) (PeanoNat.Nat.le_max_r _ _)) as M2.
  rewrite <- (seq_loop_mono ustate _ _ M1 ctxP fdsP1 (x1 :: xs) sa acc g1 N1).
  rewrite <- (seq_loop_mono ustate _ _ M2 ctxP fdsP1 (x1 :: xs) sb acc g2 N2).
  assert (S12 : Rst sa sb) by (eapply Rst_trans; [exact S1|apply Rst_sym; exact S2]).
  exact (F_seq_loop ustate clean _ (frameI (Nat.max k1 k2)) ctxP fdsP1 (x1 :: xs) Hx sa sb acc g1 g2 S12 (Ru_anyI _ _)).
Qed.

Lemma XokI_fun st v s v1 s1 v2 s2 : XokI st v s v1 s1 -> XokI st v s v2 s2 -> v1 = v2 /\ Rst s1 s2.
Proof.
  intros (k1 & sa & g1 & t1 & g1' & S1 & E1 & T1) (k2 & sb & g2 & t2 & g2' & S2 & E2 & T2).
  pose proof (ext_relI k1 k2 st v sa sb s g1 g2 S1 S2) as Q. rewrite E1, E2 in Q. cbn in Q.
  destruct (Q I I) as [-> Q2]. split; [reflexivity|].
  eapply Rst_trans; [apply Rst_sym; exact T1|]. eapply Rst_trans; [exact Q2|exact T2].
Qed.

Lemma XokI_not_fail st v s v1 s1 : XokI st v s v1 s1 -> ~ XfailI st v s.
Proof.
  intros (k1 & sa & g1 & t1 & g1' & S1 & E1 & T1) (k2 & sb & g2 & e & g2' & S2 & E2).
  pose proof (ext_relI k1 k2 st v sa sb s g1 g2 S1 S2) as Q. rewrite E1, E2 in Q. cbn in Q. exact (Q I I).
Qed.

Lemma XokI_start st v s s0 v' s' : Rst s s0 -> XokI st v s0 v' s' -> XokI st v s v' s'.
Proof.
  intros S (k & s1 & gl & t & gl' & S1 & E & T). exists k, s1, gl, t, gl'.
  split; [eapply Rst_trans; [exact S1|apply Rst_sym; exact S]|]. split; assumption.
Qed.
Lemma XfailI_start st v s s0 : Rst s s0 -> XfailI st v s0 -> XfailI st v s.
Proof.
  intros S (k & s1 & gl & e & gl' & S1 & E). exists k, s1, gl, e, gl'.
  split; [eapply Rst_trans; [exact S1|apply Rst_sym; exact S]|exact E].
Qed.

(* the turns of `indirect_body` *)
Lemma indirect_seed k st e gl0 r gl1 :
  indirect_body k st (CErr e) gl0 = (r, gl1) ->
  match r with MOk v s => BokI st v s | MErr _ => BfailI st | _ => True end.
Proof.
  unfold indirect_body, p_call, p_resolved. cbn [finish]. intro E.
  destruct r as [v s|e'|pn|]; try exact I.
  - exists (S (S (S (S (S (S (S k))))))), (record_error scfg st e), (trace ustate (TResErr e) (hitg ustate A (CErr e) st (trace ustate (TStart p (off st)) gl0))), s, gl1.
    split; [apply Rst_record_l|]. split; [exact E|apply Rst_refl].
  - exists (S (S (S (S (S (S (S k))))))), (record_error scfg st e), (trace ustate (TResErr e) (hitg ustate A (CErr e) st (trace ustate (TStart p (off st)) gl0))), e', gl1.
    split; [apply Rst_record_l|exact E].
Qed.

Lemma indirect_growth k st v s1 gl0 r gl1 :
  indirect_body k st (COk v s1) gl0 = (r, gl1) ->
  match r with MOk v' s' => XokI st v s1 v' s' | MErr _ => XfailI st v s1 | _ => True end \/
  (XfailI st v s1 /\ match r with MOk v' s' => BokI st v' s' | _ => True end).
Proof.
  intro E.
  set (gp := hitg ustate A (COk v s1) st (trace ustate (TStart p (off st)) gl0)).
  assert (PC : p_call k st (COk v s1) gl0 = wrapP (finishP st (tailI (S (S k)) v s1 gp))).
  { unfold p_call, p_resolved, tailI, wrapP. fold gp.
    destruct (postprocess rfP l a v) as [fs|]; [|reflexivity].
    destruct (seq_merge_vals [] fs) as [acc|]; [|reflexivity].
    destruct (finishP st (seq_loop ustate (Mrun (S (S k))) ctxP fdsP1 (x1 :: xs) s1 acc gp)) as [[? ?|?|?|] ?]; reflexivity. }
  unfold indirect_body in E. rewrite PC in E.
  destruct (wrapP (finishP st (tailI (S (S k)) v s1 gp))) as [[pv s2|e|pn|] g2] eqn:T.
  - left. assert (X : ext_runI (S (S k)) st v s1 gp = (r, gl1)) by (unfold ext_runI; rewrite T; exact E).
    destruct r as [v' s'|e'|pn'|]; try exact I.
    + exists (S (S k)), s1, gp, s', gl1. split; [apply Rst_refl|]. split; [exact X|apply Rst_refl].
    + exists (S (S k)), s1, gp, e', gl1. split; [apply Rst_refl|exact X].
  - right. split.
    + exists (S (S k)), s1, gp, e, g2. split; [apply Rst_refl|]. unfold ext_runI. rewrite T. reflexivity.
    + destruct r as [v' s'|e'|pn'|]; try exact I.
      exists (S (S (S (S (S (S (S k))))))), (record_error scfg st e), g2, s', gl1. split; [apply Rst_record_l|]. split; [exact E|apply Rst_refl].
  - left. cbn in E. injection E as <- _. exact I.
  - left. cbn in E. injection E as <- _. exact I.
Qed.

(* THE CLOSED FORM, recursion through a plain rule *)
Definition StarI := GrowLoop.Star XokI.
Definition StopI := GrowLoop.Stop XokI XfailI.

Theorem indirect_closed_form st (W : Wi st) F gl r gl' :
  cache_get a (off st) (g_cache gl) = None ->
  ev_rule (Mrun F) a st gl = (r, gl') ->
  match r with
  | MOk v s => exists v0 s0, BokI st v0 s0 /\ StarI st v0 s0 v s /\ StopI st v s
  | MErr _ => BfailI st
  | _ => True
  end.
Proof.
  exact (greedy_closed_form ustate scfg tcfg fcfg rcfg hk g A HfindA HlrA Wi 8 indirect_body indirect_body_eq indirect_low
           BokI BfailI XokI XfailI indirect_seed indirect_growth
           (Bok_fun ustate scfg tcfg fcfg rcfg hk g A b1 balts rfA fdsA clean Hclean Hinc Hwsc Hb Hu)
           XokI_fun XokI_not_fail XokI_start XfailI_start Hstrict Hclosed st W F gl r gl').
Qed.

Theorem indirect_greedy_unique st v s va sa vb sb :
  StarI st v s va sa -> StopI st va sa -> StarI st v s vb sb -> StopI st vb sb -> va = vb /\ Rst sa sb.
Proof.
  exact (GrowLoop.greedy_unique ustate scfg tcfg fcfg rcfg hk g A Wi 8 indirect_body indirect_body_eq indirect_low
           BokI BfailI XokI XfailI indirect_seed indirect_growth
           (Bok_fun ustate scfg tcfg fcfg rcfg hk g A b1 balts rfA fdsA clean Hclean Hinc Hwsc Hb Hu)
           XokI_fun XokI_not_fail XokI_start XfailI_start st v s va sa vb sb).
Qed.

End ClosedI.

End Indirect.
