(* Termination of the specification (hence, by the simulation, of the model of
   the generated parser) for well-formed grammars: a grammar that passes
   WellFormed.wf_check makes S return on every input, with a result that no
   longer depends on the recursion bound once the bound is large enough. *)
From Coq Require Import Lia.
From PegV Require Import Utf8 State TerminalsSpec TerminalsOk Syntax Fields FieldsFacts Literals Model Spec WellFormed.

(* ---- induction over expressions (lists of sub-expressions) -------------- *)
Section ExprInd.
Variable P : expr -> Prop.
Hypothesis Hchoice : forall alts, Forall P alts -> P (EChoice alts).
Hypothesis Hseq : forall parts, Forall P parts -> P (ESeq parts).
Hypothesis Hgroup : forall b, P b -> P (EGroup b).
Hypothesis Hopt : forall b, P b -> P (EOptional b).
Hypothesis Hclo : forall b plus, P b -> P (EClosure b plus).
Hypothesis Hneg : forall b, P b -> P (ENeg b).
Hypothesis Hpos : forall b, P b -> P (EPos b).
Hypothesis Hrange : forall a b, P (ERange a b).
Hypothesis Hlit : forall i b, P (ELit i b).
Hypothesis Heoi : P EEoi.
Hypothesis Hinc : forall n, P (EInclude n).
Hypothesis Hfield : forall f b t, P (EField f b t).

Fixpoint expr_ind' (e : expr) : P e :=
  match e with
  | EChoice alts =>
    Hchoice alts ((fix go (l : list expr) : Forall P l :=
                     match l with [] => Forall_nil P | x :: r => Forall_cons x (expr_ind' x) (go r) end) alts)
  | ESeq parts =>
    Hseq parts ((fix go (l : list expr) : Forall P l :=
                   match l with [] => Forall_nil P | x :: r => Forall_cons x (expr_ind' x) (go r) end) parts)
  | EGroup b => Hgroup b (expr_ind' b)
  | EOptional b => Hopt b (expr_ind' b)
  | EClosure b plus => Hclo b plus (expr_ind' b)
  | ENeg b => Hneg b (expr_ind' b)
  | EPos b => Hpos b (expr_ind' b)
  | ERange a b => Hrange a b
  | ELit i b => Hlit i b
  | EEoi => Heoi
  | EInclude n => Hinc n
  | EField f b t => Hfield f b t
  end.
End ExprInd.

(* ---- what the terminals consume ----------------------------------------- *)

Definition term_nonnull (t : term) : bool :=
  match t with
  | TmAny | TmChar _ | TmRange _ _ | TmIChar _ => true
  | TmStr s | TmIStr s => match s with [] => false | _ => true end
  | TmEoi | TmWs => false
  end.

Lemma take_ws_len cs : length (take_ws cs) <= length cs.
Proof. induction cs as [|c r IH]; cbn; [lia|]. destruct (is_ws_char c); cbn; lia. Qed.

Lemma term_match_len t cs m : term_match t cs = Some m ->
  length m <= length cs /\ (term_nonnull t = true -> m <> []).
Proof.
  destruct t; cbn; intro H.
  - destruct cs; [discriminate|]. injection H as <-. cbn. split; [lia|discriminate].
  - destruct cs; [discriminate|]. destruct (N.eqb n c); [|discriminate]. injection H as <-. cbn. split; [lia|discriminate].
  - destruct cs; [discriminate|]. destruct (N.leb a n && N.leb n b); [|discriminate]. injection H as <-. cbn. split; [lia|discriminate].
  - destruct (list_eqb s (firstn (length s) cs)) eqn:E; [|discriminate]. injection H as <-.
    apply list_eqb_eq in E. split.
    + rewrite E at 1. rewrite firstn_length. lia.
    + destruct s; [discriminate|]. intros _. discriminate.
  - destruct (list_eqb s (map lower_char (firstn (length s) cs))) eqn:E; [|discriminate]. injection H as <-.
    apply list_eqb_eq in E. split.
    + rewrite firstn_length. lia.
    + destruct s as [|x s]; [discriminate|]. intros _ C. rewrite C in E. discriminate.
  - destruct cs; [discriminate|]. destruct (N.eqb (lower_char n) c); [|discriminate]. injection H as <-. cbn. split; [lia|discriminate].
  - destruct cs; [|discriminate]. injection H as <-. split; [cbn; lia|discriminate].
  - injection H as <-. split; [apply take_ws_len|discriminate].
Qed.

Lemma skipn_len_le {A} n (l : list A) : length (skipn n l) <= length l.
Proof. rewrite skipn_length. lia. Qed.

Lemma skipn_len_eq {A} (m l : list A) :
  length m <= length l -> length (skipn (length m) l) = length l -> m = [].
Proof. rewrite skipn_length. intros H1 H2. destruct m; [reflexivity|]. cbn in *. lia. Qed.

Lemma decode_items_len body cs : decode_items body = DOk cs -> length cs = length body.
Proof.
  revert cs. induction body as [|i r IH]; intros cs H; cbn in H.
  - injection H as <-. reflexivity.
  - destruct (decode_item i); try discriminate.
    destruct (decode_items r) as [cs'| |]; try discriminate.
    injection H as <-. cbn. f_equal. apply IH. reflexivity.
Qed.

(* a literal with a non-empty body compiles to a matcher that consumes *)
Lemma compile_lit_nonnull gd ins body m :
  compile_lit gd ins body = LOk m -> body <> [] -> term_nonnull (fst (lit_term m)) = true.
Proof.
  unfold compile_lit. destruct (decode_items body) as [cs| |] eqn:D; try discriminate.
  apply decode_items_len in D. intros H Hb.
  assert (Hc : cs <> []) by (destruct body; [congruence|]; destruct cs; [discriminate|discriminate]).
  destruct ins.
  - destruct (gd && negb (forallb is_ascii cs)); [discriminate|].
    destruct cs as [|c1 [|c2 r]]; [congruence| |].
    + cbn in H. injection H as <-. reflexivity.
    + cbn in H. injection H as <-. reflexivity.
  - destruct cs as [|c1 [|c2 r]]; [congruence| |].
    + injection H as <-. reflexivity.
    + injection H as <-. reflexivity.
Qed.

Lemma fg_in (g : grammar) n gr : find_grule g n = Some gr -> In gr g /\ grule_name gr = n.
Proof.
  induction g as [|x g IH]; cbn [find_grule]; [discriminate|].
  destruct (name_eqb (grule_name x) n) eqn:E.
  - intro H. injection H as <-. apply name_eqb_eq in E. split; [left; reflexivity|exact E].
  - intro H. destruct (IH H). split; [right; assumption|assumption].
Qed.

Lemma fr_in (g : grammar) n r : find_rule g n = Some r -> In (GRule r) g /\ r_name r = n.
Proof.
  induction g as [|x g IH]; cbn [find_rule]; [discriminate|].
  destruct x as [r0|c|x0]; try (intro H; destruct (IH H); split; [right; assumption|assumption]).
  destruct (name_eqb (r_name r0) n) eqn:E.
  - intro H. injection H as <-. apply name_eqb_eq in E. split; [left; reflexivity|exact E].
  - intro H. destruct (IH H). split; [right; assumption|assumption].
Qed.

Lemma split_bytes_length cs : forall n m cs', split_bytes n cs = Some (m, cs') -> length cs' <= length cs.
Proof.
  induction cs as [|c r IH]; intros n m cs' H; destruct n; cbn [split_bytes] in H; try discriminate.
  - injection H as _ <-. lia.
  - injection H as _ <-. lia.
  - destruct (Nat.leb (utf8_len c) (S n)); [|discriminate].
    destruct (split_bytes (S n - utf8_len c) r) as [[a b]|] eqn:S1; [|discriminate].
    injection H as _ <-. apply IH in S1. cbn [length]. lia.
Qed.

(* ---- soundness of the nullable over-approximation ------------------------ *)
Section Null.
Variable fcfg : fields_cfg.
Variable shk : shooks.
Variable g : grammar.
Variable insens : bool.
Variable nul : name -> bool.
Hypothesis Hws : nul n_Whitespace = true.
Hypothesis Hnul : forall gr, In gr g -> nul_ok_rule nul gr = true.

Notation enull := (enull nul).

Definition Ne (sv : sevals) : Prop :=
  forall skip e cs o evs cs' o' l, sv_expr sv skip e cs o = SOk evs cs' o' l ->
    length cs' <= length cs /\ (length cs' = length cs -> enull e = true).
Definition Nr (sv : sevals) : Prop :=
  forall n cs o v cs' o' l, sv_rule sv n cs o = SOk v cs' o' l ->
    length cs' <= length cs /\ (length cs' = length cs -> nul n = true).
Definition Nl (sv : sevals) : Prop :=
  forall skip b plus cs o iters evs acc evs' cs' o' l,
    sv_loop sv skip b plus cs o iters evs acc = SOk evs' cs' o' l ->
    length cs' <= length cs /\ (length cs' = length cs -> plus = true -> iters = 0 -> enull b = true).

Section Step.
Variable sv : sevals.
Hypothesis He : Ne sv.
Hypothesis Hr : Nr sv.
Hypothesis Hl : Nl sv.

Lemma s_term_null {A} t sp (val : list N -> A) cs o v cs' o' l :
  s_term t sp val cs o = SOk v cs' o' l ->
  length cs' <= length cs /\ (length cs' = length cs -> term_nonnull t = false).
Proof.
  unfold s_term. destruct (term_match t cs) as [m|] eqn:M; [|discriminate].
  intro H. injection H as _ <- _ _. destruct (term_match_len _ _ _ M) as [L1 L2].
  split; [apply skipn_len_le|]. intro E. apply skipn_len_eq in E; [|exact L1].
  destruct (term_nonnull t); [|reflexivity]. exfalso. apply L2; auto.
Qed.

Lemma s_with_ws_null {A} skip cs o (k : list N -> nat -> sres A) v cs' o' l :
  s_with_ws sv skip cs o k = SOk v cs' o' l ->
  exists cs1 o1 l2, length cs1 <= length cs /\ k cs1 o1 = SOk v cs' o' l2.
Proof.
  unfold s_with_ws. destruct skip; [|intro H; exists cs, o, l; split; [lia|exact H]].
  destruct (sv_rule sv n_Whitespace cs o) as [w cs1 o1 l1| | |] eqn:W; try discriminate.
  destruct (Hr _ _ _ _ _ _ _ W) as [Hle _].
  destruct (k cs1 o1) as [v2 cs2 o2 l2| | |] eqn:K; try discriminate.
  intro H. injection H as <- <- <- _. exists cs1, o1, l2. auto.
Qed.

Lemma s_noev_ok {A} (r : sres A) evs cs' o' l :
  s_noev r = SOk evs cs' o' l -> exists v, r = SOk v cs' o' l.
Proof. destruct r; cbn; try discriminate. intro H. injection H as _ <- <- <-. eauto. Qed.

Lemma s_choice_null skip alts : forall cs o acc evs cs' o' l,
  s_choice sv skip alts cs o acc = SOk evs cs' o' l ->
  length cs' <= length cs /\ (length cs' = length cs -> existsb enull alts = true).
Proof.
  induction alts as [|a alts IH]; intros cs o acc evs cs' o' l H; cbn in H; [discriminate|].
  destruct (sv_expr sv skip a cs o) as [e1 cs1 o1 l1|l1| |] eqn:E; try discriminate.
  - injection H as _ <- _ _. destruct (He _ _ _ _ _ _ _ _ E) as [A1 A2]. split; [exact A1|].
    intro Q. cbn. rewrite (A2 Q). reflexivity.
  - destruct (IH _ _ _ _ _ _ _ H) as [A1 A2]. split; [exact A1|]. intro Q. cbn. rewrite (A2 Q). apply Bool.orb_true_r.
Qed.

Lemma s_seq_null skip parts : forall cs o evs0 acc evs cs' o' l,
  s_seq sv skip parts cs o evs0 acc = SOk evs cs' o' l ->
  length cs' <= length cs /\ (length cs' = length cs -> forallb enull parts = true).
Proof.
  induction parts as [|p ps IH]; intros cs o evs0 acc evs cs' o' l H; cbn in H.
  - injection H as _ <- _ _. split; [lia|reflexivity].
  - destruct (sv_expr sv skip p cs o) as [e1 cs1 o1 l1|l1| |] eqn:E; try discriminate.
    destruct (He _ _ _ _ _ _ _ _ E) as [A1 A2]. destruct (IH _ _ _ _ _ _ _ _ H) as [B1 B2].
    split; [lia|]. intro Q. cbn. rewrite A2 by lia. rewrite B2 by lia. reflexivity.
Qed.

Lemma sexpr_step_null : Ne (sstep fcfg shk g insens sv).
Proof.
  intros skip e cs o evs cs' o' l H. cbn [sstep sv_expr] in H. unfold sexpr_step in H.
  destruct e as [alts|parts|b|b|b plus|b|b|from to|ins body| |n|fn boxed typ].
  - destruct alts as [|a [|a2 alts]]; [discriminate| |].
    + destruct (He _ _ _ _ _ _ _ _ H) as [A1 A2]. split; [exact A1|]. intro Q. cbn. rewrite (A2 Q). reflexivity.
    + eapply s_choice_null; eauto.
  - destruct parts as [|p [|p2 parts]].
    + injection H as _ <- _ _. split; [lia|reflexivity].
    + destruct (He _ _ _ _ _ _ _ _ H) as [A1 A2]. split; [exact A1|]. intro Q. cbn. rewrite (A2 Q). reflexivity.
    + eapply s_seq_null; eauto.
  - exact (He _ _ _ _ _ _ _ _ H).
  - destruct (sv_expr sv skip b cs o) as [e1 cs1 o1 l1|l1| |] eqn:E; try discriminate.
    + injection H as _ <- _ _. destruct (He _ _ _ _ _ _ _ _ E). split; [assumption|reflexivity].
    + injection H as _ <- _ _. split; [lia|reflexivity].
  - destruct (Hl _ _ _ _ _ _ _ _ _ _ _ _ H) as [A1 A2]. split; [exact A1|]. intro Q. cbn.
    destruct plus; [|reflexivity]. apply A2; auto.
  - destruct (sv_expr sv skip b cs o); try discriminate. injection H as _ <- _ _. split; [lia|reflexivity].
  - destruct (sv_expr sv skip b cs o); try discriminate. injection H as _ <- _ _. split; [lia|reflexivity].
  - destruct (compile_range from to) as [a b| |]; try discriminate.
    apply s_noev_ok in H. destruct H as [v H]. apply s_with_ws_null in H. destruct H as (cs1 & o1 & l2 & L & H).
    apply s_term_null in H. destruct H as [A1 A2]. split; [lia|]. intro Q. assert (Q' : length cs' = length cs1) by lia.
    specialize (A2 Q'). discriminate.
  - destruct (compile_lit insens ins body) as [m| | |] eqn:C; try discriminate.
    destruct (lit_term m) as [t sp] eqn:LT.
    apply s_noev_ok in H. destruct H as [v H]. apply s_with_ws_null in H. destruct H as (cs1 & o1 & l2 & L & H).
    apply s_term_null in H. destruct H as [A1 A2]. split; [lia|]. intro Q. assert (Q' : length cs' = length cs1) by lia.
    specialize (A2 Q'). cbn. destruct body as [|i body]; [reflexivity|].
    assert (K : term_nonnull (fst (lit_term m)) = true) by (eapply compile_lit_nonnull; [exact C|discriminate]).
    rewrite LT in K. cbn in K. congruence.
  - apply s_noev_ok in H. destruct H as [v H]. apply s_with_ws_null in H. destruct H as (cs1 & o1 & l2 & L & H).
    apply s_term_null in H. destruct H as [A1 A2]. split; [lia|reflexivity].
  - destruct (find_rule g n) as [r|] eqn:F; [|discriminate].
    destruct (He _ _ _ _ _ _ _ _ H) as [A1 A2]. split; [exact A1|]. intro Q. cbn.
    destruct (fr_in _ _ _ F) as [I1 I2]. pose proof (Hnul _ I1) as K. cbn in K. rewrite (A2 Q) in K. cbn in K.
    rewrite <- I2. exact K.
  - match type of H with match ?X with _ => _ end = _ => destruct X as [v cs2 o2 l2|l2| |] eqn:W end; try discriminate.
    injection H as _ <- _ _. apply s_with_ws_null in W. destruct W as (cs1 & o1 & l3 & L & W).
    destruct (Hr _ _ _ _ _ _ _ W) as [A1 A2]. split; [lia|]. intro Q. cbn. apply A2. lia.
Qed.

Lemma sloop_step_null : Nl (sstep fcfg shk g insens sv).
Proof.
  intros skip b plus cs o iters evs0 accl evs cs' o' l H. cbn [sstep sv_loop] in H. unfold sloop_step in H.
  destruct (sv_expr sv skip b cs o) as [e1 cs1 o1 l1|l1| |] eqn:E; try discriminate.
  - destruct (He _ _ _ _ _ _ _ _ E) as [A1 A2]. destruct (Hl _ _ _ _ _ _ _ _ _ _ _ _ H) as [B1 B2].
    split; [lia|]. intros Q _ _. apply A2. lia.
  - destruct (plus && Nat.eqb iters 0) eqn:PI; [discriminate|]. injection H as _ <- _ _. split; [lia|].
    intros _ -> ->. discriminate.
Qed.

Lemma s_char_parts_null ps : forall cs o v cs' o' l,
  s_char_parts sv ps cs o = SOk v cs' o' l ->
  length cs' <= length cs /\
  (length cs' = length cs -> existsb (fun p => match p with CPIdent m => nul m | _ => false end) ps = true).
Proof.
  induction ps as [|pt ps IH]; intros cs o v cs' o' l H; cbn [s_char_parts] in H; [discriminate|].
  destruct pt as [i|a b|n].
  - destruct (decode_item i) as [c| |]; try discriminate.
    destruct (term_match (TmChar c) cs) as [m|] eqn:M.
    + injection H as _ <- _ _. destruct (term_match_len _ _ _ M) as [L1 L2]. split; [apply skipn_len_le|].
      intro Q. apply skipn_len_eq in Q; [|exact L1]. exfalso. apply L2; auto.
    + destruct (IH _ _ _ _ _ _ H) as [A1 A2]. split; [exact A1|]. intro Q. cbn. apply A2. exact Q.
  - destruct (compile_range a b) as [x y| |]; try discriminate.
    destruct (term_match (TmRange x y) cs) as [m|] eqn:M.
    + injection H as _ <- _ _. destruct (term_match_len _ _ _ M) as [L1 L2]. split; [apply skipn_len_le|].
      intro Q. apply skipn_len_eq in Q; [|exact L1]. exfalso. apply L2; auto.
    + destruct (IH _ _ _ _ _ _ H) as [A1 A2]. split; [exact A1|]. intro Q. cbn. apply A2. exact Q.
  - destruct (sv_rule sv n cs o) as [v1 cs1 o1 l1|l1| |] eqn:R; try discriminate.
    + injection H as _ <- _ _. destruct (Hr _ _ _ _ _ _ _ R) as [A1 A2]. split; [exact A1|]. intro Q. cbn.
      rewrite (A2 Q). reflexivity.
    + destruct (IH _ _ _ _ _ _ H) as [A1 A2]. split; [exact A1|]. intro Q. cbn. rewrite (A2 Q). apply Bool.orb_true_r.
Qed.

Lemma srule_step_null : Nr (sstep fcfg shk g insens sv).
Proof.
  intros nm cs o v cs' o' l H. cbn [sstep sv_rule] in H. unfold srule_step in H.
  destruct (find_grule g nm) as [[r|r|r]|] eqn:F.
  - destruct (fl_left_recursive (flags_of (r_directives r))); [discriminate|].
    destruct (sv_expr sv (negb (fl_no_skip_ws (flags_of (r_directives r)))) (r_def r) cs o)
      as [evs cs1 o1 l1|l1| |] eqn:E; try discriminate.
    destruct (shape fcfg g r (firstn (length cs - length cs1) cs) (o, o1) evs) as [v1|]; [|discriminate].
    destruct (s_checks shk (checks_of (r_directives r)) v1 o1); [discriminate|].
    injection H as _ <- _ _. destruct (He _ _ _ _ _ _ _ _ E) as [A1 A2]. split; [exact A1|]. intro Q.
    destruct (fg_in _ _ _ F) as [I1 I2]. pose proof (Hnul _ I1) as K. cbn in K. rewrite (A2 Q) in K. cbn in K, I2.
    rewrite <- I2. exact K.
  - cbn zeta in H.
    match type of H with (if ?c then _ else _) = _ => destruct c; [|discriminate] end.
    destruct (s_char_parts sv (cr_choices r) cs o) as [v1 cs1 o1 l1|l1| |] eqn:P; try discriminate.
    injection H as _ <- _ _. destruct (s_char_parts_null _ _ _ _ _ _ _ P) as [A1 A2]. split; [exact A1|]. intro Q.
    destruct (fg_in _ _ _ F) as [I1 I2]. pose proof (Hnul _ I1) as K. cbn in K. rewrite (A2 Q) in K. cbn in K, I2.
    rewrite <- I2. exact K.
  - destruct (sh_extern shk (er_function r) (encode_str cs)) as [[v1 n]|msg]; [|discriminate].
    destruct (split_bytes n cs) as [[m cs1]|] eqn:SB; [|discriminate].
    injection H as _ <- _ _. split; [eapply split_bytes_length; eauto|]. intros _.
    destruct (fg_in _ _ _ F) as [I1 I2]. pose proof (Hnul _ I1) as K. cbn in K, I2. rewrite <- I2. exact K.
  - destruct (name_eqb nm n_char).
    + apply s_term_null in H. destruct H as [A1 A2]. split; [exact A1|]. intro Q. specialize (A2 Q). discriminate.
    + destruct (name_eqb nm n_Whitespace) eqn:W; [|discriminate]. apply name_eqb_eq in W. subst nm.
      apply s_term_null in H. destruct H as [A1 _]. split; [exact A1|]. intros _. exact Hws.
Qed.

End Step.

Theorem null_sound n :
  Ne (srun fcfg shk g insens n) /\ Nr (srun fcfg shk g insens n) /\ Nl (srun fcfg shk g insens n).
Proof.
  induction n as [|n [He [Hr Hl]]].
  - split; [|split]; unfold Ne, Nr, Nl; cbn; intros; discriminate.
  - split; [|split]; [apply sexpr_step_null|apply srule_step_null|apply sloop_step_null]; auto.
Qed.

End Null.

(* ---- weakening of the bound ----------------------------------------------- *)
Section Weaken.
Variable nul : name -> bool.
Variable rk : runit -> nat.

Lemma wfe_seq_eq k s parts : wfe nul rk k s (ESeq parts) = wfseq nul rk k s parts.
Proof. cbn [wfe]. revert k. induction parts as [|p ps IH]; intro k; cbn [wfseq]; [reflexivity|]. rewrite IH. reflexivity. Qed.

Lemma bound_ok_none u : bound_ok rk None u = true.
Proof. reflexivity. Qed.

Lemma ws_ok_weaken k s : ws_ok rk k s = true -> ws_ok rk None s = true.
Proof. destruct s; reflexivity. Qed.

Lemma wfe_weaken : forall e k s, wfe nul rk k s e = true -> wfe nul rk None s e = true.
Proof.
  induction e using expr_ind'; intros k s W.
  - cbn [wfe] in *. rewrite forallb_forall in *. intros x Hx. rewrite Forall_forall in H. eapply H; eauto.
  - rewrite wfe_seq_eq in *. revert k W. induction H as [|p ps Hp Hps IH]; intros k W; [reflexivity|].
    cbn [wfseq] in *. apply andb_prop in W. destruct W as [W1 W2]. rewrite (Hp _ _ W1). cbn.
    destruct (enull nul p); eapply IH; eauto.
  - cbn [wfe] in *. eauto.
  - cbn [wfe] in *. eauto.
  - cbn [wfe] in *. apply andb_prop in W. destruct W as [W1 W2]. rewrite (IHe _ _ W1), W2. reflexivity.
  - cbn [wfe] in *. eauto.
  - cbn [wfe] in *. eauto.
  - cbn [wfe] in *. eapply ws_ok_weaken; eauto.
  - cbn [wfe] in *. eapply ws_ok_weaken; eauto.
  - cbn [wfe] in *. eapply ws_ok_weaken; eauto.
  - reflexivity.
  - cbn [wfe] in *. apply andb_prop in W. destruct W as [W1 _]. rewrite (ws_ok_weaken _ _ W1). reflexivity.
Qed.

Lemma wfseq_weaken ps : forall k s, wfseq nul rk k s ps = true -> wfseq nul rk None s ps = true.
Proof. intros k s W. rewrite <- wfe_seq_eq in *. eapply wfe_weaken; eauto. Qed.

End Weaken.

(* ---- termination ------------------------------------------------------------ *)
Section Term.
Variable fcfg : fields_cfg.
Variable shk : shooks.
Variable g : grammar.
Variable insens : bool.
Variable nul : name -> bool.
Variable rk : runit -> nat.
Hypothesis WF : wf_check g nul rk = true.

Notation run := (srun fcfg shk g insens).
Notation enull := (enull nul).
Notation wfe := (wfe nul rk).
Notation wfseq := (wfseq nul rk).

Lemma wf_ws : nul n_Whitespace = true.
Proof. unfold wf_check in WF. apply andb_prop in WF. destruct WF as [W _]. apply andb_prop in W. tauto. Qed.

Lemma wf_nul gr : In gr g -> nul_ok_rule nul gr = true.
Proof.
  unfold wf_check in WF. apply andb_prop in WF. destruct WF as [W _]. apply andb_prop in W. destruct W as [_ W].
  rewrite forallb_forall in W. auto.
Qed.

Lemma wf_rank gr : In gr g -> rank_ok_rule nul rk gr = true.
Proof. unfold wf_check in WF. apply andb_prop in WF. destruct WF as [_ W]. rewrite forallb_forall in W. auto. Qed.

Definition ne f := proj1 (null_sound fcfg shk g insens nul wf_ws wf_nul f).
Definition nr f := proj1 (proj2 (null_sound fcfg shk g insens nul wf_ws wf_nul f)).
Definition nl f := proj2 (proj2 (null_sound fcfg shk g insens nul wf_ws wf_nul f)).

(* the result no longer depends on the bound once the bound is large enough *)
Definition conv {A} (h : nat -> sres A) : Prop :=
  exists F r, r <> SFuel /\ forall f, F <= f -> h f = r.

Definition conv_e skip e cs o := conv (fun f => sv_expr (run f) skip e cs o).
Definition conv_r n cs o := conv (fun f => sv_rule (run f) n cs o).
Definition conv_l skip b plus cs o iters evs acc := conv (fun f => sv_loop (run f) skip b plus cs o iters evs acc).

Lemma conv_const {A} (r : sres A) : r <> SFuel -> conv (fun _ => r).
Proof. intro H. exists 0, r. auto. Qed.

Lemma conv_map {A B} (h : nat -> sres A) (F : sres A -> sres B) :
  (forall r, r <> SFuel -> F r <> SFuel) -> conv h -> conv (fun f => F (h f)).
Proof. intros HF (F0 & r & N & H). exists F0, (F r). split; [auto|]. intros f Hf. rewrite H by exact Hf. reflexivity. Qed.

Lemma conv_ext {A} (h h' : nat -> sres A) : (forall f, h f = h' f) -> conv h -> conv h'.
Proof. intros E (F0 & r & N & H). exists F0, r. split; [exact N|]. intros f Hf. rewrite <- E. auto. Qed.

Lemma conv_shift {A} (h : nat -> sres A) : conv (fun f => h f) -> conv (fun f => match f with O => SFuel | S f' => h f' end).
Proof.
  intros (F0 & r & N & H). exists (S F0), r. split; [exact N|]. intros f Hf. destruct f; [lia|]. apply H. lia.
Qed.

Lemma step_e skip e cs o :
  conv (fun f => sv_expr (sstep fcfg shk g insens (run f)) skip e cs o) -> conv_e skip e cs o.
Proof. intro H. apply conv_shift in H. eapply conv_ext; [|exact H]. intros [|f]; reflexivity. Qed.

Lemma step_r n cs o :
  conv (fun f => sv_rule (sstep fcfg shk g insens (run f)) n cs o) -> conv_r n cs o.
Proof. intro H. apply conv_shift in H. eapply conv_ext; [|exact H]. intros [|f]; reflexivity. Qed.

Lemma step_l skip b plus cs o iters evs acc :
  conv (fun f => sv_loop (sstep fcfg shk g insens (run f)) skip b plus cs o iters evs acc) -> conv_l skip b plus cs o iters evs acc.
Proof. intro H. apply conv_shift in H. eapply conv_ext; [|exact H]. intros [|f]; reflexivity. Qed.

(* sequencing two bounded computations *)
Lemma conv_bind {A B} (h : nat -> sres A) (K : sres A -> nat -> sres B) :
  conv h -> (forall r, r <> SFuel -> (exists f, h f = r) -> conv (K r)) -> conv (fun f => K (h f) f).
Proof.
  intros (F1 & r1 & N1 & H1) HK.
  destruct (HK r1 N1 (ex_intro _ F1 (H1 F1 (le_n _)))) as (F2 & r2 & N2 & H2).
  exists (Nat.max F1 F2), r2. split; [exact N2|]. intros f Hf. rewrite H1 by lia. apply H2. lia.
Qed.

Lemma conv_term {A} t sp (v : list N -> A) cs o : conv (fun _ => s_term t sp v cs o).
Proof. apply conv_const. unfold s_term. destruct (term_match t cs); discriminate. Qed.

Lemma conv_with_ws {A} skip cs o (kf : sevals -> list N -> nat -> sres A) :
  (skip = true -> conv_r n_Whitespace cs o) ->
  (forall cs1 o1, length cs1 <= length cs -> conv (fun f => kf (run f) cs1 o1)) ->
  conv (fun f => s_with_ws (run f) skip cs o (kf (run f))).
Proof.
  intros Hw Hk. unfold s_with_ws. destruct skip; [|apply Hk; lia].
  apply (conv_bind (fun f => sv_rule (run f) n_Whitespace cs o)
           (fun r f => match r with
                       | SOk _ cs1 o1 l1 =>
                         match kf (run f) cs1 o1 with
                         | SOk v cs2 o2 l2 => SOk v cs2 o2 (l1 ++ l2)
                         | SFail l2 => SFail (l1 ++ l2)
                         | SStuck => SStuck
                         | SFuel => SFuel
                         end
                       | SFail l1 => SFail l1
                       | SStuck => SStuck
                       | SFuel => SFuel
                       end)); [apply Hw; reflexivity|].
  intros r N [f0 E]. destruct r as [w cs1 o1 l1|l1| |]; try (apply conv_const; congruence).
  destruct (nr f0 _ _ _ _ _ _ _ E) as [L _].
  apply (conv_map (fun f => kf (run f) cs1 o1)
           (fun r => match r with
                     | SOk v cs2 o2 l2 => SOk v cs2 o2 (l1 ++ l2)
                     | SFail l2 => SFail (l1 ++ l2)
                     | SStuck => SStuck
                     | SFuel => SFuel
                     end)); [|apply Hk; exact L].
  intros r Nr'. destruct r; congruence.
Qed.

Record All (len : nat) : Prop := {
  all_r : forall n cs o, length cs = len -> conv_r n cs o;
  all_e : forall skip e cs o, length cs = len -> wfe None skip e = true -> conv_e skip e cs o;
  all_l : forall skip b plus cs o iters evs acc, length cs = len ->
            wfe None skip b = true -> enull b = false -> conv_l skip b plus cs o iters evs acc
}.

Section Core.
Variable len : nat.
Hypothesis IHlen : forall len', len' < len -> All len'.
Variable k : option nat.
Hypothesis Hk : forall n, bound_ok rk k (UCall n) = true -> forall cs o, length cs = len -> conv_r n cs o.
Hypothesis Hki : forall s n r, bound_ok rk k (UInc s n) = true -> find_rule g n = Some r ->
                   forall cs o, length cs = len -> conv_e s (r_def r) cs o.

Definition kat (cs : list N) : option nat := if Nat.eqb (length cs) len then k else None.

Definition Pcore (e : expr) : Prop :=
  forall skip cs o, length cs = len -> wfe k skip e = true -> conv_e skip e cs o.

Lemma conv_any e : Pcore e -> forall skip cs o, length cs <= len -> wfe (kat cs) skip e = true -> conv_e skip e cs o.
Proof.
  intros P skip cs o L W. unfold kat in W. destruct (Nat.eqb (length cs) len) eqn:E.
  - apply Nat.eqb_eq in E. apply P; auto.
  - apply Nat.eqb_neq in E. apply (all_e _ (IHlen (length cs) ltac:(lia))); auto.
Qed.

Lemma conv_call n cs o : length cs <= len -> bound_ok rk (kat cs) (UCall n) = true -> conv_r n cs o.
Proof.
  intros L W. unfold kat in W. destruct (Nat.eqb (length cs) len) eqn:E.
  - apply Nat.eqb_eq in E. apply Hk; auto.
  - apply Nat.eqb_neq in E. apply (all_r _ (IHlen (length cs) ltac:(lia))); auto.
Qed.

Lemma kat_le cs cs1 u : length cs1 <= length cs -> length cs <= len ->
  bound_ok rk (kat cs) u = true -> bound_ok rk (kat cs1) u = true.
Proof.
  intros L1 L2 W. unfold kat in *. destruct (Nat.eqb (length cs1) len) eqn:E1; [|reflexivity].
  apply Nat.eqb_eq in E1. assert (E : length cs = len) by lia. apply Nat.eqb_eq in E. rewrite E in W. exact W.
Qed.

(* whitespace, then a terminal *)
Lemma conv_ws_term skip cs o t sp : length cs <= len -> ws_ok rk (kat cs) skip = true ->
  conv (fun f => s_noev (s_with_ws (run f) skip cs o (s_term t sp (fun _ => tt)))).
Proof.
  intros L W.
  apply (conv_map (fun f => s_with_ws (run f) skip cs o (s_term t sp (fun _ => tt))) s_noev).
  - intros r N. destruct r; cbn; congruence.
  - apply (conv_with_ws skip cs o (fun _ => s_term t sp (fun _ => tt))).
    + intros ->. apply conv_call; auto.
    + intros cs1 o1 _. apply conv_term.
Qed.

Lemma conv_choice skip cs o alts : Forall (fun a => conv_e skip a cs o) alts ->
  forall acc, conv (fun f => s_choice (run f) skip alts cs o acc).
Proof.
  induction 1 as [|a alts Ha Halts IH]; intro acc; cbn [s_choice]; [apply conv_const; discriminate|].
  apply (conv_bind (fun f => sv_expr (run f) skip a cs o)
           (fun r f => match r with
                       | SOk evs cs' o' l => SOk evs cs' o' (acc ++ l)
                       | SFail l => s_choice (run f) skip alts cs o (acc ++ l)
                       | SStuck => SStuck
                       | SFuel => SFuel
                       end)); [exact Ha|].
  intros r N _. destruct r as [e1 cs1 o1 l1|l1| |]; try (apply conv_const; congruence). apply IH.
Qed.

Lemma conv_seq skip parts : Forall Pcore parts ->
  forall cs o evs acc, length cs <= len -> wfseq (kat cs) skip parts = true ->
    conv (fun f => s_seq (run f) skip parts cs o evs acc).
Proof.
  induction 1 as [|p ps Hp Hps IH]; intros cs o evs acc L W; cbn [s_seq]; [apply conv_const; discriminate|].
  cbn [WellFormed.wfseq] in W. apply andb_prop in W. destruct W as [W1 W2].
  apply (conv_bind (fun f => sv_expr (run f) skip p cs o)
           (fun r f => match r with
                       | SOk e1 cs' o' l => s_seq (run f) skip ps cs' o' (evs ++ e1) (acc ++ l)
                       | SFail l => SFail (acc ++ l)
                       | SStuck => SStuck
                       | SFuel => SFuel
                       end)); [apply conv_any; auto|].
  intros r N [f0 E]. destruct r as [e1 cs1 o1 l1|l1| |]; try (apply conv_const; congruence).
  destruct (ne f0 _ _ _ _ _ _ _ _ E) as [A1 A2]. apply IH; [lia|].
  unfold kat in *. destruct (Nat.eqb (length cs1) len) eqn:E1.
  - apply Nat.eqb_eq in E1. assert (E0 : length cs = len) by lia.
    rewrite A2 in W2 by lia. apply Nat.eqb_eq in E0. rewrite E0 in W2. exact W2.
  - eapply wfseq_weaken; eauto.
Qed.

Lemma conv_loop skip b plus cs o iters evs acc :
  Pcore b -> length cs = len -> wfe k skip b = true -> enull b = false ->
  conv_l skip b plus cs o iters evs acc.
Proof.
  intros P L W Nb. apply step_l. cbn [sstep sv_loop]. unfold sloop_step.
  apply (conv_bind (fun f => sv_expr (run f) skip b cs o)
           (fun r f => match r with
                       | SOk e1 cs' o' l => sv_loop (run f) skip b plus cs' o' (S iters) (evs ++ e1) (acc ++ l)
                       | SFail l => if plus && Nat.eqb iters 0 then SFail (acc ++ l) else SOk evs cs o (acc ++ l)
                       | SStuck => SStuck
                       | SFuel => SFuel
                       end)); [apply P; auto|].
  intros r N [f0 E]. destruct r as [e1 cs1 o1 l1|l1| |]; try (apply conv_const; congruence).
  - destruct (ne f0 _ _ _ _ _ _ _ _ E) as [A1 A2].
    assert (Lt : length cs1 < len).
    { destruct (Nat.eq_dec (length cs1) (length cs)) as [Q|Q]; [|lia]. rewrite (A2 Q) in Nb. discriminate. }
    apply (all_l _ (IHlen _ Lt)); [reflexivity| |exact Nb]. eapply wfe_weaken; eauto.
  - apply conv_const. destruct (plus && Nat.eqb iters 0); discriminate.
Qed.

Lemma core : forall e, Pcore e.
Proof.
  induction e using expr_ind'; intros skip cs o L W; apply step_e; cbn [sstep sv_expr]; unfold sexpr_step.
  - (* choice *)
    cbn [WellFormed.wfe] in W. rewrite forallb_forall in W. rewrite Forall_forall in H.
    assert (HA : Forall (fun a => conv_e skip a cs o) alts).
    { apply Forall_forall. intros a Ha. apply (H a Ha); auto. }
    destruct alts as [|a [|a2 alts]].
    + apply conv_const. discriminate.
    + inversion HA; subst. assumption.
    + apply conv_choice. exact HA.
  - (* sequence *)
    rewrite wfe_seq_eq in W.
    destruct parts as [|p [|p2 parts]].
    + apply conv_const. discriminate.
    + inversion H; subst. cbn [WellFormed.wfseq] in W. apply andb_prop in W. destruct W as [W _]. apply H2; auto.
    + apply conv_seq; [exact H|lia|]. unfold kat. rewrite L, Nat.eqb_refl. exact W.
  - (* group *) cbn [WellFormed.wfe] in W. apply IHe; auto.
  - (* optional *)
    cbn [WellFormed.wfe] in W.
    apply (conv_map (fun f => sv_expr (run f) skip e cs o)
             (fun r => match r with
                       | SOk evs cs' o' l => SOk evs cs' o' l
                       | SFail l => SOk [] cs o l
                       | SStuck => SStuck
                       | SFuel => SFuel
                       end)); [|apply IHe; auto].
    intros r N. destruct r; congruence.
  - (* closure *)
    cbn [WellFormed.wfe] in W. apply andb_prop in W. destruct W as [W1 W2]. apply Bool.negb_true_iff in W2.
    apply conv_loop; auto.
  - (* negative lookahead *)
    cbn [WellFormed.wfe] in W.
    apply (conv_map (fun f => sv_expr (run f) skip e cs o)
             (fun r => match r with
                       | SOk _ _ _ _ => SFail [ {| e_pos := o; e_spec := NegativeLookaheadFailed |} ]
                       | SFail _ => SOk [] cs o []
                       | SStuck => SStuck
                       | SFuel => SFuel
                       end)); [|apply IHe; auto].
    intros r N. destruct r; congruence.
  - (* positive lookahead *)
    cbn [WellFormed.wfe] in W.
    apply (conv_map (fun f => sv_expr (run f) skip e cs o)
             (fun r => match r with
                       | SOk _ _ _ _ => SOk [] cs o []
                       | SFail l => SFail l
                       | SStuck => SStuck
                       | SFuel => SFuel
                       end)); [|apply IHe; auto].
    intros r N. destruct r; congruence.
  - (* range *)
    cbn [WellFormed.wfe] in W. destruct (compile_range a b) as [x y| |]; try (apply conv_const; discriminate).
    apply conv_ws_term; [lia|]. unfold kat. rewrite L, Nat.eqb_refl. exact W.
  - (* literal *)
    cbn [WellFormed.wfe] in W. destruct (compile_lit insens i b) as [m| | |]; try (apply conv_const; discriminate).
    destruct (lit_term m) as [t sp].
    apply conv_ws_term; [lia|]. unfold kat. rewrite L, Nat.eqb_refl. exact W.
  - (* end of input *)
    cbn [WellFormed.wfe] in W. apply conv_ws_term; [lia|]. unfold kat. rewrite L, Nat.eqb_refl. exact W.
  - (* include *)
    cbn [WellFormed.wfe] in W. destruct (find_rule g n) as [r|] eqn:F; [|apply conv_const; discriminate].
    eapply Hki; eauto.
  - (* field *)
    cbn [WellFormed.wfe] in W. apply andb_prop in W. destruct W as [W1 W2].
    apply (conv_map (fun f => s_with_ws (run f) skip cs o (fun cs o => sv_rule (run f) t cs o))
             (fun r => match r with
                       | SOk v cs' o' l =>
                         SOk (match fname_of f with
                              | Some n => [ {| ev_field := n; ev_typ := t; ev_val := v |} ]
                              | None => []
                              end) cs' o' l
                       | SFail l => SFail l
                       | SStuck => SStuck
                       | SFuel => SFuel
                       end)).
    + intros r N. destruct r; congruence.
    + apply (conv_with_ws skip cs o (fun sv cs o => sv_rule sv t cs o)).
      * intros ->. apply Hk; auto.
      * intros cs1 o1 L1. apply conv_call; [lia|]. apply (kat_le cs); [exact L1|lia|].
        unfold kat. rewrite L, Nat.eqb_refl. exact W2.
Qed.

End Core.

Lemma conv_char_parts cs o ps :
  (forall m, In (CPIdent m) ps -> conv_r m cs o) ->
  conv (fun f => s_char_parts (run f) ps cs o).
Proof.
  induction ps as [|pt ps IH]; intro H; cbn [s_char_parts]; [apply conv_const; discriminate|].
  assert (IH' : conv (fun f => s_char_parts (run f) ps cs o)) by (apply IH; intros m Hm; apply H; right; exact Hm).
  destruct pt as [i|a b|n].
  - destruct (decode_item i) as [c| |]; try (apply conv_const; discriminate).
    destruct (term_match (TmChar c) cs); [apply conv_const; discriminate|exact IH'].
  - destruct (compile_range a b) as [x y| |]; try (apply conv_const; discriminate).
    destruct (term_match (TmRange x y) cs); [apply conv_const; discriminate|exact IH'].
  - apply (conv_bind (fun f => sv_rule (run f) n cs o)
             (fun r f => match r with
                         | SOk v cs' o' l => SOk v cs' o' l
                         | SFail _ => s_char_parts (run f) ps cs o
                         | SStuck => SStuck
                         | SFuel => SFuel
                         end)); [apply H; left; reflexivity|].
    intros r N _. destruct r; try (apply conv_const; congruence). exact IH'.
Qed.

(* every unit of recursion returns at this length, by induction on its rank *)
Lemma units_conv len : (forall len', len' < len -> All len') ->
  forall R,
    (forall n, rk (UCall n) < R -> forall cs o, length cs = len -> conv_r n cs o) /\
    (forall s n r, rk (UInc s n) < R -> find_rule g n = Some r ->
       forall cs o, length cs = len -> conv_e s (r_def r) cs o).
Proof.
  intros IHlen. induction R as [|R [IH1 IH2]]; [split; intros; lia|].
  assert (CORE : forall r0, r0 <= R -> forall e, Pcore len (Some r0) e).
  { intros r0 Hr0. apply core; [exact IHlen| |].
    - intros n B. cbn in B. apply Nat.ltb_lt in B. apply IH1. lia.
    - intros s n r B. cbn in B. apply Nat.ltb_lt in B. apply IH2. lia. }
  split.
  - intros n Hn cs o L. apply step_r. cbn [sstep sv_rule]. unfold srule_step.
    destruct (find_grule g n) as [[r|r|r]|] eqn:F.
    + destruct (fg_in _ _ _ F) as [I1 I2]. cbn in I2. pose proof (wf_rank _ I1) as K. cbn [rank_ok_rule] in K.
      apply andb_prop in K. destruct K as [K _]. apply andb_prop in K. destruct K as [K _].
      destruct (fl_left_recursive (flags_of (r_directives r))); [apply conv_const; discriminate|].
      cbn [orb] in K. rewrite I2 in K.
      apply (conv_map (fun f => sv_expr (run f) (negb (fl_no_skip_ws (flags_of (r_directives r)))) (r_def r) cs o)
               (fun x => match x with
                         | SOk evs cs' o' l =>
                           match shape fcfg g r (firstn (length cs - length cs') cs) (o, o') evs with
                           | Some v =>
                             match s_checks shk (checks_of (r_directives r)) v o' with
                             | None => SOk v cs' o' l
                             | Some e => SFail (l ++ [e])
                             end
                           | None => SStuck
                           end
                         | SFail l => SFail l
                         | SStuck => SStuck
                         | SFuel => SFuel
                         end)).
      * intros x N. destruct x as [evs cs' o' l|l| |]; try congruence.
        destruct (shape fcfg g r (firstn (length cs - length cs') cs) (o, o') evs); [|discriminate].
        destruct (s_checks shk (checks_of (r_directives r)) v o'); discriminate.
      * apply (CORE (rk (UCall n))); [lia|exact L|exact K].
    + destruct (fg_in _ _ _ F) as [I1 I2]. cbn in I2. pose proof (wf_rank _ I1) as K. cbn [rank_ok_rule] in K.
      rewrite forallb_forall in K. cbn zeta.
      match goal with |- conv (fun f => if ?c then _ else _) => destruct c; [|apply conv_const; discriminate] end.
      apply (conv_ext (fun f => (fun x => match x with
                         | SOk v cs0 o0 l0 => SOk v cs0 o0 l0
                         | SFail _ => SFail [ {| e_pos := o; e_spec := ExpectedCharacterClass (cr_name r) |} ]
                         | SStuck => SStuck
                         | SFuel => SFuel
                         end) (s_char_parts (run f) (cr_choices r) cs o))).
      { intro f. cbn beta. destruct (s_char_parts (run f) (cr_choices r) cs o); reflexivity. }
      apply (conv_map (fun f => s_char_parts (run f) (cr_choices r) cs o)
               (fun x => match x with
                         | SOk v cs0 o0 l0 => SOk v cs0 o0 l0
                         | SFail _ => SFail [ {| e_pos := o; e_spec := ExpectedCharacterClass (cr_name r) |} ]
                         | SStuck => SStuck
                         | SFuel => SFuel
                         end)).
      * intros x N. destruct x; congruence.
      * apply conv_char_parts. intros m Hm. specialize (K _ Hm). cbn in K. apply Nat.ltb_lt in K.
        rewrite I2 in K. apply IH1; [lia|exact L].
    + apply conv_const. destruct (sh_extern shk (er_function r) (encode_str cs)) as [[v k]|msg]; [|discriminate].
      destruct (split_bytes k cs) as [[m cs']|]; discriminate.
    + apply conv_const. destruct (name_eqb n n_char).
      * unfold s_term. destruct (term_match TmAny cs); discriminate.
      * destruct (name_eqb n n_Whitespace); [|discriminate]. unfold s_term. destruct (term_match TmWs cs); discriminate.
  - intros s n r Hn F cs o L. destruct (fr_in _ _ _ F) as [I1 I2]. pose proof (wf_rank _ I1) as K. cbn [rank_ok_rule] in K.
    apply andb_prop in K. destruct K as [K K3]. apply andb_prop in K. destruct K as [_ K2]. rewrite I2 in K2, K3.
    destruct s.
    + apply (CORE (rk (UInc true n))); [lia|exact L|exact K2].
    + apply (CORE (rk (UInc false n))); [lia|exact L|exact K3].
Qed.

Theorem all_lengths : forall len, All len.
Proof.
  induction len as [len IHlen] using lt_wf_ind.
  pose proof (units_conv len IHlen) as U.
  assert (HK : forall n, bound_ok rk None (UCall n) = true -> forall cs o, length cs = len -> conv_r n cs o).
  { intros n _ cs o L. destruct (U (S (rk (UCall n)))) as [U1 _]. apply U1; [lia|exact L]. }
  assert (HKI : forall s n r, bound_ok rk None (UInc s n) = true -> find_rule g n = Some r ->
                  forall cs o, length cs = len -> conv_e s (r_def r) cs o).
  { intros s n r _ F cs o L. destruct (U (S (rk (UInc s n)))) as [_ U2]. eapply U2; eauto. }
  pose proof (core len IHlen None HK HKI) as C.
  constructor.
  - intros n cs o L. apply HK; [reflexivity|exact L].
  - intros skip e cs o L W. apply C; auto.
  - intros skip b plus cs o iters evs acc L W Nb.
    eapply (conv_loop len IHlen None); eauto.
Qed.

(* the specification returns on every input, and the result is stable in the bound *)
Theorem spec_terminates : forall rule_name cs,
  exists F r, r <> SFuel /\ forall f, F <= f -> s_parse fcfg shk g insens f rule_name cs = r.
Proof. intros rule_name cs. exact (all_r _ (all_lengths (length cs)) rule_name cs 0 eq_refl). Qed.

End Term.
