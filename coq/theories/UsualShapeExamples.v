(* Instances for UsualShape: a grammar that meets the hypotheses of the section, the left-nested
   tree it builds, and the input on which the proviso `ws_trivial` fails and with it the closed
   form: a whitespace-skipping @leftrec rule entered where whitespace follows returns its seed only
   (known finding c07:entered-before-whitespace). *)
From PegV Require Import Utf8 State Terminals Syntax Fields FieldsFacts Literals Model Conform CleanFrame UsualShape NoSentinel.

(* @export @leftrec E = l:*E '+' n:N | n:N;   @string @no_skip_ws N = {'0'..'9'}+; *)
Definition nE : name := [69]%N.
Definition nl : name := [108]%N.
Definition nn : name := [110]%N.
Definition nN : name := [78]%N.
Definition x_plus : expr := ELit false [SIChar 43%N].
Definition x_num : expr := EField (FNamed nn) false nN.
Definition b_num : expr := ESeq [EField (FNamed nn) false nN].
Definition rE : rule := {| r_directives := [DExport; DLeftrec]; r_name := nE;
   r_def := EChoice [ESeq [EField (FNamed nl) true nE; x_plus; x_num]; b_num] |}.
Definition g_sum : grammar :=
  [GRule rE;
   GRule {| r_directives := [DString; DNoSkipWs]; r_name := nN;
            r_def := EChoice [ESeq [EClosure (EChoice [ESeq [ERange (SIChar 48%N) (SIChar 57%N)]]) true]] |}].

Definition scfg_doc : state_cfg := {| rec_le := true; further_gt := true |}.
Definition rcfg_doc : rule_cfg := {| memo_closed := true; leftrec_closed := true; insens_guard := true |}.
Definition run_sum (input : bytes) :=
  m_parse unit scfg_doc term_cfg_expected fields_cfg_doc rcfg_doc no_hooks g_sum 80 nE input tt.

(* the rule has the usual shape, with the compile-time data the section asks for *)
Example sum_is_usual :
  r_def rE = adef rE nl true x_plus [x_num] b_num [] /\
  find_grule g_sum (r_name rE) = Some (GRule rE) /\
  fl_left_recursive (flags_of (r_directives rE)) = true /\
  exists rf fds fds1 inner1,
    get_fields fields_cfg_doc (gf_fuel g_sum) g_sum (adef rE nl true x_plus [x_num] b_num []) = GFOk rf /\
    filt fields_cfg_doc g_sum (actx rE rf) (adef rE nl true x_plus [x_num] b_num []) = Some fds /\
    filt fields_cfg_doc g_sum (actx rE rf) (alt1 rE nl true x_plus [x_num]) = Some fds1 /\
    own_fields fields_cfg_doc g_sum (alt1 rE nl true x_plus [x_num]) = Some inner1.
Proof.
  split; [reflexivity|]. split; [reflexivity|]. split; [reflexivity|].
  eexists. eexists. eexists. eexists.
  split; [vm_compute; reflexivity|]. split; [vm_compute; reflexivity|]. split; vm_compute; reflexivity.
Qed.

(* nothing to skip at the start of "1+2+3": the closed form applies, the tree is nested to the left
   and the whole of  b x x  is consumed *)
Definition leaf (d : N) : value := VStruct nE [(nl, VNone); (nn, VStr [d])] None.
Definition node (left : value) (d : N) : value := VStruct nE [(nl, VSome left); (nn, VStr [d])] None.

Example sum_left_nested :
  exists st, fst (run_sum [49; 43; 50; 43; 51]%N) = MOk (node (node (leaf 49) 50) 51) st /\ off st = 5 /\
  parse_Whitespace (init_state [49; 43; 50; 43; 51]%N) = TOk tt (init_state [49; 43; 50; 43; 51]%N).
Proof. eexists. split; [vm_compute; reflexivity|]. split; reflexivity. Qed.

(* " 1+2": the rule skips whitespace and is entered where a blank follows.  Its recursive field is
   evaluated at offset 1, under another cache key: a second loop runs there, and the loop at offset 0
   returns its seed.  The result is the tree of "1" ending at offset 2 - not the greedy  b x*  match,
   which ends at offset 4 and is what the same rule returns when entered at offset 1. *)
Example leading_blank_refuted :
  (exists st, fst (run_sum [32; 49; 43; 50]%N) = MOk (leaf 49) st /\ off st = 2) /\
  (exists st, fst (run_sum [49; 43; 50]%N) = MOk (node (leaf 49) 50) st /\ off st = 3) /\
  parse_Whitespace (init_state [32; 49; 43; 50]%N) <> TOk tt (init_state [32; 49; 43; 50]%N).
Proof.
  split; [eexists; split; [vm_compute; reflexivity|reflexivity]|].
  split; [eexists; split; [vm_compute; reflexivity|reflexivity]|].
  vm_compute. discriminate.
Qed.

(* ---- the hypotheses of the closed form (UsualShape.closed_form) are met by g_sum ------------------ *)
Definition the_def : expr := adef rE nl true x_plus [x_num] b_num [].
Definition rf_sum : list fdesc :=
  Eval vm_compute in match get_fields fields_cfg_doc (gf_fuel g_sum) g_sum the_def with GFOk l => l | _ => [] end.
Definition fds_sum : list fdesc :=
  Eval vm_compute in match filt fields_cfg_doc g_sum (actx rE rf_sum) the_def with Some l => l | None => [] end.
Definition fds1_sum : list fdesc :=
  Eval vm_compute in match filt fields_cfg_doc g_sum (actx rE rf_sum) (alt1 rE nl true x_plus [x_num]) with Some l => l | None => [] end.
Definition inner1_sum : list fdesc :=
  Eval vm_compute in match own_fields fields_cfg_doc g_sum (alt1 rE nl true x_plus [x_num]) with Some l => l | None => [] end.

(* the clean set: the number rule and the built-in whitespace skipper *)
Definition clean_sum (n : name) : bool := name_eqb n nN || name_eqb n n_Whitespace.

Lemma clean_sum_cases n : clean_sum n = true -> n = nN \/ n = n_Whitespace.
Proof.
  unfold clean_sum. intro H. apply Bool.orb_prop in H. destruct H as [H|H]; apply name_eqb_eq in H; auto.
Qed.

Example sum_closed_form :
  forall st, ws_trivial g_sum rE rf_sum st ->
  forall F gl r gl',
    cache_get nE (off st) (g_cache gl) = None ->
    ev_rule (run unit scfg_doc term_cfg_expected fields_cfg_doc rcfg_doc no_hooks g_sum F) nE st gl = (r, gl') ->
    match r with
    | MOk v s =>
      exists v0 s0,
        Bok unit scfg_doc term_cfg_expected fields_cfg_doc rcfg_doc no_hooks g_sum rE b_num [] rf_sum fds_sum st v0 s0 /\
        Star unit scfg_doc term_cfg_expected fields_cfg_doc rcfg_doc no_hooks g_sum rE nl x_plus [x_num] rf_sum fds_sum fds1_sum inner1_sum st v0 s0 v s /\
        Stop unit scfg_doc term_cfg_expected fields_cfg_doc rcfg_doc no_hooks g_sum rE nl x_plus [x_num] rf_sum fds_sum fds1_sum inner1_sum st v s
    | MErr _ => Bfail unit scfg_doc term_cfg_expected fields_cfg_doc rcfg_doc no_hooks g_sum rE b_num [] rf_sum fds_sum st
    | _ => True
    end.
Proof.
  intros st W F gl r gl' C E.
  refine (closed_form unit scfg_doc term_cfg_expected fields_cfg_doc rcfg_doc no_hooks g_sum rE nl true x_plus [x_num] b_num []
            eq_refl eq_refl eq_refl rf_sum fds_sum fds1_sum inner1_sum _ _ _ _ clean_sum _ _ _ _ _ eq_refl eq_refl st W F gl r gl' C E).
  - vm_compute. reflexivity.
  - vm_compute. reflexivity.
  - vm_compute. reflexivity.
  - vm_compute. reflexivity.
  - intros n H. destruct (clean_sum_cases n H) as [->| ->]; vm_compute; auto.
  - intros n r0 H Fr. destruct (clean_sum_cases n H) as [->| ->]; vm_compute in Fr.
    + injection Fr as <-. reflexivity.
    + discriminate Fr.
  - reflexivity.
  - reflexivity.
  - intros [] []. reflexivity.
Qed.

(* ---- the reported error of the exported @leftrec rule is never the sentinel (NoSentinel.usual_no_sentinel) -- *)
Example sum_no_sentinel :
  forall input F e gl',
    ws_trivial g_sum rE rf_sum (init_state input) ->
    m_parse unit scfg_doc term_cfg_expected fields_cfg_doc rcfg_doc no_hooks g_sum F nE input tt = (MErr e, gl') ->
    e_spec e <> LeftRecursionSentinel.
Proof.
  intros input F e gl' W E. unfold m_parse in E.
  refine (usual_no_sentinel unit scfg_doc eq_refl term_cfg_expected fields_cfg_doc rcfg_doc eq_refl no_hooks g_sum rE nl true
            x_plus [x_num] b_num [] eq_refl eq_refl eq_refl rf_sum fds_sum fds1_sum inner1_sum _ _ _ _ clean_sum _ _ _ _
            (init_state input) F (init_glob unit tt) e gl' W _ eq_refl E).
  - vm_compute. reflexivity.
  - vm_compute. reflexivity.
  - vm_compute. reflexivity.
  - vm_compute. reflexivity.
  - intros n H. destruct (clean_sum_cases n H) as [->| ->]; vm_compute; auto.
  - intros n r0 H Fr. destruct (clean_sum_cases n H) as [->| ->]; vm_compute in Fr.
    + injection Fr as <-. reflexivity.
    + discriminate Fr.
  - reflexivity.
  - reflexivity.
  - intros f X. discriminate X.
Qed.

Example sum_fails_with_a_real_error :
  fst (run_sum [120]%N) = MErr {| e_pos := 0; e_spec := ExpectedCharacterRange 48 57 |}.
Proof. vm_compute. reflexivity. Qed.

(* ---- several recursive alternatives (UsualShapeN):  @leftrec S = l:*S '+' n:N | l:*S '-' n:N | n:N ---- *)
From PegV Require Import UsualShapeN.
Definition nS : name := [83]%N.
Definition x_minus : expr := ELit false [SIChar 45%N].
Definition ra_plus : ralt := {| ra_l := nl; ra_bx := true; ra_x1 := x_plus; ra_xs := [x_num] |}.
Definition ra_minus : ralt := {| ra_l := nl; ra_bx := true; ra_x1 := x_minus; ra_xs := [x_num] |}.
Definition rS : rule := {| r_directives := [DExport; DLeftrec]; r_name := nS;
   r_def := EChoice [ESeq [EField (FNamed nl) true nS; x_plus; x_num];
                     ESeq [EField (FNamed nl) true nS; x_minus; x_num]; b_num] |}.
Definition g_pm : grammar :=
  [GRule rS;
   GRule {| r_directives := [DString; DNoSkipWs]; r_name := nN;
            r_def := EChoice [ESeq [EClosure (EChoice [ESeq [ERange (SIChar 48%N) (SIChar 57%N)]]) true]] |}].
Definition rf_pm : list fdesc :=
  Eval vm_compute in match get_fields fields_cfg_doc (gf_fuel g_pm) g_pm (r_def rS) with GFOk l => l | _ => [] end.
Definition fds_pm : list fdesc :=
  Eval vm_compute in match filt fields_cfg_doc g_pm (actx rS rf_pm) (r_def rS) with Some l => l | None => [] end.
Definition fds1_pm (r : ralt) : list fdesc :=
  match filt fields_cfg_doc g_pm (actx rS rf_pm) (ralt_e rS r) with Some l => l | None => [] end.
Definition inner_pm (r : ralt) : list fdesc :=
  match own_fields fields_cfg_doc g_pm (ralt_e rS r) with Some l => l | None => [] end.

Example pm_is_usualN :
  forall k st gl c,
    ws_trivial g_pm rS rf_pm st -> cache_get nS (off st) (g_cache gl) = Some c ->
    rule_body unit scfg_doc fields_cfg_doc no_hooks g_pm
      (run unit scfg_doc term_cfg_expected fields_cfg_doc rcfg_doc no_hooks g_pm (S (S (S (S k))))) rS st gl =
    finish unit scfg_doc no_hooks rS rf_pm st
      (rec_loop unit scfg_doc term_cfg_expected fields_cfg_doc rcfg_doc no_hooks g_pm rS [b_num] rf_pm fds_pm fds1_pm inner_pm
         k c [ra_plus; ra_minus] st gl).
Proof.
  intros k st gl c W C.
  refine (usualN_body_eq unit scfg_doc term_cfg_expected fields_cfg_doc rcfg_doc no_hooks g_pm rS eq_refl eq_refl
            [ra_plus; ra_minus] [b_num] _ _ _ eq_refl eq_refl rf_pm fds_pm _ _ fds1_pm inner_pm _ clean_sum _ _ _ _ k st gl c W C).
  - vm_compute. reflexivity.
  - vm_compute. reflexivity.
  - intros r [<-|[<-|[]]]; split; vm_compute; reflexivity.
  - intros n H. destruct (clean_sum_cases n H) as [->| ->]; vm_compute; auto.
  - intros n r0 H Fr. destruct (clean_sum_cases n H) as [->| ->]; vm_compute in Fr.
    + injection Fr as <-. reflexivity.
    + discriminate Fr.
  - reflexivity.
  - intros r [<-|[<-|[]]]; reflexivity.
Qed.

(* 1-2+3 is ((1-2)+3): the second recursive alternative extends, then the first *)
Definition nodeS (left : value) (d : N) : value := VStruct nS [(nl, VSome left); (nn, VStr [d])] None.
Definition leafS (d : N) : value := VStruct nS [(nl, VNone); (nn, VStr [d])] None.
Example pm_left_nested :
  exists st, fst (m_parse unit scfg_doc term_cfg_expected fields_cfg_doc rcfg_doc no_hooks g_pm 80 nS [49; 45; 50; 43; 51]%N tt)
             = MOk (nodeS (nodeS (leafS 49) 50) 51) st /\ off st = 5.
Proof. eexists. split; [vm_compute; reflexivity|reflexivity]. Qed.

(* ... and the hypotheses of the closed form for several recursive alternatives (UsualShapeN.closed_formN) *)
Example pm_closed_form :
  forall st, ws_trivial g_pm rS rf_pm st ->
  forall F gl r gl',
    cache_get nS (off st) (g_cache gl) = None ->
    ev_rule (run unit scfg_doc term_cfg_expected fields_cfg_doc rcfg_doc no_hooks g_pm F) nS st gl = (r, gl') ->
    match r with
    | MOk v s =>
      exists v0 s0,
        BokN unit scfg_doc term_cfg_expected fields_cfg_doc rcfg_doc no_hooks g_pm rS [b_num] rf_pm fds_pm st v0 s0 /\
        StarN unit scfg_doc term_cfg_expected fields_cfg_doc rcfg_doc no_hooks g_pm rS [ra_plus; ra_minus] rf_pm fds_pm fds1_pm inner_pm st v0 s0 v s /\
        StopN unit scfg_doc term_cfg_expected fields_cfg_doc rcfg_doc no_hooks g_pm rS [ra_plus; ra_minus] rf_pm fds_pm fds1_pm inner_pm st v s
    | MErr _ => BfailN unit scfg_doc term_cfg_expected fields_cfg_doc rcfg_doc no_hooks g_pm rS [b_num] rf_pm fds_pm st
    | _ => True
    end.
Proof.
  intros st W F gl r gl' C E.
  refine (closed_formN unit scfg_doc term_cfg_expected fields_cfg_doc rcfg_doc no_hooks g_pm rS eq_refl eq_refl
            [ra_plus; ra_minus] [b_num] _ _ _ eq_refl eq_refl rf_pm fds_pm _ _ fds1_pm inner_pm _ clean_sum _ _ _ _
            ra_plus [ra_minus] eq_refl _ _ eq_refl eq_refl st W F gl r gl' C E).
  - vm_compute. reflexivity.
  - vm_compute. reflexivity.
  - intros r0 [<-|[<-|[]]]; split; vm_compute; reflexivity.
  - intros n H. destruct (clean_sum_cases n H) as [->| ->]; vm_compute; auto.
  - intros n r0 H Fr. destruct (clean_sum_cases n H) as [->| ->]; vm_compute in Fr.
    + injection Fr as <-. reflexivity.
    + discriminate Fr.
  - reflexivity.
  - intros r0 [<-|[<-|[]]]; reflexivity.
  - reflexivity.
  - intros [] []. reflexivity.
Qed.

(* ---- recursion through a plain rule (Indirect.v):  @leftrec X = @:A | @:N;  A = l:*X '+' r:N ---------- *)
From PegV Require Import Indirect.
Definition nX : name := [88]%N.
Definition nAd : name := [65]%N.
Definition nrt : name := [114]%N.
Definition x_rnum : expr := EField (FNamed nrt) false nN.
Definition b_onum : expr := ESeq [EField FOverride false nN].
Definition rX : rule := {| r_directives := [DExport; DLeftrec]; r_name := nX;
   r_def := EChoice [ESeq [EField FOverride false nAd]; b_onum] |}.
Definition rAd : rule := {| r_directives := []; r_name := nAd;
   r_def := EChoice [ESeq [EField (FNamed nl) true nX; x_plus; x_rnum]] |}.
Definition g_ind : grammar :=
  [GRule rX; GRule rAd;
   GRule {| r_directives := [DString; DNoSkipWs]; r_name := nN;
            r_def := EChoice [ESeq [EClosure (EChoice [ESeq [ERange (SIChar 48%N) (SIChar 57%N)]]) true]] |}].
Definition rfX : list fdesc :=
  Eval vm_compute in match get_fields fields_cfg_doc (gf_fuel g_ind) g_ind (r_def rX) with GFOk l => l | _ => [] end.
Definition rfAd : list fdesc :=
  Eval vm_compute in match get_fields fields_cfg_doc (gf_fuel g_ind) g_ind (r_def rAd) with GFOk l => l | _ => [] end.
Definition fdsX : list fdesc :=
  Eval vm_compute in match filt fields_cfg_doc g_ind (actx rX rfX) (r_def rX) with Some l => l | None => [] end.
Definition innerX1 : list fdesc :=
  Eval vm_compute in match own_fields fields_cfg_doc g_ind (ialt1 rAd) with Some l => l | None => [] end.
Definition fdsAd1 : list fdesc :=
  Eval vm_compute in match filt fields_cfg_doc g_ind (actx rAd rfAd) (palt rX nl true x_plus [x_rnum]) with Some l => l | None => [] end.

Example ind_is_indirect :
  forall k st gl c,
    Wi g_ind rX rAd rfX rfAd st -> cache_get nX (off st) (g_cache gl) = Some c ->
    rule_body unit scfg_doc fields_cfg_doc no_hooks g_ind
      (run unit scfg_doc term_cfg_expected fields_cfg_doc rcfg_doc no_hooks g_ind (8 + k)) rX st gl =
    indirect_body unit scfg_doc term_cfg_expected fields_cfg_doc rcfg_doc no_hooks g_ind rX rAd nl x_plus [x_rnum] b_onum []
      rfX fdsX innerX1 rfAd fdsAd1 k st c gl.
Proof.
  intros k st gl c W C.
  refine (indirect_body_eq unit scfg_doc term_cfg_expected fields_cfg_doc rcfg_doc no_hooks g_ind rX rAd nl true x_plus [x_rnum] b_onum []
            eq_refl eq_refl eq_refl eq_refl eq_refl eq_refl eq_refl rfX fdsX innerX1 rfAd fdsAd1 _ _ _ _ _ k st gl c W C);
    vm_compute; reflexivity.
Qed.

(* 1+2+3 through the plain rule: the Add nodes are nested to the left (Box is invisible, `@:` makes the
   rule's value the enum of its alternatives) *)
Definition addv (left : value) (d : N) : value := VEnum nAd (VStruct nAd [(nl, left); (nrt, VStr [d])] None).
Example ind_left_nested :
  exists st, fst (m_parse unit scfg_doc term_cfg_expected fields_cfg_doc rcfg_doc no_hooks g_ind 90 nX [49; 43; 50; 43; 51]%N tt)
             = MOk (addv (addv (VEnum nN (VStr [49%N])) 50) 51) st /\ off st = 5.
Proof. eexists. split; [vm_compute; reflexivity|reflexivity]. Qed.

(* ... and the same defect when the rule is entered where a blank follows: " 1+2" gives 1 *)
Example ind_leading_blank_refuted :
  exists st, fst (m_parse unit scfg_doc term_cfg_expected fields_cfg_doc rcfg_doc no_hooks g_ind 90 nX [32; 49; 43; 50]%N tt)
             = MOk (VEnum nN (VStr [49%N])) st /\ off st = 2.
Proof. eexists. split; [vm_compute; reflexivity|reflexivity]. Qed.

(* the hypotheses of the closed form for the indirect style are met by g_ind *)
Example ind_closed_form :
  forall st, Wi g_ind rX rAd rfX rfAd st ->
  forall F gl r gl',
    cache_get nX (off st) (g_cache gl) = None ->
    ev_rule (run unit scfg_doc term_cfg_expected fields_cfg_doc rcfg_doc no_hooks g_ind F) nX st gl = (r, gl') ->
    match r with
    | MOk v s =>
      exists v0 s0,
        Bok unit scfg_doc term_cfg_expected fields_cfg_doc rcfg_doc no_hooks g_ind rX b_onum [] rfX fdsX st v0 s0 /\
        StarI unit scfg_doc term_cfg_expected fields_cfg_doc rcfg_doc no_hooks g_ind rX rAd nl x_plus [x_rnum] rfX fdsX innerX1 rfAd fdsAd1 st v0 s0 v s /\
        StopI unit scfg_doc term_cfg_expected fields_cfg_doc rcfg_doc no_hooks g_ind rX rAd nl x_plus [x_rnum] rfX fdsX innerX1 rfAd fdsAd1 st v s
    | MErr _ => Bfail unit scfg_doc term_cfg_expected fields_cfg_doc rcfg_doc no_hooks g_ind rX b_onum [] rfX fdsX st
    | _ => True
    end.
Proof.
  intros st W F gl r gl' C E.
  refine (indirect_closed_form unit scfg_doc term_cfg_expected fields_cfg_doc rcfg_doc no_hooks g_ind rX rAd nl true x_plus [x_rnum] b_onum []
            eq_refl eq_refl eq_refl eq_refl eq_refl eq_refl eq_refl rfX fdsX innerX1 rfAd fdsAd1 _ _ _ _ _ clean_sum _ _ _ _ _ _ eq_refl eq_refl
            st W F gl r gl' C E).
  - vm_compute. reflexivity.
  - vm_compute. reflexivity.
  - vm_compute. reflexivity.
  - vm_compute. reflexivity.
  - vm_compute. reflexivity.
  - intros n H. destruct (clean_sum_cases n H) as [->| ->]; vm_compute; auto.
  - intros n r0 H Fr. destruct (clean_sum_cases n H) as [->| ->]; vm_compute in Fr.
    + injection Fr as <-. reflexivity.
    + discriminate Fr.
  - reflexivity.
  - reflexivity.
  - reflexivity.
  - intros [] []. reflexivity.
Qed.
