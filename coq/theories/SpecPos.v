(* Positions in the specification: every @position range recorded in the value
   of a rule match lies inside the span [o, o'] of that match, a node's own
   range is exactly that span, and the values of successive field matches
   occupy successive, non-overlapping stretches of the input (C09). *)
From Coq Require Import Lia.
From PegV Require Import Utf8 State TerminalsSpec Syntax Fields Literals Model Spec.

Fixpoint spans (v : value) : list (nat * nat) :=
  match v with
  | VSome v => spans v
  | VEnum _ v => spans v
  | VList l => (fix go (l : list value) := match l with [] => [] | x :: r => spans x ++ go r end) l
  | VStruct _ fs pos =>
    (match pos with Some p => [p] | None => [] end) ++
    (fix go (fs : list (name * value)) := match fs with [] => [] | (_, x) :: r => spans x ++ go r end) fs
  | _ => []
  end.

Definition span_ok (lo hi : nat) (p : nat * nat) : Prop := lo <= fst p /\ fst p <= snd p /\ snd p <= hi.
Definition within (lo hi : nat) (v : value) : Prop := Forall (span_ok lo hi) (spans v).

Lemma span_ok_weaken lo hi lo' hi' p : lo' <= lo -> hi <= hi' -> span_ok lo hi p -> span_ok lo' hi' p.
Proof. unfold span_ok. lia. Qed.

Lemma within_weaken lo hi lo' hi' v : lo' <= lo -> hi <= hi' -> within lo hi v -> within lo' hi' v.
Proof. intros H1 H2. apply Forall_impl. intros p. apply span_ok_weaken; auto. Qed.

Lemma spans_list l : spans (VList l) = flat_map spans l.
Proof. induction l as [|x l IH]; [reflexivity|]. cbn in *. rewrite IH. reflexivity. Qed.

Lemma spans_struct n fs pos :
  spans (VStruct n fs pos) = (match pos with Some p => [p] | None => [] end) ++ flat_map (fun nv => spans (snd nv)) fs.
Proof.
  cbn. f_equal. induction fs as [|[k x] fs IH]; [reflexivity|]. cbn. rewrite IH. reflexivity.
Qed.

(* successive events occupy successive stretches *)
Inductive ordered : nat -> nat -> list event -> Prop :=
| ord_nil lo hi : lo <= hi -> ordered lo hi []
| ord_cons lo mid hi e r :
    lo <= mid -> within lo mid (ev_val e) -> ordered mid hi r -> ordered lo hi (e :: r).

Lemma ordered_le lo hi evs : ordered lo hi evs -> lo <= hi.
Proof. induction 1; lia. Qed.

Lemma ordered_app a b c x y : ordered a b x -> ordered b c y -> ordered a c (x ++ y).
Proof.
  intros H1 H2. induction H1 as [lo hi Hle|lo mid hi e r Hle Hw Hr IH]; cbn.
  - destruct H2 as [lo2 hi2 H|lo2 mid2 hi2 e2 r2 H Hw2 Hr2].
    + constructor. lia.
    + apply ord_cons with (mid := mid2); auto; [lia|]. eapply within_weaken; [| |exact Hw2]; lia.
  - apply ord_cons with (mid := mid); auto.
Qed.

Lemma ordered_weaken lo hi lo' hi' evs : lo' <= lo -> hi <= hi' -> ordered lo hi evs -> ordered lo' hi' evs.
Proof.
  intros H1 H2 H. revert lo' H1. induction H as [lo hi Hle|lo mid hi e r Hle Hw Hr IH]; intros lo' H1.
  - constructor. lia.
  - apply ord_cons with (mid := mid); [lia| |apply IH; lia]. eapply within_weaken; [| |exact Hw]; lia.
Qed.

Lemma ordered_all lo hi evs : ordered lo hi evs -> Forall (fun e => within lo hi (ev_val e)) evs.
Proof.
  induction 1 as [|lo mid hi e r Hle Hw Hr IH]; constructor.
  - eapply within_weaken; [| |exact Hw]; [lia|eapply ordered_le; eauto].
  - eapply Forall_impl; [|exact IH]. intros x Hx. eapply within_weaken; [| |exact Hx]; lia.
Qed.

(* ---- values built by shape ------------------------------------------------- *)

Lemma within_wrap lo hi fd e : within lo hi (ev_val e) -> within lo hi (wrap_enum fd e).
Proof. unfold wrap_enum. destruct (fd_types fd) as [|? [|? ?]]; auto. Qed.

Lemma field_value_within lo hi fd evs v :
  Forall (fun e => within lo hi (ev_val e)) evs -> field_value fd evs = Some v -> within lo hi v.
Proof.
  intros H E. unfold field_value in E.
  set (mn := filter (fun e => name_eqb (ev_field e) (fd_name fd)) evs) in *.
  assert (Hm : Forall (fun e => within lo hi (ev_val e)) mn).
  { apply Forall_forall. intros x Hx. apply filter_In in Hx. rewrite Forall_forall in H. apply H. tauto. }
  destruct (fd_arity fd).
  - destruct mn as [|e [|e2 r]]; try discriminate. injection E as <-. inversion Hm; subst. apply within_wrap; auto.
  - destruct mn as [|e [|e2 r]]; try discriminate; injection E as <-.
    + constructor.
    + inversion Hm; subst. unfold within. cbn. apply within_wrap; auto.
  - injection E as <-. unfold within. rewrite spans_list.
    induction Hm as [|e r He Hr IH]; cbn; [constructor|]. apply Forall_app. split; [apply within_wrap; exact He|exact IH].
Qed.

Lemma shape_fields_within lo hi fds evs fs :
  Forall (fun e => within lo hi (ev_val e)) evs -> shape_fields fds evs = Some fs ->
  Forall (span_ok lo hi) (flat_map (fun nv => spans (snd nv)) fs).
Proof.
  intro H. revert fs. induction fds as [|fd fds IH]; intros fs E; cbn in E.
  - injection E as <-. constructor.
  - destruct (field_value fd evs) as [v|] eqn:V; [|discriminate].
    destruct (shape_fields fds evs) as [r|]; [|discriminate]. injection E as <-. cbn.
    apply Forall_app. split; [eapply field_value_within; eauto|apply IH; reflexivity].
Qed.

Section Pos.
Variable fcfg : fields_cfg.
Variable shk : shooks.
Variable g : grammar.
Variable insens : bool.
(* values produced by user extern functions carry no positions *)
Hypothesis Hext : forall f bs v n, sh_extern shk f bs = inl (v, n) -> spans v = [].

Lemma shape_within r consumed lo hi evs v :
  lo <= hi -> Forall (fun e => within lo hi (ev_val e)) evs ->
  shape fcfg g r consumed (lo, hi) evs = Some v -> within lo hi v.
Proof.
  intros Hle H E. unfold shape in E.
  assert (Hown : span_ok lo hi (lo, hi)) by (unfold span_ok; cbn; lia).
  destruct (fl_string (flags_of (r_directives r))).
  - injection E as <-. match goal with |- context [if ?c then _ else _] => destruct c end; unfold within; cbn; repeat constructor; auto.
  - assert (K : forall fds fs, shape_fields fds evs = Some fs ->
                within lo hi (VStruct (r_name r) fs (if fl_position (flags_of (r_directives r)) then Some (lo, hi) else None))).
    { intros fds fs Hs. unfold within. rewrite spans_struct. apply Forall_app. split.
      - destruct (fl_position (flags_of (r_directives r))); repeat constructor; auto.
      - eapply shape_fields_within; eauto. }
    destruct (get_fields fcfg (gf_fuel_s g) g (r_def r)) as [rf| |]; try discriminate.
    destruct rf as [|fd [|fd2 rf]].
    + destruct (shape_fields [] evs) eqn:S0; [|discriminate]. injection E as <-. eapply K; eauto.
    + destruct (name_eqb (fd_name fd) n_override).
      * eapply field_value_within; eauto.
      * destruct (shape_fields [fd] evs) eqn:S0; [|discriminate]. injection E as <-. eapply K; eauto.
    + destruct (shape_fields (fd :: fd2 :: rf) evs) eqn:S0; [|discriminate]. injection E as <-. eapply K; eauto.
Qed.

Definition Pe (sv : sevals) : Prop :=
  forall skip e cs o evs cs' o' l, sv_expr sv skip e cs o = SOk evs cs' o' l -> ordered o o' evs.
Definition Pr (sv : sevals) : Prop :=
  forall nm cs o v cs' o' l, sv_rule sv nm cs o = SOk v cs' o' l -> o <= o' /\ within o o' v.
Definition Pl (sv : sevals) : Prop :=
  forall skip b plus cs o iters evs0 accl evs cs' o' l,
    sv_loop sv skip b plus cs o iters evs0 accl = SOk evs cs' o' l ->
    forall lo, ordered lo o evs0 -> ordered lo o' evs.

Section Step.
Variable sv : sevals.
Hypothesis He : Pe sv.
Hypothesis Hr : Pr sv.
Hypothesis Hl : Pl sv.

Lemma s_term_pos {A} t sp (val : list N -> A) cs o v cs' o' l :
  s_term t sp val cs o = SOk v cs' o' l -> o <= o'.
Proof. unfold s_term. destruct (term_match t cs); [|discriminate]. intro H. injection H as _ _ <- _. lia. Qed.

Lemma s_with_ws_pos {A} skip cs o (k : list N -> nat -> sres A) v cs' o' l :
  s_with_ws sv skip cs o k = SOk v cs' o' l ->
  exists cs1 o1 l2, o <= o1 /\ k cs1 o1 = SOk v cs' o' l2.
Proof.
  unfold s_with_ws. destruct skip; [|intro H; exists cs, o, l; split; [lia|exact H]].
  destruct (sv_rule sv n_Whitespace cs o) as [w cs1 o1 l1| | |] eqn:W; try discriminate.
  destruct (Hr _ _ _ _ _ _ _ W) as [Hle _].
  destruct (k cs1 o1) as [v2 cs2 o2 l2| | |] eqn:K; try discriminate.
  intro H. injection H as <- <- <- _. exists cs1, o1, l2. auto.
Qed.

Lemma s_choice_pos skip alts : forall cs o acc evs cs' o' l,
  s_choice sv skip alts cs o acc = SOk evs cs' o' l -> ordered o o' evs.
Proof.
  induction alts as [|a alts IH]; intros cs o acc evs cs' o' l H; cbn in H; [discriminate|].
  destruct (sv_expr sv skip a cs o) as [e1 cs1 o1 l1|l1| |] eqn:E; try discriminate.
  - injection H as <- <- <- _. eapply He; eauto.
  - eapply IH; eauto.
Qed.

Lemma s_seq_pos skip parts : forall cs o evs0 acc evs cs' o' l lo,
  s_seq sv skip parts cs o evs0 acc = SOk evs cs' o' l -> ordered lo o evs0 -> ordered lo o' evs.
Proof.
  induction parts as [|p ps IH]; intros cs o evs0 acc evs cs' o' l lo H H0; cbn in H.
  - injection H as <- <- <- _. exact H0.
  - destruct (sv_expr sv skip p cs o) as [e1 cs1 o1 l1|l1| |] eqn:E; try discriminate.
    eapply IH; [exact H|]. eapply ordered_app; [exact H0|]. eapply He; eauto.
Qed.

Lemma sexpr_step_pos : Pe (sstep fcfg shk g insens sv).
Proof.
  intros skip e cs o evs cs' o' l H. cbn [sstep sv_expr] in H. destruct e; cbn [sexpr_step] in H.
  - destruct alts as [|a [|a2 rest]]; [discriminate|eapply He; eauto|eapply s_choice_pos; eauto].
  - destruct parts as [|p [|p2 rest]].
    + injection H as <- <- <- _. constructor. lia.
    + eapply He; eauto.
    + eapply s_seq_pos; [exact H|]. constructor. lia.
  - eapply He; eauto.
  - destruct (sv_expr sv skip e cs o) as [e1 cs1 o1 l1|l1| |] eqn:E; try discriminate.
    + injection H as <- <- <- _. eapply He; eauto.
    + injection H as <- <- <- _. constructor. lia.
  - eapply Hl; [exact H|]. constructor. lia.
  - destruct (sv_expr sv skip e cs o) as [e1 cs1 o1 l1|l1| |]; try discriminate.
    injection H as <- <- <- _. constructor. lia.
  - destruct (sv_expr sv skip e cs o) as [e1 cs1 o1 l1|l1| |]; try discriminate.
    injection H as <- <- <- _. constructor. lia.
  - destruct (compile_range from to); try discriminate.
    unfold s_noev in H.
    match type of H with context [s_with_ws sv skip cs o ?k] =>
      destruct (s_with_ws sv skip cs o k) as [v1 cs1 o1 l1| | |] eqn:W; try discriminate end.
    injection H as <- <- <- _. destruct (s_with_ws_pos _ _ _ _ _ _ _ _ W) as [c1 [p1 [l2 [Hle K]]]].
    apply s_term_pos in K. constructor. lia.
  - destruct (compile_lit insens insensitive body) as [m| | |]; try discriminate.
    destruct (lit_term m) as [t sp]. unfold s_noev in H.
    match type of H with context [s_with_ws sv skip cs o ?k] =>
      destruct (s_with_ws sv skip cs o k) as [v1 cs1 o1 l1| | |] eqn:W; try discriminate end.
    injection H as <- <- <- _. destruct (s_with_ws_pos _ _ _ _ _ _ _ _ W) as [c1 [p1 [l2 [Hle K]]]].
    apply s_term_pos in K. constructor. lia.
  - unfold s_noev in H.
    match type of H with context [s_with_ws sv skip cs o ?k] =>
      destruct (s_with_ws sv skip cs o k) as [v1 cs1 o1 l1| | |] eqn:W; try discriminate end.
    injection H as <- <- <- _. destruct (s_with_ws_pos _ _ _ _ _ _ _ _ W) as [c1 [p1 [l2 [Hle K]]]].
    apply s_term_pos in K. constructor. lia.
  - destruct (find_rule g rule); [|discriminate]. eapply He; eauto.
  - match type of H with context [s_with_ws sv skip cs o ?k] =>
      destruct (s_with_ws sv skip cs o k) as [v1 cs1 o1 l1| | |] eqn:W; try discriminate end.
    injection H as <- <- <- _. destruct (s_with_ws_pos _ _ _ _ _ _ _ _ W) as [c1 [p1 [l2 [Hle K]]]].
    destruct (Hr _ _ _ _ _ _ _ K) as [Hle2 Hw].
    destruct (fname_of fname).
    + apply ord_cons with (mid := o1); [lia| |constructor; lia]. cbn. eapply within_weaken; [| |exact Hw]; lia.
    + constructor. lia.
Qed.

Lemma sloop_step_pos : Pl (sstep fcfg shk g insens sv).
Proof.
  intros skip b plus cs o iters evs0 accl evs cs' o' l H lo H0. cbn [sstep sv_loop] in H. unfold sloop_step in H.
  destruct (sv_expr sv skip b cs o) as [e1 cs1 o1 l1|l1| |] eqn:E; try discriminate.
  - eapply Hl; [exact H|]. eapply ordered_app; [exact H0|]. eapply He; eauto.
  - destruct (plus && Nat.eqb iters 0); [discriminate|]. injection H as <- <- <- _. exact H0.
Qed.

Lemma s_char_parts_pos ps : forall cs o v cs' o' l,
  s_char_parts sv ps cs o = SOk v cs' o' l -> o <= o' /\ within o o' v.
Proof.
  induction ps as [|pt ps IH]; intros cs o v cs' o' l H; cbn [s_char_parts] in H; [discriminate|].
  destruct pt as [i|a b|n].
  - destruct (decode_item i) as [c| |]; try discriminate.
    destruct (term_match (TmChar c) cs) as [m|]; [|eapply IH; eauto].
    injection H as <- <- <- _. split; [lia|constructor].
  - destruct (compile_range a b) as [x y| |]; try discriminate.
    destruct (term_match (TmRange x y) cs) as [m|]; [|eapply IH; eauto].
    injection H as <- <- <- _. split; [lia|constructor].
  - destruct (sv_rule sv n cs o) as [v1 cs1 o1 l1|l1| |] eqn:R; try discriminate.
    + injection H as <- <- <- _. eapply Hr; eauto.
    + eapply IH; eauto.
Qed.

Lemma split_bytes_len n cs m cs' : split_bytes n cs = Some (m, cs') -> True.
Proof. auto. Qed.

Lemma srule_step_pos : Pr (sstep fcfg shk g insens sv).
Proof.
  intros nm cs o v cs' o' l H. cbn [sstep sv_rule] in H. unfold srule_step in H.
  destruct (find_grule g nm) as [[r|r|r]|].
  - destruct (fl_left_recursive (flags_of (r_directives r))); [discriminate|].
    destruct (sv_expr sv (negb (fl_no_skip_ws (flags_of (r_directives r)))) (r_def r) cs o)
      as [evs cs1 o1 l1|l1| |] eqn:E; try discriminate.
    destruct (shape fcfg g r (firstn (length cs - length cs1) cs) (o, o1) evs) as [v1|] eqn:S; [|discriminate].
    destruct (s_checks shk (checks_of (r_directives r)) v1 o1); [discriminate|].
    injection H as <- <- <- _.
    pose proof (He _ _ _ _ _ _ _ _ E) as Ho. split; [eapply ordered_le; eauto|].
    eapply shape_within; [eapply ordered_le; eauto|apply ordered_all; exact Ho|exact S].
  - cbn zeta in H.
    match type of H with (if ?c then _ else _) = _ => destruct c; [|discriminate] end.
    destruct (s_char_parts sv (cr_choices r) cs o) as [v1 cs1 o1 l1|l1| |] eqn:P; try discriminate.
    injection H as <- <- <- _. eapply s_char_parts_pos; eauto.
  - destruct (sh_extern shk (er_function r) (encode_str cs)) as [[v1 n]|msg] eqn:X; [|discriminate].
    destruct (split_bytes n cs) as [[m cs1]|]; [|discriminate].
    injection H as <- <- <- _. split; [lia|]. unfold within. rewrite (Hext _ _ _ _ X). constructor.
  - destruct (name_eqb nm n_char).
    + pose proof (s_term_pos _ _ _ _ _ _ _ _ _ H) as Hle. split; [exact Hle|].
      unfold s_term in H. destruct (term_match TmAny cs); [|discriminate]. injection H as <- _ _ _. constructor.
    + destruct (name_eqb nm n_Whitespace); [|discriminate].
      pose proof (s_term_pos _ _ _ _ _ _ _ _ _ H) as Hle. split; [exact Hle|].
      unfold s_term in H. destruct (term_match TmWs cs); [|discriminate]. injection H as <- _ _ _. constructor.
Qed.

End Step.

Theorem spec_positions n :
  Pe (srun fcfg shk g insens n) /\ Pr (srun fcfg shk g insens n) /\ Pl (srun fcfg shk g insens n).
Proof.
  induction n as [|n [He [Hr Hl]]].
  - split; [|split]; unfold Pe, Pr, Pl; cbn; intros; discriminate.
  - split; [|split]; [apply sexpr_step_pos|apply srule_step_pos|apply sloop_step_pos]; auto.
Qed.

(* a @position rule (struct or @string) records exactly its own span *)
Theorem spec_own_span r consumed span evs v :
  fl_position (flags_of (r_directives r)) = true ->
  shape fcfg g r consumed span evs = Some v ->
  (exists fs, v = VStruct (r_name r) fs (Some span)) \/
  (* simple / enum override: the value is the overridden value itself *)
  (fl_string (flags_of (r_directives r)) = false /\
   exists fd, get_fields fcfg (gf_fuel_s g) g (r_def r) = GFOk [fd] /\ name_eqb (fd_name fd) n_override = true).
Proof.
  intros Hp E. unfold shape in E. rewrite Hp in E.
  destruct (fl_string (flags_of (r_directives r))) eqn:FS.
  - injection E as <-. left. eauto.
  - destruct (get_fields fcfg (gf_fuel_s g) g (r_def r)) as [rf| |]; try discriminate.
    destruct rf as [|fd [|fd2 rf]].
    + destruct (shape_fields [] evs); [|discriminate]. injection E as <-. left. eauto.
    + destruct (name_eqb (fd_name fd) n_override) eqn:EO.
      * right. split; [reflexivity|]. exists fd. auto.
      * destruct (shape_fields [fd] evs); [|discriminate]. injection E as <-. left. eauto.
    + destruct (shape_fields (fd :: fd2 :: rf) evs); [|discriminate]. injection E as <-. left. eauto.
Qed.

End Pos.
