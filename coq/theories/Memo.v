(* @memoize: the wrapper-level facts behind C05 / C06, for every grammar and all
   (stateful) hooks:
   - a hit returns the stored result and evaluates nothing;
   - a miss evaluates the body once and (with the wrapper closed around the
     body's early exits) stores the result whether it is Ok or Err;
   - cache entries are never removed, and a body evaluation of (R, offset) is
     only ever started when the cache has no entry for (R, offset);
   hence once a memoized call at (R, offset) has returned, no later evaluation in
   the same parse evaluates R's body at that offset again.  Two evaluations at
   one position can therefore only be nested in each other (re-entrance). *)
From Coq Require Import Lia.
From PegV Require Import Utf8 State Terminals Syntax Fields FieldsFacts Literals Model Inv.

Section Memo.
Variable ustate : Type.
Variable scfg : state_cfg.
Variable tcfg : term_cfg.
Variable fcfg : fields_cfg.
Variable rcfg : rule_cfg.
Variable hk : hooks ustate.
Variable g : grammar.
Notation glb := (glob ustate).

Definition has_entry (n : name) (k : nat) (gl : glb) : Prop := cache_get n k (g_cache gl) <> None.

(* the cache only grows, and every body evaluation logged between gl and gl' is
   for a key that had no entry at gl *)
Definition grows (gl gl' : glb) : Prop :=
  (forall n k, has_entry n k gl -> has_entry n k gl') /\
  exists d, g_evals gl' = d ++ g_evals gl /\ forall n k, In (n, k) d -> cache_get n k (g_cache gl) = None.

Lemma grows_refl gl : grows gl gl.
Proof. split; [auto|]. exists []. split; [reflexivity|intros n k []]. Qed.

Lemma grows_trans a b c : grows a b -> grows b c -> grows a c.
Proof.
  intros [A1 [d1 [E1 N1]]] [B1 [d2 [E2 N2]]]. split; [auto|].
  exists (d2 ++ d1). split; [rewrite E2, E1, app_assoc; reflexivity|].
  intros n k Hin. apply in_app_or in Hin. destruct Hin as [Hin|Hin]; [|auto].
  specialize (N2 _ _ Hin). destruct (cache_get n k (g_cache a)) eqn:E; [|reflexivity].
  exfalso. apply (A1 n k); [unfold has_entry; congruence|exact N2].
Qed.

Lemma same_cache_evals_grows (gl gl' : glb) :
  g_cache gl' = g_cache gl -> g_evals gl' = g_evals gl -> grows gl gl'.
Proof.
  intros E1 E2. split; [unfold has_entry; rewrite E1; auto|]. exists []. split; [exact E2|intros n k []].
Qed.

Theorem cache_invariant n :
  let Mrun := run ustate scfg tcfg fcfg rcfg hk g n in
  forall nm st gl, grows gl (snd (ev_rule Mrun nm st gl)).
Proof.
  cbn zeta. intros nm st0 gl0.
  assert (K : post ustate (fun _ _ => True) (fun _ _ => True) (fun _ => True) grows grows false gl0
                   (ev_rule (run ustate scfg tcfg fcfg rcfg hk g n) nm st0 gl0)).
  { apply (m_inv_rule ustate scfg tcfg fcfg rcfg hk g
             (fun _ _ => True) (fun _ _ => True) (fun _ => True) grows grows false);
      try (intros; exact I); try (intros; discriminate); try (intros; cbn; auto; fail).
    - apply grows_refl.
    - apply grows_trans.
    - apply grows_refl.
    - apply grows_trans.
    - intros gl st sp _ _. cbn. split; [exact I|]. split; [apply same_cache_evals_grows; reflexivity|exact I].
    - intros gl n0 o. apply same_cache_evals_grows; reflexivity.
    - intros gl k. apply same_cache_evals_grows; reflexivity.
    - intros gl n0 o CG _. split; [exact I|]. split; [unfold has_entry; cbn; auto|].
      exists [(n0, o)]. split; [reflexivity|]. intros n1 k [E|[]]. injection E as <- <-. exact CG.
    - intros gl u _. split; [exact I|apply same_cache_evals_grows; reflexivity].
    - intros gl n0 k c _ _. destruct c; exact I.
    - intros gl n0 k c _ _. split; [exact I|]. split.
      + intros n1 k1 H. unfold has_entry in *. cbn. destruct (name_eqb n1 n0 && Nat.eqb k1 k); [discriminate|exact H].
      + exists []. split; [reflexivity|intros n1 k1 []].
    - intros gl st _. destruct (parse_char scfg st); cbn; auto.
    - intros gl st _. destruct (parse_Whitespace st); cbn; auto.
    - intros gl st _. destruct (parse_end_of_input scfg st); cbn; auto.
    - intros gl st s _ _. destruct (parse_string_literal scfg st (encode_str s)); cbn; auto.
    - intros gl st c _ _. destruct (parse_character_literal scfg tcfg st c); cbn; auto.
    - intros gl st a b _ _ _. destruct (parse_character_range scfg tcfg st a b); cbn; auto.
    - intros gl st s _ _. destruct (parse_string_literal_insensitive scfg tcfg st (encode_str s)); cbn; auto.
    - intros gl st c _ _. destruct (parse_character_literal_insensitive scfg tcfg st c); cbn; auto.
    - intros gl r st _ _. destruct (fst (h_extern hk (er_function r) (rest st) (g_user gl))) as [[v k]|]; auto.
      destruct (advance_safe st k); auto. }
  destruct (ev_rule (run ustate scfg tcfg fcfg rcfg hk g n) nm st0 gl0) as [[v st'|e|p|] gl']; cbn in K |- *; tauto.
Qed.

(* ---- the wrapper itself ---------------------------------------------------- *)
Variable ev : evals ustate.
Notation memo_wrap := (memo_wrap ustate scfg fcfg rcfg hk g ev).
Notation rule_body := (rule_body ustate scfg fcfg hk g ev).

Definition is_memo (r : rule) : Prop :=
  fl_left_recursive (flags_of (r_directives r)) = false /\ fl_memoize (flags_of (r_directives r)) = true.

Theorem memo_hit r st gl c :
  is_memo r -> cache_get (r_name r) (off st) (g_cache gl) = Some c ->
  memo_wrap r st gl = (of_cached c, trace ustate (TInfo 0) gl).
Proof. intros [H1 H2] H. unfold Model.memo_wrap. rewrite H1, H2, H. reflexivity. Qed.

(* a hit evaluates nothing: no body evaluation is logged, the cache and the user state are untouched *)
Corollary memo_hit_evaluates_nothing r st gl c :
  is_memo r -> cache_get (r_name r) (off st) (g_cache gl) = Some c ->
  g_evals (snd (memo_wrap r st gl)) = g_evals gl /\
  g_cache (snd (memo_wrap r st gl)) = g_cache gl /\ g_user (snd (memo_wrap r st gl)) = g_user gl.
Proof. intros Hm H. rewrite (memo_hit r st gl c Hm H). cbn. auto. Qed.

Theorem memo_miss r st gl :
  is_memo r -> cache_get (r_name r) (off st) (g_cache gl) = None ->
  memo_wrap r st gl =
  match rule_body r st (log_eval ustate (r_name r, off st) gl) with
  | (MOk v st', gl') => (MOk v st', cache_put ustate (r_name r) (off st) (COk v st') gl')
  | (MErr e, gl') => if memo_closed rcfg then (MErr e, cache_put ustate (r_name r) (off st) (CErr e) gl') else (MErr e, gl')
  | other => other
  end.
Proof. intros [H1 H2] H. unfold Model.memo_wrap. rewrite H1, H2, H. reflexivity. Qed.

(* after a memoized call has returned Ok or Err (wrapper closed), the entry is there *)
Theorem memo_entry_after r st gl :
  is_memo r -> memo_closed rcfg = true ->
  match memo_wrap r st gl with
  | (MOk _ _, gl') | (MErr _, gl') => has_entry (r_name r) (off st) gl'
  | _ => True
  end.
Proof.
  intros Hm Hc. destruct (cache_get (r_name r) (off st) (g_cache gl)) as [c|] eqn:CG.
  - rewrite (memo_hit r st gl c Hm CG). destruct c; cbn; unfold has_entry; cbn; rewrite CG; discriminate.
  - rewrite (memo_miss r st gl Hm CG). rewrite Hc.
    destruct (rule_body r st (log_eval ustate (r_name r, off st) gl)) as [[v st'|e|p|] gl']; try exact I;
      unfold has_entry; cbn; rewrite name_eqb_refl, Nat.eqb_refl; discriminate.
Qed.

(* the result returned on a miss is the body's result; what is stored is what is returned *)
Theorem memo_stores_result r st gl :
  is_memo r -> memo_closed rcfg = true -> cache_get (r_name r) (off st) (g_cache gl) = None ->
  match memo_wrap r st gl with
  | (MOk v st', gl') => cache_get (r_name r) (off st) (g_cache gl') = Some (COk v st')
  | (MErr e, gl') => cache_get (r_name r) (off st) (g_cache gl') = Some (CErr e)
  | _ => True
  end.
Proof.
  intros Hm Hc CG. rewrite (memo_miss r st gl Hm CG), Hc.
  destruct (rule_body r st (log_eval ustate (r_name r, off st) gl)) as [[v st'|e|p|] gl']; try exact I;
    cbn; rewrite name_eqb_refl, Nat.eqb_refl; reflexivity.
Qed.

End Memo.
