(* C19: the tracer callback sequence of every run of the model is balanced.
   Instance of the generic invariant theorem (Inv.m_invariant). *)
From Coq Require Import Lia.
From PegV Require Import Utf8 State Terminals Syntax Fields Literals Model Inv.

(* chronological sequences: depth after the sequence, None on underflow *)
Fixpoint depth (k : nat) (w : list tev) : option nat :=
  match w with
  | [] => Some k
  | TStart _ _ :: r => depth (S k) r
  | TInfo _ :: r => depth k r
  | TResOk _ :: r | TResErr _ :: r => match k with O => None | S k' => depth k' r end
  end.

(* every entry has exactly one matching exit: the depth returns to where it started and
   never goes below it *)
Definition balanced (w : list tev) : Prop := forall k, depth k w = Some k.
(* a prefix of a balanced sequence: never below the starting depth *)
Definition partial (w : list tev) : Prop := forall k, exists j, depth k w = Some (k + j).

Lemma depth_app k a b : depth k (a ++ b) = match depth k a with Some k' => depth k' b | None => None end.
Proof.
  revert k. induction a as [|e a IH]; intro k; cbn; [reflexivity|].
  destruct e; auto. - destruct k; auto. - destruct k; auto.
Qed.

Lemma balanced_nil : balanced [].
Proof. intro k. reflexivity. Qed.

Lemma balanced_app a b : balanced a -> balanced b -> balanced (a ++ b).
Proof. intros Ha Hb k. rewrite depth_app, Ha. apply Hb. Qed.

Lemma balanced_partial a : balanced a -> partial a.
Proof. intros H k. exists 0. rewrite H. f_equal. lia. Qed.

Lemma partial_app a b : partial a -> partial b -> partial (a ++ b).
Proof.
  intros Ha Hb k. destruct (Ha k) as [j Hj]. destruct (Hb (k + j)) as [j2 Hj2].
  exists (j + j2). rewrite depth_app, Hj, Hj2. f_equal. lia.
Qed.

Lemma balanced_bracket n o w e : balanced w -> is_res e -> balanced (TStart n o :: w ++ [e]).
Proof.
  intros Hw He k. cbn. rewrite depth_app, Hw. destruct e; cbn in *; try contradiction; reflexivity.
Qed.

Lemma partial_start n o : partial [TStart n o].
Proof. intro k. exists 1. cbn. f_equal. lia. Qed.

Section Trace.
Variable ustate : Type.
Variable scfg : state_cfg.
Variable tcfg : term_cfg.
Variable fcfg : fields_cfg.
Variable rcfg : rule_cfg.
Variable hk : hooks ustate.
Variable g : grammar.
Notation glb := (glob ustate).

Definition ext (P : list tev -> Prop) (gl gl' : glb) : Prop :=
  exists d, g_trace gl' = d ++ g_trace gl /\ P (rev d).

Definition Rtr := ext partial.
Definition Btr := ext balanced.

Lemma ext_refl (P : list tev -> Prop) (gl : glb) : P [] -> ext P gl gl.
Proof. intro H. exists []. split; [reflexivity|exact H]. Qed.

Lemma ext_trans (P Q S : list tev -> Prop) (a b c : glb) :
  (forall x y, P x -> Q y -> S (x ++ y)) -> ext P a b -> ext Q b c -> ext S a c.
Proof.
  intros H [d1 [E1 H1]] [d2 [E2 H2]]. exists (d2 ++ d1). split.
  - rewrite E2, E1, app_assoc. reflexivity.
  - rewrite rev_app_distr. apply H; auto.
Qed.

Lemma same_trace_B (gl gl' : glb) : g_trace gl' = g_trace gl -> Btr gl gl'.
Proof. intro E. exists []. split; [exact E|apply balanced_nil]. Qed.

Theorem trace_invariant n :
  let Mrun := run ustate scfg tcfg fcfg rcfg hk g n in
  (forall nm st gl,
     match ev_rule Mrun nm st gl with
     | (MOk _ _, gl') | (MErr _, gl') => Btr gl gl'
     | (_, gl') => Rtr gl gl'
     end).
Proof.
  cbn zeta.
  assert (K : forall nm st gl,
    post ustate (fun _ _ => True) (fun _ _ => True) (fun _ => True) Rtr Btr false gl
         (ev_rule (run ustate scfg tcfg fcfg rcfg hk g n) nm st gl)).
  { intros nm st0 gl0.
    apply (m_inv_rule ustate scfg tcfg fcfg rcfg hk g
             (fun _ _ => True) (fun _ _ => True) (fun _ => True) Rtr Btr false);
      try (intros; exact I); try (intros; discriminate); try (intros; cbn; auto; fail).
    - intro gl. apply ext_refl. apply balanced_partial, balanced_nil.
    - intros a b c. apply ext_trans. apply partial_app.
    - intro gl. apply ext_refl. apply balanced_nil.
    - intros a b c. apply ext_trans. apply balanced_app.
    - intros a b [d [E H]]. exists d. split; [exact E|apply balanced_partial; exact H].
    - intros gl st sp _ _. cbn. split; [exact I|]. split; [apply same_trace_B; reflexivity|exact I].
    - intros gl n0 o. exists [TStart n0 o]. split; [reflexivity|apply partial_start].
    - intros gl k. exists [TInfo k]. split; [reflexivity|]. intro j. reflexivity.
    - intros gl gl2 n0 o e [d [E H]] He. exists (e :: d ++ [TStart n0 o]). split.
      + cbn. rewrite E. cbn. rewrite <- app_assoc. reflexivity.
      + cbn. rewrite rev_app_distr. cbn. apply balanced_bracket; auto.
    - intros gl n1 o1 _ _. split; [exact I|apply same_trace_B; reflexivity].
    - intros gl u _. split; [exact I|apply same_trace_B; reflexivity].
    - intros gl n0 k c _ _. destruct c; exact I.
    - intros gl n0 k c _ _. split; [exact I|apply same_trace_B; reflexivity].
    - intros gl st _. destruct (parse_char scfg st); cbn; auto.
    - intros gl st _. destruct (parse_Whitespace st); cbn; auto.
    - intros gl st _. destruct (parse_end_of_input scfg st); cbn; auto.
    - intros gl st s _ _. destruct (parse_string_literal scfg st (encode_str s)); cbn; auto.
    - intros gl st c _ _. destruct (parse_character_literal scfg tcfg st c); cbn; auto.
    - intros gl st a b _ _ _. destruct (parse_character_range scfg tcfg st a b); cbn; auto.
    - intros gl st s _ _. destruct (parse_string_literal_insensitive scfg tcfg st (encode_str s)); cbn; auto.
    - intros gl st c _ _. destruct (parse_character_literal_insensitive scfg tcfg st c); cbn; auto.
    - intros gl r st _ _. destruct (fst (h_extern hk (er_function r) (rest st) (g_user gl))) as [[v k]|]; auto.
      destruct (advance_safe st k); auto. }
  intros nm st gl. specialize (K nm st gl).
  destruct (ev_rule (run ustate scfg tcfg fcfg rcfg hk g n) nm st gl) as [[v st'|e|p|] gl']; cbn in K; tauto.
Qed.

(* whole parse: starting from the empty log *)
Corollary parse_trace_balanced fuel rule_name input u :
  match m_parse ustate scfg tcfg fcfg rcfg hk g fuel rule_name input u with
  | (MOk _ _, gl') | (MErr _, gl') => balanced (rev (g_trace gl'))
  | (_, gl') => partial (rev (g_trace gl'))
  end.
Proof.
  unfold m_parse. pose proof (trace_invariant fuel rule_name (init_state input) (init_glob ustate u)) as T.
  cbn zeta in T.
  destruct (ev_rule _ rule_name _ _) as [[v st'|e|p|] gl']; destruct T as [d [E H]]; cbn in E;
    rewrite app_nil_r in E; rewrite E; exact H.
Qed.

End Trace.
