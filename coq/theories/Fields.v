(* Model of the field/arity/type-set computation: Codegen::get_fields of every
   construct (choice.rs, sequence.rs, optional.rs, closure.rs, lookahead.rs,
   include_rule.rs, field.rs, string.rs, eoi.rs, misc.rs) and
   common.rs: combine_field_types, get_filtered_rule_fields. *)
From PegV Require Import Utf8 State Syntax.

Inductive arity := One | Optional | Multiple.

Definition arity_eqb (a b : arity) : bool :=
  match a, b with One, One | Optional, Optional | Multiple, Multiple => true | _, _ => false end.

Record fdesc := { fd_name : name; fd_types : list (name * bool); fd_arity : arity }.

(* The arity tables, regenerated from the source (Extracted.v):
   combine_arity  : choice.rs combine_arities_for_choice (9 rows)
   opt_arity      : optional.rs set_arity_to_optional (3 rows)
   clo_arity      : closure.rs set_arity_to_multiple
   seq_dup_arity  : sequence.rs — arity given to a field seen again
   choice_missing : choice.rs — a One field absent from a later arm
   choice_new     : choice.rs — a field first seen in a later arm *)
Record fields_cfg := {
  combine_arity : arity -> arity -> arity;
  opt_arity : arity -> arity;
  clo_arity : arity -> arity;
  seq_dup_arity : arity;
  choice_missing : arity -> arity;
  choice_new : arity -> arity
}.

(* compile-time errors (anyhow bail!) raised during get_fields *)
Inductive gf_err :=
| GENegLookaheadFields
| GEPosLookaheadFields
| GEIncludeNotFound (n : name).

Inductive gf_res :=
| GFOk (l : list fdesc)
| GFErr (e : gf_err)
| GFFuel.

(* str ordering (bytewise lexicographic) — the BTreeMap key order *)
Fixpoint name_ltb (a b : name) : bool :=
  match a, b with
  | [], [] => false
  | [], _ :: _ => true
  | _ :: _, [] => false
  | x :: a', y :: b' => if N.ltb x y then true else if N.eqb x y then name_ltb a' b' else false
  end.

Fixpoint types_insert (k : name) (bx : bool) (m : list (name * bool)) : list (name * bool) :=
  match m with
  | [] => [(k, bx)]
  | (k', b') :: r =>
    if name_eqb k k' then (k', b' || bx) :: r
    else if name_ltb k k' then (k, bx) :: m
    else (k', b') :: types_insert k bx r
  end.

(* combine_field_types(left, right) *)
Definition combine_types (l r : list (name * bool)) : list (name * bool) :=
  fold_left (fun acc kv => types_insert (fst kv) (snd kv) acc) r l.

Fixpoint find_fd (n : name) (l : list fdesc) : option fdesc :=
  match l with
  | [] => None
  | f :: r => if name_eqb (fd_name f) n then Some f else find_fd n r
  end.

Definition has_fd (n : name) (l : list fdesc) : bool :=
  match find_fd n l with Some _ => true | None => false end.

(* `iter_mut().find(..)`: update the first descriptor with that name *)
Fixpoint update_fd (n : name) (u : fdesc -> fdesc) (l : list fdesc) : list fdesc :=
  match l with
  | [] => []
  | f :: r => if name_eqb (fd_name f) n then u f :: r else f :: update_fd n u r
  end.

Definition set_arity (a : arity) (f : fdesc) : fdesc :=
  {| fd_name := fd_name f; fd_types := fd_types f; fd_arity := a |}.

Section WithCfg.
Variable fcfg : fields_cfg.

Definition seq_merge (all new : list fdesc) : list fdesc :=
  fold_left (fun all nf =>
    if has_fd (fd_name nf) all
    then update_fd (fd_name nf)
           (fun o => {| fd_name := fd_name o;
                        fd_types := combine_types (fd_types o) (fd_types nf);
                        fd_arity := seq_dup_arity fcfg |}) all
    else all ++ [nf]) new all.

Definition choice_merge (first : bool) (all new : list fdesc) : list fdesc :=
  let all1 :=
    if first then all
    else map (fun f => if negb (has_fd (fd_name f) new)
                       then set_arity (choice_missing fcfg (fd_arity f)) f else f) all in
  fold_left (fun all nf =>
    if has_fd (fd_name nf) all
    then update_fd (fd_name nf)
           (fun o => {| fd_name := fd_name o;
                        fd_types := combine_types (fd_types o) (fd_types nf);
                        fd_arity := combine_arity fcfg (fd_arity o) (fd_arity nf) |}) all
    else if first then all ++ [nf]
    else all ++ [set_arity (choice_new fcfg (fd_arity nf)) nf]) new all1.

Definition fname_of (f : field_name) : option name :=
  match f with FNone => None | FNamed n => Some n | FOverride => Some n_override end.

(* Sequence::get_fields / Choice::get_fields over the results of the parts *)
Fixpoint gf_seq (gf : expr -> gf_res) (ps : list expr) (all : list fdesc) : gf_res :=
  match ps with
  | [] => GFOk all
  | p :: ps' =>
    match gf p with
    | GFOk new => gf_seq gf ps' (seq_merge all new)
    | r => r
    end
  end.

Fixpoint gf_choice (gf : expr -> gf_res) (cs : list expr) (first : bool) (all : list fdesc) : gf_res :=
  match cs with
  | [] => GFOk all
  | c :: cs' =>
    match gf c with
    | GFOk new => gf_choice gf cs' false (choice_merge first all new)
    | r => r
    end
  end.

Fixpoint get_fields (fuel : nat) (g : grammar) (e : expr) : gf_res :=
  match fuel with
  | O => GFFuel
  | S fuel' =>
    let gf := get_fields fuel' g in
    match e with
    | EField fn boxed typ =>
      match fname_of fn with
      | None => GFOk []
      | Some n => GFOk [ {| fd_name := n; fd_types := [(typ, boxed)]; fd_arity := One |} ]
      end
    | ELit _ _ | ERange _ _ | EEoi => GFOk []
    | EGroup b => gf b
    | EOptional b =>
      match gf b with
      | GFOk l => GFOk (map (fun f => set_arity (opt_arity fcfg (fd_arity f)) f) l)
      | r => r
      end
    | EClosure b _ =>
      match gf b with
      | GFOk l => GFOk (map (fun f => set_arity (clo_arity fcfg (fd_arity f)) f) l)
      | r => r
      end
    | ENeg b =>
      match gf b with
      | GFOk [] => GFOk []
      | GFOk _ => GFErr GENegLookaheadFields
      | r => r
      end
    | EPos b =>
      match gf b with
      | GFOk [] => GFOk []
      | GFOk _ => GFErr GEPosLookaheadFields
      | r => r
      end
    | EInclude n =>
      match find_rule g n with
      | Some r => gf (r_def r)
      | None => GFErr (GEIncludeNotFound n)
      end
    | ESeq parts => gf_seq gf parts []
    | EChoice alts => gf_choice gf alts true []
    end
  end.

(* get_filtered_rule_fields: the rule-level descriptors of the fields that
   occur in e, in rule-field order *)
Definition filtered_fields (fuel : nat) (g : grammar) (rule_fields : list fdesc) (e : expr)
  : option (list fdesc) :=
  match get_fields fuel g e with
  | GFOk fs => Some (filter (fun rf => has_fd (fd_name rf) fs) rule_fields)
  | _ => None
  end.

End WithCfg.

(* the tables the documentation describes: join of One < Optional < Multiple *)
Definition arity_join (a b : arity) : arity :=
  match a, b with
  | Multiple, _ | _, Multiple => Multiple
  | Optional, _ | _, Optional => Optional
  | One, One => One
  end.

Definition fields_cfg_doc : fields_cfg := {|
  combine_arity := arity_join;
  opt_arity := arity_join Optional;
  clo_arity := fun _ => Multiple;
  seq_dup_arity := Multiple;
  choice_missing := arity_join Optional;
  choice_new := arity_join Optional
|}.
