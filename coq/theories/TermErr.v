(* Every runtime matcher's Err is the report_error of its own specifics, and the
   built-in whitespace skipper never fails. *)
From PegV Require Import Utf8 Utf8Facts State Terminals.

Section TermErr.
Variable scfg : state_cfg.
Variable tcfg : term_cfg.

(* every matcher's error is the report_error of its own specifics *)
Definition err_is {A} (st : pstate) (sp : specifics) (r : tres A) : Prop :=
  match r with TErr e => e = report_error scfg st sp | _ => True end.

Lemma err_adv {A} st sp k (v : A) : err_is st sp (adv_then st k v).
Proof. unfold adv_then. destruct (advance st k); exact I. Qed.

Lemma err_char st : err_is st ExpectedAnyCharacter (parse_char scfg st).
Proof. unfold parse_char. destruct (rest st); [reflexivity|]. destruct (decode1 _) as [[c k]|]; [apply err_adv|exact I]. Qed.

Lemma ws_loop_never_err e bs : forall o f, ws_loop bs o f <> TErr e.
Proof.
  induction bs as [|b r IH]; intros o f; cbn [ws_loop]; [discriminate|].
  destruct (is_ascii_ws b); [|discriminate].
  destruct (advance {| rest := b :: r; off := o; far := f |} 1); try discriminate. apply IH.
Qed.

Lemma ws_never_err st e : parse_Whitespace st <> TErr e.
Proof. unfold parse_Whitespace. apply ws_loop_never_err. Qed.

Lemma err_ws st : err_is st OtherError (parse_Whitespace st).
Proof. destruct (parse_Whitespace st) eqn:E; try exact I. exfalso. eapply ws_never_err; eauto. Qed.

Lemma err_eoi st : err_is st ExpectedEoi (parse_end_of_input scfg st).
Proof. unfold parse_end_of_input. destruct (rest st); [exact I|reflexivity]. Qed.

Lemma err_lit st s : err_is st (ExpectedString s) (parse_string_literal scfg st s).
Proof. unfold parse_string_literal. destruct (starts_with s (rest st)); [apply err_adv|reflexivity]. Qed.

Lemma err_clit st c : err_is st (ExpectedCharacter c) (parse_character_literal scfg tcfg st c).
Proof.
  unfold parse_character_literal. destruct (if lit_fast_is_ascii tcfg then is_ascii c else true).
  - destruct (rest st); [reflexivity|]. destruct (negb _); [reflexivity|apply err_adv].
  - destruct (negb _); [reflexivity|apply err_adv].
Qed.

Lemma err_range st a b : err_is st (ExpectedCharacterRange a b) (parse_character_range scfg tcfg st a b).
Proof.
  unfold parse_character_range. destruct (if range_fast_both_ascii tcfg then _ else _).
  - destruct (rest st); [reflexivity|]. destruct (_ || _); [reflexivity|apply err_adv].
  - destruct (rest st); [reflexivity|]. destruct (decode1 _) as [[c k]|]; [|exact I].
    destruct (_ || _); [reflexivity|apply err_adv].
Qed.

Lemma err_ilit st s : err_is st (ExpectedString s) (parse_string_literal_insensitive scfg tcfg st s).
Proof. unfold parse_string_literal_insensitive. destruct (ieq tcfg s (rest st)); [apply err_adv|reflexivity]. Qed.

Lemma err_iclit st c : err_is st (ExpectedCharacter c) (parse_character_literal_insensitive scfg tcfg st c).
Proof.
  unfold parse_character_literal_insensitive. destruct (rest st); [reflexivity|].
  destruct (negb _); [reflexivity|apply err_adv].
Qed.


End TermErr.
