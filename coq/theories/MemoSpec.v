(* @memoize and the specification: S never looks at the marker, so the
   specification of a grammar and of the grammar with the markers removed are
   the same function; together with MemoEq (memoized model ~ unmarked model)
   and Sim (unmarked model = S) the memoized model agrees with S on acceptance,
   tree and end offset. *)
From PegV Require Import Utf8 Utf8Facts State Terminals TerminalsSpec Syntax Fields FieldsFacts Literals Model Spec
  ErrLog Sim Conform MemoEq.

Section SpecStrip.
Variable c : fields_cfg.
Variable shk : shooks.
Variable g : grammar.
Variable guard : bool.

Definition sv_eq (a b : sevals) : Prop :=
  (forall skip e cs o, sv_expr a skip e cs o = sv_expr b skip e cs o) /\
  (forall n cs o, sv_rule a n cs o = sv_rule b n cs o) /\
  (forall skip e plus cs o it evs acc, sv_loop a skip e plus cs o it evs acc = sv_loop b skip e plus cs o it evs acc).

Section Step.
Variable a b : sevals.
Hypothesis H : sv_eq a b.
Let He := proj1 H.
Let Hr := proj1 (proj2 H).
Let Hl := proj2 (proj2 H).

Lemma s_with_ws_eq {A} skip cs o (k : list N -> nat -> sres A) :
  s_with_ws a skip cs o k = s_with_ws b skip cs o k.
Proof. unfold s_with_ws. rewrite Hr. reflexivity. Qed.

Lemma s_choice_eq skip alts : forall cs o acc, s_choice a skip alts cs o acc = s_choice b skip alts cs o acc.
Proof.
  induction alts as [|x alts IH]; intros cs o acc; [reflexivity|]. cbn. rewrite He.
  destruct (sv_expr b skip x cs o); try reflexivity. apply IH.
Qed.

Lemma s_seq_eq skip parts : forall cs o evs acc, s_seq a skip parts cs o evs acc = s_seq b skip parts cs o evs acc.
Proof.
  induction parts as [|x parts IH]; intros cs o evs acc; [reflexivity|]. cbn. rewrite He.
  destruct (sv_expr b skip x cs o); try reflexivity. apply IH.
Qed.

Lemma sexpr_step_eq skip e cs o :
  sexpr_step (strip g) guard a skip e cs o = sexpr_step g guard b skip e cs o.
Proof.
  destruct e; cbn [sexpr_step].
  - destruct alts as [|x [|y r]]; [reflexivity|apply He|apply s_choice_eq].
  - destruct parts as [|x [|y r]]; [reflexivity|apply He|apply s_seq_eq].
  - apply He.
  - rewrite He. reflexivity.
  - apply Hl.
  - rewrite He. reflexivity.
  - rewrite He. reflexivity.
  - destruct (compile_range from to); try reflexivity. rewrite s_with_ws_eq. reflexivity.
  - destruct (compile_lit guard insensitive body); try reflexivity. destruct (lit_term m). rewrite s_with_ws_eq. reflexivity.
  - rewrite s_with_ws_eq. reflexivity.
  - rewrite find_rule_strip. destruct (find_rule g rule); cbn [option_map strip_rule r_def]; [apply He|reflexivity].
  - rewrite s_with_ws_eq.
    assert (K : s_with_ws b skip cs o (fun cs0 o0 => sv_rule a typ cs0 o0) = s_with_ws b skip cs o (fun cs0 o0 => sv_rule b typ cs0 o0)).
    { unfold s_with_ws. destruct skip; [|apply Hr]. destruct (sv_rule b n_Whitespace cs o); try reflexivity. rewrite Hr. reflexivity. }
    rewrite K. reflexivity.
Qed.

Lemma sloop_step_eq skip e plus cs o it evs acc :
  sloop_step a skip e plus cs o it evs acc = sloop_step b skip e plus cs o it evs acc.
Proof. unfold sloop_step. rewrite He. destruct (sv_expr b skip e cs o); try reflexivity. apply Hl. Qed.

Lemma s_char_parts_eq ps : forall cs o, s_char_parts a ps cs o = s_char_parts b ps cs o.
Proof.
  induction ps as [|p ps IH]; intros cs o; [reflexivity|]. cbn [s_char_parts]. destruct p.
  - destruct (decode_item s); try reflexivity. destruct (term_match (TmChar a0) cs); [reflexivity|apply IH].
  - destruct (compile_range a0 b0); try reflexivity. destruct (term_match (TmRange a1 b1) cs); [reflexivity|apply IH].
  - rewrite Hr. destruct (sv_rule b n cs o); try reflexivity. apply IH.
Qed.

Lemma shape_strip r consumed span evs :
  shape c (strip g) (strip_rule r) consumed span evs = shape c g r consumed span evs.
Proof.
  unfold shape. destruct (flags_strip r) as [_ [_ [F3 [F4 _]]]]. cbn zeta in *. rewrite F3, F4.
  unfold gf_fuel_s. rewrite grammar_size_strip, get_fields_strip. reflexivity.
Qed.

Lemma srule_step_eq n cs o :
  srule_step c shk (strip g) a n cs o = srule_step c shk g b n cs o.
Proof.
  unfold srule_step. rewrite find_grule_strip. destruct (find_grule g n) as [[r|r|r]|]; cbn [option_map strip_grule].
  - destruct (flags_strip r) as [F1 [_ [_ [_ [F5 _]]]]]. cbn zeta in *. rewrite F1, F5.
    destruct (fl_left_recursive (flags_of (r_directives r))); [reflexivity|].
    cbn [strip_rule r_def]. rewrite He.
    destruct (sv_expr b (negb (fl_no_skip_ws (flags_of (r_directives r)))) (r_def r) cs o); try reflexivity.
    rewrite shape_strip, checks_strip. reflexivity.
  - rewrite s_char_parts_eq. reflexivity.
  - reflexivity.
  - reflexivity.
Qed.

End Step.

Theorem srun_strip n : sv_eq (srun c shk (strip g) guard n) (srun c shk g guard n).
Proof.
  induction n as [|n IH]; [repeat split|].
  split; [|split]; intros; cbn [srun sstep sv_expr sv_rule sv_loop].
  - apply sexpr_step_eq. exact IH.
  - apply srule_step_eq. exact IH.
  - apply sloop_step_eq. exact IH.
Qed.

Corollary s_parse_strip n rule_name cs : s_parse c shk (strip g) guard n rule_name cs = s_parse c shk g guard n rule_name cs.
Proof. unfold s_parse. apply (proj1 (proj2 (srun_strip n))). Qed.

End SpecStrip.

(* ---- the memoized model against the specification -------------------------------- *)
Section MemoVsSpec.
Variable ustate : Type.
Variable scfg : state_cfg.
Variable fcfg : fields_cfg.
Variable rcfg : rule_cfg.
Variable hk : hooks ustate.
Variable shk : shooks.
Variable g : grammar.

Hypothesis Hle : rec_le scfg = true.
Hypothesis Hf : fcfg_sound fcfg = true.
Hypothesis Hg : insens_guard rcfg = true.
Hypothesis Hp : pure_hooks ustate hk shk.
Hypothesis NoLR : forall r, In (GRule r) g -> fl_left_recursive (flags_of (r_directives r)) = false.

Lemma strip_plain : plain_grammar (strip g).
Proof.
  intros r Hin. unfold strip in Hin. apply in_map_iff in Hin. destruct Hin as [x [Hx Hin]].
  destruct x as [r0|c0|e0]; cbn in Hx; try discriminate. injection Hx as <-.
  destruct (flags_strip r0) as [_ [_ [_ [_ [F5 F6]]]]]. cbn zeta in *. split; [exact F6|].
  rewrite F5. apply NoLR. exact Hin.
Qed.

Theorem memoized_vs_spec n m rule_name cs u : all_scalar cs ->
  match fst (m_parse ustate scfg term_cfg_expected fcfg rcfg hk g n rule_name (encode_str cs) u) with
  | MOk v st' =>
    s_parse fcfg shk g true m rule_name cs = SFuel \/
    (exists p, fst (m_parse ustate scfg term_cfg_expected fcfg rcfg hk (strip g) m rule_name (encode_str cs) u) = MPanic p) \/
    exists cs' l, s_parse fcfg shk g true m rule_name cs = SOk v cs' (off st') l
  | MErr _ =>
    s_parse fcfg shk g true m rule_name cs = SFuel \/
    (exists p, fst (m_parse ustate scfg term_cfg_expected fcfg rcfg hk (strip g) m rule_name (encode_str cs) u) = MPanic p) \/
    exists l, s_parse fcfg shk g true m rule_name cs = SFail l
  | _ => True
  end.
Proof.
  intro Hs. destruct Hp as [P1 [P2 P3]].
  assert (Pc : forall f v u0 u', fst (h_check hk f v u0) = fst (h_check hk f v u')) by (intros; rewrite !P1; reflexivity).
  assert (Pe : forall f bs u0 u', fst (h_extern hk f bs u0) = fst (h_extern hk f bs u')) by (intros; rewrite !P3; reflexivity).
  pose proof (memoize_transparent ustate scfg term_cfg_expected fcfg rcfg hk g (encode_str cs) NoLR Pc Pe n m rule_name u u) as W.
  pose proof (conform ustate scfg fcfg rcfg hk shk (strip g) Hle Hf Hg Hp strip_plain m rule_name cs u Hs) as C.
  rewrite Hg in C. rewrite s_parse_strip in C.
  destruct (fst (m_parse ustate scfg term_cfg_expected fcfg rcfg hk g n rule_name (encode_str cs) u)) as [v st'|e|p|]; try exact I;
    destruct (fst (m_parse ustate scfg term_cfg_expected fcfg rcfg hk (strip g) m rule_name (encode_str cs) u)) as [v2 st2|e2|p2|];
    cbn in W, C; try contradiction.
  - destruct W as [-> [_ Ho]]. destruct C as [consumed [cs' [l [E _]]]]. right. right. exists cs', l. rewrite E, Ho. reflexivity.
  - left. exact C.
  - destruct C as [l [E _]]. right. right. exists l. exact E.
  - left. exact C.
Qed.

End MemoVsSpec.
