(* S — the specification: what doc/syntax.md says a grammar means.
   A plain PEG semantics over characters: ordered choice, greedy closure,
   lookaheads, terminals with their character-level meaning (TerminalsSpec),
   whitespace skipped exactly before every literal, range, `$`, rule or field
   reference of a skipping rule, checks and externs as pure oracles.
   It returns the remaining characters and byte offset, the ordered list of
   field-match events on the successful path, and the ordered list of failed
   match attempts (for C10).  No parse state, no error bookkeeping, no cache,
   no tracer, no result-shape plumbing.  Values of sub-rules are assembled
   from the events by `shape` (declared arity and type set only). *)
From PegV Require Import Utf8 State TerminalsSpec Syntax Fields Literals Model.

Record event := { ev_field : name; ev_typ : name; ev_val : value }.

Inductive sres (A : Type) :=
| SOk (v : A) (cs : list N) (o : nat) (flog : list perr)
| SFail (flog : list perr)
| SStuck                       (* outside the quantifier: undefined rule, uncompilable grammar,
                                  @leftrec rule, misbehaving extern, arity mismatch *)
| SFuel.
Arguments SOk {A}. Arguments SFail {A}. Arguments SStuck {A}. Arguments SFuel {A}.

(* pure oracles *)
Record shooks := {
  sh_check : list name -> value -> bool;
  sh_check_char : list name -> N -> bool;
  sh_extern : list name -> bytes -> (value * nat + name)
}.

Section Spec.
Variable fcfg : fields_cfg.
Variable shk : shooks.
Variable g : grammar.
Variable insens_guard_on : bool.

Definition blen (m : list N) : nat := length (encode_str m).

(* the characters making up the first n bytes, if n falls on a boundary *)
Fixpoint split_bytes (n : nat) (cs : list N) : option (list N * list N) :=
  match n with
  | O => Some ([], cs)
  | _ =>
    match cs with
    | [] => None
    | c :: r =>
      let k := utf8_len c in
      if Nat.leb k n then
        match split_bytes (n - k) r with
        | Some (a, b) => Some (c :: a, b)
        | None => None
        end
      else None
    end
  end.

(* ---- shape: the value of a rule match from its events ------------------- *)

Definition wrap_enum (fd : fdesc) (e : event) : value :=
  match fd_types fd with
  | _ :: _ :: _ => VEnum (ev_typ e) (ev_val e)
  | _ => ev_val e
  end.

Definition field_value (fd : fdesc) (evs : list event) : option value :=
  let mine := filter (fun e => name_eqb (ev_field e) (fd_name fd)) evs in
  match fd_arity fd with
  | One => match mine with [e] => Some (wrap_enum fd e) | _ => None end
  | Optional =>
    match mine with
    | [] => Some VNone
    | [e] => Some (VSome (wrap_enum fd e))
    | _ => None
    end
  | Multiple => Some (VList (map (wrap_enum fd) mine))
  end.

Fixpoint shape_fields (fds : list fdesc) (evs : list event) : option fields :=
  match fds with
  | [] => Some []
  | fd :: r =>
    match field_value fd evs, shape_fields r evs with
    | Some v, Some rest => Some ((fd_name fd, v) :: rest)
    | _, _ => None
    end
  end.

Definition gf_fuel_s : nat := S (grammar_size g).

Definition shape (r : rule) (consumed : list N) (span : nat * nat) (evs : list event) : option value :=
  let fl := flags_of (r_directives r) in
  if fl_string fl then
    let s := VStr (encode_str consumed) in
    Some (if fl_position fl then VStruct (r_name r) [(n_string, s)] (Some span) else s)
  else
    match get_fields fcfg gf_fuel_s g (r_def r) with
    | GFOk [fd] =>
      if name_eqb (fd_name fd) n_override then field_value fd evs
      else match shape_fields [fd] evs with
           | Some fs => Some (VStruct (r_name r) fs (if fl_position fl then Some span else None))
           | None => None
           end
    | GFOk rf =>
      match shape_fields rf evs with
      | Some fs => Some (VStruct (r_name r) fs (if fl_position fl then Some span else None))
      | None => None
      end
    | _ => None
    end.

(* ---- terminals ---------------------------------------------------------- *)

Definition s_term {A} (t : term) (sp : specifics) (v : list N -> A) (cs : list N) (o : nat) : sres A :=
  match term_match t cs with
  | Some m => SOk (v m) (skipn (length m) cs) (o + blen m) []
  | None => SFail [ {| e_pos := o; e_spec := sp |} ]
  end.

Definition lit_term (m : lit_matcher) : term * specifics :=
  match m with
  | LMChar c => (TmChar c, ExpectedCharacter c)
  | LMStr s => (TmStr s, ExpectedString (encode_str s))
  | LMIChar c => (TmIChar c, ExpectedCharacter c)
  | LMIStr s => (TmIStr s, ExpectedString (encode_str s))
  end.

(* ---- the semantics, fuel-indexed like M (same recursion pattern) --------- *)

Definition sexpr_eval := bool -> expr -> list N -> nat -> sres (list event).
Definition srule_eval := name -> list N -> nat -> sres value.
Definition sloop_eval := bool -> expr -> bool -> list N -> nat -> nat -> list event -> list perr -> sres (list event).

Record sevals := { sv_expr : sexpr_eval; sv_rule : srule_eval; sv_loop : sloop_eval }.

Section Step.
Variable sv : sevals.
Notation se := (sv_expr sv).
Notation sr := (sv_rule sv).
Notation sl := (sv_loop sv).

(* skip whitespace (the `Whitespace` rule: the grammar's own, else the built-in) *)
Definition s_with_ws {A} (skip : bool) (cs : list N) (o : nat)
           (k : list N -> nat -> sres A) : sres A :=
  if skip then
    match sr n_Whitespace cs o with
    | SOk _ cs1 o1 l1 =>
      match k cs1 o1 with
      | SOk v cs2 o2 l2 => SOk v cs2 o2 (l1 ++ l2)
      | SFail l2 => SFail (l1 ++ l2)
      | SStuck => SStuck
      | SFuel => SFuel
      end
    | SFail l1 => SFail l1
    | SStuck => SStuck
    | SFuel => SFuel
    end
  else k cs o.

Definition s_noev {A} (r : sres A) : sres (list event) :=
  match r with
  | SOk _ cs o l => SOk [] cs o l
  | SFail l => SFail l
  | SStuck => SStuck
  | SFuel => SFuel
  end.

(* ordered choice: the first alternative that matches *)
Fixpoint s_choice (skip : bool) (alts : list expr) (cs : list N) (o : nat) (acc : list perr) : sres (list event) :=
  match alts with
  | [] => SFail acc
  | a :: rest =>
    match se skip a cs o with
    | SOk evs cs' o' l => SOk evs cs' o' (acc ++ l)
    | SFail l => s_choice skip rest cs o (acc ++ l)
    | SStuck => SStuck
    | SFuel => SFuel
    end
  end.

(* sequence: left to right *)
Fixpoint s_seq (skip : bool) (parts : list expr) (cs : list N) (o : nat)
         (evs : list event) (acc : list perr) : sres (list event) :=
  match parts with
  | [] => SOk evs cs o acc
  | p :: ps =>
    match se skip p cs o with
    | SOk e1 cs' o' l => s_seq skip ps cs' o' (evs ++ e1) (acc ++ l)
    | SFail l => SFail (acc ++ l)
    | SStuck => SStuck
    | SFuel => SFuel
    end
  end.

Definition sexpr_step : sexpr_eval := fun skip e cs o =>
  match e with
  | EField fn boxed typ =>
    match s_with_ws skip cs o (fun cs o => sr typ cs o) with
    | SOk v cs' o' l =>
      SOk (match fname_of fn with
           | Some n => [ {| ev_field := n; ev_typ := typ; ev_val := v |} ]
           | None => []
           end) cs' o' l
    | SFail l => SFail l
    | SStuck => SStuck
    | SFuel => SFuel
    end
  | ELit ins body =>
    match compile_lit insens_guard_on ins body with
    | LOk m => let '(t, sp) := lit_term m in
               s_noev (s_with_ws skip cs o (s_term t sp (fun _ => tt)))
    | _ => SStuck
    end
  | ERange from to =>
    match compile_range from to with
    | RgOk a b => s_noev (s_with_ws skip cs o (s_term (TmRange a b) (ExpectedCharacterRange a b) (fun _ => tt)))
    | _ => SStuck
    end
  | EEoi => s_noev (s_with_ws skip cs o (s_term TmEoi ExpectedEoi (fun _ => tt)))
  | EGroup b => se skip b cs o
  | EInclude n =>
    match find_rule g n with
    | Some r => se skip (r_def r) cs o           (* the body, under the includer's setting *)
    | None => SStuck
    end
  | EChoice alts =>
    match alts with
    | [] => SStuck
    | [a] => se skip a cs o
    | _ => s_choice skip alts cs o []
    end
  | ESeq parts =>
    match parts with
    | [] => SOk [] cs o []
    | [p] => se skip p cs o
    | _ => s_seq skip parts cs o [] []
    end
  | EOptional b =>
    match se skip b cs o with
    | SOk evs cs' o' l => SOk evs cs' o' l
    | SFail l => SOk [] cs o l                     (* never fails, leaves no trace *)
    | SStuck => SStuck
    | SFuel => SFuel
    end
  | EClosure b plus => sl skip b plus cs o 0 [] []
  | ENeg b =>
    match se skip b cs o with
    | SOk _ _ _ _ => SFail [ {| e_pos := o; e_spec := NegativeLookaheadFailed |} ]
    | SFail _ => SOk [] cs o []
    | SStuck => SStuck
    | SFuel => SFuel
    end
  | EPos b =>
    match se skip b cs o with
    | SOk _ _ _ _ => SOk [] cs o []
    | SFail l => SFail l
    | SStuck => SStuck
    | SFuel => SFuel
    end
  end.

(* greedy repetition: iterate until the body fails; never gives anything back *)
Definition sloop_step : sloop_eval := fun skip b plus cs o iters evs acc =>
  match se skip b cs o with
  | SOk e1 cs' o' l => sl skip b plus cs' o' (S iters) (evs ++ e1) (acc ++ l)
  | SFail l =>
    if plus && Nat.eqb iters 0 then SFail (acc ++ l) else SOk evs cs o (acc ++ l)
  | SStuck => SStuck
  | SFuel => SFuel
  end.

Fixpoint s_checks (cs_ : list (list name)) (v : value) (o' : nat) : option perr :=
  match cs_ with
  | [] => None
  | f :: r =>
    if sh_check shk f v then s_checks r v o'
    else Some {| e_pos := o'; e_spec := CheckFunctionFailed (join_names f) |}
  end.

Fixpoint s_char_checks (cs_ : list (list name)) (c : N) : bool :=
  match cs_ with
  | [] => true
  | f :: r => if sh_check_char shk f c then s_char_checks r c else false
  end.

Fixpoint s_char_parts (ps : list char_part) (cs : list N) (o : nat) : sres value :=
  match ps with
  | [] => SFail []
  | CPChar i :: r =>
    match decode_item i with
    | DOk c =>
      match term_match (TmChar c) cs with
      | Some m => SOk (VChar c) (skipn (length m) cs) (o + blen m) []
      | None => s_char_parts r cs o
      end
    | _ => SStuck
    end
  | CPRange a b :: r =>
    match compile_range a b with
    | RgOk x y =>
      match term_match (TmRange x y) cs with
      | Some m => SOk (VChar (hd 0%N m)) (skipn (length m) cs) (o + blen m) []
      | None => s_char_parts r cs o
      end
    | _ => SStuck
    end
  | CPIdent n :: r =>
    match sr n cs o with
    | SOk v cs' o' l => SOk v cs' o' l
    | SFail _ => s_char_parts r cs o
    | SStuck => SStuck
    | SFuel => SFuel
    end
  end.

Definition srule_step : srule_eval := fun n cs o =>
  match find_grule g n with
  | Some (GRule r) =>
    let fl := flags_of (r_directives r) in
    if fl_left_recursive fl then SStuck
    else
      match se (negb (fl_no_skip_ws fl)) (r_def r) cs o with
      | SOk evs cs' o' l =>
        match shape r (firstn (length cs - length cs') cs) (o, o') evs with
        | Some v =>
          match s_checks (checks_of (r_directives r)) v o' with
          | None => SOk v cs' o' l
          | Some e => SFail (l ++ [e])
          end
        | None => SStuck
        end
      | SFail l => SFail l
      | SStuck => SStuck
      | SFuel => SFuel
      end
  | Some (GChar r) =>
    let cls := {| e_pos := o; e_spec := ExpectedCharacterClass (cr_name r) |} in
    let ok := match cr_checks r with
              | [] => true
              | cks => match cs with c :: _ => s_char_checks cks c | [] => false end
              end in
    if ok then
      match s_char_parts (cr_choices r) cs o with
      | SFail _ => SFail [cls]
      | other => other
      end
    else SFail [cls]
  | Some (GExtern r) =>
    match sh_extern shk (er_function r) (encode_str cs) with
    | inl (v, n) =>
      match split_bytes n cs with
      | Some (m, cs') => SOk v cs' (o + n) []
      | None => SStuck
      end
    | inr msg => SFail [ {| e_pos := o; e_spec := ExternRuleFailed msg |} ]
    end
  | None =>
    if name_eqb n n_char then s_term TmAny ExpectedAnyCharacter (fun m => VChar (hd 0%N m)) cs o
    else if name_eqb n n_Whitespace then s_term TmWs OtherError (fun _ => VUnit) cs o
    else SStuck
  end.

Definition sstep : sevals :=
  {| sv_expr := sexpr_step; sv_rule := srule_step; sv_loop := sloop_step |}.

End Step.

Definition sv_bottom : sevals :=
  {| sv_expr := fun _ _ _ _ => SFuel; sv_rule := fun _ _ _ => SFuel;
     sv_loop := fun _ _ _ _ _ _ _ _ => SFuel |}.

Fixpoint srun (fuel : nat) : sevals :=
  match fuel with
  | O => sv_bottom
  | S f => sstep (srun f)
  end.

(* the rule applied at offset 0 of the input *)
Definition s_parse (fuel : nat) (rule_name : name) (input : list N) : sres value :=
  sv_rule (srun fuel) rule_name input 0.

End Spec.

(* furthest-latest: the attempt a failed parse must report (C10) *)
Fixpoint furthest_latest (acc : option perr) (l : list perr) : option perr :=
  match l with
  | [] => acc
  | e :: r =>
    furthest_latest (match acc with
                     | Some a => if Nat.leb (e_pos a) (e_pos e) then Some e else Some a
                     | None => Some e
                     end) r
  end.
