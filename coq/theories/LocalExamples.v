(* Instances for Local / LocalConform: the hypotheses are met by grammars that DO contain marked rules.

   g_sum      @export @leftrec E = l:*E '+' n:N | n:N;   @string @no_skip_ws N = {'0'..'9'}+;
              clean = { N, Whitespace }: the parse of N in g_sum is the parse of N in the unmarked grammar and
              conforms to the specification.
   g_lr_memo  @export @leftrec E = l:*E '+' t:T | t:T;  @memoize T = n:N '*' t:*T | n:N;
              @memoize @string @no_skip_ws N = {'0'..'9'}+;
              nolr = { T, N, Whitespace }: no @leftrec rule is reachable from T and N (both memoized):
              @memoize is transparent for them although the grammar has a @leftrec rule. *)
From PegV Require Import Utf8 State Terminals Syntax Fields FieldsFacts Literals Model Conform CleanFrame Local LocalConform
  UsualShapeExamples OnceExamples.

Example sum_clean_set :
  (forall n, clean_sum n = true -> rule_clean g_sum clean_sum n) /\
  (forall n r, clean_sum n = true -> find_rule g_sum n = Some r -> eclean clean_sum (r_def r) = true) /\
  clean_sum n_Whitespace = true /\ clean_sum nN = true /\ clean_sum nE = false.
Proof.
  split; [|split; [|split; [|split]]]; try reflexivity.
  - intros n H. destruct (clean_sum_cases n H) as [->| ->]; vm_compute; auto.
  - intros n r0 H Fr. destruct (clean_sum_cases n H) as [->| ->]; vm_compute in Fr.
    + injection Fr as <-. reflexivity.
    + discriminate Fr.
Qed.

(* the number rule of the left-recursive grammar parses as in the unmarked grammar *)
Example sum_number_sees_no_markers fuel input :
  m_parse unit UsualShapeExamples.scfg_doc term_cfg_expected fields_cfg_doc UsualShapeExamples.rcfg_doc no_hooks g_sum fuel nN input tt =
  m_parse unit UsualShapeExamples.scfg_doc term_cfg_expected fields_cfg_doc UsualShapeExamples.rcfg_doc no_hooks (unmark g_sum) fuel nN input tt.
Proof.
  destruct sum_clean_set as [H1 [H2 [H3 [H4 _]]]].
  exact (clean_parse_unmarked unit _ _ _ _ _ g_sum true clean_sum (fun n H => rule_clean_b g_sum clean_sum n (H1 n H)) H2 H3 fuel nN input tt H4).
Qed.

(* T and N of g_lr_memo: memoized, and no @leftrec rule reachable *)
Definition nT : name := [84]%N.
Definition nolr_calc (n : name) : bool := name_eqb n nT || name_eqb n nN || name_eqb n n_Whitespace.

Lemma nolr_calc_cases n : nolr_calc n = true -> n = nT \/ n = nN \/ n = n_Whitespace.
Proof.
  unfold nolr_calc. intro H. apply Bool.orb_prop in H. destruct H as [H|H].
  - apply Bool.orb_prop in H. destruct H as [H|H]; apply name_eqb_eq in H; auto.
  - apply name_eqb_eq in H. auto.
Qed.

Example calc_no_leftrec_reachable : no_leftrec_reachable g_lr_memo nolr_calc /\ nolr_calc nT = true.
Proof.
  split; [|reflexivity]. split; [|split; [|reflexivity]].
  - intros n H. destruct (nolr_calc_cases n H) as [->|[->| ->]]; vm_compute; repeat split; auto; intro X; discriminate X.
  - intros n r0 H Fr. destruct (nolr_calc_cases n H) as [->|[->| ->]]; vm_compute in Fr.
    + injection Fr as <-. reflexivity.
    + injection Fr as <-. reflexivity.
    + discriminate Fr.
Qed.
