(* C07, "the usual shape"  A = l:A x ... | b | ...  of a @leftrec rule.

   What the growth loop computes for a rule of this shape, with the recursive reference
   RESOLVED: whenever the loop evaluates the rule body, the cache holds the loop's current
   best result under (A, offset), the recursive field is the first thing the first alternative
   evaluates, and so - provided nothing is skipped between the rule's entry and that field -
   the recursive field evaluates, without running anything, to the previous result (a cache hit),
   or fails with the planted sentinel on the seed turn.  The body of a turn is therefore

     seed turn   (best = sentinel error e):  the other alternatives, at the entry state that
                 recorded e
     growth turn (best = Ok v s1): the rest  x ...  of the first alternative evaluated from s1 with
                 the field l bound to v (boxed / optional / vec as the arity says); when that
                 fails with e', the other alternatives at the entry state that recorded e'

   (`usual_body`, theorem `usual_body_eq`: exact, for every fuel, hooks, tracer and cache, also when
   x or the other alternatives use memoized or left-recursive rules themselves).  `usual_turn` is
   the loop equation C07_grow with that body, `usual_loop_cache` says the hypothesis about the cache
   is re-established by every turn, and `usual_results` that whatever the loop returns was produced
   by `usual_body` from the results before it, each strictly further than the one before
   (left-nested: every extension holds the previous result in its recursive field).

   The proviso is real.  A rule that skips whitespace, entered at an offset where whitespace follows,
   evaluates its recursive field at the offset AFTER the whitespace: another cache key, a second
   loop; the outer loop then returns its seed only (`UsualShapeExamples.leading_blank_refuted`). *)
From Coq Require Import Lia.
From PegV Require Import Utf8 State Terminals Syntax Fields FieldsFacts Literals Model FuelMono CleanFrame.

Section Usual.
Variable ustate : Type.
Variable scfg : state_cfg.
Variable tcfg : term_cfg.
Variable fcfg : fields_cfg.
Variable rcfg : rule_cfg.
Variable hk : hooks ustate.
Variable g : grammar.
Notation glb := (glob ustate).
Notation Mrun := (run ustate scfg tcfg fcfg rcfg hk g).

(* the rule:  A = l:[*]A x1 xs... | b1 | balts... *)
Variable A : rule.
Variable l : name.
Variable bx : bool.
Variable x1 : expr.
Variable xs : list expr.
Variable b1 : expr.
Variable balts : list expr.
Notation a := (r_name A).
Definition recf : expr := EField (FNamed l) bx a.
Definition alt1 : expr := ESeq (recf :: x1 :: xs).
Definition adef : expr := EChoice (alt1 :: b1 :: balts).
Hypothesis Hdef : r_def A = adef.
Hypothesis Hfind : find_grule g a = Some (GRule A).
Hypothesis Hlr : fl_left_recursive (flags_of (r_directives A)) = true.

(* compile-time data of the rule (present for every grammar the compiler accepts) *)
Variable rf fds fds1 inner1 : list fdesc.
Hypothesis Hrf : get_fields fcfg (gf_fuel g) g adef = GFOk rf.
Definition actx : ectx := {| c_skip := negb (fl_no_skip_ws (flags_of (r_directives A))); c_fields := rf |}.
Hypothesis Hfds : filt fcfg g actx adef = Some fds.
Hypothesis Hfds1 : filt fcfg g actx alt1 = Some fds1.
Hypothesis Hinner1 : own_fields fcfg g alt1 = Some inner1.

(* nothing is skipped between the entry of the rule and its recursive field *)
Definition ws_trivial (st : pstate) : Prop :=
  c_skip actx = false \/ (find_grule g n_Whitespace = None /\ parse_Whitespace st = TOk tt st).

(* the callbacks of a call that is answered from the cache *)
Definition hitg (c : cached) (st : pstate) (gl : glb) : glb :=
  trace ustate (match c with COk _ s1 => TResOk (off s1) | CErr e => TResErr e end)
    (trace ustate (TInfo 1) (trace ustate (TStart a (off st)) gl)).

Lemma hitg_cache c st gl : g_cache (hitg c st gl) = g_cache gl.
Proof. reflexivity. Qed.

(* what rule_body does with the result of the rule's expression *)
Definition finish (st : pstate) (x : R ustate fields) : R ustate value :=
  let fl := flags_of (r_directives A) in
  match x with
  | (MOk fs st', gl') =>
    let ov :=
      if fl_string fl then
        let s := VStr (slice_until st st') in
        Some (if fl_position fl
              then VStruct a [(n_string, s)] (Some (range_until st st'))
              else s)
      else
        match rf with
        | [fd] =>
          if name_eqb (fd_name fd) n_override then lookup n_override fs
          else Some (VStruct a fs (if fl_position fl then Some (range_until st st') else None))
        | _ => Some (VStruct a fs (if fl_position fl then Some (range_until st st') else None))
        end in
    match ov with
    | Some v => run_checks ustate scfg hk (checks_of (r_directives A)) v st' gl'
    | None => (MPanic PanicShape, gl')
    end
  | (MErr e, gl') => (MErr e, gl')
  | (MPanic p, gl') => (MPanic p, gl')
  | (MFuel, gl') => (MFuel, gl')
  end.

Lemma rule_body_finish ev st gl :
  rule_body ustate scfg fcfg hk g ev A st gl = finish st (ev_expr ev actx adef st gl).
Proof.
  unfold rule_body, finish. rewrite Hdef, Hrf. fold actx.
  destruct (ev_expr ev actx adef st gl) as [[fs st'|e|p|] gl']; reflexivity.
Qed.

(* the rest of the first alternative from the previous result's end state s1, with the bindings
   acc of the recursive field; then the arm conversion; on failure the other alternatives *)
Definition arm1 (k : nat) (st s1 : pstate) (acc : fields) (gl : glb) : R ustate fields :=
  match seq_loop ustate (Mrun (S (S k))) actx fds1 (x1 :: xs) s1 acc gl with
  | (MOk fs' s2, gl') =>
    match convert_arm fds inner1 fs' with
    | Some out => (MOk out s2, gl')
    | None => (MPanic PanicShape, gl')
    end
  | (MErr e, gl') =>
    choice_loop ustate scfg fcfg g (Mrun (S (S (S k)))) actx fds (b1 :: balts) (record_error scfg st e) gl'
  | (MPanic p, gl') => (MPanic p, gl')
  | (MFuel, gl') => (MFuel, gl')
  end.

(* the body of one turn with the recursive reference resolved to the loop's current best c *)
Definition usual_body (k : nat) (st : pstate) (c : cached) (gl : glb) : R ustate value :=
  finish st
    match c with
    | CErr e =>
      choice_loop ustate scfg fcfg g (Mrun (S (S (S k)))) actx fds (b1 :: balts) (record_error scfg st e) (hitg c st gl)
    | COk v s1 =>
      match postprocess rf l a v with
      | Some fs =>
        match seq_merge_vals [] fs with
        | Some acc => arm1 k st s1 acc (hitg c st gl)
        | None => (MPanic PanicShape, hitg c st gl)
        end
      | None => (MPanic PanicShape, hitg c st gl)
      end
    end.

(* one level of the interpreter *)
Lemma ee_S k ctx e st gl :
  ev_expr (Mrun (S k)) ctx e st gl = expr_step ustate scfg tcfg fcfg rcfg g (Mrun k) ctx e st gl.
Proof. reflexivity. Qed.
Lemma er_S k n st gl :
  ev_rule (Mrun (S k)) n st gl = rule_step ustate scfg tcfg fcfg rcfg hk g (Mrun k) n st gl.
Proof. reflexivity. Qed.
Lemma eg_S k r st best gl :
  ev_grow (Mrun (S k)) r st best gl = grow_step ustate scfg fcfg rcfg hk g (Mrun k) r st best gl.
Proof. reflexivity. Qed.

(* ---- the recursive reference is a cache hit ---------------------------------------------- *)
Lemma ws_none k st gl (K : pstate -> glb -> R ustate value) :
  ws_trivial st ->
  with_ws ustate (Mrun (S k)) actx st gl K = K st gl.
Proof.
  intros [W|[W1 W2]]; unfold with_ws; [rewrite W; reflexivity|].
  destruct (c_skip actx); [|reflexivity].
  rewrite er_S. unfold rule_step. rewrite W1.
  replace (name_eqb n_Whitespace n_char) with false by reflexivity.
  replace (name_eqb n_Whitespace n_Whitespace) with true by reflexivity.
  rewrite W2. reflexivity.
Qed.

Lemma rec_call k st gl c :
  cache_get a (off st) (g_cache gl) = Some c ->
  ev_rule (Mrun (S k)) a st gl = (of_cached c, hitg c st gl).
Proof.
  intro C. rewrite er_S. unfold rule_step. rewrite Hfind.
  unfold memo_wrap. rewrite Hlr. cbn [trace g_cache]. rewrite C.
  destruct c; reflexivity.
Qed.

Lemma recf_eval k st gl c :
  ws_trivial st -> cache_get a (off st) (g_cache gl) = Some c ->
  ev_expr (Mrun (S (S k))) actx recf st gl =
  match c with
  | COk v s1 =>
    match postprocess rf l a v with
    | Some fs => (MOk fs s1, hitg c st gl)
    | None => (MPanic PanicShape, hitg c st gl)
    end
  | CErr e => (MErr e, hitg c st gl)
  end.
Proof.
  intros W C. rewrite ee_S. unfold recf. cbn [expr_step fname_of].
  rewrite (ws_none k st gl _ W). rewrite (rec_call k st gl c C).
  destruct c; reflexivity.
Qed.

Lemma alt1_eval k st gl c :
  ws_trivial st -> cache_get a (off st) (g_cache gl) = Some c ->
  ev_expr (Mrun (S (S (S k)))) actx alt1 st gl =
  match c with
  | COk v s1 =>
    match postprocess rf l a v with
    | Some fs =>
      match seq_merge_vals [] fs with
      | Some acc => seq_loop ustate (Mrun (S (S k))) actx fds1 (x1 :: xs) s1 acc (hitg c st gl)
      | None => (MPanic PanicShape, hitg c st gl)
      end
    | None => (MPanic PanicShape, hitg c st gl)
    end
  | CErr e => (MErr e, hitg c st gl)
  end.
Proof.
  intros W C. rewrite ee_S. unfold alt1 at 1. cbn [expr_step]. fold alt1. rewrite Hfds1.
  cbn [seq_loop]. rewrite (recf_eval k st gl c W C).
  destruct c as [v s1|e]; [|reflexivity].
  destruct (postprocess rf l a v) as [fs|]; reflexivity.
Qed.

Theorem usual_body_eq k st gl c :
  ws_trivial st -> cache_get a (off st) (g_cache gl) = Some c ->
  rule_body ustate scfg fcfg hk g (Mrun (S (S (S (S k))))) A st gl = usual_body k st c gl.
Proof.
  intros W C. rewrite rule_body_finish. unfold usual_body. f_equal.
  rewrite ee_S. unfold adef at 1. cbn [expr_step]. fold adef. rewrite Hfds.
  cbn [choice_loop]. rewrite (alt1_eval k st gl c W C).
  destruct c as [v s1|e]; [|reflexivity].
  destruct (postprocess rf l a v) as [fs|]; [|reflexivity].
  destruct (seq_merge_vals [] fs) as [acc|]; [|reflexivity].
  unfold arm1. rewrite Hinner1.
  destruct (seq_loop ustate (Mrun (S (S k))) actx fds1 (x1 :: xs) s1 acc (hitg (COk v s1) st gl)) as [[fs' s2|e|p|] gl'];
    reflexivity.
Qed.

(* ---- the loop ----------------------------------------------------------------------------- *)
Lemma cache_get_put n k c (gl : glb) :
  cache_get n k (g_cache (cache_put ustate n k c gl)) = Some c.
Proof.
  cbn [cache_put g_cache cache_get]. rewrite name_eqb_refl, PeanoNat.Nat.eqb_refl. reflexivity.
Qed.

(* one turn, as C07_grow, with the resolved body *)
Theorem usual_turn k st best gl :
  ws_trivial st -> cache_get a (off st) (g_cache gl) = Some best ->
  ev_grow (Mrun (S (S (S (S (S k)))))) A st best gl =
  match usual_body k st best (trace ustate (TInfo 2) gl) with
  | (MOk v st', gl2) =>
    match best with
    | COk _ bst =>
      if is_further_than scfg st' bst
      then ev_grow (Mrun (S (S (S (S k))))) A st (COk v st') (cache_put ustate a (off st) (COk v st') gl2)
      else (of_cached best, gl2)
    | CErr _ => ev_grow (Mrun (S (S (S (S k))))) A st (COk v st') (cache_put ustate a (off st) (COk v st') gl2)
    end
  | (MErr e, gl2) =>
    if leftrec_closed rcfg then
      match best with
      | COk _ _ => (of_cached best, gl2)
      | CErr _ => (MErr e, cache_put ustate a (off st) (CErr e) gl2)
      end
    else (MErr e, gl2)
  | (MPanic p, gl2) => (MPanic p, gl2)
  | (MFuel, gl2) => (MFuel, gl2)
  end.
Proof.
  intros W C. rewrite eg_S. unfold grow_step.
  rewrite (usual_body_eq k st (trace ustate (TInfo 2) gl) best W C). reflexivity.
Qed.

(* the entry: no result for (A, offset) yet - the sentinel is planted and the loop starts *)
Theorem usual_entry k st gl :
  cache_get a (off st) (g_cache gl) = None ->
  ev_rule (Mrun (S k)) a st gl =
  let sentinel := CErr (report_error scfg st LeftRecursionSentinel) in
  match ev_grow (Mrun k) A st sentinel
          (cache_put ustate a (off st) sentinel (trace ustate (TStart a (off st)) gl)) with
  | (MOk v st', gl2) => (MOk v st', trace ustate (TResOk (off st')) gl2)
  | (MErr e, gl2) => (MErr e, trace ustate (TResErr e) gl2)
  | other => other
  end.
Proof.
  intro C. rewrite er_S. unfold rule_step. rewrite Hfind.
  unfold memo_wrap. rewrite Hlr. cbn [trace g_cache]. rewrite C. reflexivity.
Qed.

(* ---- what the loop returns ------------------------------------------------------------------ *)
(* `Produced st c v s`: the result (v, s) was obtained from c by turns of the resolved body, each result
   strictly further than the one it replaces (any result replaces the sentinel), and the loop stopped at
   (v, s) because one more turn of the body did not get strictly further: it failed, or it ended at an
   offset that is not beyond s (greedy) *)
Definition stops (r : mres value) (s : pstate) : Prop :=
  match r with
  | MOk _ s2 => is_further_than scfg s2 s = false
  | MErr _ => leftrec_closed rcfg = true
  | _ => False
  end.

Inductive Produced (st : pstate) : cached -> value -> pstate -> Prop :=
| P_stop v s k gl0 r gl1 :
    usual_body k st (COk v s) gl0 = (r, gl1) ->
    cache_get a (off st) (g_cache gl0) = Some (COk v s) ->
    stops r s ->
    Produced st (COk v s) v s
| P_turn c k gl0 v1 s1 gl1 v s :
    usual_body k st c gl0 = (MOk v1 s1, gl1) ->
    cache_get a (off st) (g_cache gl0) = Some c ->
    match c with COk _ bst => is_further_than scfg s1 bst = true | CErr _ => True end ->
    Produced st (COk v1 s1) v s ->
    Produced st c v s.

Definition ok_of (c : cached) : Prop := match c with COk _ _ => True | CErr _ => False end.

(* with fewer than four levels the body cannot reach its recursive field *)
Lemma body_low F st gl : F < 4 -> exists gl2, rule_body ustate scfg fcfg hk g (Mrun F) A st gl = (MFuel, gl2).
Proof.
  intro L. rewrite rule_body_finish.
  destruct F as [|[|[|[|F]]]]; [| | | |lia].
  - eexists. reflexivity.
  - rewrite ee_S. unfold adef at 1. cbn [expr_step]. fold adef. rewrite Hfds.
    eexists. reflexivity.
  - rewrite ee_S. unfold adef at 1. cbn [expr_step]. fold adef. rewrite Hfds.
    cbn [choice_loop]. rewrite ee_S. unfold alt1 at 1. cbn [expr_step]. fold alt1. rewrite Hfds1.
    eexists. reflexivity.
  - rewrite ee_S. unfold adef at 1. cbn [expr_step]. fold adef. rewrite Hfds.
    cbn [choice_loop]. rewrite ee_S. unfold alt1 at 1. cbn [expr_step]. fold alt1. rewrite Hfds1.
    cbn [seq_loop]. rewrite ee_S. unfold recf at 1. cbn [expr_step fname_of].
    unfold with_ws. destruct (c_skip actx); eexists; reflexivity.
Qed.

Theorem usual_results st (W : ws_trivial st) : forall F best gl r gl',
  cache_get a (off st) (g_cache gl) = Some best ->
  ev_grow (Mrun F) A st best gl = (r, gl') ->
  match r with
  | MOk v s' => Produced st best v s'
  | MErr e =>
    (* only the seed turn can fail: the rule fails iff the other alternatives fail with the
       recursive reference failing *)
    leftrec_closed rcfg = true -> ~ ok_of best /\
    exists k gl0 gl1, usual_body k st best gl0 = (MErr e, gl1)
  | _ => True
  end.
Proof.
  induction F as [|F IH]; intros best gl r gl' C E.
  - cbn in E. injection E as <- <-. exact I.
  - destruct (Compare_dec.lt_dec F 4) as [L|L].
    + rewrite eg_S in E. unfold grow_step in E.
      destruct (body_low F st (trace ustate (TInfo 2) gl) L) as [gl2 B]. rewrite B in E.
      injection E as <- <-. exact I.
    + destruct F as [|[|[|[|k]]]]; try lia.
      rewrite (usual_turn k st best gl W C) in E.
      destruct (usual_body k st best (trace ustate (TInfo 2) gl)) as [[v1 s1|e|p|] gl2] eqn:B.
      * assert (C' : cache_get a (off st) (g_cache (cache_put ustate a (off st) (COk v1 s1) gl2)) = Some (COk v1 s1))
          by apply cache_get_put.
        destruct best as [bv bst|be].
        -- destruct (is_further_than scfg s1 bst) eqn:Fu.
           ++ specialize (IH _ _ _ _ C' E). destruct r as [v s'|e|p|]; try exact I.
              ** eapply P_turn; [exact B|exact C|exact Fu|exact IH].
              ** intro LC. destruct (IH LC) as [N _]. exfalso. apply N. exact I.
           ++ injection E as <- <-. cbn [of_cached]. eapply P_stop; [exact B|exact C|exact Fu].
        -- specialize (IH _ _ _ _ C' E). destruct r as [v s'|e|p|]; try exact I.
           ** eapply P_turn; [exact B|exact C|exact I|exact IH].
           ** intro LC. destruct (IH LC) as [N _]. exfalso. apply N. exact I.
      * destruct (leftrec_closed rcfg) eqn:LC.
        -- destruct best as [bv bst|be].
           ++ injection E as <- <-. cbn [of_cached]. eapply P_stop; [exact B|exact C|exact LC].
           ++ injection E as <- <-. intros _. split; [intro X; exact X|]. eauto.
        -- injection E as <- <-. intro X. discriminate X.
      * injection E as <- <-. exact I.
      * injection E as <- <-. exact I.
Qed.

(* the parse of the rule from its entry (no result for (A, offset) yet) *)
Corollary usual_parse st (W : ws_trivial st) F gl r gl' :
  cache_get a (off st) (g_cache gl) = None ->
  ev_rule (Mrun F) a st gl = (r, gl') ->
  let sentinel := CErr (report_error scfg st LeftRecursionSentinel) in
  match r with
  | MOk v s' => Produced st sentinel v s'
  | MErr e => leftrec_closed rcfg = true -> exists k gl0 gl1, usual_body k st sentinel gl0 = (MErr e, gl1)
  | _ => True
  end.
Proof.
  intros C E. destruct F as [|F]; [cbn in E; injection E as <- <-; exact I|].
  rewrite (usual_entry F st gl C) in E. cbv zeta in E.
  set (sentinel := CErr (report_error scfg st LeftRecursionSentinel)) in *.
  destruct (ev_grow (Mrun F) A st sentinel (cache_put ustate a (off st) sentinel (trace ustate (TStart a (off st)) gl)))
    as [r0 gl2] eqn:G.
  pose proof (usual_results st W F sentinel _ r0 gl2 (cache_get_put a (off st) sentinel _) G) as U.
  destruct r0 as [v s'|e|p|]; injection E as <- <-; cbv zeta; try exact I; [exact U|].
  intro LC. exact (proj2 (U LC)).
Qed.

(* a successful check sequence keeps value and state *)
Lemma run_checks_ok cs v : forall st' gl v' s' gl',
  run_checks ustate scfg hk cs v st' gl = (MOk v' s', gl') -> v' = v /\ s' = st'.
Proof.
  induction cs as [|f cs IH]; intros st' gl v' s' gl' E; cbn [run_checks] in E.
  - injection E as <- <- _. split; reflexivity.
  - destruct (h_check hk f v (g_user gl)) as [ok u]. destruct ok; [exact (IH _ _ _ _ _ E)|].
    unfold fail_at in E. discriminate E.
Qed.

Lemma finish_ok st x v' s' gl1 :
  finish st x = (MOk v' s', gl1) -> exists fs gl2, x = (MOk fs s', gl2).
Proof.
  unfold finish. destruct x as [[fs s2|e|p|] gl2]; try discriminate.
  match goal with |- context [match ?o with Some _ => _ | None => _ end] => destruct o as [v|] end; [|discriminate].
  intro E. destruct (run_checks_ok _ _ _ _ _ _ _ E) as [_ ->]. eauto.
Qed.

(* left nesting made explicit: a growth turn that succeeds either extended the previous result v -
   bound to the recursive field, the rest of the first alternative matched from v's end state s1
   to the new end state - or fell back to the other alternatives after that rest failed *)
Theorem usual_extension k st v s1 gl0 v' s' gl1 :
  usual_body k st (COk v s1) gl0 = (MOk v' s', gl1) ->
  exists fs acc, postprocess rf l a v = Some fs /\ seq_merge_vals [] fs = Some acc /\
    ((exists fs' gl2 out,
        seq_loop ustate (Mrun (S (S k))) actx fds1 (x1 :: xs) s1 acc (hitg (COk v s1) st gl0) = (MOk fs' s', gl2) /\
        convert_arm fds inner1 fs' = Some out /\
        finish st (MOk out s', gl2) = (MOk v' s', gl1))
     \/
     (exists e gl2,
        seq_loop ustate (Mrun (S (S k))) actx fds1 (x1 :: xs) s1 acc (hitg (COk v s1) st gl0) = (MErr e, gl2) /\
        finish st (choice_loop ustate scfg fcfg g (Mrun (S (S (S k)))) actx fds (b1 :: balts) (record_error scfg st e) gl2)
          = (MOk v' s', gl1))).
Proof.
  unfold usual_body. intro E.
  destruct (postprocess rf l a v) as [fs|] eqn:PP; [|cbn in E; discriminate].
  destruct (seq_merge_vals [] fs) as [acc|] eqn:SM; [|cbn in E; discriminate].
  exists fs, acc. split; [reflexivity|]. split; [exact SM|].
  unfold arm1 in E.
  destruct (seq_loop ustate (Mrun (S (S k))) actx fds1 (x1 :: xs) s1 acc (hitg (COk v s1) st gl0)) as [[fs' s2|e|p|] gl2] eqn:T.
  - destruct (convert_arm fds inner1 fs') as [out|] eqn:CA; [|cbn in E; discriminate].
    destruct (finish_ok _ _ _ _ _ E) as [fs0 [gl3 X]]. injection X as _ <- _.
    left. exists fs', gl2, out. repeat split; assumption.
  - right. exists e, gl2. split; [reflexivity|exact E].
  - cbn in E. discriminate.
  - cbn in E. discriminate.
Qed.

(* @position: the value of every turn - the seed and every extension, hence every node nested in the
   recursive field - records the range from the rule's entry offset to that turn's own end offset *)
Theorem usual_turn_position k st c gl0 v1 s1 gl1 :
  fl_position (flags_of (r_directives A)) = true ->
  fl_string (flags_of (r_directives A)) = false ->
  (forall fd, rf = [fd] -> name_eqb (fd_name fd) n_override = false) ->
  usual_body k st c gl0 = (MOk v1 s1, gl1) ->
  exists fs, v1 = VStruct a fs (Some (off st, off s1)).
Proof.
  intros Hp Hs Ho B. unfold usual_body in B.
  match type of B with finish st ?x = _ => destruct x as [[fs s2|e|p|] g2] end; unfold finish in B; try discriminate B.
  rewrite Hp, Hs in B.
  assert (E : exists w, run_checks ustate scfg hk (checks_of (r_directives A)) w s2 g2 = (MOk v1 s1, gl1) /\
                        w = VStruct a fs (Some (range_until st s2))).
  { destruct rf as [|fd [|fd2 r]].
    - eexists. split; [exact B|reflexivity].
    - rewrite (Ho fd eq_refl) in B. eexists. split; [exact B|reflexivity].
    - eexists. split; [exact B|reflexivity]. }
  destruct E as (w & E & ->). destruct (run_checks_ok _ _ _ _ _ _ _ E) as [-> ->].
  exists fs. reflexivity.
Qed.

(* the seed: the other alternatives, with the recursive reference failing *)
Theorem usual_seed k st e gl0 v' s' gl1 :
  usual_body k st (CErr e) gl0 = (MOk v' s', gl1) ->
  finish st (choice_loop ustate scfg fcfg g (Mrun (S (S (S k)))) actx fds (b1 :: balts) (record_error scfg st e) (hitg (CErr e) st gl0))
    = (MOk v' s', gl1).
Proof. intro E. exact E. Qed.

(* ================================================================================================
   The closed form  b x*  (greedy, nested to the left).

   Further hypotheses: only the first alternative is recursive - the rest  x1 xs...  of the first
   alternative and the other alternatives  b1 balts...  refer to rules of a `clean` set only (closed
   under reference, no @memoize / @leftrec rule in it: CleanFrame) -, hooks do not carry state, and the
   decision points are as in the source (strict progress test, the seed's failure is stored).

   Then the base  B  ("the other alternatives match at the entry and the rule's value is v, ending at
   s") and the extension  X  ("from the result (v, s) the rest of the first alternative matches with
   the recursive field bound to v, and the rule's value is v', ending at s'") are partial FUNCTIONS of
   the position alone (`Bok_fun`, `Xok_fun`, `Bok_not_fail`, `Xok_not_fail`: whatever the bound, the
   cache, the callback list, the recorded furthest error), and the parse of A

     fails                        iff  B fails                                  (`closed_form`, MErr)
     returns (v, s)               iff  B = (v0, s0),  (v0, s0) X (v1, s1) X ... X (v, s)  with strictly
                                       increasing offsets, and X fails at (v, s) or does not get
                                       beyond s                                  (`closed_form`, MOk)
   ================================================================================================ *)
Section Closed.
Variable clean : name -> bool.
Hypothesis Hclean : forall n, clean n = true -> rule_clean g clean n.
Hypothesis Hinc : forall n r, clean n = true -> find_rule g n = Some r -> eclean clean (r_def r) = true.
Hypothesis Hwsc : clean n_Whitespace = true.
Hypothesis Hx : lclean clean (x1 :: xs) = true.
Hypothesis Hb : lclean clean (b1 :: balts) = true.
Hypothesis Hu : forall u u' : ustate, u = u'.
Hypothesis Hstrict : further_gt scfg = true.
Hypothesis Hclosed : leftrec_closed rcfg = true.

Notation Rst := CleanFrame.Rst.
Notation Rres := CleanFrame.Rres.
Notation Req := (CleanFrame.Req ustate).

Lemma Ru_any (x y : glb) : Ru ustate x y.
Proof. apply Hu. Qed.

Lemma frame K : Cev ustate clean (Mrun K).
Proof. apply clean_frame; assumption. Qed.

(* the rule's post-processing respects the relation *)
Lemma F_finish st st' x y p q : Rst st st' -> Req p q x y -> Req p q (finish st x) (finish st' y).
Proof.
  intros S [E [U [Ca Cb]]]. unfold finish.
  destruct x as [[fs s|e|pn|] ga]; destruct y as [[fs' s'|e'|pn'|] gb]; cbn [fst snd] in *; cbn [CleanFrame.Rres] in E;
    try contradiction.
  - destruct E as [<- E].
    rewrite (slice_rel st st' s s' S E), (range_rel st st' s s' S E).
    match goal with |- CleanFrame.Req _ _ _ (match ?o with _ => _ end) _ => destruct o as [w|] end.
    + eapply Req_chain; [exact Ca|exact Cb|]. apply F_run_checks; [exact E|exact U].
    + repeat split; assumption.
  - repeat split; assumption.
  - repeat split; assumption.
  - repeat split; assumption.
Qed.

(* ---- the base ------------------------------------------------------------------------------ *)
Definition base_run (k : nat) (st st0 : pstate) (gl : glb) : R ustate value :=
  finish st (choice_loop ustate scfg fcfg g (Mrun k) actx fds (b1 :: balts) st0 gl).

Definition Bok (st : pstate) (v : value) (s : pstate) : Prop :=
  exists k st0 gl s0 gl', Rst st0 st /\ base_run k st st0 gl = (MOk v s0, gl') /\ Rst s0 s.
Definition Bfail (st : pstate) : Prop :=
  exists k st0 gl e gl', Rst st0 st /\ base_run k st st0 gl = (MErr e, gl').

Lemma nofuel_finish st x : nofuel ustate (finish st x) -> nofuel ustate x.
Proof. destruct x as [[fs s|e|p|] gl']; cbn; auto. Qed.

(* two runs of the base, whatever their bounds, start states at the position and globals *)
Lemma base_rel k1 k2 st st1 st2 g1 g2 :
  Rst st1 st -> Rst st2 st ->
  nofuel ustate (base_run k1 st st1 g1) -> nofuel ustate (base_run k2 st st2 g2) ->
  Rres (fst (base_run k1 st st1 g1)) (fst (base_run k2 st st2 g2)).
Proof.
  intros S1 S2 N1 N2. unfold base_run in *.
  pose proof (run_mono ustate scfg tcfg fcfg rcfg hk g k1 (Nat.max k1 k2) (PeanoNat.Nat.le_max_l _ _)) as M1.
  pose proof (run_mono ustate scfg tcfg fcfg rcfg hk g k2 (Nat.max k1 k2) (PeanoNat.Nat.le_max_r _ _)) as M2.
  rewrite <- (choice_loop_mono ustate scfg fcfg g _ _ M1 actx fds (b1 :: balts) st1 g1 (nofuel_finish _ _ N1)).
  rewrite <- (choice_loop_mono ustate scfg fcfg g _ _ M2 actx fds (b1 :: balts) st2 g2 (nofuel_finish _ _ N2)).
  assert (S12 : Rst st1 st2) by (eapply Rst_trans; [exact S1|apply Rst_sym; exact S2]).
  pose proof (F_choice_loop ustate scfg fcfg g clean _ (frame (Nat.max k1 k2)) actx fds (b1 :: balts) Hb st1 st2 g1 g2 S12 (Ru_any _ _)) as P.
  exact (proj1 (F_finish st st _ _ g1 g2 (Rst_refl st) P)).
Qed.

Theorem Bok_fun st v s v' s' : Bok st v s -> Bok st v' s' -> v = v' /\ Rst s s'.
Proof.
  intros (k1 & st1 & g1 & s1 & g1' & S1 & E1 & T1) (k2 & st2 & g2 & s2 & g2' & S2 & E2 & T2).
  pose proof (base_rel k1 k2 st st1 st2 g1 g2 S1 S2) as P. rewrite E1, E2 in P. cbn in P.
  destruct (P I I) as [-> P2]. split; [reflexivity|].
  eapply Rst_trans; [apply Rst_sym; exact T1|]. eapply Rst_trans; [exact P2|exact T2].
Qed.

Theorem Bok_not_fail st v s : Bok st v s -> ~ Bfail st.
Proof.
  intros (k1 & st1 & g1 & s1 & g1' & S1 & E1 & T1) (k2 & st2 & g2 & e & g2' & S2 & E2).
  pose proof (base_rel k1 k2 st st1 st2 g1 g2 S1 S2) as P. rewrite E1, E2 in P. cbn in P. exact (P I I).
Qed.

(* ---- the extension --------------------------------------------------------------------------- *)
Definition ext_run (k : nat) (st : pstate) (v : value) (s1 : pstate) (gl : glb) : R ustate value :=
  match postprocess rf l a v with
  | Some fs =>
    match seq_merge_vals [] fs with
    | Some acc =>
      finish st
        match seq_loop ustate (Mrun k) actx fds1 (x1 :: xs) s1 acc gl with
        | (MOk fs' s2, gl') =>
          match convert_arm fds inner1 fs' with
          | Some out => (MOk out s2, gl')
          | None => (MPanic PanicShape, gl')
          end
        | other => other
        end
    | None => (MPanic PanicShape, gl)
    end
  | None => (MPanic PanicShape, gl)
  end.

Definition Xok (st : pstate) (v : value) (s : pstate) (v' : value) (s' : pstate) : Prop :=
  exists k s1 gl s0 gl', Rst s1 s /\ ext_run k st v s1 gl = (MOk v' s0, gl') /\ Rst s0 s'.
Definition Xfail (st : pstate) (v : value) (s : pstate) : Prop :=
  exists k s1 gl e gl', Rst s1 s /\ ext_run k st v s1 gl = (MErr e, gl').

Lemma ext_rel k1 k2 st v sa sb s g1 g2 :
  Rst sa s -> Rst sb s ->
  nofuel ustate (ext_run k1 st v sa g1) -> nofuel ustate (ext_run k2 st v sb g2) ->
  Rres (fst (ext_run k1 st v sa g1)) (fst (ext_run k2 st v sb g2)).
Proof.
  intros S1 S2 N1 N2. unfold ext_run in *.
  destruct (postprocess rf l a v) as [fs|]; [|reflexivity].
  destruct (seq_merge_vals [] fs) as [acc|]; [|reflexivity].
  pose proof (run_mono ustate scfg tcfg fcfg rcfg hk g k1 (Nat.max k1 k2) (PeanoNat.Nat.le_max_l _ _)) as M1.
  pose proof (run_mono ustate scfg tcfg fcfg rcfg hk g k2 (Nat.max k1 k2) (PeanoNat.Nat.le_max_r _ _)) as M2.
  assert (NA : nofuel ustate (seq_loop ustate (Mrun k1) actx fds1 (x1 :: xs) sa acc g1)).
  { apply nofuel_finish in N1. destruct (seq_loop ustate (Mrun k1) actx fds1 (x1 :: xs) sa acc g1) as [[? ?|?|?|] ?]; cbn in *; auto. }
  assert (NB : nofuel ustate (seq_loop ustate (Mrun k2) actx fds1 (x1 :: xs) sb acc g2)).
  { apply nofuel_finish in N2. destruct (seq_loop ustate (Mrun k2) actx fds1 (x1 :: xs) sb acc g2) as [[? ?|?|?|] ?]; cbn in *; auto. }
  rewrite <- (seq_loop_mono ustate _ _ M1 actx fds1 (x1 :: xs) sa acc g1 NA).
  rewrite <- (seq_loop_mono ustate _ _ M2 actx fds1 (x1 :: xs) sb acc g2 NB).
  assert (S12 : Rst sa sb) by (eapply Rst_trans; [exact S1|apply Rst_sym; exact S2]).
  pose proof (F_seq_loop ustate clean _ (frame (Nat.max k1 k2)) actx fds1 (x1 :: xs) Hx sa sb acc g1 g2 S12 (Ru_any _ _)) as P.
  refine (proj1 (F_finish st st _ _ g1 g2 (Rst_refl st) _)).
  destruct P as [E [U [Ca Cb]]].
  destruct (seq_loop ustate (Mrun (Nat.max k1 k2)) actx fds1 (x1 :: xs) sa acc g1) as [[fa s2|e|p|] ga];
    destruct (seq_loop ustate (Mrun (Nat.max k1 k2)) actx fds1 (x1 :: xs) sb acc g2) as [[fb s2'|e'|p'|] gb];
    cbn [fst snd] in *; cbn [CleanFrame.Rres] in E; try contradiction.
  - destruct E as [<- E]. destruct (convert_arm fds inner1 fa); repeat split; try reflexivity; try assumption; apply E.
  - repeat split; assumption.
  - repeat split; assumption.
  - repeat split; assumption.
Qed.

Theorem Xok_fun st v s v1 s1 v2 s2 : Xok st v s v1 s1 -> Xok st v s v2 s2 -> v1 = v2 /\ Rst s1 s2.
Proof.
  intros (k1 & sa & g1 & t1 & g1' & S1 & E1 & T1) (k2 & sb & g2 & t2 & g2' & S2 & E2 & T2).
  pose proof (ext_rel k1 k2 st v sa sb s g1 g2 S1 S2) as P. rewrite E1, E2 in P. cbn in P.
  destruct (P I I) as [-> P2]. split; [reflexivity|].
  eapply Rst_trans; [apply Rst_sym; exact T1|]. eapply Rst_trans; [exact P2|exact T2].
Qed.

Theorem Xok_not_fail st v s v1 s1 : Xok st v s v1 s1 -> ~ Xfail st v s.
Proof.
  intros (k1 & sa & g1 & t1 & g1' & S1 & E1 & T1) (k2 & sb & g2 & e & g2' & S2 & E2).
  pose proof (ext_rel k1 k2 st v sa sb s g1 g2 S1 S2) as P. rewrite E1, E2 in P. cbn in P. exact (P I I).
Qed.

(* ---- the loop is  B X*  ----------------------------------------------------------------------- *)
Inductive Star (st : pstate) : value -> pstate -> value -> pstate -> Prop :=
| S_refl v s s' : Rst s s' -> Star st v s v s'
| S_step v s v1 s1 v2 s2 : Xok st v s v1 s1 -> off s < off s1 -> Star st v1 s1 v2 s2 -> Star st v s v2 s2.

Definition Stop (st : pstate) (v : value) (s : pstate) : Prop :=
  Xfail st v s \/ exists v2 s2, Xok st v s v2 s2 /\ off s2 <= off s.

(* the predicates see positions only *)
Lemma Xok_start st v s s0 v' s' : Rst s s0 -> Xok st v s0 v' s' -> Xok st v s v' s'.
Proof.
  intros S (k & s1 & gl & t & gl' & S1 & E & T). exists k, s1, gl, t, gl'.
  split; [eapply Rst_trans; [exact S1|apply Rst_sym; exact S]|]. split; assumption.
Qed.
Lemma Xfail_start st v s s0 : Rst s s0 -> Xfail st v s0 -> Xfail st v s.
Proof.
  intros S (k & s1 & gl & e & gl' & S1 & E). exists k, s1, gl, e, gl'.
  split; [eapply Rst_trans; [exact S1|apply Rst_sym; exact S]|exact E].
Qed.
Lemma Stop_start st v s s0 : Rst s s0 -> Stop st v s0 -> Stop st v s.
Proof.
  intros S [X|(v2 & s2 & X & L)]; [left; eapply Xfail_start; eauto|].
  right. exists v2, s2. split; [eapply Xok_start; eauto|]. destruct S as [_ S]. rewrite S. exact L.
Qed.
Lemma Star_start st v s s0 v' s' : Rst s s0 -> Star st v s0 v' s' -> Star st v s v' s'.
Proof.
  intros S X. inversion X as [? ? ? R|? ? v1 s1 ? ? X1 L X2]; subst.
  - apply S_refl. eapply Rst_trans; eauto.
  - eapply S_step; [eapply Xok_start; eauto| |exact X2]. destruct S as [_ S]. rewrite S. exact L.
Qed.
Lemma Star_snoc st v s v1 s1 v2 s2 :
  Star st v s v1 s1 -> Xok st v1 s1 v2 s2 -> off s1 < off s2 -> Star st v s v2 s2.
Proof.
  induction 1 as [v s s' R|v s va sa vb sb X L X2 IH]; intros Y LY.
  - eapply S_step; [eapply Xok_start; [exact R|exact Y]| |apply S_refl; apply Rst_refl].
    destruct R as [_ R]. rewrite R. exact LY.
  - eapply S_step; [exact X|exact L|]. apply IH; assumption.
Qed.
Lemma Star_le st v s v' s' : Star st v s v' s' -> off s <= off s'.
Proof. induction 1 as [v s s' [_ E]|]; [rewrite E; constructor|lia]. Qed.

(* a step is possible or the chain has stopped, never both *)
Lemma step_not_stop st v s v1 s1 : Xok st v s v1 s1 -> off s < off s1 -> ~ Stop st v s.
Proof.
  intros X L [Fl|(v2 & s2 & X2 & L2)]; [exact (Xok_not_fail _ _ _ _ _ X Fl)|].
  destruct (Xok_fun _ _ _ _ _ _ _ X X2) as [_ [_ E]]. lia.
Qed.

(* the greedy chain from a start is unique: B X* denotes one result *)
Theorem greedy_unique st v s va sa vb sb :
  Star st v s va sa -> Stop st va sa -> Star st v s vb sb -> Stop st vb sb -> va = vb /\ Rst sa sb.
Proof.
  intros HA. revert vb sb. induction HA as [v s sa R|v s v1 s1 va sa X L HA IH]; intros vb sb SA HB SB.
  - inversion HB as [? ? ? R2|? ? v1 s1 ? ? X1 L1 B2]; subst.
    + split; [reflexivity|]. eapply Rst_trans; [apply Rst_sym; exact R|exact R2].
    + exfalso. exact (step_not_stop _ _ _ _ _ X1 L1 (Stop_start _ _ _ _ R SA)).
  - inversion HB as [? ? ? R2|? ? v1' s1' ? ? X1 L1 B2]; subst.
    + exfalso. exact (step_not_stop _ _ _ _ _ X L (Stop_start _ _ _ _ R2 SB)).
    + destruct (Xok_fun _ _ _ _ _ _ _ X X1) as [<- R1].
      apply IH; [exact SA| |exact SB]. eapply Star_start; [exact R1|exact B2].
Qed.

Lemma further_lt p q : is_further_than scfg p q = true -> off q < off p.
Proof. unfold is_further_than. rewrite Hstrict. apply PeanoNat.Nat.ltb_lt. Qed.
Lemma not_further_le p q : is_further_than scfg p q = false -> off p <= off q.
Proof. unfold is_further_than. rewrite Hstrict. intro E. apply PeanoNat.Nat.ltb_ge in E. exact E. Qed.

(* what one growth turn of the resolved body amounts to: the extension, or - when the rest of the
   first alternative failed - the base again *)
Lemma growth_turn k st v s1 gl0 r gl1 :
  usual_body k st (COk v s1) gl0 = (r, gl1) ->
  ext_run (S (S k)) st v s1 (hitg (COk v s1) st gl0) = (r, gl1) \/
  (Xfail st v s1 /\ exists e gl2, base_run (S (S (S k))) st (record_error scfg st e) gl2 = (r, gl1)).
Proof.
  unfold usual_body, arm1. intro E.
  destruct (postprocess rf l a v) as [fs|] eqn:PP; [|left; unfold ext_run; rewrite PP; exact E].
  destruct (seq_merge_vals [] fs) as [acc|] eqn:SM; [|left; unfold ext_run; rewrite PP, SM; exact E].
  destruct (seq_loop ustate (Mrun (S (S k))) actx fds1 (x1 :: xs) s1 acc (hitg (COk v s1) st gl0)) as [[fs' s2|e|p|] gl2] eqn:T.
  - left. unfold ext_run. rewrite PP, SM, T. exact E.
  - right. split.
    + exists (S (S k)), s1, (hitg (COk v s1) st gl0), e, gl2. split; [apply Rst_refl|].
      unfold ext_run. rewrite PP, SM, T. reflexivity.
    + exists e, gl2. exact E.
  - left. unfold ext_run. rewrite PP, SM, T. exact E.
  - left. unfold ext_run. rewrite PP, SM, T. exact E.
Qed.

Lemma prod_chain st c v s : Produced st c v s ->
  match c with CErr _ => True | COk vc sc => exists v0 s0, Bok st v0 s0 /\ Star st v0 s0 vc sc end ->
  exists v0 s0, Bok st v0 s0 /\ Star st v0 s0 v s /\ Stop st v s.
Proof.
  induction 1 as [v s k gl0 r gl1 B C Hs|c k gl0 v1 s1 gl1 v s B C Hf P IH]; intro Inv.
  - destruct Inv as (v0 & s0 & B0 & St). exists v0, s0. split; [exact B0|]. split; [exact St|].
    destruct (growth_turn _ _ _ _ _ _ _ B) as [E|[Xf _]]; [|left; exact Xf].
    destruct r as [v2 s2|e|p|]; cbn [stops] in Hs; try contradiction.
    + right. exists v2, s2. split; [|apply not_further_le; exact Hs].
      exists (S (S k)), s, (hitg (COk v s) st gl0), s2, gl1. split; [apply Rst_refl|]. split; [exact E|apply Rst_refl].
    + left. exists (S (S k)), s, (hitg (COk v s) st gl0), e, gl1. split; [apply Rst_refl|exact E].
  - destruct c as [vc sc|e].
    + destruct Inv as (v0 & s0 & B0 & St). apply further_lt in Hf.
      destruct (growth_turn _ _ _ _ _ _ _ B) as [E|[_ (e & gl2 & E)]].
      * apply IH. exists v0, s0. split; [exact B0|].
        eapply Star_snoc; [exact St| |exact Hf].
        exists (S (S k)), sc, (hitg (COk vc sc) st gl0), s1, gl1. split; [apply Rst_refl|]. split; [exact E|apply Rst_refl].
      * exfalso.
        assert (B1 : Bok st v1 s1).
        { exists (S (S (S k))), (record_error scfg st e), gl2, s1, gl1.
          split; [apply Rst_record_l|]. split; [exact E|apply Rst_refl]. }
        destruct (Bok_fun _ _ _ _ _ B0 B1) as [_ [_ E01]]. pose proof (Star_le _ _ _ _ _ St). lia.
    + apply IH. exists v1, s1. split; [|apply S_refl; apply Rst_refl].
      exists (S (S (S k))), (record_error scfg st e), (hitg (CErr e) st gl0), s1, gl1.
      split; [apply Rst_record_l|]. split; [exact B|apply Rst_refl].
Qed.

(* THE CLOSED FORM *)
Theorem closed_form st (W : ws_trivial st) F gl r gl' :
  cache_get a (off st) (g_cache gl) = None ->
  ev_rule (Mrun F) a st gl = (r, gl') ->
  match r with
  | MOk v s => exists v0 s0, Bok st v0 s0 /\ Star st v0 s0 v s /\ Stop st v s
  | MErr _ => Bfail st
  | _ => True
  end.
Proof.
  intros C E. pose proof (usual_parse st W F gl r gl' C E) as U. cbv zeta in U.
  destruct r as [v s|e|p|]; try exact I.
  - apply (prod_chain _ _ _ _ U). exact I.
  - destruct (U Hclosed) as (k & gl0 & gl1 & B).
    exists (S (S (S k))), (record_error scfg st (report_error scfg st LeftRecursionSentinel)),
           (hitg (CErr (report_error scfg st LeftRecursionSentinel)) st gl0), e, gl1.
    split; [apply Rst_record_l|exact B].
Qed.

(* "accepts exactly": when the base matches, the rule does not fail *)
Corollary closed_form_accepts st (W : ws_trivial st) F gl e gl' v0 s0 :
  cache_get a (off st) (g_cache gl) = None -> Bok st v0 s0 ->
  ev_rule (Mrun F) a st gl <> (MErr e, gl').
Proof.
  intros C B E. exact (Bok_not_fail _ _ _ B (closed_form st W F gl (MErr e) gl' C E)).
Qed.

End Closed.

End Usual.
