(* The growth loop of a @leftrec rule over an ABSTRACT resolved body, and the greedy closed form over
   ABSTRACT base / extension predicates.  Instantiated by UsualShape.v-like developments: whoever shows
   that the rule body, evaluated while the cache holds the loop's current best c under (A, offset), IS
   `BODY k st c gl` (hypothesis HB_eq, from D levels of fuel on; below D levels the body runs out of
   fuel, HB_low) gets: the loop equation (`loop_turn`), what the loop returns was produced by turns of
   BODY, each strictly further, stopped because one more turn did not get further (`LProduced`,
   `loop_results`, `loop_parse`).  Whoever also shows that a seed turn is the base B and a growth turn is
   the extension X or - X having failed - the base again, with B and X partial functions of the
   position, gets the closed form  B X*  greedy (`greedy_closed_form`) and its uniqueness. *)
From Coq Require Import Lia.
From PegV Require Import Utf8 State Terminals Syntax Fields FieldsFacts Literals Model CleanFrame.

Section Loop.
Variable ustate : Type.
Variable scfg : state_cfg.
Variable tcfg : term_cfg.
Variable fcfg : fields_cfg.
Variable rcfg : rule_cfg.
Variable hk : hooks ustate.
Variable g : grammar.
Notation glb := (glob ustate).
Notation Mrun := (run ustate scfg tcfg fcfg rcfg hk g).
Variable A : rule.
Notation a := (r_name A).
Hypothesis Hfind : find_grule g a = Some (GRule A).
Hypothesis Hlr : fl_left_recursive (flags_of (r_directives A)) = true.

Variable W : pstate -> Prop.               (* nothing is skipped between the entry and the recursive reference *)
Variable D : nat.                           (* levels of fuel the body needs to reach the recursive reference *)
Variable BODY : nat -> pstate -> cached -> glb -> R ustate value.
Hypothesis HB_eq : forall k st gl c, W st -> cache_get a (off st) (g_cache gl) = Some c ->
  rule_body ustate scfg fcfg hk g (Mrun (D + k)) A st gl = BODY k st c gl.
Hypothesis HB_low : forall F st gl, W st -> F < D -> exists gl2, rule_body ustate scfg fcfg hk g (Mrun F) A st gl = (MFuel, gl2).

Lemma er_S k n st gl :
  ev_rule (Mrun (S k)) n st gl = rule_step ustate scfg tcfg fcfg rcfg hk g (Mrun k) n st gl.
Proof. reflexivity. Qed.
Lemma eg_S k r st best gl :
  ev_grow (Mrun (S k)) r st best gl = grow_step ustate scfg fcfg rcfg hk g (Mrun k) r st best gl.
Proof. reflexivity. Qed.

(* ---- the loop ----------------------------------------------------------------------------- *)
Lemma cache_get_put n k c (gl : glb) :
  cache_get n k (g_cache (cache_put ustate n k c gl)) = Some c.
Proof.
  cbn [cache_put g_cache cache_get]. rewrite name_eqb_refl, PeanoNat.Nat.eqb_refl. reflexivity.
Qed.

(* one turn, as C07_grow, with the resolved body *)
Theorem loop_turn k st best gl :
  W st -> cache_get a (off st) (g_cache gl) = Some best ->
  ev_grow (Mrun (S (D + k))) A st best gl =
  match BODY k st best (trace ustate (TInfo 2) gl) with
  | (MOk v st', gl2) =>
    match best with
    | COk _ bst =>
      if is_further_than scfg st' bst
      then ev_grow (Mrun (D + k)) A st (COk v st') (cache_put ustate a (off st) (COk v st') gl2)
      else (of_cached best, gl2)
    | CErr _ => ev_grow (Mrun (D + k)) A st (COk v st') (cache_put ustate a (off st) (COk v st') gl2)
    end
  | (MErr e, gl2) =>
    if leftrec_closed rcfg then
      match best with
      | COk _ _ => (of_cached best, gl2)
      | CErr _ => (MErr e, cache_put ustate a (off st) (CErr e) gl2)
      end
    else (MErr e, gl2)
  | (MPanic p, gl2) => (MPanic p, gl2)
  | (MFuel, gl2) => (MFuel, gl2)
  end.
Proof.
  intros Wst C. rewrite eg_S. unfold grow_step.
  rewrite (HB_eq k st (trace ustate (TInfo 2) gl) best Wst C). reflexivity.
Qed.

(* the entry: no result for (A, offset) yet - the sentinel is planted and the loop starts *)
Theorem loop_entry k st gl :
  cache_get a (off st) (g_cache gl) = None ->
  ev_rule (Mrun (S k)) a st gl =
  let sentinel := CErr (report_error scfg st LeftRecursionSentinel) in
  match ev_grow (Mrun k) A st sentinel
          (cache_put ustate a (off st) sentinel (trace ustate (TStart a (off st)) gl)) with
  | (MOk v st', gl2) => (MOk v st', trace ustate (TResOk (off st')) gl2)
  | (MErr e, gl2) => (MErr e, trace ustate (TResErr e) gl2)
  | other => other
  end.
Proof.
  intro C. rewrite er_S. unfold rule_step. rewrite Hfind.
  unfold memo_wrap. rewrite Hlr. cbn [trace g_cache]. rewrite C. reflexivity.
Qed.

(* ---- what the loop returns ------------------------------------------------------------------ *)
(* `LProduced st c v s`: the result (v, s) was obtained from c by turns of the resolved body, each result
   strictly further than the one it replaces (any result replaces the sentinel), and the loop stopped at
   (v, s) because one more turn of the body did not get strictly further: it failed, or it ended at an
   offset that is not beyond s (greedy) *)
Definition stops (r : mres value) (s : pstate) : Prop :=
  match r with
  | MOk _ s2 => is_further_than scfg s2 s = false
  | MErr _ => leftrec_closed rcfg = true
  | _ => False
  end.

Inductive LProduced (st : pstate) : cached -> value -> pstate -> Prop :=
| LP_stop v s k gl0 r gl1 :
    BODY k st (COk v s) gl0 = (r, gl1) ->
    cache_get a (off st) (g_cache gl0) = Some (COk v s) ->
    stops r s ->
    LProduced st (COk v s) v s
| LP_turn c k gl0 v1 s1 gl1 v s :
    BODY k st c gl0 = (MOk v1 s1, gl1) ->
    cache_get a (off st) (g_cache gl0) = Some c ->
    match c with COk _ bst => is_further_than scfg s1 bst = true | CErr _ => True end ->
    LProduced st (COk v1 s1) v s ->
    LProduced st c v s.

Definition ok_of (c : cached) : Prop := match c with COk _ _ => True | CErr _ => False end.

Theorem loop_results st (Wst : W st) : forall F best gl r gl',
  cache_get a (off st) (g_cache gl) = Some best ->
  ev_grow (Mrun F) A st best gl = (r, gl') ->
  match r with
  | MOk v s' => LProduced st best v s'
  | MErr e =>
    (* only the seed turn can fail: the rule fails iff the other alternatives fail with the
       recursive reference failing *)
    leftrec_closed rcfg = true -> ~ ok_of best /\
    exists k gl0 gl1, BODY k st best gl0 = (MErr e, gl1)
  | _ => True
  end.
Proof.
  induction F as [|F IH]; intros best gl r gl' C E.
  - cbn in E. injection E as <- <-. exact I.
  - destruct (Compare_dec.lt_dec F D) as [L|L].
    + rewrite eg_S in E. unfold grow_step in E.
      destruct (HB_low F st (trace ustate (TInfo 2) gl) Wst L) as [gl2 B]. rewrite B in E.
      injection E as <- <-. exact I.
    + assert (EF : F = D + (F - D)) by lia. set (k := F - D) in *. clearbody k. subst F.
      rewrite (loop_turn k st best gl Wst C) in E.
      destruct (BODY k st best (trace ustate (TInfo 2) gl)) as [[v1 s1|e|p|] gl2] eqn:B.
      * assert (C' : cache_get a (off st) (g_cache (cache_put ustate a (off st) (COk v1 s1) gl2)) = Some (COk v1 s1))
          by apply cache_get_put.
        destruct best as [bv bst|be].
        -- destruct (is_further_than scfg s1 bst) eqn:Fu.
           ++ specialize (IH _ _ _ _ C' E). destruct r as [v s'|e|p|]; try exact I.
              ** eapply LP_turn; [exact B|exact C|exact Fu|exact IH].
              ** intro LC. destruct (IH LC) as [N _]. exfalso. apply N. exact I.
           ++ injection E as <- <-. cbn [of_cached]. eapply LP_stop; [exact B|exact C|exact Fu].
        -- specialize (IH _ _ _ _ C' E). destruct r as [v s'|e|p|]; try exact I.
           ** eapply LP_turn; [exact B|exact C|exact I|exact IH].
           ** intro LC. destruct (IH LC) as [N _]. exfalso. apply N. exact I.
      * destruct (leftrec_closed rcfg) eqn:LC.
        -- destruct best as [bv bst|be].
           ++ injection E as <- <-. cbn [of_cached]. eapply LP_stop; [exact B|exact C|exact LC].
           ++ injection E as <- <-. intros _. split; [intro X; exact X|]. eauto.
        -- injection E as <- <-. intro X. discriminate X.
      * injection E as <- <-. exact I.
      * injection E as <- <-. exact I.
Qed.

(* the parse of the rule from its entry (no result for (A, offset) yet) *)
Corollary loop_parse st (Wst : W st) F gl r gl' :
  cache_get a (off st) (g_cache gl) = None ->
  ev_rule (Mrun F) a st gl = (r, gl') ->
  let sentinel := CErr (report_error scfg st LeftRecursionSentinel) in
  match r with
  | MOk v s' => LProduced st sentinel v s'
  | MErr e => leftrec_closed rcfg = true -> exists k gl0 gl1, BODY k st sentinel gl0 = (MErr e, gl1)
  | _ => True
  end.
Proof.
  intros C E. destruct F as [|F]; [cbn in E; injection E as <- <-; exact I|].
  rewrite (loop_entry F st gl C) in E. cbv zeta in E.
  set (sentinel := CErr (report_error scfg st LeftRecursionSentinel)) in *.
  destruct (ev_grow (Mrun F) A st sentinel (cache_put ustate a (off st) sentinel (trace ustate (TStart a (off st)) gl)))
    as [r0 gl2] eqn:G.
  pose proof (loop_results st Wst F sentinel _ r0 gl2 (cache_get_put a (off st) sentinel _) G) as U.
  destruct r0 as [v s'|e|p|]; injection E as <- <-; cbv zeta; try exact I; [exact U|].
  intro LC. exact (proj2 (U LC)).
Qed.


(* ================================================================================================
   The greedy closed form over abstract base / extension predicates.
   ================================================================================================ *)
Section Greedy.
Variables (Bok : pstate -> value -> pstate -> Prop) (Bfail : pstate -> Prop).
Variables (Xok : pstate -> value -> pstate -> value -> pstate -> Prop) (Xfail : pstate -> value -> pstate -> Prop).

(* the seed turn is the base; a growth turn is the extension, or - the extension having failed - the base *)
Hypothesis H_seed : forall k st e gl0 r gl1, BODY k st (CErr e) gl0 = (r, gl1) ->
  match r with MOk v s => Bok st v s | MErr _ => Bfail st | _ => True end.
Hypothesis H_growth : forall k st v s1 gl0 r gl1, BODY k st (COk v s1) gl0 = (r, gl1) ->
  match r with MOk v' s' => Xok st v s1 v' s' | MErr _ => Xfail st v s1 | _ => True end \/
  (Xfail st v s1 /\ match r with MOk v' s' => Bok st v' s' | _ => True end).
(* base and extension are partial functions of the position *)
Hypothesis Bok_fun : forall st v s v' s', Bok st v s -> Bok st v' s' -> v = v' /\ Rst s s'.
Hypothesis Xok_fun : forall st v s v1 s1 v2 s2, Xok st v s v1 s1 -> Xok st v s v2 s2 -> v1 = v2 /\ Rst s1 s2.
Hypothesis Xok_not_fail : forall st v s v1 s1, Xok st v s v1 s1 -> ~ Xfail st v s.
Hypothesis Xok_start : forall st v s s0 v' s', Rst s s0 -> Xok st v s0 v' s' -> Xok st v s v' s'.
Hypothesis Xfail_start : forall st v s s0, Rst s s0 -> Xfail st v s0 -> Xfail st v s.
Hypothesis Hstrict : further_gt scfg = true.
Hypothesis Hclosed : leftrec_closed rcfg = true.

Inductive Star (st : pstate) : value -> pstate -> value -> pstate -> Prop :=
| S_refl v s s' : Rst s s' -> Star st v s v s'
| S_step v s v1 s1 v2 s2 : Xok st v s v1 s1 -> off s < off s1 -> Star st v1 s1 v2 s2 -> Star st v s v2 s2.

Definition Stop (st : pstate) (v : value) (s : pstate) : Prop :=
  Xfail st v s \/ exists v2 s2, Xok st v s v2 s2 /\ off s2 <= off s.

Lemma Stop_start st v s s0 : Rst s s0 -> Stop st v s0 -> Stop st v s.
Proof.
  intros S [X|(v2 & s2 & X & L)]; [left; eapply Xfail_start; eauto|].
  right. exists v2, s2. split; [eapply Xok_start; eauto|]. destruct S as [_ S]. rewrite S. exact L.
Qed.
Lemma Star_start st v s s0 v' s' : Rst s s0 -> Star st v s0 v' s' -> Star st v s v' s'.
Proof.
  intros S X. inversion X as [? ? ? R|? ? v1 s1 ? ? X1 L X2]; subst.
  - apply S_refl. eapply Rst_trans; eauto.
  - eapply S_step; [eapply Xok_start; eauto| |exact X2]. destruct S as [_ S]. rewrite S. exact L.
Qed.
Lemma Star_snoc st v s v1 s1 v2 s2 :
  Star st v s v1 s1 -> Xok st v1 s1 v2 s2 -> off s1 < off s2 -> Star st v s v2 s2.
Proof.
  induction 1 as [v s s' R|v s va sa vb sb X L X2 IH]; intros Y LY.
  - eapply S_step; [eapply Xok_start; [exact R|exact Y]| |apply S_refl; apply Rst_refl].
    destruct R as [_ R]. rewrite R. exact LY.
  - eapply S_step; [exact X|exact L|]. apply IH; assumption.
Qed.
Lemma Star_le st v s v' s' : Star st v s v' s' -> off s <= off s'.
Proof. induction 1 as [v s s' [_ E]|]; [rewrite E; constructor|lia]. Qed.

Lemma step_not_stop st v s v1 s1 : Xok st v s v1 s1 -> off s < off s1 -> ~ Stop st v s.
Proof.
  intros X L [Fl|(v2 & s2 & X2 & L2)]; [exact (Xok_not_fail _ _ _ _ _ X Fl)|].
  destruct (Xok_fun _ _ _ _ _ _ _ X X2) as [_ [_ E]]. lia.
Qed.

Theorem greedy_unique st v s va sa vb sb :
  Star st v s va sa -> Stop st va sa -> Star st v s vb sb -> Stop st vb sb -> va = vb /\ Rst sa sb.
Proof.
  intros HA. revert vb sb. induction HA as [v s sa R|v s v1 s1 va sa X L HA IH]; intros vb sb SA HB SB.
  - inversion HB as [? ? ? R2|? ? v1 s1 ? ? X1 L1 B2]; subst.
    + split; [reflexivity|]. eapply Rst_trans; [apply Rst_sym; exact R|exact R2].
    + exfalso. exact (step_not_stop _ _ _ _ _ X1 L1 (Stop_start _ _ _ _ R SA)).
  - inversion HB as [? ? ? R2|? ? v1' s1' ? ? X1 L1 B2]; subst.
    + exfalso. exact (step_not_stop _ _ _ _ _ X L (Stop_start _ _ _ _ R2 SB)).
    + destruct (Xok_fun _ _ _ _ _ _ _ X X1) as [<- R1].
      apply IH; [exact SA| |exact SB]. eapply Star_start; [exact R1|exact B2].
Qed.

Lemma further_lt p q : is_further_than scfg p q = true -> off q < off p.
Proof. unfold is_further_than. rewrite Hstrict. apply PeanoNat.Nat.ltb_lt. Qed.
Lemma not_further_le p q : is_further_than scfg p q = false -> off p <= off q.
Proof. unfold is_further_than. rewrite Hstrict. intro E. apply PeanoNat.Nat.ltb_ge in E. exact E. Qed.

Lemma prod_chain st c v s : LProduced st c v s ->
  match c with CErr _ => True | COk vc sc => exists v0 s0, Bok st v0 s0 /\ Star st v0 s0 vc sc end ->
  exists v0 s0, Bok st v0 s0 /\ Star st v0 s0 v s /\ Stop st v s.
Proof.
  induction 1 as [v s k gl0 r gl1 B C Hs|c k gl0 v1 s1 gl1 v s B C Hf P IH]; intro Inv.
  - destruct Inv as (v0 & s0 & B0 & St). exists v0, s0. split; [exact B0|]. split; [exact St|].
    destruct (H_growth _ _ _ _ _ _ _ B) as [E|[Xf _]]; [|left; exact Xf].
    destruct r as [v2 s2|e|p|]; cbn [stops] in Hs; try contradiction.
    + right. exists v2, s2. split; [exact E|apply not_further_le; exact Hs].
    + left. exact E.
  - destruct c as [vc sc|e].
    + destruct Inv as (v0 & s0 & B0 & St). apply further_lt in Hf.
      destruct (H_growth _ _ _ _ _ _ _ B) as [E|[_ E]].
      * apply IH. exists v0, s0. split; [exact B0|]. eapply Star_snoc; [exact St|exact E|exact Hf].
      * exfalso. destruct (Bok_fun _ _ _ _ _ B0 E) as [_ [_ E01]]. pose proof (Star_le _ _ _ _ _ St). lia.
    + apply IH. exists v1, s1. split; [exact (H_seed _ _ _ _ _ _ B)|apply S_refl; apply Rst_refl].
Qed.

Theorem greedy_closed_form st (Wst : W st) F gl r gl' :
  cache_get a (off st) (g_cache gl) = None ->
  ev_rule (Mrun F) a st gl = (r, gl') ->
  match r with
  | MOk v s => exists v0 s0, Bok st v0 s0 /\ Star st v0 s0 v s /\ Stop st v s
  | MErr _ => Bfail st
  | _ => True
  end.
Proof.
  intros C E. pose proof (loop_parse st Wst F gl r gl' C E) as U. cbv zeta in U.
  destruct r as [v s|e|p|]; try exact I.
  - apply (prod_chain _ _ _ _ U). exact I.
  - destruct (U Hclosed) as (k & gl0 & gl1 & B). exact (H_seed _ _ _ _ _ _ B).
Qed.

End Greedy.

End Loop.
