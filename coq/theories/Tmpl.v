(* C15: the panic sites inside the code templates are unreachable.
   While generating the code of a rule body the templates can panic at
     - field.rs generate_postprocess_calls: `.expect("Field not found in
       rule_fields")`, `.expect("Field type not found in field")`,
     - choice.rs generate_default_field: `panic!("Outer field .. cannot be One
       if inner does not exist")`,
     - sequence.rs generate_parse_function: `assert_eq!(field.arity, Multiple)`
       for a field seen again.
   `tmpl_ok` walks a rule body the way the generator does (included bodies in
   place, under the same rule-level descriptors) and says whether none of these
   fires.  The theorem: it never does, for the descriptors get_fields computed
   for the rule itself. *)
From Coq Require Import Lia.
From PegV Require Import Utf8 State Syntax Fields FieldsFacts GetFieldsFacts TypesFacts.

Section Inv.
Variable c : fields_cfg.
Variable g : grammar.

Lemma gf_group_inv F b l : get_fields c F g (EGroup b) = GFOk l -> get_fields c F g b = GFOk l.
Proof. destruct F as [|F']; [discriminate|]. cbn. apply gf_lift. Qed.

Lemma gf_include_inv F n r l : get_fields c F g (EInclude n) = GFOk l -> find_rule g n = Some r -> get_fields c F g (r_def r) = GFOk l.
Proof. destruct F as [|F']; [discriminate|]. cbn. intros H Hr. rewrite Hr in H. apply gf_lift. exact H. Qed.

Lemma gf_optional_inv F b l : get_fields c F g (EOptional b) = GFOk l ->
  exists lb, get_fields c F g b = GFOk lb /\ l = map (fun f => set_arity (opt_arity c (fd_arity f)) f) lb.
Proof.
  destruct F as [|F']; [discriminate|]. cbn. destruct (get_fields c F' g b) as [lb| |] eqn:G; try discriminate.
  intro H. injection H as <-. exists lb. split; [apply gf_lift; exact G|reflexivity].
Qed.

Lemma gf_closure_inv F b p l : get_fields c F g (EClosure b p) = GFOk l ->
  exists lb, get_fields c F g b = GFOk lb /\ l = map (fun f => set_arity (clo_arity c (fd_arity f)) f) lb.
Proof.
  destruct F as [|F']; [discriminate|]. cbn. destruct (get_fields c F' g b) as [lb| |] eqn:G; try discriminate.
  intro H. injection H as <-. exists lb. split; [apply gf_lift; exact G|reflexivity].
Qed.

Lemma gf_choice_inv F alts l : get_fields c F g (EChoice alts) = GFOk l ->
  forall a, In a alts -> exists new, get_fields c F g a = GFOk new /\ tsub new l.
Proof.
  destruct F as [|F']; [discriminate|]. cbn [get_fields]. intros E a Hin.
  destruct (gf_choice_parts_ok c _ _ _ _ _ E a Hin) as [new Gn].
  exists new. split; [apply gf_lift; exact Gn|]. eapply gf_choice_tsub; eauto.
Qed.

Lemma gf_seq_inv F parts l : get_fields c F g (ESeq parts) = GFOk l ->
  forall a, In a parts -> exists new, get_fields c F g a = GFOk new /\ tsub new l.
Proof.
  destruct F as [|F']; [discriminate|]. cbn [get_fields]. intros E a Hin.
  destruct (gf_seq_parts_ok c _ _ _ _ E a Hin) as [new Gn].
  exists new. split; [apply gf_lift; exact Gn|]. eapply gf_seq_tsub; eauto.
Qed.

Lemma gf_field_inv F fn b t l : get_fields c F g (EField fn b t) = GFOk l ->
  l = match fname_of fn with
      | None => []
      | Some n => [ {| fd_name := n; fd_types := [(t, b)]; fd_arity := One |} ]
      end.
Proof. destruct F as [|F']; [discriminate|]. cbn. destruct (fname_of fn); intro H; injection H as <-; reflexivity. Qed.

End Inv.

Section Tmpl.
Variable c : fields_cfg.
Hypothesis Hc : fcfg_sound c = true.
Variable g : grammar.
Variable F : nat.              (* the fuel of every get_fields call (the real one has none) *)

(* ---- model ------------------------------------------------------------------- *)
Definition own_of (e : expr) : option (list fdesc) :=
  match get_fields c F g e with GFOk l => Some l | _ => None end.

(* Codegen::get_filtered_rule_fields *)
Definition filtered (rf : list fdesc) (e : expr) : option (list fdesc) :=
  match own_of e with Some own => Some (filter (fun r => has_fd (fd_name r) own) rf) | None => None end.

Definition not_one (f : fdesc) : bool := negb (arity_eqb (fd_arity f) One).

(* Choice::generate_result_converter + generate_default_field for one arm *)
Definition arm_ok (fields inner : list fdesc) : bool :=
  match fields with
  | [] => true
  | [f] => match inner with [] => not_one f | _ => true end
  | _ => forallb (fun f => has_fd (fd_name f) inner || not_one f) fields
  end.

Definition mem_name (n : name) (l : list name) : bool := existsb (name_eqb n) l.

(* Sequence::generate_parse_function: fields_seen and the assert *)
Definition seq_part_ok (inner : list fdesc) (seen : list name) : bool * list name :=
  fold_left (fun st f =>
               if mem_name (fd_name f) (snd st)
               then (fst st && arity_eqb (fd_arity f) Multiple, snd st)
               else (fst st, fd_name f :: snd st)) inner (true, seen).

Fixpoint seq_ok (rf : list fdesc) (parts : list expr) (seen : list name) : bool :=
  match parts with
  | [] => true
  | p :: ps =>
    match filtered rf p with
    | Some inner => let '(ok, seen') := seq_part_ok inner seen in ok && seq_ok rf ps seen'
    | None => true
    end
  end.

(* generate_postprocess_calls *)
Definition field_ok (rf : list fdesc) (n typ : name) : bool :=
  match find_fd n rf with
  | Some fd => has_type typ (fd_types fd)
  | None => false
  end.

Fixpoint tmpl_ok (T : nat) (rf : list fdesc) (e : expr) : bool :=
  match T with
  | O => true
  | S T' =>
    match e with
    | EField fn _ typ => match fname_of fn with Some n => field_ok rf n typ | None => true end
    | EChoice alts =>
      forallb (tmpl_ok T' rf) alts &&
      match alts with
      | _ :: _ :: _ =>
        match filtered rf e with
        | Some fields => forallb (fun a => match own_of a with Some inner => arm_ok fields inner | None => true end) alts
        | None => true
        end
      | _ => true
      end
    | ESeq parts =>
      forallb (tmpl_ok T' rf) parts &&
      match parts with
      | _ :: _ :: _ => seq_ok rf parts []
      | _ => true
      end
    | EGroup b | EOptional b | EClosure b _ | ENeg b | EPos b => tmpl_ok T' rf b
    | EInclude n => match find_rule g n with Some r => tmpl_ok T' rf (r_def r) | None => true end
    | _ => true
    end
  end.

(* ---- proof ---------------------------------------------------------------------- *)
Definition tdom (rf : list fdesc) (e : expr) : Prop :=
  exists l, get_fields c F g e = GFOk l /\ tsub l rf.

Notation dom := (dom c g F).

Lemma both_group rf b : dom rf (EGroup b) /\ tdom rf (EGroup b) -> dom rf b /\ tdom rf b.
Proof.
  intros [D [l [E S]]]. split; [eapply dom_group; eauto|].
  exists l. split; [apply gf_group_inv; exact E|exact S].
Qed.

Lemma tdom_optional rf b : tdom rf (EOptional b) -> tdom rf b.
Proof.
  intros [l [E S]]. destruct (gf_optional_inv c g F b l E) as [lb [G ->]].
  exists lb. split; [exact G|]. intros n t H. apply S. rewrite types_of_map_set. exact H.
Qed.

Lemma tdom_closure rf b p : tdom rf (EClosure b p) -> tdom rf b.
Proof.
  intros [l [E S]]. destruct (gf_closure_inv c g F b p l E) as [lb [G ->]].
  exists lb. split; [exact G|]. intros n t H. apply S. rewrite types_of_map_set. exact H.
Qed.

Lemma tdom_include rf n r : tdom rf (EInclude n) -> find_rule g n = Some r -> tdom rf (r_def r).
Proof.
  intros [l [E S]] Hr. exists l. split; [eapply gf_include_inv; eauto|exact S].
Qed.

Lemma tdom_choice rf alts : tdom rf (EChoice alts) -> forall a, In a alts -> tdom rf a.
Proof.
  intros [l [E S]] a Hin. destruct (gf_choice_inv c g F alts l E a Hin) as [new [Gn TS]].
  exists new. split; [exact Gn|]. eapply tsub_trans; eauto.
Qed.

Lemma tdom_seq rf parts : tdom rf (ESeq parts) -> forall a, In a parts -> tdom rf a.
Proof.
  intros [l [E S]] a Hin. destruct (gf_seq_inv c g F parts l E a Hin) as [new [Gn TS]].
  exists new. split; [exact Gn|]. eapply tsub_trans; eauto.
Qed.

Lemma tdom_lookahead rf b : get_fields c F g b = GFOk [] -> tdom rf b.
Proof. intro H. exists []. split; [exact H|apply tsub_nil]. Qed.

Lemma dom_empty rf b : get_fields c F g b = GFOk [] -> dom rf b.
Proof. intro H. exists []. split; [exact H|apply sub_nil]. Qed.

Definition wf_rf (rf : list fdesc) : Prop := NoDup (map fd_name rf).

Lemma find_fd_in_nodup rf fd : wf_rf rf -> In fd rf -> find_fd (fd_name fd) rf = Some fd.
Proof.
  unfold wf_rf. induction rf as [|x rf IH]; intros ND Hin; [destruct Hin|].
  cbn in ND. inversion ND as [|? ? Hn ND']; subst. cbn.
  destruct Hin as [->|Hin]; [rewrite name_eqb_refl; reflexivity|].
  destruct (name_eqb (fd_name x) (fd_name fd)) eqn:E.
  - exfalso. apply Hn. apply name_eqb_eq in E. rewrite E. apply in_map. exact Hin.
  - apply IH; auto.
Qed.

Lemma ge_one a : ge_arity One a = true -> a = One.
Proof. destruct a; cbn; intro H; try discriminate; reflexivity. Qed.

Lemma arity_eqb_true a b : arity_eqb a b = true <-> a = b.
Proof. destruct a, b; cbn; split; intro H; try discriminate; reflexivity. Qed.

(* a field of the rule that the choice lists, declared One at rule level, is in every arm *)
Lemma choice_arms_ok rf alts : wf_rf rf -> dom rf (EChoice alts) ->
  forall fields, filtered rf (EChoice alts) = Some fields ->
  forall a inner, In a alts -> own_of a = Some inner -> arm_ok fields inner = true.
Proof.
  intros WF D fields Hf a inner Hin Ha.
  destruct (dom_choice c Hc g F rf alts D) as [l [E [S [Hsub [Hmiss Hnames]]]]].
  unfold filtered, own_of in Hf. rewrite E in Hf. injection Hf as <-.
  unfold own_of in Ha. destruct (get_fields c F g a) as [la| |] eqn:Ga; try discriminate. injection Ha as <-.
  assert (K : forall f, In f (filter (fun r => has_fd (fd_name r) l) rf) ->
              has_fd (fd_name f) la = true \/ not_one f = true).
  { intros f Hfin. apply filter_In in Hfin. destruct Hfin as [Hrf Hl].
    destruct (has_fd (fd_name f) la) eqn:Hla; [left; reflexivity|right].
    unfold not_one. destruct (arity_eqb (fd_arity f) One) eqn:EA; [|reflexivity]. exfalso.
    apply arity_eqb_true in EA.
    apply has_fd_arity in Hl. destruct Hl as [al Hal].
    destruct (S _ _ Hal) as [ar [Har Ger]].
    unfold arity_of in Har. rewrite (find_fd_in_nodup rf f WF Hrf) in Har. injection Har as <-.
    rewrite EA in Ger. apply ge_one in Ger. subst al.
    assert (Hn : arity_of (fd_name f) la = None) by (apply has_fd_false; exact Hla).
    pose proof (Hmiss a la (fd_name f) One Hin Ga Hn Hal) as G1. discriminate. }
  unfold arm_ok.
  destruct (filter (fun r => has_fd (fd_name r) l) rf) as [|f1 [|f2 rest]] eqn:EF; [reflexivity| |].
  - destruct la as [|x la']; [|reflexivity].
    destruct (K f1 (or_introl eq_refl)) as [H|H]; [discriminate|exact H].
  - apply forallb_forall. intros f Hfin. destruct (K f Hfin) as [H|H]; rewrite H; [reflexivity|apply orb_true_r].
Qed.

(* sequence: a field seen in two parts is Multiple at rule level *)
Lemma seq_part_inv inner : forall ok seen ok' seen',
  fold_left (fun st f =>
               if mem_name (fd_name f) (snd st)
               then (fst st && arity_eqb (fd_arity f) Multiple, snd st)
               else (fst st, fd_name f :: snd st)) inner (ok, seen) = (ok', seen') ->
  (forall n, mem_name n seen' = true -> mem_name n seen = true \/ exists f, In f inner /\ fd_name f = n) /\
  (ok = true -> (forall f, In f inner -> mem_name (fd_name f) seen = true -> fd_arity f = Multiple) ->
   NoDup (map fd_name inner) -> ok' = true).
Proof.
  induction inner as [|f inner IH]; intros ok seen ok' seen' H; cbn [fold_left] in H.
  - injection H as <- <-. split; [auto|auto].
  - cbn [fst snd] in H. destruct (mem_name (fd_name f) seen) eqn:M.
    + destruct (IH _ _ _ _ H) as [A B]. split.
      * intros n Hn. destruct (A n Hn) as [Hs|[f' [Hin Hf']]]; [left; exact Hs|right; exists f'; split; [right; exact Hin|exact Hf']].
      * intros Hok Hall ND. apply B.
        -- rewrite Hok. cbn. apply arity_eqb_true. apply Hall; [left; reflexivity|exact M].
        -- intros f' Hin Hm. apply Hall; [right; exact Hin|exact Hm].
        -- cbn in ND. inversion ND; assumption.
    + destruct (IH _ _ _ _ H) as [A B]. split.
      * intros n Hn. destruct (A n Hn) as [Hs|[f' [Hin Hf']]].
        -- cbn in Hs. destruct (name_eqb n (fd_name f)) eqn:En.
           ++ right. exists f. split; [left; reflexivity|]. apply name_eqb_eq in En. auto.
           ++ left. exact Hs.
        -- right. exists f'. split; [right; exact Hin|exact Hf'].
      * intros Hok Hall ND. apply B; [exact Hok| |cbn in ND; inversion ND; assumption].
        intros f' Hin Hm. cbn in Hm. destruct (name_eqb (fd_name f') (fd_name f)) eqn:En.
        -- exfalso. cbn in ND. inversion ND as [|? ? Hnot _]; subst. apply Hnot.
           apply name_eqb_eq in En. rewrite <- En. apply in_map. exact Hin.
        -- apply Hall; [right; exact Hin|exact Hm].
Qed.

Lemma filter_nodup rf p : wf_rf rf -> NoDup (map fd_name (filter p rf)).
Proof.
  unfold wf_rf. induction rf as [|x rf IH]; intro ND; cbn; [constructor|].
  cbn in ND. inversion ND as [|? ? Hn ND']; subst. destruct (p x); cbn; [|auto].
  constructor; [|auto]. intro Hin. apply Hn. apply in_map_iff in Hin. destruct Hin as [y [Hy Hin]].
  apply filter_In in Hin. rewrite <- Hy. apply in_map. apply Hin.
Qed.

Lemma seq_ok_holds rf parts : wf_rf rf -> dom rf (ESeq parts) ->
  forall done rest seen, parts = done ++ rest ->
    (forall n, mem_name n seen = true -> exists p lp, In p done /\ get_fields c F g p = GFOk lp /\ has_fd n lp = true /\ has_fd n rf = true) ->
    seq_ok rf rest seen = true.
Proof.
  intros WF D. destruct (dom_seq c Hc g F rf parts D) as [l [E [S [Hsub [Hdup Hnames]]]]].
  intros done rest. revert done. induction rest as [|q rest IH]; intros done seen Hparts Hseen; [reflexivity|].
  cbn [seq_ok]. unfold filtered, own_of.
  destruct (get_fields c F g q) as [lq| |] eqn:Gq; [|reflexivity|reflexivity].
  destruct (seq_part_ok (filter (fun r => has_fd (fd_name r) lq) rf) seen) as [ok seen'] eqn:SP.
  unfold seq_part_ok in SP. destruct (seq_part_inv _ _ _ _ _ SP) as [A B].
  assert (Hok : ok = true).
  { apply B; [reflexivity| |apply filter_nodup; exact WF].
    intros f Hfin Hm. apply filter_In in Hfin. destruct Hfin as [Hrf Hlq].
    destruct (Hseen _ Hm) as [p [lp [Hp [Gp [Hlp _]]]]].
    apply in_split in Hp. destruct Hp as [l1 [l2 ->]].
    apply has_fd_arity in Hlp. destruct Hlp as [a Ha].
    apply has_fd_arity in Hlq. destruct Hlq as [b Hb].
    assert (HM : arity_of (fd_name f) l = Some Multiple).
    { eapply (Hdup l1 p l2 q rest lp lq (fd_name f) a b); eauto. rewrite Hparts, <- app_assoc. reflexivity. }
    destruct (S _ _ HM) as [ar [Har Ger]]. apply ge_multiple in Ger. subst ar.
    unfold arity_of in Har. rewrite (find_fd_in_nodup rf f WF Hrf) in Har. injection Har as ->. reflexivity. }
  rewrite Hok. cbn. apply (IH (done ++ [q]) seen').
  - rewrite <- app_assoc. exact Hparts.
  - intros n Hn. destruct (A n Hn) as [Hs|[f [Hfin Hf]]].
    + destruct (Hseen n Hs) as [p [lp [Hp [Gp [Hlp Hrf]]]]]. exists p, lp. split; [apply in_or_app; left; exact Hp|auto].
    + apply filter_In in Hfin. destruct Hfin as [Hrf Hlq]. subst n.
      exists q, lq. split; [apply in_or_app; right; left; reflexivity|]. split; [exact Gq|]. split; [exact Hlq|].
      unfold has_fd. rewrite (find_fd_in_nodup rf f WF Hrf). reflexivity.
Qed.

Theorem tmpl_never_panics rf : wf_rf rf ->
  forall T e, dom rf e -> tdom rf e -> tmpl_ok T rf e = true.
Proof.
  intros WF. induction T as [|T IH]; intros e D TD; [reflexivity|]. cbn [tmpl_ok].
  destruct e.
  - (* EChoice *)
    apply andb_true_iff. split.
    + apply forallb_forall. intros a Hin. apply IH.
      * destruct (dom_choice c Hc g F rf alts D) as [l [E [S [Hsub _]]]].
        destruct (Hsub a Hin) as [lp [Gp Sp]]. exists lp. split; [exact Gp|eapply sub_trans; eauto].
      * eapply tdom_choice; eauto.
    + destruct alts as [|a1 [|a2 rest]]; try reflexivity.
      destruct (filtered rf (EChoice (a1 :: a2 :: rest))) as [fields|] eqn:Hf; [|reflexivity].
      apply forallb_forall. intros a Hin. destruct (own_of a) as [inner|] eqn:Ha; [|reflexivity].
      eapply choice_arms_ok; eauto.
  - (* ESeq *)
    apply andb_true_iff. split.
    + apply forallb_forall. intros a Hin. apply IH.
      * destruct (dom_seq c Hc g F rf parts D) as [l [E [S [Hsub _]]]].
        destruct (Hsub a Hin) as [lp [Gp Sp]]. exists lp. split; [exact Gp|eapply sub_trans; eauto].
      * eapply tdom_seq; eauto.
    + destruct parts as [|p1 [|p2 rest]]; try reflexivity.
      apply (seq_ok_holds rf _ WF D [] _ [] eq_refl). intros n Hn. discriminate.
  - (* EGroup *) destruct (both_group rf e (conj D TD)). apply IH; assumption.
  - (* EOptional *)
    destruct (dom_optional c Hc g F rf e D) as [lb [G [S _]]]. apply IH; [exists lb; auto|apply (tdom_optional _ _ TD)].
  - (* EClosure *)
    destruct (dom_closure c Hc g F rf e at_least_one D) as [lb [G [S _]]]. apply IH; [exists lb; auto|eapply tdom_closure; eauto].
  - (* ENeg *)
    pose proof (dom_lookahead_neg c g F rf e D) as G. apply IH; [apply dom_empty; exact G|apply tdom_lookahead; exact G].
  - (* EPos *)
    pose proof (dom_lookahead_pos c g F rf e D) as G. apply IH; [apply dom_empty; exact G|apply tdom_lookahead; exact G].
  - reflexivity.
  - reflexivity.
  - reflexivity.
  - (* EInclude *)
    destruct (find_rule g rule) as [r|] eqn:Ef; [|reflexivity].
    apply IH; [eapply dom_include; eauto|eapply tdom_include; eauto].
  - (* EField *)
    destruct (fname_of fname) as [n|] eqn:En; [|reflexivity].
    destruct D as [l [E S]]. destruct TD as [l' [E' TS]]. rewrite E in E'. injection E' as <-.
    apply gf_field_inv in E. rewrite En in E. subst l.
    unfold field_ok.
    destruct (S n One) as [a [Ha _]]; [unfold arity_of; cbn; rewrite name_eqb_refl; reflexivity|].
    unfold arity_of in Ha. destruct (find_fd n rf) as [fd|] eqn:Ff; [|discriminate].
    specialize (TS n typ). unfold types_of in TS. rewrite Ff in TS. apply TS.
    cbn. rewrite name_eqb_refl. unfold has_type. cbn. rewrite name_eqb_refl. reflexivity.
Qed.

End Tmpl.
