(* Simulation: the model M of the generated parser against the specification S.
   For grammars without @memoize/@leftrec rules, hooks that are pure oracles,
   the arity tables sound, record_error using `<=`, the ASCII guards of the
   terminal fast paths and of case-insensitive literals in place:
   whenever M returns at some fuel, S returns at the same fuel the same
   accept/reject, the same consumed bytes, the value S assembles from the
   events on the successful path, and M's farthest error is the
   furthest-latest entry of S's log of failed attempts. *)
From Coq Require Import Lia.
From PegV Require Import Utf8 Utf8Facts State Terminals TerminalsSpec TerminalsOk Syntax Fields
  FieldsFacts GetFieldsFacts TypesFacts Literals LiteralsFacts Model Spec ErrLog ShapeFacts ExternFacts Arity.

Ltac panic_tac := first [assumption | discriminate | exact I | (intro; discriminate)].

Section Sim.
Variable ustate : Type.
Variable scfg : state_cfg.
Hypothesis Hle : rec_le scfg = true.
Variable fcfg : fields_cfg.
Hypothesis Hf : fcfg_sound fcfg = true.
Variable rcfg : rule_cfg.
Hypothesis Hguard : insens_guard rcfg = true.
Variable hk : hooks ustate.
Variable shk : shooks.
Hypothesis Hpure_check : forall f v u, fst (h_check hk f v u) = sh_check shk f v.
Hypothesis Hpure_cc : forall f c, h_check_char hk f c = sh_check_char shk f c.
Hypothesis Hpure_ext : forall f bs u, fst (h_extern hk f bs u) = sh_extern shk f bs.
Variable g : grammar.
Hypothesis Hplain : forall r, In (GRule r) g ->
  fl_memoize (flags_of (r_directives r)) = false /\ fl_left_recursive (flags_of (r_directives r)) = false.

Let tcfg := term_cfg_expected.
Notation F := (gf_fuel g).
Notation gfF := (get_fields fcfg (gf_fuel g) g).
Notation Mstep := (step ustate scfg tcfg fcfg rcfg hk g).
Notation Sstep := (sstep fcfg shk g (insens_guard rcfg)).
Notation filtM := (filt fcfg g).

Definition blen := Spec.blen.

Lemma blen_app a b : blen (a ++ b) = blen a + blen b.
Proof. unfold blen, Spec.blen. rewrite encode_str_app, app_length. reflexivity. Qed.

(* ---- the correspondence of results -------------------------------------- *)

Definition corr {A B} (RV : A -> B -> Prop) (far0 : option perr) (cs : list N) (o : nat)
           (mr : mres A) (sr : sres B) : Prop :=
  match mr with
  | MOk v st' =>
    exists w m cs' l, sr = SOk w cs' (off st') l /\ cs = m ++ cs' /\ off st' = o + blen m /\
                      rest st' = encode_str cs' /\ far st' = fl far0 l /\ RV v w
  | MErr e => exists l, sr = SFail l /\ Some e = fl far0 l
  | MPanic p => p <> PanicShape      (* the value plumbing of the templates never breaks *)
  | MFuel => sr = SFuel
  end.

Lemma corr_weaken {A B} (RV RV' : A -> B -> Prop) far0 cs o mr sr :
  (forall v w, RV v w -> RV' v w) -> corr RV far0 cs o mr sr -> corr RV' far0 cs o mr sr.
Proof.
  intros H. destruct mr; cbn; auto.
  intros [w [m [cs' [l [E1 [E2 [E3 [E4 [E5 E6]]]]]]]]]. exists w, m, cs', l. repeat split; auto.
Qed.

(* names of the descriptors of e, and the value relation for expressions *)
Definition RVe (ctx : ectx) (e : expr) (fs : fields) (evs : list event) : Prop :=
  exists own,
    gfF e = GFOk own /\
    shape_fields (filter (fun rf => has_fd (fd_name rf) own) (c_fields ctx)) evs = Some fs /\
    Forall (fun ev => has_fd (ev_field ev) own = true) evs.

Definition names_eq (a b : list fdesc) : Prop := forall n, has_fd n a = has_fd n b.

Lemma RVe_names ctx e e' fs evs own own' :
  gfF e = GFOk own -> gfF e' = GFOk own' -> names_eq own own' ->
  RVe ctx e fs evs -> RVe ctx e' fs evs.
Proof.
  intros G G' HN [o [Go [Hs Hev]]]. rewrite G in Go. injection Go as <-.
  exists own'. split; [exact G'|]. split.
  - erewrite filter_ext; [exact Hs|]. intro a. symmetry. apply HN.
  - eapply Forall_impl; [|exact Hev]. intros ev H. cbn in H. rewrite <- HN. exact H.
Qed.

Definition wf_rf (rf : list fdesc) : Prop := NoDup (map fd_name rf).

Lemma find_fd_unique rf fd : wf_rf rf -> In fd rf -> find_fd (fd_name fd) rf = Some fd.
Proof.
  unfold wf_rf. induction rf as [|x rf IH]; intros ND Hin; [destruct Hin|].
  cbn in ND. inversion ND as [|? ? Hn ND']; subst. cbn.
  destruct Hin as [->|Hin]; [rewrite name_eqb_refl; reflexivity|].
  destruct (name_eqb (fd_name x) (fd_name fd)) eqn:E.
  - apply name_eqb_eq in E. exfalso. apply Hn. rewrite E. apply in_map. exact Hin.
  - apply IH; auto.
Qed.

Lemma find_fd_filter_has n own rf fd :
  find_fd n rf = Some fd -> has_fd n own = true ->
  find_fd n (filter (fun r => has_fd (fd_name r) own) rf) = Some fd.
Proof.
  intros H1 H2. induction rf as [|x rf IH]; [discriminate|].
  cbn in H1. cbn [filter].
  destruct (name_eqb (fd_name x) n) eqn:E.
  - injection H1 as ->. apply name_eqb_eq in E. rewrite E, H2. cbn. rewrite E, name_eqb_refl. reflexivity.
  - destruct (has_fd (fd_name x) own); [cbn; rewrite E|]; apply IH; exact H1.
Qed.

Lemma find_fd_filter_not n own rf :
  has_fd n own = false -> find_fd n (filter (fun r => has_fd (fd_name r) own) rf) = None.
Proof.
  intro H. induction rf as [|x rf IH]; cbn; [reflexivity|].
  destruct (has_fd (fd_name x) own) eqn:P; [|exact IH]. cbn.
  destruct (name_eqb (fd_name x) n) eqn:E; [|exact IH].
  apply name_eqb_eq in E. rewrite E in P. congruence.
Qed.

Lemma wf_rf_filter p rf : wf_rf rf -> wf_rf (filter p rf).
Proof.
  unfold wf_rf. induction rf as [|x rf IH]; intro ND; [constructor|].
  cbn in ND. inversion ND as [|? ? Hn ND']; subst. cbn. destruct (p x); [|auto].
  cbn. constructor; [|auto]. intro Hin. apply Hn.
  apply in_map_iff in Hin. destruct Hin as [y [Ey Hy]]. apply filter_In in Hy.
  apply in_map_iff. exists y. tauto.
Qed.

(* ---- terminals ------------------------------------------------------------ *)

Lemma lift_term_ok {A A' B} (RV : A' -> B -> Prop) (f : A -> A') (v : list N -> B)
      (val : list N -> A) st gl cs t sp (r : tres A) :
  term_ok scfg r st cs t val sp ->
  (forall m, RV (f (val m)) (v m)) ->
  corr RV (far st) cs (off st) (fst (lift_t ustate f sp st r gl)) (s_term t sp v cs (off st)).
Proof.
  unfold term_ok, s_term. intros H HV.
  destruct (term_match t cs) as [m|] eqn:TM.
  - rewrite H. cbn. exists (v m), m, (skipn (length m) cs), [].
    split; [reflexivity|]. split; [apply term_match_prefix in TM; exact TM|].
    split; [reflexivity|]. split; [reflexivity|]. split; [reflexivity|apply HV].
  - rewrite H. cbn. exists [ {| e_pos := off st; e_spec := sp |} ].
    split; [reflexivity|]. apply report_error_fl. exact Hle.
Qed.


Lemma gf_fuel_pos : exists F', gf_fuel g = S F'.
Proof. unfold gf_fuel. cbn. eexists. reflexivity. Qed.

Lemma all_scalar_suffix m cs' : all_scalar (m ++ cs') -> all_scalar cs'.
Proof. intro H. apply all_scalar_app in H. tauto. Qed.

(* ====================================================================== *)
Section Step.
Variable ev : evals ustate.
Variable sv : sevals.

Hypothesis IHe : forall ctx e st gl cs,
  dom fcfg g F (c_fields ctx) e -> wf_rf (c_fields ctx) ->
  rest st = encode_str cs -> all_scalar cs ->
  corr (RVe ctx e) (far st) cs (off st)
       (fst (ev_expr ev ctx e st gl)) (sv_expr sv (c_skip ctx) e cs (off st)).

Hypothesis IHr : forall n st gl cs,
  rest st = encode_str cs -> all_scalar cs ->
  corr eq (far st) cs (off st) (fst (ev_rule ev n st gl)) (sv_rule sv n cs (off st)).

(* ---- generate_skip_ws --------------------------------------------------- *)
Lemma with_ws_ok {A B} (RV : A -> B -> Prop) ctx st gl cs
      (k : pstate -> glob ustate -> R ustate A) (ks : list N -> nat -> sres B) :
  rest st = encode_str cs -> all_scalar cs ->
  (forall st1 gl1 cs1, rest st1 = encode_str cs1 -> all_scalar cs1 ->
     corr RV (far st1) cs1 (off st1) (fst (k st1 gl1)) (ks cs1 (off st1))) ->
  corr RV (far st) cs (off st) (fst (with_ws ustate ev ctx st gl k))
       (s_with_ws sv (c_skip ctx) cs (off st) ks).
Proof.
  intros Hr Hs Hk. unfold with_ws, s_with_ws. destruct (c_skip ctx); [|apply Hk; auto].
  pose proof (IHr n_Whitespace st gl cs Hr Hs) as W.
  destruct (ev_rule ev n_Whitespace st gl) as [[v st1|e|p|] gl1]; cbn [fst] in *.
  - destruct W as [w [m1 [cs1 [l1 [E1 [E2 [E3 [E4 [E5 _]]]]]]]]]. rewrite E1.
    assert (Hs1 : all_scalar cs1) by (rewrite E2 in Hs; eapply all_scalar_suffix; eauto).
    pose proof (Hk st1 gl1 cs1 E4 Hs1) as K.
    destruct (k st1 gl1) as [[v2 st2|e2|p2|] gl2]; cbn [fst] in *.
    + destruct K as [w2 [m2 [cs2 [l2 [K1 [K2 [K3 [K4 [K5 K6]]]]]]]]]. rewrite K1.
      exists w2, (m1 ++ m2), cs2, (l1 ++ l2). split; [reflexivity|].
      split; [rewrite E2, K2, app_assoc; reflexivity|].
      split; [rewrite K3, E3, blen_app; lia|]. split; [exact K4|].
      split; [rewrite K5, E5, fl_app; reflexivity|exact K6].
    + destruct K as [l2 [K1 K2]]. rewrite K1. exists (l1 ++ l2). split; [reflexivity|].
      rewrite fl_app, <- E5. exact K2.
    + panic_tac.
    + rewrite K. reflexivity.
  - destruct W as [l1 [E1 E2]]. rewrite E1. exists l1. auto.
  - panic_tac.
  - rewrite W. reflexivity.
Qed.

Lemma no_fields_ok {A B} ctx e far0 cs o (mr : R ustate A) (sr : sres B) :
  gfF e = GFOk [] ->
  corr (fun _ _ => True) far0 cs o (fst mr) sr ->
  corr (RVe ctx e) far0 cs o (fst (no_fields ustate mr)) (s_noev sr).
Proof.
  intros G H. destruct mr as [[v st'|er|p|] gl]; cbn [fst no_fields] in *.
  - destruct H as [w [m [cs' [l [E1 [E2 [E3 [E4 [E5 _]]]]]]]]]. rewrite E1. cbn.
    exists [], m, cs', l. repeat split; auto.
    exists []. split; [exact G|]. split; [|constructor].
    replace (filter (fun rf => has_fd (fd_name rf) []) (c_fields ctx)) with (@nil fdesc); [reflexivity|].
    induction (c_fields ctx); cbn; auto.
  - destruct H as [l [E1 E2]]. rewrite E1. exists l. auto.
  - panic_tac.
  - rewrite H. reflexivity.
Qed.


(* ---- literals, ranges, `$` ------------------------------------------------ *)
Lemma encode_str_ascii s : ascii_lower_str s -> encode_str s = s.
Proof.
  induction 1 as [|c s [Hc _] _ IH]; [reflexivity|].
  rewrite encode_str_cons, encode_ascii, IH by exact Hc. reflexivity.
Qed.

Lemma run_lit_ok m st gl cs :
  lit_ok m -> rest st = encode_str cs -> all_scalar cs ->
  corr (fun _ _ => True) (far st) cs (off st) (fst (run_lit ustate scfg tcfg m st gl))
       (s_term (fst (lit_term m)) (snd (lit_term m)) (fun _ => tt) cs (off st)).
Proof.
  intros Hm Hr Hs. destruct m; cbn [run_lit lit_term fst snd lit_ok] in *.
  - eapply lift_term_ok; [apply parse_character_literal_ok; auto|auto].
  - eapply lift_term_ok; [apply parse_string_literal_ok; auto|auto].
  - destruct Hm. eapply lift_term_ok; [apply parse_character_literal_insensitive_ok; auto|auto].
  - rewrite (encode_str_ascii _ Hm).
    eapply lift_term_ok; [apply parse_string_literal_insensitive_ok; auto|auto].
Qed.

Lemma gfF_leaf e : (match e with ELit _ _ | ERange _ _ | EEoi => True | _ => False end) -> gfF e = GFOk [].
Proof. destruct gf_fuel_pos as [F' ->]. destruct e; cbn; tauto. Qed.

Lemma expr_lit_ok ctx ins body st gl cs :
  rest st = encode_str cs -> all_scalar cs ->
  corr (RVe ctx (ELit ins body)) (far st) cs (off st)
       (fst (expr_step ustate scfg tcfg fcfg rcfg g ev ctx (ELit ins body) st gl))
       (sexpr_step g (insens_guard rcfg) sv (c_skip ctx) (ELit ins body) cs (off st)).
Proof.
  intros Hr Hs. cbn [expr_step sexpr_step]. rewrite Hguard.
  destruct (compile_lit true ins body) as [m| | |] eqn:C; cbn [fst corr]; try panic_tac.
  pose proof (compile_lit_ok _ _ _ C) as Hm.
  destruct (lit_term m) as [t sp] eqn:LT.
  apply no_fields_ok; [apply gfF_leaf; panic_tac|].
  apply with_ws_ok; auto. intros st1 gl1 cs1 H1 H2.
  pose proof (run_lit_ok m st1 gl1 cs1 Hm H1 H2) as K. rewrite LT in K. exact K.
Qed.

Lemma expr_range_ok ctx a b st gl cs :
  rest st = encode_str cs -> all_scalar cs ->
  corr (RVe ctx (ERange a b)) (far st) cs (off st)
       (fst (expr_step ustate scfg tcfg fcfg rcfg g ev ctx (ERange a b) st gl))
       (sexpr_step g (insens_guard rcfg) sv (c_skip ctx) (ERange a b) cs (off st)).
Proof.
  intros Hr Hs. cbn [expr_step sexpr_step].
  destruct (compile_range a b) as [x y| |] eqn:C; cbn [fst corr]; try panic_tac.
  destruct (compile_range_ok _ _ _ _ C) as [Hx Hy].
  apply no_fields_ok; [apply gfF_leaf; panic_tac|].
  apply with_ws_ok; auto. intros st1 gl1 cs1 H1 H2.
  eapply lift_term_ok; [apply parse_character_range_ok; auto|auto].
Qed.

Lemma expr_eoi_ok ctx st gl cs :
  rest st = encode_str cs -> all_scalar cs ->
  corr (RVe ctx EEoi) (far st) cs (off st)
       (fst (expr_step ustate scfg tcfg fcfg rcfg g ev ctx EEoi st gl))
       (sexpr_step g (insens_guard rcfg) sv (c_skip ctx) EEoi cs (off st)).
Proof.
  intros Hr Hs. cbn [expr_step sexpr_step].
  apply no_fields_ok; [apply gfF_leaf; panic_tac|].
  apply with_ws_ok; auto. intros st1 gl1 cs1 H1 H2.
  eapply lift_term_ok; [apply parse_end_of_input_ok; auto|auto].
Qed.


(* ---- rule / field references ------------------------------------------------ *)
Lemma filter_name_unique rf n fd own :
  wf_rf rf -> find_fd n rf = Some fd -> (forall x, has_fd x own = name_eqb n x) ->
  filter (fun r => has_fd (fd_name r) own) rf = [fd].
Proof.
  unfold wf_rf. intros ND Hfd Hown. induction rf as [|x rf IH]; [discriminate|].
  cbn in ND. inversion ND as [|? ? Hn ND']; subst. cbn in Hfd. cbn [filter]. rewrite Hown.
  destruct (name_eqb (fd_name x) n) eqn:E.
  - injection Hfd as ->. rewrite name_eqb_sym, E. f_equal.
    apply name_eqb_eq in E.
    assert (G : forall l, ~ In n (map fd_name l) -> filter (fun r => has_fd (fd_name r) own) l = []).
    { induction l as [|y l IHl]; intro Hni; [reflexivity|]. cbn. rewrite Hown.
      destruct (name_eqb n (fd_name y)) eqn:E2.
      - apply name_eqb_eq in E2. exfalso. apply Hni. left. auto.
      - apply IHl. intro. apply Hni. right. auto. }
    apply G. rewrite <- E. exact Hn.
  - rewrite name_eqb_sym, E. apply IH; auto.
Qed.

Lemma filter_none rf own : (forall x, has_fd x own = false) -> filter (fun r => has_fd (fd_name r) own) rf = [].
Proof. intro H. induction rf as [|x rf IH]; cbn; [reflexivity|]. rewrite H. exact IH. Qed.

Lemma expr_field_ok ctx fn boxed typ st gl cs :
  dom fcfg g F (c_fields ctx) (EField fn boxed typ) ->
  wf_rf (c_fields ctx) -> rest st = encode_str cs -> all_scalar cs ->
  corr (RVe ctx (EField fn boxed typ)) (far st) cs (off st)
       (fst (expr_step ustate scfg tcfg fcfg rcfg g ev ctx (EField fn boxed typ) st gl))
       (sexpr_step g (insens_guard rcfg) sv (c_skip ctx) (EField fn boxed typ) cs (off st)).
Proof.
  intros Hd Hwf Hr Hs. cbn [expr_step sexpr_step].
  pose proof (with_ws_ok eq ctx st gl cs (fun st gl => ev_rule ev typ st gl)
                         (fun cs o => sv_rule sv typ cs o) Hr Hs
                         (fun st1 gl1 cs1 H1 H2 => IHr typ st1 gl1 cs1 H1 H2)) as W.
  destruct (with_ws ustate ev ctx st gl (fun st gl => ev_rule ev typ st gl)) as [[v st'|e|p|] gl'];
    cbn [fst] in W.
  - destruct W as [w [m [cs' [l [E1 [E2 [E3 [E4 [E5 E6]]]]]]]]]. subst w. rewrite E1.
    destruct gf_fuel_pos as [F' HF].
    destruct (fname_of fn) as [n|] eqn:FN.
    + destruct (postprocess (c_fields ctx) n typ v) as [fs|] eqn:PP; cbn [fst corr].
      2:{ exfalso. unfold postprocess in PP. destruct (find_fd n (c_fields ctx)) as [fd|] eqn:Ffd; [discriminate|].
          destruct Hd as [l0 [G0 S0]]. rewrite HF in G0. cbn in G0. rewrite FN in G0. injection G0 as <-.
          destruct (S0 n One) as [a' [Ha' _]]; [unfold arity_of; cbn; rewrite name_eqb_refl; reflexivity|].
          unfold arity_of in Ha'. rewrite Ffd in Ha'. discriminate. }
      exists [ {| ev_field := n; ev_typ := typ; ev_val := v |} ], m, cs', l.
      repeat split; auto.
      unfold postprocess in PP. destruct (find_fd n (c_fields ctx)) as [fd|] eqn:Ffd; [|discriminate].
      injection PP as <-.
      set (fd0 := {| fd_name := n; fd_types := [(typ, boxed)]; fd_arity := One |}).
      exists [fd0]. split; [rewrite HF; cbn; rewrite FN; reflexivity|].
      assert (Hown : forall x, has_fd x [fd0] = name_eqb n x).
      { intro x. unfold has_fd. cbn. destruct (name_eqb n x); reflexivity. }
      split.
      * rewrite (filter_name_unique _ n fd [fd0] Hwf Ffd Hown).
        cbn [shape_fields]. rewrite field_value_mine. rewrite (find_fd_name _ _ _ Ffd).
        unfold mine. cbn [filter ev_field]. rewrite name_eqb_refl.
        unfold wrap_enum. cbn [ev_typ ev_val].
        destruct (fd_arity fd); reflexivity.
      * constructor; [|constructor]. cbn [ev_field]. rewrite Hown. apply name_eqb_refl.
    + cbn [no_fields fst corr]. exists [], m, cs', l. repeat split; auto.
      exists []. split; [rewrite HF; cbn; rewrite FN; reflexivity|].
      split; [rewrite filter_none by reflexivity; reflexivity|constructor].
  - destruct W as [l [E1 E2]]. rewrite E1.
    destruct (fname_of fn); cbn [no_fields fst corr]; exists l; auto.
  - destruct (fname_of fn); cbn [no_fields fst corr]; panic_tac.
  - rewrite W. destruct (fname_of fn); cbn [no_fields fst corr]; reflexivity.
Qed.


(* ---- transparent wrappers: group, include, single-alternative choice, one-part sequence *)
Lemma corr_RVe_transfer ctx e e' own own' far0 cs o (mr : mres fields) sr :
  gfF e = GFOk own -> gfF e' = GFOk own' -> names_eq own own' ->
  corr (RVe ctx e) far0 cs o mr sr -> corr (RVe ctx e') far0 cs o mr sr.
Proof. intros G G' HN. apply corr_weaken. intros v w. eapply RVe_names; eauto. Qed.

Lemma has_fd_map_set h l n :
  has_fd n (map (fun f => set_arity (h (fd_arity f)) f) l) = has_fd n l.
Proof.
  unfold has_fd. pose proof (find_fd_map_arity n h (fun _ => true) l) as P. cbn in P. rewrite P.
  destruct (find_fd n l); reflexivity.
Qed.

Lemma expr_group_ok ctx b st gl cs :
  dom fcfg g F (c_fields ctx) (EGroup b) -> wf_rf (c_fields ctx) ->
  rest st = encode_str cs -> all_scalar cs ->
  corr (RVe ctx (EGroup b)) (far st) cs (off st)
       (fst (expr_step ustate scfg tcfg fcfg rcfg g ev ctx (EGroup b) st gl))
       (sexpr_step g (insens_guard rcfg) sv (c_skip ctx) (EGroup b) cs (off st)).
Proof.
  intros Hd Hwf Hr Hs. cbn [expr_step sexpr_step].
  pose proof (dom_group _ _ _ _ _ Hd) as Hdb.
  destruct Hd as [l [G _]]. destruct Hdb as [l' [G' S']].
  assert (l' = l) as ->.
  { destruct gf_fuel_pos as [F' HF]. rewrite HF in G. cbn in G.
    apply (gf_lift _ g) in G. rewrite <- HF in G. congruence. }
  eapply corr_RVe_transfer; [exact G'|exact G|intro; reflexivity|].
  apply IHe; auto. exists l. auto.
Qed.

Lemma expr_include_ok ctx n st gl cs :
  dom fcfg g F (c_fields ctx) (EInclude n) -> wf_rf (c_fields ctx) ->
  rest st = encode_str cs -> all_scalar cs ->
  corr (RVe ctx (EInclude n)) (far st) cs (off st)
       (fst (expr_step ustate scfg tcfg fcfg rcfg g ev ctx (EInclude n) st gl))
       (sexpr_step g (insens_guard rcfg) sv (c_skip ctx) (EInclude n) cs (off st)).
Proof.
  intros Hd Hwf Hr Hs. cbn [expr_step sexpr_step].
  destruct (find_rule g n) as [r|] eqn:FR; [|panic_tac].
  pose proof (dom_include _ _ _ _ _ _ Hd FR) as Hdb.
  destruct Hd as [l [G _]]. destruct Hdb as [l' [G' S']].
  assert (l' = l) as ->.
  { destruct gf_fuel_pos as [F' HF]. rewrite HF in G. cbn in G. rewrite FR in G.
    apply (gf_lift _ g) in G. rewrite <- HF in G. congruence. }
  eapply corr_RVe_transfer; [exact G'|exact G|intro; reflexivity|].
  apply IHe; auto. exists l. auto.
Qed.

(* ---- optional ------------------------------------------------------------- *)
Lemma defaults_some fds : (forall fd, In fd fds -> fd_arity fd <> One) -> defaults fds <> None.
Proof.
  induction fds as [|fd r IH]; intro H; [discriminate|]. cbn.
  assert (H1 : fd_arity fd <> One) by (apply H; left; reflexivity).
  assert (H2 : defaults r <> None) by (apply IH; intros; apply H; right; assumption).
  destruct (fd_arity fd); cbn; try congruence; destruct (defaults r); congruence || discriminate.
Qed.

Lemma expr_optional_ok ctx b st gl cs :
  dom fcfg g F (c_fields ctx) (EOptional b) -> wf_rf (c_fields ctx) ->
  rest st = encode_str cs -> all_scalar cs ->
  corr (RVe ctx (EOptional b)) (far st) cs (off st)
       (fst (expr_step ustate scfg tcfg fcfg rcfg g ev ctx (EOptional b) st gl))
       (sexpr_step g (insens_guard rcfg) sv (c_skip ctx) (EOptional b) cs (off st)).
Proof.
  intros Hd Hwf Hr Hs. cbn [expr_step sexpr_step].
  destruct (dom_optional _ Hf g _ _ _ Hd) as [lb [Gb [Sb Hopt]]].
  destruct Hd as [l [G _]].
  assert (HN : names_eq lb l).
  { destruct gf_fuel_pos as [F' HF]. rewrite HF in G, Gb. cbn in G.
    destruct (get_fields fcfg F' g b) as [lb'| |] eqn:Gb'; try discriminate. injection G as <-.
    apply (gf_lift _ g) in Gb'. rewrite Gb' in Gb. injection Gb as ->.
    intro n. symmetry. apply has_fd_map_set. }
  assert (Hdb : dom fcfg g F (c_fields ctx) b) by (exists lb; auto).
  pose proof (IHe ctx b st gl cs Hdb Hwf Hr Hs) as B.
  destruct (ev_expr ev ctx b st gl) as [[fs st'|e|p|] gl']; cbn [fst] in *.
  - destruct B as [w [m [cs' [lg [E1 [E2 [E3 [E4 [E5 E6]]]]]]]]]. rewrite E1.
    exists w, m, cs', lg. repeat split; auto. eapply RVe_names; eauto.
  - destruct B as [lg [E1 E2]]. rewrite E1.
    unfold filt, filtered_fields. rewrite Gb.
    destruct (defaults _) as [d|] eqn:D; cbn [fst corr].
    2:{ exfalso. revert D. apply defaults_some. intros fd Hin. apply filter_In in Hin. destruct Hin as [Hrf Hlb].
        apply has_fd_arity in Hlb. destruct Hlb as [a Ha]. destruct (Hopt _ _ Ha) as [a' [Ha' Ga']].
        unfold arity_of in Ha'. rewrite (find_fd_unique _ _ Hwf Hrf) in Ha'. injection Ha' as <-.
        intro E1'. rewrite E1' in Ga'. discriminate. }
    exists [], [], cs, lg. split; [rewrite record_error_off; reflexivity|].
    split; [reflexivity|]. split; [rewrite record_error_off; cbn; lia|].
    split; [rewrite record_error_rest; exact Hr|].
    split; [apply record_error_fl; auto|].
    exists l. split; [exact G|]. split; [|constructor].
    rewrite defaults_shape in D. rewrite <- D. f_equal. apply filter_ext. intro a. symmetry. apply HN.
  - panic_tac.
  - rewrite B. reflexivity.
Qed.

(* ---- lookaheads ------------------------------------------------------------ *)
Lemma RVe_nil ctx e : gfF e = GFOk [] -> RVe ctx e [] [].
Proof.
  intro G. exists []. split; [exact G|]. split; [|constructor].
  rewrite filter_none by reflexivity. reflexivity.
Qed.

Lemma expr_neg_ok ctx b st gl cs :
  dom fcfg g F (c_fields ctx) (ENeg b) -> wf_rf (c_fields ctx) ->
  rest st = encode_str cs -> all_scalar cs ->
  corr (RVe ctx (ENeg b)) (far st) cs (off st)
       (fst (expr_step ustate scfg tcfg fcfg rcfg g ev ctx (ENeg b) st gl))
       (sexpr_step g (insens_guard rcfg) sv (c_skip ctx) (ENeg b) cs (off st)).
Proof.
  intros Hd Hwf Hr Hs. cbn [expr_step sexpr_step].
  pose proof (dom_lookahead_neg _ g _ _ _ Hd) as Gb.
  assert (Hdb : dom fcfg g F (c_fields ctx) b) by (exists []; split; [exact Gb|apply sub_nil]).
  assert (G : gfF (ENeg b) = GFOk []).
  { destruct Hd as [l [G _]]. destruct gf_fuel_pos as [F' HF]. rewrite HF in *. cbn in G |- *.
    destruct (get_fields fcfg F' g b) as [[|x lb]| |]; try discriminate; reflexivity. }
  pose proof (IHe ctx b st gl cs Hdb Hwf Hr Hs) as B.
  destruct (ev_expr ev ctx b st gl) as [[fs st'|e|p|] gl']; cbn [fst] in *.
  - destruct B as [w [m [cs' [lg [E1 _]]]]]. rewrite E1. unfold fail_at. cbn [fst corr].
    eexists. split; [reflexivity|]. apply report_error_fl. exact Hle.
  - destruct B as [lg [E1 _]]. rewrite E1. cbn [corr].
    exists [], [], cs, []. repeat split; auto. apply RVe_nil; exact G.
  - panic_tac.
  - rewrite B. reflexivity.
Qed.

Lemma expr_pos_ok ctx b st gl cs :
  dom fcfg g F (c_fields ctx) (EPos b) -> wf_rf (c_fields ctx) ->
  rest st = encode_str cs -> all_scalar cs ->
  corr (RVe ctx (EPos b)) (far st) cs (off st)
       (fst (expr_step ustate scfg tcfg fcfg rcfg g ev ctx (EPos b) st gl))
       (sexpr_step g (insens_guard rcfg) sv (c_skip ctx) (EPos b) cs (off st)).
Proof.
  intros Hd Hwf Hr Hs. cbn [expr_step sexpr_step].
  pose proof (dom_lookahead_pos _ g _ _ _ Hd) as Gb.
  assert (Hdb : dom fcfg g F (c_fields ctx) b) by (exists []; split; [exact Gb|apply sub_nil]).
  assert (G : gfF (EPos b) = GFOk []).
  { destruct Hd as [l [G _]]. destruct gf_fuel_pos as [F' HF]. rewrite HF in *. cbn in G |- *.
    destruct (get_fields fcfg F' g b) as [[|x lb]| |]; try discriminate; reflexivity. }
  pose proof (IHe ctx b st gl cs Hdb Hwf Hr Hs) as B.
  destruct (ev_expr ev ctx b st gl) as [[fs st'|e|p|] gl']; cbn [fst] in *.
  - destruct B as [w [m [cs' [lg [E1 _]]]]]. rewrite E1. cbn [corr].
    exists [], [], cs, []. repeat split; auto. apply RVe_nil; exact G.
  - destruct B as [lg [E1 E2]]. rewrite E1. exists lg. auto.
  - panic_tac.
  - rewrite B. reflexivity.
Qed.


(* ---- ordered choice (ChoiceHelper) ------------------------------------------ *)
Lemma has_sub n a b x : sub a b -> arity_of n a = Some x -> has_fd n b = true.
Proof.
  intros S H. destruct (S n x H) as [y [Hy _]]. apply has_fd_arity. eauto.
Qed.

Lemma shape_fields_some fds evs fs fd :
  shape_fields fds evs = Some fs -> In fd fds -> exists v, field_value fd evs = Some v.
Proof.
  revert fs. induction fds as [|x fds IH]; intros fs H Hin; [destruct Hin|].
  cbn in H. destruct (field_value x evs) as [v|] eqn:V; [|discriminate].
  destruct (shape_fields fds evs) as [r|]; [|discriminate].
  destruct Hin as [->|Hin]; [eauto|]. eapply IH; eauto.
Qed.

Lemma shape_all_some fds evs : (forall fd, In fd fds -> field_value fd evs <> None) -> shape_fields fds evs <> None.
Proof.
  induction fds as [|fd r IH]; intro H; [discriminate|]. cbn.
  assert (H1 : field_value fd evs <> None) by (apply H; left; reflexivity).
  assert (H2 : shape_fields r evs <> None) by (apply IH; intros; apply H; right; assumption).
  destruct (field_value fd evs); [|congruence]. destruct (shape_fields r evs); [discriminate|congruence].
Qed.

Lemma ge_optional_not_one a : ge_arity a Optional = true -> a <> One.
Proof. destruct a; cbn; intros H E; discriminate. Qed.

Lemma choice_loop_ok ctx all_alts own fds :
  dom fcfg g F (c_fields ctx) (EChoice all_alts) -> wf_rf (c_fields ctx) ->
  gfF (EChoice all_alts) = GFOk own ->
  fds = filter (fun rf => has_fd (fd_name rf) own) (c_fields ctx) ->
  forall alts cst gl cs accl far0,
    (forall a, In a alts -> In a all_alts) ->
    rest cst = encode_str cs -> all_scalar cs -> far cst = fl far0 accl ->
    (alts = [] -> fl far0 accl <> None) ->
    corr (RVe ctx (EChoice all_alts)) far0 cs (off cst)
         (fst (choice_loop ustate scfg fcfg g ev ctx fds alts cst gl))
         (s_choice sv (c_skip ctx) alts cs (off cst) accl).
Proof.
  intros Hd Hwf Gown Hfds.
  destruct (dom_choice _ Hf g _ _ _ Hd) as [l [G [Sl [Hparts [Hmiss Hnames]]]]].
  rewrite Gown in G. injection G as <-.
  induction alts as [|a alts IH]; intros cst gl cs accl far0 Hin Hr Hs Hfar Hne.
  - cbn. exists accl. split; [reflexivity|].
    destruct (fl far0 accl) as [x|] eqn:E; [|exfalso; apply Hne; auto].
    rewrite (report_farthest_some cst x) by congruence. reflexivity.
  - cbn [choice_loop s_choice].
    destruct (Hparts a (Hin a (or_introl eq_refl))) as [la [Ga Sa]].
    assert (Hda : dom fcfg g F (c_fields ctx) a) by (exists la; split; [exact Ga|eapply sub_trans; eauto]).
    pose proof (IHe ctx a cst gl cs Hda Hwf Hr Hs) as B.
    destruct (ev_expr ev ctx a cst gl) as [[fs st'|e|p|] gl']; cbn [fst] in *.
    + destruct B as [evs [m [cs' [lg [E1 [E2 [E3 [E4 [E5 E6]]]]]]]]]. rewrite E1.
      unfold own_fields. rewrite Ga.
      destruct E6 as [own_a [Goa [Hsh Hev]]]. rewrite Ga in Goa. injection Goa as <-.
      assert (Hmine : forall fd, has_fd (fd_name fd) la = false -> mine (fd_name fd) evs = []).
      { intros fd HL. apply mine_none. eapply Forall_impl; [|exact Hev]. intros ev0 H0. cbn in H0.
        destruct (name_eqb (ev_field ev0) (fd_name fd)) eqn:E; [|reflexivity].
        apply name_eqb_eq in E. rewrite E in H0. congruence. }
      assert (CE : convert_arm fds la fs = shape_fields fds evs).
      { apply convert_arm_shape.
        intros fd Hfd. rewrite Hfds in Hfd. apply filter_In in Hfd. destruct Hfd as [Hfd_in Hfd_own].
        pose proof (find_fd_unique _ _ Hwf Hfd_in) as FU.
        destruct (has_fd (fd_name fd) la) eqn:HL.
        -- erewrite lookup_shape; [reflexivity|exact Hsh|].
           apply find_fd_filter_has; auto.
        -- rewrite field_value_mine, (Hmine fd HL).
           destruct (fd_arity fd); reflexivity. }
      destruct (convert_arm fds la fs) as [out|] eqn:CA; cbn [fst corr].
      2:{ exfalso. symmetry in CE. revert CE. apply shape_all_some.
          intros fd Hfd. rewrite Hfds in Hfd. apply filter_In in Hfd. destruct Hfd as [Hfd_in Hfd_own].
          pose proof (find_fd_unique _ _ Hwf Hfd_in) as FU.
          destruct (has_fd (fd_name fd) la) eqn:HL.
          - destruct (shape_fields_some _ _ _ fd Hsh) as [v0 Hv0]; [apply filter_In; split; assumption|]. congruence.
          - rewrite field_value_mine, (Hmine fd HL).
            apply has_fd_arity in Hfd_own. destruct Hfd_own as [ao Hao].
            assert (Hn : arity_of (fd_name fd) la = None) by (apply has_fd_false; exact HL).
            pose proof (Hmiss a la (fd_name fd) ao (Hin a (or_introl eq_refl)) Ga Hn Hao) as Go.
            destruct (Sl _ _ Hao) as [ar [Har Gr]]. unfold arity_of in Har. rewrite FU in Har. injection Har as <-.
            assert (N1 : fd_arity fd <> One) by (apply ge_optional_not_one; eapply ge_arity_trans; eauto).
            destruct (fd_arity fd); [congruence|discriminate|discriminate]. }
      exists evs, m, cs', (accl ++ lg). repeat split; auto.
      { rewrite fl_app, <- Hfar. exact E5. }
      exists own. split; [exact Gown|]. split.
      * rewrite <- Hfds. symmetry. exact CE.
      * eapply Forall_impl; [|exact Hev]. intros ev0 H0. cbn in H0.
        apply has_fd_arity in H0. destruct H0 as [x Hx]. eapply has_sub; eauto.
    + destruct B as [lg [E1 E2]]. rewrite E1.
      rewrite <- (record_error_off scfg cst e).
      apply IH.
      * intros a0 H0. apply Hin. right. exact H0.
      * rewrite record_error_rest. exact Hr.
      * exact Hs.
      * rewrite fl_app, <- Hfar. apply record_error_fl; auto.
      * intros _. rewrite fl_app, <- Hfar, <- E2. discriminate.
    + panic_tac.
    + rewrite B. reflexivity.
Qed.


(* ---- sequence ------------------------------------------------------------------ *)
Definition ownl (p : expr) : list fdesc := match gfF p with GFOk l => l | _ => [] end.

Lemma has_fd_app n a b : has_fd n (a ++ b) = has_fd n a || has_fd n b.
Proof. unfold has_fd. rewrite find_fd_app. destruct (find_fd n a); reflexivity. Qed.

Lemma has_fd_flat_map n ps :
  has_fd n (flat_map ownl ps) = true -> exists p, In p ps /\ has_fd n (ownl p) = true.
Proof.
  induction ps as [|p ps IH]; cbn; [discriminate|].
  rewrite has_fd_app. intro H. apply orb_true_iff in H. destruct H as [H|H].
  - exists p. auto.
  - destruct (IH H) as [q [Hq1 Hq2]]. exists q. auto.
Qed.

Lemma has_fd_flat_map_in n ps p : In p ps -> has_fd n (ownl p) = true -> has_fd n (flat_map ownl ps) = true.
Proof.
  induction ps as [|q ps IH]; intros Hin H; [destruct Hin|]. cbn. rewrite has_fd_app.
  destruct Hin as [->|Hin]; [rewrite H; reflexivity|]. rewrite (IH Hin H). apply orb_true_r.
Qed.

Definition seq_inv (rf seen : list fdesc) (acc : fields) (evs : list event) : Prop :=
  (forall n, has_fd n seen = true ->
     exists fd, find_fd n rf = Some fd /\ lookup n acc = field_value fd evs /\ lookup n acc <> None) /\
  (forall n, has_fd n seen = false -> lookup n acc = None /\ no_events n evs).


Lemma no_events_of_own n own evs :
  Forall (fun ev => has_fd (ev_field ev) own = true) evs -> has_fd n own = false -> no_events n evs.
Proof.
  intros H Hn. eapply Forall_impl; [|exact H]. intros ev0 H0. cbn in H0.
  destruct (name_eqb (ev_field ev0) n) eqn:E; [|reflexivity].
  apply name_eqb_eq in E. rewrite E in H0. congruence.
Qed.

Lemma seq_merge_vals_some new : forall acc,
  NoDup (map fst new) ->
  (forall n v, In (n, v) new ->
     match lookup n acc with
     | None => True
     | Some (VList _) => exists b, v = VList b
     | Some _ => False
     end) ->
  seq_merge_vals acc new <> None.
Proof.
  induction new as [|[n v] new IH]; intros acc ND H; [discriminate|]. cbn [seq_merge_vals].
  cbn in ND. inversion ND as [|? ? Hn ND']; subst.
  pose proof (H n v (or_introl eq_refl)) as H0.
  assert (Hother : forall acc', (forall k, k <> n -> lookup k acc' = lookup k acc) ->
            forall k w, In (k, w) new ->
              match lookup k acc' with None => True | Some (VList _) => exists b, w = VList b | Some _ => False end).
  { intros acc' Hk k w Hin. rewrite Hk; [apply H; right; exact Hin|].
    intro E. subst k. apply Hn. change n with (fst (n, w)). apply in_map. exact Hin. }
  destruct (lookup n acc) as [x|] eqn:L.
  - destruct x; try contradiction. destruct H0 as [b ->].
    apply IH; [exact ND'|]. apply Hother. intros k Hk. apply lookup_update_other. congruence.
  - apply IH; [exact ND'|]. apply Hother. intros k Hk. rewrite lookup_app.
    destruct (lookup k acc); [reflexivity|]. cbn. destruct (name_eqb k n) eqn:E; [|reflexivity].
    apply name_eqb_eq in E. congruence.
Qed.

Lemma shape_fields_in fds evs fs n v :
  shape_fields fds evs = Some fs -> In (n, v) fs -> exists fd, In fd fds /\ fd_name fd = n /\ field_value fd evs = Some v.
Proof.
  revert fs. induction fds as [|fd fds IH]; intros fs H Hin; cbn in H.
  - injection H as <-. destruct Hin.
  - destruct (field_value fd evs) as [w|] eqn:V; [|discriminate].
    destruct (shape_fields fds evs) as [r|] eqn:R; [|discriminate]. injection H as <-.
    destruct Hin as [E|Hin].
    + injection E as <- <-. exists fd. split; [left; reflexivity|]. split; [reflexivity|exact V].
    + destruct (IH r eq_refl Hin) as [fd' [A [B C]]]. exists fd'. split; [right; exact A|]. split; assumption.
Qed.

Lemma seq_loop_ok ctx all_parts own fds :
  dom fcfg g F (c_fields ctx) (ESeq all_parts) -> wf_rf (c_fields ctx) ->
  gfF (ESeq all_parts) = GFOk own ->
  fds = filter (fun rf => has_fd (fd_name rf) own) (c_fields ctx) ->
  forall parts done st acc gl cs evs accl far0,
    all_parts = done ++ parts ->
    seq_inv (c_fields ctx) (flat_map ownl done) acc evs ->
    Forall (fun ev => has_fd (ev_field ev) own = true) evs ->
    rest st = encode_str cs -> all_scalar cs -> far st = fl far0 accl ->
    corr (RVe ctx (ESeq all_parts)) far0 cs (off st)
         (fst (seq_loop ustate ev ctx fds parts st acc gl))
         (s_seq sv (c_skip ctx) parts cs (off st) evs accl).
Proof.
  intros Hd Hwf Gown Hfds.
  destruct (dom_seq _ Hf g _ _ _ Hd) as [l [G [Sl [Hparts [Hdup Hnames]]]]].
  rewrite Gown in G. injection G as <-.
  induction parts as [|p ps IH]; intros done st acc gl cs evs accl far0 Hall Hinv Hevs Hr Hs Hfar.
  - cbn [seq_loop s_seq]. rewrite app_nil_r in Hall. subst done.
    assert (Hfdv : forall fd, In fd fds -> lookup (fd_name fd) acc = field_value fd evs /\ lookup (fd_name fd) acc <> None).
    { intros fd Hfd. rewrite Hfds in Hfd. apply filter_In in Hfd. destruct Hfd as [Hfd_in Hfd_own].
      destruct (Hnames _ Hfd_own) as [p [lp [Hp [Gp Hlp]]]].
      destruct Hinv as [Hseen _].
      destruct (Hseen (fd_name fd)) as [fd' [F1 [F2 F3]]].
      { eapply has_fd_flat_map_in; eauto. unfold ownl. rewrite Gp. exact Hlp. }
      rewrite (find_fd_unique _ _ Hwf Hfd_in) in F1. injection F1 as <-. split; [exact F2|exact F3]. }
    assert (OE : order_as fds acc = shape_fields fds evs).
    { apply order_as_shape. intros fd Hfd. apply (Hfdv fd Hfd). }
    destruct (order_as fds acc) as [out|] eqn:OA; cbn [fst corr].
    2:{ exfalso. symmetry in OE. revert OE. apply shape_all_some. intros fd Hfd.
        destruct (Hfdv fd Hfd) as [A B]. rewrite <- A. exact B. }
    exists evs, [], cs, accl. split; [reflexivity|]. split; [reflexivity|].
    split; [cbn; lia|]. split; [exact Hr|]. split; [exact Hfar|].
    exists own. split; [exact Gown|]. split; [|exact Hevs].
    rewrite <- Hfds. symmetry. exact OE.
  - cbn [seq_loop s_seq].
    assert (Hp_in : In p all_parts) by (rewrite Hall; apply in_or_app; right; left; reflexivity).
    destruct (Hparts p Hp_in) as [lp [Gp Sp]].
    assert (Hdp : dom fcfg g F (c_fields ctx) p) by (exists lp; split; [exact Gp|eapply sub_trans; eauto]).
    pose proof (IHe ctx p st gl cs Hdp Hwf Hr Hs) as B.
    destruct (ev_expr ev ctx p st gl) as [[fs st'|e|pp|] gl']; cbn [fst] in *.
    + destruct B as [e1 [m [cs' [lg [E1 [E2 [E3 [E4 [E5 E6]]]]]]]]]. rewrite E1.
      destruct E6 as [own_p [Gop [Hsh Hev1]]]. rewrite Gp in Gop. injection Gop as <-.
      assert (ND : NoDup (map fst fs)).
      { rewrite (shape_fields_names _ _ _ Hsh). apply wf_rf_filter. exact Hwf. }
      (* a field of this part that an earlier part produced is Multiple at rule level *)
      assert (HMult : forall n fd, has_fd n lp = true -> has_fd n (flat_map ownl done) = true ->
                        find_fd n (c_fields ctx) = Some fd -> fd_arity fd = Multiple).
      { intros n fd Hlp Hsn Ffd.
        apply has_fd_arity in Hlp. destruct Hlp as [ap Hap].
        destruct (has_fd_flat_map _ _ Hsn) as [p0 [Hp0 Hp0n]].
        unfold ownl in Hp0n. destruct (gfF p0) as [lp0| |] eqn:Gp0; try discriminate.
        apply has_fd_arity in Hp0n. destruct Hp0n as [a0 Ha0].
        apply in_split in Hp0. destruct Hp0 as [l1 [l2 Hdone]].
        assert (HM : arity_of n own = Some Multiple).
        { eapply (Hdup l1 p0 l2 p ps lp0 lp n a0 ap); eauto.
          rewrite Hall, Hdone, <- app_assoc. reflexivity. }
        destruct (Sl _ _ HM) as [ar [Har Gar]]. apply ge_multiple in Gar. subst ar.
        unfold arity_of in Har. rewrite Ffd in Har. injection Har as HfdM. exact HfdM. }
      destruct (seq_merge_vals acc fs) as [acc'|] eqn:SM; cbn [fst corr].
      2:{ exfalso. revert SM. apply seq_merge_vals_some; [exact ND|].
          intros n v Hin. destruct (shape_fields_in _ _ _ n v Hsh Hin) as [fd [Hfd [Hn Hv]]].
          apply filter_In in Hfd. destruct Hfd as [Hfd_in Hfd_lp]. subst n.
          pose proof (find_fd_unique _ _ Hwf Hfd_in) as FU.
          destruct Hinv as [Hseen Hunseen].
          destruct (has_fd (fd_name fd) (flat_map ownl done)) eqn:Hsn.
          - destruct (Hseen _ Hsn) as [fd2 [F1 [F2 F3]]]. rewrite FU in F1. injection F1 as <-.
            pose proof (HMult _ fd Hfd_lp Hsn FU) as HfdM.
            rewrite F2, (field_value_multiple fd evs HfdM).
            rewrite (field_value_multiple fd e1 HfdM) in Hv. injection Hv as <-. eexists. reflexivity.
          - destruct (Hunseen _ Hsn) as [U1 _]. rewrite U1. exact I. }
      assert (Hs' : all_scalar cs') by (rewrite E2 in Hs; eapply all_scalar_suffix; eauto).
      pose proof (seq_merge_vals_lookup fs acc acc' ND SM) as LK.
      assert (Hinv' : seq_inv (c_fields ctx) (flat_map ownl (done ++ [p])) acc' (evs ++ e1)).
      { rewrite flat_map_app. cbn [flat_map]. rewrite app_nil_r. unfold ownl at 2. rewrite Gp.
        destruct Hinv as [Hseen Hunseen]. split.
        - intros n Hn. rewrite has_fd_app in Hn. rewrite (LK n).
          destruct (has_fd n lp) eqn:Hlp.
          + (* n is produced by this part *)
            apply has_fd_arity in Hlp. destruct Hlp as [ap Hap].
            assert (Hrf : has_fd n (c_fields ctx) = true).
            { destruct (Sp _ _ Hap) as [y [Hy _]]. eapply has_sub; [exact Sl|exact Hy]. }
            unfold has_fd in Hrf. destruct (find_fd n (c_fields ctx)) as [fd|] eqn:Ffd; [|discriminate].
            exists fd. split; [reflexivity|].
            assert (Hlp' : has_fd n lp = true) by (apply has_fd_arity; eauto).
            pose proof (find_fd_filter_has n lp _ fd Ffd Hlp') as FF.
            rewrite (lookup_shape _ _ _ n fd Hsh FF).
            destruct (shape_fields_some _ _ _ fd Hsh (find_fd_in _ _ _ FF)) as [v Hv]. rewrite Hv.
            destruct (has_fd n (flat_map ownl done)) eqn:Hsn.
            * (* seen before: Multiple *)
              destruct (Hseen n Hsn) as [fd2 [F1 [F2 F3]]]. rewrite Ffd in F1. injection F1 as <-.
              destruct (has_fd_flat_map _ _ Hsn) as [p0 [Hp0 Hp0n]].
              unfold ownl in Hp0n. destruct (gfF p0) as [lp0| |] eqn:Gp0; try discriminate.
              apply has_fd_arity in Hp0n. destruct Hp0n as [a0 Ha0].
              apply in_split in Hp0. destruct Hp0 as [l1 [l2 Hdone]].
              assert (HM : arity_of n own = Some Multiple).
              { eapply (Hdup l1 p0 l2 p ps lp0 lp n a0 ap); eauto.
                rewrite Hall, Hdone, <- app_assoc. reflexivity. }
              destruct (Sl _ _ HM) as [ar [Har Gar]]. apply ge_multiple in Gar. subst ar.
              unfold arity_of in Har. rewrite Ffd in Har. injection Har as HfdM.
              rewrite F2. rewrite (field_value_multiple fd evs HfdM).
              rewrite (field_value_multiple fd e1 HfdM) in Hv. injection Hv as <-.
              split; [|discriminate].
              rewrite (field_value_multiple fd (evs ++ e1) HfdM), mine_app, map_app. reflexivity.
            * destruct (Hunseen n Hsn) as [U1 U2]. rewrite U1.
              split; [|discriminate]. rewrite field_value_app_r by (rewrite (find_fd_name _ _ _ Ffd); exact U2).
              exact (eq_sym Hv).
          + (* not produced by this part *)
            rewrite orb_false_r in Hn.
            rewrite (lookup_shape_none _ _ _ n Hsh (find_fd_filter_not n lp _ Hlp)).
            destruct (Hseen n Hn) as [fd [F1 [F2 F3]]].
            exists fd. split; [exact F1|]. split; [|exact F3].
            rewrite F2. symmetry. apply field_value_app_l.
            rewrite (find_fd_name _ _ _ F1). eapply no_events_of_own; eauto.
        - intros n Hn. rewrite has_fd_app in Hn. apply orb_false_iff in Hn. destruct Hn as [Hn1 Hn2].
          destruct (Hunseen n Hn1) as [U1 U2]. rewrite (LK n).
          rewrite (lookup_shape_none _ _ _ n Hsh (find_fd_filter_not n lp _ Hn2)).
          split; [exact U1|]. apply no_events_app. split; [exact U2|eapply no_events_of_own; eauto]. }
      assert (Hevs' : Forall (fun ev => has_fd (ev_field ev) own = true) (evs ++ e1)).
      { apply Forall_app. split; [exact Hevs|]. eapply Forall_impl; [|exact Hev1].
        intros ev0 H0. cbn in H0. apply has_fd_arity in H0. destruct H0 as [x Hx]. eapply has_sub; eauto. }
      assert (Hfar' : far st' = fl far0 (accl ++ lg)) by (rewrite fl_app, <- Hfar; exact E5).
      assert (Hall' : all_parts = (done ++ [p]) ++ ps) by (rewrite <- app_assoc; exact Hall).
      pose proof (IH (done ++ [p]) st' acc' gl' cs' (evs ++ e1) (accl ++ lg) far0 Hall' Hinv' Hevs' E4 Hs' Hfar') as R.
      destruct (seq_loop ustate ev ctx fds ps st' acc' gl') as [[v2 st2|e2|p2|] gl2]; cbn [fst] in *.
      * destruct R as [w2 [m2 [cs2 [l2 [R1 [R2 [R3 [R4 [R5 R6]]]]]]]]]. rewrite R1.
        exists w2, (m ++ m2), cs2, l2. split; [reflexivity|].
        split; [rewrite E2, R2, app_assoc; reflexivity|].
        split; [rewrite R3, E3, blen_app; lia|]. auto.
      * exact R.
      * panic_tac.
      * exact R.
    + destruct B as [lg [E1 E2]]. rewrite E1. exists (accl ++ lg). split; [reflexivity|].
      rewrite fl_app, <- Hfar. exact E2.
    + panic_tac.
    + rewrite B. reflexivity.
Qed.


(* ---- closure -------------------------------------------------------------------- *)
Definition RVl (fds own : list fdesc) (fs : fields) (evs : list event) : Prop :=
  fs = clo_acc fds evs /\ Forall (fun ev => has_fd (ev_field ev) own = true) evs.

Definition loop_inv (lev : loop_eval ustate) (lsv : sloop_eval) : Prop :=
  forall ctx b plus st iters gl cs evs accl far0 own fds,
    dom fcfg g F (c_fields ctx) b -> wf_rf (c_fields ctx) ->
    gfF b = GFOk own -> fds = filter (fun rf => has_fd (fd_name rf) own) (c_fields ctx) ->
    Forall (fun fd => fd_arity fd = Multiple) fds ->
    Forall (fun ev => has_fd (ev_field ev) own = true) evs ->
    rest st = encode_str cs -> all_scalar cs -> far st = fl far0 accl ->
    corr (RVl fds own) far0 cs (off st)
         (fst (lev ctx b plus st iters (clo_acc fds evs) gl))
         (lsv (c_skip ctx) b plus cs (off st) iters evs accl).

Hypothesis IHl : loop_inv (ev_loop ev) (sv_loop sv).

Lemma closure_fds_multiple ctx b plus lb :
  dom fcfg g F (c_fields ctx) (EClosure b plus) -> wf_rf (c_fields ctx) -> gfF b = GFOk lb ->
  Forall (fun fd => fd_arity fd = Multiple) (filter (fun rf => has_fd (fd_name rf) lb) (c_fields ctx)).
Proof.
  intros Hd Hwf Gb. destruct (dom_closure _ Hf g _ _ _ _ Hd) as [lb' [Gb' [_ HM]]].
  rewrite Gb in Gb'. injection Gb' as <-.
  apply Forall_forall. intros fd Hfd. apply filter_In in Hfd. destruct Hfd as [Hin Hown].
  apply has_fd_arity in Hown. destruct Hown as [a Ha].
  pose proof (HM _ _ Ha) as HMn. unfold arity_of in HMn.
  rewrite (find_fd_unique _ _ Hwf Hin) in HMn. injection HMn as ->. reflexivity.
Qed.

Lemma expr_closure_ok ctx b plus st gl cs :
  dom fcfg g F (c_fields ctx) (EClosure b plus) -> wf_rf (c_fields ctx) ->
  rest st = encode_str cs -> all_scalar cs ->
  corr (RVe ctx (EClosure b plus)) (far st) cs (off st)
       (fst (expr_step ustate scfg tcfg fcfg rcfg g ev ctx (EClosure b plus) st gl))
       (sexpr_step g (insens_guard rcfg) sv (c_skip ctx) (EClosure b plus) cs (off st)).
Proof.
  intros Hd Hwf Hr Hs. cbn [expr_step sexpr_step].
  destruct (dom_closure _ Hf g _ _ _ _ Hd) as [lb [Gb [Sb _]]].
  pose proof (closure_fds_multiple ctx b plus lb Hd Hwf Gb) as HM.
  destruct Hd as [l [G Sl]].
  assert (HN : names_eq lb l).
  { destruct gf_fuel_pos as [F' HF]. rewrite HF in G, Gb. cbn in G.
    destruct (get_fields fcfg F' g b) as [lb'| |] eqn:Gb'; try discriminate. injection G as <-.
    apply (gf_lift _ g) in Gb'. rewrite Gb' in Gb. injection Gb as ->.
    intro n. symmetry. apply has_fd_map_set. }
  unfold filt, filtered_fields. rewrite Gb. rewrite <- clo_acc_nil.
  assert (Hdb : dom fcfg g F (c_fields ctx) b) by (exists lb; auto).
  pose proof (IHl ctx b plus st 0 gl cs [] [] (far st) lb _ Hdb Hwf Gb eq_refl HM (Forall_nil _) Hr Hs eq_refl) as L.
  eapply corr_weaken; [|exact L].
  intros fs evs [-> Hev]. exists l. split; [exact G|]. split.
  - erewrite filter_ext; [apply shape_fields_clo; exact HM|]. intro a. symmetry. apply HN.
  - eapply Forall_impl; [|exact Hev]. intros ev0 H0. cbn in H0. rewrite <- HN. exact H0.
Qed.

Lemma corr_shift {A B} (RV : A -> B -> Prop) far0 cs cs1 m1 o (mr : mres A) (sr : sres B) :
  cs = m1 ++ cs1 -> corr RV far0 cs1 (o + blen m1) mr sr -> corr RV far0 cs o mr sr.
Proof.
  intros E H. destruct mr; cbn in *; auto.
  destruct H as [w [m [cs' [l [H1 [H2 [H3 [H4 [H5 H6]]]]]]]]].
  exists w, (m1 ++ m), cs', l. split; [exact H1|]. split; [rewrite E, H2, app_assoc; reflexivity|].
  split; [rewrite H3, blen_app; lia|]. auto.
Qed.

Lemma loop_step_ok : loop_inv (loop_step ustate scfg ev) (sloop_step sv).
Proof.
  intros ctx b plus st iters gl cs evs accl far0 own fds Hdb Hwf Gb Hfds HM Hevs Hr Hs Hfar.
  unfold loop_step, sloop_step.
  pose proof (IHe ctx b st gl cs Hdb Hwf Hr Hs) as B.
  destruct (ev_expr ev ctx b st gl) as [[fs st'|e|p|] gl']; cbn [fst] in *.
  - destruct B as [e1 [m [cs' [lg [E1 [E2 [E3 [E4 [E5 E6]]]]]]]]]. rewrite E1.
    destruct E6 as [own' [Gb' [Hsh Hev1]]]. rewrite Gb in Gb'. injection Gb' as <-.
    rewrite <- Hfds in Hsh.
    assert (EX : extend_all (clo_acc fds evs) fs = Some (clo_acc fds (evs ++ e1))).
    { apply (extend_all_clo fds fds evs e1 fs); auto.
      intros fd Hfd. apply find_fd_unique; [|exact Hfd]. rewrite Hfds. apply wf_rf_filter. exact Hwf. }
    rewrite EX.
    assert (Hs' : all_scalar cs') by (rewrite E2 in Hs; eapply all_scalar_suffix; eauto).
    assert (Hevs' : Forall (fun ev => has_fd (ev_field ev) own = true) (evs ++ e1))
      by (apply Forall_app; auto).
    assert (Hfar' : far st' = fl far0 (accl ++ lg)) by (rewrite fl_app, <- Hfar; exact E5).
    pose proof (IHl ctx b plus st' (S iters) gl' cs' (evs ++ e1) (accl ++ lg) far0 own fds
                    Hdb Hwf Gb Hfds HM Hevs' E4 Hs' Hfar') as R.
    eapply corr_shift; [exact E2|]. rewrite <- E3. exact R.
  - destruct B as [lg [E1 E2]]. rewrite E1.
    assert (Hfar2 : far (record_error scfg st e) = fl far0 (accl ++ lg)).
    { rewrite fl_app, <- Hfar. apply record_error_fl; auto. }
    destruct (plus && Nat.eqb iters 0); cbn [fst corr].
    + exists (accl ++ lg). split; [reflexivity|].
      rewrite <- Hfar2. destruct (far (record_error scfg st e)) as [x|] eqn:FE.
      * rewrite (report_farthest_some _ x FE). reflexivity.
      * exfalso. rewrite fl_app, <- Hfar, <- E2 in Hfar2. discriminate.
    + exists evs, [], cs, (accl ++ lg). split; [rewrite record_error_off; reflexivity|].
      split; [reflexivity|]. split; [rewrite record_error_off; cbn; lia|].
      split; [rewrite record_error_rest; exact Hr|]. split; [exact Hfar2|].
      split; [reflexivity|exact Hevs].
  - panic_tac.
  - rewrite B. reflexivity.
Qed.


(* ---- all expression forms --------------------------------------------------------- *)
Lemma names_eq_of_iff a b : (forall n, has_fd n a = true <-> has_fd n b = true) -> names_eq a b.
Proof.
  intros H n. destruct (has_fd n a) eqn:A, (has_fd n b) eqn:B; auto.
  - apply H in A. congruence.
  - apply H in B. congruence.
Qed.

Theorem expr_step_ok ctx e st gl cs :
  dom fcfg g F (c_fields ctx) e -> wf_rf (c_fields ctx) ->
  rest st = encode_str cs -> all_scalar cs ->
  corr (RVe ctx e) (far st) cs (off st)
       (fst (expr_step ustate scfg tcfg fcfg rcfg g ev ctx e st gl))
       (sexpr_step g (insens_guard rcfg) sv (c_skip ctx) e cs (off st)).
Proof.
  intros Hd Hwf Hr Hs. destruct e.
  - (* choice *)
    destruct alts as [|a [|a2 rest]].
    + cbn. panic_tac.
    + cbn [expr_step sexpr_step].
      destruct (dom_choice _ Hf g _ _ _ Hd) as [l [G [Sl [Hparts [_ Hnames]]]]].
      destruct (Hparts a (or_introl eq_refl)) as [la [Ga Sa]].
      assert (Hda : dom fcfg g F (c_fields ctx) a) by (exists la; split; [exact Ga|eapply sub_trans; eauto]).
      eapply corr_RVe_transfer; [exact Ga|exact G| |apply IHe; auto].
      apply names_eq_of_iff. intro n. split; intro H.
      * apply has_fd_arity in H. destruct H as [x Hx]. eapply has_sub; eauto.
      * destruct (Hnames n H) as [p [lp [[<-|[]] [Gp Hp]]]]. rewrite Ga in Gp. injection Gp as <-. exact Hp.
    + assert (Hd' := Hd). destruct Hd' as [own [G _]].
      cbn [expr_step sexpr_step]. unfold filt, filtered_fields. rewrite G.
      eapply choice_loop_ok; eauto. discriminate.
  - (* sequence *)
    destruct parts as [|p [|p2 rest]].
    + cbn [expr_step sexpr_step fst corr]. exists [], [], cs, []. repeat split; auto.
      apply RVe_nil. destruct gf_fuel_pos as [F' ->]. reflexivity.
    + cbn [expr_step sexpr_step].
      destruct (dom_seq _ Hf g _ _ _ Hd) as [l [G [Sl [Hparts [_ Hnames]]]]].
      destruct (Hparts p (or_introl eq_refl)) as [lp [Gp Sp]].
      assert (Hdp : dom fcfg g F (c_fields ctx) p) by (exists lp; split; [exact Gp|eapply sub_trans; eauto]).
      eapply corr_RVe_transfer; [exact Gp|exact G| |apply IHe; auto].
      apply names_eq_of_iff. intro n. split; intro H.
      * apply has_fd_arity in H. destruct H as [x Hx]. eapply has_sub; eauto.
      * destruct (Hnames n H) as [q [lq [[<-|[]] [Gq Hq]]]]. rewrite Gp in Gq. injection Gq as <-. exact Hq.
    + assert (Hd' := Hd). destruct Hd' as [own [G _]].
      cbn [expr_step sexpr_step]. unfold filt, filtered_fields. rewrite G.
      eapply (seq_loop_ok ctx _ own _ Hd Hwf G eq_refl _ [] st [] gl cs [] [] (far st)); auto.
      split.
      * intros n Hn. cbn in Hn. discriminate.
      * intros n _. split; [reflexivity|constructor].
  - apply expr_group_ok; auto.
  - apply expr_optional_ok; auto.
  - apply expr_closure_ok; auto.
  - apply expr_neg_ok; auto.
  - apply expr_pos_ok; auto.
  - apply expr_range_ok; auto.
  - apply expr_lit_ok; auto.
  - apply expr_eoi_ok; auto.
  - apply expr_include_ok; auto.
  - apply expr_field_ok; auto.
Qed.


(* ---- rules ---------------------------------------------------------------------------- *)
Lemma run_checks_ok cks v st' : forall gl,
  match fst (run_checks ustate scfg hk cks v st' gl) with
  | MOk v' st'' => v' = v /\ st'' = st' /\ s_checks shk cks v (off st') = None
  | MErr e => exists e0, s_checks shk cks v (off st') = Some e0 /\ Some e = fl (far st') [e0]
  | _ => False
  end.
Proof.
  induction cks as [|f cks IH]; intro gl; cbn [run_checks s_checks].
  - cbn. auto.
  - pose proof (Hpure_check f v (g_user gl)) as P.
    destruct (h_check hk f v (g_user gl)) as [ok u]. cbn in P. subst ok.
    destruct (sh_check shk f v).
    + apply IH.
    + unfold fail_at. cbn [fst]. eexists. split; [reflexivity|]. apply report_error_fl. exact Hle.
Qed.

Lemma filter_self rf : filter (fun r => has_fd (fd_name r) rf) rf = rf.
Proof.
  assert (G : forall l, (forall x, In x l -> has_fd (fd_name x) rf = true) ->
                        filter (fun r => has_fd (fd_name r) rf) l = l).
  { induction l as [|x l IH]; intro H; [reflexivity|]. cbn. rewrite (H x (or_introl eq_refl)).
    f_equal. apply IH. intros; apply H; right; auto. }
  apply G. intros x Hx. unfold has_fd.
  assert (K : forall l, In x l -> find_fd (fd_name x) l <> None).
  { induction l as [|y l IH]; intros Hin; [destruct Hin|]. cbn.
    destruct (name_eqb (fd_name y) (fd_name x)) eqn:E; [discriminate|].
    destruct Hin as [->|Hin]; [rewrite name_eqb_refl in E; discriminate|auto]. }
  destruct (find_fd (fd_name x) rf) eqn:E; [reflexivity|]. exfalso. eapply K; eauto.
Qed.

Lemma slice_eq st st' cs m cs' :
  rest st = encode_str cs -> cs = m ++ cs' -> off st' = off st + blen m ->
  slice_until st st' = encode_str (firstn (length cs - length cs') cs).
Proof.
  intros Hr E Ho. unfold slice_until. rewrite Hr, Ho, E.
  replace (off st + blen m - off st) with (length (encode_str m)) by (unfold blen, Spec.blen; lia).
  rewrite encode_str_app, firstn_app, Nat.sub_diag, firstn_all. cbn. rewrite app_nil_r.
  rewrite app_length. replace (length m + length cs' - length cs') with (length m) by lia.
  rewrite firstn_app, Nat.sub_diag, firstn_all. cbn. rewrite app_nil_r. reflexivity.
Qed.

Lemma rule_body_ok r st gl cs :
  rest st = encode_str cs -> all_scalar cs ->
  corr eq (far st) cs (off st)
       (fst (rule_body ustate scfg fcfg hk g ev r st gl))
       (match sv_expr sv (negb (fl_no_skip_ws (flags_of (r_directives r)))) (r_def r) cs (off st) with
        | SOk evs cs' o' l =>
          match shape fcfg g r (firstn (length cs - length cs') cs) (off st, o') evs with
          | Some v =>
            match s_checks shk (checks_of (r_directives r)) v o' with
            | None => SOk v cs' o' l
            | Some e => SFail (l ++ [e])
            end
          | None => SStuck
          end
        | SFail l => SFail l
        | SStuck => SStuck
        | SFuel => SFuel
        end).
Proof.
  intros Hr Hs. unfold rule_body.
  destruct (get_fields fcfg (gf_fuel g) g (r_def r)) as [rf| |] eqn:G; cbn [fst corr]; try panic_tac.
  set (ctx := {| c_skip := negb (fl_no_skip_ws (flags_of (r_directives r))); c_fields := rf |}).
  assert (Hd : dom fcfg g F (c_fields ctx) (r_def r)) by (exists rf; split; [exact G|apply sub_refl]).
  assert (Hwf : wf_rf (c_fields ctx)) by (eapply gf_nodup; eauto).
  pose proof (IHe ctx (r_def r) st gl cs Hd Hwf Hr Hs) as B. cbn [c_skip ctx] in B.
  destruct (ev_expr ev ctx (r_def r) st gl) as [[fs st'|e|p|] gl']; cbn [fst] in *.
  - destruct B as [evs [m [cs' [lg [E1 [E2 [E3 [E4 [E5 E6]]]]]]]]]. rewrite E1.
    destruct E6 as [own [Go [Hsh _]]]. cbn [c_fields ctx] in Go, Hsh. rewrite G in Go. injection Go as <-.
    rewrite filter_self in Hsh.
    (* the two values coincide *)
    match goal with |- context [match ?X with Some v => run_checks _ _ _ _ v _ _ | None => _ end] =>
      set (OV := X) end.
    assert (EQ : OV = shape fcfg g r (firstn (length cs - length cs') cs) (off st, off st') evs).
    { unfold OV, shape. change (gf_fuel_s g) with (gf_fuel g). rewrite G.
      rewrite (slice_eq st st' cs m cs' Hr E2 E3). unfold range_until.
      destruct (fl_string (flags_of (r_directives r))); [reflexivity|].
      destruct rf as [|fd [|fd2 rf']]; try (rewrite Hsh; reflexivity).
      destruct (name_eqb (fd_name fd) n_override) eqn:EO; [|rewrite Hsh; reflexivity].
      cbn [shape_fields] in Hsh. destruct (field_value fd evs) as [v|]; [|discriminate]. injection Hsh as <-.
      cbn [lookup]. rewrite name_eqb_sym, EO. reflexivity. }
    assert (ON : OV <> None).
    { unfold OV. destruct (fl_string (flags_of (r_directives r))); [discriminate|].
      destruct rf as [|fd [|fd2 rf']]; try discriminate.
      destruct (name_eqb (fd_name fd) n_override) eqn:EO; [|discriminate].
      cbn [shape_fields] in Hsh. destruct (field_value fd evs) as [v|]; [|discriminate]. injection Hsh as <-.
      cbn [lookup]. rewrite name_eqb_sym, EO. discriminate. }
    rewrite <- EQ. clearbody OV. destruct OV as [v|]; cbn [fst corr]; [|congruence].
    pose proof (run_checks_ok (checks_of (r_directives r)) v st' gl') as C.
    destruct (run_checks ustate scfg hk (checks_of (r_directives r)) v st' gl') as [[v2 st2|e2|p2|] gl2];
      cbn [fst] in *.
    + destruct C as [-> [-> C]]. rewrite C. exists v, m, cs', lg. repeat split; auto.
    + destruct C as [e0 [C1 C2]]. rewrite C1. exists (lg ++ [e0]). split; [reflexivity|].
      rewrite fl_app, <- E5. exact C2.
    + destruct C.
    + destruct C.
  - destruct B as [lg [E1 E2]]. rewrite E1. exists lg. auto.
  - panic_tac.
  - rewrite B. reflexivity.
Qed.


(* ---- @char rules ------------------------------------------------------------------------ *)
Lemma char_parts_ok nm ps st cs :
  rest st = encode_str cs -> all_scalar cs -> forall gl,
  corr eq (far st) cs (off st) (fst (char_parts ustate scfg tcfg ev nm ps st gl))
       (match s_char_parts sv ps cs (off st) with
        | SFail _ => SFail [ {| e_pos := off st; e_spec := ExpectedCharacterClass nm |} ]
        | other => other
        end).
Proof.
  intros Hr Hs. induction ps as [|pt ps IH]; intro gl.
  - cbn. eexists. split; [reflexivity|]. apply report_error_fl. exact Hle.
  - destruct pt as [i|a b|n]; cbn [char_parts s_char_parts].
    + destruct (decode_item i) as [c| |] eqn:D; cbn [fst corr]; try panic_tac.
      pose proof (parse_character_literal_ok scfg st cs c Hr Hs (decode_item_scalar _ _ D)) as T.
      unfold term_ok in T. fold tcfg in T. destruct (term_match (TmChar c) cs) as [m|] eqn:TM.
      * rewrite T. cbn [fst corr]. exists (VChar c), m, (skipn (length m) cs), [].
        split; [reflexivity|]. split; [apply term_match_prefix in TM; exact TM|]. repeat split; auto.
      * rewrite T. apply IH.
    + destruct (compile_range a b) as [x y| |] eqn:C; cbn [fst corr]; try panic_tac.
      destruct (compile_range_ok _ _ _ _ C) as [Hx Hy].
      pose proof (parse_character_range_ok scfg st cs x y Hr Hs Hx Hy) as T.
      unfold term_ok in T. fold tcfg in T. destruct (term_match (TmRange x y) cs) as [m|] eqn:TM.
      * rewrite T. cbn [fst corr]. exists (VChar (hd 0%N m)), m, (skipn (length m) cs), [].
        split; [reflexivity|]. split; [apply term_match_prefix in TM; exact TM|]. repeat split; auto.
      * rewrite T. apply IH.
    + pose proof (IHr n st gl cs Hr Hs) as B.
      destruct (ev_rule ev n st gl) as [[v st'|e|p|] gl']; cbn [fst] in *.
      * destruct B as [w [m [cs' [l [E1 [E2 [E3 [E4 [E5 E6]]]]]]]]]. rewrite E1.
        exists w, m, cs', l. repeat split; auto.
      * destruct B as [l [E1 _]]. rewrite E1. apply IH.
      * panic_tac.
      * rewrite B. reflexivity.
Qed.

Lemma char_checks_eq nm cks c : char_checks ustate hk nm cks c = s_char_checks shk cks c.
Proof. induction cks as [|f cks IH]; cbn; [reflexivity|]. rewrite Hpure_cc, IH. reflexivity. Qed.

Lemma char_rule_ok r st gl cs :
  rest st = encode_str cs -> all_scalar cs ->
  corr eq (far st) cs (off st) (fst (char_rule_body ustate scfg tcfg hk ev r st gl))
       (let cls := {| e_pos := off st; e_spec := ExpectedCharacterClass (cr_name r) |} in
        if match cr_checks r with
           | [] => true
           | cks => match cs with c :: _ => s_char_checks shk cks c | [] => false end
           end
        then match s_char_parts sv (cr_choices r) cs (off st) with
             | SFail _ => SFail [cls]
             | other => other
             end
        else SFail [cls]).
Proof.
  intros Hr Hs. unfold char_rule_body. cbn zeta.
  destruct (cr_checks r) as [|f cks] eqn:CK; [apply char_parts_ok; auto|].
  destruct cs as [|c cs].
  - rewrite Hr. cbn. eexists. split; [reflexivity|]. apply report_error_fl. exact Hle.
  - apply all_scalar_cons in Hs. destruct Hs as [Hc Hs'].
    rewrite Hr, encode_str_cons. destruct (encode_cons_inv c cs) as [b [t Ebt]]. rewrite Ebt at 1.
    rewrite decode1_encode by exact Hc. rewrite char_checks_eq.
    destruct (s_char_checks shk (f :: cks) c).
    + apply char_parts_ok; auto. apply all_scalar_cons. auto.
    + cbn. eexists. split; [reflexivity|]. apply report_error_fl. exact Hle.
Qed.

(* ---- @extern rules ------------------------------------------------------------------------ *)
Lemma extern_rule_ok r st gl cs :
  rest st = encode_str cs -> all_scalar cs ->
  corr eq (far st) cs (off st) (fst (extern_rule_body ustate scfg hk r st gl))
       (match sh_extern shk (er_function r) (encode_str cs) with
        | inl (v, n) =>
          match split_bytes n cs with
          | Some (m, cs') => SOk v cs' (off st + n) []
          | None => SStuck
          end
        | inr msg => SFail [ {| e_pos := off st; e_spec := ExternRuleFailed msg |} ]
        end).
Proof.
  intros Hr Hs. unfold extern_rule_body. rewrite Hr.
  pose proof (Hpure_ext (er_function r) (encode_str cs) (g_user gl)) as P.
  destruct (h_extern hk (er_function r) (encode_str cs) (g_user gl)) as [res u]. cbn in P. subst res.
  destruct (sh_extern shk (er_function r) (encode_str cs)) as [[v n]|msg].
  - unfold advance_safe. destruct (advance st n) as [st'| |] eqn:A; cbn [fst corr]; try panic_tac.
    destruct (advance_split st cs n st' Hr Hs A) as [m [cs' [H1 [H2 [H3 [H4 [H5 H6]]]]]]].
    rewrite H1. exists v, m, cs', []. split; [rewrite H5; reflexivity|]. split; [exact H2|].
    split; [rewrite H5, H3; reflexivity|]. repeat split; auto.
  - unfold fail_at. cbn [fst corr]. eexists. split; [reflexivity|]. apply report_error_fl. exact Hle.
Qed.

(* ---- parse_<Rule> --------------------------------------------------------------------------- *)
Lemma find_grule_in' (gr : grammar) n r : find_grule gr n = Some r -> In r gr.
Proof.
  induction gr as [|x g' IH]; cbn; [discriminate|].
  destruct (name_eqb (grule_name x) n); [intro H; injection H as <-; auto|auto].
Qed.
Lemma find_grule_in n r : find_grule g n = Some r -> In r g.
Proof. apply find_grule_in'. Qed.

Theorem rule_step_ok n st gl cs :
  rest st = encode_str cs -> all_scalar cs ->
  corr eq (far st) cs (off st)
       (fst (rule_step ustate scfg tcfg fcfg rcfg hk g ev n st gl))
       (srule_step fcfg shk g sv n cs (off st)).
Proof.
  intros Hr Hs. unfold rule_step, srule_step.
  destruct (find_grule g n) as [[r|r|r]|] eqn:FG.
  - destruct (Hplain r (find_grule_in _ _ FG)) as [Hm Hl]. rewrite Hl.
    unfold memo_wrap. rewrite Hl, Hm.
    pose proof (rule_body_ok r st (trace ustate (TStart (r_name r) (off st)) gl) cs Hr Hs) as B.
    destruct (rule_body ustate scfg fcfg hk g ev r st (trace ustate (TStart (r_name r) (off st)) gl))
      as [[v st'|e|p|] gl']; cbn [fst] in *; exact B.
  - apply char_rule_ok; auto.
  - apply extern_rule_ok; auto.
  - destruct (name_eqb n n_char).
    + eapply lift_term_ok; [apply parse_char_ok; auto|reflexivity].
    + destruct (name_eqb n n_Whitespace); [|panic_tac].
      eapply lift_term_ok; [apply parse_Whitespace_ok; auto|reflexivity].
Qed.

End Step.

(* ====================================================================== *)
(* the fuel induction *)

Notation Mrun := (run ustate scfg tcfg fcfg rcfg hk g).
Notation Srun := (srun fcfg shk g (insens_guard rcfg)).

Theorem sim_all n :
  (forall ctx e st gl cs,
     dom fcfg g F (c_fields ctx) e -> wf_rf (c_fields ctx) ->
     rest st = encode_str cs -> all_scalar cs ->
     corr (RVe ctx e) (far st) cs (off st)
          (fst (ev_expr (Mrun n) ctx e st gl)) (sv_expr (Srun n) (c_skip ctx) e cs (off st))) /\
  (forall nm st gl cs,
     rest st = encode_str cs -> all_scalar cs ->
     corr eq (far st) cs (off st) (fst (ev_rule (Mrun n) nm st gl)) (sv_rule (Srun n) nm cs (off st))) /\
  loop_inv (ev_loop (Mrun n)) (sv_loop (Srun n)).
Proof.
  induction n as [|n [IHe [IHr IHl]]].
  - split; [|split]; [cbn; intros; reflexivity | cbn; intros; reflexivity | unfold loop_inv; cbn; intros; reflexivity].
  - split; [|split].
    + intros. apply expr_step_ok; auto.
    + intros. apply rule_step_ok; auto.
    + apply loop_step_ok; auto.
Qed.

End Sim.
