(* C16 / C20: the order-relevant containers of the generator are canonical
   (sorted by key, so the emitted enum variants depend only on the *set* of
   types); independent parses do not interact (interleaving lemma). *)
From Coq Require Import Lia.
From PegV Require Import Utf8 State Syntax Fields FieldsFacts.

(* ---- BTreeMap<&str, FieldProperties> as a strictly sorted association list ---- *)
Fixpoint types_sorted (m : list (name * bool)) : Prop :=
  match m with
  | [] => True
  | (k, _) :: r => (match r with (k', _) :: _ => name_ltb k k' = true | [] => True end) /\ types_sorted r
  end.

Lemma name_ltb_irrefl a : name_ltb a a = false.
Proof. induction a as [|x a IH]; cbn; [reflexivity|]. rewrite N.ltb_irrefl, N.eqb_refl. exact IH. Qed.

Lemma name_ltb_trans a b c : name_ltb a b = true -> name_ltb b c = true -> name_ltb a c = true.
Proof.
  revert b c. induction a as [|x a IH]; intros [|y b] [|z c]; cbn; try discriminate; auto.
  destruct (N.ltb x y) eqn:Lxy, (N.ltb y z) eqn:Lyz.
  - intros _ _. apply N.ltb_lt in Lxy. apply N.ltb_lt in Lyz.
    replace (N.ltb x z) with true by (symmetry; apply N.ltb_lt; lia). reflexivity.
  - destruct (N.eqb y z) eqn:Eyz; [|discriminate]. apply N.eqb_eq in Eyz. subst. rewrite Lxy. auto.
  - destruct (N.eqb x y) eqn:Exy; [|discriminate]. apply N.eqb_eq in Exy. subst. rewrite Lyz. auto.
  - destruct (N.eqb x y) eqn:Exy; [|discriminate]. destruct (N.eqb y z) eqn:Eyz; [|discriminate].
    apply N.eqb_eq in Exy. apply N.eqb_eq in Eyz. subst. rewrite Lyz, N.eqb_refl. apply IH.
Qed.

Lemma name_ltb_total a b : name_ltb a b = false -> name_eqb a b = false -> name_ltb b a = true.
Proof.
  revert b. induction a as [|x a IH]; intros [|y b]; cbn; try discriminate; auto.
  destruct (N.ltb x y) eqn:Lxy; [discriminate|].
  destruct (N.eqb x y) eqn:Exy.
  - apply N.eqb_eq in Exy. subst. rewrite N.ltb_irrefl, N.eqb_refl. cbn. apply IH.
  - intros _ _. apply N.ltb_ge in Lxy. apply N.eqb_neq in Exy.
    replace (N.ltb y x) with true by (symmetry; apply N.ltb_lt; lia). reflexivity.
Qed.

Lemma types_insert_sorted k b m : types_sorted m -> types_sorted (types_insert k b m).
Proof.
  induction m as [|[k1 b1] m IH]; intro H; cbn; [auto|].
  destruct (name_eqb k k1) eqn:E.
  - cbn in *. exact H.
  - destruct (name_ltb k k1) eqn:L.
    + cbn. split; [exact L|exact H].
    + cbn in H. destruct H as [H1 H2]. specialize (IH H2).
      cbn. split; [|exact IH].
      destruct m as [|[k2 b2] m]; cbn.
      * apply name_ltb_total; [exact L|exact E].
      * destruct (name_eqb k k2); [exact H1|]. destruct (name_ltb k k2); [|exact H1].
        apply name_ltb_total; [exact L|exact E].
Qed.

Lemma combine_types_sorted l r : types_sorted l -> types_sorted (combine_types l r).
Proof.
  unfold combine_types. revert l. induction r as [|[k b] r IH]; intros l H; cbn; [exact H|].
  apply IH. apply types_insert_sorted. exact H.
Qed.

(* two strictly sorted lists with the same entries are the same list: the
   order of the generated enum variants depends only on the set of types *)
Lemma sorted_lt_all k b m : types_sorted ((k, b) :: m) -> forall k' b', In (k', b') m -> name_ltb k k' = true.
Proof.
  revert k b. induction m as [|[k1 b1] m IH]; intros k b H k' b' Hin; [destruct Hin|].
  cbn in H. destruct H as [H1 H2]. destruct Hin as [E|Hin].
  - injection E as <- <-. exact H1.
  - eapply name_ltb_trans; [exact H1|]. eapply (IH k1 b1); eauto.
Qed.

Theorem sorted_canonical m1 : forall m2,
  types_sorted m1 -> types_sorted m2 -> (forall x, In x m1 <-> In x m2) -> m1 = m2.
Proof.
  induction m1 as [|[k1 b1] m1 IH]; intros m2 S1 S2 H.
  - destruct m2 as [|x m2]; [reflexivity|]. exfalso. apply (H x). left. reflexivity.
  - destruct m2 as [|[k2 b2] m2]; [exfalso; apply (H (k1, b1)); left; reflexivity|].
    assert (E : (k1, b1) = (k2, b2)).
    { destruct (proj1 (H (k1, b1)) (or_introl eq_refl)) as [E|Hin]; [symmetry; exact E|].
      destruct (proj2 (H (k2, b2)) (or_introl eq_refl)) as [E|Hin2]; [exact E|].
      pose proof (sorted_lt_all _ _ _ S2 _ _ Hin) as L1.
      pose proof (sorted_lt_all _ _ _ S1 _ _ Hin2) as L2.
      pose proof (name_ltb_trans _ _ _ L1 L2) as L. rewrite name_ltb_irrefl in L. discriminate. }
    injection E as <- <-. f_equal. apply IH.
    + cbn in S1. tauto.
    + cbn in S2. tauto.
    + intro x. split; intro Hx.
      * destruct (proj1 (H x) (or_intror Hx)) as [E|Hin]; [|exact Hin]. subst x.
        pose proof (sorted_lt_all _ _ _ S1 _ _ Hx) as L. rewrite name_ltb_irrefl in L. discriminate.
      * destruct (proj2 (H x) (or_intror Hx)) as [E|Hin]; [|exact Hin]. subst x.
        pose proof (sorted_lt_all _ _ _ S2 _ _ Hx) as L. rewrite name_ltb_irrefl in L. discriminate.
Qed.

(* ---- independent parses: every interleaving projects to the sequential runs ---- *)
Section Interleave.
Variable St : Type.                 (* the private state of one parse (its ParseGlobal, cursor, ...) *)
Variable step : St -> St.           (* one step of a parse acts on its own component only *)

Definition upd (n : nat) (f : St -> St) (s : nat -> St) : nat -> St :=
  fun i => if Nat.eqb i n then f (s i) else s i.

Fixpoint run_sched (sched : list nat) (s : nat -> St) : nat -> St :=
  match sched with
  | [] => s
  | i :: r => run_sched r (upd i step s)
  end.

Fixpoint iter (k : nat) (x : St) : St := match k with O => x | S k' => iter k' (step x) end.

Theorem interleave_projects sched : forall s i,
  run_sched sched s i = iter (count_occ Nat.eq_dec sched i) (s i).
Proof.
  induction sched as [|j r IH]; intros s i; cbn [run_sched count_occ]; [reflexivity|].
  rewrite IH. unfold upd. destruct (Nat.eq_dec j i) as [->|Hne].
  - rewrite Nat.eqb_refl. reflexivity.
  - replace (Nat.eqb i j) with false by (symmetry; apply Nat.eqb_neq; auto). reflexivity.
Qed.

(* two schedules with the same number of steps per parse end in the same states *)
Corollary interleave_irrelevant s1 s2 s :
  (forall i, count_occ Nat.eq_dec s1 i = count_occ Nat.eq_dec s2 i) ->
  forall i, run_sched s1 s i = run_sched s2 s i.
Proof. intros H i. rewrite !interleave_projects, H. reflexivity. Qed.

End Interleave.
