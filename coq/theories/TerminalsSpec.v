(* Character-level meaning of the terminals, as doc/syntax.md defines them:
   what a literal, a case-insensitive literal, a range, `char`, `$` and the
   built-in whitespace match on a list of characters (code points). *)
From PegV Require Import Utf8.

Inductive term :=
| TmAny                      (* char *)
| TmChar (c : N)             (* 'c' — one-character literal *)
| TmRange (a b : N)          (* 'a'..'b' inclusive *)
| TmStr (s : list N)         (* 'string' *)
| TmIStr (s : list N)        (* i'string', s already ASCII-lower-cased *)
| TmIChar (c : N)            (* i'c' *)
| TmEoi                      (* $ *)
| TmWs.                      (* built-in Whitespace *)

Definition lower_char (c : N) : N := if is_ascii c then to_ascii_lower c else c.
Definition is_ws_char (c : N) : bool := is_ascii_ws c.

Fixpoint list_eqb (a b : list N) : bool :=
  match a, b with
  | [], [] => true
  | x :: a', y :: b' => N.eqb x y && list_eqb a' b'
  | _, _ => false
  end.

Fixpoint take_ws (cs : list N) : list N :=
  match cs with
  | c :: r => if is_ws_char c then c :: take_ws r else []
  | [] => []
  end.

(* the characters a terminal matches at the head of cs, if it matches *)
Definition term_match (t : term) (cs : list N) : option (list N) :=
  match t with
  | TmAny => match cs with c :: _ => Some [c] | [] => None end
  | TmChar c => match cs with x :: _ => if N.eqb x c then Some [x] else None | [] => None end
  | TmRange a b =>
    match cs with
    | x :: _ => if N.leb a x && N.leb x b then Some [x] else None
    | [] => None
    end
  | TmStr s =>
    if list_eqb s (firstn (length s) cs) then Some s else None
  | TmIStr s =>
    if list_eqb s (map lower_char (firstn (length s) cs)) then Some (firstn (length s) cs) else None
  | TmIChar c =>
    match cs with x :: _ => if N.eqb (lower_char x) c then Some [x] else None | [] => None end
  | TmEoi => match cs with [] => Some [] | _ => None end
  | TmWs => Some (take_ws cs)
  end.

Definition ascii_lower_str (s : list N) : Prop :=
  Forall (fun c => is_ascii c = true /\ to_ascii_lower c = c) s.
