(* C07, the usual shape with SEVERAL recursive alternatives first:

       A = l1:A x1... | l2:A x2... | ... | b...

   (e.g.  Expr = left:*Expr '+' n:Num | left:*Expr '-' n:Num | n:Num).  Provided nothing is skipped
   between the entry of the rule and the recursive fields (UsualShape.ws_trivial) and the rests  xi...
   of the recursive alternatives refer to rules of a clean set only (CleanFrame: so they leave the
   cache as it is), the recursive field of EVERY recursive alternative evaluates - without running
   anything - to the loop's current best result: the body of a turn is

     seed turn   (best = sentinel error e): every recursive alternative fails with e, then the other
                 alternatives are tried at the entry state that recorded these failures
     growth turn (best = Ok v s1): the rests are tried in order, each from s1 with its field bound to
                 v; the first that matches is the turn's result; when all fail, the other alternatives

   (`rec_loop`, theorem `usualN_body_eq`: exact, for every bound, hooks and tracer), and `usualN_turn`
   is the loop equation C07_grow with that body. *)
From Coq Require Import Lia.
From PegV Require Import Utf8 Utf8Facts State Terminals Syntax Fields FieldsFacts Literals Model FuelMono CleanFrame UsualShape.

Record ralt := { ra_l : name; ra_bx : bool; ra_x1 : expr; ra_xs : list expr }.

Section UsualN.
Variable ustate : Type.
Variable scfg : state_cfg.
Variable tcfg : term_cfg.
Variable fcfg : fields_cfg.
Variable rcfg : rule_cfg.
Variable hk : hooks ustate.
Variable g : grammar.
Notation glb := (glob ustate).
Notation Mrun := (run ustate scfg tcfg fcfg rcfg hk g).

Variable A : rule.
Notation a := (r_name A).
Hypothesis Hfind : find_grule g a = Some (GRule A).
Hypothesis Hlr : fl_left_recursive (flags_of (r_directives A)) = true.

Definition ralt_e (r : ralt) : expr := alt1 A (ra_l r) (ra_bx r) (ra_x1 r) (ra_xs r).

Variable recs : list ralt.
Variable balts : list expr.
Definition adefN : expr := EChoice (map ralt_e recs ++ balts).
Variables (al1 al2 : expr) (alr : list expr).
Hypothesis Hshape : map ralt_e recs ++ balts = al1 :: al2 :: alr.     (* at least two alternatives *)
Hypothesis HdefN : r_def A = adefN.

Variable rf fds : list fdesc.
Hypothesis HrfN : get_fields fcfg (gf_fuel g) g adefN = GFOk rf.
Notation ctxA := (actx A rf).
Hypothesis HfdsN : filt fcfg g ctxA adefN = Some fds.
Variables fds1_of inner_of : ralt -> list fdesc.
Hypothesis Hper : forall r, In r recs ->
  filt fcfg g ctxA (ralt_e r) = Some (fds1_of r) /\ own_fields fcfg g (ralt_e r) = Some (inner_of r).

Variable clean : name -> bool.
Hypothesis Hclean : forall n, clean n = true -> rule_clean g clean n.
Hypothesis Hinc : forall n r, clean n = true -> find_rule g n = Some r -> eclean clean (r_def r) = true.
Hypothesis Hwsc : clean n_Whitespace = true.
Hypothesis Htails : forall r, In r recs -> lclean clean (ra_x1 r :: ra_xs r) = true.

(* the alternatives of one turn with every recursive reference resolved to c *)
Fixpoint rec_loop (k : nat) (c : cached) (rs : list ralt) (cst : pstate) (gl : glb) : R ustate fields :=
  match rs with
  | [] => choice_loop ustate scfg fcfg g (Mrun (S (S (S k)))) ctxA fds balts cst gl
  | r :: rest =>
    match c with
    | CErr e => rec_loop k c rest (record_error scfg cst e) (hitg ustate A c cst gl)
    | COk v s1 =>
      match postprocess rf (ra_l r) a v with
      | Some fs =>
        match seq_merge_vals [] fs with
        | Some acc =>
          match seq_loop ustate (Mrun (S (S k))) ctxA (fds1_of r) (ra_x1 r :: ra_xs r) s1 acc (hitg ustate A c cst gl) with
          | (MOk fs' s2, gl') =>
            match convert_arm fds (inner_of r) fs' with
            | Some out => (MOk out s2, gl')
            | None => (MPanic PanicShape, gl')
            end
          | (MErr e', gl') => rec_loop k c rest (record_error scfg cst e') gl'
          | (MPanic p, gl') => (MPanic p, gl')
          | (MFuel, gl') => (MFuel, gl')
          end
        | None => (MPanic PanicShape, hitg ustate A c cst gl)
        end
      | None => (MPanic PanicShape, hitg ustate A c cst gl)
      end
    end
  end.

(* recording an error does not move the state: nothing to skip stays nothing to skip *)
Lemma ws_far bs : forall o f v s, ws_loop bs o f = TOk v s -> far s = f.
Proof.
  induction bs as [|x r IH]; intros o f v s E; cbn [ws_loop] in E.
  - injection E as _ <-. reflexivity.
  - destruct (is_ascii_ws x); [|injection E as _ <-; reflexivity].
    destruct (advance {| rest := x :: r; off := o; far := f |} 1); try discriminate. exact (IH _ _ _ _ E).
Qed.

Lemma ws_trivial_record st e : ws_trivial g A rf st -> ws_trivial g A rf (record_error scfg st e).
Proof.
  intros [W|[W1 W2]]; [left; exact W|]. right. split; [exact W1|].
  assert (S : Rst (record_error scfg st e) st) by apply Rst_record_l.
  destruct S as [S1 S2]. unfold parse_Whitespace in *. rewrite S1, S2.
  pose proof (T_wsl (rest st) (off st) (far st) (far (record_error scfg st e))) as T. rewrite W2 in T.
  destruct (ws_loop (rest st) (off st) (far (record_error scfg st e))) as [v s| | |] eqn:E; cbn [trel] in T; try contradiction.
  destruct T as [<- [T1 T2]]. pose proof (ws_far _ _ _ _ _ E) as Ff.
  destruct s as [r o f]. cbn in T1, T2, Ff. subst.
  destruct (record_error scfg st e) as [r' o' f'] eqn:R. cbn in *. subst. reflexivity.
Qed.

Lemma off_record st e : off (record_error scfg st e) = off st.
Proof. exact (proj2 (Rst_record_l scfg st e)). Qed.

Lemma frameN K : Cev ustate clean (Mrun K).
Proof. apply clean_frame; assumption. Qed.

Lemma rec_loop_eq k c : forall rs, incl rs recs -> forall cst gl,
  ws_trivial g A rf cst -> cache_get a (off cst) (g_cache gl) = Some c ->
  choice_loop ustate scfg fcfg g (Mrun (S (S (S k)))) ctxA fds (map ralt_e rs ++ balts) cst gl = rec_loop k c rs cst gl.
Proof.
  induction rs as [|r rest IH]; intros Hin cst gl W C; [reflexivity|].
  assert (Hr : In r recs) by (apply Hin; left; reflexivity).
  assert (Hrest : incl rest recs) by (intros x Hx; apply Hin; right; exact Hx).
  destruct (Hper r Hr) as [Hf Ho].
  cbn [map app choice_loop rec_loop].
  unfold ralt_e at 1.
  rewrite (alt1_eval ustate scfg tcfg fcfg rcfg hk g A (ra_l r) (ra_bx r) (ra_x1 r) (ra_xs r) Hfind Hlr rf (fds1_of r) Hf k cst gl c W C).
  destruct c as [v s1|e].
  - destruct (postprocess rf (ra_l r) a v) as [fs|]; [|reflexivity].
    destruct (seq_merge_vals [] fs) as [acc|]; [|reflexivity].
    pose proof (F_seq_loop ustate clean _ (frameN (S (S k))) ctxA (fds1_of r) (ra_x1 r :: ra_xs r) (Htails r Hr)
                  s1 s1 acc (hitg ustate A (COk v s1) cst gl) (hitg ustate A (COk v s1) cst gl) (Rst_refl s1) eq_refl) as P.
    destruct P as [_ [_ [Ca _]]].
    destruct (seq_loop ustate (Mrun (S (S k))) ctxA (fds1_of r) (ra_x1 r :: ra_xs r) s1 acc (hitg ustate A (COk v s1) cst gl))
      as [[fs' s2|e'|p|] gl'] eqn:T; cbn [snd] in Ca.
    + fold (ralt_e r). rewrite Ho. reflexivity.
    + apply (IH Hrest); [apply ws_trivial_record; exact W|].
      rewrite off_record, Ca. exact C.
    + reflexivity.
    + reflexivity.
  - apply (IH Hrest); [apply ws_trivial_record; exact W|].
    rewrite off_record. exact C.
Qed.

Lemma rule_body_finishN ev st gl :
  rule_body ustate scfg fcfg hk g ev A st gl = finish ustate scfg hk A rf st (ev_expr ev ctxA adefN st gl).
Proof.
  unfold rule_body, finish. rewrite HdefN, HrfN. fold ctxA.
  destruct (ev_expr ev ctxA adefN st gl) as [[fs st'|e|p|] gl']; reflexivity.
Qed.

(* the body of one turn *)
Theorem usualN_body_eq k st gl c :
  ws_trivial g A rf st -> cache_get a (off st) (g_cache gl) = Some c ->
  rule_body ustate scfg fcfg hk g (Mrun (S (S (S (S k))))) A st gl =
  finish ustate scfg hk A rf st (rec_loop k c recs st gl).
Proof.
  intros W C. rewrite rule_body_finishN. f_equal.
  rewrite ee_S. unfold adefN at 1. rewrite Hshape. cbn [expr_step]. rewrite <- Hshape. fold adefN. rewrite HfdsN.
  apply rec_loop_eq; [apply incl_refl|exact W|exact C].
Qed.

(* the loop equation with the resolved body *)
Theorem usualN_turn k st best gl :
  ws_trivial g A rf st -> cache_get a (off st) (g_cache gl) = Some best ->
  ev_grow (Mrun (S (S (S (S (S k)))))) A st best gl =
  match finish ustate scfg hk A rf st (rec_loop k best recs st (trace ustate (TInfo 2) gl)) with
  | (MOk v st', gl2) =>
    match best with
    | COk _ bst =>
      if is_further_than scfg st' bst
      then ev_grow (Mrun (S (S (S (S k))))) A st (COk v st') (cache_put ustate a (off st) (COk v st') gl2)
      else (of_cached best, gl2)
    | CErr _ => ev_grow (Mrun (S (S (S (S k))))) A st (COk v st') (cache_put ustate a (off st) (COk v st') gl2)
    end
  | (MErr e, gl2) =>
    if leftrec_closed rcfg then
      match best with
      | COk _ _ => (of_cached best, gl2)
      | CErr _ => (MErr e, cache_put ustate a (off st) (CErr e) gl2)
      end
    else (MErr e, gl2)
  | (MPanic p, gl2) => (MPanic p, gl2)
  | (MFuel, gl2) => (MFuel, gl2)
  end.
Proof.
  intros W C. rewrite eg_S. unfold grow_step.
  rewrite (usualN_body_eq k st (trace ustate (TInfo 2) gl) best W C). reflexivity.
Qed.

(* the resolved body of a turn *)
Definition bodyN (k : nat) (st : pstate) (c : cached) (gl : glb) : R ustate value :=
  finish ustate scfg hk A rf st (rec_loop k c recs st gl).

(* ---- the loop ----------------------------------------------------------------------------- *)
Lemma cache_get_putN n k c (gl : glb) :
  cache_get n k (g_cache (cache_put ustate n k c gl)) = Some c.
Proof.
  cbn [cache_put g_cache cache_get]. rewrite name_eqb_refl, PeanoNat.Nat.eqb_refl. reflexivity.
Qed.

(* one turn, as C07_grow, with the resolved body *)
Theorem usualN_turn' k st best gl :
  ws_trivial g A rf st -> cache_get a (off st) (g_cache gl) = Some best ->
  ev_grow (Mrun (S (S (S (S (S k)))))) A st best gl =
  match bodyN k st best (trace ustate (TInfo 2) gl) with
  | (MOk v st', gl2) =>
    match best with
    | COk _ bst =>
      if is_further_than scfg st' bst
      then ev_grow (Mrun (S (S (S (S k))))) A st (COk v st') (cache_put ustate a (off st) (COk v st') gl2)
      else (of_cached best, gl2)
    | CErr _ => ev_grow (Mrun (S (S (S (S k))))) A st (COk v st') (cache_put ustate a (off st) (COk v st') gl2)
    end
  | (MErr e, gl2) =>
    if leftrec_closed rcfg then
      match best with
      | COk _ _ => (of_cached best, gl2)
      | CErr _ => (MErr e, cache_put ustate a (off st) (CErr e) gl2)
      end
    else (MErr e, gl2)
  | (MPanic p, gl2) => (MPanic p, gl2)
  | (MFuel, gl2) => (MFuel, gl2)
  end.
Proof.
  intros W C. rewrite eg_S. unfold grow_step.
  rewrite (usualN_body_eq k st (trace ustate (TInfo 2) gl) best W C). reflexivity.
Qed.

(* the entry: no result for (A, offset) yet - the sentinel is planted and the loop starts *)
Theorem usualN_entry k st gl :
  cache_get a (off st) (g_cache gl) = None ->
  ev_rule (Mrun (S k)) a st gl =
  let sentinel := CErr (report_error scfg st LeftRecursionSentinel) in
  match ev_grow (Mrun k) A st sentinel
          (cache_put ustate a (off st) sentinel (trace ustate (TStart a (off st)) gl)) with
  | (MOk v st', gl2) => (MOk v st', trace ustate (TResOk (off st')) gl2)
  | (MErr e, gl2) => (MErr e, trace ustate (TResErr e) gl2)
  | other => other
  end.
Proof.
  intro C. rewrite er_S. unfold rule_step. rewrite Hfind.
  unfold memo_wrap. rewrite Hlr. cbn [trace g_cache]. rewrite C. reflexivity.
Qed.

(* ---- what the loop returns ------------------------------------------------------------------ *)
(* `ProducedN st c v s`: the result (v, s) was obtained from c by turns of the resolved body, each result
   strictly further than the one it replaces (any result replaces the sentinel), and the loop stopped at
   (v, s) because one more turn of the body did not get strictly further: it failed, or it ended at an
   offset that is not beyond s (greedy) *)
Definition stopsN (r : mres value) (s : pstate) : Prop :=
  match r with
  | MOk _ s2 => is_further_than scfg s2 s = false
  | MErr _ => leftrec_closed rcfg = true
  | _ => False
  end.

Inductive ProducedN (st : pstate) : cached -> value -> pstate -> Prop :=
| PN_stop v s k gl0 r gl1 :
    bodyN k st (COk v s) gl0 = (r, gl1) ->
    cache_get a (off st) (g_cache gl0) = Some (COk v s) ->
    stopsN r s ->
    ProducedN st (COk v s) v s
| PN_turn c k gl0 v1 s1 gl1 v s :
    bodyN k st c gl0 = (MOk v1 s1, gl1) ->
    cache_get a (off st) (g_cache gl0) = Some c ->
    match c with COk _ bst => is_further_than scfg s1 bst = true | CErr _ => True end ->
    ProducedN st (COk v1 s1) v s ->
    ProducedN st c v s.

Definition ok_ofN (c : cached) : Prop := match c with COk _ _ => True | CErr _ => False end.

(* with fewer than four levels the body cannot reach its first recursive field *)
Variables (r1 : ralt) (recs' : list ralt).
Hypothesis Hrecs : recs = r1 :: recs'.

Lemma body_lowN F st gl : F < 4 -> exists gl2, rule_body ustate scfg fcfg hk g (Mrun F) A st gl = (MFuel, gl2).
Proof.
  intro L. rewrite rule_body_finishN.
  assert (Hr1 : In r1 recs) by (rewrite Hrecs; left; reflexivity).
  destruct (Hper r1 Hr1) as [Hf1 _].
  assert (Hal : al1 = ralt_e r1).
  { pose proof Hshape as X. rewrite Hrecs in X. cbn [map app] in X. injection X as X _. symmetry. exact X. }
  destruct F as [|[|[|[|F]]]]; [| | | |lia].
  - eexists. reflexivity.
  - rewrite ee_S. unfold adefN at 1. rewrite Hshape. cbn [expr_step]. rewrite <- Hshape. fold adefN. rewrite HfdsN.
    rewrite Hshape. eexists. reflexivity.
  - rewrite ee_S. unfold adefN at 1. rewrite Hshape. cbn [expr_step]. rewrite <- Hshape. fold adefN. rewrite HfdsN.
    rewrite Hshape. cbn [choice_loop]. rewrite ee_S. rewrite Hal. unfold ralt_e at 1. unfold alt1 at 1. cbn [expr_step].
    fold (alt1 A (ra_l r1) (ra_bx r1) (ra_x1 r1) (ra_xs r1)). fold (ralt_e r1). rewrite Hf1.
    eexists. reflexivity.
  - rewrite ee_S. unfold adefN at 1. rewrite Hshape. cbn [expr_step]. rewrite <- Hshape. fold adefN. rewrite HfdsN.
    rewrite Hshape. cbn [choice_loop]. rewrite ee_S. rewrite Hal. unfold ralt_e at 1. unfold alt1 at 1. cbn [expr_step].
    fold (alt1 A (ra_l r1) (ra_bx r1) (ra_x1 r1) (ra_xs r1)). fold (ralt_e r1). rewrite Hf1.
    cbn [seq_loop]. rewrite ee_S. unfold recf at 1. cbn [expr_step fname_of].
    unfold with_ws. destruct (c_skip ctxA); eexists; reflexivity.
Qed.

Theorem usualN_results st (W : ws_trivial g A rf st) : forall F best gl r gl',
  cache_get a (off st) (g_cache gl) = Some best ->
  ev_grow (Mrun F) A st best gl = (r, gl') ->
  match r with
  | MOk v s' => ProducedN st best v s'
  | MErr e =>
    (* only the seed turn can fail: the rule fails iff the other alternatives fail with the
       recursive reference failing *)
    leftrec_closed rcfg = true -> ~ ok_ofN best /\
    exists k gl0 gl1, bodyN k st best gl0 = (MErr e, gl1)
  | _ => True
  end.
Proof.
  induction F as [|F IH]; intros best gl r gl' C E.
  - cbn in E. injection E as <- <-. exact I.
  - destruct (Compare_dec.lt_dec F 4) as [L|L].
    + rewrite eg_S in E. unfold grow_step in E.
      destruct (body_lowN F st (trace ustate (TInfo 2) gl) L) as [gl2 B]. rewrite B in E.
      injection E as <- <-. exact I.
    + destruct F as [|[|[|[|k]]]]; try lia.
      rewrite (usualN_turn' k st best gl W C) in E.
      destruct (bodyN k st best (trace ustate (TInfo 2) gl)) as [[v1 s1|e|p|] gl2] eqn:B.
      * assert (C' : cache_get a (off st) (g_cache (cache_put ustate a (off st) (COk v1 s1) gl2)) = Some (COk v1 s1))
          by apply cache_get_putN.
        destruct best as [bv bst|be].
        -- destruct (is_further_than scfg s1 bst) eqn:Fu.
           ++ specialize (IH _ _ _ _ C' E). destruct r as [v s'|e|p|]; try exact I.
              ** eapply PN_turn; [exact B|exact C|exact Fu|exact IH].
              ** intro LC. destruct (IH LC) as [N _]. exfalso. apply N. exact I.
           ++ injection E as <- <-. cbn [of_cached]. eapply PN_stop; [exact B|exact C|exact Fu].
        -- specialize (IH _ _ _ _ C' E). destruct r as [v s'|e|p|]; try exact I.
           ** eapply PN_turn; [exact B|exact C|exact I|exact IH].
           ** intro LC. destruct (IH LC) as [N _]. exfalso. apply N. exact I.
      * destruct (leftrec_closed rcfg) eqn:LC.
        -- destruct best as [bv bst|be].
           ++ injection E as <- <-. cbn [of_cached]. eapply PN_stop; [exact B|exact C|exact LC].
           ++ injection E as <- <-. intros _. split; [intro X; exact X|]. eauto.
        -- injection E as <- <-. intro X. discriminate X.
      * injection E as <- <-. exact I.
      * injection E as <- <-. exact I.
Qed.

(* the parse of the rule from its entry (no result for (A, offset) yet) *)
Corollary usualN_parse st (W : ws_trivial g A rf st) F gl r gl' :
  cache_get a (off st) (g_cache gl) = None ->
  ev_rule (Mrun F) a st gl = (r, gl') ->
  let sentinel := CErr (report_error scfg st LeftRecursionSentinel) in
  match r with
  | MOk v s' => ProducedN st sentinel v s'
  | MErr e => leftrec_closed rcfg = true -> exists k gl0 gl1, bodyN k st sentinel gl0 = (MErr e, gl1)
  | _ => True
  end.
Proof.
  intros C E. destruct F as [|F]; [cbn in E; injection E as <- <-; exact I|].
  rewrite (usualN_entry F st gl C) in E. cbv zeta in E.
  set (sentinel := CErr (report_error scfg st LeftRecursionSentinel)) in *.
  destruct (ev_grow (Mrun F) A st sentinel (cache_put ustate a (off st) sentinel (trace ustate (TStart a (off st)) gl)))
    as [r0 gl2] eqn:G.
  pose proof (usualN_results st W F sentinel _ r0 gl2 (cache_get_putN a (off st) sentinel _) G) as U.
  destruct r0 as [v s'|e|p|]; injection E as <- <-; cbv zeta; try exact I; [exact U|].
  intro LC. exact (proj2 (U LC)).
Qed.


(* ================================================================================================
   The closed form for several recursive alternatives: the extension X tries the rests  xi...  in order
   (ordered choice) from the previous result's end state, each with its field bound to the previous
   result.  Further hypotheses as in UsualShape.Closed: the other alternatives over the clean set too,
   stateless hooks, strict progress test, the seed's failure stored.
   ================================================================================================ *)
Section ClosedN.
Hypothesis Hb : lclean clean balts = true.
Hypothesis Hu : forall u u' : ustate, u = u'.
Hypothesis Hstrict : further_gt scfg = true.
Hypothesis Hclosed : leftrec_closed rcfg = true.

Notation finishA := (finish ustate scfg hk A rf).

Lemma Ru_anyN (x y : glb) : Ru ustate x y.
Proof. apply Hu. Qed.

(* ---- the base: the other alternatives ---- *)
Definition base_runN (k : nat) (st st0 : pstate) (gl : glb) : R ustate value :=
  finishA st (choice_loop ustate scfg fcfg g (Mrun k) ctxA fds balts st0 gl).

Definition BokN (st : pstate) (v : value) (s : pstate) : Prop :=
  exists k st0 gl s0 gl', Rst st0 st /\ base_runN k st st0 gl = (MOk v s0, gl') /\ Rst s0 s.
Definition BfailN (st : pstate) : Prop :=
  exists k st0 gl e gl', Rst st0 st /\ base_runN k st st0 gl = (MErr e, gl').

Lemma base_relN k1 k2 st st1 st2 g1 g2 :
  Rst st1 st -> Rst st2 st ->
  nofuel ustate (base_runN k1 st st1 g1) -> nofuel ustate (base_runN k2 st st2 g2) ->
  Rres (fst (base_runN k1 st st1 g1)) (fst (base_runN k2 st st2 g2)).
Proof.
  intros S1 S2 N1 N2. unfold base_runN in *.
  pose proof (run_mono ustate scfg tcfg fcfg rcfg hk g k1 (Nat.max k1 k2) (PeanoNat.Nat.le_max_l _ _)) as M1.
  pose proof (run_mono ustate scfg tcfg fcfg rcfg hk g k2 (Nat.max k1 k2) (PeanoNat.Nat.le_max_r _ _)) as M2.
  rewrite <- (choice_loop_mono ustate scfg fcfg g _ _ M1 ctxA fds balts st1 g1 (nofuel_finish _ _ _ _ _ _ _ N1)).
  rewrite <- (choice_loop_mono ustate scfg fcfg g _ _ M2 ctxA fds balts st2 g2 (nofuel_finish _ _ _ _ _ _ _ N2)).
  assert (S12 : Rst st1 st2) by (eapply Rst_trans; [exact S1|apply Rst_sym; exact S2]).
  pose proof (F_choice_loop ustate scfg fcfg g clean _ (frameN (Nat.max k1 k2)) ctxA fds balts Hb st1 st2 g1 g2 S12 (Ru_anyN _ _)) as P.
  exact (proj1 (F_finish ustate scfg hk A rf st st _ _ g1 g2 (Rst_refl st) P)).
Qed.

Theorem BokN_fun st v s v' s' : BokN st v s -> BokN st v' s' -> v = v' /\ Rst s s'.
Proof.
  intros (k1 & st1 & g1 & s1 & g1' & S1 & E1 & T1) (k2 & st2 & g2 & s2 & g2' & S2 & E2 & T2).
  pose proof (base_relN k1 k2 st st1 st2 g1 g2 S1 S2) as P. rewrite E1, E2 in P. cbn in P.
  destruct (P I I) as [-> P2]. split; [reflexivity|].
  eapply Rst_trans; [apply Rst_sym; exact T1|]. eapply Rst_trans; [exact P2|exact T2].
Qed.

Theorem BokN_not_fail st v s : BokN st v s -> ~ BfailN st.
Proof.
  intros (k1 & st1 & g1 & s1 & g1' & S1 & E1 & T1) (k2 & st2 & g2 & e & g2' & S2 & E2).
  pose proof (base_relN k1 k2 st st1 st2 g1 g2 S1 S2) as P. rewrite E1, E2 in P. cbn in P. exact (P I I).
Qed.

(* ---- the extension: the rests in order ---- *)
Inductive touts := TDone (x : R ustate fields) | TExhausted (cst : pstate) (gl : glb).

Fixpoint rec_tails (k : nat) (v : value) (s1 : pstate) (rs : list ralt) (cst : pstate) (gl : glb) : touts :=
  match rs with
  | [] => TExhausted cst gl
  | r :: rest =>
    match postprocess rf (ra_l r) a v with
    | Some fs =>
      match seq_merge_vals [] fs with
      | Some acc =>
        match seq_loop ustate (Mrun k) ctxA (fds1_of r) (ra_x1 r :: ra_xs r) s1 acc (hitg ustate A (COk v s1) cst gl) with
        | (MOk fs' s2, gl') =>
          match convert_arm fds (inner_of r) fs' with
          | Some out => TDone (MOk out s2, gl')
          | None => TDone (MPanic PanicShape, gl')
          end
        | (MErr e', gl') => rec_tails k v s1 rest (record_error scfg cst e') gl'
        | (MPanic p, gl') => TDone (MPanic p, gl')
        | (MFuel, gl') => TDone (MFuel, gl')
        end
      | None => TDone (MPanic PanicShape, hitg ustate A (COk v s1) cst gl)
      end
    | None => TDone (MPanic PanicShape, hitg ustate A (COk v s1) cst gl)
    end
  end.

Lemma rec_loop_tails k v s1 : forall rs cst gl,
  rec_loop k (COk v s1) rs cst gl =
  match rec_tails (S (S k)) v s1 rs cst gl with
  | TDone x => x
  | TExhausted cst' gl' => choice_loop ustate scfg fcfg g (Mrun (S (S (S k)))) ctxA fds balts cst' gl'
  end.
Proof.
  induction rs as [|r rest IH]; intros cst gl; cbn [rec_loop rec_tails]; [reflexivity|].
  destruct (postprocess rf (ra_l r) a v) as [fs|]; [|reflexivity].
  destruct (seq_merge_vals [] fs) as [acc|]; [|reflexivity].
  destruct (seq_loop ustate (Mrun (S (S k))) ctxA (fds1_of r) (ra_x1 r :: ra_xs r) s1 acc (hitg ustate A (COk v s1) cst gl))
    as [[fs' s2|e'|p|] gl']; try reflexivity.
  - destruct (convert_arm fds (inner_of r) fs'); reflexivity.
  - apply IH.
Qed.

Lemma rec_tails_cst k v s1 : forall rs cst gl cst' gl',
  rec_tails k v s1 rs cst gl = TExhausted cst' gl' -> Rst cst' cst.
Proof.
  induction rs as [|r rest IH]; intros cst gl cst' gl' E; cbn [rec_tails] in E.
  - injection E as <- _. apply Rst_refl.
  - destruct (postprocess rf (ra_l r) a v) as [fs|]; [|discriminate].
    destruct (seq_merge_vals [] fs) as [acc|]; [|discriminate].
    destruct (seq_loop ustate (Mrun k) ctxA (fds1_of r) (ra_x1 r :: ra_xs r) s1 acc (hitg ustate A (COk v s1) cst gl))
      as [[fs' s2|e'|p|] g2]; try discriminate.
    + destruct (convert_arm fds (inner_of r) fs'); discriminate.
    + eapply Rst_trans; [exact (IH _ _ _ _ E)|apply Rst_record_l].
Qed.

Definition ext_runN (k : nat) (st : pstate) (v : value) (s1 cst : pstate) (gl : glb) : R ustate value :=
  match rec_tails k v s1 recs cst gl with
  | TDone x => finishA st x
  | TExhausted cst' gl' => (MErr (report_farthest_error cst'), gl')
  end.

Definition XokN (st : pstate) (v : value) (s : pstate) (v' : value) (s' : pstate) : Prop :=
  exists k s1 cst gl s0 gl', Rst s1 s /\ Rst cst st /\ ext_runN k st v s1 cst gl = (MOk v' s0, gl') /\ Rst s0 s'.
Definition XfailN (st : pstate) (v : value) (s : pstate) : Prop :=
  exists k s1 cst gl e gl', Rst s1 s /\ Rst cst st /\ ext_runN k st v s1 cst gl = (MErr e, gl').

(* relating two runs of the rests: results related, or both exhausted *)
Definition trelN (p q : glb) (x y : touts) : Prop :=
  match x, y with
  | TDone a1, TDone b1 => Req ustate p q a1 b1
  | TExhausted c1 g1, TExhausted c2 g2 => Rst c1 c2
  | _, _ => False
  end.

Lemma trelN_chain p q p1 q1 x y :
  g_cache p1 = g_cache p -> g_cache q1 = g_cache q -> trelN p1 q1 x y -> trelN p q x y.
Proof.
  intros Cp Cq. destruct x as [x|c g0]; destruct y as [y|c' g0']; cbn [trelN]; auto.
  apply Req_chain; assumption.
Qed.

Lemma rec_tails_frame K v : forall rs, incl rs recs -> forall sa sb c1 c2 g1 g2,
  Rst sa sb -> Rst c1 c2 ->
  trelN g1 g2 (rec_tails K v sa rs c1 g1) (rec_tails K v sb rs c2 g2).
Proof.
  induction rs as [|r rest IH]; intros Hin sa sb c1 c2 g1 g2 S C; cbn [rec_tails]; [exact C|].
  assert (Hr : In r recs) by (apply Hin; left; reflexivity).
  assert (Hrest : incl rest recs) by (intros x Hx; apply Hin; right; exact Hx).
  destruct (postprocess rf (ra_l r) a v) as [fs|]; [|cbn; repeat split; try reflexivity; apply Ru_anyN].
  destruct (seq_merge_vals [] fs) as [acc|]; [|cbn; repeat split; try reflexivity; apply Ru_anyN].
  pose proof (F_seq_loop ustate clean _ (frameN K) ctxA (fds1_of r) (ra_x1 r :: ra_xs r) (Htails r Hr)
                sa sb acc (hitg ustate A (COk v sa) c1 g1) (hitg ustate A (COk v sb) c2 g2) S (Ru_anyN _ _)) as P.
  destruct P as [E [U [Ca Cb]]].
  destruct (seq_loop ustate (Mrun K) ctxA (fds1_of r) (ra_x1 r :: ra_xs r) sa acc (hitg ustate A (COk v sa) c1 g1)) as [[fa s2|e|p|] ga];
    destruct (seq_loop ustate (Mrun K) ctxA (fds1_of r) (ra_x1 r :: ra_xs r) sb acc (hitg ustate A (COk v sb) c2 g2)) as [[fb s2'|e'|p'|] gb];
    cbn [fst snd] in *; cbn [CleanFrame.Rres] in E; try contradiction.
  - destruct E as [<- E]. destruct (convert_arm fds (inner_of r) fa); cbn; repeat split; try reflexivity; try assumption; apply E.
  - eapply trelN_chain; [exact Ca|exact Cb|]. apply (IH Hrest); [exact S|apply Rst_record; exact C].
  - cbn. repeat split; assumption.
  - cbn. repeat split; assumption.
Qed.

Lemma nofuel_tails k v s1 : forall rs cst gl (ev' : evals ustate),
  le_ev ustate (Mrun k) ev' ->
  (match rec_tails k v s1 rs cst gl with TDone x => nofuel ustate x | TExhausted _ _ => True end) ->
  True.
Proof. intros. exact I. Qed.

(* more fuel does not change a run of the rests that did not run out *)
Lemma rec_tails_mono k K v s1 : k <= K -> forall rs cst gl,
  (match rec_tails k v s1 rs cst gl with TDone x => nofuel ustate x | TExhausted _ _ => True end) ->
  rec_tails K v s1 rs cst gl = rec_tails k v s1 rs cst gl.
Proof.
  intros Hle. pose proof (run_mono ustate scfg tcfg fcfg rcfg hk g k K Hle) as M.
  induction rs as [|r rest IH]; intros cst gl N; cbn [rec_tails] in *; [reflexivity|].
  destruct (postprocess rf (ra_l r) a v) as [fs|]; [|reflexivity].
  destruct (seq_merge_vals [] fs) as [acc|]; [|reflexivity].
  assert (NS : nofuel ustate (seq_loop ustate (Mrun k) ctxA (fds1_of r) (ra_x1 r :: ra_xs r) s1 acc (hitg ustate A (COk v s1) cst gl))).
  { destruct (seq_loop ustate (Mrun k) ctxA (fds1_of r) (ra_x1 r :: ra_xs r) s1 acc (hitg ustate A (COk v s1) cst gl)) as [[? ?|?|?|] ?];
      cbn in *; auto. }
  rewrite (seq_loop_mono ustate _ _ M ctxA (fds1_of r) (ra_x1 r :: ra_xs r) s1 acc _ NS).
  destruct (seq_loop ustate (Mrun k) ctxA (fds1_of r) (ra_x1 r :: ra_xs r) s1 acc (hitg ustate A (COk v s1) cst gl)) as [[fs' s2|e'|p|] g2];
    try reflexivity.
  apply IH. exact N.
Qed.

Lemma ext_nofuel k st v s1 cst gl : nofuel ustate (ext_runN k st v s1 cst gl) ->
  match rec_tails k v s1 recs cst gl with TDone x => nofuel ustate x | TExhausted _ _ => True end.
Proof.
  unfold ext_runN. destruct (rec_tails k v s1 recs cst gl) as [x|c' g']; [apply nofuel_finish|auto].
Qed.

Lemma ext_relN k1 k2 st v sa sb s c1 c2 g1 g2 :
  Rst sa s -> Rst sb s -> Rst c1 st -> Rst c2 st ->
  nofuel ustate (ext_runN k1 st v sa c1 g1) -> nofuel ustate (ext_runN k2 st v sb c2 g2) ->
  Rres (fst (ext_runN k1 st v sa c1 g1)) (fst (ext_runN k2 st v sb c2 g2)).
Proof.
  intros S1 S2 C1 C2 N1 N2.
  pose proof (rec_tails_mono k1 (Nat.max k1 k2) v sa (PeanoNat.Nat.le_max_l _ _) recs c1 g1 (ext_nofuel _ _ _ _ _ _ N1)) as M1.
  pose proof (rec_tails_mono k2 (Nat.max k1 k2) v sb (PeanoNat.Nat.le_max_r _ _) recs c2 g2 (ext_nofuel _ _ _ _ _ _ N2)) as M2.
  unfold ext_runN. rewrite <- M1, <- M2.
  assert (S12 : Rst sa sb) by (eapply Rst_trans; [exact S1|apply Rst_sym; exact S2]).
  assert (C12 : Rst c1 c2) by (eapply Rst_trans; [exact C1|apply Rst_sym; exact C2]).
  pose proof (rec_tails_frame (Nat.max k1 k2) v recs (incl_refl _) sa sb c1 c2 g1 g2 S12 C12) as P.
  destruct (rec_tails (Nat.max k1 k2) v sa recs c1 g1) as [x|cx gx];
    destruct (rec_tails (Nat.max k1 k2) v sb recs c2 g2) as [y|cy gy]; cbn [trelN] in P; try contradiction.
  - exact (proj1 (F_finish ustate scfg hk A rf st st _ _ g1 g2 (Rst_refl st) P)).
  - exact I.
Qed.

Theorem XokN_fun st v s v1 s1 v2 s2 : XokN st v s v1 s1 -> XokN st v s v2 s2 -> v1 = v2 /\ Rst s1 s2.
Proof.
  intros (k1 & sa & c1 & g1 & t1 & g1' & S1 & C1 & E1 & T1) (k2 & sb & c2 & g2 & t2 & g2' & S2 & C2 & E2 & T2).
  pose proof (ext_relN k1 k2 st v sa sb s c1 c2 g1 g2 S1 S2 C1 C2) as P. rewrite E1, E2 in P. cbn in P.
  destruct (P I I) as [-> P2]. split; [reflexivity|].
  eapply Rst_trans; [apply Rst_sym; exact T1|]. eapply Rst_trans; [exact P2|exact T2].
Qed.

Theorem XokN_not_fail st v s v1 s1 : XokN st v s v1 s1 -> ~ XfailN st v s.
Proof.
  intros (k1 & sa & c1 & g1 & t1 & g1' & S1 & C1 & E1 & T1) (k2 & sb & c2 & g2 & e & g2' & S2 & C2 & E2).
  pose proof (ext_relN k1 k2 st v sa sb s c1 c2 g1 g2 S1 S2 C1 C2) as P. rewrite E1, E2 in P. cbn in P. exact (P I I).
Qed.

(* ---- the loop is  B X*  ---- *)
Inductive StarN (st : pstate) : value -> pstate -> value -> pstate -> Prop :=
| SN_refl v s s' : Rst s s' -> StarN st v s v s'
| SN_step v s v1 s1 v2 s2 : XokN st v s v1 s1 -> off s < off s1 -> StarN st v1 s1 v2 s2 -> StarN st v s v2 s2.

Definition StopN (st : pstate) (v : value) (s : pstate) : Prop :=
  XfailN st v s \/ exists v2 s2, XokN st v s v2 s2 /\ off s2 <= off s.

Lemma XokN_start st v s s0 v' s' : Rst s s0 -> XokN st v s0 v' s' -> XokN st v s v' s'.
Proof.
  intros S (k & s1 & c & gl & t & gl' & S1 & C & E & T). exists k, s1, c, gl, t, gl'.
  split; [eapply Rst_trans; [exact S1|apply Rst_sym; exact S]|]. split; [exact C|split; [exact E|exact T]].
Qed.
Lemma XfailN_start st v s s0 : Rst s s0 -> XfailN st v s0 -> XfailN st v s.
Proof.
  intros S (k & s1 & c & gl & e & gl' & S1 & C & E). exists k, s1, c, gl, e, gl'.
  split; [eapply Rst_trans; [exact S1|apply Rst_sym; exact S]|]. split; assumption.
Qed.
Lemma StopN_start st v s s0 : Rst s s0 -> StopN st v s0 -> StopN st v s.
Proof.
  intros S [X|(v2 & s2 & X & L)]; [left; eapply XfailN_start; eauto|].
  right. exists v2, s2. split; [eapply XokN_start; eauto|]. destruct S as [_ S]. rewrite S. exact L.
Qed.
Lemma StarN_start st v s s0 v' s' : Rst s s0 -> StarN st v s0 v' s' -> StarN st v s v' s'.
Proof.
  intros S X. inversion X as [? ? ? R|? ? v1 s1 ? ? X1 L X2]; subst.
  - apply SN_refl. eapply Rst_trans; eauto.
  - eapply SN_step; [eapply XokN_start; eauto| |exact X2]. destruct S as [_ S]. rewrite S. exact L.
Qed.
Lemma StarN_snoc st v s v1 s1 v2 s2 :
  StarN st v s v1 s1 -> XokN st v1 s1 v2 s2 -> off s1 < off s2 -> StarN st v s v2 s2.
Proof.
  induction 1 as [v s s' R|v s va sa vb sb X L X2 IH]; intros Y LY.
  - eapply SN_step; [eapply XokN_start; [exact R|exact Y]| |apply SN_refl; apply Rst_refl].
    destruct R as [_ R]. rewrite R. exact LY.
  - eapply SN_step; [exact X|exact L|]. apply IH; assumption.
Qed.
Lemma StarN_le st v s v' s' : StarN st v s v' s' -> off s <= off s'.
Proof. induction 1 as [v s s' [_ E]|]; [rewrite E; constructor|lia]. Qed.

Lemma stepN_not_stop st v s v1 s1 : XokN st v s v1 s1 -> off s < off s1 -> ~ StopN st v s.
Proof.
  intros X L [Fl|(v2 & s2 & X2 & L2)]; [exact (XokN_not_fail _ _ _ _ _ X Fl)|].
  destruct (XokN_fun _ _ _ _ _ _ _ X X2) as [_ [_ E]]. lia.
Qed.

Theorem greedyN_unique st v s va sa vb sb :
  StarN st v s va sa -> StopN st va sa -> StarN st v s vb sb -> StopN st vb sb -> va = vb /\ Rst sa sb.
Proof.
  intros HA. revert vb sb. induction HA as [v s sa R|v s v1 s1 va sa X L HA IH]; intros vb sb SA HB SB.
  - inversion HB as [? ? ? R2|? ? v1 s1 ? ? X1 L1 B2]; subst.
    + split; [reflexivity|]. eapply Rst_trans; [apply Rst_sym; exact R|exact R2].
    + exfalso. exact (stepN_not_stop _ _ _ _ _ X1 L1 (StopN_start _ _ _ _ R SA)).
  - inversion HB as [? ? ? R2|? ? v1' s1' ? ? X1 L1 B2]; subst.
    + exfalso. exact (stepN_not_stop _ _ _ _ _ X L (StopN_start _ _ _ _ R2 SB)).
    + destruct (XokN_fun _ _ _ _ _ _ _ X X1) as [<- R1].
      apply IH; [exact SA| |exact SB]. eapply StarN_start; [exact R1|exact B2].
Qed.

(* a growth turn: the extension, or - all rests failed - the base again *)
Lemma growth_turnN k st v s1 gl0 r gl1 :
  bodyN k st (COk v s1) gl0 = (r, gl1) ->
  ext_runN (S (S k)) st v s1 st gl0 = (r, gl1) \/
  (XfailN st v s1 /\ exists cst' gl2, Rst cst' st /\ base_runN (S (S (S k))) st cst' gl2 = (r, gl1)).
Proof.
  unfold bodyN. rewrite rec_loop_tails. unfold ext_runN. intro E.
  destruct (rec_tails (S (S k)) v s1 recs st gl0) as [x|cst' gl2] eqn:T.
  - left. exact E.
  - right. split.
    + exists (S (S k)), s1, st, gl0, (report_farthest_error cst'), gl2.
      split; [apply Rst_refl|]. split; [apply Rst_refl|]. unfold ext_runN. rewrite T. reflexivity.
    + exists cst', gl2. split; [exact (rec_tails_cst _ _ _ _ _ _ _ _ T)|exact E].
Qed.

(* the seed turn: every recursive alternative fails with the sentinel, then the base *)
Lemma rec_loop_seed k e : forall rs cst gl, exists cst' gl',
  Rst cst' cst /\ rec_loop k (CErr e) rs cst gl = choice_loop ustate scfg fcfg g (Mrun (S (S (S k)))) ctxA fds balts cst' gl'.
Proof.
  induction rs as [|r rest IH]; intros cst gl; cbn [rec_loop].
  - exists cst, gl. split; [apply Rst_refl|reflexivity].
  - destruct (IH (record_error scfg cst e) (hitg ustate A (CErr e) cst gl)) as (cst' & gl' & R & E).
    exists cst', gl'. split; [eapply Rst_trans; [exact R|apply Rst_record_l]|exact E].
Qed.

Lemma prod_chainN st c v s : ProducedN st c v s ->
  match c with CErr _ => True | COk vc sc => exists v0 s0, BokN st v0 s0 /\ StarN st v0 s0 vc sc end ->
  exists v0 s0, BokN st v0 s0 /\ StarN st v0 s0 v s /\ StopN st v s.
Proof.
  induction 1 as [v s k gl0 r gl1 B C Hs|c k gl0 v1 s1 gl1 v s B C Hf P IH]; intro Inv.
  - destruct Inv as (v0 & s0 & B0 & St). exists v0, s0. split; [exact B0|]. split; [exact St|].
    destruct (growth_turnN _ _ _ _ _ _ _ B) as [E|[Xf _]]; [|left; exact Xf].
    destruct r as [v2 s2|e|p|]; cbn [stopsN] in Hs; try contradiction.
    + right. exists v2, s2. split; [|apply (not_further_le scfg Hstrict); exact Hs].
      exists (S (S k)), s, st, gl0, s2, gl1. split; [apply Rst_refl|]. split; [apply Rst_refl|]. split; [exact E|apply Rst_refl].
    + left. exists (S (S k)), s, st, gl0, e, gl1. split; [apply Rst_refl|]. split; [apply Rst_refl|exact E].
  - destruct c as [vc sc|e].
    + destruct Inv as (v0 & s0 & B0 & St). apply (further_lt scfg Hstrict) in Hf.
      destruct (growth_turnN _ _ _ _ _ _ _ B) as [E|[_ (cst' & gl2 & R & E)]].
      * apply IH. exists v0, s0. split; [exact B0|].
        eapply StarN_snoc; [exact St| |exact Hf].
        exists (S (S k)), sc, st, gl0, s1, gl1. split; [apply Rst_refl|]. split; [apply Rst_refl|]. split; [exact E|apply Rst_refl].
      * exfalso.
        assert (B1 : BokN st v1 s1).
        { exists (S (S (S k))), cst', gl2, s1, gl1. split; [exact R|]. split; [exact E|apply Rst_refl]. }
        destruct (BokN_fun _ _ _ _ _ B0 B1) as [_ [_ E01]]. pose proof (StarN_le _ _ _ _ _ St). lia.
    + apply IH. exists v1, s1. split; [|apply SN_refl; apply Rst_refl].
      unfold bodyN in B. destruct (rec_loop_seed k e recs st gl0) as (cst' & gl' & R & E). rewrite E in B.
      exists (S (S (S k))), cst', gl', s1, gl1. split; [exact R|]. split; [exact B|apply Rst_refl].
Qed.

(* THE CLOSED FORM, several recursive alternatives *)
Theorem closed_formN st (W : ws_trivial g A rf st) F gl r gl' :
  cache_get a (off st) (g_cache gl) = None ->
  ev_rule (Mrun F) a st gl = (r, gl') ->
  match r with
  | MOk v s => exists v0 s0, BokN st v0 s0 /\ StarN st v0 s0 v s /\ StopN st v s
  | MErr _ => BfailN st
  | _ => True
  end.
Proof.
  intros C E. pose proof (usualN_parse st W F gl r gl' C E) as U. cbv zeta in U.
  destruct r as [v s|e|p|]; try exact I.
  - apply (prod_chainN _ _ _ _ U). exact I.
  - destruct (U Hclosed) as (k & gl0 & gl1 & B). unfold bodyN in B.
    destruct (rec_loop_seed k (report_error scfg st LeftRecursionSentinel) recs st gl0) as (cst' & gl2 & R & E2).
    rewrite E2 in B. exists (S (S (S k))), cst', gl2, e, gl1. split; [exact R|exact B].
Qed.

End ClosedN.

End UsualN.
