(* Compile-time decoding of string items, literals and ranges:
   codegen/src/string.rs (From<&HexaEscape>, From<&SimpleEscape>,
   TryFrom<&Utf8Escape>, TryFrom<&StringLiteral> for String,
   StringLiteral::generate_inline_body, CharacterRange::generate_inline_body). *)
From PegV Require Import Utf8 State Syntax.
Local Open Scope N_scope.

(* char::to_digit(16) *)
Definition hex_digit (c : N) : option N :=
  if (0x30 <=? c) && (c <=? 0x39) then Some (c - 0x30)
  else if (0x61 <=? c) && (c <=? 0x66) then Some (c - 0x61 + 10)
  else if (0x41 <=? c) && (c <=? 0x46) then Some (c - 0x41 + 10)
  else None.

Inductive dres (A : Type) :=
| DOk (a : A)
| DInvalidCodepoint (n : N)     (* anyhow!("Invalid utf-8 codepoint ..") *)
| DPanic.                       (* to_digit(16).unwrap() on a non-hex char *)
Arguments DOk {A}. Arguments DInvalidCodepoint {A}. Arguments DPanic {A}.

Definition simple_char (e : simple_escape) : N :=
  match e with
  | EscBackslash => 0x5C | EscCarriageReturn => 0x0D | EscDQuote => 0x22
  | EscNewline => 0x0A | EscQuote => 0x27 | EscTab => 0x09
  end.

(* result = result * 16 + digit, for each present digit *)
Fixpoint utf8_fold (acc : N) (ds : list (option N)) : option N :=
  match ds with
  | [] => Some acc
  | None :: r => utf8_fold acc r
  | Some c :: r =>
    match hex_digit c with
    | Some d => utf8_fold (acc * 16 + d) r
    | None => None
    end
  end.

Definition decode_item (i : string_item) : dres N :=
  match i with
  | SIChar c => if is_scalar c then DOk c else DPanic   (* a Rust `char` is always a scalar value *)
  | SISimple e => DOk (simple_char e)
  | SIHexa c1 c2 =>
    match hex_digit c1, hex_digit c2 with
    | Some a, Some b => DOk ((a * 16 + b) mod 256)      (* u8 arithmetic, then u8 -> char *)
    | _, _ => DPanic
    end
  | SIUtf8 c1 c2 c3 c4 c5 c6 =>
    match hex_digit c1 with
    | None => DPanic
    | Some d1 =>
      match utf8_fold d1 [c2; c3; c4; c5; c6] with
      | None => DPanic
      | Some n => if is_scalar n then DOk n else DInvalidCodepoint n   (* char::from_u32 *)
      end
    end
  end.

Fixpoint decode_items (l : list string_item) : dres (list N) :=
  match l with
  | [] => DOk []
  | i :: r =>
    match decode_item i with
    | DOk c =>
      match decode_items r with
      | DOk cs => DOk (c :: cs)
      | e => e
      end
    | DInvalidCodepoint n => DInvalidCodepoint n
    | DPanic => DPanic
    end
  end.

(* which runtime matcher a literal compiles to, with its parameter *)
Inductive lit_matcher :=
| LMChar (c : N)              (* parse_character_literal *)
| LMStr (s : list N)          (* parse_string_literal, s = the characters *)
| LMIChar (c : N)             (* parse_character_literal_insensitive *)
| LMIStr (s : list N).        (* parse_string_literal_insensitive *)

Inductive lit_res :=
| LOk (m : lit_matcher)
| LInvalidCodepoint (n : N)
| LNonAsciiInsensitive        (* bail!("Case insensitive matching only works for ascii strings") *)
| LPanic.

(* insens_guard: whether generate_inline_body rejects non-ASCII `i` literals
   (regenerated from the source) *)
Definition compile_lit (insens_guard : bool) (insensitive : bool) (body : list string_item) : lit_res :=
  match decode_items body with
  | DInvalidCodepoint n => LInvalidCodepoint n
  | DPanic => LPanic
  | DOk cs =>
    if insensitive then
      if insens_guard && negb (forallb is_ascii cs) then LNonAsciiInsensitive
      else
        let l := map (fun c => if is_ascii c then to_ascii_lower c else c) cs in
        match l with
        | [c] => LOk (LMIChar c)
        | _ => LOk (LMIStr l)
        end
    else
      match cs with
      | [c] => LOk (LMChar c)
      | _ => LOk (LMStr cs)
      end
  end.

Inductive range_res := RgOk (a b : N) | RgInvalidCodepoint (n : N) | RgPanic.

Definition compile_range (from to : string_item) : range_res :=
  match decode_item from with
  | DInvalidCodepoint n => RgInvalidCodepoint n
  | DPanic => RgPanic
  | DOk a =>
    match decode_item to with
    | DInvalidCodepoint n => RgInvalidCodepoint n
    | DPanic => RgPanic
    | DOk b => RgOk a b
    end
  end.
